(* Theorem 2 of Proofs/ParserTotal.v with the two scanner facts discharged by
   Proofs/ScannerFacts.v.  Kept in a file of its own so that ParserTotal.v does not depend on
   ScannerFacts.v. *)
From Formula Require Import Syn.Parser Syn.Grammar Proofs.ScannerFacts Proofs.ParserTotal.

Theorem parse_source_total : forall text, parse_source text <> OutOfFuel.
Proof.
  apply parse_source_total_from.
  - exact scan_all_total.
  - intros text toks H. exact (stream_ends_with_eof text toks H).
Qed.

Print Assumptions parse_source_total.
