(* Proofs about the scanner model: every token decomposes the input into trivia, body and rest;
   scanning terminates within the fuel; tokens tile the text; the stream ends with exactly one
   end-of-file token; identifiers are maximal and keywords are whole words.  All statements are
   for all inputs.  (Operators obey longest match: Proofs/ScannerOps.v.) *)
From Formula Require Import Base.Utf8 Lex.Chars Lex.Scanner Lex.ScanSpec Proofs.Utf8Facts.

(* ---------- lengths of step lists ---------- *)

Lemma steps_len_nil : steps_len [] = 0.
Proof. reflexivity. Qed.

Lemma steps_len_cons : forall r bs t, steps_len ((r, bs) :: t) = blen bs + steps_len t.
Proof.
  intros r bs t. unfold steps_len, steps_bytes, blen. cbn [map concat snd].
  rewrite app_length. lia.
Qed.

Lemma steps_len_app : forall a b, steps_len (a ++ b) = steps_len a + steps_len b.
Proof.
  intros a b. unfold steps_len, steps_bytes.
  rewrite map_app, concat_app, app_length. apply Nat2Z.inj_add.
Qed.

Lemma steps_len_nonneg : forall ss, 0 <= steps_len ss.
Proof. intros ss. unfold steps_len. lia. Qed.

Lemma steps_len_pos : forall ss, Forall step_ok ss -> ss <> [] -> 1 <= steps_len ss.
Proof.
  intros ss Hok Hne. destruct ss as [|[r bs] t]; [congruence|].
  inversion Hok as [|s l Hs Hl]; subst.
  rewrite steps_len_cons. pose proof (steps_len_nonneg t) as Ht.
  unfold step_ok in Hs. cbn [snd] in Hs. unfold blen. lia.
Qed.

(* ---------- trivia ---------- *)

Lemma white_space_not_line_break : forall r, is_white_space r = true -> is_line_break r = false.
Proof.
  intros r Hw. destruct (is_line_break r) eqn:El; [exfalso|reflexivity].
  unfold is_white_space in Hw. unfold is_line_break in El.
  rewrite ?orb_true_iff, ?andb_true_iff, ?Z.eqb_eq, ?Z.leb_le in Hw.
  rewrite ?orb_true_iff, ?Z.eqb_eq in El. lia.
Qed.

Lemma trivia_class_2 : forall r, trivia_class r = 2 -> is_line_break r = true.
Proof.
  intros r H. unfold trivia_class in H.
  destruct ((r =? 10) || (r =? 13)) eqn:E1.
  { unfold is_line_break. rewrite orb_true_iff, !Z.eqb_eq in E1.
    rewrite ?orb_true_iff, ?Z.eqb_eq. lia. }
  destruct ((r =? 9) || (r =? 11) || (r =? 12) || (r =? 32)) eqn:E2; [discriminate H|].
  destruct (is_explicit_char r) eqn:E3; [discriminate H|].
  destruct (is_ident_start r) eqn:E4; [discriminate H|].
  destruct (is_white_space r) eqn:E5; [discriminate H|].
  destruct (is_line_break r) eqn:E6; [reflexivity|discriminate H].
Qed.

Lemma trivia_class_1 : forall r, trivia_class r = 1 -> is_white_space r = true.
Proof.
  intros r H. unfold trivia_class in H.
  destruct ((r =? 10) || (r =? 13)) eqn:E1; [discriminate H|].
  destruct ((r =? 9) || (r =? 11) || (r =? 12) || (r =? 32)) eqn:E2.
  { unfold is_white_space. rewrite !orb_true_iff, !Z.eqb_eq in E2.
    rewrite ?orb_true_iff, ?andb_true_iff, ?Z.eqb_eq, ?Z.leb_le. lia. }
  destruct (is_explicit_char r) eqn:E3; [discriminate H|].
  destruct (is_ident_start r) eqn:E4; [discriminate H|].
  destruct (is_white_space r) eqn:E5; [reflexivity|].
  destruct (is_line_break r) eqn:E6; discriminate H.
Qed.

Lemma skip_trivia_spec : forall ss pos nl ss1 p1 nl1,
  skip_trivia ss pos nl = (ss1, p1, nl1) ->
  exists trivia, ss = trivia ++ ss1 /\ p1 = pos + steps_len trivia /\
    Forall (fun s => is_trivia_step s = true) trivia /\
    nl1 = nl || existsb (fun s => is_line_break (fst s)) trivia.
Proof.
  induction ss as [|[r bs] t IH]; intros pos nl ss1 p1 nl1 H.
  { cbn [skip_trivia] in H. injection H as <- <- <-.
    exists []. cbn [existsb app]. rewrite steps_len_nil, orb_false_r.
    split; [reflexivity|]. split; [lia|]. split; [constructor|reflexivity]. }
  cbn [skip_trivia] in H.
  destruct (trivia_class r =? 2) eqn:E2.
  { apply Z.eqb_eq in E2. apply trivia_class_2 in E2.
    apply IH in H. destruct H as (tr & Hss & Hp & Hall & Hnl).
    exists ((r, bs) :: tr). rewrite steps_len_cons. cbn [existsb fst app].
    split; [rewrite Hss; reflexivity|]. split; [lia|]. split.
    - constructor; [|exact Hall]. unfold is_trivia_step. cbn [fst]. rewrite E2. apply orb_true_r.
    - rewrite Hnl, E2. cbn [orb]. symmetry. apply orb_true_r. }
  destruct (trivia_class r =? 1) eqn:E1.
  { apply Z.eqb_eq in E1. apply trivia_class_1 in E1.
    pose proof (white_space_not_line_break r E1) as Hlb.
    apply IH in H. destruct H as (tr & Hss & Hp & Hall & Hnl).
    exists ((r, bs) :: tr). rewrite steps_len_cons. cbn [existsb fst app].
    split; [rewrite Hss; reflexivity|]. split; [lia|]. split.
    - constructor; [|exact Hall]. unfold is_trivia_step. cbn [fst]. rewrite E1. reflexivity.
    - rewrite Hnl, Hlb. reflexivity. }
  injection H as <- <- <-.
  exists []. cbn [existsb app]. rewrite steps_len_nil, orb_false_r.
  split; [reflexivity|]. split; [lia|]. split; [constructor|reflexivity].
Qed.

(* ---------- runs: each sub-scanner consumes a prefix and advances the position by its length ---------- *)

Lemma scan_frag_suffix : forall ss pos allow isprev ustart acc ds sep acc' rest e ds' sep',
  scan_frag ss pos allow isprev ustart acc ds sep = (acc', rest, e, ds', sep') ->
  exists body, ss = body ++ rest /\ e = pos + steps_len body /\
    (forall r bs t, ss = (r, bs) :: t -> is_digit r = true -> body <> []).
Proof.
  induction ss as [|[r bs] t IH]; intros pos allow isprev ustart acc ds sep acc' rest e ds' sep' H.
  { cbn [scan_frag] in H. injection H as <- <- <- <- <-.
    exists []. rewrite steps_len_nil. split; [reflexivity|]. split; [lia|].
    intros r bs t Heq. discriminate Heq. }
  cbn [scan_frag] in H.
  destruct (r =? 95) eqn:E95.
  { apply IH in H. destruct H as (body & Hss & He & _).
    exists ((r, bs) :: body). rewrite steps_len_cons.
    split; [rewrite Hss; reflexivity|]. split; [lia|]. intros; discriminate. }
  destruct (is_digit r) eqn:Ed.
  { apply IH in H. destruct H as (body & Hss & He & _).
    exists ((r, bs) :: body). rewrite steps_len_cons.
    split; [rewrite Hss; reflexivity|]. split; [lia|]. intros; discriminate. }
  injection H as <- <- <- <- <-.
  exists []. rewrite steps_len_nil. split; [reflexivity|]. split; [lia|].
  intros r' bs' t' Heq Hd. injection Heq as -> -> ->. congruence.
Qed.

Lemma ident_run_suffix : forall ss pos acc v rest e,
  ident_run ss pos acc = (v, rest, e) ->
  exists body, ss = body ++ rest /\ e = pos + steps_len body /\
    match rest with (r, _) :: _ => is_ident_part r = false | [] => True end.
Proof.
  induction ss as [|[r bs] t IH]; intros pos acc v rest e H.
  { cbn [ident_run] in H. injection H as <- <- <-.
    exists []. rewrite steps_len_nil. split; [reflexivity|]. split; [lia|exact I]. }
  cbn [ident_run] in H.
  destruct (is_ident_part r) eqn:Ep.
  { apply IH in H. destruct H as (body & Hss & He & Hr).
    exists ((r, bs) :: body). rewrite steps_len_cons.
    split; [rewrite Hss; reflexivity|]. split; [lia|exact Hr]. }
  injection H as <- <- <-.
  exists []. rewrite steps_len_nil. split; [reflexivity|]. split; [lia|exact Ep].
Qed.

Lemma hex_run_suffix : forall ss pos acc v rest e,
  hex_run ss pos acc = (v, rest, e) ->
  exists body, ss = body ++ rest /\ e = pos + steps_len body.
Proof.
  induction ss as [|[r bs] t IH]; intros pos acc v rest e H.
  { cbn [hex_run] in H. injection H as <- <- <-.
    exists []. rewrite steps_len_nil. split; [reflexivity|lia]. }
  cbn [hex_run] in H.
  destruct (is_hex_digit r) eqn:Ep.
  { apply IH in H. destruct H as (body & Hss & He).
    exists ((r, bs) :: body). rewrite steps_len_cons.
    split; [rewrite Hss; reflexivity|lia]. }
  injection H as <- <- <-.
  exists []. rewrite steps_len_nil. split; [reflexivity|lia].
Qed.

Lemma scan_str_suffix : forall ss pos q st acc ds v rest e ds',
  scan_str ss pos q st acc ds = (v, rest, e, ds') ->
  exists body, ss = body ++ rest /\ e = pos + steps_len body.
Proof.
  induction ss as [|[r bs] t IH]; intros pos q st acc ds v rest e ds' H.
  { cbn [scan_str] in H.
    assert (Hre : rest = [] /\ e = pos).
    { destruct st as [| |rem got hv|n];
        try destruct (finish_hex got hv pos acc ds) as [a d];
        injection H as _ <- <- _; split; reflexivity. }
    destruct Hre as [-> ->]. exists []. rewrite steps_len_nil. split; [reflexivity|lia]. }
  cbn [scan_str] in H.
  assert (Hk : forall st' acc' ds'',
             scan_str t (pos + blen bs) q st' acc' ds'' = (v, rest, e, ds') ->
             exists body, (r, bs) :: t = body ++ rest /\ e = pos + steps_len body).
  { intros st' acc' ds'' H'. apply IH in H'. destruct H' as (body & Hss & He).
    exists ((r, bs) :: body). rewrite steps_len_cons.
    split; [rewrite Hss; reflexivity|lia]. }
  lazymatch type of H with
  | (match ?X with pair _ _ => _ end) = _ => destruct X as [[st1 acc1] ds1]
  end.
  destruct st1 as [| |rem got hv|n].
  - destruct (r =? q).
    { injection H as _ <- <- _. exists (@cons step (r, bs) []). rewrite steps_len_cons, steps_len_nil.
      split; [reflexivity|lia]. }
    destruct (r =? 92); [eapply Hk; exact H|].
    destruct (is_line_break r); [|eapply Hk; exact H].
    injection H as _ <- <- _. exists []. rewrite steps_len_nil. split; [reflexivity|lia].
  - repeat (lazymatch type of H with (if ?c then _ else _) = _ => destruct c end);
      eapply Hk; exact H.
  - eapply Hk; exact H.
  - eapply Hk; exact H.
Qed.

Lemma fragment_suffix : forall ss pos acc' rest e ds' sep',
  fragment ss pos = (acc', rest, e, ds', sep') ->
  exists body, ss = body ++ rest /\ e = pos + steps_len body /\
    (forall r bs t, ss = (r, bs) :: t -> is_digit r = true -> body <> []).
Proof. intros ss pos acc' rest e ds' sep' H. unfold fragment in H. eapply scan_frag_suffix. exact H. Qed.

Lemma scan_number_suffix : forall ss pos v rest e ds,
  scan_number ss pos = (v, rest, e, ds) ->
  exists body, ss = body ++ rest /\ e = pos + steps_len body /\
    (forall r bs t, ss = (r, bs) :: t -> is_digit r = true \/ r = 46 -> body <> []).
Proof.
  intros ss pos v rest e ds H. unfold scan_number in H.
  destruct (fragment ss pos) as [[[[main ss1] p1] d1] sep1] eqn:F1.
  apply fragment_suffix in F1. destruct F1 as (body1 & Hss1 & Hp1 & Hne1).
  lazymatch type of H with
  | (match ?X with pair _ _ => _ end) = _ =>
    destruct X as [[[[[hasdot dec] ss2] p2] d2] sep2] eqn:Edot
  end.
  assert (Hdot : exists body2, ss1 = body2 ++ ss2 /\ p2 = p1 + steps_len body2 /\
                   (forall r bs t, ss1 = (r, bs) :: t -> r = 46 -> body2 <> [])).
  { destruct ss1 as [|[r1 bs1] t1].
    - injection Edot as _ _ <- <- _ _. exists []. rewrite steps_len_nil.
      split; [reflexivity|]. split; [lia|]. intros; discriminate.
    - destruct (r1 =? 46) eqn:E46.
      + destruct (fragment t1 (p1 + blen bs1)) as [[[[dec' ss2'] p2'] d2'] sep2'] eqn:F2.
        injection Edot as _ _ <- <- _ _.
        apply fragment_suffix in F2. destruct F2 as (b2 & Hb2 & Hp2 & _).
        exists ((r1, bs1) :: b2). rewrite steps_len_cons.
        split; [rewrite Hb2; reflexivity|]. split; [lia|]. intros; discriminate.
      + injection Edot as _ _ <- <- _ _. exists []. rewrite steps_len_nil.
        split; [reflexivity|]. split; [lia|].
        intros r bs t Heq H46. injection Heq as -> _ _. apply Z.eqb_neq in E46. contradiction. }
  clear Edot. destruct Hdot as (body2 & Hss2 & Hp2 & Hne2).
  cbv zeta in H.
  lazymatch type of H with
  | (match ?X with pair _ _ => _ end) = _ =>
    destruct X as [[[[[sci raw_sci] ss3] p3] d3] sep3] eqn:Esci
  end.
  assert (Hsci : exists body3, ss2 = body3 ++ ss3 /\ p3 = p2 + steps_len body3).
  { destruct ss2 as [|[r2 bs2] t2].
    - injection Esci as _ _ <- <- _ _. exists []. rewrite steps_len_nil.
      split; [reflexivity|lia].
    - destruct (is_e r2) eqn:Ee.
      + assert (Hsgn : forall t' ps fin ss3' p3' d3' sep3',
                   fragment t' ps = (fin, ss3', p3', d3', sep3') ->
                   (exists bsg, t2 = bsg ++ t' /\ ps = p2 + blen bs2 + steps_len bsg) ->
                   exists body3, (r2, bs2) :: t2 = body3 ++ ss3' /\ p3' = p2 + steps_len body3).
        { intros t' ps fin ss3' p3' d3' sep3' Hf (bsg & Ht2 & Hps).
          apply fragment_suffix in Hf. destruct Hf as (bf & Hbf & Hpf & _).
          exists ((r2, bs2) :: bsg ++ bf). rewrite steps_len_cons, steps_len_app.
          split; [rewrite Ht2, Hbf; cbn [app]; rewrite <- app_assoc; reflexivity|lia]. }
        destruct t2 as [|[r3 bs3] t3].
        * cbv beta iota in Esci.
          lazymatch type of Esci with (match ?X with pair _ _ => _ end) = _ =>
               destruct X as [[[[fin ss3'] p3'] d3'] sep3'] eqn:F3 end.
          assert (Hres : exists body3, [(r2, bs2)] = body3 ++ ss3' /\ p3' = p2 + steps_len body3).
          { eapply Hsgn; [exact F3|]. exists []. rewrite steps_len_nil. split; [reflexivity|lia]. }
          destruct fin; injection Esci as _ _ <- <- _ _; exact Hres.
        * destruct (is_sign r3) eqn:Es.
          -- cbv beta iota in Esci.
             lazymatch type of Esci with (match ?X with pair _ _ => _ end) = _ =>
               destruct X as [[[[fin ss3'] p3'] d3'] sep3'] eqn:F3 end.
             assert (Hres : exists body3, (r2, bs2) :: (r3, bs3) :: t3 = body3 ++ ss3' /\ p3' = p2 + steps_len body3).
             { eapply Hsgn; [exact F3|]. exists (@cons step (r3, bs3) []).
               rewrite steps_len_cons, steps_len_nil. split; [reflexivity|lia]. }
             destruct fin; injection Esci as _ _ <- <- _ _; exact Hres.
          -- cbv beta iota in Esci.
             lazymatch type of Esci with (match ?X with pair _ _ => _ end) = _ =>
               destruct X as [[[[fin ss3'] p3'] d3'] sep3'] eqn:F3 end.
             assert (Hres : exists body3, (r2, bs2) :: (r3, bs3) :: t3 = body3 ++ ss3' /\ p3' = p2 + steps_len body3).
             { eapply Hsgn; [exact F3|]. exists []. rewrite steps_len_nil. split; [reflexivity|lia]. }
             destruct fin; injection Esci as _ _ <- <- _ _; exact Hres.
      + injection Esci as _ _ <- <- _ _. exists []. rewrite steps_len_nil.
        split; [reflexivity|lia]. }
  clear Esci. destruct Hsci as (body3 & Hss3 & Hp3).
  injection H as _ <- <- _.
  exists (body1 ++ body2 ++ body3). rewrite !steps_len_app.
  split; [rewrite Hss1, Hss2, Hss3, <- !app_assoc; reflexivity|]. split; [lia|].
  intros r bs t Heq Hr.
  destruct body1 as [|s1 b1]; [|discriminate].
  cbn [app] in Hss1. subst ss1.
  destruct Hr as [Hd|H46].
  - exfalso. apply (Hne1 r bs t Heq Hd). reflexivity.
  - intro Habs. cbn [app] in Habs. apply app_eq_nil in Habs. destruct Habs as [Hb2 _].
    apply (Hne2 r bs t Heq H46). exact Hb2.
Qed.

(* ---------- the shapes scan_one can produce, after trivia ---------- *)

Definition simple_kind (k : kind) : bool :=
  match k with
  | KUnknown | KEOF | KNumber | KString | KIdent | KTrue | KFalse | KNull | KThis | KCtx | KTypeof => false
  | _ => true
  end.

Inductive scan_shape (ss1 : list step) (pos p1 : Z) (nl : bool) (tok : token) (rest : list step) : Prop :=
| ShEOF : ss1 = [] -> tok = mkTok KEOF [] pos p1 p1 nl [] -> rest = [] -> scan_shape ss1 pos p1 nl tok rest
| ShSimple : forall k n, ss1 <> [] -> (1 <= n)%nat -> simple_kind k = true ->
    tok = mkTok k [] pos p1 (p1 + steps_len (firstn n ss1)) nl [] -> rest = skipn n ss1 ->
    scan_shape ss1 pos p1 nl tok rest
| ShString : forall r bs t v e ds, ss1 = (r, bs) :: t ->
    scan_str t (p1 + blen bs) r SNormal [] [] = (v, rest, e, ds) ->
    tok = mkTok KString v pos p1 e nl ds -> scan_shape ss1 pos p1 nl tok rest
| ShNumber : forall r bs t v e ds, ss1 = (r, bs) :: t -> (is_digit r = true \/ r = 46) ->
    scan_number ss1 p1 = (v, rest, e, ds) ->
    tok = mkTok KNumber v pos p1 e nl ds -> scan_shape ss1 pos p1 nl tok rest
| ShHex : forall hv v e ds, ss1 <> [] ->
    hex_run (skipn 2 ss1) (p1 + steps_len (firstn 2 ss1)) [] = (hv, rest, e) ->
    tok = mkTok KNumber v pos p1 e nl ds -> scan_shape ss1 pos p1 nl tok rest
| ShIdent : forall r bs t v e, ss1 = (r, bs) :: t ->
    ident_run t (p1 + blen bs) bs = (v, rest, e) ->
    tok = mkTok (ident_kind v) v pos p1 e nl [] -> scan_shape ss1 pos p1 nl tok rest
| ShUnknown : forall r bs t, ss1 = (r, bs) :: t ->
    tok = mkTok KUnknown [] pos p1 (p1 + blen bs) nl [(p1, 0, C_Invalid_character)] -> rest = t ->
    scan_shape ss1 pos p1 nl tok rest.

Ltac head_if H :=
  lazymatch type of H with (if ?c then _ else _) = _ => destruct c eqn:? end.

Ltac shape_simple H :=
  lazymatch type of H with
  | (mkTok ?k _ _ _ (_ + steps_len (firstn ?n _)) _ _, _) = _ =>
    injection H as <- <-; apply (ShSimple _ _ _ _ _ _ k n);
    [discriminate | lia | reflexivity | reflexivity | reflexivity]
  end.

Ltac shape_number H :=
  lazymatch type of H with
  | (match ?X with pair _ _ => _ end) = _ =>
    let v := fresh "v" in let rest' := fresh "rest'" in let e := fresh "e" in
    let ds := fresh "ds" in let EN := fresh "EN" in
    destruct X as [[[v rest'] e] ds] eqn:EN; injection H as <- <-;
    eapply ShNumber; [reflexivity | | exact EN | reflexivity]
  end.

Lemma scan_one_shape : forall ss pos tok rest ss1 p1 nl,
  scan_one ss pos = (tok, rest) -> skip_trivia ss pos false = (ss1, p1, nl) ->
  scan_shape ss1 pos p1 nl tok rest.
Proof.
  intros ss pos tok rest ss1 p1 nl H Hskip.
  unfold scan_one in H. rewrite Hskip in H.
  destruct ss1 as [|[r bs] t].
  { injection H as <- <-. apply ShEOF; reflexivity. }
  cbv beta zeta in H.
  (* '!' *)
  head_if H. { repeat head_if H; shape_simple H. }
  (* quotes *)
  head_if H.
  { lazymatch type of H with
    | (match ?X with pair _ _ => _ end) = _ => destruct X as [[[v rest'] e] ds] eqn:ES
    end.
    injection H as <- <-. eapply ShString; [reflexivity|exact ES|reflexivity]. }
  (* '&' ... '-' *)
  do 8 (head_if H; [repeat head_if H; shape_simple H|]).
  (* '.' *)
  head_if H.
  { head_if H.
    - shape_number H. right. apply Z.eqb_eq. assumption.
    - repeat head_if H; shape_simple H. }
  (* '/' *)
  head_if H. { shape_simple H. }
  (* '0' *)
  head_if H.
  { head_if H.
    - lazymatch type of H with
      | (match ?X with pair _ _ => _ end) = _ => destruct X as [[hv rest'] e] eqn:EH
      end.
      destruct hv as [|h hv']; injection H as <- <-;
        (eapply ShHex; [discriminate|exact EH|reflexivity]).
    - shape_number H. left.
      match goal with E : (r =? 48) = true |- _ => apply Z.eqb_eq in E; rewrite E; reflexivity end. }
  (* digits *)
  head_if H. { shape_number H. left. assumption. }
  (* ':' ... '~' *)
  do 10 (head_if H; [repeat head_if H; shape_simple H|]).
  (* identifiers *)
  head_if H.
  { lazymatch type of H with
    | (match ?X with pair _ _ => _ end) = _ => destruct X as [[v rest'] e] eqn:EI
    end.
    injection H as <- <-. eapply ShIdent; [reflexivity|exact EI|reflexivity]. }
  injection H as <- <-. eapply ShUnknown; reflexivity.
Qed.

Lemma simple_kind_not_eof : forall k, simple_kind k = true -> k <> KEOF.
Proof. intros k H Hk. subst k. discriminate H. Qed.

Lemma firstn_nonempty : forall (A : Type) (n : nat) (l : list A), (1 <= n)%nat -> l <> [] -> firstn n l <> [].
Proof.
  intros A n l Hn Hl. destruct n as [|n]; [lia|]. destruct l as [|x l]; [congruence|].
  cbn [firstn]. discriminate.
Qed.

Lemma ident_kind_not_eof : forall v, ident_kind v <> KEOF.
Proof.
  intros v. unfold ident_kind, keyword_table. cbn [assoc_bytes].
  repeat (match goal with |- context[if ?c then _ else _] => destruct c end; [discriminate|]).
  discriminate.
Qed.

Lemma scan_shape_body : forall ss1 pos p1 nl tok rest,
  scan_shape ss1 pos p1 nl tok rest ->
  tstart tok = pos /\ tpos tok = p1 /\ tnl tok = nl /\
  exists body, ss1 = body ++ rest /\ tend tok = p1 + steps_len body /\
    (tk tok = KEOF -> body = [] /\ rest = []) /\ (tk tok <> KEOF -> body <> []).
Proof.
  intros ss1 pos p1 nl tok rest Hs.
  destruct Hs as [Hss Htok Hrest | k n Hne Hn Hk Htok Hrest | r bs t v e ds Hss Hstr Htok
                 | r bs t v e ds Hss Hr Hnum Htok | hv v e ds Hne Hhex Htok
                 | r bs t v e Hss Hid Htok | r bs t Hss Htok Hrest];
    subst tok; cbn [tstart tpos tnl tend tk];
    (split; [reflexivity|]); (split; [reflexivity|]); (split; [reflexivity|]).
  - subst ss1 rest. exists []. rewrite steps_len_nil. split; [reflexivity|]. split; [lia|].
    split; [intros _; split; reflexivity|intros Hk; congruence].
  - subst rest. exists (firstn n ss1). split; [symmetry; apply firstn_skipn|]. split; [reflexivity|].
    split; [intros Heof; exfalso; apply (simple_kind_not_eof k Hk Heof)|].
    intros _. apply firstn_nonempty; assumption.
  - apply scan_str_suffix in Hstr. destruct Hstr as (body & Ht & He).
    exists ((r, bs) :: body). rewrite steps_len_cons.
    split; [rewrite Hss, Ht; reflexivity|]. split; [lia|].
    split; [intros Heof; discriminate Heof|intros _; discriminate].
  - apply scan_number_suffix in Hnum. destruct Hnum as (body & Ht & He & Hb).
    exists body. split; [exact Ht|]. split; [exact He|].
    split; [intros Heof; discriminate Heof|]. intros _. exact (Hb r bs t Hss Hr).
  - apply hex_run_suffix in Hhex. destruct Hhex as (body & Ht & He).
    exists (firstn 2 ss1 ++ body). rewrite steps_len_app.
    split; [rewrite <- app_assoc, <- Ht; symmetry; apply firstn_skipn|]. split; [lia|].
    split; [intros Heof; discriminate Heof|]. intros _ Habs.
    apply app_eq_nil in Habs. destruct Habs as [Hf _].
    revert Hf. apply firstn_nonempty; [lia|exact Hne].
  - apply ident_run_suffix in Hid. destruct Hid as (body & Ht & He & _).
    exists ((r, bs) :: body). rewrite steps_len_cons.
    split; [rewrite Hss, Ht; reflexivity|]. split; [lia|].
    split; [intros Heof; exfalso; apply (ident_kind_not_eof v Heof)|intros _; discriminate].
  - subst rest. exists (@cons step (r, bs) []). rewrite steps_len_cons, steps_len_nil.
    split; [rewrite Hss; reflexivity|]. split; [lia|].
    split; [intros Heof; discriminate Heof|intros _; discriminate].
Qed.

(* ---------- 1. decomposition ---------- *)

Theorem scan_one_decompose : forall ss pos tok rest,
  Forall step_ok ss -> scan_one ss pos = (tok, rest) ->
  exists trivia body, ss = trivia ++ body ++ rest /\
    tstart tok = pos /\ tpos tok = pos + steps_len trivia /\ tend tok = tpos tok + steps_len body /\
    Forall (fun s => is_trivia_step s = true) trivia /\
    tnl tok = existsb (fun s => is_line_break (fst s)) trivia /\
    (tk tok = KEOF -> body = [] /\ rest = []) /\ (tk tok <> KEOF -> body <> []).
Proof.
  intros ss pos tok rest _ H.
  destruct (skip_trivia ss pos false) as [[ss1 p1] nl] eqn:Hskip.
  pose proof (scan_one_shape ss pos tok rest ss1 p1 nl H Hskip) as Hshape.
  apply skip_trivia_spec in Hskip. destruct Hskip as (trivia & Hss & Hp1 & Htriv & Hnl).
  apply scan_shape_body in Hshape.
  destruct Hshape as (Hstart & Hpos & Htnl & body & Hss1 & Hend & Heof & Hne).
  exists trivia, body.
  split; [rewrite Hss, Hss1; reflexivity|].
  split; [exact Hstart|]. split; [rewrite Hpos; exact Hp1|].
  split; [rewrite Hend, Hpos; reflexivity|]. split; [exact Htriv|].
  split; [rewrite Htnl, Hnl; reflexivity|]. split; [exact Heof|exact Hne].
Qed.

(* ---------- 2. progress ---------- *)

Theorem scan_one_progress : forall ss pos tok rest,
  Forall step_ok ss -> scan_one ss pos = (tok, rest) -> tk tok <> KEOF ->
  (length rest < length ss)%nat /\ tpos tok < tend tok.
Proof.
  intros ss pos tok rest Hok H Hk.
  destruct (scan_one_decompose ss pos tok rest Hok H)
    as (trivia & body & Hss & _ & _ & Hend & _ & _ & _ & Hne).
  specialize (Hne Hk).
  assert (Hbok : Forall step_ok body).
  { rewrite Hss in Hok. apply Forall_app in Hok. destruct Hok as [_ Hok].
    apply Forall_app in Hok. destruct Hok as [Hok _]. exact Hok. }
  pose proof (steps_len_pos body Hbok Hne) as Hpos.
  split; [|lia].
  rewrite Hss, !app_length. destruct body as [|b body']; [congruence|]. cbn [length]. lia.
Qed.

Lemma scan_one_rest_ok : forall ss pos tok rest,
  Forall step_ok ss -> scan_one ss pos = (tok, rest) -> Forall step_ok rest.
Proof.
  intros ss pos tok rest Hok H.
  destruct (scan_one_decompose ss pos tok rest Hok H) as (trivia & body & Hss & _).
  rewrite Hss in Hok. apply Forall_app in Hok. destruct Hok as [_ Hok].
  apply Forall_app in Hok. destruct Hok as [_ Hok]. exact Hok.
Qed.

(* ---------- 3. the fuel never runs out ---------- *)

Lemma scan_all_go_total : forall fuel ss pos,
  Forall step_ok ss -> (length ss < fuel)%nat -> exists toks, scan_all_go fuel ss pos = Some toks.
Proof.
  induction fuel as [|f IH]; intros ss pos Hok Hfuel; [lia|].
  cbn [scan_all_go].
  destruct (scan_one ss pos) as [tok rest] eqn:E.
  pose proof (scan_one_rest_ok ss pos tok rest Hok E) as Hrok.
  pose proof (scan_one_progress ss pos tok rest Hok E) as Hprog.
  destruct (tk tok) eqn:K;
    try (eexists; reflexivity);
    (destruct Hprog as [Hlen _]; [discriminate|];
     destruct (IH rest (tend tok) Hrok ltac:(lia)) as (l & Hl); rewrite Hl; eexists; reflexivity).
Qed.

Theorem scan_all_total : forall text, exists toks, scan_all text = Some toks.
Proof.
  intros text. unfold scan_all. apply scan_all_go_total; [apply decode_all_ok|lia].
Qed.

(* ---------- 4. tokens tile the text ---------- *)

Lemma tiles_cons : forall t u l from to,
  tiles (t :: u :: l) from to =
  (tk t <> KEOF /\ tstart t = from /\ tstart t <= tpos t /\ tpos t < tend t /\ tiles (u :: l) (tend t) to).
Proof. reflexivity. Qed.

Lemma scan_all_go_tiles : forall fuel ss pos toks,
  Forall step_ok ss -> scan_all_go fuel ss pos = Some toks -> tiles toks pos (pos + steps_len ss).
Proof.
  induction fuel as [|f IH]; intros ss pos toks Hok H; [discriminate H|].
  cbn [scan_all_go] in H.
  destruct (scan_one ss pos) as [tok rest] eqn:E.
  pose proof (scan_one_rest_ok ss pos tok rest Hok E) as Hrok.
  pose proof (scan_one_progress ss pos tok rest Hok E) as Hprog.
  destruct (scan_one_decompose ss pos tok rest Hok E)
    as (trivia & body & Hss & Hstart & Hpos & Hend & _ & _ & Heof & _).
  pose proof (steps_len_nonneg trivia) as Htr.
  assert (Hcons : tk tok <> KEOF ->
            match scan_all_go f rest (tend tok) with Some l => Some (tok :: l) | None => None end = Some toks ->
            tiles toks pos (pos + steps_len ss)).
  { intros Hk H'. destruct (scan_all_go f rest (tend tok)) as [l|] eqn:R; [|discriminate H'].
    injection H' as <-. apply IH in R; [|exact Hrok].
    destruct l as [|u l']; [destruct R|].
    rewrite tiles_cons. destruct (Hprog Hk) as [_ Hlt].
    split; [exact Hk|]. split; [exact Hstart|]. split; [lia|]. split; [exact Hlt|].
    replace (pos + steps_len ss) with (tend tok + steps_len rest); [exact R|].
    rewrite Hss, !steps_len_app. lia. }
  destruct (tk tok) eqn:K; try (apply Hcons; [discriminate|exact H]).
  injection H as <-. destruct (Heof eq_refl) as [Hb Hr]. subst body rest.
  cbn [tiles]. rewrite Hss, !steps_len_app, steps_len_nil in *.
  split; [exact K|]. split; [exact Hstart|]. split; [lia|]. split; [lia|lia].
Qed.

Theorem tokens_tile : forall text toks, scan_all text = Some toks -> tiles toks 0 (blen text).
Proof.
  intros text toks H. unfold scan_all in H.
  apply scan_all_go_tiles in H; [|apply decode_all_ok].
  rewrite steps_len_decode in H. exact H.
Qed.

(* ---------- 5. exactly one end-of-file token, at the end ---------- *)

Lemma scan_all_go_eof : forall fuel ss pos toks,
  scan_all_go fuel ss pos = Some toks ->
  exists pre t, toks = pre ++ [t] /\ tk t = KEOF /\ Forall (fun u => tk u <> KEOF) pre.
Proof.
  induction fuel as [|f IH]; intros ss pos toks H; [discriminate H|].
  cbn [scan_all_go] in H.
  destruct (scan_one ss pos) as [tok rest] eqn:E.
  assert (Hcons : tk tok <> KEOF ->
            match scan_all_go f rest (tend tok) with Some l => Some (tok :: l) | None => None end = Some toks ->
            exists pre t, toks = pre ++ [t] /\ tk t = KEOF /\ Forall (fun u => tk u <> KEOF) pre).
  { intros Hk H'. destruct (scan_all_go f rest (tend tok)) as [l|] eqn:R; [|discriminate H'].
    injection H' as <-. apply IH in R. destruct R as (pre & t & Hl & Ht & Hpre).
    exists (tok :: pre), t. split; [rewrite Hl; reflexivity|]. split; [exact Ht|].
    constructor; [exact Hk|exact Hpre]. }
  destruct (tk tok) eqn:K; try (apply Hcons; [discriminate|exact H]).
  injection H as <-. exists [], tok. split; [reflexivity|]. split; [exact K|constructor].
Qed.

Theorem stream_ends_with_eof : forall text toks, scan_all text = Some toks ->
  exists pre t, toks = pre ++ [t] /\ tk t = KEOF /\ Forall (fun u => tk u <> KEOF) pre.
Proof. intros text toks H. unfold scan_all in H. eapply scan_all_go_eof. exact H. Qed.

(* ---------- 6. identifiers are maximal; keywords are whole words ---------- *)

Definition is_keyword_kind (tok : token) : Prop :=
  In (tk tok) [KTrue; KFalse; KNull; KThis; KCtx; KTypeof].

Lemma ident_shape : forall ss pos tok rest,
  scan_one ss pos = (tok, rest) -> (tk tok = KIdent \/ is_keyword_kind tok) ->
  exists ss1 p1 nl r bs t v e,
    skip_trivia ss pos false = (ss1, p1, nl) /\ ss1 = (r, bs) :: t /\
    ident_run t (p1 + blen bs) bs = (v, rest, e) /\
    tok = mkTok (ident_kind v) v pos p1 e nl [].
Proof.
  intros ss pos tok rest H Hk.
  destruct (skip_trivia ss pos false) as [[ss1 p1] nl] eqn:Hskip.
  pose proof (scan_one_shape ss pos tok rest ss1 p1 nl H Hskip) as Hshape.
  assert (Hno : forall k, tk tok = k -> simple_kind k = true \/ In k [KEOF; KString; KNumber; KUnknown] -> False).
  { intros k Hkk Hbad. rewrite Hkk in Hk. unfold is_keyword_kind in Hk. rewrite Hkk in Hk.
    clear Hkk. cbn [In] in Hk, Hbad.
    destruct Hbad as [Hs|Hin].
    - destruct Hk as [Hk|[Hk|[Hk|[Hk|[Hk|[Hk|[Hk|[]]]]]]]]; subst k; discriminate Hs.
    - destruct Hin as [Hi|[Hi|[Hi|[Hi|[]]]]]; subst k;
        destruct Hk as [Hk|[Hk|[Hk|[Hk|[Hk|[Hk|[Hk|[]]]]]]]]; discriminate Hk. }
  destruct Hshape as [Hss Htok Hrest | k n Hne Hn Hsk Htok Hrest | r bs t v e ds Hss Hstr Htok
                 | r bs t v e ds Hss Hr Hnum Htok | hv v e ds Hne Hhex Htok
                 | r bs t v e Hss Hid Htok | r bs t Hss Htok Hrest].
  - exfalso. apply (Hno KEOF); [rewrite Htok; reflexivity|right; cbn [In]; tauto].
  - exfalso. apply (Hno k); [rewrite Htok; reflexivity|left; exact Hsk].
  - exfalso. apply (Hno KString); [rewrite Htok; reflexivity|right; cbn [In]; tauto].
  - exfalso. apply (Hno KNumber); [rewrite Htok; reflexivity|right; cbn [In]; tauto].
  - exfalso. apply (Hno KNumber); [rewrite Htok; reflexivity|right; cbn [In]; tauto].
  - exists ss1, p1, nl, r, bs, t, v, e. repeat split; assumption.
  - exfalso. apply (Hno KUnknown); [rewrite Htok; reflexivity|right; cbn [In]; tauto].
Qed.

Theorem identifier_maximal : forall ss pos tok rest,
  scan_one ss pos = (tok, rest) -> (tk tok = KIdent \/ is_keyword_kind tok) ->
  match rest with (r, _) :: _ => is_ident_part r = false | [] => True end.
Proof.
  intros ss pos tok rest H Hk.
  destruct (ident_shape ss pos tok rest H Hk) as (ss1 & p1 & nl & r & bs & t & v & e & _ & _ & Hid & _).
  apply ident_run_suffix in Hid. destruct Hid as (body & _ & _ & Hr). exact Hr.
Qed.

(* the kind of an identifier-like token is decided by its WHOLE value *)
Theorem keywords_whole_word : forall ss pos tok rest,
  scan_one ss pos = (tok, rest) -> (tk tok = KIdent \/ is_keyword_kind tok) ->
  tk tok = ident_kind (tval tok).
Proof.
  intros ss pos tok rest H Hk.
  destruct (ident_shape ss pos tok rest H Hk) as (ss1 & p1 & nl & r & bs & t & v & e & _ & _ & _ & Htok).
  rewrite Htok. reflexivity.
Qed.

Lemma bytes_eqb_eq : forall a b, bytes_eqb a b = true <-> a = b.
Proof.
  induction a as [|x a IH]; intros [|y b]; cbn [bytes_eqb]; split; intros H;
    try reflexivity; try discriminate H.
  - apply andb_true_iff in H. destruct H as [Hxy Hab].
    apply Z.eqb_eq in Hxy. apply IH in Hab. subst. reflexivity.
  - injection H as -> ->. rewrite Z.eqb_refl. apply IH. reflexivity.
Qed.

(* ... and that kind is a keyword kind exactly when the whole value is one of the six spellings *)
Lemma ident_kind_keyword : forall v,
  In (ident_kind v) [KTrue; KFalse; KNull; KThis; KCtx; KTypeof] <->
  In v [kw_true; kw_false; kw_null; kw_this; kw_ctx; kw_typeof].
Proof.
  intros v. unfold ident_kind, keyword_table. cbn [assoc_bytes In].
  destruct (bytes_eqb v kw_true) eqn:E1; [apply bytes_eqb_eq in E1; subst v; tauto|].
  destruct (bytes_eqb v kw_false) eqn:E2; [apply bytes_eqb_eq in E2; subst v; tauto|].
  destruct (bytes_eqb v kw_null) eqn:E3; [apply bytes_eqb_eq in E3; subst v; tauto|].
  destruct (bytes_eqb v kw_this) eqn:E4; [apply bytes_eqb_eq in E4; subst v; tauto|].
  destruct (bytes_eqb v kw_ctx) eqn:E5; [apply bytes_eqb_eq in E5; subst v; tauto|].
  destruct (bytes_eqb v kw_typeof) eqn:E6; [apply bytes_eqb_eq in E6; subst v; tauto|].
  split.
  - intros [H|[H|[H|[H|[H|[H|[]]]]]]]; discriminate H.
  - intros [H|[H|[H|[H|[H|[H|[]]]]]]]; subst v.
    + rewrite (proj2 (bytes_eqb_eq _ _) eq_refl) in E1. discriminate E1.
    + rewrite (proj2 (bytes_eqb_eq _ _) eq_refl) in E2. discriminate E2.
    + rewrite (proj2 (bytes_eqb_eq _ _) eq_refl) in E3. discriminate E3.
    + rewrite (proj2 (bytes_eqb_eq _ _) eq_refl) in E4. discriminate E4.
    + rewrite (proj2 (bytes_eqb_eq _ _) eq_refl) in E5. discriminate E5.
    + rewrite (proj2 (bytes_eqb_eq _ _) eq_refl) in E6. discriminate E6.
Qed.

Corollary keywords_whole_word_iff : forall ss pos tok rest,
  scan_one ss pos = (tok, rest) -> (tk tok = KIdent \/ is_keyword_kind tok) ->
  (is_keyword_kind tok <-> In (tval tok) [kw_true; kw_false; kw_null; kw_this; kw_ctx; kw_typeof]).
Proof.
  intros ss pos tok rest H Hk. unfold is_keyword_kind.
  rewrite (keywords_whole_word ss pos tok rest H Hk). apply ident_kind_keyword.
Qed.

Print Assumptions scan_one_decompose.
Print Assumptions scan_one_progress.
Print Assumptions scan_all_total.
Print Assumptions tokens_tile.
Print Assumptions stream_ends_with_eof.
Print Assumptions identifier_maximal.
Print Assumptions keywords_whole_word.
Print Assumptions keywords_whole_word_iff.
