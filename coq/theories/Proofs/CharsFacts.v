(* Facts about the character classes of Lex/Chars.v:
   - the binary search [lookup_in_map] over a sorted flat range table never runs out of
     fuel and computes exactly the linear membership [in_ranges];
   - the two ES5 tables are sorted, hence is_ident_start / is_ident_part are plain
     range-membership predicates;
   - canonical (maximal, merged) range lists and their membership;
   - white space / line break / digit as explicit range sets. *)
From Formula Require Import Base.Utf8 Lex.Chars.

(* ------------------------------------------------------------------------- *)
(* 0. small list / index toolkit                                             *)
(* ------------------------------------------------------------------------- *)

Lemma list_ind2 : forall (A : Type) (P : list A -> Prop),
  P [] -> (forall x, P [x]) -> (forall x y t, P t -> P (x :: y :: t)) ->
  forall l, P l.
Proof.
  intros A P H0 H1 H2.
  assert (HH : forall l, P l /\ forall x, P (x :: l)).
  { induction l as [|y t [IHa IHb]].
    - split; [exact H0 | exact H1].
    - split; [apply IHb | intros x; apply H2; exact IHa]. }
  intros l. apply HH.
Qed.

Definition zlen (l : list Z) : Z := Z.of_nat (length l).

Lemma zlen_nil : zlen [] = 0.
Proof. reflexivity. Qed.

Lemma zlen_cons : forall x l, zlen (x :: l) = zlen l + 1.
Proof. intros x l. unfold zlen. cbn [length]. lia. Qed.

Lemma zlen_nonneg : forall l, 0 <= zlen l.
Proof. intros l. unfold zlen. lia. Qed.

Lemma znth0_0 : forall x l, znth0 (x :: l) 0 = x.
Proof. reflexivity. Qed.

Lemma znth0_cons : forall x l i, 0 < i -> znth0 (x :: l) i = znth0 l (i - 1).
Proof.
  intros x l i Hi. unfold znth0.
  replace (Z.to_nat i) with (S (Z.to_nat (i - 1))) by lia. reflexivity.
Qed.

Lemma znth0_cons2 : forall x y l i, 0 <= i -> znth0 (x :: y :: l) (i + 2) = znth0 l i.
Proof.
  intros x y l i Hi. unfold znth0.
  replace (Z.to_nat (i + 2)) with (S (S (Z.to_nat i))) by lia. reflexivity.
Qed.

(* ------------------------------------------------------------------------- *)
(* 1. sortedness of a flat range table                                       *)
(* ------------------------------------------------------------------------- *)

(* [sorted_from prev tbl]: tbl = lo1 hi1 lo2 hi2 ... with prev < lo1 <= hi1 < lo2 <= ... *)
Fixpoint sorted_from (prev : Z) (tbl : list Z) : bool :=
  match tbl with
  | [] => true
  | lo :: hi :: t => (prev <? lo) && (lo <=? hi) && sorted_from hi t
  | _ => false
  end.

(* even length and lo0 <= hi0 < lo1 <= hi1 < ...  (touching ranges hi+1 = lo' are allowed,
   overlapping or out-of-order ones are not) *)
Definition ranges_sorted (tbl : list Z) : bool :=
  match tbl with
  | [] => true
  | lo :: hi :: t => (lo <=? hi) && sorted_from hi t
  | _ => false
  end.

(* index form: the flat table is non-decreasing *)
Definition zmono (l : list Z) : Prop :=
  forall i j, 0 <= i <= j -> j < zlen l -> znth0 l i <= znth0 l j.

Lemma zmono_single : forall x, zmono [x].
Proof.
  intros x i j Hij Hj. rewrite zlen_cons, zlen_nil in Hj.
  assert (i = 0) by lia. assert (j = 0) by lia. subst. lia.
Qed.

Lemma zmono_cons : forall x y t, x <= y -> zmono (y :: t) -> zmono (x :: y :: t).
Proof.
  intros x y t Hxy Hm i j Hij Hj.
  rewrite zlen_cons in Hj.
  destruct (Z.eq_dec i 0) as [Hi|Hi].
  - subst i. rewrite znth0_0.
    destruct (Z.eq_dec j 0) as [Hj0|Hj0].
    + subst j. rewrite znth0_0. lia.
    + rewrite (znth0_cons x (y :: t) j) by lia.
      assert (H0 : znth0 (y :: t) 0 <= znth0 (y :: t) (j - 1)) by (apply Hm; lia).
      rewrite znth0_0 in H0. lia.
  - rewrite (znth0_cons x (y :: t) i) by lia.
    rewrite (znth0_cons x (y :: t) j) by lia.
    apply Hm; lia.
Qed.

Lemma sorted_from_zmono : forall t prev,
  sorted_from prev t = true -> zmono (prev :: t) /\ exists n, 0 <= n /\ zlen t = 2 * n.
Proof.
  intros t. induction t as [|x|x y t IH] using list_ind2; intros prev Hs.
  - split; [apply zmono_single | exists 0; rewrite zlen_nil; lia].
  - cbn in Hs. discriminate Hs.
  - cbn [sorted_from] in Hs.
    apply andb_true_iff in Hs. destruct Hs as [Hs H3].
    apply andb_true_iff in Hs. destruct Hs as [H1 H2].
    apply Z.ltb_lt in H1. apply Z.leb_le in H2.
    destruct (IH y H3) as [Hm (n & Hn0 & Hn)].
    split.
    + apply zmono_cons; [lia|]. apply zmono_cons; [lia|]. exact Hm.
    + exists (n + 1). rewrite !zlen_cons. lia.
Qed.

Lemma ranges_sorted_zmono : forall tbl,
  ranges_sorted tbl = true -> zmono tbl /\ exists n, 0 <= n /\ zlen tbl = 2 * n.
Proof.
  intros [|x [|y t]] Hs.
  - split.
    + intros i j Hij Hj. rewrite zlen_nil in Hj. lia.
    + exists 0. rewrite zlen_nil. lia.
  - cbn in Hs. discriminate Hs.
  - cbn [ranges_sorted] in Hs.
    apply andb_true_iff in Hs. destruct Hs as [H1 H2]. apply Z.leb_le in H1.
    destruct (sorted_from_zmono t y H2) as [Hm (n & Hn0 & Hn)].
    split.
    + apply zmono_cons; [lia | exact Hm].
    + exists (n + 1). rewrite !zlen_cons. lia.
Qed.

(* ------------------------------------------------------------------------- *)
(* 2. the binary search computes membership                                  *)
(* ------------------------------------------------------------------------- *)

(* index form of the linear specification *)
Lemma in_ranges_iff : forall tbl code,
  in_ranges tbl code = true <->
  exists m, 0 <= m /\ 2 * m + 1 < zlen tbl /\
            znth0 tbl (2 * m) <= code <= znth0 tbl (2 * m + 1).
Proof.
  intros tbl code. induction tbl as [|x|x y t IH] using list_ind2.
  - split.
    + intros H. discriminate H.
    + intros (m & Hm & Hl & _). rewrite zlen_nil in Hl. lia.
  - split.
    + intros H. discriminate H.
    + intros (m & Hm & Hl & _). rewrite zlen_cons, zlen_nil in Hl. lia.
  - cbn [in_ranges]. rewrite orb_true_iff, andb_true_iff, !Z.leb_le, IH. split.
    + intros [[H1 H2] | (m & Hm & Hl & Hr)].
      * exists 0. rewrite !zlen_cons. split; [lia|]. split; [pose proof (zlen_nonneg t); lia|].
        change (2 * 0) with 0. change (0 + 1) with 1.
        rewrite znth0_0. rewrite (znth0_cons x (y :: t) 1) by lia.
        change (1 - 1) with 0. rewrite znth0_0. lia.
      * exists (m + 1). rewrite !zlen_cons. split; [lia|]. split; [lia|].
        replace (2 * (m + 1) + 1) with ((2 * m + 1) + 2) by lia.
        replace (2 * (m + 1)) with (2 * m + 2) by lia.
        rewrite !znth0_cons2 by lia. exact Hr.
    + intros (m & Hm & Hl & Hr). rewrite !zlen_cons in Hl.
      destruct (Z.eq_dec m 0) as [Hm0|Hm0].
      * subst m. left.
        change (2 * 0) with 0 in Hr. change (0 + 1) with 1 in Hr.
        rewrite znth0_0 in Hr. rewrite (znth0_cons x (y :: t) 1) in Hr by lia.
        change (1 - 1) with 0 in Hr. rewrite znth0_0 in Hr. lia.
      * right. exists (m - 1). split; [lia|]. split; [lia|].
        replace (2 * m + 1) with ((2 * (m - 1) + 1) + 2) in Hr by lia.
        replace (2 * m) with (2 * (m - 1) + 2) in Hr by lia.
        rewrite !znth0_cons2 in Hr by lia. exact Hr.
Qed.

Lemma lookup_go_S : forall f tbl code lo hi,
  lookup_go (S f) tbl code lo hi =
  if lo + 1 <? hi then
    let mid0 := lo + (hi - lo) / 2 in
    let mid := mid0 - mid0 mod 2 in
    if (znth0 tbl mid <=? code) && (code <=? znth0 tbl (mid + 1)) then Some true
    else if code <? znth0 tbl mid then lookup_go f tbl code lo mid
    else lookup_go f tbl code (mid + 2) hi
  else Some false.
Proof. reflexivity. Qed.

(* Invariant of the search window [2a, 2b): both ends even and inside the table, the window
   shrinks strictly (fuel), and if code is in some range then that range starts inside the
   window. *)
Lemma lookup_go_correct : forall fuel tbl code,
  zmono tbl ->
  forall a b,
    0 <= a <= b -> 2 * b <= zlen tbl -> 2 * (b - a) < Z.of_nat fuel ->
    (in_ranges tbl code = true ->
     exists m, a <= m < b /\ znth0 tbl (2 * m) <= code <= znth0 tbl (2 * m + 1)) ->
    lookup_go fuel tbl code (2 * a) (2 * b) = Some (in_ranges tbl code).
Proof.
  induction fuel as [|f IH]; intros tbl code Hmono a b Hab Hb Hf Hin.
  - lia.
  - rewrite lookup_go_S.
    destruct (Z.ltb_spec (2 * a + 1) (2 * b)) as [Hlt|Hge].
    + cbv zeta.
      remember (2 * a + (2 * b - 2 * a) / 2 - (2 * a + (2 * b - 2 * a) / 2) mod 2) as mid
        eqn:Emid.
      assert (Hc : exists c, mid = 2 * c /\ a <= c < b).
      { exists ((2 * a + (2 * b - 2 * a) / 2) / 2). subst mid.
        pose proof (Z.div_mod (2 * b - 2 * a) 2 ltac:(lia)) as D1.
        pose proof (Z.mod_pos_bound (2 * b - 2 * a) 2 ltac:(lia)) as B1.
        pose proof (Z.div_mod (2 * a + (2 * b - 2 * a) / 2) 2 ltac:(lia)) as D2.
        pose proof (Z.mod_pos_bound (2 * a + (2 * b - 2 * a) / 2) 2 ltac:(lia)) as B2.
        lia. }
      clear Emid. destruct Hc as (c & Hmid & Hc). subst mid.
      assert (Hhit : znth0 tbl (2 * c) <= code <= znth0 tbl (2 * c + 1) ->
                     in_ranges tbl code = true).
      { intros Hr. apply in_ranges_iff. exists c. split; [lia|]. split; [lia| exact Hr]. }
      destruct (Z.leb_spec (znth0 tbl (2 * c)) code) as [L1|L1];
      destruct (Z.leb_spec code (znth0 tbl (2 * c + 1))) as [L2|L2]; cbn [andb].
      * rewrite Hhit by lia. reflexivity.
      * (* code above range c: go right *)
        destruct (Z.ltb_spec code (znth0 tbl (2 * c))) as [L3|L3]; [lia|].
        replace (2 * c + 2) with (2 * (c + 1)) by lia.
        apply IH; [exact Hmono | lia | lia | lia |].
        intros Hi. destruct (Hin Hi) as (m & Hm1 & Hm2).
        exists m. split; [|exact Hm2].
        destruct (Z.lt_ge_cases c m) as [Hcm|Hcm]; [lia|].
        assert (znth0 tbl (2 * m + 1) <= znth0 tbl (2 * c + 1)) by (apply Hmono; lia).
        lia.
      * (* code below range c: go left *)
        destruct (Z.ltb_spec code (znth0 tbl (2 * c))) as [L3|L3]; [|lia].
        apply IH; [exact Hmono | lia | lia | lia |].
        intros Hi. destruct (Hin Hi) as (m & Hm1 & Hm2).
        exists m. split; [|exact Hm2].
        destruct (Z.lt_ge_cases m c) as [Hcm|Hcm]; [lia|].
        assert (znth0 tbl (2 * c) <= znth0 tbl (2 * m)) by (apply Hmono; lia).
        lia.
      * destruct (Z.ltb_spec code (znth0 tbl (2 * c))) as [L3|L3]; [|lia].
        apply IH; [exact Hmono | lia | lia | lia |].
        intros Hi. destruct (Hin Hi) as (m & Hm1 & Hm2).
        exists m. split; [|exact Hm2].
        destruct (Z.lt_ge_cases m c) as [Hcm|Hcm]; [lia|].
        assert (znth0 tbl (2 * c) <= znth0 tbl (2 * m)) by (apply Hmono; lia).
        lia.
    + destruct (in_ranges tbl code) eqn:E; [|reflexivity].
      destruct (Hin eq_refl) as (m & Hm1 & _). lia.
Qed.

(* Sortedness is only used through [zmono] + even length, so the search is already correct
   for any non-decreasing table of even length. *)
Lemma lookup_correct_zmono : forall tbl code,
  zmono tbl -> (exists n, 0 <= n /\ zlen tbl = 2 * n) ->
  lookup_in_map code tbl = Some (in_ranges tbl code).
Proof.
  intros tbl code Hmono (n & Hn0 & Hn). unfold lookup_in_map.
  destruct (Z.ltb_spec code (znth0 tbl 0)) as [Hlt|Hge].
  - destruct (in_ranges tbl code) eqn:E; [|reflexivity].
    apply in_ranges_iff in E. destruct E as (m & Hm & Hl & Hr).
    assert (znth0 tbl 0 <= znth0 tbl (2 * m)) by (apply Hmono; lia). lia.
  - fold (zlen tbl). rewrite Hn. change 0 with (2 * 0) at 1.
    apply lookup_go_correct; [exact Hmono | lia | lia | unfold zlen in Hn; lia |].
    intros Hi. apply in_ranges_iff in Hi. destruct Hi as (m & Hm & Hl & Hr).
    exists m. split; [lia | exact Hr].
Qed.

Theorem lookup_correct : forall tbl code,
  ranges_sorted tbl = true -> tbl <> [] ->
  lookup_in_map code tbl = Some (in_ranges tbl code).
Proof.
  intros tbl code Hs _.
  destruct (ranges_sorted_zmono tbl Hs) as [Hmono Hlen].
  apply lookup_correct_zmono; assumption.
Qed.

Corollary lookup_b_spec : forall tbl code,
  ranges_sorted tbl = true -> lookup_b code tbl = in_ranges tbl code.
Proof.
  intros tbl code Hs. unfold lookup_b.
  destruct (ranges_sorted_zmono tbl Hs) as [Hmono Hlen].
  rewrite (lookup_correct_zmono tbl code Hmono Hlen). reflexivity.
Qed.

(* ------------------------------------------------------------------------- *)
(* 3. the ES5 tables are sorted                                              *)
(* ------------------------------------------------------------------------- *)

Lemma es5_tables_sorted :
  ranges_sorted es5_id_start = true /\ ranges_sorted es5_id_part = true.
Proof. split; vm_compute; reflexivity. Qed.

Lemma es5_tables_nonempty : es5_id_start <> [] /\ es5_id_part <> [].
Proof. split; unfold es5_id_start, es5_id_part; discriminate. Qed.

(* ------------------------------------------------------------------------- *)
(* 4. identifier classes as plain membership                                 *)
(* ------------------------------------------------------------------------- *)

Theorem ident_start_spec : forall r,
  is_ident_start r =
  (is_ascii_letter r || (r =? 36) || (r =? 95) || ((127 <? r) && in_ranges es5_id_start r)).
Proof.
  intros r. unfold is_ident_start.
  rewrite (lookup_b_spec es5_id_start r (proj1 es5_tables_sorted)). reflexivity.
Qed.

Theorem ident_part_spec : forall r,
  is_ident_part r =
  (is_ascii_letter r || is_digit r || (r =? 36) || (r =? 95) ||
   ((127 <? r) && in_ranges es5_id_part r)).
Proof.
  intros r. unfold is_ident_part.
  rewrite (lookup_b_spec es5_id_part r (proj2 es5_tables_sorted)). reflexivity.
Qed.

(* ------------------------------------------------------------------------- *)
(* 5. canonical (maximal) ranges                                             *)
(* ------------------------------------------------------------------------- *)

Fixpoint in_pairs (ps : list (Z * Z)) (code : Z) : bool :=
  match ps with
  | [] => false
  | (lo, hi) :: t => ((lo <=? code) && (code <=? hi)) || in_pairs t code
  end.

(* [canon_go lo hi t]: (lo,hi) is the range being grown; a following range that touches it
   (hi + 1 = lo') is absorbed, otherwise (lo,hi) is emitted. *)
Fixpoint canon_go (lo hi : Z) (tbl : list Z) : list (Z * Z) :=
  match tbl with
  | lo' :: hi' :: t =>
      if hi + 1 =? lo' then canon_go lo hi' t else (lo, hi) :: canon_go lo' hi' t
  | _ => [(lo, hi)]
  end.

Definition canon_ranges (tbl : list Z) : list (Z * Z) :=
  match tbl with
  | lo :: hi :: t => canon_go lo hi t
  | _ => []
  end.

(* The sortedness used for canon is [ranges_sorted] itself: its strict step hi < lo' already
   allows touching ranges (hi + 1 = lo'), so no weaker variant is needed. *)
Notation ranges_sorted' := ranges_sorted (only parsing).

Lemma in_pairs_canon_go : forall t lo hi code,
  lo <= hi -> sorted_from hi t = true ->
  in_pairs (canon_go lo hi t) code = ((lo <=? code) && (code <=? hi)) || in_ranges t code.
Proof.
  intros t. induction t as [|x|x y t IH] using list_ind2; intros lo hi code Hlh Hs.
  - cbn [canon_go in_pairs in_ranges]. reflexivity.
  - cbn in Hs. discriminate Hs.
  - cbn [sorted_from] in Hs.
    apply andb_true_iff in Hs. destruct Hs as [Hs H3].
    apply andb_true_iff in Hs. destruct Hs as [H1 H2].
    apply Z.ltb_lt in H1. apply Z.leb_le in H2.
    cbn [canon_go in_ranges].
    destruct (Z.eqb_spec (hi + 1) x) as [Ht|Ht].
    + rewrite (IH lo y code ltac:(lia) H3). rewrite orb_assoc. f_equal.
      destruct (Z.leb_spec lo code); destruct (Z.leb_spec code y);
      destruct (Z.leb_spec code hi); destruct (Z.leb_spec x code);
        cbn [andb orb]; try reflexivity; lia.
    + cbn [in_pairs]. rewrite (IH x y code H2 H3). reflexivity.
Qed.

Theorem in_pairs_canon : forall tbl code,
  ranges_sorted' tbl = true -> in_pairs (canon_ranges tbl) code = in_ranges tbl code.
Proof.
  intros [|x [|y t]] code Hs.
  - reflexivity.
  - reflexivity.
  - cbn [ranges_sorted] in Hs.
    apply andb_true_iff in Hs. destruct Hs as [H1 H2]. apply Z.leb_le in H1.
    cbn [canon_ranges in_ranges]. apply in_pairs_canon_go; assumption.
Qed.

(* Maximality: in the canonical list every range is non-empty and consecutive ranges are
   separated by a real gap (hi + 1 < lo'), so no two of them can be merged and the list is
   determined by the set it denotes. *)
Fixpoint pairs_from (prev : Z) (ps : list (Z * Z)) : bool :=
  match ps with
  | [] => true
  | (lo, hi) :: t => (prev + 1 <? lo) && (lo <=? hi) && pairs_from hi t
  end.

Definition pairs_separated (ps : list (Z * Z)) : bool :=
  match ps with
  | [] => true
  | (lo, hi) :: t => (lo <=? hi) && pairs_from hi t
  end.

Lemma canon_go_separated : forall t lo hi prev,
  prev + 1 < lo -> lo <= hi -> sorted_from hi t = true ->
  pairs_from prev (canon_go lo hi t) = true.
Proof.
  intros t. induction t as [|x|x y t IH] using list_ind2; intros lo hi prev Hp Hlh Hs.
  - cbn [canon_go pairs_from].
    apply andb_true_iff. split; [|reflexivity].
    apply andb_true_iff. split; [apply Z.ltb_lt; lia | apply Z.leb_le; lia].
  - cbn in Hs. discriminate Hs.
  - cbn [sorted_from] in Hs.
    apply andb_true_iff in Hs. destruct Hs as [Hs H3].
    apply andb_true_iff in Hs. destruct Hs as [H1 H2].
    apply Z.ltb_lt in H1. apply Z.leb_le in H2.
    cbn [canon_go].
    destruct (Z.eqb_spec (hi + 1) x) as [Ht|Ht].
    + apply IH; [lia | lia | exact H3].
    + cbn [pairs_from].
      apply andb_true_iff. split.
      * apply andb_true_iff. split; [apply Z.ltb_lt; lia | apply Z.leb_le; lia].
      * apply IH; [lia | lia | exact H3].
Qed.

Theorem canon_separated : forall tbl,
  ranges_sorted tbl = true -> pairs_separated (canon_ranges tbl) = true.
Proof.
  intros [|x [|y t]] Hs.
  - reflexivity.
  - reflexivity.
  - cbn [ranges_sorted] in Hs.
    apply andb_true_iff in Hs. destruct Hs as [H1 H2]. apply Z.leb_le in H1.
    cbn [canon_ranges].
    pose proof (canon_go_separated t x y (x - 2) ltac:(lia) H1 H2) as Hc.
    destruct (canon_go x y t) as [|[lo hi] ps].
    + reflexivity.
    + cbn [pairs_from] in Hc. cbn [pairs_separated].
      apply andb_true_iff in Hc. destruct Hc as [Hc Hc3].
      apply andb_true_iff in Hc. destruct Hc as [_ Hc2].
      rewrite Hc2, Hc3. reflexivity.
Qed.

(* identifier classes against the canonical range lists *)
Corollary ident_start_canon : forall r,
  is_ident_start r =
  (is_ascii_letter r || (r =? 36) || (r =? 95) ||
   ((127 <? r) && in_pairs (canon_ranges es5_id_start) r)).
Proof.
  intros r. rewrite ident_start_spec.
  rewrite (in_pairs_canon es5_id_start r (proj1 es5_tables_sorted)). reflexivity.
Qed.

Corollary ident_part_canon : forall r,
  is_ident_part r =
  (is_ascii_letter r || is_digit r || (r =? 36) || (r =? 95) ||
   ((127 <? r) && in_pairs (canon_ranges es5_id_part) r)).
Proof.
  intros r. rewrite ident_part_spec.
  rewrite (in_pairs_canon es5_id_part r (proj2 es5_tables_sorted)). reflexivity.
Qed.

(* ------------------------------------------------------------------------- *)
(* 6. white space, line breaks, digits as range sets                         *)
(* ------------------------------------------------------------------------- *)

(* Split on every integer comparison in the goal; [lia] discards the branches whose
   accumulated facts about r are contradictory, the others compute to b = b. *)
Ltac zbool_cases :=
  repeat (match goal with
          | |- context [?a =? ?b] => destruct (Z.eqb_spec a b)
          | |- context [?a <=? ?b] => destruct (Z.leb_spec a b)
          | |- context [?a <? ?b] => destruct (Z.ltb_spec a b)
          end; try lia);
  try reflexivity.

Theorem whitespace_set : forall r,
  is_white_space r =
  in_pairs [(9,9);(11,12);(32,32);(160,160);(5760,5760);(8192,8203);(8239,8239);
            (8287,8287);(12288,12288);(65279,65279)] r.
Proof. intros r. unfold is_white_space. cbn [in_pairs]. zbool_cases. Qed.

Theorem linebreak_set : forall r,
  is_line_break r = in_pairs [(10,10);(13,13);(133,133);(8232,8233)] r.
Proof. intros r. unfold is_line_break. cbn [in_pairs]. zbool_cases. Qed.

Theorem digit_set : forall r, is_digit r = in_pairs [(48,57)] r.
Proof. intros r. unfold is_digit. cbn [in_pairs]. zbool_cases. Qed.

(* ------------------------------------------------------------------------- *)

Print Assumptions lookup_correct.
Print Assumptions es5_tables_sorted.
Print Assumptions ident_start_spec.
Print Assumptions ident_part_spec.
Print Assumptions in_pairs_canon.
Print Assumptions canon_separated.
Print Assumptions whitespace_set.
Print Assumptions linebreak_set.
Print Assumptions digit_set.
