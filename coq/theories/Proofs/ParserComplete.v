(* Completeness of the recovering precedence-climbing parser with respect to the grammar of
   Syn/Grammar.v: every token stream derivable from the grammar (without scanner diagnostics)
   is accepted and the tree built is exactly the derivation.  Technique as in
   experiments/ToyPrecedence.v: left spines for the left-recursive layers (comma, binary ladder,
   postfix chain), strong induction on tree size for the operands.  Fuel is handled by explicit
   linear bounds (10 per consumed token plus a per-function offset), so no maximum of fuels is
   ever needed. *)
From Coq Require Import List ZArith Lia Bool Arith.
From Formula Require Import Syn.Grammar.
From Formula Require Export Proofs.ParserCompleteMono.
Import ListNotations.
Open Scope Z_scope.

Local Opaque member_rest parse_expression comma_loop parse_assign parse_binary parse_binary_rest
  parse_unary call_rest parse_primary delimited_list.

(* ---------- kinds ---------- *)

Lemma keqb_eq a b : kind_eqb a b = true -> a = b.
Proof. destruct a, b; cbv; intros H; (reflexivity || discriminate H). Qed.

Lemma keqb_refl a : kind_eqb a a = true.
Proof. destruct a; reflexivity. Qed.

Lemma prec_le_10 k : prec_of k <= 10.
Proof. destruct k; cbn; lia. Qed.

Lemma prec_pos_facts k : 0 < prec_of k ->
  kind_eqb k KComma = false /\ kind_eqb k KEquals = false /\ is_identifier_kind k = false /\
  kind_eqb k KDot = false /\ kind_eqb k KBangDot = false /\ kind_eqb k KOpenParen = false.
Proof. destruct k; cbn; intros H; try lia; repeat split; reflexivity. Qed.

(* ---------- states over clean token lists ---------- *)

Definition clean (l : list token) : Prop := Forall (fun t => tdiags t = []) l.
Definition dtok : token := mkTok KEOF [] 0 0 0 false [].
Definition st (l : list token) : pst := mkSt (hd dtok l) (tl l) [].
Definition nxt (l : list token) : token := hd dtok l.
Definition M (l : list atok) (ts : list token) : Prop := Forall2 tok_matches l ts.

Lemma cur_st l : cur (st l) = nxt l.
Proof. reflexivity. Qed.

Lemma cur_st_cons t l : cur (st (t :: l)) = t.
Proof. reflexivity. Qed.

Lemma at_kind_st l k : at_kind (st l) k = kind_eqb (tk (nxt l)) k.
Proof. reflexivity. Qed.

Lemma at_kind_st_cons t l k : at_kind (st (t :: l)) k = kind_eqb (tk t) k.
Proof. reflexivity. Qed.

Lemma advance_st t l : l <> [] -> clean l -> advance (st (t :: l)) = st l.
Proof.
  intros Hne Hc. destruct l as [|t2 r]; [congruence|].
  inversion Hc as [|? ? Hd Hr]; subst.
  unfold advance, st. cbn. rewrite Hd. reflexivity.
Qed.

Lemma want_st t l k : tk t = k -> l <> [] -> clean l -> want (st (t :: l)) k = st l.
Proof.
  intros Hk Hne Hc. unfold want. rewrite at_kind_st_cons, Hk, keqb_refl.
  apply advance_st; assumption.
Qed.

Lemma app_ne (A : Type) (l r : list A) : r <> [] -> l ++ r <> [].
Proof. intros H E. apply app_eq_nil in E. destruct E; congruence. Qed.

Lemma clean_app l r : clean (l ++ r) -> clean l /\ clean r.
Proof. unfold clean. intros H. apply Forall_app in H. exact H. Qed.

Lemma clean_app_r l r : clean (l ++ r) -> clean r.
Proof. intros H. apply clean_app in H. tauto. Qed.

Lemma clean_tail t l : clean (t :: l) -> clean l.
Proof. intros H. inversion H; assumption. Qed.

Lemma M_nil_inv ts : M [] ts -> ts = [].
Proof. intros H. inversion H. reflexivity. Qed.

Lemma M_cons_inv a l ts : M (a :: l) ts -> exists t ts', ts = t :: ts' /\ tok_matches a t /\ M l ts'.
Proof. intros H. inversion H as [|? t ? ts' Ha Hl]; subst. exists t, ts'. auto. Qed.

Lemma M_app_inv l1 l2 ts : M (l1 ++ l2) ts -> exists t1 t2, ts = t1 ++ t2 /\ M l1 t1 /\ M l2 t2.
Proof.
  intros H. apply Forall2_app_inv_l in H. destruct H as (t1 & t2 & H1 & H2 & E).
  exists t1, t2. auto.
Qed.

Lemma tm_inv k v b t : tok_matches (k, v, b) t -> tk t = k /\ tval t = v /\ (b = true -> tnl t = false).
Proof. intros H. exact H. Qed.

Lemma tm_punct k t : tok_matches (punct k) t -> tk t = k.
Proof. intros H. apply tm_inv in H. tauto. Qed.

(* ---------- result shape ---------- *)

Definition ok1 (res : R) (x : sexpr) (rs : list token) : Prop :=
  exists e, res = Some (e, st rs) /\ strip e = x.

(* ---------- conditions on the first token of the continuation ---------- *)

Definition fol (c : token) : Prop :=
  is_identifier_kind (tk c) = false /\
  (tnl c = true \/
   (kind_eqb (tk c) KDot = false /\ kind_eqb (tk c) KBangDot = false /\
    kind_eqb (tk c) KOpenParen = false)).

Definition kfol (k : kind) : bool :=
  negb (is_identifier_kind k) && negb (kind_eqb k KDot) && negb (kind_eqb k KBangDot) &&
  negb (kind_eqb k KOpenParen).

Lemma kfol_fol c : kfol (tk c) = true -> fol c.
Proof.
  unfold kfol, fol. intros H.
  apply andb_true_iff in H. destruct H as (H & H4).
  apply andb_true_iff in H. destruct H as (H & H3).
  apply andb_true_iff in H. destruct H as (H1 & H2).
  apply negb_true_iff in H1, H2, H3, H4. auto.
Qed.

Definition stopA (c : token) : Prop :=
  prec_of (tk c) <= 0 /\ is_assignment_op (tk c) = false /\ kind_eqb (tk c) KQuestion = false.

Definition stopE (c : token) : Prop := kind_eqb (tk c) KComma = false.

Lemma fol_k c k : tk c = k -> kfol k = true -> fol c.
Proof. intros E H. apply kfol_fol. rewrite E. exact H. Qed.

Lemma stopA_k c k : tk c = k ->
  (prec_of k <=? 0) && negb (is_assignment_op k) && negb (kind_eqb k KQuestion) = true -> stopA c.
Proof.
  intros E H. unfold stopA. rewrite E.
  apply andb_true_iff in H. destruct H as (H & H3).
  apply andb_true_iff in H. destruct H as (H1 & H2).
  apply Z.leb_le in H1. apply negb_true_iff in H2, H3. auto.
Qed.

Lemma fol_op c : 0 < prec_of (tk c) -> fol c.
Proof.
  intros H. destruct (prec_pos_facts _ H) as (_ & _ & H1 & H2 & H3 & H4).
  unfold fol. auto.
Qed.

(* ---------- sizes, lists ---------- *)

Fixpoint size (x : sexpr) : nat :=
  match x with
  | SPrefix _ a | STypeof a | SParen a => S (size a)
  | SBin l _ r => S (size l + size r)
  | SCond c t f => S (size c + size t + size f)
  | SArr es =>
    S ((fix go (l : list sexpr) : nat := match l with [] => O | a :: t => (size a + go t)%nat end) es)
  | SSel a _ _ _ | SSelMissing a _ => S (size a)
  | SCall f args _ =>
    S (size f +
       (fix go (l : list sexpr) : nat := match l with [] => O | a :: t => (size a + go t)%nat end) args)
  | _ => 1%nat
  end.

Fixpoint sizes (l : list sexpr) : nat :=
  match l with [] => O | a :: t => (size a + sizes t)%nat end.

Lemma size_arr es : size (SArr es) = S (sizes es).
Proof. reflexivity. Qed.

Lemma size_call f args sp : size (SCall f args sp) = S (size f + sizes args).
Proof. reflexivity. Qed.

Lemma size_pos x : (1 <= size x)%nat.
Proof. destruct x; cbn; lia. Qed.

Lemma in_sizes a l : In a l -> (size a <= sizes l)%nat.
Proof.
  induction l as [|b l IH]; intros H; [destruct H|].
  cbn [sizes]. destruct H as [E|H]; [subst; lia|]. specialize (IH H). lia.
Qed.

Fixpoint wfl (l : list sexpr) : Prop :=
  match l with [] => True | a :: t => wf a /\ 1 <= slvl a /\ wfl t end.

Lemma wf_arr es : wf (SArr es) = wfl es.
Proof. reflexivity. Qed.

Lemma wf_call f args sp : wf (SCall f args sp) = (wf f /\ 13 <= slvl f /\ wfl args).
Proof. reflexivity. Qed.

Lemma wfl_forall l : wfl l -> Forall (fun a => wf a /\ 1 <= slvl a) l.
Proof.
  induction l as [|a l IH]; intros H; [constructor|].
  destruct H as (H1 & H2 & H3). constructor; auto.
Qed.

Fixpoint yield_list (l : list sexpr) : list atok :=
  match l with
  | [] => []
  | [a] => yield a
  | a :: t => yield a ++ punct KComma :: yield_list t
  end.

Lemma yield_arr es :
  yield (SArr es) = punct KOpenBracket :: yield_list es ++ [punct KCloseBracket].
Proof. reflexivity. Qed.

Lemma yield_call f args sp :
  yield (SCall f args sp) =
  yield f ++ (KOpenParen, [], true) :: yield_list args ++
    (if sp then [punct KDotDotDot] else []) ++ [punct KCloseParen].
Proof. reflexivity. Qed.

Lemma yield_list_cons2 a b t :
  yield_list (a :: b :: t) = yield a ++ punct KComma :: yield_list (b :: t).
Proof. reflexivity. Qed.

(* ---------- first token of a derivation ---------- *)

Definition starts (k : kind) : bool :=
  match k with
  | KIdent | KNumber | KString | KNull | KTrue | KFalse | KThis | KCtx
  | KPlus | KMinus | KTilde | KBang | KBangBang | KTypeof | KOpenParen | KOpenBracket => true
  | _ => false
  end.

Lemma starts_element c k : starts k = true -> is_list_element c k = true.
Proof. destruct c, k; cbn; intros H; (reflexivity || discriminate H). Qed.

Lemma first_tok x : wf x -> exists k v b l, yield x = (k, v, b) :: l /\ starts k = true.
Proof.
  induction x as [k v| |k v|op a IH|a IH|l IHl op r IHr|c IHc t IHt f IHf|es|a IH
                  |a IH nk n asrt|a IH asrt|f IH args sp]; intros Hw.
  - cbn in Hw. subst k. cbn. eexists _, _, _, _. split; reflexivity.
  - destruct Hw.
  - cbn in Hw. cbn. eexists _, _, _, _. split; [reflexivity|]. destruct k; (reflexivity || discriminate Hw).
  - cbn in Hw. destruct Hw as (Ho & _). cbn. eexists _, _, _, _. split; [reflexivity|].
    destruct op; (reflexivity || discriminate Ho).
  - cbn. eexists _, _, _, _. split; reflexivity.
  - cbn [wf] in Hw. destruct Hw as (Hl & _). destruct (IHl Hl) as (k & v & b & l0 & E & S0).
    cbn [yield]. rewrite E. cbn [app]. eexists _, _, _, _. split; [reflexivity|exact S0].
  - cbn [wf] in Hw. destruct Hw as (Hc & _). destruct (IHc Hc) as (k & v & b & l0 & E & S0).
    cbn [yield]. rewrite E. cbn [app]. eexists _, _, _, _. split; [reflexivity|exact S0].
  - rewrite yield_arr. eexists _, _, _, _. split; reflexivity.
  - cbn. eexists _, _, _, _. split; reflexivity.
  - cbn [wf] in Hw. destruct Hw as (Ha & _). destruct (IH Ha) as (k & v & b & l0 & E & S0).
    cbn [yield]. rewrite E. cbn [app]. eexists _, _, _, _. split; [reflexivity|exact S0].
  - destruct Hw.
  - rewrite wf_call in Hw. destruct Hw as (Hf & _). destruct (IH Hf) as (k & v & b & l0 & E & S0).
    rewrite yield_call. rewrite E. cbn [app]. eexists _, _, _, _. split; [reflexivity|exact S0].
Qed.

Lemma first_tok_M x ts : wf x -> M (yield x) ts ->
  exists t ts', ts = t :: ts' /\ starts (tk t) = true.
Proof.
  intros Hw Hm. destruct (first_tok x Hw) as (k & v & b & l & E & S0).
  rewrite E in Hm. apply M_cons_inv in Hm. destruct Hm as (t & ts' & Ets & Ht & _).
  apply tm_inv in Ht. destruct Ht as (Hk & _). exists t, ts'. split; [exact Ets|]. rewrite Hk. exact S0.
Qed.

(* ---------- levels ---------- *)

Lemma slvl_bin_le l op r : slvl (SBin l op r) <= 11.
Proof.
  cbn [slvl]. destruct (kind_eqb op KComma); [lia|]. destruct (kind_eqb op KEquals); [lia|].
  pose proof (prec_le_10 op). lia.
Qed.

Lemma slvl_ladder l op r : 0 < prec_of op -> slvl (SBin l op r) = 1 + prec_of op.
Proof.
  intros H. destruct (prec_pos_facts _ H) as (H1 & H2 & _). cbn [slvl]. rewrite H1, H2. reflexivity.
Qed.

Lemma wf_ladder l op r : 0 < prec_of op -> wf (SBin l op r) ->
  wf l /\ wf r /\ 1 + prec_of op <= slvl l /\ 1 + prec_of op < slvl r.
Proof.
  intros H Hw. destruct (prec_pos_facts _ H) as (H1 & H2 & _). cbn [wf] in Hw.
  rewrite H1, H2 in Hw. tauto.
Qed.

(* a well-formed binary node of level >= 2 is a ladder node *)
Lemma wf_bin_ladder l op r : wf (SBin l op r) -> 2 <= slvl (SBin l op r) -> 0 < prec_of op.
Proof.
  intros Hw Hl. cbn [wf] in Hw. cbn [slvl] in Hl.
  destruct (kind_eqb op KComma); [lia|]. destruct (kind_eqb op KEquals); [lia|]. tauto.
Qed.

(* ---------- the postfix chain: a primary followed by blocks (selectors then a call)
              and final selectors ---------- *)

Definition sel := (kind * list Z * bool)%type.           (* name kind, name, non-null assertion *)
Definition block := (list sel * list sexpr * bool)%type.  (* selectors, arguments, spread *)

Fixpoint apply_sels (b : sexpr) (l : list sel) : sexpr :=
  match l with
  | [] => b
  | (nk, n, asrt) :: t => apply_sels (SSel b nk n asrt) t
  end.

Fixpoint unchain (b : sexpr) (bl : list block) (fs : list sel) : sexpr :=
  match bl with
  | [] => apply_sels b fs
  | (sl, args, sp) :: more => unchain (SCall (apply_sels b sl) args sp) more fs
  end.

Fixpoint pchain (x : sexpr) : sexpr * list block * list sel :=
  match x with
  | SSel a nk n asrt => let '(b, bl, fs) := pchain a in (b, bl, fs ++ [(nk, n, asrt)])
  | SCall f args sp => let '(b, bl, fs) := pchain f in (b, bl ++ [(fs, args, sp)], [])
  | _ => (x, [], [])
  end.

Definition yield_sel (s : sel) : list atok :=
  let '(nk, n, asrt) := s in [((if asrt then KBangDot else KDot), [], true); (nk, n, false)].

Fixpoint yield_sels (l : list sel) : list atok :=
  match l with [] => [] | s :: t => yield_sel s ++ yield_sels t end.

Definition yield_args (args : list sexpr) (sp : bool) : list atok :=
  (KOpenParen, [], true) :: yield_list args ++ (if sp then [punct KDotDotDot] else []) ++ [punct KCloseParen].

Fixpoint yield_blocks (bl : list block) : list atok :=
  match bl with
  | [] => []
  | (sl, args, sp) :: more => yield_sels sl ++ yield_args args sp ++ yield_blocks more
  end.

Lemma apply_sels_snoc b l nk n asrt :
  apply_sels b (l ++ [(nk, n, asrt)]) = SSel (apply_sels b l) nk n asrt.
Proof.
  revert b. induction l as [|[[k m] a] l IH]; intros b; cbn [apply_sels app]; [reflexivity|apply IH].
Qed.

Lemma unchain_snoc_sel b bl fs nk n asrt :
  unchain b bl (fs ++ [(nk, n, asrt)]) = SSel (unchain b bl fs) nk n asrt.
Proof.
  revert b. induction bl as [|[[sl args] sp] bl IH]; intros b; cbn [unchain].
  - apply apply_sels_snoc.
  - apply IH.
Qed.

Lemma unchain_snoc_block b bl fs args sp :
  unchain b (bl ++ [(fs, args, sp)]) [] = SCall (unchain b bl fs) args sp.
Proof.
  revert b. induction bl as [|[[sl a] s] bl IH]; intros b; cbn [unchain app apply_sels].
  - reflexivity.
  - apply IH.
Qed.

Lemma yield_sels_app l1 l2 : yield_sels (l1 ++ l2) = yield_sels l1 ++ yield_sels l2.
Proof.
  induction l1 as [|s l1 IH]; cbn [yield_sels app]; [reflexivity|]. rewrite IH, app_assoc. reflexivity.
Qed.

Lemma yield_blocks_app l1 l2 : yield_blocks (l1 ++ l2) = yield_blocks l1 ++ yield_blocks l2.
Proof.
  induction l1 as [|[[sl a] s] l1 IH]; cbn [yield_blocks app]; [reflexivity|].
  rewrite IH, !app_assoc. reflexivity.
Qed.

Definition sels_ok (l : list sel) : Prop :=
  Forall (fun s : sel => is_identifier_kind (fst (fst s)) = true) l.

(* arguments of a block are well-formed list elements, each smaller than n *)
Definition block_wf (n : nat) (b : block) : Prop :=
  let '(sl, args, sp) := b in sels_ok sl /\ wfl args /\ (sizes args < n)%nat.

Lemma block_wf_mono n m b : (n <= m)%nat -> block_wf n b -> block_wf m b.
Proof. destruct b as [[sl args] sp]. cbn. intros Hle (H1 & H2 & H3). repeat split; auto. lia. Qed.

Lemma pchain_spec x : wf x -> 13 <= slvl x ->
  let '(b, bl, fs) := pchain x in
  unchain b bl fs = x /\
  yield x = yield b ++ yield_blocks bl ++ yield_sels fs /\
  wf b /\ slvl b = 14 /\ (size b <= size x)%nat /\
  Forall (block_wf (size x)) bl /\ sels_ok fs.
Proof.
  induction x as [k v| |k v|op a IH|a IH|l IHl op r IHr|c IHc t IHt f IHf|es|a IH
                  |a IH nk n asrt|a IH asrt|f IH args sp]; intros Hw Hl;
    try (cbn [pchain unchain apply_sels yield_blocks yield_sels];
         rewrite !app_nil_r; repeat split; auto; constructor).
  - cbn in Hl. lia.
  - cbn in Hl. lia.
  - pose proof (slvl_bin_le l op r). lia.
  - cbn in Hl. lia.
  - (* SSel *)
    cbn [wf] in Hw. destruct Hw as (Ha & Hla & Hnk).
    specialize (IH Ha Hla). cbn [pchain]. destruct (pchain a) as [[b bl] fs].
    destruct IH as (Eu & Ey & Hwb & Hlb & Hsb & Hbl & Hfs).
    split; [rewrite unchain_snoc_sel, Eu; reflexivity|].
    split; [cbn [yield]; rewrite Ey, yield_sels_app, <- !app_assoc; reflexivity|].
    split; [exact Hwb|]. split; [exact Hlb|]. split; [cbn [size]; lia|].
    split.
    + eapply Forall_impl; [|exact Hbl]. intros bk. apply block_wf_mono. cbn [size]. lia.
    + apply Forall_app. split; [exact Hfs|]. constructor; [exact Hnk|constructor].
  - destruct Hw.
  - (* SCall *)
    rewrite wf_call in Hw. destruct Hw as (Hf & Hlf & Hargs).
    specialize (IH Hf Hlf). cbn [pchain]. destruct (pchain f) as [[b bl] fs].
    destruct IH as (Eu & Ey & Hwb & Hlb & Hsb & Hbl & Hfs).
    split; [rewrite unchain_snoc_block, Eu; reflexivity|].
    split.
    { rewrite yield_call, Ey, yield_blocks_app. cbn [yield_blocks yield_sels yield_args].
      rewrite !app_nil_r, <- !app_assoc. reflexivity. }
    split; [exact Hwb|]. split; [exact Hlb|]. split; [rewrite size_call; lia|].
    split; [|constructor].
    apply Forall_app. split.
    + eapply Forall_impl; [|exact Hbl]. intros bk. apply block_wf_mono. rewrite size_call. lia.
    + constructor; [|constructor]. cbn [block_wf]. rewrite size_call. repeat split; auto. lia.
Qed.

(* ---------- the binary ladder spine ---------- *)

Fixpoint bspine (x : sexpr) : sexpr * list (kind * sexpr) :=
  match x with
  | SBin l op r =>
    if 0 <? prec_of op then let '(a, s) := bspine l in (a, s ++ [(op, r)]) else (x, [])
  | _ => (x, [])
  end.

Fixpoint unspine (a : sexpr) (s : list (kind * sexpr)) : sexpr :=
  match s with [] => a | (o, r) :: s' => unspine (SBin a o r) s' end.

Fixpoint yield_sp (s : list (kind * sexpr)) : list atok :=
  match s with [] => [] | (o, r) :: s' => punct o :: yield r ++ yield_sp s' end.

(* operators positive and non-increasing along the spine, right operands strictly tighter *)
Fixpoint spine_ok (s : list (kind * sexpr)) : Prop :=
  match s with
  | [] => True
  | (o, r) :: s' =>
    0 < prec_of o /\ wf r /\ 1 + prec_of o < slvl r /\
    (forall o' r', In (o', r') s' -> prec_of o' <= prec_of o) /\ spine_ok s'
  end.

Lemma unspine_snoc a s o r : unspine a (s ++ [(o, r)]) = SBin (unspine a s) o r.
Proof. revert a. induction s as [|[o' r'] s IH]; intros a; cbn [unspine app]; [reflexivity|apply IH]. Qed.

Lemma yield_sp_snoc s o r : yield_sp (s ++ [(o, r)]) = yield_sp s ++ punct o :: yield r.
Proof.
  induction s as [|[o' r'] s IH]; cbn [yield_sp app]; [rewrite app_nil_r; reflexivity|].
  rewrite IH, <- app_assoc. reflexivity.
Qed.

Lemma spine_ok_snoc s o r :
  spine_ok s -> 0 < prec_of o -> wf r -> 1 + prec_of o < slvl r ->
  (forall o' r', In (o', r') s -> prec_of o <= prec_of o') ->
  spine_ok (s ++ [(o, r)]).
Proof.
  induction s as [|[o1 r1] s IH]; intros Hs Ho Hr Hlr Hle; cbn [spine_ok app].
  - repeat split; auto. intros o' r' [].
  - cbn [spine_ok] in Hs. destruct Hs as (H1 & H2 & H3 & H4 & H5).
    repeat split; auto.
    + intros o' r' Hin. apply in_app_or in Hin. destruct Hin as [Hin|[E|[]]].
      * eapply H4; eauto.
      * inversion E; subst. apply (Hle o1 r1). left. reflexivity.
    + apply IH; auto. intros o' r' Hin. apply (Hle o' r'). right. exact Hin.
Qed.

Lemma bspine_spec x : wf x -> 2 <= slvl x ->
  let '(a, s) := bspine x in
  unspine a s = x /\ yield x = yield a ++ yield_sp s /\
  wf a /\ 12 <= slvl a /\ (size a <= size x)%nat /\ spine_ok s /\
  (forall o r, In (o, r) s -> slvl x <= 1 + prec_of o /\ (size r < size x)%nat).
Proof.
  induction x as [k v| |k v|op a IH|a IH|l IHl op r IHr|c IHc t IHt f IHf|es|a IH
                  |a IH nk n asrt|a IH asrt|f IH args sp]; intros Hw Hl;
    try (cbn [bspine unspine yield_sp];
         split; [reflexivity|]; split; [rewrite app_nil_r; reflexivity|]; split; [exact Hw|];
         split; [cbn [slvl]; lia|]; split; [lia|]; split; [exact I|]; intros o0 r0 []).
  - (* SBin *)
    pose proof (wf_bin_ladder _ _ _ Hw Hl) as Hop.
    cbn [bspine]. assert (E : (0 <? prec_of op) = true) by (apply Z.ltb_lt; exact Hop).
    rewrite E. destruct (wf_ladder _ _ _ Hop Hw) as (Hwl & Hwr & Hll & Hlr).
    assert (Hl2 : 2 <= slvl l) by lia.
    specialize (IHl Hwl Hl2). destruct (bspine l) as [a s].
    destruct IHl as (Eu & Ey & Hwa & Hla & Hsa & Hs & Hin).
    split; [rewrite unspine_snoc, Eu; reflexivity|].
    split; [cbn [yield]; rewrite Ey, yield_sp_snoc, <- app_assoc; reflexivity|].
    split; [exact Hwa|]. split; [exact Hla|]. split; [cbn [size]; lia|].
    split.
    + apply spine_ok_snoc; auto. intros o' r' Hi. destruct (Hin _ _ Hi) as (H1 & _). lia.
    + intros o' r' Hi. apply in_app_or in Hi. destruct Hi as [Hi|[Ei|[]]].
      * destruct (Hin _ _ Hi) as (H1 & H2). rewrite (slvl_ladder _ _ _ Hop). cbn [size]. split; lia.
      * inversion Ei; subst. rewrite (slvl_ladder _ _ _ Hop). cbn [size]. split; lia.
  - cbn in Hl. lia.
Qed.

(* ---------- the comma spine ---------- *)

Fixpoint cspine (x : sexpr) : sexpr * list sexpr :=
  match x with
  | SBin l op r => if kind_eqb op KComma then let '(a, s) := cspine l in (a, s ++ [r]) else (x, [])
  | _ => (x, [])
  end.

Fixpoint uncomma (a : sexpr) (s : list sexpr) : sexpr :=
  match s with [] => a | r :: s' => uncomma (SBin a KComma r) s' end.

Fixpoint yield_cs (s : list sexpr) : list atok :=
  match s with [] => [] | r :: s' => punct KComma :: yield r ++ yield_cs s' end.

Lemma uncomma_snoc a s r : uncomma a (s ++ [r]) = SBin (uncomma a s) KComma r.
Proof. revert a. induction s as [|r' s IH]; intros a; cbn [uncomma app]; [reflexivity|apply IH]. Qed.

Lemma yield_cs_snoc s r : yield_cs (s ++ [r]) = yield_cs s ++ punct KComma :: yield r.
Proof.
  induction s as [|r' s IH]; cbn [yield_cs app]; [rewrite app_nil_r; reflexivity|].
  rewrite IH, <- app_assoc. reflexivity.
Qed.

Lemma cspine_spec x : wf x ->
  let '(a, s) := cspine x in
  uncomma a s = x /\ yield x = yield a ++ yield_cs s /\
  wf a /\ 1 <= slvl a /\ (size a <= size x)%nat /\
  Forall (fun r => wf r /\ 1 <= slvl r /\ (size r < size x)%nat) s.
Proof.
  induction x as [k v| |k v|op a IH|a IH|l IHl op r IHr|c IHc t IHt f IHf|es|a IH
                  |a IH nk n asrt|a IH asrt|f IH args sp]; intros Hw;
    try (cbn [cspine uncomma yield_cs];
         split; [reflexivity|]; split; [rewrite app_nil_r; reflexivity|]; split; [exact Hw|];
         split; [cbn [slvl]; lia|]; split; [lia|]; constructor).
  - (* SBin *)
    cbn [cspine]. destruct (kind_eqb op KComma) eqn:E.
    + apply keqb_eq in E. subst op. cbn [wf] in Hw. cbn in Hw. destruct Hw as (Hwl & Hwr & Hlr).
      specialize (IHl Hwl). destruct (cspine l) as [a s].
      destruct IHl as (Eu & Ey & Hwa & Hla & Hsa & Hs).
      split; [rewrite uncomma_snoc, Eu; reflexivity|].
      split; [cbn [yield]; rewrite Ey, yield_cs_snoc, <- app_assoc; reflexivity|].
      split; [exact Hwa|]. split; [exact Hla|]. split; [cbn [size]; lia|].
      apply Forall_app. split.
      * eapply Forall_impl; [|exact Hs]. cbn [size]. intros r0 (H1 & H2 & H3). repeat split; auto. lia.
      * constructor; [|constructor]. cbn [size]. repeat split; auto. lia.
    + cbn [uncomma yield_cs]. rewrite app_nil_r.
      split; [reflexivity|]. split; [reflexivity|]. split; [exact Hw|].
      split; [|split; [lia|constructor]].
      cbn [wf] in Hw. cbn [slvl]. rewrite E in *. destruct (kind_eqb op KEquals); [lia|].
      destruct Hw as (_ & _ & Hp & _). lia.
Qed.

(* ---------- list normalisation ---------- *)

Ltac norm_in H := repeat first [rewrite <- app_assoc in H | progress cbn [app] in H].
Ltac norm_goal := repeat first [rewrite <- app_assoc | progress cbn [app]].

(* ---------- member access: member_rest consumes a run of selectors ---------- *)

Lemma prsd_ok nm l : l <> [] -> clean l -> is_identifier_kind (tk nm) = true ->
  is_identifier_kind (tk (nxt l)) = false ->
  exists p e, parse_right_side_of_dot (st (nm :: l)) = (EIdent (tk nm) (tval nm) p e, st l).
Proof.
  intros Hne Hc Hid Hnx. unfold parse_right_side_of_dot.
  rewrite cur_st_cons. change (rest (st (nm :: l))) with l.
  assert (E : match l with t2 :: _ => is_identifier_kind (tk t2) && negb (tnl t2) | [] => false end = false).
  { destruct l as [|t2 l']; [reflexivity|]. cbn [nxt hd] in Hnx. rewrite Hnx. reflexivity. }
  rewrite E, andb_false_r.
  unfold parse_identifier. rewrite cur_st_cons, Hid. rewrite advance_st by assumption.
  eexists _, _. reflexivity.
Qed.

Lemma nxt_sels sels ts rs : M (yield_sels sels) ts ->
  is_identifier_kind (tk (nxt rs)) = false -> is_identifier_kind (tk (nxt (ts ++ rs))) = false.
Proof.
  intros Hm Hid. destruct sels as [|[[nk n] asrt] sels].
  - apply M_nil_inv in Hm. subst ts. exact Hid.
  - cbn [yield_sels yield_sel app] in Hm. apply M_cons_inv in Hm.
    destruct Hm as (d & ts1 & E1 & Hd & _). subst ts. cbn [app nxt hd].
    apply tm_inv in Hd. destruct Hd as (Hk & _). rewrite Hk. destruct asrt; reflexivity.
Qed.

Lemma member_rest_complete : forall sels e ts rs f,
  sels_ok sels -> M (yield_sels sels) ts -> rs <> [] -> clean (ts ++ rs) ->
  is_identifier_kind (tk (nxt rs)) = false ->
  (tnl (nxt rs) = true \/
   (kind_eqb (tk (nxt rs)) KDot = false /\ kind_eqb (tk (nxt rs)) KBangDot = false)) ->
  (length ts + 1 <= f)%nat ->
  exists e', member_rest f e (st (ts ++ rs)) = Some (e', st rs) /\
             strip e' = apply_sels (strip e) sels.
Proof.
  induction sels as [|[[nk n] asrt] sels IH]; intros e ts rs f Hok Hm Hne Hc Hid Hstop Hf.
  - apply M_nil_inv in Hm. subst ts. cbn [app]. destruct f as [|f]; [lia|].
    rewrite member_rest_S, cur_st, !at_kind_st.
    destruct Hstop as [Hnl|(H1 & H2)].
    + rewrite Hnl. exists e. split; reflexivity.
    + rewrite H1, H2. destruct (tnl (nxt rs)); exists e; split; reflexivity.
  - cbn [yield_sels yield_sel app] in Hm.
    apply M_cons_inv in Hm. destruct Hm as (d & ts1 & E1 & Hd & Hm).
    apply M_cons_inv in Hm. destruct Hm as (nm & ts2 & E2 & Hnm & Hm). subst ts ts1.
    apply tm_inv in Hd. destruct Hd as (Hdk & _ & Hdnl). specialize (Hdnl eq_refl).
    apply tm_inv in Hnm. destruct Hnm as (Hnk & Hnv & _).
    pose proof (Forall_inv Hok) as Hnkid. pose proof (Forall_inv_tail Hok) as Hok'. cbn [fst] in Hnkid.
    cbn [app] in Hc |- *.
    pose proof (clean_tail _ _ Hc) as Hc1. pose proof (clean_tail _ _ Hc1) as Hc2.
    cbn [length] in Hf. destruct f as [|f]; [lia|].
    rewrite member_rest_S, cur_st_cons, Hdnl, !at_kind_st_cons.
    assert (Edot : kind_eqb (tk d) KDot || kind_eqb (tk d) KBangDot = true)
      by (rewrite Hdk; destruct asrt; reflexivity).
    assert (Easrt : kind_eqb (tk d) KBangDot = asrt) by (rewrite Hdk; destruct asrt; reflexivity).
    rewrite Edot, Easrt. cbv zeta.
    rewrite advance_st; [|discriminate|exact Hc1].
    destruct (prsd_ok nm (ts2 ++ rs)) as (p0 & e0 & Ep).
    { apply app_ne; exact Hne. } { exact Hc2. } { rewrite Hnk; exact Hnkid. }
    { eapply nxt_sels; eauto. }
    rewrite Ep. cbv beta iota.
    destruct (IH (ESel e (EIdent (tk nm) (tval nm) p0 e0) asrt (epos e) (node_pos (st (ts2 ++ rs))))
                 ts2 rs f Hok' Hm Hne Hc2 Hid Hstop) as (e' & He' & Hs'); [lia|].
    exists e'. split; [exact He'|]. rewrite Hs'. cbn [strip apply_sels]. rewrite Hnk, Hnv. reflexivity.
Qed.

(* ---------- the per-level statements ---------- *)

Definition PU (x : sexpr) : Prop := forall ts rs f,
  12 <= slvl x -> M (yield x) ts -> rs <> [] -> clean (ts ++ rs) -> fol (nxt rs) ->
  (10 * length ts + 1 <= f)%nat -> ok1 (parse_unary f (st (ts ++ rs))) x rs.

Definition PB (x : sexpr) : Prop := forall p ts rs f,
  0 <= p -> 1 + p < slvl x -> M (yield x) ts -> rs <> [] -> clean (ts ++ rs) -> fol (nxt rs) ->
  prec_of (tk (nxt rs)) <= p ->
  (10 * length ts + 2 <= f)%nat -> ok1 (parse_binary f p (st (ts ++ rs))) x rs.

Definition PA (x : sexpr) : Prop := forall ts rs f,
  1 <= slvl x -> M (yield x) ts -> rs <> [] -> clean (ts ++ rs) -> fol (nxt rs) ->
  stopA (nxt rs) ->
  (10 * length ts + 3 <= f)%nat -> ok1 (parse_assign f (st (ts ++ rs))) x rs.

Definition PE (x : sexpr) : Prop := forall ts rs f,
  M (yield x) ts -> rs <> [] -> clean (ts ++ rs) -> fol (nxt rs) ->
  stopA (nxt rs) -> stopE (nxt rs) ->
  (10 * length ts + 4 <= f)%nat -> ok1 (parse_expression f (st (ts ++ rs))) x rs.

(* ---------- delimited lists ---------- *)

Definition elem_ok (a : sexpr) : Prop := wf a /\ 1 <= slvl a /\ PA a.

Definition term_ok (c : pctx) (t : token) : Prop :=
  is_list_terminator c (tk t) = true /\ is_list_element c (tk t) = false /\
  fol t /\ stopA t /\ kind_eqb (tk t) KComma = false.

Lemma term_ok_k c t k : tk t = k ->
  is_list_terminator c k && negb (is_list_element c k) && kfol k &&
  ((prec_of k <=? 0) && negb (is_assignment_op k) && negb (kind_eqb k KQuestion)) &&
  negb (kind_eqb k KComma) = true -> term_ok c t.
Proof.
  intros E H.
  apply andb_true_iff in H. destruct H as (H & H5).
  apply andb_true_iff in H. destruct H as (H & H4).
  apply andb_true_iff in H. destruct H as (H & H3).
  apply andb_true_iff in H. destruct H as (H1 & H2).
  apply negb_true_iff in H2, H5.
  unfold term_ok. split; [rewrite E; exact H1|]. split; [rewrite E; exact H2|].
  split; [apply (fol_k _ k); auto|]. split; [apply (stopA_k _ k); auto|]. rewrite E; exact H5.
Qed.

Lemma dlist_nonempty c : forall es, es <> [] -> Forall elem_ok es ->
  forall tr ts rs f, M (yield_list es) ts -> rs <> [] -> clean (ts ++ rs) -> term_ok c (nxt rs) ->
  (10 * length ts + 4 <= f)%nat ->
  exists res, delimited_list f c tr (st (ts ++ rs)) = Some (res, st rs) /\ map strip res = es.
Proof.
  induction es as [|a es IH]; intros Hne0 Hall tr ts rs f Hm Hne Hc Ht Hf; [congruence|].
  inversion Hall as [|? ? Ha Hall']; subst. destruct Ha as (Hwa & Hla & HPa).
  pose proof Ht as Ht0. destruct Ht as (Hterm & Hnel & Hfol & HstA & Hncomma).
  destruct f as [|f]; [lia|]. rewrite delimited_list_S.
  destruct es as [|b es].
  - cbn [yield_list] in Hm.
    destruct (first_tok_M _ _ Hwa Hm) as (t0 & ts0 & Ets & Hst).
    assert (Hel : is_list_element c (tk (cur (st (ts ++ rs)))) = true).
    { subst ts. cbn [app]. rewrite cur_st_cons. apply starts_element. exact Hst. }
    rewrite Hel.
    destruct (HPa ts rs f Hla Hm Hne Hc Hfol HstA) as (e & He & Hs); [lia|].
    rewrite He. rewrite at_kind_st, Hncomma, cur_st, Hterm.
    exists [e]. split; [reflexivity|]. cbn [map]. rewrite Hs. reflexivity.
  - rewrite yield_list_cons2 in Hm. apply M_app_inv in Hm. destruct Hm as (ta & t2 & Ets & Hma & Hm2).
    apply M_cons_inv in Hm2. destruct Hm2 as (cm & tb & E2 & Hcm & Hmb). subst ts t2.
    apply tm_punct in Hcm.
    norm_in Hc. norm_goal.
    destruct (first_tok_M _ _ Hwa Hma) as (t0 & ts0 & Eta & Hst).
    assert (Hel : is_list_element c (tk (cur (st (ta ++ cm :: tb ++ rs)))) = true).
    { subst ta. cbn [app]. rewrite cur_st_cons. apply starts_element. exact Hst. }
    rewrite Hel.
    rewrite app_length in Hf. cbn [length] in Hf.
    destruct (HPa ta (cm :: tb ++ rs) f Hla Hma) as (e & He & Hs).
    + discriminate.
    + exact Hc.
    + apply (fol_k _ KComma); [exact Hcm|reflexivity].
    + apply (stopA_k _ KComma); [exact Hcm|reflexivity].
    + lia.
    + rewrite He, at_kind_st_cons, Hcm, keqb_refl.
      pose proof (clean_app_r _ _ Hc) as Hc1.
      rewrite advance_st; [|apply app_ne; exact Hne|exact (clean_tail _ _ Hc1)].
      destruct (IH ltac:(discriminate) Hall' true tb rs f Hmb Hne (clean_tail _ _ Hc1) Ht0)
        as (res & Hr & Hmap); [lia|].
      rewrite Hr. exists (e :: res). split; [reflexivity|]. cbn [map]. rewrite Hs, Hmap. reflexivity.
Qed.

Lemma dlist_complete c es ts rs f :
  Forall elem_ok es -> M (yield_list es) ts -> rs <> [] -> clean (ts ++ rs) -> term_ok c (nxt rs) ->
  (10 * length ts + 4 <= f)%nat ->
  exists res, delimited_list f c false (st (ts ++ rs)) = Some (res, st rs) /\ map strip res = es.
Proof.
  intros Hall Hm Hne Hc Ht Hf. destruct es as [|a es].
  - apply M_nil_inv in Hm. subst ts. cbn [app]. destruct f as [|f]; [lia|].
    destruct Ht as (Hterm & Hnel & _).
    rewrite delimited_list_S, cur_st, Hnel, Hterm. exists []. split; reflexivity.
  - apply dlist_nonempty; auto. discriminate.
Qed.

(* ---------- calls: call_rest consumes the blocks and the final selectors ---------- *)

Definition block_ok (b : block) : Prop :=
  let '(sl, args, sp) := b in sels_ok sl /\ Forall elem_ok args.

Lemma head_sels_nl sl tsl lp R : M (yield_sels sl) tsl -> tnl lp = false ->
  tnl (nxt (tsl ++ lp :: R)) = false.
Proof.
  intros Hm Hnl. destruct sl as [|[[nk n] asrt] sl].
  - apply M_nil_inv in Hm. subst tsl. exact Hnl.
  - cbn [yield_sels yield_sel app] in Hm. apply M_cons_inv in Hm.
    destruct Hm as (d & ts1 & E1 & Hd & _). subst tsl. cbn [app nxt hd].
    apply tm_inv in Hd. destruct Hd as (_ & _ & Hd). apply Hd. reflexivity.
Qed.

Lemma call_rest_complete : forall bl, Forall block_ok bl ->
  forall fs e ts rs f, sels_ok fs -> M (yield_blocks bl ++ yield_sels fs) ts -> rs <> [] ->
  clean (ts ++ rs) -> fol (nxt rs) -> (10 * length ts + 2 <= f)%nat ->
  exists e', call_rest f e (st (ts ++ rs)) = Some (e', st rs) /\
             strip e' = unchain (strip e) bl fs.
Proof.
  induction bl as [|[[sl args] sp] bl IH]; intros Hbl fs e ts rs f Hfs Hm Hne Hc Hfol Hf.
  - cbn [yield_blocks app] in Hm. cbn [unchain].
    destruct f as [|f]; [lia|]. rewrite call_rest_S.
    destruct Hfol as (Hid & Hst).
    assert (HMR : exists e1, member_rest f e (st (ts ++ rs)) = Some (e1, st rs) /\
                             strip e1 = apply_sels (strip e) fs).
    { apply member_rest_complete; auto.
      - destruct Hst as [H|(H1 & H2 & _)]; auto.
      - lia. }
    destruct HMR as (e1 & He1 & Hs1).
    destruct (tnl (cur (st (ts ++ rs)))) eqn:Enl.
    + destruct fs as [|[[nk n] asrt] fs'].
      * apply M_nil_inv in Hm. subst ts. exists e. split; reflexivity.
      * exfalso. cbn [yield_sels yield_sel app] in Hm. apply M_cons_inv in Hm.
        destruct Hm as (d & ts1 & E1 & Hd & _). subst ts. cbn [app] in Enl.
        rewrite cur_st_cons in Enl. apply tm_inv in Hd. destruct Hd as (_ & _ & Hd).
        rewrite Hd in Enl; [discriminate Enl|reflexivity].
    + rewrite He1, at_kind_st, cur_st.
      assert (E : kind_eqb (tk (nxt rs)) KOpenParen && negb (tnl (nxt rs)) = false).
      { destruct Hst as [H|(_ & _ & H)]; [rewrite H; apply andb_false_r|rewrite H; reflexivity]. }
      rewrite E. exists e1. split; [reflexivity|exact Hs1].
  - inversion Hbl as [|? ? Hb Hbl']; subst. destruct Hb as (Hsl & Hargs).
    cbn [yield_blocks unchain] in *.
    assert (Hshape : exists tsl lp targs tsp rp tmore,
      ts = tsl ++ lp :: targs ++ tsp ++ rp :: tmore /\
      M (yield_sels sl) tsl /\ tk lp = KOpenParen /\ tnl lp = false /\
      M (yield_list args) targs /\ tk rp = KCloseParen /\
      M (yield_blocks bl ++ yield_sels fs) tmore /\
      ((sp = true /\ exists d, tsp = [d] /\ tk d = KDotDotDot) \/ (sp = false /\ tsp = []))).
    { unfold yield_args in Hm. norm_in Hm.
      apply M_app_inv in Hm. destruct Hm as (tsl & t2 & E1 & Hmsl & Hm).
      apply M_cons_inv in Hm. destruct Hm as (lp & t3 & E2 & Hlp & Hm).
      apply M_app_inv in Hm. destruct Hm as (targs & t4 & E3 & Hmargs & Hm).
      apply tm_inv in Hlp. destruct Hlp as (Hlpk & _ & Hlpnl). specialize (Hlpnl eq_refl).
      destruct sp; norm_in Hm.
      - apply M_cons_inv in Hm. destruct Hm as (d & t5 & E4 & Hd & Hm).
        apply M_cons_inv in Hm. destruct Hm as (rp & tmore & E5 & Hrp & Hm).
        apply tm_punct in Hd. apply tm_punct in Hrp.
        exists tsl, lp, targs, [d], rp, tmore. subst. cbn [app].
        repeat split; auto. left. split; [reflexivity|]. exists d. auto.
      - apply M_cons_inv in Hm. destruct Hm as (rp & tmore & E5 & Hrp & Hm).
        apply tm_punct in Hrp.
        exists tsl, lp, targs, [], rp, tmore. subst. cbn [app].
        repeat split; auto. }
    destruct Hshape as (tsl & lp & targs & tsp & rp & tmore & Ets & Hmsl & Hlpk & Hlpnl &
                        Hmargs & Hrpk & Hmmore & Hsp).
    subst ts. norm_in Hc. norm_goal.
    rewrite !app_length in Hf. cbn [length] in Hf. rewrite !app_length in Hf. cbn [length] in Hf.
    destruct f as [|f]; [lia|]. rewrite call_rest_S.
    rewrite cur_st, (head_sels_nl _ _ _ _ Hmsl Hlpnl).
    destruct (member_rest_complete sl e tsl (lp :: targs ++ tsp ++ rp :: tmore ++ rs) f)
      as (e1 & He1 & Hs1); auto.
    { discriminate. }
    { cbn [nxt hd]. rewrite Hlpk. reflexivity. }
    { right. cbn [nxt hd]. rewrite Hlpk. split; reflexivity. }
    { lia. }
    rewrite He1, at_kind_st_cons, cur_st_cons, Hlpk, Hlpnl, keqb_refl. cbn [negb andb]. cbv zeta.
    pose proof (clean_app_r _ _ Hc) as Hc1. pose proof (clean_tail _ _ Hc1) as Hc2.
    pose proof (clean_app_r _ _ Hc2) as Hc3.
    rewrite advance_st; [|apply app_ne, app_ne; discriminate|exact Hc2].
    destruct Hsp as [(Esp & d & Etsp & Hdk)|(Esp & Etsp)]; subst sp tsp.
    + cbn [app] in *.
      destruct (dlist_complete PArgs args targs (d :: rp :: tmore ++ rs) f Hargs Hmargs)
        as (res & Hres & Hmap).
      { discriminate. } { exact Hc2. }
      { apply (term_ok_k _ _ KDotDotDot); [exact Hdk|reflexivity]. }
      { lia. }
      rewrite Hres, at_kind_st_cons, Hdk, keqb_refl.
      rewrite advance_st; [|discriminate|exact (clean_tail _ _ Hc3)].
      cbv beta iota zeta.
      pose proof (clean_tail _ _ (clean_tail _ _ Hc3)) as Hc5.
      rewrite (want_st rp (tmore ++ rs) KCloseParen Hrpk (app_ne _ _ _ Hne) Hc5).
      match goal with |- exists e', call_rest f ?E _ = _ /\ _ =>
        destruct (IH Hbl' fs E tmore rs f Hfs Hmmore Hne Hc5 Hfol) as (e' & He' & Hs'); [lia|]
      end.
      exists e'. split; [exact He'|]. rewrite Hs'. cbn [strip]. rewrite Hs1, Hmap. reflexivity.
    + cbn [app] in *.
      destruct (dlist_complete PArgs args targs (rp :: tmore ++ rs) f Hargs Hmargs)
        as (res & Hres & Hmap).
      { discriminate. } { exact Hc2. }
      { apply (term_ok_k _ _ KCloseParen); [exact Hrpk|reflexivity]. }
      { lia. }
      rewrite Hres, at_kind_st_cons, Hrpk.
      change (kind_eqb KCloseParen KDotDotDot) with false.
      cbv beta iota zeta.
      pose proof (clean_tail _ _ Hc3) as Hc5.
      rewrite (want_st rp (tmore ++ rs) KCloseParen Hrpk (app_ne _ _ _ Hne) Hc5).
      match goal with |- exists e', call_rest f ?E _ = _ /\ _ =>
        destruct (IH Hbl' fs E tmore rs f Hfs Hmmore Hne Hc5 Hfol) as (e' & He' & Hs'); [lia|]
      end.
      exists e'. split; [exact He'|]. rewrite Hs'. cbn [strip]. rewrite Hs1, Hmap. reflexivity.
Qed.

(* ---------- primaries ---------- *)

Lemma prim_first b tb : wf b -> slvl b = 14 -> M (yield b) tb ->
  exists t tb', tb = t :: tb' /\ is_prefix_op (tk t) = false /\ kind_eqb (tk t) KTypeof = false.
Proof.
  intros Hw Hl Hm.
  destruct b as [k v| |k v|op a|a|l op r|c t f|es|a|a nk n asrt|a asrt|f args sp];
    try (cbn in Hl; lia); try (destruct Hw; fail).
  - cbn in Hw. subst k. cbn [yield] in Hm. apply M_cons_inv in Hm.
    destruct Hm as (t & tb' & E & Ht & _). apply tm_inv in Ht. destruct Ht as (Hk & _).
    exists t, tb'. rewrite Hk. repeat split; auto.
  - cbn in Hw. cbn [yield] in Hm. apply M_cons_inv in Hm.
    destruct Hm as (t & tb' & E & Ht & _). apply tm_inv in Ht. destruct Ht as (Hk & _).
    exists t, tb'. rewrite Hk. split; [exact E|]. destruct k; try discriminate Hw; split; reflexivity.
  - pose proof (slvl_bin_le l op r). lia.
  - rewrite yield_arr in Hm. apply M_cons_inv in Hm.
    destruct Hm as (t & tb' & E & Ht & _). apply tm_punct in Ht.
    exists t, tb'. rewrite Ht. repeat split; auto.
  - cbn [yield] in Hm. apply M_cons_inv in Hm.
    destruct Hm as (t & tb' & E & Ht & _). apply tm_punct in Ht.
    exists t, tb'. rewrite Ht. repeat split; auto.
Qed.

Lemma prim_complete b : wf b -> slvl b = 14 ->
  (forall a, b = SParen a -> PE a) ->
  (forall es, b = SArr es -> Forall elem_ok es) ->
  forall ts rs f, M (yield b) ts -> rs <> [] -> clean (ts ++ rs) -> (10 * length ts <= f)%nat ->
  ok1 (parse_primary f (st (ts ++ rs))) b rs.
Proof.
  intros Hw Hl HParen HArr ts rs f Hm Hne Hc Hf.
  destruct b as [k v| |k v|op a|a|l op r|c t f0|es|a|a nk n asrt|a asrt|f0 args sp];
    try (cbn in Hl; lia); try (destruct Hw; fail).
  - (* identifier *)
    cbn in Hw. subst k. cbn [yield] in Hm. apply M_cons_inv in Hm.
    destruct Hm as (t & ts' & E & Ht & Hm). apply M_nil_inv in Hm. subst ts ts'.
    apply tm_inv in Ht. destruct Ht as (Hk & Hv & _).
    cbn [app length] in *. destruct f as [|f]; [lia|].
    rewrite parse_primary_S, cur_st_cons. cbv zeta. rewrite Hk.
    change (is_literal_start KIdent) with false. change (kind_eqb KIdent KOpenParen) with false.
    change (kind_eqb KIdent KOpenBracket) with false. cbv iota.
    unfold parse_identifier. rewrite cur_st_cons, Hk.
    change (is_identifier_kind KIdent) with true. cbv iota zeta.
    rewrite advance_st; [|exact Hne|exact (clean_tail _ _ Hc)].
    eexists. split; [reflexivity|]. cbn [strip]. rewrite Hv. reflexivity.
  - (* literal *)
    cbn in Hw. cbn [yield] in Hm. apply M_cons_inv in Hm.
    destruct Hm as (t & ts' & E & Ht & Hm). apply M_nil_inv in Hm. subst ts ts'.
    apply tm_inv in Ht. destruct Ht as (Hk & Hv & _).
    cbn [app length] in *. destruct f as [|f]; [lia|].
    rewrite parse_primary_S, cur_st_cons. cbv zeta. rewrite Hk, Hw.
    rewrite advance_st; [|exact Hne|exact (clean_tail _ _ Hc)].
    eexists. split; [reflexivity|]. cbn [strip]. rewrite Hv. reflexivity.
  - pose proof (slvl_bin_le l op r). lia.
  - (* array literal *)
    rewrite wf_arr in Hw. rewrite yield_arr in Hm. apply M_cons_inv in Hm.
    destruct Hm as (lb & ts1 & E & Hlb & Hm). apply M_app_inv in Hm.
    destruct Hm as (tes & t2 & E2 & Hmes & Hm). apply M_cons_inv in Hm.
    destruct Hm as (rb & t3 & E3 & Hrb & Hm). apply M_nil_inv in Hm. subst ts ts1 t2 t3.
    apply tm_punct in Hlb. apply tm_punct in Hrb.
    norm_in Hc. norm_goal. cbn [length] in Hf. rewrite app_length in Hf. cbn [length] in Hf.
    destruct f as [|f]; [lia|].
    rewrite parse_primary_S, cur_st_cons. cbv zeta. rewrite Hlb.
    change (is_literal_start KOpenBracket) with false.
    change (kind_eqb KOpenBracket KOpenParen) with false.
    change (kind_eqb KOpenBracket KOpenBracket) with true. cbv iota.
    pose proof (clean_tail _ _ Hc) as Hc1. pose proof (clean_app_r _ _ Hc1) as Hc2.
    rewrite advance_st; [|apply app_ne; discriminate|exact Hc1].
    destruct (dlist_complete PArray es tes (rb :: rs) f (HArr es eq_refl) Hmes)
      as (res & Hres & Hmap).
    { discriminate. } { exact Hc1. }
    { apply (term_ok_k _ _ KCloseBracket); [exact Hrb|reflexivity]. }
    { lia. }
    rewrite Hres.
    rewrite (want_st rb rs KCloseBracket Hrb Hne (clean_tail _ _ Hc2)).
    eexists. split; [reflexivity|]. cbn [strip]. rewrite Hmap. reflexivity.
  - (* parenthesised expression *)
    cbn [wf] in Hw. cbn [yield] in Hm. apply M_cons_inv in Hm.
    destruct Hm as (lp & ts1 & E & Hlp & Hm). apply M_app_inv in Hm.
    destruct Hm as (ta & t2 & E2 & Hma & Hm). apply M_cons_inv in Hm.
    destruct Hm as (rp & t3 & E3 & Hrp & Hm). apply M_nil_inv in Hm. subst ts ts1 t2 t3.
    apply tm_punct in Hlp. apply tm_punct in Hrp.
    norm_in Hc. norm_goal. cbn [length] in Hf. rewrite app_length in Hf. cbn [length] in Hf.
    destruct f as [|f]; [lia|].
    rewrite parse_primary_S, cur_st_cons. cbv zeta. rewrite Hlp.
    change (is_literal_start KOpenParen) with false.
    change (kind_eqb KOpenParen KOpenParen) with true. cbv iota.
    pose proof (clean_tail _ _ Hc) as Hc1. pose proof (clean_app_r _ _ Hc1) as Hc2.
    rewrite advance_st; [|apply app_ne; discriminate|exact Hc1].
    destruct (HParen a eq_refl ta (rp :: rs) f Hma) as (e & He & Hs).
    { discriminate. } { exact Hc1. }
    { apply (fol_k _ KCloseParen); [exact Hrp|reflexivity]. }
    { apply (stopA_k _ KCloseParen); [exact Hrp|reflexivity]. }
    { unfold stopE. cbn [nxt hd]. rewrite Hrp. reflexivity. }
    { lia. }
    rewrite He.
    rewrite (want_st rp rs KCloseParen Hrp Hne (clean_tail _ _ Hc2)).
    eexists. split; [reflexivity|]. cbn [strip]. rewrite Hs. reflexivity.
Qed.

(* ---------- the induction hypothesis of the main induction ---------- *)

Definition IHn (n : nat) : Prop :=
  forall y, (size y <= n)%nat -> wf y -> PU y /\ PB y /\ PA y /\ PE y.

Lemma wfl_elem_ok n args : IHn n -> wfl args -> (sizes args <= n)%nat -> Forall elem_ok args.
Proof.
  intros IH. induction args as [|a args IHa]; intros Hw Hs; [constructor|].
  cbn [wfl] in Hw. destruct Hw as (Hwa & Hla & Hw). cbn [sizes] in Hs.
  constructor.
  - unfold elem_ok. split; [exact Hwa|]. split; [exact Hla|].
    apply (IH a); [lia|exact Hwa].
  - apply IHa; [exact Hw|lia].
Qed.

(* ---------- postfix chains ---------- *)

Lemma chain_complete n x : IHn n -> (size x <= S n)%nat -> wf x -> 13 <= slvl x ->
  forall ts rs f, M (yield x) ts -> rs <> [] -> clean (ts ++ rs) -> fol (nxt rs) ->
  (10 * length ts + 1 <= f)%nat -> ok1 (parse_unary f (st (ts ++ rs))) x rs.
Proof.
  intros IH Hsz Hw Hl ts rs f Hm Hne Hc Hfol Hf.
  pose proof (pchain_spec x Hw Hl) as Hp. destruct (pchain x) as [[b bl] fs].
  destruct Hp as (Eu & Ey & Hwb & Hlb & Hsb & Hbl & Hfs).
  rewrite Ey in Hm. apply M_app_inv in Hm. destruct Hm as (tb & t2 & Ets & Hmb & Hm2). subst ts.
  norm_in Hc. norm_goal. rewrite app_length in Hf.
  destruct (prim_first b tb Hwb Hlb Hmb) as (t0 & tb' & Etb & Hnp & Hnt).
  assert (Hlen : (1 <= length tb)%nat) by (subst tb; cbn [length]; lia).
  destruct f as [|f]; [lia|]. rewrite parse_unary_S. cbv zeta.
  assert (Ecur : cur (st (tb ++ t2 ++ rs)) = t0) by (subst tb; reflexivity).
  rewrite Ecur, Hnp, Hnt.
  (* the primary *)
  destruct (prim_complete b Hwb Hlb) with (ts := tb) (rs := t2 ++ rs) (f := f) as (e & He & Hs); auto.
  { intros a Eb. subst b. apply (IH a); [cbn [size] in Hsb; lia|exact Hwb]. }
  { intros es Eb. subst b. rewrite wf_arr in Hwb. rewrite size_arr in Hsb.
    apply (wfl_elem_ok n); [exact IH|exact Hwb|lia]. }
  { apply app_ne; exact Hne. }
  { lia. }
  rewrite He.
  pose proof (clean_app_r _ _ Hc) as Hc1.
  (* blocks are fine *)
  assert (Hblok : Forall block_ok bl).
  { eapply Forall_impl; [|exact Hbl]. intros [[sl args] sp] (H1 & H2 & H3).
    split; [exact H1|]. apply (wfl_elem_ok n); [exact IH|exact H2|lia]. }
  destruct bl as [|[[sl args] sp] more].
  - (* no call: selectors only *)
    cbn [yield_blocks app] in Hm2. cbn [unchain] in Eu.
    destruct Hfol as (Hid & Hst).
    destruct (member_rest_complete fs e t2 rs f Hfs Hm2 Hne Hc1 Hid) as (e2 & He2 & Hs2).
    { destruct Hst as [H|(H1 & H2 & _)]; auto. }
    { lia. }
    rewrite He2.
    destruct (call_rest_complete [] (Forall_nil _) [] e2 [] rs f) as (e3 & He3 & Hs3).
    { constructor. } { constructor. } { exact Hne. }
    { exact (clean_app_r _ _ Hc1). } { split; assumption. } { cbn [length]. lia. }
    cbn [app] in He3. rewrite He3. exists e3. split; [reflexivity|].
    rewrite Hs3. cbn [unchain apply_sels]. rewrite Hs2, Hs. exact Eu.
  - (* selectors of the first block, then call_rest *)
    cbn [yield_blocks] in Hm2. norm_in Hm2.
    apply M_app_inv in Hm2. destruct Hm2 as (tsl & t3 & Et2 & Hmsl & Hm3). subst t2.
    norm_in Hc1. norm_goal.
    assert (Hlp : exists lp t4, t3 = lp :: t4 /\ tk lp = KOpenParen).
    { unfold yield_args in Hm3. norm_in Hm3. apply M_cons_inv in Hm3.
      destruct Hm3 as (lp & t4 & E & Hlp & _). apply tm_inv in Hlp. destruct Hlp as (Hk & _).
      exists lp, t4. auto. }
    destruct Hlp as (lp & t4 & Et3 & Hlpk).
    pose proof (Forall_inv Hblok) as Hb1. destruct Hb1 as (Hsl & Hargs).
    rewrite !app_length in Hf.
    destruct (member_rest_complete sl e tsl (t3 ++ rs) f Hsl Hmsl) as (e2 & He2 & Hs2).
    { apply app_ne; exact Hne. } { exact Hc1. }
    { subst t3. cbn [app nxt hd]. rewrite Hlpk. reflexivity. }
    { right. subst t3. cbn [app nxt hd]. rewrite Hlpk. split; reflexivity. }
    { lia. }
    rewrite He2.
    destruct (call_rest_complete (([], args, sp) :: more)) with (fs := fs) (e := e2) (ts := t3)
      (rs := rs) (f := f) as (e3 & He3 & Hs3); auto.
    { constructor; [|exact (Forall_inv_tail Hblok)]. split; [constructor|exact Hargs]. }
    { cbn [yield_blocks yield_sels]. norm_goal. exact Hm3. }
    { exact (clean_app_r _ _ Hc1). }
    { lia. }
    rewrite He3. exists e3. split; [reflexivity|].
    rewrite Hs3. cbn [unchain apply_sels]. rewrite Hs2, Hs. exact Eu.
Qed.

Lemma step_U n : IHn n -> forall x, (size x <= S n)%nat -> wf x -> PU x.
Proof.
  intros IH x Hsz Hw. unfold PU. intros ts rs f Hl Hm Hne Hc Hfol Hf.
  destruct x as [k v| |k v|op a|a|l op r|c t f0|es|a|a nk n0 asrt|a asrt|f0 args sp];
    try (apply (chain_complete n); auto; cbn [slvl]; lia).
  - (* prefix operator *)
    cbn [wf] in Hw. destruct Hw as (Hop & Hwa & Hla).
    cbn [yield] in Hm. apply M_cons_inv in Hm. destruct Hm as (t & ts' & E & Ht & Hm). subst ts.
    apply tm_punct in Ht. cbn [app length] in *.
    destruct f as [|f]; [lia|]. rewrite parse_unary_S, cur_st_cons. cbv zeta. rewrite Ht, Hop.
    rewrite advance_st; [|apply app_ne; exact Hne|exact (clean_tail _ _ Hc)].
    cbn [size] in Hsz.
    destruct (IH a) as (HU & _); [lia|exact Hwa|].
    destruct (HU ts' rs f Hla Hm Hne (clean_tail _ _ Hc) Hfol) as (e & He & Hs); [lia|].
    rewrite He. eexists. split; [reflexivity|]. cbn [strip]. rewrite Hs. reflexivity.
  - (* typeof *)
    cbn [wf] in Hw. destruct Hw as (Hwa & Hla).
    cbn [yield] in Hm. apply M_cons_inv in Hm. destruct Hm as (t & ts' & E & Ht & Hm). subst ts.
    apply tm_inv in Ht. destruct Ht as (Ht & _). cbn [app length] in *.
    destruct f as [|f]; [lia|]. rewrite parse_unary_S, cur_st_cons. cbv zeta. rewrite Ht.
    change (is_prefix_op KTypeof) with false. change (kind_eqb KTypeof KTypeof) with true. cbv iota.
    rewrite advance_st; [|apply app_ne; exact Hne|exact (clean_tail _ _ Hc)].
    cbn [size] in Hsz.
    destruct (IH a) as (HU & _); [lia|exact Hwa|].
    destruct (HU ts' rs f Hla Hm Hne (clean_tail _ _ Hc) Hfol) as (e & He & Hs); [lia|].
    rewrite He. eexists. split; [reflexivity|]. cbn [strip]. rewrite Hs. reflexivity.
  - pose proof (slvl_bin_le l op r). lia.
Qed.

(* ---------- the binary ladder ---------- *)

Lemma nxt_spine_fol s tsp rs : spine_ok s -> M (yield_sp s) tsp -> fol (nxt rs) ->
  fol (nxt (tsp ++ rs)).
Proof.
  intros Hs Hm Hfol. destruct s as [|[o r] s].
  - apply M_nil_inv in Hm. subst tsp. exact Hfol.
  - cbn [yield_sp] in Hm. apply M_cons_inv in Hm. destruct Hm as (ot & t1 & E & Hot & _).
    subst tsp. cbn [app nxt hd]. apply tm_punct in Hot. apply fol_op. rewrite Hot.
    cbn [spine_ok] in Hs. tauto.
Qed.

Lemma nxt_spine_prec s tsp rs q : M (yield_sp s) tsp ->
  (forall o r, In (o, r) s -> prec_of o <= q) -> prec_of (tk (nxt rs)) <= q ->
  prec_of (tk (nxt (tsp ++ rs))) <= q.
Proof.
  intros Hm Hle Hrs. destruct s as [|[o r] s].
  - apply M_nil_inv in Hm. subst tsp. exact Hrs.
  - cbn [yield_sp] in Hm. apply M_cons_inv in Hm. destruct Hm as (ot & t1 & E & Hot & _).
    subst tsp. cbn [app nxt hd]. apply tm_punct in Hot. rewrite Hot. apply (Hle o r). left. reflexivity.
Qed.

Lemma brest_complete : forall s, spine_ok s -> Forall (fun or : kind * sexpr => PB (snd or)) s ->
  forall p l ts rs f, (forall o r, In (o, r) s -> p < prec_of o) -> 0 <= p ->
  M (yield_sp s) ts -> rs <> [] -> clean (ts ++ rs) -> fol (nxt rs) ->
  prec_of (tk (nxt rs)) <= p -> (10 * length ts + 1 <= f)%nat ->
  exists e, parse_binary_rest f p l (st (ts ++ rs)) = Some (e, st rs) /\
            strip e = unspine (strip l) s.
Proof.
  induction s as [|[o r] s IH]; intros Hs HPB p l ts rs f Hgt Hp Hm Hne Hc Hfol Hstop Hf.
  - apply M_nil_inv in Hm. subst ts. cbn [app]. destruct f as [|f]; [lia|].
    rewrite parse_binary_rest_S. cbv zeta. rewrite cur_st.
    assert (E : (p <? prec_of (tk (nxt rs))) = false) by (apply Z.ltb_ge; exact Hstop).
    rewrite E. exists l. split; reflexivity.
  - cbn [spine_ok] in Hs. destruct Hs as (Hopos & Hwr & Hlr & Hmono & Hs').
    pose proof (Forall_inv HPB) as HPr. cbn [snd] in HPr. pose proof (Forall_inv_tail HPB) as HPB'.
    cbn [yield_sp] in Hm. apply M_cons_inv in Hm. destruct Hm as (ot & t1 & E1 & Hot & Hm).
    apply M_app_inv in Hm. destruct Hm as (tr & tsp & E2 & Hmr & Hmsp). subst ts t1.
    apply tm_punct in Hot.
    norm_in Hc. norm_goal. cbn [length] in Hf. rewrite app_length in Hf.
    destruct f as [|f]; [lia|].
    rewrite parse_binary_rest_S. cbv zeta. rewrite cur_st_cons, Hot.
    assert (E : (p <? prec_of o) = true).
    { apply Z.ltb_lt. apply (Hgt o r). left. reflexivity. }
    rewrite E.
    pose proof (clean_tail _ _ Hc) as Hc1. pose proof (clean_app_r _ _ Hc1) as Hc2.
    rewrite advance_st; [|apply app_ne, app_ne; exact Hne|exact Hc1].
    destruct (HPr (prec_of o) tr (tsp ++ rs) f) as (er & Her & Hsr); auto.
    { lia. }
    { apply app_ne; exact Hne. }
    { eapply nxt_spine_fol; eauto. }
    { eapply nxt_spine_prec; eauto. specialize (Hgt o r (or_introl eq_refl)). lia. }
    { lia. }
    rewrite Her.
    match goal with |- exists e, parse_binary_rest f p ?L _ = _ /\ _ =>
      destruct (IH Hs' HPB' p L tsp rs f) as (e & He & Hse); auto
    end.
    { intros o' r' Hin. apply (Hgt o' r'). right. exact Hin. }
    { lia. }
    exists e. split; [exact He|]. rewrite Hse. cbn [strip unspine]. rewrite Hsr. reflexivity.
Qed.

Lemma step_B n : IHn n -> (forall x, (size x <= S n)%nat -> wf x -> PU x) ->
  forall x, (size x <= S n)%nat -> wf x -> PB x.
Proof.
  intros IH HU x Hsz Hw. unfold PB. intros p ts rs f Hp Hl Hm Hne Hc Hfol Hstop Hf.
  assert (Hl2 : 2 <= slvl x) by lia.
  pose proof (bspine_spec x Hw Hl2) as Hb. destruct (bspine x) as [a s].
  destruct Hb as (Eu & Ey & Hwa & Hla & Hsa & Hs & Hin).
  rewrite Ey in Hm. apply M_app_inv in Hm. destruct Hm as (ta & tsp & Ets & Hma & Hmsp). subst ts.
  norm_in Hc. norm_goal. rewrite app_length in Hf.
  destruct f as [|f]; [lia|]. rewrite parse_binary_S.
  destruct (HU a) with (ts := ta) (rs := tsp ++ rs) (f := f) as (l & Hel & Hsl); auto.
  { lia. }
  { apply app_ne; exact Hne. }
  { eapply nxt_spine_fol; eauto. }
  { lia. }
  rewrite Hel.
  destruct (brest_complete s Hs) with (p := p) (l := l) (ts := tsp) (rs := rs) (f := f)
    as (e & He & Hse); auto.
  { apply Forall_forall. intros [o r] Hi. cbn [snd]. destruct (Hin o r Hi) as (_ & Hsr).
    destruct (IH r) as (_ & HB & _); [lia| |exact HB].
    clear - Hs Hi. induction s as [|[o1 r1] s IHs]; [destruct Hi|].
    cbn [spine_ok] in Hs. destruct Hs as (_ & Hwr & _ & _ & Hs').
    destruct Hi as [E|Hi]; [inversion E; subst; exact Hwr|apply IHs; assumption]. }
  { intros o r Hi. destruct (Hin o r Hi) as (H1 & _). lia. }
  { exact (clean_app_r _ _ Hc). }
  { lia. }
  rewrite He. exists e. split; [reflexivity|]. rewrite Hse, Hsl. exact Eu.
Qed.

(* ---------- assignment and conditional ---------- *)

Lemma assign_plain x : PB x -> 2 <= slvl x ->
  forall ts rs f, M (yield x) ts -> rs <> [] -> clean (ts ++ rs) -> fol (nxt rs) ->
  stopA (nxt rs) -> (10 * length ts + 3 <= f)%nat -> ok1 (parse_assign f (st (ts ++ rs))) x rs.
Proof.
  intros HB Hl ts rs f Hm Hne Hc Hfol (Hprec & Hnas & Hnq) Hf.
  destruct f as [|f]; [lia|]. rewrite parse_assign_S.
  destruct (HB 0 ts rs f) as (e & He & Hs); auto; try lia.
  rewrite He, cur_st, Hnas, at_kind_st, Hnq. exists e. split; [reflexivity|exact Hs].
Qed.

Lemma step_A n : IHn n -> (forall x, (size x <= S n)%nat -> wf x -> PB x) ->
  forall x, (size x <= S n)%nat -> wf x -> PA x.
Proof.
  intros IH HB x Hsz Hw. unfold PA. intros ts rs f Hl Hm Hne Hc Hfol HstA Hf.
  destruct x as [k v| |k v|op a|a|l op r|c t f0|es|a|a nk n0 asrt|a asrt|f0 args sp];
    try (apply assign_plain; auto; cbn [slvl]; lia).
  - (* SBin *)
    destruct (kind_eqb op KComma) eqn:Ecomma.
    { cbn [slvl] in Hl. rewrite Ecomma in Hl. lia. }
    destruct (kind_eqb op KEquals) eqn:Eeq.
    + (* assignment *)
      apply keqb_eq in Eeq. subst op. cbn [wf] in Hw. cbn in Hw.
      destruct Hw as (Hwl & Hwr & Hll & Hlr). cbn [size] in Hsz.
      cbn [yield] in Hm. apply M_app_inv in Hm. destruct Hm as (tl & t2 & E1 & Hml & Hm).
      apply M_cons_inv in Hm. destruct Hm as (eq & tr & E2 & Heq & Hmr). subst ts t2.
      apply tm_punct in Heq.
      norm_in Hc. norm_goal. rewrite app_length in Hf. cbn [length] in Hf.
      destruct f as [|f]; [lia|]. rewrite parse_assign_S.
      destruct (IH l) as (_ & HBl & _); [lia|exact Hwl|].
      destruct (HBl 0 tl (eq :: tr ++ rs) f) as (el & Hel & Hsl); auto; try lia.
      { discriminate. }
      { apply (fol_k _ KEquals); [exact Heq|reflexivity]. }
      { cbn [nxt hd]. rewrite Heq. cbn. lia. }
      rewrite Hel, cur_st_cons, Heq. change (is_assignment_op KEquals) with true. cbv iota zeta.
      pose proof (clean_app_r _ _ Hc) as Hc1.
      rewrite advance_st; [|apply app_ne; exact Hne|exact (clean_tail _ _ Hc1)].
      destruct (IH r) as (_ & _ & HAr & _); [lia|exact Hwr|].
      destruct (HAr tr rs f Hlr Hmr Hne (clean_tail _ _ Hc1) Hfol HstA) as (er & Her & Hsr); [lia|].
      rewrite Her. eexists. split; [reflexivity|]. cbn [strip]. rewrite Hsl, Hsr, Heq. reflexivity.
    + (* ladder operator *)
      apply assign_plain; auto.
      assert (Hpos : 0 < prec_of op).
      { cbn [wf] in Hw. rewrite Ecomma, Eeq in Hw. tauto. }
      rewrite (slvl_ladder _ _ _ Hpos). lia.
  - (* conditional *)
    cbn [wf] in Hw. destruct Hw as (Hwc & Hwt & Hwf & Hlc & Hlt & Hlf). cbn [size] in Hsz.
    cbn [yield] in Hm. apply M_app_inv in Hm. destruct Hm as (tc & t2 & E1 & Hmc & Hm).
    apply M_cons_inv in Hm. destruct Hm as (q & t3 & E2 & Hq & Hm).
    apply M_app_inv in Hm. destruct Hm as (tt & t4 & E3 & Hmt & Hm).
    apply M_cons_inv in Hm. destruct Hm as (col & tf & E4 & Hcol & Hmf). subst ts t2 t3 t4.
    apply tm_punct in Hq. apply tm_punct in Hcol.
    norm_in Hc. norm_goal.
    rewrite app_length in Hf. cbn [length] in Hf. rewrite app_length in Hf. cbn [length] in Hf.
    destruct f as [|f]; [lia|]. rewrite parse_assign_S.
    destruct (IH c) as (_ & HBc & _); [lia|exact Hwc|].
    destruct (HBc 0 tc (q :: tt ++ col :: tf ++ rs) f) as (ec & Hec & Hsc); auto; try lia.
    { discriminate. }
    { apply (fol_k _ KQuestion); [exact Hq|reflexivity]. }
    { cbn [nxt hd]. rewrite Hq. cbn. lia. }
    rewrite Hec, cur_st_cons, at_kind_st_cons, Hq.
    change (is_assignment_op KQuestion) with false. change (kind_eqb KQuestion KQuestion) with true.
    cbv iota zeta.
    pose proof (clean_app_r _ _ Hc) as Hc1. pose proof (clean_tail _ _ Hc1) as Hc2.
    pose proof (clean_app_r _ _ Hc2) as Hc3. pose proof (clean_tail _ _ Hc3) as Hc4.
    rewrite advance_st; [|apply app_ne; discriminate|exact Hc2].
    destruct (IH t) as (_ & _ & HAt & _); [lia|exact Hwt|].
    destruct (HAt tt (col :: tf ++ rs) f Hlt Hmt) as (et & Het & Hst); auto.
    { discriminate. }
    { apply (fol_k _ KColon); [exact Hcol|reflexivity]. }
    { apply (stopA_k _ KColon); [exact Hcol|reflexivity]. }
    { lia. }
    rewrite Het, at_kind_st_cons, Hcol. change (kind_eqb KColon KColon) with true.
    cbv beta iota zeta.
    rewrite advance_st; [|apply app_ne; exact Hne|exact Hc4].
    destruct (IH f0) as (_ & _ & HAf & _); [lia|exact Hwf|].
    destruct (HAf tf rs f Hlf Hmf Hne Hc4 Hfol HstA) as (ef & Hef & Hsf); [lia|].
    rewrite Hef. eexists. split; [reflexivity|]. cbn [strip]. rewrite Hsc, Hst, Hsf. reflexivity.
Qed.

(* ---------- the comma layer ---------- *)

Lemma nxt_cs s tcs rs : M (yield_cs s) tcs -> fol (nxt rs) -> stopA (nxt rs) ->
  fol (nxt (tcs ++ rs)) /\ stopA (nxt (tcs ++ rs)).
Proof.
  intros Hm Hfol HstA. destruct s as [|r s].
  - apply M_nil_inv in Hm. subst tcs. split; assumption.
  - cbn [yield_cs] in Hm. apply M_cons_inv in Hm. destruct Hm as (cm & t1 & E & Hcm & _).
    subst tcs. cbn [app nxt hd]. apply tm_punct in Hcm. split.
    + apply (fol_k _ KComma); [exact Hcm|reflexivity].
    + apply (stopA_k _ KComma); [exact Hcm|reflexivity].
Qed.

Lemma cloop_complete : forall s, Forall (fun r => wf r /\ 1 <= slvl r /\ PA r) s ->
  forall l ts rs f, M (yield_cs s) ts -> rs <> [] -> clean (ts ++ rs) -> fol (nxt rs) ->
  stopA (nxt rs) -> stopE (nxt rs) -> (10 * length ts + 1 <= f)%nat ->
  exists e, comma_loop f l (st (ts ++ rs)) = Some (e, st rs) /\ strip e = uncomma (strip l) s.
Proof.
  induction s as [|r s IH]; intros Hall l ts rs f Hm Hne Hc Hfol HstA HstE Hf.
  - apply M_nil_inv in Hm. subst ts. cbn [app]. destruct f as [|f]; [lia|].
    rewrite comma_loop_S, at_kind_st. unfold stopE in HstE. rewrite HstE.
    exists l. split; reflexivity.
  - pose proof (Forall_inv Hall) as (Hwr & Hlr & HAr). pose proof (Forall_inv_tail Hall) as Hall'.
    cbn [yield_cs] in Hm. apply M_cons_inv in Hm. destruct Hm as (cm & t1 & E1 & Hcm & Hm).
    apply M_app_inv in Hm. destruct Hm as (tr & tcs & E2 & Hmr & Hmcs). subst ts t1.
    apply tm_punct in Hcm.
    norm_in Hc. norm_goal. cbn [length] in Hf. rewrite app_length in Hf.
    destruct f as [|f]; [lia|].
    rewrite comma_loop_S, at_kind_st_cons, Hcm, keqb_refl. cbv zeta.
    pose proof (clean_tail _ _ Hc) as Hc1. pose proof (clean_app_r _ _ Hc1) as Hc2.
    rewrite advance_st; [|apply app_ne, app_ne; exact Hne|exact Hc1].
    destruct (nxt_cs s tcs rs Hmcs Hfol HstA) as (Hfol' & HstA').
    destruct (HAr tr (tcs ++ rs) f Hlr Hmr) as (er & Her & Hsr); auto.
    { apply app_ne; exact Hne. }
    { lia. }
    rewrite Her.
    match goal with |- exists e, comma_loop f ?L _ = _ /\ _ =>
      destruct (IH Hall' L tcs rs f Hmcs Hne Hc2 Hfol HstA HstE) as (e & He & Hse); [lia|]
    end.
    exists e. split; [exact He|]. rewrite Hse. cbn [strip uncomma]. rewrite Hsr. reflexivity.
Qed.

Lemma step_E n : IHn n -> (forall x, (size x <= S n)%nat -> wf x -> PA x) ->
  forall x, (size x <= S n)%nat -> wf x -> PE x.
Proof.
  intros IH HA x Hsz Hw. unfold PE. intros ts rs f Hm Hne Hc Hfol HstA HstE Hf.
  pose proof (cspine_spec x Hw) as Hsp. destruct (cspine x) as [a s].
  destruct Hsp as (Eu & Ey & Hwa & Hla & Hsa & Hs).
  rewrite Ey in Hm. apply M_app_inv in Hm. destruct Hm as (ta & tcs & Ets & Hma & Hmcs). subst ts.
  norm_in Hc. norm_goal. rewrite app_length in Hf.
  destruct f as [|f]; [lia|]. rewrite parse_expression_S.
  destruct (nxt_cs s tcs rs Hmcs Hfol HstA) as (Hfol' & HstA').
  destruct (HA a) with (ts := ta) (rs := tcs ++ rs) (f := f) as (l & Hel & Hsl); auto.
  { lia. }
  { apply app_ne; exact Hne. }
  { lia. }
  rewrite Hel.
  destruct (cloop_complete s) with (l := l) (ts := tcs) (rs := rs) (f := f) as (e & He & Hse); auto.
  { eapply Forall_impl; [|exact Hs]. intros r (H1 & H2 & H3). split; [exact H1|]. split; [exact H2|].
    destruct (IH r) as (_ & _ & HAr & _); [lia|exact H1|exact HAr]. }
  { exact (clean_app_r _ _ Hc). }
  { lia. }
  rewrite He. exists e. split; [reflexivity|]. rewrite Hse, Hsl. exact Eu.
Qed.

(* ---------- all levels, by strong induction on the size of the tree ---------- *)

Lemma all_complete : forall n, IHn n.
Proof.
  induction n as [|n IH].
  - intros y Hs. pose proof (size_pos y). lia.
  - pose proof (step_U n IH) as HU.
    pose proof (step_B n IH HU) as HB.
    pose proof (step_A n IH HB) as HA.
    pose proof (step_E n IH HA) as HE.
    intros y Hs Hw. auto.
Qed.

Theorem expression_complete x : wf x -> PE x.
Proof. intros Hw. destruct (all_complete (size x) x (le_n _) Hw) as (_ & _ & _ & HE). exact HE. Qed.

(* ---------- top level ---------- *)

Theorem parse_complete : forall (x : sexpr) (toks : list token),
  wf x -> derives x toks -> Forall (fun t => tdiags t = []) toks ->
  exists e, parse_tokens (parse_fuel (length toks)) toks = Accepted e /\ strip e = x.
Proof.
  intros x toks Hw Hd Hclean. unfold derives in Hd.
  apply M_app_inv in Hd. destruct Hd as (ts & t2 & Etoks & Hm & Hm2).
  apply M_cons_inv in Hm2. destruct Hm2 as (te & t3 & E2 & Hte & Hm3).
  apply M_nil_inv in Hm3. subst t2 t3 toks. apply tm_punct in Hte.
  destruct (first_tok_M x ts Hw Hm) as (t0 & ts' & Ets & _).
  destruct (expression_complete x Hw ts [te] (parse_fuel (length (ts ++ [te])))) as (e & He & Hs).
  - exact Hm.
  - discriminate.
  - exact Hclean.
  - apply (fol_k _ KEOF); [exact Hte|reflexivity].
  - apply (stopA_k _ KEOF); [exact Hte|reflexivity].
  - unfold stopE. cbn [nxt hd]. rewrite Hte. reflexivity.
  - unfold parse_fuel. rewrite app_length. cbn [length]. lia.
  - exists e. split; [|exact Hs].
    assert (Hd0 : tdiags t0 = []).
    { subst ts. cbn [app] in Hclean. inversion Hclean; assumption. }
    revert He. subst ts. cbn [app]. intros He.
    unfold parse_tokens. rewrite Hd0.
    change (mkSt t0 (ts' ++ [te]) (add_diags [] [])) with (st (t0 :: ts' ++ [te])).
    rewrite He. rewrite at_kind_st_cons, Hte. change (kind_eqb KEOF KEOF) with true. cbv iota.
    reflexivity.
Qed.

(* two derivations of one token stream are equal: the grammar is unambiguous *)
Corollary derivation_unique : forall x y toks,
  wf x -> wf y -> derives x toks -> derives y toks ->
  Forall (fun t => tdiags t = []) toks -> x = y.
Proof.
  intros x y toks Hwx Hwy Hdx Hdy Hc.
  destruct (parse_complete x toks Hwx Hdx Hc) as (e1 & H1 & S1).
  destruct (parse_complete y toks Hwy Hdy Hc) as (e2 & H2 & S2).
  rewrite H1 in H2. inversion H2; subst. reflexivity.
Qed.

(* for the glue with totality: some fuel suffices, and then any larger fuel gives the same answer *)
Corollary parse_complete_some_fuel : forall (x : sexpr) (toks : list token),
  wf x -> derives x toks -> Forall (fun t => tdiags t = []) toks ->
  exists fuel e, parse_tokens fuel toks = Accepted e /\ strip e = x.
Proof.
  intros x toks Hw Hd Hc. destruct (parse_complete x toks Hw Hd Hc) as (e & H & S).
  exists (parse_fuel (length toks)), e. auto.
Qed.

Print Assumptions parse_expression_mono.
Print Assumptions derivation_unique.
Print Assumptions parse_complete.
