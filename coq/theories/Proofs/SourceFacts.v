(* Source-level theorems: everything here is about [parse_source text] for an ARBITRARY byte list
   [text]; the hypotheses that the token-level theorems (ParserTotal, ParserSound,
   ParserComplete) put on the token stream are discharged by the scanner facts.

     1. scan_all_sane                 scanned tokens satisfy ParserTotal's hypotheses
     2. source_accepted_complete      an accepted tree is complete
     3. source_accepted_nested, source_rejected_nested   ranges nest and lie inside the text
     4. source_parse_complete, source_accept_iff_derivable
     5. spacing_insignificant, spacing_insignificant_reject
     6. scan_diags_within, diagnostics_within_text_from, diagnostics_within_text
     7. error_position_correct *)
From Coq Require Import List ZArith Lia Bool Arith.
From Formula Require Import Base.Utf8 Lex.Chars Lex.Scanner Lex.ScanSpec Lex.LineMap
  Syn.Ast Syn.Parser Syn.Grammar.
From Formula Require Import Proofs.Utf8Facts Proofs.ScannerFacts Proofs.LineMapFacts.
From Formula Require Proofs.ParserSound Proofs.ParserComplete.
From Formula Require Import Proofs.ParserTotal Proofs.ParserTotalSource.
Import ListNotations.
Local Open Scope Z_scope.

(* ====================================================================================== *)
(* 0. A property of every token of a scanned stream                                       *)
(* ====================================================================================== *)

(* If [P] holds of the token [scan_one] returns whenever it is started at a position [pos]
   with [pos + (bytes left) = N], then it holds of every token of the stream. *)
Lemma scan_all_go_each (N : Z) (P : token -> Prop) :
  (forall ss pos tok rest, Forall step_ok ss -> 0 <= pos -> pos + steps_len ss = N ->
     scan_one ss pos = (tok, rest) -> P tok) ->
  forall fuel ss pos toks, Forall step_ok ss -> 0 <= pos -> pos + steps_len ss = N ->
    scan_all_go fuel ss pos = Some toks -> Forall P toks.
Proof.
  intros HP. induction fuel as [|f IH]; intros ss pos toks Hok Hpos HN H; [discriminate H|].
  cbn [scan_all_go] in H.
  destruct (scan_one ss pos) as [tok rest] eqn:E.
  pose proof (HP ss pos tok rest Hok Hpos HN E) as Htok.
  pose proof (scan_one_rest_ok ss pos tok rest Hok E) as Hrok.
  destruct (scan_one_decompose ss pos tok rest Hok E)
    as (trivia & body & Hss & Hstart & Htpos & Hend & _ & _ & _ & _).
  pose proof (steps_len_nonneg trivia) as Htr.
  pose proof (steps_len_nonneg body) as Hbd.
  assert (Hcons : match scan_all_go f rest (tend tok) with Some l => Some (tok :: l) | None => None end
                  = Some toks -> Forall P toks).
  { intros H'. destruct (scan_all_go f rest (tend tok)) as [l|] eqn:R; [|discriminate H'].
    injection H' as <-. constructor; [exact Htok|].
    apply (IH rest (tend tok) l Hrok); [lia| |exact R].
    rewrite Hss, !steps_len_app in HN. lia. }
  destruct (tk tok); try (apply Hcons; exact H).
  injection H as <-. constructor; [exact Htok|constructor].
Qed.

Lemma scan_all_each (text : list Z) (P : token -> Prop) :
  (forall ss pos tok rest, Forall step_ok ss -> 0 <= pos -> pos + steps_len ss = blen text ->
     scan_one ss pos = (tok, rest) -> P tok) ->
  forall toks, scan_all text = Some toks -> Forall P toks.
Proof.
  intros HP toks H. unfold scan_all in H.
  apply (scan_all_go_each (blen text) P HP _ _ _ _ (decode_all_ok text) (Z.le_refl 0)) in H;
    [exact H|].
  rewrite steps_len_decode. reflexivity.
Qed.

(* ====================================================================================== *)
(* 1. Scanned tokens are sane and contiguous                                              *)
(* ====================================================================================== *)

Lemma ident_run_acc : forall ss pos acc v rest e,
  ident_run ss pos acc = (v, rest, e) -> exists more, v = acc ++ more.
Proof.
  induction ss as [|[r bs] t IH]; intros pos acc v rest e H.
  { cbn [ident_run] in H. injection H as <- _ _. exists []. symmetry. apply app_nil_r. }
  cbn [ident_run] in H.
  destruct (is_ident_part r).
  - apply IH in H. destruct H as (more & ->). exists (bs ++ more). symmetry. apply app_assoc.
  - injection H as <- _ _. exists []. symmetry. apply app_nil_r.
Qed.

Lemma is_identifier_kind_cases k : is_identifier_kind k = true ->
  k = KIdent \/ In k [KTrue; KFalse; KNull; KThis; KCtx; KTypeof].
Proof. destruct k; intros H; try discriminate H; cbn [In]; tauto. Qed.

Lemma scan_one_ident_value ss pos tok rest :
  Forall step_ok ss -> scan_one ss pos = (tok, rest) ->
  is_identifier_kind (tk tok) = true -> tval tok <> [].
Proof.
  intros Hok H Hk.
  assert (Hk' : tk tok = KIdent \/ is_keyword_kind tok).
  { unfold is_keyword_kind. apply is_identifier_kind_cases. exact Hk. }
  destruct (ident_shape ss pos tok rest H Hk')
    as (ss1 & p1 & nl & r & bs & t & v & e & Hskip & Hss1 & Hrun & Htok).
  apply skip_trivia_spec in Hskip. destruct Hskip as (trivia & Hss & _).
  rewrite Hss, Hss1 in Hok. apply Forall_app in Hok. destruct Hok as [_ Hok].
  pose proof (Forall_inv Hok) as Hstep. unfold step_ok in Hstep. cbn [snd] in Hstep.
  apply ident_run_acc in Hrun. destruct Hrun as (more & Hv).
  rewrite Htok. cbn [tval]. rewrite Hv.
  destruct bs as [|b bs']; [cbn [length] in Hstep; lia|discriminate].
Qed.

Lemma tiles_sane : forall toks from to, tiles toks from to ->
  Forall (fun t => tstart t <= tpos t /\ (tk t <> KEOF -> tpos t < tend t)) toks /\
  ParserTotal.contiguous toks.
Proof.
  induction toks as [|t r IH]; intros from to H; [contradiction|].
  destruct r as [|u r].
  - cbn [tiles] in H. destruct H as (K & H1 & H2 & H3 & H4).
    split; [|exact I]. constructor; [|constructor]. split; [exact H2|]. intros Hne. contradiction.
  - rewrite tiles_cons in H. destruct H as (K & H1 & H2 & H3 & H4).
    destruct (IH _ _ H4) as (F & C).
    split.
    + constructor; [|exact F]. split; [exact H2|]. intros _. exact H3.
    + change (ParserTotal.contiguous (t :: u :: r))
        with (tstart u = tend t /\ ParserTotal.contiguous (u :: r)).
      split; [|exact C]. cbn [tiles] in H4. destruct r; tauto.
Qed.

Theorem scan_all_sane : forall text toks, scan_all text = Some toks ->
  Forall ParserTotal.tok_sane toks /\ ParserTotal.contiguous toks.
Proof.
  intros text toks H.
  destruct (tiles_sane _ _ _ (tokens_tile text toks H)) as (F & C).
  split; [|exact C].
  assert (V : Forall (fun t => is_identifier_kind (tk t) = true -> tval t <> []) toks).
  { apply (scan_all_each text); [|exact H].
    intros ss pos tok rest Hok _ _ E. exact (scan_one_ident_value ss pos tok rest Hok E). }
  rewrite Forall_forall in *. intros t Hin. unfold tok_sane.
  destruct (F t Hin) as (F1 & F2). split; [exact F1|]. split; [exact F2|exact (V t Hin)].
Qed.

(* ====================================================================================== *)
(* 2. An accepted tree is complete                                                        *)
(* ====================================================================================== *)

Theorem source_accepted_complete : forall text e, parse_source text = Accepted e -> complete e.
Proof.
  intros text e H. unfold parse_source in H.
  destruct (scan_all text) as [toks|] eqn:Hs; [|discriminate H].
  destruct (scan_all_sane text toks Hs) as (F & C).
  exact (accepted_complete _ toks e F C H).
Qed.

(* ====================================================================================== *)
(* 3. Source ranges nest and lie inside the text                                          *)
(* ====================================================================================== *)

Theorem source_accepted_nested : forall text e, parse_source text = Accepted e ->
  nested e /\ epos e = 0 /\ eend e <= blen text.
Proof.
  intros text e H. unfold parse_source in H.
  destruct (scan_all text) as [toks|] eqn:Hs; [|discriminate H].
  destruct (ParserSound.accepted_nested_tiles _ toks (blen text) e (tokens_tile text toks Hs) H)
    as (N & P & pre & l & x & _ & _ & _ & Hle).
  split; [exact N|]. split; [exact P|exact Hle].
Qed.

Lemma tiles_last_end d : forall toks from to, tiles toks from to -> tend (last toks d) = to.
Proof.
  induction toks as [|t r IH]; intros from to H; [contradiction|].
  destruct r as [|u r].
  - cbn [tiles] in H. cbn [last]. tauto.
  - rewrite tiles_cons in H. destruct H as (_ & _ & _ & _ & H4).
    change (last (t :: u :: r) d) with (last (u :: r) d). exact (IH _ _ H4).
Qed.

Theorem source_rejected_nested : forall text d ds e, parse_source text = Rejected d ds e ->
  nested e /\ 0 <= epos e /\ eend e <= blen text.
Proof.
  intros text d ds e H. unfold parse_source in H.
  destruct (scan_all text) as [toks|] eqn:Hs; [|discriminate H].
  pose proof (tokens_tile text toks Hs) as Ht.
  destruct (ParserSound.tiles_facts _ _ _ Ht) as (C & S & _).
  split; [exact (ParserSound.rejected_nested _ toks d ds e C H)|].
  assert (Hr : ParserSound.result_tree (parse_tokens (parse_fuel (length toks)) toks) = Some e).
  { rewrite H. reflexivity. }
  destruct (ParserSound.within_text _ toks e C ltac:(lia) Hr) as (H0 & _ & Hle).
  split; [exact H0|].
  rewrite (tiles_last_end _ _ _ _ Ht) in Hle. exact Hle.
Qed.

(* ====================================================================================== *)
(* 4. Completeness at source level; acceptance = derivability                             *)
(* ====================================================================================== *)

Theorem source_parse_complete : forall x text toks,
  scan_all text = Some toks -> wf x -> derives x toks -> Forall (fun t => tdiags t = []) toks ->
  exists e, parse_source text = Accepted e /\ strip e = x.
Proof.
  intros x text toks Hs Hw Hd Hc. unfold parse_source. rewrite Hs.
  exact (ParserComplete.parse_complete x toks Hw Hd Hc).
Qed.

Theorem source_accept_iff_derivable : forall text toks,
  scan_all text = Some toks -> Forall (fun t => tdiags t = []) toks ->
  ((exists e, parse_source text = Accepted e) <-> (exists x, wf x /\ derives x toks)).
Proof.
  intros text toks Hs Hc. split.
  - intros (e & H). unfold parse_source in H. rewrite Hs in H.
    destruct (ParserSound.parse_sound_scanned _ text toks e Hs H) as (Hw & Hd).
    exists (strip e). split; assumption.
  - intros (x & Hw & Hd).
    destruct (source_parse_complete x text toks Hs Hw Hd Hc) as (e & H & _).
    exists e. exact H.
Qed.

(* ====================================================================================== *)
(* 5. Spacing between tokens is insignificant                                             *)
(* ====================================================================================== *)

(* same kinds and values; the line-break flag matters only on [.], [!.] and [(] *)
Definition same_tokens (a b : list token) : Prop :=
  Forall2 (fun t u => tk t = tk u /\ tval t = tval u /\
             ((tk t = KDot \/ tk t = KBangDot \/ tk t = KOpenParen) -> tnl t = tnl u)) a b.

Lemma same_tokens_sym a b : same_tokens a b -> same_tokens b a.
Proof.
  unfold same_tokens. intros H. induction H as [|t u a b HR _ IH]; constructor; [|exact IH].
  destruct HR as (K & V & L). split; [symmetry; exact K|]. split; [symmetry; exact V|].
  intros Hk. rewrite <- K in Hk. symmetry. exact (L Hk).
Qed.

(* an abstract token that demands "same line" is [.], [!.] or [(] *)
Definition flag_ok (a : atok) : Prop :=
  snd a = true -> fst (fst a) = KDot \/ fst (fst a) = KBangDot \/ fst (fst a) = KOpenParen.

Lemma flag_ok_punct k : flag_ok (punct k).
Proof. unfold flag_ok, punct. cbn [snd]. intros H. discriminate H. Qed.

Lemma flag_ok_plain k v : flag_ok (k, v, false).
Proof. unfold flag_ok. cbn [snd]. intros H. discriminate H. Qed.

Lemma flag_ok_sel (asrt : bool) : flag_ok ((if asrt then KBangDot else KDot), @nil Z, true).
Proof. unfold flag_ok. cbn [fst snd]. intros _. destruct asrt; tauto. Qed.

Lemma flag_ok_call : flag_ok (KOpenParen, @nil Z, true).
Proof. unfold flag_ok. cbn [fst snd]. tauto. Qed.

Fixpoint yield_elems (l : list sexpr) : list atok :=
  match l with
  | [] => []
  | [a] => yield a
  | a :: t => yield a ++ punct KComma :: yield_elems t
  end.

Lemma yield_elems_flags l : Forall (fun a => Forall flag_ok (yield a)) l ->
  Forall flag_ok (yield_elems l).
Proof.
  induction 1 as [|a t Ha Ht IH]; [constructor|].
  destruct t as [|b t]; [exact Ha|].
  change (yield_elems (a :: b :: t)) with (yield a ++ punct KComma :: yield_elems (b :: t)).
  apply Forall_app. split; [exact Ha|]. constructor; [apply flag_ok_punct|exact IH].
Qed.

Fixpoint yield_flags (x : sexpr) : Forall flag_ok (yield x).
Proof.
  destruct x as [k v| |k v|op a|a|l op r|c t f|es|a|a nk n asrt|a asrt|f args sp].
  - constructor; [apply flag_ok_plain|constructor].
  - constructor.
  - constructor; [apply flag_ok_plain|constructor].
  - cbn [yield]. constructor; [apply flag_ok_punct|apply yield_flags].
  - cbn [yield]. constructor; [apply flag_ok_plain|apply yield_flags].
  - cbn [yield]. apply Forall_app. split; [apply yield_flags|].
    constructor; [apply flag_ok_punct|apply yield_flags].
  - cbn [yield]. apply Forall_app. split; [apply yield_flags|].
    constructor; [apply flag_ok_punct|]. apply Forall_app. split; [apply yield_flags|].
    constructor; [apply flag_ok_punct|apply yield_flags].
  - change (yield (SArr es)) with (punct KOpenBracket :: yield_elems es ++ [punct KCloseBracket]).
    constructor; [apply flag_ok_punct|]. apply Forall_app. split.
    + apply yield_elems_flags.
      induction es as [|a t IH]; constructor; [apply yield_flags|exact IH].
    + constructor; [apply flag_ok_punct|constructor].
  - cbn [yield]. constructor; [apply flag_ok_punct|]. apply Forall_app.
    split; [apply yield_flags|]. constructor; [apply flag_ok_punct|constructor].
  - cbn [yield]. apply Forall_app. split; [apply yield_flags|].
    constructor; [apply flag_ok_sel|]. constructor; [apply flag_ok_plain|constructor].
  - cbn [yield]. apply Forall_app. split; [apply yield_flags|].
    constructor; [apply flag_ok_sel|constructor].
  - change (yield (SCall f args sp))
      with (yield f ++ (KOpenParen, [], true) ::
            yield_elems args ++ (if sp then [punct KDotDotDot] else []) ++ [punct KCloseParen]).
    apply Forall_app. split; [apply yield_flags|].
    constructor; [apply flag_ok_call|]. apply Forall_app. split.
    + apply yield_elems_flags.
      induction args as [|a t IH]; constructor; [apply yield_flags|exact IH].
    + apply Forall_app. split.
      * destruct sp; [constructor; [apply flag_ok_punct|constructor]|constructor].
      * constructor; [apply flag_ok_punct|constructor].
Qed.

Lemma matches_transfer : forall l toks1 toks2,
  Forall flag_ok l -> Forall2 tok_matches l toks1 -> same_tokens toks1 toks2 ->
  Forall2 tok_matches l toks2.
Proof.
  intros l toks1 toks2 Hf Hm. revert toks2.
  induction Hm as [|a t l ts Hat _ IH]; intros toks2 Hs.
  - inversion Hs. constructor.
  - inversion Hs as [|t' u ts' us (K & V & L) Hrest]; subst.
    pose proof (Forall_inv Hf) as Ha. pose proof (Forall_inv_tail Hf) as Hl.
    constructor; [|exact (IH Hl _ Hrest)].
    destruct a as [[k v] b]. unfold tok_matches in *. unfold flag_ok in Ha. cbn [fst snd] in Ha.
    destruct Hat as (Hk & Hv & Hb).
    split; [rewrite <- K; exact Hk|]. split; [rewrite <- V; exact Hv|].
    intros Hbt. rewrite <- (L ltac:(rewrite Hk; exact (Ha Hbt))). exact (Hb Hbt).
Qed.

Lemma derives_transfer x toks1 toks2 :
  derives x toks1 -> same_tokens toks1 toks2 -> derives x toks2.
Proof.
  unfold derives. intros Hd Hs. eapply matches_transfer; [|exact Hd|exact Hs].
  apply Forall_app. split; [apply yield_flags|].
  constructor; [apply flag_ok_punct|constructor].
Qed.

Theorem spacing_insignificant : forall text1 text2 toks1 toks2,
  scan_all text1 = Some toks1 -> scan_all text2 = Some toks2 ->
  Forall (fun t => tdiags t = []) toks1 -> Forall (fun t => tdiags t = []) toks2 ->
  same_tokens toks1 toks2 ->
  forall e1, parse_source text1 = Accepted e1 ->
  exists e2, parse_source text2 = Accepted e2 /\ strip e2 = strip e1.
Proof.
  intros text1 text2 toks1 toks2 Hs1 Hs2 _ Hc2 Hsame e1 H1.
  unfold parse_source in H1. rewrite Hs1 in H1.
  destruct (ParserSound.parse_sound_scanned _ text1 toks1 e1 Hs1 H1) as (Hw & Hd).
  apply (source_parse_complete (strip e1) text2 toks2 Hs2 Hw); [|exact Hc2].
  exact (derives_transfer _ _ _ Hd Hsame).
Qed.

Theorem spacing_insignificant_reject : forall text1 text2 toks1 toks2,
  scan_all text1 = Some toks1 -> scan_all text2 = Some toks2 ->
  Forall (fun t => tdiags t = []) toks1 -> Forall (fun t => tdiags t = []) toks2 ->
  same_tokens toks1 toks2 ->
  forall d ds e1, parse_source text1 = Rejected d ds e1 ->
  forall e2, parse_source text2 <> Accepted e2.
Proof.
  intros text1 text2 toks1 toks2 Hs1 Hs2 Hc1 Hc2 Hsame d ds e1 H1 e2 H2.
  destruct (spacing_insignificant text2 text1 toks2 toks1 Hs2 Hs1 Hc2 Hc1
              (same_tokens_sym _ _ Hsame) e2 H2) as (e & He & _).
  rewrite H1 in He. discriminate He.
Qed.

(* ====================================================================================== *)
(* 6. Every diagnostic lies inside the text                                               *)
(* ====================================================================================== *)

(* a diagnostic range inside [0, N] *)
Definition dwithin (N : Z) (d : diag) : Prop :=
  0 <= dstart d /\ 0 <= dlen d /\ dstart d + dlen d <= N.

(* a token whose positions and scanner diagnostics lie inside [0, N] *)
Definition tok_in (N : Z) (t : token) : Prop :=
  0 <= tstart t /\ tstart t <= tpos t /\ tpos t <= tend t /\ tend t <= N /\
  Forall (dwithin N) (tdiags t).

(* ---------- 6(b): the parser only creates diagnostics inside the text ---------- *)

(* state invariant: diagnostics so far and all remaining tokens lie inside [0, N] *)
Definition inv (N : Z) (s : pst) : Prop :=
  Forall (dwithin N) (diags s) /\ Forall (tok_in N) (toks_of s).

Lemma add_diag_within N ds d :
  Forall (dwithin N) ds -> dwithin N d -> Forall (dwithin N) (add_diag ds d).
Proof.
  intros F Hd. unfold add_diag. destruct ds as [|l ds']; [constructor; [exact Hd|constructor]|].
  destruct (dstart l =? dstart d); [exact F|constructor; assumption].
Qed.

Lemma add_diags_within N new : forall ds,
  Forall (dwithin N) ds -> Forall (dwithin N) new -> Forall (dwithin N) (add_diags ds new).
Proof.
  unfold add_diags. induction new as [|d new IH]; intros ds F Fn; cbn [fold_left]; [exact F|].
  apply IH; [apply add_diag_within; [exact F|exact (Forall_inv Fn)]|exact (Forall_inv_tail Fn)].
Qed.

Lemma inv_advance N s : inv N s -> inv N (advance s).
Proof.
  intros [Hd Ht]. unfold advance. destruct (rest s) as [|t r] eqn:E; [split; assumption|].
  unfold toks_of in Ht. rewrite E in Ht. pose proof (Forall_inv_tail Ht) as Ht'. split.
  - cbn [diags]. apply add_diags_within; [exact Hd|].
    destruct (Forall_inv Ht') as (_ & _ & _ & _ & Hds). exact Hds.
  - unfold toks_of. cbn [cur rest]. exact Ht'.
Qed.

Lemma inv_eac N s c : inv N s -> inv N (error_at_current s c).
Proof.
  intros [Hd Ht]. split; [|exact Ht]. unfold error_at_current. cbn [diags].
  apply add_diag_within; [exact Hd|].
  unfold toks_of in Ht. destruct (Forall_inv Ht) as (H0 & H1 & H2 & H3 & _).
  unfold dwithin, dstart, dlen. cbn [fst snd]. lia.
Qed.

Lemma inv_ea N s c : inv N s -> inv N (error_at s (node_pos s) 0 c).
Proof.
  intros [Hd Ht]. split; [|exact Ht]. unfold error_at. cbn [diags].
  apply add_diag_within; [exact Hd|].
  unfold toks_of in Ht. destruct (Forall_inv Ht) as (H0 & H1 & H2 & H3 & _).
  unfold dwithin, dstart, dlen, node_pos. cbn [fst snd]. lia.
Qed.

Lemma inv_want N s k : inv N s -> inv N (want s k).
Proof. intros H. unfold want. destruct (at_kind s k); [apply inv_advance|apply inv_eac]; exact H. Qed.

Ltac isolve :=
  first [ assumption
        | apply inv_advance; isolve
        | apply inv_eac; isolve
        | apply inv_want; isolve
        | apply inv_ea; isolve ].

Lemma inv_identifier N s c e s1 : inv N s -> parse_identifier s c = (e, s1) -> inv N s1.
Proof.
  intros Hi H. unfold parse_identifier in H. cbv zeta in H.
  destruct (is_identifier_kind (tk (cur s))); injection H as _ <-; isolve.
Qed.

Lemma inv_right_side_of_dot N s e s1 : inv N s -> parse_right_side_of_dot s = (e, s1) -> inv N s1.
Proof.
  intros Hi H. unfold parse_right_side_of_dot in H. cbv zeta in H.
  match type of H with (if ?b then _ else _) = _ => destruct b end.
  - injection H as _ <-. isolve.
  - eapply inv_identifier; [exact Hi|exact H].
Qed.

Lemma inv_member N : forall f e0 s e s1, inv N s -> member_rest f e0 s = Some (e, s1) -> inv N s1.
Proof.
  induction f as [|f IH]; intros e0 s e s1 Hi H; [discriminate H|].
  rewrite member_rest_S in H.
  destruct (tnl (cur s)); [injection H as _ <-; exact Hi|].
  destruct (at_kind s KDot || at_kind s KBangDot); [|injection H as _ <-; exact Hi].
  cbv zeta in H.
  destruct (parse_right_side_of_dot (advance s)) as [nm s2] eqn:Hr.
  apply inv_right_side_of_dot with (N := N) in Hr; [|isolve].
  eapply IH; [exact Hr|exact H].
Qed.

Definition DI (N : Z) (f : nat) : Prop :=
  (forall s e s1, inv N s -> parse_expression f s = Some (e, s1) -> inv N s1) /\
  (forall l s e s1, inv N s -> comma_loop f l s = Some (e, s1) -> inv N s1) /\
  (forall s e s1, inv N s -> parse_assign f s = Some (e, s1) -> inv N s1) /\
  (forall p s e s1, inv N s -> parse_binary f p s = Some (e, s1) -> inv N s1) /\
  (forall p l s e s1, inv N s -> parse_binary_rest f p l s = Some (e, s1) -> inv N s1) /\
  (forall s e s1, inv N s -> parse_unary f s = Some (e, s1) -> inv N s1) /\
  (forall e0 s e s1, inv N s -> call_rest f e0 s = Some (e, s1) -> inv N s1) /\
  (forall s e s1, inv N s -> parse_primary f s = Some (e, s1) -> inv N s1) /\
  (forall c tr s es s1, inv N s -> delimited_list f c tr s = Some (es, s1) -> inv N s1).

Lemma di N : forall f, DI N f.
Proof.
  induction f as [|f (IHexp & IHcom & IHasg & IHbin & IHbrs & IHun & IHcall & IHprim & IHlist)].
  { unfold DI. repeat (split; [intros; discriminate|]). intros; discriminate. }
  unfold DI.
  refine (conj _ (conj _ (conj _ (conj _ (conj _ (conj _ (conj _ (conj _ _)))))))).
  - (* parse_expression *)
    intros s e s' Hi H. rewrite parse_expression_S in H.
    step H e1 s1 H1. apply IHasg in H1; [|isolve]. apply IHcom in H; isolve.
  - (* comma_loop *)
    intros l s e s' Hi H. rewrite comma_loop_S in H.
    destruct (at_kind s KComma); [|injection H as _ <-; isolve].
    cbv zeta in H. step H r s2 H2. apply IHasg in H2; [|isolve]. apply IHcom in H; isolve.
  - (* parse_assign *)
    intros s e s' Hi H. rewrite parse_assign_S in H.
    step H e1 s1 H1. apply IHbin in H1; [|isolve].
    destruct (is_assignment_op (tk (cur s1))).
    { cbv zeta in H. step H r s3 H3. apply IHasg in H3; [|isolve].
      injection H as _ <-. isolve. }
    destruct (at_kind s1 KQuestion); [|injection H as _ <-; isolve].
    cbv zeta in H. step H wt s3 H3. apply IHasg in H3; [|isolve].
    destruct (at_kind s3 KColon); cbv beta iota zeta in H;
      step H wfl s5 H5; (apply IHasg in H5; [|isolve]); injection H as _ <-; isolve.
  - (* parse_binary *)
    intros p s e s' Hi H. rewrite parse_binary_S in H.
    step H l s1 H1. apply IHun in H1; [|isolve]. apply IHbrs in H; isolve.
  - (* parse_binary_rest *)
    intros p l s e s' Hi H. rewrite parse_binary_rest_S in H. cbv zeta in H.
    destruct (p <? prec_of (tk (cur s))).
    + step H r s2 H2. apply IHbin in H2; [|isolve]. apply IHbrs in H; isolve.
    + injection H as _ <-. isolve.
  - (* parse_unary *)
    intros s e s' Hi H. rewrite parse_unary_S in H. cbv zeta in H.
    destruct (is_prefix_op (tk (cur s))).
    { step H x s2 H2. apply IHun in H2; [|isolve]. injection H as _ <-. isolve. }
    destruct (kind_eqb (tk (cur s)) KTypeof).
    { step H x s2 H2. apply IHun in H2; [|isolve]. injection H as _ <-. isolve. }
    step H e1 s1 H1. step H e2 s2 H2.
    apply IHprim in H1; [|isolve]. apply inv_member with (N := N) in H2; [|isolve].
    apply IHcall in H; isolve.
  - (* call_rest *)
    intros e0 s e s' Hi H. rewrite call_rest_S in H.
    destruct (tnl (cur s)); [injection H as _ <-; isolve|].
    step H e1 s1 H1. apply inv_member with (N := N) in H1; [|isolve].
    destruct (at_kind s1 KOpenParen && negb (tnl (cur s1))); [|injection H as _ <-; isolve].
    cbv zeta in H. step H args s3 H3. apply IHlist in H3; [|isolve].
    destruct (at_kind s3 KDotDotDot); cbv beta iota zeta in H; apply IHcall in H; isolve.
  - (* parse_primary *)
    intros s e s' Hi H. rewrite parse_primary_S in H. cbv zeta in H.
    destruct (is_literal_start (tk (cur s))).
    { injection H as _ <-. isolve. }
    destruct (kind_eqb (tk (cur s)) KOpenParen).
    { step H x s2 H2. apply IHexp in H2; [|isolve]. injection H as _ <-. isolve. }
    destruct (kind_eqb (tk (cur s)) KOpenBracket).
    { step H es s2 H2. apply IHlist in H2; [|isolve]. injection H as _ <-. isolve. }
    injection H as H. eapply inv_identifier; [exact Hi|exact H].
  - (* delimited_list *)
    intros c tr s es s' Hi H. rewrite delimited_list_S in H.
    destruct (is_list_element c (tk (cur s))).
    { step H e1 s1 H1. apply IHasg in H1; [|isolve].
      destruct (at_kind s1 KComma).
      { step H es2 s2 H2. apply IHlist in H2; [|isolve]. injection H as _ <-. isolve. }
      destruct (is_list_terminator c (tk (cur s1))); [injection H as _ <-; isolve|].
      step H es2 s2 H2. apply IHlist in H2; [|isolve]. injection H as _ <-. isolve. }
    destruct (is_list_terminator c (tk (cur s))).
    { injection H as _ <-. destruct tr; isolve. }
    apply IHlist in H; isolve.
Qed.

(* positions of a tiling stream lie inside [from, to] *)
Lemma tiles_bounds : forall toks from to, tiles toks from to ->
  Forall (fun t => from <= tstart t /\ tstart t <= tpos t /\ tpos t <= tend t /\ tend t <= to) toks.
Proof.
  induction toks as [|t r IH]; intros from to H; [contradiction|].
  destruct r as [|u r].
  - cbn [tiles] in H. constructor; [lia|constructor].
  - rewrite tiles_cons in H. destruct H as (_ & H1 & H2 & H3 & H4).
    pose proof (IH _ _ H4) as F.
    assert (Hle : tend t <= to).
    { pose proof (Forall_inv F) as Hu. cbv beta in Hu. lia. }
    constructor; [lia|].
    eapply Forall_impl; [|exact F]. cbv beta. intros a Ha. lia.
Qed.

Definition rejected_diags_within (N : Z) (r : parse_result) : Prop :=
  match r with
  | Rejected d ds e => Forall (dwithin N) ds /\ In d ds /\ exists rest, ds = d :: rest
  | _ => True
  end.

Lemma parse_tokens_diags_within N fuel toks :
  Forall (tok_in N) toks -> rejected_diags_within N (parse_tokens fuel toks).
Proof.
  intros Ht. unfold parse_tokens. destruct toks as [|t0 r]; [exact I|]. cbv zeta.
  destruct (parse_expression fuel (mkSt t0 r (add_diags [] (tdiags t0)))) as [[e s1]|] eqn:Hp;
    [|exact I].
  assert (Hi0 : inv N (mkSt t0 r (add_diags [] (tdiags t0)))).
  { split; [|exact Ht]. cbn [diags]. apply add_diags_within; [constructor|].
    destruct (Forall_inv Ht) as (_ & _ & _ & _ & Hds). exact Hds. }
  destruct (di N fuel) as (IHexp & _).
  pose proof (IHexp _ _ _ Hi0 Hp) as Hi1.
  assert (Hi2 : inv N (advance (if at_kind s1 KEOF then s1 else error_at_current s1 C_0_expected))).
  { destruct (at_kind s1 KEOF); isolve. }
  destruct Hi2 as [Hd _].
  destruct (rev (diags (advance (if at_kind s1 KEOF then s1 else error_at_current s1 C_0_expected))))
    as [|d ds] eqn:Hr; [exact I|].
  cbn [rejected_diags_within]. split.
  - rewrite <- Hr. apply Forall_rev. exact Hd.
  - split; [left; reflexivity|exists ds; reflexivity].
Qed.

(* the statement of 6 with the scanner half (6(a)) as an explicit hypothesis *)
Theorem diagnostics_within_text_from :
  forall scanner_diags_within :
    (forall text toks, scan_all text = Some toks ->
       Forall (fun t => Forall (dwithin (blen text)) (tdiags t)) toks),
  forall text d ds e, parse_source text = Rejected d ds e ->
    Forall (fun x => 0 <= dstart x /\ 0 <= dlen x /\ dstart x + dlen x <= blen text) ds /\
    In d ds /\ (exists rest, ds = d :: rest).
Proof.
  intros scanner_diags_within text d ds e H. unfold parse_source in H.
  destruct (scan_all text) as [toks|] eqn:Hs; [|discriminate H].
  assert (Ht : Forall (tok_in (blen text)) toks).
  { pose proof (tiles_bounds _ _ _ (tokens_tile text toks Hs)) as Hb.
    pose proof (scanner_diags_within text toks Hs) as Hd.
    rewrite Forall_forall in *. intros t Hin. specialize (Hb t Hin). specialize (Hd t Hin).
    cbv beta in Hb. unfold tok_in. repeat split; try lia. exact Hd. }
  pose proof (parse_tokens_diags_within (blen text) (parse_fuel (length toks)) toks Ht) as Hr.
  rewrite H in Hr. exact Hr.
Qed.

(* ---------- 6(a): the scanner only creates diagnostics inside the text ---------- *)

(* diagnostics inside [lo, hi] *)
Definition DW (lo hi : Z) (ds : list diag) : Prop :=
  Forall (fun d => lo <= dstart d /\ 0 <= dlen d /\ dstart d + dlen d <= hi) ds.

Lemma DW_nil lo hi : DW lo hi [].
Proof. constructor. Qed.

Lemma DW_app lo hi a b : DW lo hi a -> DW lo hi b -> DW lo hi (a ++ b).
Proof. intros Ha Hb. apply Forall_app. split; assumption. Qed.

Lemma DW_one lo hi p l c : lo <= p -> 0 <= l -> p + l <= hi -> DW lo hi [(p, l, c)].
Proof.
  intros H1 H2 H3. constructor; [|constructor]. unfold dstart, dlen. cbn [fst snd]. lia.
Qed.

Lemma DW_snoc lo hi ds p l c :
  DW lo hi ds -> lo <= p -> 0 <= l -> p + l <= hi -> DW lo hi (ds ++ [(p, l, c)]).
Proof. intros Hd H1 H2 H3. apply DW_app; [exact Hd|apply DW_one; assumption]. Qed.

(* a scanning cursor inside [lo, hi]: the steps left, each 1..4 bytes, end at or before hi *)
Definition cok (lo hi : Z) (ss : list step) (p : Z) : Prop :=
  Forall step_ok ss /\ lo <= p /\ p + steps_len ss <= hi.

Lemma cok_cons lo hi r bs t p : cok lo hi ((r, bs) :: t) p ->
  cok lo hi t (p + blen bs) /\ 1 <= blen bs /\ p + blen bs <= hi.
Proof.
  intros (Hok & Hlo & Hhi). rewrite steps_len_cons in Hhi.
  pose proof (Forall_inv Hok) as Hs. apply step_ok_blen in Hs.
  pose proof (steps_len_nonneg t) as Ht.
  split; [|lia]. split; [exact (Forall_inv_tail Hok)|lia].
Qed.

Lemma cok_suffix lo hi body rest p :
  cok lo hi (body ++ rest) p -> cok lo hi rest (p + steps_len body).
Proof.
  intros (Hok & Hlo & Hhi). rewrite steps_len_app in Hhi.
  pose proof (steps_len_nonneg body) as Hb.
  apply Forall_app in Hok. destruct Hok as [_ Hok].
  split; [exact Hok|lia].
Qed.

Lemma cok_le lo hi ss p : cok lo hi ss p -> lo <= p /\ p <= hi.
Proof. intros (_ & Hlo & Hhi). pose proof (steps_len_nonneg ss). lia. Qed.

Lemma scan_frag_diags lo hi : forall ss pos allow isprev ustart acc ds sep acc' rest e ds' sep',
  scan_frag ss pos allow isprev ustart acc ds sep = (acc', rest, e, ds', sep') ->
  cok lo hi ss pos -> (isprev = true -> lo <= ustart /\ ustart + 1 <= pos) ->
  DW lo hi ds -> DW lo hi ds'.
Proof.
  induction ss as [|[r bs] t IH];
    intros pos allow isprev ustart acc ds sep acc' rest e ds' sep' H Hc Hprev Hd.
  { cbn [scan_frag] in H. injection H as _ _ _ <- _.
    destruct isprev; [|exact Hd]. destruct (Hprev eq_refl) as [H1 H2].
    destruct (cok_le _ _ _ _ Hc) as [_ H3]. apply DW_snoc; [exact Hd|lia|lia|lia]. }
  cbn [scan_frag] in H.
  destruct (cok_cons _ _ _ _ _ _ Hc) as (Hc' & Hbs & Hhi).
  destruct (cok_le _ _ _ _ Hc) as [Hlo _].
  destruct (r =? 95).
  { eapply IH; [exact H|exact Hc'| |].
    - intros _. lia.
    - destruct allow; [exact Hd|]. destruct isprev; apply DW_snoc; try exact Hd; lia. }
  destruct (is_digit r).
  { eapply IH; [exact H|exact Hc'| |exact Hd]. intros Habs. discriminate Habs. }
  injection H as _ _ _ <- _.
  destruct isprev; [|exact Hd]. destruct (Hprev eq_refl) as [H1 H2].
  apply DW_snoc; [exact Hd|lia|lia|lia].
Qed.

Lemma fragment_diags lo hi ss pos acc' rest e ds' sep' :
  fragment ss pos = (acc', rest, e, ds', sep') -> cok lo hi ss pos ->
  cok lo hi rest e /\ DW lo hi ds'.
Proof.
  intros H Hc. split.
  - apply fragment_suffix in H. destruct H as (body & Hss & He & _).
    rewrite He. apply cok_suffix. rewrite <- Hss. exact Hc.
  - unfold fragment in H. eapply scan_frag_diags; [exact H|exact Hc| |apply DW_nil].
    intros Habs. discriminate Habs.
Qed.

Lemma blen_app a b : blen (a ++ b) = blen a + blen b.
Proof. unfold blen. rewrite app_length. lia. Qed.

Lemma ident_run_len : forall ss pos acc v rest e,
  ident_run ss pos acc = (v, rest, e) -> blen v = blen acc + (e - pos).
Proof.
  induction ss as [|[r bs] t IH]; intros pos acc v rest e H.
  { cbn [ident_run] in H. injection H as <- _ <-. lia. }
  cbn [ident_run] in H. destruct (is_ident_part r).
  - apply IH in H. rewrite blen_app in H. lia.
  - injection H as <- _ <-. lia.
Qed.

Lemma scan_number_diags lo hi ss pos v rest e ds :
  scan_number ss pos = (v, rest, e, ds) -> cok lo hi ss pos -> DW lo hi ds.
Proof.
  intros H Hc. unfold scan_number in H.
  destruct (fragment ss pos) as [[[[main ss1] p1] d1] sep1] eqn:F1.
  apply (fragment_diags lo hi) in F1; [|exact Hc]. destruct F1 as (Hc1 & Hd1).
  lazymatch type of H with
  | (match ?X with pair _ _ => _ end) = _ =>
    destruct X as [[[[[hasdot dec] ss2] p2] d2] sep2] eqn:Edot
  end.
  assert (Hdot : cok lo hi ss2 p2 /\ DW lo hi d2).
  { destruct ss1 as [|[r1 bs1] t1].
    - injection Edot as _ _ <- <- <- _. split; [exact Hc1|apply DW_nil].
    - destruct (r1 =? 46).
      + destruct (fragment t1 (p1 + blen bs1)) as [[[[dec' ss2'] p2'] d2'] sep2'] eqn:F2.
        injection Edot as _ _ <- <- <- _.
        eapply fragment_diags; [exact F2|]. exact (proj1 (cok_cons _ _ _ _ _ _ Hc1)).
      + injection Edot as _ _ <- <- <- _. split; [exact Hc1|apply DW_nil]. }
  clear Edot. destruct Hdot as (Hc2 & Hd2).
  cbv zeta in H.
  lazymatch type of H with
  | (match ?X with pair _ _ => _ end) = _ =>
    destruct X as [[[[[sci raw_sci] ss3] p3] d3] sep3] eqn:Esci
  end.
  assert (Hsci : cok lo hi ss3 p3 /\ DW lo hi d3).
  { destruct ss2 as [|[r2 bs2] t2].
    - injection Esci as _ _ <- <- <- _. split; [exact Hc2|apply DW_nil].
    - destruct (is_e r2).
      + destruct (cok_cons _ _ _ _ _ _ Hc2) as (Hct2 & _ & _).
        assert (Hfin : forall t' ps fin ss3' p3' d3' sep3',
                   fragment t' ps = (fin, ss3', p3', d3', sep3') -> cok lo hi t' ps ->
                   cok lo hi ss3' p3' /\
                   DW lo hi (match fin with [] => d3' ++ [(p3', 0, C_Digit_expected)] | _ => d3' end)).
        { intros t' ps fin ss3' p3' d3' sep3' Hf Hct.
          apply (fragment_diags lo hi) in Hf; [|exact Hct]. destruct Hf as (Hc3 & Hd3).
          split; [exact Hc3|]. destruct fin; [|exact Hd3].
          destruct (cok_le _ _ _ _ Hc3) as [H1 H2]. apply DW_snoc; [exact Hd3|lia|lia|lia]. }
        destruct t2 as [|[r3 bs3] t3].
        * cbv beta iota in Esci.
          lazymatch type of Esci with (match ?X with pair _ _ => _ end) = _ =>
               destruct X as [[[[fin ss3'] p3'] d3'] sep3'] eqn:F3 end.
          pose proof (Hfin _ _ _ _ _ _ _ F3 Hct2) as Hres.
          destruct fin; injection Esci as _ _ <- <- <- _; exact Hres.
        * destruct (is_sign r3).
          -- cbv beta iota in Esci.
             lazymatch type of Esci with (match ?X with pair _ _ => _ end) = _ =>
               destruct X as [[[[fin ss3'] p3'] d3'] sep3'] eqn:F3 end.
             pose proof (Hfin _ _ _ _ _ _ _ F3 (proj1 (cok_cons _ _ _ _ _ _ Hct2))) as Hres.
             destruct fin; injection Esci as _ _ <- <- <- _; exact Hres.
          -- cbv beta iota in Esci.
             lazymatch type of Esci with (match ?X with pair _ _ => _ end) = _ =>
               destruct X as [[[[fin ss3'] p3'] d3'] sep3'] eqn:F3 end.
             pose proof (Hfin _ _ _ _ _ _ _ F3 Hct2) as Hres.
             destruct fin; injection Esci as _ _ <- <- <- _; exact Hres.
      + injection Esci as _ _ <- <- <- _. split; [exact Hc2|apply DW_nil]. }
  clear Esci. destruct Hsci as (Hc3 & Hd3).
  assert (Hall : DW lo hi (d1 ++ d2 ++ d3)).
  { apply DW_app; [exact Hd1|]. apply DW_app; assumption. }
  injection H as _ _ _ <-.
  destruct ss3 as [|[r3 bs3] t3]; [exact Hall|].
  destruct (is_ident_start r3); [|exact Hall].
  lazymatch goal with |- context [ident_run ?a ?b ?c] =>
    destruct (ident_run a b c) as [[run rest'] e'] eqn:Hrun end.
  pose proof (ident_run_len _ _ _ _ _ _ Hrun) as Hlen.
  apply ident_run_suffix in Hrun. destruct Hrun as (body & Hss & He & _).
  destruct Hc3 as (_ & Hlo3 & Hhi3). rewrite Hss, steps_len_app in Hhi3.
  pose proof (steps_len_nonneg rest') as Hr'. pose proof (steps_len_nonneg body) as Hb.
  change (blen []) with 0 in Hlen.
  apply DW_snoc; [exact Hall|lia|lia|lia].
Qed.

Lemma finish_hex_diags lo hi got v pos acc ds a d :
  finish_hex got v pos acc ds = (a, d) -> lo <= pos -> pos <= hi -> DW lo hi ds -> DW lo hi d.
Proof.
  intros H H1 H2 Hd. unfold finish_hex in H. destruct got; injection H as _ <-; [|exact Hd].
  apply DW_snoc; [exact Hd|lia|lia|lia].
Qed.

Lemma scan_str_diags lo hi : forall ss pos q st acc ds v rest e ds',
  scan_str ss pos q st acc ds = (v, rest, e, ds') -> cok lo hi ss pos ->
  DW lo hi ds -> DW lo hi ds'.
Proof.
  induction ss as [|[r bs] t IH]; intros pos q st acc ds v rest e ds' H Hc Hd.
  { cbn [scan_str] in H. destruct (cok_le _ _ _ _ Hc) as [H1 H2].
    destruct st as [| |rem got hv|n].
    - injection H as _ _ _ <-. apply DW_snoc; [exact Hd|lia|lia|lia].
    - injection H as _ _ _ <-. apply DW_app; [exact Hd|].
      apply (DW_app _ _ [_] [_]); apply DW_one; lia.
    - destruct (finish_hex got hv pos acc ds) as [a d] eqn:Ef.
      injection H as _ _ _ <-.
      apply DW_snoc; [eapply finish_hex_diags; [exact Ef|lia|lia|exact Hd]|lia|lia|lia].
    - injection H as _ _ _ <-. apply DW_snoc; [exact Hd|lia|lia|lia]. }
  cbn [scan_str] in H.
  destruct (cok_cons _ _ _ _ _ _ Hc) as (Hc' & Hbs & Hhi).
  destruct (cok_le _ _ _ _ Hc) as [Hlo Hhi0].
  assert (Hk : forall st' acc' ds'',
             scan_str t (pos + blen bs) q st' acc' ds'' = (v, rest, e, ds') ->
             DW lo hi ds'' -> DW lo hi ds').
  { intros st' acc' ds'' H' Hd''. eapply IH; [exact H'|exact Hc'|exact Hd'']. }
  lazymatch type of H with
  | (match ?X with pair _ _ => _ end) = _ => destruct X as [[st1 acc1] ds1] eqn:EX
  end.
  assert (Hd1 : DW lo hi ds1).
  { destruct st as [| |rem got hv|n]; try (injection EX as _ _ <-; exact Hd).
    destruct rem as [|rem'].
    - destruct (finish_hex got hv pos acc ds) as [a d] eqn:Ef. injection EX as _ _ <-.
      eapply finish_hex_diags; [exact Ef|lia|lia|exact Hd].
    - destruct (is_hex_digit r); [injection EX as _ _ <-; exact Hd|].
      destruct (finish_hex got hv pos acc ds) as [a d] eqn:Ef. injection EX as _ _ <-.
      eapply finish_hex_diags; [exact Ef|lia|lia|exact Hd]. }
  clear EX.
  destruct st1 as [| |rem got hv|n].
  - destruct (r =? q); [injection H as _ _ _ <-; exact Hd1|].
    destruct (r =? 92); [eapply Hk; [exact H|exact Hd1]|].
    destruct (is_line_break r); [|eapply Hk; [exact H|exact Hd1]].
    injection H as _ _ _ <-. apply DW_snoc; [exact Hd1|lia|lia|lia].
  - repeat (lazymatch type of H with (if ?c then _ else _) = _ => destruct c end);
      (eapply Hk; [exact H|exact Hd1]).
  - eapply Hk; [exact H|exact Hd1].
  - eapply Hk; [exact H|exact Hd1].
Qed.

Ltac dsimple H := injection H as <- _; apply DW_nil.
Ltac dnumber H Hnum :=
  lazymatch type of H with
  | (match ?X with pair _ _ => _ end) = _ =>
    let v := fresh "v" in let rest' := fresh "rest'" in let e := fresh "e" in
    let ds := fresh "ds" in let EN := fresh "EN" in
    destruct X as [[[v rest'] e] ds] eqn:EN; injection H as <- _; cbn [tdiags];
    exact (Hnum _ _ _ _ EN)
  end.

(* the diagnostics of one token lie between the start of the token's trivia and the end of
   the text (the "identifier after number" diagnostic extends beyond the token itself) *)
Lemma scan_one_diags ss pos tok rest :
  Forall step_ok ss -> scan_one ss pos = (tok, rest) ->
  DW pos (pos + steps_len ss) (tdiags tok).
Proof.
  intros Hok H.
  destruct (skip_trivia ss pos false) as [[ss1 p1] nl] eqn:Hskip.
  pose proof Hskip as Hspec. apply skip_trivia_spec in Hspec.
  destruct Hspec as (trivia & Hss & Hp1 & _ & _).
  set (hi := pos + steps_len ss).
  assert (Hc : cok pos hi ss1 p1).
  { rewrite Hp1. apply cok_suffix. rewrite <- Hss. split; [exact Hok|]. unfold hi. lia. }
  clearbody hi. clear Hss Hp1 Hok trivia.
  unfold scan_one in H. rewrite Hskip in H. clear Hskip.
  destruct ss1 as [|[r bs] t].
  { injection H as <- _. apply DW_nil. }
  cbv beta zeta in H.
  destruct (cok_cons _ _ _ _ _ _ Hc) as (Hct & Hbs & Hhi).
  destruct (cok_le _ _ _ _ Hc) as [Hlo _].
  assert (Hnum : forall v rest' e ds, scan_number ((r, bs) :: t) p1 = (v, rest', e, ds) ->
                   DW pos hi ds).
  { intros v rest' e ds EN. eapply scan_number_diags; [exact EN|exact Hc]. }
  (* '!' *)
  head_if H. { repeat head_if H; dsimple H. }
  (* quotes *)
  head_if H.
  { lazymatch type of H with
    | (match ?X with pair _ _ => _ end) = _ => destruct X as [[[v rest'] e] ds] eqn:ES
    end.
    injection H as <- _. cbn [tdiags].
    eapply scan_str_diags; [exact ES|exact Hct|apply DW_nil]. }
  (* '&' ... '-' *)
  do 8 (head_if H; [repeat head_if H; dsimple H|]).
  (* '.' *)
  head_if H.
  { head_if H.
    - dnumber H Hnum.
    - repeat head_if H; dsimple H. }
  (* '/' *)
  head_if H. { dsimple H. }
  (* '0' *)
  head_if H.
  { head_if H.
    - lazymatch type of H with
      | (match ?X with pair _ _ => _ end) = _ => destruct X as [[hv rest'] e] eqn:EH
      end.
      destruct hv as [|h hv']; injection H as <- _; cbn [tdiags]; [|apply DW_nil].
      apply hex_run_suffix in EH. destruct EH as (body & Hsk & He).
      pose proof (firstn_skipn 2 (@cons step (r, bs) t)) as Hfs.
      destruct Hc as (_ & _ & Hhi1). rewrite <- Hfs, Hsk, !steps_len_app in Hhi1.
      pose proof (steps_len_nonneg (firstn 2 (@cons step (r, bs) t))) as Hf.
      pose proof (steps_len_nonneg body) as Hb. pose proof (steps_len_nonneg rest') as Hr.
      apply DW_one; lia.
    - dnumber H Hnum. }
  (* digits *)
  head_if H. { dnumber H Hnum. }
  (* ':' ... '~' *)
  do 10 (head_if H; [repeat head_if H; dsimple H|]).
  (* identifiers *)
  head_if H.
  { lazymatch type of H with
    | (match ?X with pair _ _ => _ end) = _ => destruct X as [[v rest'] e] eqn:EI
    end.
    injection H as <- _. apply DW_nil. }
  injection H as <- _. cbn [tdiags]. apply DW_one; lia.
Qed.

Theorem scan_diags_within : forall text toks, scan_all text = Some toks ->
  Forall (fun t => Forall (dwithin (blen text)) (tdiags t)) toks.
Proof.
  intros text toks H. apply (scan_all_each text); [|exact H].
  intros ss pos tok rest Hok Hpos HN E.
  pose proof (scan_one_diags ss pos tok rest Hok E) as Hd. rewrite HN in Hd.
  unfold DW in Hd. eapply Forall_impl; [|exact Hd].
  intros d (H1 & H2 & H3). unfold dwithin. lia.
Qed.

Theorem diagnostics_within_text : forall text d ds e, parse_source text = Rejected d ds e ->
  Forall (fun x => 0 <= dstart x /\ 0 <= dlen x /\ dstart x + dlen x <= blen text) ds /\
  In d ds /\ (exists rest, ds = d :: rest).
Proof. exact (diagnostics_within_text_from scan_diags_within). Qed.

(* ====================================================================================== *)
(* 7. The reported (line, column) is the direct count of the first diagnostic's offset    *)
(* ====================================================================================== *)

Theorem error_position_correct : forall text d ds e, parse_source text = Rejected d ds e ->
  line_col text (dstart d) = Some (direct_count text (dstart d)).
Proof.
  intros text d ds e H.
  destruct (diagnostics_within_text text d ds e H) as (F & Hin & _).
  rewrite Forall_forall in F. destruct (F d Hin) as (H1 & H2 & H3).
  apply line_col_correct. lia.
Qed.

(* ====================================================================================== *)
(* Examples: the hypotheses are satisfiable on non-trivial inputs                         *)
(* ====================================================================================== *)

(* "a + b" is accepted *)
Definition ex_ok : list Z := [97; 32; 43; 32; 98].
Example ex_ok_accepted :
  parse_source ex_ok = Accepted (EBin (EIdent KIdent [97] 0 1) KPlus 1 3 (EIdent KIdent [98] 3 5) 0 5).
Proof. vm_compute. reflexivity. Qed.

Example ex_ok_scan : exists toks, scan_all ex_ok = Some toks /\ (length toks = 4)%nat.
Proof. eexists. split; vm_compute; reflexivity. Qed.

(* "a +" is rejected with one parser diagnostic at the end of the text *)
Definition ex_bad : list Z := [97; 32; 43].
Example ex_bad_rejected :
  parse_source ex_bad =
  Rejected (3, 0, C_Expression_expected) [(3, 0, C_Expression_expected)]
           (EBin (EIdent KIdent [97] 0 1) KPlus 1 3 (EMissing 3) 0 3).
Proof. vm_compute. reflexivity. Qed.

(* "1abc": a scanner diagnostic with a non-zero length that extends beyond its token *)
Definition ex_num : list Z := [49; 97; 98; 99].
Example ex_num_rejected :
  parse_source ex_num =
  Rejected (1, 3, C_Identifier_after_number) [(1, 3, C_Identifier_after_number)] (ELit KNumber [49] 0 1).
Proof. vm_compute. reflexivity. Qed.

(* "x\n+ 'ab": the error is on the second line, reported at (line 1, column 5), 0-based *)
Definition ex_line : list Z := [120; 10; 43; 32; 39; 97; 98].
Example ex_line_rejected : exists ds e,
  parse_source ex_line = Rejected (7, 0, C_Unexpected_end_of_text) ds e /\
  line_col ex_line 7 = Some (1, 5).
Proof. eexists. eexists. split; vm_compute; reflexivity. Qed.

(* spacing: "f(a).b+1" and "f(\n a ) .b\n+ 1" have the same tokens in the sense of
   [same_tokens] (line breaks before [a] and [+] differ, which is allowed) *)
Definition sp1 : list Z := [102; 40; 97; 41; 46; 98; 43; 49].
Definition sp2 : list Z := [102; 40; 10; 32; 97; 32; 41; 32; 46; 98; 10; 43; 32; 49].

Ltac same_tok :=
  split; [reflexivity|split; [reflexivity|]];
  first [ intros _; reflexivity
        | let H := fresh "H" in intros [H|[H|H]]; discriminate H ].

Example ex_spacing_hyps : exists toks1 toks2,
  scan_all sp1 = Some toks1 /\ scan_all sp2 = Some toks2 /\
  Forall (fun t => tdiags t = []) toks1 /\ Forall (fun t => tdiags t = []) toks2 /\
  same_tokens toks1 toks2 /\ (exists e1, parse_source sp1 = Accepted e1) /\
  (exists t u, In t toks1 /\ In u toks2 /\ tk t = tk u /\ tnl t <> tnl u).
Proof.
  eexists. eexists.
  split; [vm_compute; reflexivity|]. split; [vm_compute; reflexivity|].
  split; [repeat constructor|]. split; [repeat constructor|].
  split; [unfold same_tokens; repeat (constructor; [same_tok|]); constructor|].
  split; [eexists; vm_compute; reflexivity|].
  exists (mkTok KPlus [] 6 6 7 false []), (mkTok KPlus [] 10 11 12 true []).
  cbn [In tk tnl]. repeat split; try tauto. discriminate.
Qed.

Example ex_spacing_use : exists e2, parse_source sp2 = Accepted e2 /\
  strip e2 = SBin (SSel (SCall (SIdent KIdent [102]) [SIdent KIdent [97]] false) KIdent [98] false)
                  KPlus (SLit KNumber [49]).
Proof. eexists. split; vm_compute; reflexivity. Qed.

(* the exception in [same_tokens] is needed: "f(a)" is accepted, "f\n(a)" (a line break before
   the call's parenthesis) is rejected, and the two differ only in that flag *)
Example ex_spacing_exception :
  (exists e, parse_source [102; 40; 97; 41] = Accepted e) /\
  (exists d ds e, parse_source [102; 10; 40; 97; 41] = Rejected d ds e).
Proof. split; [eexists|eexists; eexists; eexists]; vm_compute; reflexivity. Qed.

(* rejection transfers as well: "a +" and "a\n+" *)
Example ex_spacing_reject_hyps : exists toks1 toks2,
  scan_all ex_bad = Some toks1 /\ scan_all [97; 10; 43] = Some toks2 /\
  Forall (fun t => tdiags t = []) toks1 /\ Forall (fun t => tdiags t = []) toks2 /\
  same_tokens toks1 toks2.
Proof.
  eexists. eexists.
  split; [vm_compute; reflexivity|]. split; [vm_compute; reflexivity|].
  split; [repeat constructor|]. split; [repeat constructor|].
  unfold same_tokens; repeat (constructor; [same_tok|]); constructor.
Qed.

(* derivability of a scanned stream: "a + b" *)
Example ex_derivable : exists toks x,
  scan_all ex_ok = Some toks /\ Forall (fun t => tdiags t = []) toks /\ wf x /\ derives x toks.
Proof.
  eexists. exists (SBin (SIdent KIdent [97]) KPlus (SIdent KIdent [98])).
  split; [vm_compute; reflexivity|]. split; [repeat constructor|].
  split; [cbn; repeat split; try reflexivity; lia|].
  unfold derives. cbn [yield app]. unfold punct.
  repeat (constructor; [cbn; repeat split; try reflexivity; intros H; discriminate H|]).
  constructor.
Qed.

Print Assumptions scan_all_sane.
Print Assumptions source_accepted_complete.
Print Assumptions source_accepted_nested.
Print Assumptions source_rejected_nested.
Print Assumptions source_parse_complete.
Print Assumptions source_accept_iff_derivable.
Print Assumptions spacing_insignificant.
Print Assumptions spacing_insignificant_reject.
Print Assumptions scan_diags_within.
Print Assumptions diagnostics_within_text_from.
Print Assumptions diagnostics_within_text.
Print Assumptions error_position_correct.
