(* C17: laws of the string and list builtins (startWith endWith contains find left right mid len
   lpad rpad replace trim lower upper join includes) proved of the model in Sem/Builtins.v and
   Sem/Eval.v.  Strings are byte lists (list Z).
   Not covered (the model answers Unk, i.e. "not modelled"): regexp, lower/upper/trim on strings
   with a non-ASCII byte, replace with an empty pattern. *)
From Coq Require Import String Ascii.
From Formula Require Import Sem.Eval Proofs.Utf8Facts.
Local Open Scope Z_scope.

Arguments str s%string.

(* ---------- generic list facts ---------- *)

Lemma bf_slen_app a b : slen (a ++ b) = slen a + slen b.
Proof. unfold slen. rewrite app_length. lia. Qed.

Lemma bf_slen_nonneg s : 0 <= slen s.
Proof. unfold slen. lia. Qed.

Lemma bf_slen_cons c s : slen (c :: s) = 1 + slen s.
Proof. unfold slen. cbn [length]. lia. Qed.

Lemma bf_bytes_eqb_spec : forall a b, bytes_eqb a b = true <-> a = b.
Proof.
  induction a as [|x a IH]; intros [|y b]; cbn [bytes_eqb]; split; intros H;
    try reflexivity; try discriminate H.
  - apply andb_true_iff in H as [Hxy Hab]. apply Z.eqb_eq in Hxy. apply IH in Hab.
    subst. reflexivity.
  - injection H as Hx Ha. subst. rewrite Z.eqb_refl. apply IH. reflexivity.
Qed.

(* ---------- prefix, suffix ---------- *)

Lemma is_prefix_spec : forall p s, is_prefix p s = true <-> exists r, s = p ++ r.
Proof.
  induction p as [|x p IH]; intros s; split.
  - intros _. exists s. reflexivity.
  - intros _. reflexivity.
  - destruct s as [|y s']; cbn [is_prefix]; [discriminate|].
    intros H. apply andb_true_iff in H as [Hxy Hp]. apply Z.eqb_eq in Hxy.
    apply IH in Hp as [r Hr]. exists r. subst. reflexivity.
  - intros [r Hr]. subst s. cbn [is_prefix app]. rewrite Z.eqb_refl. apply IH.
    exists r. reflexivity.
Qed.

Lemma is_prefix_app p r : is_prefix p (p ++ r) = true.
Proof. apply is_prefix_spec. exists r. reflexivity. Qed.

Lemma is_prefix_refl p : is_prefix p p = true.
Proof. apply is_prefix_spec. exists []. rewrite app_nil_r. reflexivity. Qed.

Lemma is_suffix_spec p s : is_suffix p s = true <-> exists r, s = r ++ p.
Proof.
  unfold is_suffix. rewrite is_prefix_spec. split.
  - intros [r Hr]. exists (rev r).
    rewrite <- (rev_involutive s), Hr, rev_app_distr, rev_involutive. reflexivity.
  - intros [r Hr]. exists (rev r). subst s. rewrite rev_app_distr. reflexivity.
Qed.

(* ---------- occurrences and strings.Index ---------- *)

(* t occurs in s at byte offset i *)
Definition occurs_at (s t : list Z) (i : Z) : Prop :=
  exists a b, s = a ++ t ++ b /\ slen a = i.

Definition occurs (s t : list Z) : Prop := exists a b, s = a ++ t ++ b.

Lemma occurs_iff s t : occurs s t <-> exists i, occurs_at s t i.
Proof.
  split.
  - intros [a [b H]]. exists (slen a), a, b. split; [exact H|reflexivity].
  - intros [i [a [b [H _]]]]. exists a, b. exact H.
Qed.

(* the formulation with skipn: t is a prefix of what remains after dropping i bytes *)
Lemma occurs_at_skipn s t i :
  occurs_at s t i <-> 0 <= i <= slen s /\ is_prefix t (skipn (Z.to_nat i) s) = true.
Proof.
  split.
  - intros [a [b [Hs Hi]]]. subst s i. split.
    + rewrite bf_slen_app. pose proof (bf_slen_nonneg a). pose proof (bf_slen_nonneg (t ++ b)). lia.
    + unfold slen. rewrite Nat2Z.id.
      rewrite skipn_app, skipn_all, Nat.sub_diag. cbn [skipn app]. apply is_prefix_app.
  - intros [Hi Hp]. apply is_prefix_spec in Hp as [r Hr].
    exists (firstn (Z.to_nat i) s), r. split.
    + rewrite <- Hr. symmetry. apply firstn_skipn.
    + unfold slen in *. rewrite firstn_length. lia.
Qed.

Lemma occurs_at_nat s t k :
  occurs_at s t (Z.of_nat k) <-> (k <= length s)%nat /\ is_prefix t (skipn k s) = true.
Proof.
  rewrite occurs_at_skipn, Nat2Z.id. unfold slen. split; intros [H1 H2]; (split; [lia|exact H2]).
Qed.

Lemma index_from_spec t : forall s i r, index_from t s i = r ->
  (r = -1 /\ forall k, (k <= length s)%nat -> is_prefix t (skipn k s) = false)
  \/ (exists k, (k <= length s)%nat /\ r = i + Z.of_nat k /\ is_prefix t (skipn k s) = true /\
        forall j, (j < k)%nat -> is_prefix t (skipn j s) = false).
Proof.
  induction s as [|c s IH]; intros i r Hr; cbn [index_from] in Hr.
  - destruct (is_prefix t []) eqn:Hp.
    + right. exists 0%nat. cbn [skipn length]. repeat split; [lia|lia|exact Hp|intros j Hj; lia].
    + left. split; [symmetry; exact Hr|]. intros k Hk. cbn [length] in Hk.
      assert (k = 0%nat) as -> by lia. exact Hp.
  - destruct (is_prefix t (c :: s)) eqn:Hp.
    + right. exists 0%nat. cbn [skipn]. repeat split; [lia|lia|exact Hp|intros j Hj; lia].
    + destruct (IH (i + 1) r Hr) as [[Hm Hno]|[k [Hk [Hrk [Hpk Hno]]]]].
      * left. split; [exact Hm|]. intros k Hk. destruct k as [|k]; [exact Hp|].
        cbn [skipn]. apply Hno. cbn [length] in Hk. lia.
      * right. exists (S k). cbn [skipn length]. repeat split; [lia|lia|exact Hpk|].
        intros j Hj. destruct j as [|j]; [exact Hp|]. cbn [skipn]. apply Hno. lia.
Qed.

(* strings.Index: -1 exactly when there is no occurrence, otherwise the first occurrence *)
Theorem index_spec s t i : str_index s t = i ->
  (i = -1 /\ ~ occurs s t)
  \/ (0 <= i /\ occurs_at s t i /\ forall j, occurs_at s t j -> i <= j).
Proof.
  unfold str_index. intros H. apply index_from_spec in H as [[Hm Hno]|[k [Hk [Hr [Hp Hno]]]]].
  - left. split; [exact Hm|]. intros Hocc. apply occurs_iff in Hocc as [j Hj].
    assert (Hj' := Hj). apply occurs_at_skipn in Hj' as [Hrange _].
    rewrite <- (Z2Nat.id j) in Hj by lia. apply occurs_at_nat in Hj as [Hle Hp].
    rewrite (Hno _ Hle) in Hp. discriminate Hp.
  - right. subst i. split; [lia|]. split.
    + change (0 + Z.of_nat k) with (Z.of_nat k). apply occurs_at_nat. split; [exact Hk|exact Hp].
    + intros j Hj. assert (Hj' := Hj). apply occurs_at_skipn in Hj' as [Hrange _].
      destruct (Z_lt_le_dec j (0 + Z.of_nat k)) as [Hlt|Hge]; [|exact Hge].
      rewrite <- (Z2Nat.id j) in Hj by lia. apply occurs_at_nat in Hj as [Hle Hpj].
      rewrite (Hno (Z.to_nat j)) in Hpj by lia. discriminate Hpj.
Qed.

Lemma str_index_range s t : -1 <= str_index s t <= slen s.
Proof.
  destruct (index_spec s t _ eq_refl) as [[H _]|[H0 [Hocc _]]].
  - rewrite H. pose proof (bf_slen_nonneg s). lia.
  - apply occurs_at_skipn in Hocc. lia.
Qed.

Lemma str_index_zero_iff s t : (str_index s t =? 0) = is_prefix t s.
Proof.
  unfold str_index. destruct s as [|c s]; cbn [index_from].
  - destruct (is_prefix t []); reflexivity.
  - destruct (is_prefix t (c :: s)) eqn:Hp; [reflexivity|].
    pose proof (index_from_spec t s (0 + 1) _ eq_refl) as [[Hm _]|[k [_ [Hr _]]]].
    + rewrite Hm. reflexivity.
    + rewrite Hr. apply Z.eqb_neq. lia.
Qed.

Lemma str_index_nonneg_iff s t : (0 <=? str_index s t) = true <-> occurs s t.
Proof.
  destruct (index_spec s t _ eq_refl) as [[Hm Hno]|[H0 [Hocc _]]].
  - rewrite Hm. split; [discriminate|]. intros H. contradiction.
  - split.
    + intros _. apply occurs_iff. exists (str_index s t). exact Hocc.
    + intros _. apply Z.leb_le. exact H0.
Qed.

(* ---------- the dispatch: each builtin name selects its semantics ---------- *)

Lemma ba_startWith off s t :
  builtin_apply off (str "startWith") [VStr s; VStr t] = Ok (VBool (str_index s t =? 0)).
Proof. reflexivity. Qed.
Lemma ba_endWith off s t :
  builtin_apply off (str "endWith") [VStr s; VStr t] = Ok (VBool (is_suffix t s)).
Proof. reflexivity. Qed.
Lemma ba_contains off s t :
  builtin_apply off (str "contains") [VStr s; VStr t] = Ok (VBool (0 <=? str_index s t)).
Proof. reflexivity. Qed.
Lemma ba_find off s t :
  builtin_apply off (str "find") [VStr s; VStr t] = Ok (gi (str_index s t)).
Proof. reflexivity. Qed.
Lemma ba_regexp off s t : builtin_apply off (str "regexp") [VStr s; VStr t] = Unk.
Proof. reflexivity. Qed.
Lemma ba_left off s k n :
  builtin_apply off (str "left") [VStr s; VGoInt k n] =
  obind (slice s 0 (if slen s <? n then slen s else n)) (fun r => Ok (VStr r)).
Proof. reflexivity. Qed.
Lemma ba_right off s k n :
  builtin_apply off (str "right") [VStr s; VGoInt k n] =
  obind (slice s (slen s - (if slen s <? n then slen s else n)) (slen s)) (fun r => Ok (VStr r)).
Proof. reflexivity. Qed.
Lemma ba_len off s : builtin_apply off (str "len") [VStr s] = Ok (gi (slen s)).
Proof. reflexivity. Qed.
Lemma ba_lower off s :
  builtin_apply off (str "lower") [VStr s] = Ok (VStr (if all_ascii s then to_lower_ascii s else CaseMap.lower_utf8 s)).
Proof. reflexivity. Qed.
Lemma ba_upper off s :
  builtin_apply off (str "upper") [VStr s] = Ok (VStr (if all_ascii s then to_upper_ascii s else CaseMap.upper_utf8 s)).
Proof. reflexivity. Qed.
Lemma ba_trim off s :
  builtin_apply off (str "trim") [VStr s] = Ok (VStr (if all_ascii s then trim_space s else CaseMap.trim_utf8 s)).
Proof. reflexivity. Qed.
Lemma ba_lpad off s ps k l :
  builtin_apply off (str "lpad") [VStr s; VStr ps; VGoInt k l] =
  if l <? slen s then obind (slice s 0 l) (fun r => Ok (VStr r))
  else Ok (VStr (str_repeat (Z.to_nat (l - slen s)) ps ++ s)).
Proof. reflexivity. Qed.
Lemma ba_rpad off s ps k l :
  builtin_apply off (str "rpad") [VStr s; VStr ps; VGoInt k l] =
  if l <? slen s then obind (slice s 0 l) (fun r => Ok (VStr r))
  else Ok (VStr (s ++ str_repeat (Z.to_nat (l - slen s)) ps)).
Proof. reflexivity. Qed.
Lemma ba_mid off s k1 a k2 b :
  builtin_apply off (str "mid") [VStr s; VGoInt k1 a; VGoInt k2 b] =
  obind (slice s (if a <? 0 then 0 else a) (if slen s <? b then slen s else b)) (fun r => Ok (VStr r)).
Proof. reflexivity. Qed.
Lemma ba_replace off s old new :
  builtin_apply off (str "replace") [VStr s; VStr old; VStr new] =
  match str_replace s old new with Some r => Ok (VStr r) | None => Unk end.
Proof. reflexivity. Qed.

(* ---------- startWith, endWith, contains, find ---------- *)

Theorem startWith_spec off s t : exists b,
  builtin_apply off (str "startWith") [VStr s; VStr t] = Ok (VBool b) /\
  (b = true <-> exists r, s = t ++ r).
Proof.
  exists (is_prefix t s). rewrite ba_startWith, str_index_zero_iff.
  split; [reflexivity|apply is_prefix_spec].
Qed.

Theorem endWith_spec off s t : exists b,
  builtin_apply off (str "endWith") [VStr s; VStr t] = Ok (VBool b) /\
  (b = true <-> exists r, s = r ++ t).
Proof.
  exists (is_suffix t s). rewrite ba_endWith. split; [reflexivity|apply is_suffix_spec].
Qed.

Theorem contains_spec off s t : exists b,
  builtin_apply off (str "contains") [VStr s; VStr t] = Ok (VBool b) /\
  (b = true <-> exists a r, s = a ++ t ++ r).
Proof.
  exists (0 <=? str_index s t). rewrite ba_contains. split; [reflexivity|].
  apply str_index_nonneg_iff.
Qed.

Theorem find_spec off s t : exists i,
  builtin_apply off (str "find") [VStr s; VStr t] = Ok (VGoInt GInt i) /\
  ((i = -1 /\ ~ (exists a r, s = a ++ t ++ r))
   \/ (0 <= i /\ (exists a r, s = a ++ t ++ r /\ slen a = i) /\
       forall a r, s = a ++ t ++ r -> i <= slen a)).
Proof.
  exists (str_index s t). rewrite ba_find. split; [reflexivity|].
  destruct (index_spec s t _ eq_refl) as [[Hm Hno]|[H0 [Hocc Hfirst]]].
  - left. split; [exact Hm|exact Hno].
  - right. split; [exact H0|]. split; [exact Hocc|].
    intros a r Hs. apply Hfirst. exists a, r. split; [exact Hs|reflexivity].
Qed.

(* find answers -1 exactly when contains answers false *)
Theorem find_contains off s t i b :
  builtin_apply off (str "find") [VStr s; VStr t] = Ok (VGoInt GInt i) ->
  builtin_apply off (str "contains") [VStr s; VStr t] = Ok (VBool b) ->
  (i = -1 <-> b = false) /\ (0 <= i <-> b = true).
Proof.
  rewrite ba_find, ba_contains. unfold gi. intros Hi Hb.
  injection Hi as Hi. injection Hb as Hb. subst i b.
  pose proof (str_index_range s t) as Hr.
  destruct (0 <=? str_index s t) eqn:E.
  - apply Z.leb_le in E. split; split; intros H; try reflexivity; try discriminate H; lia.
  - apply Z.leb_gt in E. split; split; intros H; try reflexivity; try discriminate H; lia.
Qed.

(* startWith implies find = 0 and contains *)
Theorem startWith_find off s t :
  builtin_apply off (str "startWith") [VStr s; VStr t] = Ok (VBool true) <->
  builtin_apply off (str "find") [VStr s; VStr t] = Ok (VGoInt GInt 0).
Proof.
  rewrite ba_startWith, ba_find. unfold gi. split; intros H; injection H as H.
  - apply Z.eqb_eq in H. rewrite H. reflexivity.
  - rewrite H. reflexivity.
Qed.

(* ---------- slices: left, right, mid ---------- *)

Lemma slice_ok s a b : 0 <= a -> a <= b -> b <= slen s ->
  slice s a b = Ok (firstn (Z.to_nat (b - a)) (skipn (Z.to_nat a) s)).
Proof.
  intros H0 H1 H2. unfold slice.
  destruct (0 <=? a) eqn:E0; [|apply Z.leb_gt in E0; lia].
  destruct (a <=? b) eqn:E1; [|apply Z.leb_gt in E1; lia].
  destruct (b <=? slen s) eqn:E2; [|apply Z.leb_gt in E2; lia].
  reflexivity.
Qed.

Lemma slice_panic s a b : a < 0 \/ b < a \/ slen s < b -> slice s a b = Panic.
Proof.
  intros H. unfold slice.
  destruct (0 <=? a) eqn:E0; [|reflexivity]. apply Z.leb_le in E0.
  destruct (a <=? b) eqn:E1; [|reflexivity]. apply Z.leb_le in E1.
  destruct (b <=? slen s) eqn:E2; [|reflexivity]. apply Z.leb_le in E2. lia.
Qed.

Lemma left_value off s k n : 0 <= n ->
  builtin_apply off (str "left") [VStr s; VGoInt k n] = Ok (VStr (firstn (Z.to_nat n) s)).
Proof.
  intros Hn. rewrite ba_left. pose proof (bf_slen_nonneg s) as Hs.
  destruct (slen s <? n) eqn:E.
  - apply Z.ltb_lt in E. rewrite slice_ok by lia. cbn [obind skipn Z.to_nat].
    rewrite Z.sub_0_r. unfold slen. rewrite Nat2Z.id.
    rewrite !firstn_all2; [reflexivity| |]; unfold slen in E; lia.
  - apply Z.ltb_ge in E. rewrite slice_ok by lia. cbn [obind skipn Z.to_nat].
    rewrite Z.sub_0_r. reflexivity.
Qed.

Lemma right_value off s k n : 0 <= n ->
  builtin_apply off (str "right") [VStr s; VGoInt k n] =
  Ok (VStr (skipn (length s - Z.to_nat n) s)).
Proof.
  intros Hn. rewrite ba_right. pose proof (bf_slen_nonneg s) as Hs.
  destruct (slen s <? n) eqn:E.
  - apply Z.ltb_lt in E. rewrite slice_ok by lia. cbn [obind].
    rewrite Z.sub_diag. cbn [Z.to_nat skipn].
    replace (length s - Z.to_nat n)%nat with 0%nat by (unfold slen in E; lia).
    cbn [skipn]. rewrite firstn_all2; [reflexivity|unfold slen; lia].
  - apply Z.ltb_ge in E. rewrite slice_ok by lia. cbn [obind].
    replace (Z.to_nat (slen s - n)) with (length s - Z.to_nat n)%nat by (unfold slen; lia).
    rewrite firstn_all2; [reflexivity|]. rewrite skipn_length. unfold slen. lia.
Qed.

Theorem left_panics_negative off s k n : n < 0 ->
  builtin_apply off (str "left") [VStr s; VGoInt k n] = Panic.
Proof.
  intros Hn. rewrite ba_left. pose proof (bf_slen_nonneg s) as Hs.
  destruct (slen s <? n) eqn:E; [apply Z.ltb_lt in E; lia|].
  rewrite slice_panic by lia. reflexivity.
Qed.

Theorem right_panics_negative off s k n : n < 0 ->
  builtin_apply off (str "right") [VStr s; VGoInt k n] = Panic.
Proof.
  intros Hn. rewrite ba_right. pose proof (bf_slen_nonneg s) as Hs.
  destruct (slen s <? n) eqn:E; [apply Z.ltb_lt in E; lia|].
  rewrite slice_panic by lia. reflexivity.
Qed.

Theorem left_right_partition off s k n : 0 <= n <= slen s ->
  exists a b,
    builtin_apply off (str "left") [VStr s; VGoInt k n] = Ok (VStr a) /\
    builtin_apply off (str "right") [VStr s; VGoInt k (slen s - n)] = Ok (VStr b) /\
    a ++ b = s /\ slen a = n /\ slen b = slen s - n.
Proof.
  intros Hn. exists (firstn (Z.to_nat n) s), (skipn (Z.to_nat n) s).
  rewrite left_value by lia. rewrite right_value by lia.
  replace (length s - Z.to_nat (slen s - n))%nat with (Z.to_nat n) by (unfold slen in *; lia).
  split; [reflexivity|]. split; [reflexivity|]. split; [apply firstn_skipn|].
  unfold slen in *. rewrite firstn_length, skipn_length. lia.
Qed.

Theorem left_clamps off s k n : slen s <= n ->
  builtin_apply off (str "left") [VStr s; VGoInt k n] = Ok (VStr s).
Proof.
  intros Hn. pose proof (bf_slen_nonneg s). rewrite left_value by lia.
  rewrite firstn_all2; [reflexivity|unfold slen in *; lia].
Qed.

Theorem right_clamps off s k n : slen s <= n ->
  builtin_apply off (str "right") [VStr s; VGoInt k n] = Ok (VStr s).
Proof.
  intros Hn. pose proof (bf_slen_nonneg s). rewrite right_value by lia.
  replace (length s - Z.to_nat n)%nat with 0%nat by (unfold slen in *; lia). reflexivity.
Qed.

Theorem left_len off s k n : 0 <= n -> exists r,
  builtin_apply off (str "left") [VStr s; VGoInt k n] = Ok (VStr r) /\
  slen r = Z.min n (slen s) /\ exists r', s = r ++ r'.
Proof.
  intros Hn. exists (firstn (Z.to_nat n) s). rewrite left_value by lia.
  split; [reflexivity|]. split.
  - unfold slen. rewrite firstn_length. lia.
  - exists (skipn (Z.to_nat n) s). symmetry. apply firstn_skipn.
Qed.

Theorem right_len off s k n : 0 <= n -> exists r,
  builtin_apply off (str "right") [VStr s; VGoInt k n] = Ok (VStr r) /\
  slen r = Z.min n (slen s) /\ exists r', s = r' ++ r.
Proof.
  intros Hn. exists (skipn (length s - Z.to_nat n) s). rewrite right_value by lia.
  split; [reflexivity|]. split.
  - unfold slen. rewrite skipn_length. lia.
  - exists (firstn (length s - Z.to_nat n) s). symmetry. apply firstn_skipn.
Qed.

Theorem startWith_left off s k n : 0 <= n -> exists r,
  builtin_apply off (str "left") [VStr s; VGoInt k n] = Ok (VStr r) /\
  builtin_apply off (str "startWith") [VStr s; VStr r] = Ok (VBool true).
Proof.
  intros Hn. exists (firstn (Z.to_nat n) s). rewrite left_value by lia.
  split; [reflexivity|]. rewrite ba_startWith, str_index_zero_iff.
  replace (is_prefix (firstn (Z.to_nat n) s) s) with true; [reflexivity|].
  symmetry. apply is_prefix_spec. exists (skipn (Z.to_nat n) s). symmetry. apply firstn_skipn.
Qed.

Theorem endWith_right off s k n : 0 <= n -> exists r,
  builtin_apply off (str "right") [VStr s; VGoInt k n] = Ok (VStr r) /\
  builtin_apply off (str "endWith") [VStr s; VStr r] = Ok (VBool true).
Proof.
  intros Hn. exists (skipn (length s - Z.to_nat n) s). rewrite right_value by lia.
  split; [reflexivity|]. rewrite ba_endWith.
  replace (is_suffix (skipn (length s - Z.to_nat n) s) s) with true; [reflexivity|].
  symmetry. apply is_suffix_spec. exists (firstn (length s - Z.to_nat n) s).
  symmetry. apply firstn_skipn.
Qed.

(* mid(s,i,j) = s[max 0 i : min (len s) j]; a Go slice panic when that range is reversed *)
Theorem mid_is_slice off s k1 i k2 j :
  let lo := Z.max 0 i in
  let hi := Z.min (slen s) j in
  builtin_apply off (str "mid") [VStr s; VGoInt k1 i; VGoInt k2 j] =
  if lo <=? hi then Ok (VStr (firstn (Z.to_nat (hi - lo)) (skipn (Z.to_nat lo) s))) else Panic.
Proof.
  intros lo hi. rewrite ba_mid. pose proof (bf_slen_nonneg s) as Hs.
  replace (if i <? 0 then 0 else i) with lo
    by (unfold lo; destruct (i <? 0) eqn:E; [apply Z.ltb_lt in E|apply Z.ltb_ge in E]; lia).
  replace (if slen s <? j then slen s else j) with hi
    by (unfold hi; destruct (slen s <? j) eqn:E; [apply Z.ltb_lt in E|apply Z.ltb_ge in E]; lia).
  destruct (lo <=? hi) eqn:E.
  - apply Z.leb_le in E. rewrite slice_ok by lia. reflexivity.
  - apply Z.leb_gt in E. rewrite slice_panic by lia. reflexivity.
Qed.

(* the slice s[lo:hi] is the middle part of a three-way split of s *)
Lemma slice_split s lo hi : 0 <= lo <= hi -> hi <= slen s ->
  exists x y, s = x ++ firstn (Z.to_nat (hi - lo)) (skipn (Z.to_nat lo) s) ++ y /\
              slen x = lo /\ slen (firstn (Z.to_nat (hi - lo)) (skipn (Z.to_nat lo) s)) = hi - lo.
Proof.
  intros H1 H2. exists (firstn (Z.to_nat lo) s), (skipn (Z.to_nat (hi - lo)) (skipn (Z.to_nat lo) s)).
  rewrite firstn_skipn, firstn_skipn. split; [reflexivity|].
  unfold slen in *. rewrite !firstn_length, skipn_length. lia.
Qed.

Theorem mid_substring off s k1 i k2 j : Z.max 0 i <= Z.min (slen s) j -> exists x r y,
  builtin_apply off (str "mid") [VStr s; VGoInt k1 i; VGoInt k2 j] = Ok (VStr r) /\
  s = x ++ r ++ y /\ slen x = Z.max 0 i /\ slen r = Z.min (slen s) j - Z.max 0 i.
Proof.
  intros H. pose proof (mid_is_slice off s k1 i k2 j) as Hm. cbv zeta in Hm.
  destruct (Z.max 0 i <=? Z.min (slen s) j) eqn:E; [|apply Z.leb_gt in E; lia].
  destruct (slice_split s (Z.max 0 i) (Z.min (slen s) j)) as [x [y [Hs [Hx Hr]]]]; [lia|lia|].
  exists x, (firstn (Z.to_nat (Z.min (slen s) j - Z.max 0 i)) (skipn (Z.to_nat (Z.max 0 i)) s)), y.
  split; [exact Hm|]. split; [exact Hs|]. split; [exact Hx|exact Hr].
Qed.

(* mid with the full range is the identity; mid(s,0,n) = left(s,n) *)
Theorem mid_left off s k1 k2 k3 n : 0 <= n ->
  builtin_apply off (str "mid") [VStr s; VGoInt k1 0; VGoInt k2 n] =
  builtin_apply off (str "left") [VStr s; VGoInt k3 n].
Proof.
  intros Hn. rewrite ba_mid, ba_left. reflexivity.
Qed.

(* ---------- lpad, rpad ---------- *)

Lemma str_repeat_length n ps : length (str_repeat n ps) = (n * length ps)%nat.
Proof.
  induction n as [|n IH]; cbn [str_repeat]; [reflexivity|]. rewrite app_length, IH. lia.
Qed.

Lemma str_repeat_one n p : str_repeat n [p] = repeat p n.
Proof. induction n as [|n IH]; cbn [str_repeat repeat app]; [reflexivity|]. rewrite IH. reflexivity. Qed.

Lemma slice_prefix s l : 0 <= l <= slen s -> slice s 0 l = Ok (firstn (Z.to_nat l) s).
Proof. intros H. rewrite slice_ok by lia. rewrite Z.sub_0_r. reflexivity. Qed.

(* the requested length is shorter than s: both pads return the first l bytes, like left *)
Theorem pad_truncates off s ps k l : 0 <= l < slen s ->
  builtin_apply off (str "lpad") [VStr s; VStr ps; VGoInt k l] = Ok (VStr (firstn (Z.to_nat l) s)) /\
  builtin_apply off (str "rpad") [VStr s; VStr ps; VGoInt k l] = Ok (VStr (firstn (Z.to_nat l) s)) /\
  builtin_apply off (str "left") [VStr s; VGoInt k l] = Ok (VStr (firstn (Z.to_nat l) s)) /\
  slen (firstn (Z.to_nat l) s) = l.
Proof.
  intros H. rewrite ba_lpad, ba_rpad, left_value by lia.
  destruct (l <? slen s) eqn:E; [|apply Z.ltb_ge in E; lia].
  rewrite slice_prefix by lia. cbn [obind]. repeat split.
  unfold slen in *. rewrite firstn_length. lia.
Qed.

Theorem pad_panics_negative off s ps k l : l < 0 ->
  builtin_apply off (str "lpad") [VStr s; VStr ps; VGoInt k l] = Panic /\
  builtin_apply off (str "rpad") [VStr s; VStr ps; VGoInt k l] = Panic.
Proof.
  intros H. rewrite ba_lpad, ba_rpad. pose proof (bf_slen_nonneg s).
  destruct (l <? slen s) eqn:E; [|apply Z.ltb_ge in E; lia].
  rewrite slice_panic by lia. split; reflexivity.
Qed.

Theorem lpad_suffix off s p k l : slen s <= l ->
  builtin_apply off (str "lpad") [VStr s; VStr [p]; VGoInt k l] =
  Ok (VStr (repeat p (Z.to_nat (l - slen s)) ++ s)).
Proof.
  intros H. rewrite ba_lpad. destruct (l <? slen s) eqn:E; [apply Z.ltb_lt in E; lia|].
  rewrite str_repeat_one. reflexivity.
Qed.

Theorem rpad_prefix off s p k l : slen s <= l ->
  builtin_apply off (str "rpad") [VStr s; VStr [p]; VGoInt k l] =
  Ok (VStr (s ++ repeat p (Z.to_nat (l - slen s)))).
Proof.
  intros H. rewrite ba_rpad. destruct (l <? slen s) eqn:E; [apply Z.ltb_lt in E; lia|].
  rewrite str_repeat_one. reflexivity.
Qed.

Theorem lpad_len off s p k l : 0 <= l -> exists r,
  builtin_apply off (str "lpad") [VStr s; VStr [p]; VGoInt k l] = Ok (VStr r) /\ slen r = l.
Proof.
  intros Hl. destruct (Z_lt_le_dec l (slen s)) as [Hlt|Hge].
  - exists (firstn (Z.to_nat l) s). destruct (pad_truncates off s [p] k l) as [H1 [_ [_ H4]]]; [lia|].
    split; [exact H1|exact H4].
  - exists (repeat p (Z.to_nat (l - slen s)) ++ s). split; [apply lpad_suffix; exact Hge|].
    rewrite bf_slen_app. unfold slen at 1. rewrite repeat_length. lia.
Qed.

Theorem rpad_len off s p k l : 0 <= l -> exists r,
  builtin_apply off (str "rpad") [VStr s; VStr [p]; VGoInt k l] = Ok (VStr r) /\ slen r = l.
Proof.
  intros Hl. destruct (Z_lt_le_dec l (slen s)) as [Hlt|Hge].
  - exists (firstn (Z.to_nat l) s). destruct (pad_truncates off s [p] k l) as [_ [H2 [_ H4]]]; [lia|].
    split; [exact H2|exact H4].
  - exists (s ++ repeat p (Z.to_nat (l - slen s))). split; [apply rpad_prefix; exact Hge|].
    rewrite bf_slen_app. unfold slen at 2. rewrite repeat_length. lia.
Qed.

(* with a pad of any byte length the result has len s + (l - len s) * len ps bytes: the
   "exactly the requested length" clause needs the one-byte pad *)
Theorem lpad_len_any_pad off s ps k l : slen s <= l -> exists r,
  builtin_apply off (str "lpad") [VStr s; VStr ps; VGoInt k l] = Ok (VStr r) /\
  slen r = slen s + (l - slen s) * slen ps /\ exists pad, r = pad ++ s.
Proof.
  intros H. rewrite ba_lpad. destruct (l <? slen s) eqn:E; [apply Z.ltb_lt in E; lia|].
  eexists. split; [reflexivity|]. split.
  - rewrite bf_slen_app. unfold slen. rewrite str_repeat_length. unfold slen in H. nia.
  - eexists. reflexivity.
Qed.

Theorem rpad_len_any_pad off s ps k l : slen s <= l -> exists r,
  builtin_apply off (str "rpad") [VStr s; VStr ps; VGoInt k l] = Ok (VStr r) /\
  slen r = slen s + (l - slen s) * slen ps /\ exists pad, r = s ++ pad.
Proof.
  intros H. rewrite ba_rpad. destruct (l <? slen s) eqn:E; [apply Z.ltb_lt in E; lia|].
  eexists. split; [reflexivity|]. split.
  - rewrite bf_slen_app. unfold slen. rewrite str_repeat_length. unfold slen in H. nia.
  - eexists. reflexivity.
Qed.

(* ---------- replace ---------- *)

(* r is s with every occurrence of old, found scanning left to right without overlap, replaced by new *)
Inductive replaced (old new : list Z) : list Z -> list Z -> Prop :=
| rep_nil : replaced old new [] []
| rep_hit s r : replaced old new s r -> replaced old new (old ++ s) (new ++ r)
| rep_skip c s r : is_prefix old (c :: s) = false -> replaced old new s r ->
    replaced old new (c :: s) (c :: r).

Lemma replaced_unfold old new s r :
  replaced old new s r <->
  (s = [] /\ r = [])
  \/ (exists s' r', s = old ++ s' /\ r = new ++ r' /\ replaced old new s' r')
  \/ (exists c s' r', s = c :: s' /\ r = c :: r' /\ (~ exists x, s = old ++ x) /\ replaced old new s' r').
Proof.
  split.
  - intros H. destruct H as [|s r H|c s r Hp H].
    + left. split; reflexivity.
    + right. left. exists s, r. repeat split. exact H.
    + right. right. exists c, s, r. repeat split; [|exact H].
      intros Hx. apply is_prefix_spec in Hx. rewrite Hx in Hp. discriminate Hp.
  - intros [[Hs Hr]|[[s' [r' [Hs [Hr H]]]]|[c [s' [r' [Hs [Hr [Hp H]]]]]]]]; subst.
    + constructor.
    + constructor. exact H.
    + constructor; [|exact H]. destruct (is_prefix old (c :: s')) eqn:E; [|reflexivity].
      apply is_prefix_spec in E. contradiction.
Qed.

Lemma replace_go_spec old new : old <> [] -> forall fuel s, (length s < fuel)%nat ->
  replaced old new s (replace_go fuel s old new).
Proof.
  intros Hold. induction fuel as [|f IH]; intros s Hlen; [lia|].
  destruct s as [|c t]; cbn [replace_go]; [constructor|].
  destruct (is_prefix old (c :: t)) eqn:Hp.
  - apply is_prefix_spec in Hp as [x Hx]. rewrite Hx.
    rewrite skipn_app, skipn_all, Nat.sub_diag. cbn [skipn app].
    constructor. apply IH.
    assert (Hl : length (c :: t) = length (old ++ x)) by (rewrite Hx; reflexivity).
    rewrite app_length in Hl. destruct old as [|o old']; [contradiction|].
    cbn [length] in *. lia.
  - constructor; [exact Hp|]. apply IH. cbn [length] in Hlen. lia.
Qed.

Lemma replaced_fun old new : old <> [] -> forall s r1, replaced old new s r1 ->
  forall r2, replaced old new s r2 -> r1 = r2.
Proof.
  intros Hold s r1 H1.
  induction H1 as [|s r Hr IH|c s r Hp Hr IH]; intros r2 H2.
  - remember [] as u eqn:Hu. destruct H2 as [|s' r' Hr'|c' s' r' Hp' Hr'].
    + reflexivity.
    + destruct old as [|o old']; [exfalso; apply Hold; congruence|discriminate Hu].
    + discriminate Hu.
  - remember (old ++ s) as u eqn:Hu. destruct H2 as [|s' r' Hr'|c' s' r' Hp' Hr'].
    + destruct old as [|o old']; [exfalso; apply Hold; congruence|discriminate Hu].
    + apply app_inv_head in Hu. subst s'. f_equal. apply IH. exact Hr'.
    + rewrite Hu, is_prefix_app in Hp'. discriminate Hp'.
  - remember (c :: s) as u eqn:Hu. destruct H2 as [|s' r' Hr'|c' s' r' Hp' Hr'].
    + discriminate Hu.
    + rewrite is_prefix_app in Hp. discriminate Hp.
    + injection Hu as Hc Hs. subst c' s'. f_equal. apply IH. exact Hr'.
Qed.

Theorem replace_spec off s old new : old <> [] -> exists r,
  builtin_apply off (str "replace") [VStr s; VStr old; VStr new] = Ok (VStr r) /\
  replaced old new s r.
Proof.
  intros Hold. rewrite ba_replace. unfold str_replace.
  destruct old as [|o old'] eqn:Eo; [contradiction|]. rewrite <- Eo in *.
  eexists. split; [reflexivity|]. apply replace_go_spec; [rewrite Eo; discriminate|lia].
Qed.

(* an empty pattern matches before every character and once at the end (characters as utf8.DecodeRune walks
   the text: an invalid byte is a character of its own) *)
Theorem replace_empty_pattern off s new :
  builtin_apply off (str "replace") [VStr s; VStr []; VStr new] =
  Ok (VStr (new ++ flat_map (fun st => snd st ++ new) (decode_all s))).
Proof. reflexivity. Qed.

(* on ASCII text: new, then every byte followed by new; the length grows by (len s + 1) * len new *)
Lemma replace_empty_ascii s new : Forall (fun b => 0 <= b < 128) s ->
  flat_map (fun st => snd st ++ new) (decode_all s) = flat_map (fun b => b :: new) s.
Proof.
  induction 1 as [|b t Hb Ht IH]; [reflexivity|].
  cbn [decode_all]. destruct (b <? 128) eqn:E; [|lia]. cbn [flat_map snd app]. rewrite IH. reflexivity.
Qed.

(* replacing the empty pattern by the empty text changes nothing, whatever the bytes *)
Lemma replace_empty_with_empty off s :
  builtin_apply off (str "replace") [VStr s; VStr []; VStr []] = Ok (VStr s).
Proof.
  rewrite replace_empty_pattern. cbn [app]. f_equal. f_equal.
  rewrite <- (Utf8Facts.decode_all_bytes s) at 2. unfold steps_bytes.
  induction (decode_all s) as [|st l IH]; [reflexivity|]. cbn [flat_map map concat]. rewrite app_nil_r, IH. reflexivity.
Qed.

Example replace_empty_examples :
  builtin_apply 0 (str "replace") [VStr (str "ab"); VStr []; VStr (str "-")] = Ok (VStr (str "-a-b-")) /\
  builtin_apply 0 (str "replace") [VStr []; VStr []; VStr (str "x")] = Ok (VStr (str "x")) /\
  builtin_apply 0 (str "replace") [VStr [195; 169; 255; 97]; VStr []; VStr [46]] = Ok (VStr [46; 195; 169; 46; 255; 46; 97; 46]).
Proof. vm_compute. repeat split. Qed.

(* any result satisfying the specification is the builtin's result *)
Lemma replace_by_spec off s old new r : old <> [] -> replaced old new s r ->
  builtin_apply off (str "replace") [VStr s; VStr old; VStr new] = Ok (VStr r).
Proof.
  intros Hold Hr. destruct (replace_spec off s old new Hold) as [r' [Hb Hr']].
  rewrite Hb. rewrite (replaced_fun old new Hold s r' Hr' r Hr). reflexivity.
Qed.

Lemma replaced_same old : forall s r, replaced old old s r -> r = s.
Proof. intros s r H. induction H as [|s r H IH|c s r Hp H IH]; subst; reflexivity. Qed.

Lemma replaced_absent old new : forall s r, ~ occurs s old -> replaced old new s r -> r = s.
Proof.
  intros s r Hno H. induction H as [|s r H IH|c s r Hp H IH].
  - reflexivity.
  - exfalso. apply Hno. exists [], s. reflexivity.
  - f_equal. apply IH. intros [a [b Hab]]. apply Hno. exists (c :: a), b. rewrite Hab. reflexivity.
Qed.

Lemma replaced_length old new : length new = length old ->
  forall s r, replaced old new s r -> length r = length s.
Proof.
  intros Hl s r H. induction H as [|s r H IH|c s r Hp H IH].
  - reflexivity.
  - rewrite !app_length, IH, Hl. reflexivity.
  - cbn [length]. rewrite IH. reflexivity.
Qed.

Lemma replaced_first old new b rb : replaced old new b rb ->
  forall a, (forall j, (j < length a)%nat -> is_prefix old (skipn j (a ++ old ++ b)) = false) ->
  replaced old new (a ++ old ++ b) (a ++ new ++ rb).
Proof.
  intros Hb. induction a as [|c a IH]; intros Hno.
  - cbn [app]. constructor. exact Hb.
  - cbn [app]. constructor.
    + apply (Hno 0%nat). cbn [length]. lia.
    + apply IH. intros j Hj. apply (Hno (S j)). cbn [length]. lia.
Qed.

Theorem replace_same off s old : old <> [] ->
  builtin_apply off (str "replace") [VStr s; VStr old; VStr old] = Ok (VStr s).
Proof.
  intros Hold. destruct (replace_spec off s old old Hold) as [r [Hb Hr]].
  rewrite Hb, (replaced_same old s r Hr). reflexivity.
Qed.

Theorem replace_absent off s old new : old <> [] -> ~ (exists a b, s = a ++ old ++ b) ->
  builtin_apply off (str "replace") [VStr s; VStr old; VStr new] = Ok (VStr s).
Proof.
  intros Hold Hno. destruct (replace_spec off s old new Hold) as [r [Hb Hr]].
  rewrite Hb, (replaced_absent old new s r Hno Hr). reflexivity.
Qed.

(* the first occurrence is replaced and the scan resumes after it *)
Theorem replace_first off a old b new rb : old <> [] ->
  str_index (a ++ old ++ b) old = slen a ->
  builtin_apply off (str "replace") [VStr b; VStr old; VStr new] = Ok (VStr rb) ->
  builtin_apply off (str "replace") [VStr (a ++ old ++ b); VStr old; VStr new] =
  Ok (VStr (a ++ new ++ rb)).
Proof.
  intros Hold Hidx Hb. apply replace_by_spec; [exact Hold|].
  destruct (replace_spec off b old new Hold) as [rb' [Hb' Hrb]].
  rewrite Hb in Hb'. injection Hb' as Hb'. subst rb'.
  apply replaced_first; [exact Hrb|].
  unfold str_index in Hidx. apply index_from_spec in Hidx as [[Hm _]|[k [_ [Hk [_ Hno]]]]].
  - pose proof (bf_slen_nonneg a). lia.
  - intros j Hj. apply Hno. unfold slen in Hk. lia.
Qed.

Theorem replace_same_length off s old new : old <> [] -> length new = length old -> exists r,
  builtin_apply off (str "replace") [VStr s; VStr old; VStr new] = Ok (VStr r) /\ slen r = slen s.
Proof.
  intros Hold Hl. destruct (replace_spec off s old new Hold) as [r [Hb Hr]].
  exists r. split; [exact Hb|]. unfold slen. rewrite (replaced_length old new Hl s r Hr). reflexivity.
Qed.

(* ---------- trim ---------- *)

Definition all_space (a : list Z) : Prop := Forall (fun c => is_space_ascii c = true) a.

Lemma trim_left_spec : forall s, exists a,
  s = a ++ trim_left s /\ all_space a /\ (forall c r, trim_left s = c :: r -> is_space_ascii c = false).
Proof.
  induction s as [|b t IH].
  - exists []. cbn [trim_left app]. repeat split; [constructor|intros c r H; discriminate H].
  - cbn [trim_left]. destruct (is_space_ascii b) eqn:Hb.
    + destruct IH as [a [Hs [Ha Hh]]]. exists (b :: a). cbn [app]. rewrite <- Hs.
      repeat split; [constructor; [exact Hb|exact Ha]|exact Hh].
    + exists []. cbn [app]. repeat split; [constructor|].
      intros c r H. injection H as Hc _. subst c. exact Hb.
Qed.

Lemma trim_left_fixed s : (forall c r, s = c :: r -> is_space_ascii c = false) -> trim_left s = s.
Proof.
  intros H. destruct s as [|b t]; [reflexivity|]. cbn [trim_left].
  rewrite (H b t eq_refl). reflexivity.
Qed.

Lemma trim_space_spec s : exists a b,
  s = a ++ trim_space s ++ b /\ all_space a /\ all_space b /\
  (forall c r, trim_space s = c :: r -> is_space_ascii c = false) /\
  (forall r c, trim_space s = r ++ [c] -> is_space_ascii c = false).
Proof.
  unfold trim_space.
  destruct (trim_left_spec s) as [a [Hs [Ha Hh]]].
  destruct (trim_left_spec (rev (trim_left s))) as [b' [Hu [Hb Hl]]].
  set (u := trim_left s) in *. set (w := trim_left (rev u)) in *.
  assert (Hu' : u = rev w ++ rev b').
  { rewrite <- (rev_involutive u), Hu, rev_app_distr. reflexivity. }
  exists a, (rev b'). split; [rewrite <- Hu'; exact Hs|]. split; [exact Ha|].
  split; [apply Forall_rev; exact Hb|]. split.
  - intros c r Hr. apply (Hh c (r ++ rev b')). rewrite Hu', Hr. reflexivity.
  - intros r c Hr. apply (Hl c (rev r)).
    rewrite <- (rev_involutive w), Hr, rev_app_distr. reflexivity.
Qed.

Theorem trim_spec off s : all_ascii s = true -> exists r a b,
  builtin_apply off (str "trim") [VStr s] = Ok (VStr r) /\
  s = a ++ r ++ b /\
  Forall (fun c => is_space_ascii c = true) a /\ Forall (fun c => is_space_ascii c = true) b /\
  (forall c r', r = c :: r' -> is_space_ascii c = false) /\
  (forall r' c, r = r' ++ [c] -> is_space_ascii c = false).
Proof.
  intros Hasc. rewrite ba_trim, Hasc.
  destruct (trim_space_spec s) as [a [b [Hs [Ha [Hb [Hh Hl]]]]]].
  exists (trim_space s), a, b. split; [reflexivity|]. split; [exact Hs|].
  split; [exact Ha|]. split; [exact Hb|]. split; [exact Hh|exact Hl].
Qed.

Lemma all_ascii_app a b : all_ascii (a ++ b) = all_ascii a && all_ascii b.
Proof. unfold all_ascii. apply forallb_app. Qed.

Lemma trim_space_ascii s : all_ascii s = true -> all_ascii (trim_space s) = true.
Proof.
  intros H. destruct (trim_space_spec s) as [a [b [Hs _]]]. rewrite Hs in H.
  rewrite !all_ascii_app in H. apply andb_true_iff in H as [_ H].
  apply andb_true_iff in H as [H _]. exact H.
Qed.

Lemma trim_space_idem s : trim_space (trim_space s) = trim_space s.
Proof.
  destruct (trim_space_spec s) as [_ [_ [_ [_ [_ [Hh Hl]]]]]].
  set (r := trim_space s) in *. unfold trim_space at 1.
  rewrite (trim_left_fixed r Hh).
  rewrite (trim_left_fixed (rev r)); [apply rev_involutive|].
  intros c x Hx. apply (Hl (rev x) c).
  rewrite <- (rev_involutive r), Hx. reflexivity.
Qed.

Theorem trim_idempotent off s r : all_ascii s = true ->
  builtin_apply off (str "trim") [VStr s] = Ok (VStr r) ->
  builtin_apply off (str "trim") [VStr r] = Ok (VStr r).
Proof.
  intros Hasc. rewrite !ba_trim, Hasc. intros H. injection H as H. subst r.
  rewrite trim_space_ascii by exact Hasc. rewrite trim_space_idem. reflexivity.
Qed.

Theorem trim_non_ascii off s : all_ascii s = false ->
  builtin_apply off (str "trim") [VStr s] = Ok (VStr (CaseMap.trim_utf8 s)) /\
  builtin_apply off (str "lower") [VStr s] = Ok (VStr (CaseMap.lower_utf8 s)) /\
  builtin_apply off (str "upper") [VStr s] = Ok (VStr (CaseMap.upper_utf8 s)).
Proof. intros H. rewrite ba_trim, ba_lower, ba_upper, H. repeat split. Qed.

(* ---------- lower, upper ---------- *)

Definition lower_byte (b : Z) : Z := if (65 <=? b) && (b <=? 90) then b + 32 else b.
Definition upper_byte (b : Z) : Z := if (97 <=? b) && (b <=? 122) then b - 32 else b.

Lemma to_lower_ascii_map s : to_lower_ascii s = map lower_byte s.
Proof. reflexivity. Qed.
Lemma to_upper_ascii_map s : to_upper_ascii s = map upper_byte s.
Proof. reflexivity. Qed.

Lemma lower_byte_cases b :
  (65 <= b <= 90 /\ lower_byte b = b + 32) \/ (~ 65 <= b <= 90 /\ lower_byte b = b).
Proof.
  unfold lower_byte. destruct (65 <=? b) eqn:E1; destruct (b <=? 90) eqn:E2; cbn [andb];
    try apply Z.leb_le in E1; try apply Z.leb_gt in E1;
    try apply Z.leb_le in E2; try apply Z.leb_gt in E2; [left|right|right|right]; lia.
Qed.

Lemma upper_byte_cases b :
  (97 <= b <= 122 /\ upper_byte b = b - 32) \/ (~ 97 <= b <= 122 /\ upper_byte b = b).
Proof.
  unfold upper_byte. destruct (97 <=? b) eqn:E1; destruct (b <=? 122) eqn:E2; cbn [andb];
    try apply Z.leb_le in E1; try apply Z.leb_gt in E1;
    try apply Z.leb_le in E2; try apply Z.leb_gt in E2; [left|right|right|right]; lia.
Qed.

Lemma lower_byte_idem b : lower_byte (lower_byte b) = lower_byte b.
Proof.
  destruct (lower_byte_cases b) as [[H1 H2]|[H1 H2]]; rewrite H2;
  destruct (lower_byte_cases (b + 32)) as [[H3 H4]|[H3 H4]];
  destruct (lower_byte_cases b) as [[H5 H6]|[H5 H6]]; lia.
Qed.

Lemma upper_byte_idem b : upper_byte (upper_byte b) = upper_byte b.
Proof.
  destruct (upper_byte_cases b) as [[H1 H2]|[H1 H2]]; rewrite H2;
  destruct (upper_byte_cases (b - 32)) as [[H3 H4]|[H3 H4]];
  destruct (upper_byte_cases b) as [[H5 H6]|[H5 H6]]; lia.
Qed.

Lemma lower_upper_byte b : lower_byte (upper_byte b) = lower_byte b.
Proof.
  destruct (upper_byte_cases b) as [[H1 H2]|[H1 H2]]; rewrite H2; [|reflexivity].
  destruct (lower_byte_cases (b - 32)) as [[H3 H4]|[H3 H4]];
  destruct (lower_byte_cases b) as [[H5 H6]|[H5 H6]]; lia.
Qed.

Lemma upper_lower_byte b : upper_byte (lower_byte b) = upper_byte b.
Proof.
  destruct (lower_byte_cases b) as [[H1 H2]|[H1 H2]]; rewrite H2; [|reflexivity].
  destruct (upper_byte_cases (b + 32)) as [[H3 H4]|[H3 H4]];
  destruct (upper_byte_cases b) as [[H5 H6]|[H5 H6]]; lia.
Qed.

Lemma all_ascii_map f s : (forall b, b < 128 -> f b < 128) ->
  all_ascii s = true -> all_ascii (map f s) = true.
Proof.
  intros Hf. unfold all_ascii. induction s as [|b t IH]; cbn [map forallb]; [reflexivity|].
  intros H. apply andb_true_iff in H as [Hb Ht]. apply Z.ltb_lt in Hb.
  apply andb_true_iff. split; [apply Z.ltb_lt, Hf, Hb|apply IH, Ht].
Qed.

Lemma lower_ascii s : all_ascii s = true -> all_ascii (to_lower_ascii s) = true.
Proof.
  apply all_ascii_map. intros b Hb. change (lower_byte b < 128).
  destruct (lower_byte_cases b) as [[H1 H2]|[H1 H2]]; lia.
Qed.

Lemma upper_ascii s : all_ascii s = true -> all_ascii (to_upper_ascii s) = true.
Proof.
  apply all_ascii_map. intros b Hb. change (upper_byte b < 128).
  destruct (upper_byte_cases b) as [[H1 H2]|[H1 H2]]; lia.
Qed.

(* lower maps exactly the bytes 'A'..'Z' (65..90) to 'a'..'z' and leaves every other byte alone *)
Theorem lower_spec off s : all_ascii s = true -> exists r,
  builtin_apply off (str "lower") [VStr s] = Ok (VStr r) /\
  Forall2 (fun x y => (65 <= x <= 90 /\ y = x + 32) \/ (~ 65 <= x <= 90 /\ y = x)) s r.
Proof.
  intros Hasc. rewrite ba_lower, Hasc. eexists. split; [reflexivity|].
  rewrite to_lower_ascii_map. clear Hasc. induction s as [|b t IH]; cbn [map]; constructor.
  - destruct (lower_byte_cases b) as [H|H]; [left|right]; exact H.
  - exact IH.
Qed.

Theorem upper_spec off s : all_ascii s = true -> exists r,
  builtin_apply off (str "upper") [VStr s] = Ok (VStr r) /\
  Forall2 (fun x y => (97 <= x <= 122 /\ y = x - 32) \/ (~ 97 <= x <= 122 /\ y = x)) s r.
Proof.
  intros Hasc. rewrite ba_upper, Hasc. eexists. split; [reflexivity|].
  rewrite to_upper_ascii_map. clear Hasc. induction s as [|b t IH]; cbn [map]; constructor.
  - destruct (upper_byte_cases b) as [H|H]; [left|right]; exact H.
  - exact IH.
Qed.

Lemma map_map_ext (f g h : Z -> Z) s : (forall b, f (g b) = h b) -> map f (map g s) = map h s.
Proof. intros H. rewrite map_map. apply map_ext. exact H. Qed.

(* lower and upper are idempotent, and each absorbs the other *)
Theorem lower_upper_ascii off s l u : all_ascii s = true ->
  builtin_apply off (str "lower") [VStr s] = Ok (VStr l) ->
  builtin_apply off (str "upper") [VStr s] = Ok (VStr u) ->
  builtin_apply off (str "lower") [VStr l] = Ok (VStr l) /\
  builtin_apply off (str "upper") [VStr u] = Ok (VStr u) /\
  builtin_apply off (str "lower") [VStr u] = Ok (VStr l) /\
  builtin_apply off (str "upper") [VStr l] = Ok (VStr u) /\
  slen l = slen s /\ slen u = slen s.
Proof.
  intros Hasc. rewrite !ba_lower, !ba_upper, Hasc. intros Hl Hu.
  injection Hl as Hl. injection Hu as Hu. subst l u.
  rewrite (lower_ascii s Hasc), (upper_ascii s Hasc).
  change to_lower_ascii with (map lower_byte). change to_upper_ascii with (map upper_byte).
  rewrite (map_map_ext lower_byte lower_byte lower_byte s lower_byte_idem).
  rewrite (map_map_ext upper_byte upper_byte upper_byte s upper_byte_idem).
  rewrite (map_map_ext lower_byte upper_byte lower_byte s lower_upper_byte).
  rewrite (map_map_ext upper_byte lower_byte upper_byte s upper_lower_byte).
  unfold slen. rewrite !map_length. repeat split.
Qed.

(* ---------- join, includes ---------- *)

Lemma as_strs_map ss : as_strs (VArr (map VStr ss)) = Some ss.
Proof.
  unfold as_strs. induction ss as [|a t IH]; cbn [map fold_right]; [reflexivity|].
  rewrite IH. reflexivity.
Qed.

Lemma ba_join off l x :
  builtin_apply off (str "join") [VArr l; VStr x] =
  match as_strs (VArr l) with Some ss => Ok (VStr (join_strs ss x)) | None => Err end.
Proof. unfold builtin_apply. destruct (as_strs (VArr l)); reflexivity. Qed.

Lemma ba_includes off l x :
  builtin_apply off (str "includes") [VArr l; VStr x] =
  match as_strs (VArr l) with
  | Some ss => Ok (VBool (existsb (fun y => bytes_eqb y x) ss)) | None => Err end.
Proof. unfold builtin_apply. destruct (as_strs (VArr l)); reflexivity. Qed.

Lemma join_strs_concat sep : forall a t,
  join_strs (a :: t) sep = a ++ concat (map (fun x => sep ++ x) t).
Proof.
  intros a t. revert a. induction t as [|b t IH]; intros a.
  - cbn [join_strs map concat]. rewrite app_nil_r. reflexivity.
  - change (join_strs (a :: b :: t) sep) with (a ++ sep ++ join_strs (b :: t) sep).
    rewrite IH. cbn [map concat]. rewrite <- app_assoc. reflexivity.
Qed.

(* join(l, sep): the elements in order with sep between consecutive ones *)
Theorem join_spec off ss sep :
  builtin_apply off (str "join") [VArr (map VStr ss); VStr sep] =
  Ok (VStr (match ss with
            | [] => []
            | a :: t => a ++ concat (map (fun x => sep ++ x) t)
            end)).
Proof.
  rewrite ba_join, as_strs_map. destruct ss as [|a t]; [reflexivity|].
  rewrite join_strs_concat. reflexivity.
Qed.

Theorem join_cons off a b t sep r :
  builtin_apply off (str "join") [VArr (map VStr (b :: t)); VStr sep] = Ok (VStr r) ->
  builtin_apply off (str "join") [VArr (map VStr (a :: b :: t)); VStr sep] = Ok (VStr (a ++ sep ++ r)).
Proof.
  rewrite !ba_join, !as_strs_map. intros H. injection H as H. subst r. reflexivity.
Qed.

Theorem includes_spec off ss x : exists b,
  builtin_apply off (str "includes") [VArr (map VStr ss); VStr x] = Ok (VBool b) /\
  (b = true <-> In x ss).
Proof.
  rewrite ba_includes, as_strs_map. eexists. split; [reflexivity|].
  rewrite existsb_exists. split.
  - intros [y [Hin Heq]]. apply bf_bytes_eqb_spec in Heq. subst y. exact Hin.
  - intros Hin. exists x. split; [exact Hin|]. apply bf_bytes_eqb_spec. reflexivity.
Qed.

Theorem len_spec off s : builtin_apply off (str "len") [VStr s] = Ok (VGoInt GInt (slen s)).
Proof. reflexivity. Qed.

Theorem regexp_not_modelled off s t : builtin_apply off (str "regexp") [VStr s; VStr t] = Unk.
Proof. reflexivity. Qed.

(* ---------- concrete instances (the hypotheses above are satisfiable, the dispatch computes) ---------- *)

Example ex_find : builtin_apply 0 (str "find") [VStr (str "banana"); VStr (str "an")] = Ok (gi 1).
Proof. vm_compute. reflexivity. Qed.
Example ex_find_absent : builtin_apply 0 (str "find") [VStr (str "banana"); VStr (str "nn")] = Ok (gi (-1)).
Proof. vm_compute. reflexivity. Qed.
Example ex_left_right :
  builtin_apply 0 (str "left") [VStr (str "banana"); gi 2] = Ok (VStr (str "ba")) /\
  builtin_apply 0 (str "right") [VStr (str "banana"); gi 4] = Ok (VStr (str "nana")).
Proof. vm_compute. split; reflexivity. Qed.
Example ex_mid : builtin_apply 0 (str "mid") [VStr (str "banana"); gi (-3); gi 99] = Ok (VStr (str "banana")).
Proof. vm_compute. reflexivity. Qed.
Example ex_mid_panic : builtin_apply 0 (str "mid") [VStr (str "banana"); gi 4; gi 2] = Panic.
Proof. vm_compute. reflexivity. Qed.
Example ex_lpad : builtin_apply 0 (str "lpad") [VStr (str "7"); VStr (str "0"); gi 3] = Ok (VStr (str "007")).
Proof. vm_compute. reflexivity. Qed.
Example ex_lpad_two_byte_pad :
  builtin_apply 0 (str "lpad") [VStr (str "7"); VStr (str "ab"); gi 3] = Ok (VStr (str "abab7")).
Proof. vm_compute. reflexivity. Qed.
Example ex_replace :
  builtin_apply 0 (str "replace") [VStr (str "aaa"); VStr (str "aa"); VStr (str "b")] = Ok (VStr (str "ba")).
Proof. vm_compute. reflexivity. Qed.
Example ex_replace_first_hyp : str_index (str "xyab" ++ str "ab" ++ str "c") (str "ab") <> slen (str "xyab").
Proof. vm_compute. discriminate. Qed.
Example ex_replace_first_hyp_ok : str_index (str "xy" ++ str "ab" ++ str "abc") (str "ab") = slen (str "xy").
Proof. vm_compute. reflexivity. Qed.
Example ex_trim :
  all_ascii (str "  a b  ") = true /\
  builtin_apply 0 (str "trim") [VStr (str "  a b  ")] = Ok (VStr (str "a b")).
Proof. vm_compute. split; reflexivity. Qed.
Example ex_lower : builtin_apply 0 (str "lower") [VStr (str "Ab-Z9")] = Ok (VStr (str "ab-z9")).
Proof. vm_compute. reflexivity. Qed.
Example ex_join :
  builtin_apply 0 (str "join") [VArr (map VStr [str "a"; str "b"; str "c"]); VStr (str ", ")] = Ok (VStr (str "a, b, c")).
Proof. vm_compute. reflexivity. Qed.

(* The builtins count BYTES.  With "one-character pad" read as one Unicode character, the clause
   "exactly the requested length" fails for a multi-byte character, and left/lpad/rpad can cut a
   multi-byte character in half.  [195; 169] is the UTF-8 encoding of U+00E9. *)
Theorem byte_semantics_witnesses :
  builtin_apply 0 (str "lpad") [VStr (str "7"); VStr [195; 169]; gi 3] = Ok (VStr [195; 169; 195; 169; 55]) /\
  slen [195; 169; 195; 169; 55] = 5 /\
  builtin_apply 0 (str "left") [VStr [195; 169]; gi 1] = Ok (VStr [195]) /\
  builtin_apply 0 (str "lpad") [VStr [195; 169; 120]; VStr (str "0"); gi 1] = Ok (VStr [195]) /\
  builtin_apply 0 (str "len") [VStr [195; 169]] = Ok (gi 2).
Proof. repeat split. Qed.
