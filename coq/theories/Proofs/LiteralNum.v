(* C12: numeric literals.  Syntax of literals (digit groups with single separators, optional
   fraction and exponent), their rendering and denotation; the scanner turns every rendering
   into one number token whose value string the decimal library reads to exactly the denoted
   coefficient and exponent; misplaced separators, missing exponent digits and a directly
   following identifier raise a diagnostic. *)
From Formula Require Import Base.Utf8 Lex.Chars Lex.Scanner Num.Dec Proofs.Utf8Facts Proofs.LiteralAscii.
From Formula Require Import Sem.Eval.
From Formula Require Proofs.BuiltinNumFacts.

(* ---------- syntax of literals ---------- *)

(* a digit group sequence: non-empty list of non-empty digit lists; rendered with one '_'
   between consecutive groups *)
Definition groups := list (list Z).

Definition group_ok (g : list Z) : bool :=
  match g with [] => false | _ => forallb is_digit g end.

Definition groups_ok (gs : groups) : bool :=
  match gs with [] => false | _ => forallb group_ok gs end.

Fixpoint render_groups (gs : groups) : list Z :=
  match gs with
  | [] => []
  | g :: t => match t with [] => g | _ => g ++ 95 :: render_groups t end
  end.

Definition digits_of_groups (gs : groups) : list Z := concat gs.

Definition has_sep (gs : groups) : bool := match gs with _ :: _ :: _ => true | _ => false end.

(* the integer written by a digit string (most significant digit first) *)
Definition dstep (a b : Z) : Z := a * 10 + (b - 48).
Definition digits_value (ds : list Z) : Z := fold_left dstep ds 0.

Record lit := mkLit {
  int_part : option groups;
  frac : option (option groups);            (* None: no dot; Some None: dot without digits *)
  exp : option (bool * option Z * groups)   (* upper-case E?, sign byte, digits *)
}.

Definition og_ok (o : option groups) : bool := match o with Some gs => groups_ok gs | None => true end.
Definition og_render (o : option groups) : list Z := match o with Some gs => render_groups gs | None => [] end.
Definition og_digits (o : option groups) : list Z := match o with Some gs => concat gs | None => [] end.
Definition og_sep (o : option groups) : bool := match o with Some gs => has_sep gs | None => false end.

Definition frac_ok (f : option (option groups)) : bool := match f with Some o => og_ok o | None => true end.
Definition frac_render (f : option (option groups)) : list Z :=
  match f with Some o => 46 :: og_render o | None => [] end.
Definition frac_digs (f : option (option groups)) : list Z := match f with Some o => og_digits o | None => [] end.
Definition frac_sep (f : option (option groups)) : bool := match f with Some o => og_sep o | None => false end.

Definition sign_ok (sg : option Z) : bool :=
  match sg with Some s => (s =? 43) || (s =? 45) | None => true end.
Definition sign_bytes (sg : option Z) : list Z := match sg with Some s => [s] | None => [] end.
Definition e_byte (up : bool) : Z := if up then 69 else 101.

Definition exp_ok (e : option (bool * option Z * groups)) : bool :=
  match e with Some (_, sg, ge) => sign_ok sg && groups_ok ge | None => true end.
Definition exp_render (e : option (bool * option Z * groups)) : list Z :=
  match e with Some (up, sg, ge) => e_byte up :: sign_bytes sg ++ render_groups ge | None => [] end.
(* the exponent part with the separators removed *)
Definition exp_sci (e : option (bool * option Z * groups)) : list Z :=
  match e with Some (up, sg, ge) => e_byte up :: sign_bytes sg ++ concat ge | None => [] end.
Definition exp_sep (e : option (bool * option Z * groups)) : bool :=
  match e with Some (_, _, ge) => has_sep ge | None => false end.
Definition exp_val (e : option (bool * option Z * groups)) : Z :=
  match e with
  | Some (_, sg, ge) =>
    let v := digits_value (concat ge) in
    match sg with Some s => if s =? 45 then - v else v | None => v end
  | None => 0
  end.

(* digits | digits.digits | .digits | digits.   each with an optional exponent *)
Definition lit_wf (l : lit) : bool :=
  match int_part l, frac l with
  | Some _, _ => true
  | None, Some (Some _) => true
  | None, _ => false
  end && og_ok (int_part l) && frac_ok (frac l) && exp_ok (exp l).

Definition render (l : lit) : list Z :=
  og_render (int_part l) ++ frac_render (frac l) ++ exp_render (exp l).

Definition int_digits (l : lit) : list Z := og_digits (int_part l).
Definition frac_digits (l : lit) : list Z := frac_digs (frac l).

(* coefficient and exponent: the number written is  coefficient * 10^exponent *)
Definition denote (l : lit) : Z * Z :=
  (digits_value (int_digits l ++ frac_digits l),
   exp_val (exp l) - Z.of_nat (length (frac_digits l))).

Definition has_frac (l : lit) : bool := match frac l with Some _ => true | None => false end.
Definition has_exp (l : lit) : bool := match exp l with Some _ => true | None => false end.

(* what may follow the literal without being taken for a part of it or raising the
   identifier-after-number error: not an identifier start (this covers '_' and 'e'/'E'), not a
   digit, and not a '.' unless the literal already has a fraction or an exponent *)
Definition no_continuation (l : lit) (rest : list Z) : bool :=
  match decode_all rest with
  | [] => true
  | (r, _) :: _ =>
    negb (is_ident_start r) && negb (is_digit r) && (has_frac l || has_exp l || negb (r =? 46))
  end.

(* ---------- digits, groups ---------- *)

Lemma digit_range : forall d, is_digit d = true -> 48 <= d <= 57.
Proof.
  intros d H. unfold is_digit in H. apply andb_true_iff in H. destruct H as [H1 H2].
  apply Z.leb_le in H1, H2. lia.
Qed.

Lemma digit_cases : forall d, is_digit d = true ->
  d = 48 \/ d = 49 \/ d = 50 \/ d = 51 \/ d = 52 \/ d = 53 \/ d = 54 \/ d = 55 \/ d = 56 \/ d = 57.
Proof. intros d H. apply digit_range in H. lia. Qed.

Lemma digit_not_95 : forall d, is_digit d = true -> (d =? 95) = false.
Proof. intros d H. apply digit_range in H. apply Z.eqb_neq. lia. Qed.

Lemma groups_ok_cons2 : forall g g2 gs,
  groups_ok (g :: g2 :: gs) = group_ok g && groups_ok (g2 :: gs).
Proof. reflexivity. Qed.

Lemma groups_ok_single : forall g, groups_ok [g] = group_ok g.
Proof. intros g. unfold groups_ok. cbn [forallb]. apply andb_true_r. Qed.

Lemma group_ok_inv : forall g, group_ok g = true ->
  exists d g', g = d :: g' /\ is_digit d = true /\ forallb is_digit g' = true.
Proof.
  intros g H. destruct g as [|d g']; [discriminate H|].
  unfold group_ok in H. cbn [forallb] in H. apply andb_true_iff in H. destruct H as [H1 H2].
  exists d, g'. repeat split; assumption.
Qed.

Lemma render_groups_cons2 : forall g g2 gs,
  render_groups (g :: g2 :: gs) = g ++ 95 :: render_groups (g2 :: gs).
Proof. reflexivity. Qed.

Lemma render_head : forall gs, groups_ok gs = true ->
  exists d l, render_groups gs = d :: l /\ is_digit d = true.
Proof.
  intros gs H. destruct gs as [|g gs]; [discriminate H|].
  destruct gs as [|g2 gs].
  - rewrite groups_ok_single in H. destruct (group_ok_inv g H) as (d & g' & -> & Hd & _).
    exists d, g'. split; [reflexivity|exact Hd].
  - rewrite groups_ok_cons2 in H. apply andb_true_iff in H. destruct H as [H _].
    destruct (group_ok_inv g H) as (d & g' & -> & Hd & _).
    rewrite render_groups_cons2. exists d, (g' ++ 95 :: render_groups (g2 :: gs)).
    split; [reflexivity|exact Hd].
Qed.

Lemma concat_head : forall gs, groups_ok gs = true -> exists d l, concat gs = d :: l /\ is_digit d = true.
Proof.
  intros gs H. destruct gs as [|g gs]; [discriminate H|].
  assert (Hg : group_ok g = true).
  { destruct gs; [rewrite groups_ok_single in H; exact H|].
    rewrite groups_ok_cons2 in H. apply andb_true_iff in H. apply H. }
  destruct (group_ok_inv g Hg) as (d & g' & -> & Hd & _).
  exists d, (g' ++ concat gs). split; [reflexivity|exact Hd].
Qed.

Lemma concat_digits : forall gs, groups_ok gs = true -> forallb is_digit (concat gs) = true.
Proof.
  intros gs H. destruct gs as [|g gs]; [discriminate H|].
  unfold groups_ok in H.
  set (l := g :: gs) in *. clearbody l. clear g gs.
  induction l as [|g l IH]; [reflexivity|].
  cbn [forallb concat] in *. apply andb_true_iff in H. destruct H as [Hg Hl].
  rewrite forallb_app. rewrite (IH Hl).
  destruct g as [|d g']; [discriminate Hg|]. unfold group_ok in Hg. rewrite Hg. reflexivity.
Qed.

Lemma render_nosep : forall gs, groups_ok gs = true -> has_sep gs = false -> render_groups gs = concat gs.
Proof.
  intros gs H Hs. destruct gs as [|g [|g2 gs]]; [discriminate H| |discriminate Hs].
  cbn [render_groups concat]. rewrite app_nil_r. reflexivity.
Qed.

Definition fragbyte (b : Z) : bool := is_digit b || (b =? 95).

Lemma render_groups_bytes : forall gs, groups_ok gs = true -> forallb fragbyte (render_groups gs) = true.
Proof.
  induction gs as [|g gs IH]; intros H; [discriminate H|].
  assert (Hdig : forall g0, group_ok g0 = true -> forallb fragbyte g0 = true).
  { intros g0 H0. destruct (group_ok_inv g0 H0) as (d & g' & -> & Hd & Hg').
    cbn [forallb]. unfold fragbyte at 1. rewrite Hd. cbn [orb andb].
    clear -Hg'. induction g' as [|a g' IH]; [reflexivity|].
    cbn [forallb] in *. apply andb_true_iff in Hg'. destruct Hg' as [Ha Hg'].
    unfold fragbyte at 1. rewrite Ha. cbn [orb andb]. apply IH, Hg'. }
  destruct gs as [|g2 gs].
  - rewrite groups_ok_single in H. cbn [render_groups]. apply Hdig, H.
  - rewrite groups_ok_cons2 in H. apply andb_true_iff in H. destruct H as [Hg Hgs].
    rewrite render_groups_cons2, forallb_app. rewrite (Hdig g Hg). cbn [forallb andb].
    rewrite (IH Hgs). reflexivity.
Qed.

(* ---------- the bytes of a rendering ---------- *)

Definition lit_byte (b : Z) : bool :=
  is_digit b || (b =? 95) || (b =? 46) || (b =? 101) || (b =? 69) || (b =? 43) || (b =? 45).

Lemma lit_byte_ascii : forall b, lit_byte b = true -> 0 <= b < 128.
Proof.
  intros b H. unfold lit_byte in H.
  repeat (apply orb_true_iff in H; destruct H as [H|H]); try (apply Z.eqb_eq in H; lia).
  apply digit_range in H. lia.
Qed.

Lemma fragbyte_lit_byte : forall l, forallb fragbyte l = true -> forallb lit_byte l = true.
Proof.
  induction l as [|a l IH]; intros H; [reflexivity|].
  cbn [forallb] in *. apply andb_true_iff in H. destruct H as [Ha Hl].
  rewrite (IH Hl), andb_true_r. unfold fragbyte in Ha. unfold lit_byte. rewrite Ha. reflexivity.
Qed.

Lemma og_render_bytes : forall o, og_ok o = true -> forallb lit_byte (og_render o) = true.
Proof.
  intros [gs|] H; [|reflexivity]. apply fragbyte_lit_byte, render_groups_bytes, H.
Qed.

Lemma render_bytes : forall l, lit_wf l = true -> forallb lit_byte (render l) = true.
Proof.
  intros l H. unfold lit_wf in H.
  apply andb_true_iff in H. destruct H as [H He].
  apply andb_true_iff in H. destruct H as [H Hf].
  apply andb_true_iff in H. destruct H as [_ Hi].
  unfold render. rewrite !forallb_app. rewrite (og_render_bytes _ Hi). cbn [andb].
  apply andb_true_iff. split.
  - unfold frac_render. destruct (frac l) as [o|]; [|reflexivity].
    cbn [forallb]. rewrite (og_render_bytes o Hf). reflexivity.
  - unfold exp_render. destruct (exp l) as [[[up sg] ge]|]; [|reflexivity].
    cbn [exp_ok] in He. apply andb_true_iff in He. destruct He as [Hsg Hge].
    cbn [forallb]. rewrite forallb_app.
    rewrite (fragbyte_lit_byte _ (render_groups_bytes ge Hge)).
    assert (H1 : lit_byte (e_byte up) = true) by (destruct up; reflexivity).
    rewrite H1. cbn [andb]. rewrite andb_true_r.
    destruct sg as [s|]; [|reflexivity]. cbn [sign_bytes forallb]. rewrite andb_true_r.
    cbn [sign_ok] in Hsg. apply orb_true_iff in Hsg.
    destruct Hsg as [Hs|Hs]; apply Z.eqb_eq in Hs; subst s; reflexivity.
Qed.

Lemma forallb_Forall_ascii : forall l, forallb lit_byte l = true -> Forall (fun b => 0 <= b < 128) l.
Proof.
  induction l as [|a l IH]; intros H; [constructor|].
  cbn [forallb] in H. apply andb_true_iff in H. destruct H as [Ha Hl].
  constructor; [apply lit_byte_ascii, Ha|apply IH, Hl].
Qed.

Theorem decode_render : forall l rest, lit_wf l = true ->
  decode_all (render l ++ rest) = asc (render l) ++ decode_all rest.
Proof.
  intros l rest H. apply decode_all_asc. apply forallb_Forall_ascii, render_bytes, H.
Qed.

(* ---------- number fragments ---------- *)

(* the fragment scanner stops here: end of input, or neither '_' nor a digit *)
Definition stop (t : list step) : bool :=
  match t with [] => true | (r, _) :: _ => negb (r =? 95) && negb (is_digit r) end.

Lemma scan_frag_stop : forall t pos al ip us acc ds sep, stop t = true ->
  scan_frag t pos al ip us acc ds sep =
  (acc, t, pos, if ip then ds ++ [(us, 1, C_Separators_not_allowed)] else ds, sep).
Proof.
  intros t pos al ip us acc ds sep H. destruct t as [|[r bs] t']; [reflexivity|].
  cbn [stop] in H. apply andb_true_iff in H. destruct H as [H1 H2].
  apply negb_true_iff in H1, H2. cbn [scan_frag]. rewrite H1, H2. reflexivity.
Qed.

Lemma scan_frag_digit : forall d t pos al ip us acc ds sep, is_digit d = true ->
  scan_frag ((d, [d]) :: t) pos al ip us acc ds sep =
  scan_frag t (pos + 1) true false us (acc ++ [d]) ds sep.
Proof.
  intros d t pos al ip us acc ds sep H. cbn [scan_frag].
  rewrite (digit_not_95 d H), H. reflexivity.
Qed.

Lemma scan_frag_underscore : forall t pos al ip us acc ds sep,
  scan_frag ((95, [95]) :: t) pos al ip us acc ds sep =
  scan_frag t (pos + 1) false (if al then true else ip) pos acc
    (if al then ds else if ip then ds ++ [(pos, 1, C_Multiple_separators)]
                        else ds ++ [(pos, 1, C_Separators_not_allowed)]) true.
Proof. reflexivity. Qed.

Lemma scan_frag_digits : forall g' d t pos al ip us acc ds sep,
  is_digit d = true -> forallb is_digit g' = true ->
  scan_frag (asc (d :: g') ++ t) pos al ip us acc ds sep =
  scan_frag t (pos + blen (d :: g')) true false us (acc ++ d :: g') ds sep.
Proof.
  induction g' as [|d' g'' IH]; intros d t pos al ip us acc ds sep Hd Hg.
  - cbn [asc map app]. rewrite scan_frag_digit by exact Hd. reflexivity.
  - cbn [forallb] in Hg. apply andb_true_iff in Hg. destruct Hg as [Hd' Hg''].
    rewrite asc_cons. cbn [app]. rewrite scan_frag_digit by exact Hd.
    rewrite (IH d' t (pos + 1) true false us (acc ++ [d]) ds sep Hd' Hg'').
    rewrite <- app_assoc. cbn [app].
    rewrite (blen_cons d (d' :: g'')), Z.add_assoc. reflexivity.
Qed.

Lemma scan_frag_groups : forall gs, groups_ok gs = true -> forall t, stop t = true ->
  forall pos al ip us acc ds sep,
  scan_frag (asc (render_groups gs) ++ t) pos al ip us acc ds sep =
  (acc ++ concat gs, t, pos + blen (render_groups gs), ds, sep || has_sep gs).
Proof.
  induction gs as [|g gs IH]; intros H t Ht pos al ip us acc ds sep; [discriminate H|].
  destruct gs as [|g2 gs].
  - rewrite groups_ok_single in H. destruct (group_ok_inv g H) as (d & g' & -> & Hd & Hg').
    cbn [render_groups concat has_sep]. rewrite app_nil_r, orb_false_r.
    rewrite scan_frag_digits by assumption. rewrite scan_frag_stop by exact Ht. reflexivity.
  - rewrite groups_ok_cons2 in H. apply andb_true_iff in H. destruct H as [Hg Hgs].
    destruct (group_ok_inv g Hg) as (d & g' & -> & Hd & Hg').
    rewrite render_groups_cons2, asc_app, <- app_assoc.
    rewrite scan_frag_digits by assumption.
    rewrite asc_cons. cbn [app]. rewrite scan_frag_underscore.
    rewrite (IH Hgs t Ht).
    cbn [has_sep concat orb]. rewrite orb_true_r, <- app_assoc.
    replace (pos + blen (d :: g' ++ 95 :: render_groups (g2 :: gs)))
      with (pos + blen (d :: g') + 1 + blen (render_groups (g2 :: gs)))
      by (rewrite !blen_cons, blen_app, blen_cons; lia).
    reflexivity.
Qed.

Lemma fragment_og : forall o t pos, og_ok o = true -> stop t = true ->
  fragment (asc (og_render o) ++ t) pos = (og_digits o, t, pos + blen (og_render o), [], og_sep o).
Proof.
  intros [gs|] t pos Ho Ht; unfold fragment.
  - cbn [og_render og_digits og_sep]. rewrite scan_frag_groups by assumption. reflexivity.
  - cbn [og_render og_digits og_sep asc map app]. rewrite scan_frag_stop by exact Ht.
    rewrite blen_nil, Z.add_0_r. reflexivity.
Qed.

(* ---------- scan_number in three phases ---------- *)

Definition dot_part (ss1 : list step) (p1 : Z) : bool * list Z * list step * Z * list diag * bool :=
  match ss1 with
  | (r, bs) :: t =>
    if r =? 46 then
      let '(dec, ss2, p2, d2, sep2) := fragment t (p1 + blen bs) in (true, dec, ss2, p2, d2, sep2)
    else (false, [], ss1, p1, [], false)
  | [] => (false, [], ss1, p1, [], false)
  end.

Definition exp_part (ss2 : list step) (p2 : Z) : list Z * list Z * list step * Z * list diag * bool :=
  match ss2 with
  | (r, bs) :: t =>
    if is_e r then
      let pe := p2 + blen bs in
      let '(sgn, t2, ps) :=
        match t with
        | (r2, bs2) :: t' => if is_sign r2 then (bs ++ bs2, t', pe + blen bs2) else (bs, t, pe)
        | [] => (bs, t, pe)
        end in
      let '(fin, ss3, p3, d3, sep3) := fragment t2 ps in
      match fin with
      | [] => ([], [], ss3, p3, d3 ++ [(p3, 0, C_Digit_expected)], sep3)
      | _ => (sgn ++ fin, take_bytes (length ss2 - length ss3) ss2, ss3, p3, d3, sep3)
      end
    else ([], [], ss2, p2, [], false)
  | [] => ([], [], ss2, p2, [], false)
  end.

Definition num_value (sep : bool) (main dec sci raw_main raw_sci : list Z) : list Z :=
  if sep then main ++ (match dec with [] => [] | _ => 46 :: dec end) ++ sci
  else raw_main ++ raw_sci.

Definition ident_diag (ss3 : list step) (p3 : Z) (ds : list diag) : list diag :=
  match ss3 with
  | (r, _) :: _ =>
    if is_ident_start r then
      let '(run, _, _) := ident_run ss3 p3 [] in ds ++ [(p3, blen run, C_Identifier_after_number)]
    else ds
  | [] => ds
  end.

Lemma scan_number_unfold : forall ss pos,
  scan_number ss pos =
  let '(main, ss1, p1, d1, sep1) := fragment ss pos in
  let '(hasdot, dec, ss2, p2, d2, sep2) := dot_part ss1 p1 in
  let '(sci, raw_sci, ss3, p3, d3, sep3) := exp_part ss2 p2 in
  (num_value (sep1 || sep2 || sep3) main dec sci (take_bytes (length ss - length ss2) ss) raw_sci,
   ss3, p3, ident_diag ss3 p3 (d1 ++ d2 ++ d3)).
Proof. reflexivity. Qed.

Lemma scan_number_parts : forall ss pos main ss1 p1 d1 sep1 hasdot dec ss2 p2 d2 sep2
    sci raw_sci ss3 p3 d3 sep3,
  fragment ss pos = (main, ss1, p1, d1, sep1) ->
  dot_part ss1 p1 = (hasdot, dec, ss2, p2, d2, sep2) ->
  exp_part ss2 p2 = (sci, raw_sci, ss3, p3, d3, sep3) ->
  scan_number ss pos =
  (num_value (sep1 || sep2 || sep3) main dec sci (take_bytes (length ss - length ss2) ss) raw_sci,
   ss3, p3, ident_diag ss3 p3 (d1 ++ d2 ++ d3)).
Proof.
  intros ss pos main ss1 p1 d1 sep1 hasdot dec ss2 p2 d2 sep2 sci raw_sci ss3 p3 d3 sep3 H1 H2 H3.
  rewrite scan_number_unfold, H1, H2, H3. reflexivity.
Qed.

Lemma take_bytes_asc : forall l t, take_bytes (length (asc l ++ t) - length t) (asc l ++ t) = l.
Proof.
  intros l t. rewrite app_length.
  replace (length (asc l) + length t - length t)%nat with (length (asc l) + 0)%nat by lia.
  unfold take_bytes. rewrite firstn_app_2. cbn [firstn]. rewrite app_nil_r. apply steps_bytes_asc.
Qed.

Definition nodot (t : list step) : bool :=
  match t with [] => true | (r, _) :: _ => negb (r =? 46) end.
Definition noexp (t : list step) : bool :=
  match t with [] => true | (r, _) :: _ => negb (is_e r) end.

Lemma dot_part_none : forall t p, nodot t = true -> dot_part t p = (false, [], t, p, [], false).
Proof.
  intros t p H. destruct t as [|[r bs] t']; [reflexivity|].
  cbn [nodot] in H. apply negb_true_iff in H. cbn [dot_part]. rewrite H. reflexivity.
Qed.

Lemma dot_part_some : forall o t p, og_ok o = true -> stop t = true ->
  dot_part (asc (46 :: og_render o) ++ t) p =
  (true, og_digits o, t, p + blen (46 :: og_render o), [], og_sep o).
Proof.
  intros o t p Ho Ht. rewrite asc_cons. cbn [app dot_part]. rewrite Z.eqb_refl.
  rewrite fragment_og by assumption.
  replace (p + blen (46 :: og_render o)) with (p + blen [46] + blen (og_render o))
    by (rewrite (blen_cons 46 (og_render o)); change (blen [46]) with 1; lia).
  reflexivity.
Qed.


Definition has_frac_o (f : option (option groups)) : bool := match f with Some _ => true | None => false end.

Lemma dot_part_frac : forall f t p, frac_ok f = true ->
  match f with Some _ => stop t | None => nodot t end = true ->
  dot_part (asc (frac_render f) ++ t) p =
  (has_frac_o f, frac_digs f, t, p + blen (frac_render f), [], frac_sep f).
Proof.
  intros [o|] t p Hf Ht.
  - cbn [frac_render frac_digs frac_sep has_frac_o]. apply dot_part_some; assumption.
  - cbn [frac_render frac_digs frac_sep has_frac_o asc map app].
    rewrite dot_part_none by exact Ht. rewrite blen_nil, Z.add_0_r. reflexivity.
Qed.

(* the exponent phase, given what the sign selection and the digit fragment return *)
Definition sign_sel (bs : list Z) (t : list step) (pe : Z) : list Z * list step * Z :=
  match t with
  | (r2, bs2) :: t' => if is_sign r2 then (bs ++ bs2, t', pe + blen bs2) else (bs, t, pe)
  | [] => (bs, t, pe)
  end.

Lemma exp_part_core : forall eb t' p sgn t2 ps fin ss3 p3 d3 sep3, is_e eb = true ->
  sign_sel [eb] t' (p + 1) = (sgn, t2, ps) ->
  fragment t2 ps = (fin, ss3, p3, d3, sep3) ->
  exp_part (((eb, [eb]) : step) :: t') p =
  match fin with
  | [] => ([], [], ss3, p3, d3 ++ [(p3, 0, C_Digit_expected)], sep3)
  | _ => (sgn ++ fin, take_bytes (length (((eb, [eb]) : step) :: t') - length ss3) (((eb, [eb]) : step) :: t'), ss3, p3, d3, sep3)
  end.
Proof.
  intros eb t' p sgn t2 ps fin ss3 p3 d3 sep3 He Hs Hf.
  unfold sign_sel in Hs. cbn [exp_part]. rewrite He. change (blen [eb]) with 1.
  rewrite Hs, Hf. reflexivity.
Qed.

Lemma exp_part_none : forall t p, noexp t = true -> exp_part t p = ([], [], t, p, [], false).
Proof.
  intros t p H. destruct t as [|[r bs] t']; [reflexivity|].
  cbn [noexp] in H. apply negb_true_iff in H. cbn [exp_part]. rewrite H. reflexivity.
Qed.

Lemma is_e_byte : forall up, is_e (e_byte up) = true.
Proof. intros [|]; reflexivity. Qed.

Lemma digit_not_sign : forall d, is_digit d = true -> is_sign d = false.
Proof.
  intros d H. apply digit_range in H. unfold is_sign.
  destruct (d =? 43) eqn:E1; [apply Z.eqb_eq in E1; lia|].
  destruct (d =? 45) eqn:E2; [apply Z.eqb_eq in E2; lia|]. reflexivity.
Qed.

Lemma sign_sel_lit : forall eb sg R t pe, sign_ok sg = true ->
  (exists d l, R = d :: l /\ is_digit d = true) ->
  sign_sel [eb] (asc (sign_bytes sg ++ R) ++ t) pe =
  (eb :: sign_bytes sg, asc R ++ t, pe + blen (sign_bytes sg)).
Proof.
  intros eb sg R t pe Hsg (d & l & -> & Hd). destruct sg as [s|].
  - cbn [sign_ok] in Hsg. cbn [sign_bytes app]. rewrite asc_cons. cbn [app sign_sel].
    assert (Hs : is_sign s = true) by exact Hsg. rewrite Hs. reflexivity.
  - cbn [sign_bytes app]. rewrite asc_cons. cbn [app sign_sel].
    rewrite (digit_not_sign d Hd). rewrite blen_nil, Z.add_0_r. reflexivity.
Qed.

Lemma exp_part_lit : forall eo R p, exp_ok eo = true ->
  match eo with Some _ => stop R | None => noexp R end = true ->
  exp_part (asc (exp_render eo) ++ R) p =
  (exp_sci eo, exp_render eo, R, p + blen (exp_render eo), [], exp_sep eo).
Proof.
  intros [[[up sg] ge]|] R p Hok HR.
  2:{ cbn [exp_render exp_sci exp_sep asc map app]. rewrite exp_part_none by exact HR.
      rewrite blen_nil, Z.add_0_r. reflexivity. }
  cbn [exp_ok] in Hok. apply andb_true_iff in Hok. destruct Hok as [Hsg Hge].
  cbn [exp_render exp_sci exp_sep].
  pose proof (take_bytes_asc (e_byte up :: sign_bytes sg ++ render_groups ge) R) as Htb.
  rewrite asc_cons in *. cbn [app] in *.
  etransitivity;
    [apply (exp_part_core (e_byte up) _ p _ _ _ _ _ _ _ _ (is_e_byte up)
             (sign_sel_lit (e_byte up) sg (render_groups ge) R (p + 1) Hsg (render_head ge Hge))
             (fragment_og (Some ge) R _ Hge HR))|].
  cbn [og_digits og_render og_sep].
  destruct (concat ge) as [|d l] eqn:Hc.
  { exfalso. destruct (concat_head ge Hge) as (d & l & Hc' & _). congruence. }
  rewrite Htb. cbn [app].
  replace (p + 1 + blen (sign_bytes sg) + blen (render_groups ge))
    with (p + blen (e_byte up :: sign_bytes sg ++ render_groups ge))
    by (rewrite blen_cons, blen_app; lia).
  reflexivity.
Qed.

Lemma scan_number_12 : forall io fo Y pos sci raw_sci ss3 p3 d3 sep3,
  og_ok io = true -> frac_ok fo = true ->
  stop (asc (frac_render fo) ++ Y) = true ->
  match fo with Some _ => stop Y | None => nodot Y end = true ->
  exp_part Y (pos + blen (og_render io ++ frac_render fo)) = (sci, raw_sci, ss3, p3, d3, sep3) ->
  scan_number (asc (og_render io ++ frac_render fo) ++ Y) pos =
  (num_value (og_sep io || frac_sep fo || sep3) (og_digits io) (frac_digs fo) sci
     (og_render io ++ frac_render fo) raw_sci,
   ss3, p3, ident_diag ss3 p3 d3).
Proof.
  intros io fo Y pos sci raw_sci ss3 p3 d3 sep3 Hio Hfo Hc1 Hc2 Hexp.
  assert (H1 : fragment (asc (og_render io ++ frac_render fo) ++ Y) pos =
               (og_digits io, asc (frac_render fo) ++ Y, pos + blen (og_render io), [], og_sep io)).
  { rewrite asc_app, <- app_assoc. apply fragment_og; assumption. }
  pose proof (dot_part_frac fo Y (pos + blen (og_render io)) Hfo Hc2) as H2.
  rewrite blen_app, Z.add_assoc in Hexp.
  rewrite (scan_number_parts _ _ _ _ _ _ _ _ _ _ _ _ _ _ _ _ _ _ _ H1 H2 Hexp).
  rewrite take_bytes_asc. reflexivity.
Qed.

(* what may follow: not a separator or digit; a '.' only after a fraction or exponent; an
   'e'/'E' only after an exponent *)
Definition tail_ok (hf he : bool) (R : list step) : bool :=
  match R with
  | [] => true
  | (r, _) :: _ =>
    negb (r =? 95) && negb (is_digit r) && (hf || he || negb (r =? 46)) && (he || negb (is_e r))
  end.

Lemma tail_ok_stop : forall hf he R, tail_ok hf he R = true -> stop R = true.
Proof.
  intros hf he [|[r bs] R'] H; [reflexivity|]. cbn [tail_ok stop] in *.
  apply andb_true_iff in H. destruct H as [H _]. apply andb_true_iff in H. destruct H as [H _]. exact H.
Qed.

Lemma tail_ok_nodot : forall R, tail_ok false false R = true -> nodot R = true.
Proof.
  intros [|[r bs] R'] H; [reflexivity|]. cbn [tail_ok nodot orb] in *.
  apply andb_true_iff in H. destruct H as [H _]. apply andb_true_iff in H. destruct H as [_ H]. exact H.
Qed.

Lemma tail_ok_noexp : forall hf R, tail_ok hf false R = true -> noexp R = true.
Proof.
  intros hf [|[r bs] R'] H; [reflexivity|]. cbn [tail_ok noexp orb] in *.
  apply andb_true_iff in H. destruct H as [_ H]. exact H.
Qed.

Lemma stop_exp_render : forall up sg ge R, stop (asc (exp_render (Some (up, sg, ge))) ++ R) = true.
Proof. intros [|] sg ge R; reflexivity. Qed.

Lemma nodot_exp_render : forall up sg ge R, nodot (asc (exp_render (Some (up, sg, ge))) ++ R) = true.
Proof. intros [|] sg ge R; reflexivity. Qed.

Definition lit_value (l : lit) : list Z :=
  num_value (og_sep (int_part l) || frac_sep (frac l) || exp_sep (exp l))
    (int_digits l) (frac_digits l) (exp_sci (exp l))
    (og_render (int_part l) ++ frac_render (frac l)) (exp_render (exp l)).

Lemma lit_wf_parts : forall l, lit_wf l = true ->
  og_ok (int_part l) = true /\ frac_ok (frac l) = true /\ exp_ok (exp l) = true /\
  (int_part l <> None \/ exists g, frac l = Some (Some g)).
Proof.
  intros l H. unfold lit_wf in H.
  apply andb_true_iff in H. destruct H as [H He].
  apply andb_true_iff in H. destruct H as [H Hf].
  apply andb_true_iff in H. destruct H as [Hs Hi].
  repeat split; try assumption.
  destruct (int_part l) as [gi|]; [left; discriminate|].
  destruct (frac l) as [[g|]|]; try discriminate Hs. right. exists g. reflexivity.
Qed.

Lemma scan_number_lit : forall l R pos, lit_wf l = true ->
  tail_ok (has_frac l) (has_exp l) R = true ->
  scan_number (asc (render l) ++ R) pos =
  (lit_value l, R, pos + blen (render l), ident_diag R (pos + blen (render l)) []).
Proof.
  intros l R pos Hwf Ht.
  destruct (lit_wf_parts l Hwf) as (Hio & Hfo & Heo & _).
  unfold render, lit_value, has_frac, has_exp in *.
  set (io := int_part l) in *. set (fo := frac l) in *. set (eo := exp l) in *.
  assert (Hc3 : match eo with Some _ => stop R | None => noexp R end = true).
  { destruct eo; [eapply tail_ok_stop; exact Ht|eapply tail_ok_noexp; exact Ht]. }
  assert (Hc2 : match fo with Some _ => stop (asc (exp_render eo) ++ R)
                         | None => nodot (asc (exp_render eo) ++ R) end = true).
  { destruct fo.
    - destruct eo as [[[up sg] ge]|]; [apply stop_exp_render|]. cbn [exp_render asc map app].
      eapply tail_ok_stop; exact Ht.
    - destruct eo as [[[up sg] ge]|]; [apply nodot_exp_render|]. cbn [exp_render asc map app].
      apply tail_ok_nodot; exact Ht. }
  assert (Hc1 : stop (asc (frac_render fo) ++ asc (exp_render eo) ++ R) = true).
  { destruct fo as [o|]; [reflexivity|]. cbn [frac_render asc map app].
    destruct eo as [[[up sg] ge]|]; [apply stop_exp_render|]. cbn [exp_render asc map app].
    eapply tail_ok_stop; exact Ht. }
  pose proof (exp_part_lit eo R (pos + blen (og_render io ++ frac_render fo)) Heo Hc3) as H3.
  rewrite app_assoc, asc_app, <- app_assoc.
  rewrite (scan_number_12 io fo (asc (exp_render eo) ++ R) pos _ _ _ _ _ _ Hio Hfo Hc1 Hc2 H3).
  rewrite (blen_app (og_render io ++ frac_render fo) (exp_render eo)), Z.add_assoc.
  reflexivity.
Qed.

(* ---------- what the decimal library reads ---------- *)

Definition sign_split (s : list Z) : bool * list Z :=
  match s with 43 :: t => (false, t) | 45 :: t => (true, t) | _ => (false, s) end.

Lemma dec_of_string_unfold : forall s,
  dec_of_string s =
  let '(neg, s1) := sign_split s in
  match s1 with
  | [] => NaN
  | b :: _ =>
    if is_dig b || (b =? 46) then
      match scan_mant s1 0 false 0 with
      | None => NaN
      | Some (c, fr, rest) =>
        match rest with
        | [] => Fin neg c (- fr)
        | _ :: r1 =>
          let '(eneg, r2) := sign_split r1 in
          match scan_digits r2 0 with
          | None => NaN
          | Some ex => Fin neg c (- fr + (if eneg then - ex else ex))
          end
        end
      end
    else
      let l := map lower s1 in
      if bytes_eq l [105; 110; 102] || bytes_eq l [105; 110; 102; 105; 110; 105; 116; 121] then Inf neg
      else NaN
  end.
Proof. reflexivity. Qed.

Lemma sign_split_digit : forall d t, is_digit d = true -> sign_split (d :: t) = (false, d :: t).
Proof.
  intros d t H. apply digit_cases in H.
  destruct H as [->|[->|[->|[->|[->|[->|[->|[->|[->| ->]]]]]]]]]; reflexivity.
Qed.

Lemma dec_read : forall b t c fr rest, is_digit b = true \/ b = 46 ->
  scan_mant (b :: t) 0 false 0 = Some (c, fr, rest) ->
  dec_of_string (b :: t) =
  match rest with
  | [] => Fin false c (- fr)
  | _ :: r1 =>
    let '(eneg, r2) := sign_split r1 in
    match scan_digits r2 0 with
    | None => NaN
    | Some ex => Fin false c (- fr + (if eneg then - ex else ex))
    end
  end.
Proof.
  intros b t c fr rest Hb Hm. rewrite dec_of_string_unfold.
  assert (Hs : sign_split (b :: t) = (false, b :: t)).
  { destruct Hb as [Hb| ->]; [apply sign_split_digit; exact Hb|reflexivity]. }
  rewrite Hs.
  assert (Hc : is_dig b || (b =? 46) = true).
  { destruct Hb as [Hb| ->]; [|reflexivity]. change (is_dig b) with (is_digit b). rewrite Hb. reflexivity. }
  rewrite Hc, Hm. reflexivity.
Qed.

Lemma scan_mant_digits : forall ds t c dot fr, forallb is_digit ds = true ->
  scan_mant (ds ++ t) c dot fr =
  scan_mant t (fold_left dstep ds c) dot (if dot then fr + Z.of_nat (length ds) else fr).
Proof.
  induction ds as [|a ds IH]; intros t c dot fr H.
  { cbn [app fold_left length]. destruct dot; [rewrite Z.add_0_r|]; reflexivity. }
  cbn [forallb] in H. apply andb_true_iff in H. destruct H as [Ha Hds].
  cbn [app scan_mant]. change (is_dig a) with (is_digit a). rewrite Ha.
  rewrite IH by exact Hds. cbn [fold_left]. unfold dstep at 2.
  destruct dot; [|reflexivity]. f_equal. cbn [length]. lia.
Qed.

Lemma scan_digits_all : forall ds acc, forallb is_digit ds = true ->
  scan_digits ds acc = Some (fold_left dstep ds acc).
Proof.
  induction ds as [|a ds IH]; intros acc H; [reflexivity|].
  cbn [forallb] in H. apply andb_true_iff in H. destruct H as [Ha Hds].
  cbn [scan_digits]. change (is_dig a) with (is_digit a). rewrite Ha.
  rewrite IH by exact Hds. reflexivity.
Qed.

(* the exponent part, or nothing: where the mantissa reader stops *)
Definition sci_like (sci : list Z) : Prop := sci = [] \/ exists eb r, sci = eb :: r /\ is_e eb = true.

Lemma scan_mant_stop : forall sci c dot fr, sci_like sci -> scan_mant sci c dot fr = Some (c, fr, sci).
Proof.
  intros sci c dot fr [->|(eb & r & -> & He)]; [reflexivity|].
  unfold is_e in He. apply orb_true_iff in He.
  destruct He as [He|He]; apply Z.eqb_eq in He; subst eb; reflexivity.
Qed.

Lemma read_mantissa : forall dI dF (dot : bool) sci,
  forallb is_digit dI = true -> forallb is_digit dF = true -> (dot = false -> dF = []) ->
  sci_like sci ->
  scan_mant (dI ++ (if dot then 46 :: dF else []) ++ sci) 0 false 0 =
  Some (digits_value (dI ++ dF), Z.of_nat (length dF), sci).
Proof.
  intros dI dF dot sci HI HF Hdot Hsci.
  rewrite scan_mant_digits by exact HI.
  unfold digits_value. rewrite fold_left_app.
  destruct dot.
  - cbn [app]. change (scan_mant (46 :: dF ++ sci) (fold_left dstep dI 0) false 0)
      with (scan_mant (dF ++ sci) (fold_left dstep dI 0) true 0).
    rewrite scan_mant_digits by exact HF. rewrite scan_mant_stop by exact Hsci. reflexivity.
  - rewrite (Hdot eq_refl). cbn [app fold_left length]. rewrite scan_mant_stop by exact Hsci. reflexivity.
Qed.

Lemma exp_sci_like : forall eo, sci_like (exp_sci eo).
Proof.
  intros [[[up sg] ge]|]; [right|left; reflexivity].
  exists (e_byte up), (sign_bytes sg ++ concat ge). split; [reflexivity|apply is_e_byte].
Qed.

Lemma read_number : forall dI dF (dot : bool) eo,
  forallb is_digit dI = true -> forallb is_digit dF = true -> (dot = false -> dF = []) ->
  dI <> [] \/ dot = true -> exp_ok eo = true ->
  dec_of_string (dI ++ (if dot then 46 :: dF else []) ++ exp_sci eo) =
  Fin false (digits_value (dI ++ dF)) (exp_val eo - Z.of_nat (length dF)).
Proof.
  intros dI dF dot eo HI HF Hdot Hne Heo.
  pose proof (read_mantissa dI dF dot (exp_sci eo) HI HF Hdot (exp_sci_like eo)) as Hm.
  assert (Hhd : exists b t, dI ++ (if dot then 46 :: dF else []) ++ exp_sci eo = b :: t /\
                            (is_digit b = true \/ b = 46)).
  { destruct dI as [|b dI'].
    - destruct Hne as [Hne|Hne]; [congruence|]. subst dot. cbn [app].
      exists 46, (dF ++ exp_sci eo). split; [reflexivity|right; reflexivity].
    - cbn [forallb] in HI. apply andb_true_iff in HI. destruct HI as [Hb _].
      cbn [app]. eexists b, _. split; [reflexivity|left; exact Hb]. }
  destruct Hhd as (b & t & Heq & Hb). rewrite Heq in *.
  rewrite (dec_read b t _ _ _ Hb Hm).
  destruct eo as [[[up sg] ge]|].
  2:{ cbn [exp_sci exp_val]. f_equal; lia. }
  cbn [exp_ok] in Heo. apply andb_true_iff in Heo. destruct Heo as [Hsg Hge].
  cbn [exp_sci exp_val].
  assert (Hsp : sign_split (sign_bytes sg ++ concat ge) =
                (match sg with Some s => s =? 45 | None => false end, concat ge)).
  { destruct sg as [s|].
    - cbn [sign_ok] in Hsg. apply orb_true_iff in Hsg.
      destruct Hsg as [Hs|Hs]; apply Z.eqb_eq in Hs; subst s; reflexivity.
    - cbn [sign_bytes app]. destruct (concat_head ge Hge) as (d & l & -> & Hd).
      apply sign_split_digit. exact Hd. }
  rewrite Hsp. rewrite scan_digits_all by (apply concat_digits; exact Hge).
  fold (digits_value (concat ge)).
  destruct sg as [s|]; [|f_equal; lia].
  destruct (s =? 45); f_equal; lia.
Qed.

Theorem value_read : forall l, lit_wf l = true ->
  dec_of_string (lit_value l) = Fin false (fst (denote l)) (snd (denote l)).
Proof.
  intros l Hwf. destruct (lit_wf_parts l Hwf) as (Hio & Hfo & Heo & Hform).
  unfold lit_value, denote, int_digits, frac_digits, num_value. cbn [fst snd].
  set (io := int_part l) in *. set (fo := frac l) in *. set (eo := exp l) in *.
  assert (HI : forallb is_digit (og_digits io) = true).
  { destruct io as [gs|]; [apply concat_digits; exact Hio|reflexivity]. }
  assert (HF : forallb is_digit (frac_digs fo) = true).
  { destruct fo as [[gs|]|]; [apply concat_digits; exact Hfo|reflexivity|reflexivity]. }
  assert (HIne : io <> None -> og_digits io <> []).
  { destruct io as [gs|]; [|congruence]. intros _. cbn [og_digits].
    destruct (concat_head gs Hio) as (d & l0 & -> & _). discriminate. }
  destruct (og_sep io || frac_sep fo || exp_sep eo) eqn:Esep.
  - (* separators were removed *)
    destruct (frac_digs fo) as [|d dF'] eqn:EF.
    + pose proof (read_number (og_digits io) [] false eo HI eq_refl (fun _ => eq_refl)) as Hr.
      cbn [app length] in Hr. rewrite app_nil_r in *. apply Hr; [|exact Heo].
      left. destruct Hform as [Hi|(g & Hg)]; [apply HIne; exact Hi|].
      exfalso. rewrite Hg in EF, Hfo. cbn [frac_digs og_digits frac_ok og_ok] in EF, Hfo.
      destruct (concat_head g Hfo) as (d & l0 & Hc & _). congruence.
    + rewrite <- EF in *.
      pose proof (read_number (og_digits io) (frac_digs fo) true eo HI HF) as Hr.
      rewrite EF at 1. rewrite <- EF.
      apply Hr; [intros Habs; discriminate Habs|right; reflexivity|exact Heo].
  - (* the raw text is used *)
    apply orb_false_iff in Esep. destruct Esep as [Esep E3].
    apply orb_false_iff in Esep. destruct Esep as [E1 E2].
    assert (RI : og_render io = og_digits io).
    { destruct io as [gs|]; [apply render_nosep; assumption|reflexivity]. }
    assert (RE : exp_render eo = exp_sci eo).
    { destruct eo as [[[up sg] ge]|]; [|reflexivity]. cbn [exp_render exp_sci].
      cbn [exp_ok] in Heo. apply andb_true_iff in Heo. destruct Heo as [_ Hge].
      rewrite (render_nosep ge Hge E3). reflexivity. }
    rewrite RI, RE, <- app_assoc.
    destruct fo as [[g|]|].
    + cbn [frac_render og_render frac_digs og_digits] in *.
      rewrite (render_nosep g Hfo E2).
      apply (read_number (og_digits io) (concat g) true eo HI HF);
        [intros Habs; discriminate Habs|right; reflexivity|exact Heo].
    + cbn [frac_render og_render frac_digs og_digits] in *.
      apply (read_number (og_digits io) [] true eo HI eq_refl);
        [intros Habs; discriminate Habs|right; reflexivity|exact Heo].
    + cbn [frac_render frac_digs] in *.
      apply (read_number (og_digits io) [] false eo HI eq_refl (fun _ => eq_refl)); [|exact Heo].
      left. destruct Hform as [Hi|(g & Hg)]; [apply HIne; exact Hi|discriminate Hg].
Qed.

(* ---------- scan_one on the first character of a literal ---------- *)

Definition number_tok (ss1 : list step) (pos : Z) : token * list step :=
  let '(v, rest, e, ds) := scan_number ss1 pos in (mkTok KNumber v pos pos e false ds, rest).

(* the scanner's test for a hexadecimal literal: "0x" / "0X" with at least one more byte *)
Definition hex_branch (ss1 : list step) : bool :=
  match ss1 with
  | (r, _) :: _ => (r =? 48) && (2 <? steps_len (firstn 3 ss1)) &&
                   rune_sat 1 (fun c => (c =? 120) || (c =? 88)) ss1
  | [] => false
  end.

Lemma scan_one_digit : forall d t pos, is_digit d = true -> hex_branch ((d, [d]) :: t) = false ->
  scan_one ((d, [d]) :: t) pos = number_tok ((d, [d]) :: t) pos.
Proof.
  intros d t pos Hd Hh. apply digit_cases in Hd. destruct Hd as [->|Hd].
  - unfold hex_branch in Hh. cbn [Z.eqb Pos.eqb andb] in Hh.
    unfold scan_one. cbn [skip_trivia]. change (trivia_class 48) with 0.
    cbn [Z.eqb Pos.eqb orb andb]. rewrite Hh. reflexivity.
  - destruct Hd as [->|[->|[->|[->|[->|[->|[->|[->| ->]]]]]]]]; reflexivity.
Qed.

Lemma scan_one_dot : forall t pos, rune_sat 1 is_digit ((46, [46]) :: t) = true ->
  scan_one ((46, [46]) :: t) pos = number_tok ((46, [46]) :: t) pos.
Proof.
  intros t pos H. unfold scan_one. cbn [skip_trivia]. change (trivia_class 46) with 0.
  cbn [Z.eqb Pos.eqb orb andb]. rewrite H. reflexivity.
Qed.

Lemma scan_one_lit : forall l R pos, lit_wf l = true -> hex_branch (asc (render l) ++ R) = false ->
  scan_one (asc (render l) ++ R) pos = number_tok (asc (render l) ++ R) pos.
Proof.
  intros l R pos Hwf Hh. destruct (lit_wf_parts l Hwf) as (Hio & Hfo & _ & Hform).
  unfold render in *. destruct (int_part l) as [gi|].
  - cbn [og_render og_ok] in *. destruct (render_head gi Hio) as (d & l0 & Hr & Hd).
    rewrite Hr in *. cbn [app] in *. rewrite asc_cons in *. cbn [app] in *.
    apply scan_one_digit; assumption.
  - destruct Hform as [Habs|(g & Hg)]; [congruence|]. rewrite Hg in *.
    cbn [og_render frac_render frac_ok og_ok app] in *.
    destruct (render_head g Hfo) as (d & l0 & Hr & Hd). rewrite Hr in *.
    cbn [app] in *. rewrite !asc_cons in *. cbn [app] in *.
    apply scan_one_dot. cbn [rune_sat nth_error]. exact Hd.
Qed.

Lemma lit_byte_not_x : forall c, lit_byte c = true -> (c =? 120) || (c =? 88) = false.
Proof.
  intros c H. assert (Hc : c <> 120 /\ c <> 88).
  { unfold lit_byte in H.
    repeat (apply orb_true_iff in H; destruct H as [H|H]); try (apply Z.eqb_eq in H; lia).
    apply digit_range in H. lia. }
  destruct Hc as [H1 H2]. apply Z.eqb_neq in H1, H2. rewrite H1, H2. reflexivity.
Qed.

Lemma render_nonempty : forall l, lit_wf l = true -> render l <> [].
Proof.
  intros l Hwf. destruct (lit_wf_parts l Hwf) as (Hio & Hfo & _ & Hform).
  unfold render. destruct (int_part l) as [gi|].
  - cbn [og_render og_ok] in *. destruct (render_head gi Hio) as (d & l0 & -> & _). discriminate.
  - destruct Hform as [Habs|(g & ->)]; [congruence|]. discriminate.
Qed.

(* the hexadecimal branch is only ever taken for the literal "0" followed by x / X *)
Lemma hex_branch_lit : forall l R, lit_wf l = true -> hex_branch (asc (render l) ++ R) = true ->
  render l = [48] /\ exists r bs R', R = (r, bs) :: R' /\ (r =? 120) || (r =? 88) = true.
Proof.
  intros l R Hwf H. pose proof (render_bytes l Hwf) as Hb. pose proof (render_nonempty l Hwf) as Hne.
  destruct (render l) as [|d [|c rl]]; [congruence| |].
  - cbn [asc map app hex_branch] in H.
    apply andb_true_iff in H. destruct H as [H Hx].
    apply andb_true_iff in H. destruct H as [Hd _]. apply Z.eqb_eq in Hd. subst d.
    split; [reflexivity|]. destruct R as [|[r bs] R']; [discriminate Hx|].
    exists r, bs, R'. split; [reflexivity|exact Hx].
  - exfalso. cbn [forallb] in Hb. apply andb_true_iff in Hb. destruct Hb as [_ Hb].
    apply andb_true_iff in Hb. destruct Hb as [Hc _].
    cbn [asc map app hex_branch] in H. apply andb_true_iff in H. destruct H as [_ Hx].
    cbn [rune_sat nth_error] in Hx. rewrite (lit_byte_not_x c Hc) in Hx. discriminate Hx.
Qed.

(* ---------- C12: every well-formed literal is one number token with the denoted value ---------- *)

Lemma no_continuation_facts : forall l rest, no_continuation l rest = true ->
  tail_ok (has_frac l) (has_exp l) (decode_all rest) = true /\
  (forall p ds, ident_diag (decode_all rest) p ds = ds) /\
  match decode_all rest with (r, _) :: _ => is_ident_start r = false | [] => True end.
Proof.
  intros l rest H. unfold no_continuation in H.
  destruct (decode_all rest) as [|[r bs] R']; [repeat split|].
  apply andb_true_iff in H. destruct H as [H Hdot].
  apply andb_true_iff in H. destruct H as [Hid Hdig]. apply negb_true_iff in Hid.
  assert (H95 : (r =? 95) = false).
  { destruct (r =? 95) eqn:E; [|reflexivity]. apply Z.eqb_eq in E. subst r. discriminate Hid. }
  assert (He : is_e r = false).
  { destruct (is_e r) eqn:E; [|reflexivity]. unfold is_e in E. apply orb_true_iff in E.
    destruct E as [E|E]; apply Z.eqb_eq in E; subst r; discriminate Hid. }
  split; [|split].
  - cbn [tail_ok]. rewrite H95, Hdig, Hdot, He. cbn [negb andb]. apply orb_true_r.
  - intros p ds. cbn [ident_diag]. rewrite Hid. reflexivity.
  - exact Hid.
Qed.

Theorem literal_scans : forall l rest pos, lit_wf l = true -> no_continuation l rest = true ->
  exists tok,
    scan_one (decode_all (render l ++ rest)) pos = (tok, decode_all rest) /\
    tk tok = KNumber /\ tdiags tok = [] /\
    tpos tok = pos /\ tend tok = pos + blen (render l) /\
    dec_of_string (tval tok) = Fin false (fst (denote l)) (snd (denote l)).
Proof.
  intros l rest pos Hwf Hnc.
  destruct (no_continuation_facts l rest Hnc) as (Htail & Hid & Hhd).
  rewrite decode_render by exact Hwf.
  assert (Hh : hex_branch (asc (render l) ++ decode_all rest) = false).
  { destruct (hex_branch (asc (render l) ++ decode_all rest)) eqn:E; [|reflexivity]. exfalso.
    destruct (hex_branch_lit l _ Hwf E) as (_ & r & bs & R' & HR & Hx).
    rewrite HR in Hhd. apply orb_true_iff in Hx.
    destruct Hx as [Hx|Hx]; apply Z.eqb_eq in Hx; subst r; discriminate Hhd. }
  rewrite (scan_one_lit l _ pos Hwf Hh). unfold number_tok.
  rewrite (scan_number_lit l _ pos Hwf Htail). rewrite Hid.
  eexists. split; [reflexivity|]. cbn [tk tdiags tpos tend tval].
  repeat (split; [reflexivity|]). apply value_read. exact Hwf.
Qed.

(* 1_0.5_0e+1_2 followed by " x" *)
Example literal_scans_instance :
  let l := mkLit (Some [[49]; [48]]) (Some (Some [[53]; [48]])) (Some (false, Some 43, [[49]; [50]])) in
  lit_wf l = true /\ no_continuation l [32; 120] = true /\
  render l = [49; 95; 48; 46; 53; 95; 48; 101; 43; 49; 95; 50] /\ denote l = (1050, 10).
Proof. vm_compute. repeat split; reflexivity. Qed.

(* ---------- leading zeros ---------- *)

Lemma digits_value_zeros : forall n ds, digits_value (repeat 48 n ++ ds) = digits_value ds.
Proof.
  intros n ds. unfold digits_value. rewrite fold_left_app.
  replace (fold_left dstep (repeat 48 n) 0) with 0; [reflexivity|].
  induction n as [|n IH]; [reflexivity|]. cbn [repeat fold_left]. exact IH.
Qed.

Theorem leading_zeros_insignificant : forall l l' n,
  frac l' = frac l -> exp l' = exp l -> int_digits l' = repeat 48 n ++ int_digits l ->
  denote l' = denote l.
Proof.
  intros l l' n Hf He Hi. unfold denote, frac_digits. rewrite Hf, He, Hi, <- app_assoc.
  rewrite digits_value_zeros. reflexivity.
Qed.

Lemma group_ok_digits : forall g, group_ok g = true -> forallb is_digit g = true.
Proof. intros [|d g] H; [discriminate H|exact H]. Qed.

Lemma group_ok_zeros : forall n g, group_ok g = true -> group_ok (repeat 48 n ++ g) = true.
Proof.
  induction n as [|n IH]; intros g H; [exact H|].
  cbn [repeat app]. unfold group_ok. cbn [forallb].
  rewrite (group_ok_digits _ (IH g H)). reflexivity.
Qed.

(* prepending zeros to the first digit group keeps the literal well-formed and its denotation *)
Theorem leading_zeros_instance : forall n g gs fo eo,
  let l := mkLit (Some (g :: gs)) fo eo in
  let l' := mkLit (Some ((repeat 48 n ++ g) :: gs)) fo eo in
  lit_wf l = true -> lit_wf l' = true /\ denote l' = denote l.
Proof.
  intros n g gs fo eo l l' Hwf. subst l l'. split.
  - unfold lit_wf in *. cbn [int_part frac exp og_ok] in *.
    apply andb_true_iff in Hwf. destruct Hwf as [Hwf He].
    apply andb_true_iff in Hwf. destruct Hwf as [Hwf Hf].
    apply andb_true_iff in Hwf. destruct Hwf as [_ Hi].
    rewrite Hf, He. cbn [andb]. rewrite !andb_true_r.
    unfold groups_ok in *. cbn [forallb] in *.
    apply andb_true_iff in Hi. destruct Hi as [Hg Hgs].
    rewrite (group_ok_zeros n g Hg), Hgs. reflexivity.
  - apply (leading_zeros_insignificant _ _ n); [reflexivity|reflexivity|].
    unfold int_digits. cbn [int_part og_digits concat]. rewrite app_assoc. reflexivity.
Qed.

(* ---------- rejections ---------- *)

Lemma ident_start_not_digit : forall r, is_ident_start r = true -> is_digit r = false.
Proof.
  intros r H. destruct (is_digit r) eqn:E; [|reflexivity]. apply digit_cases in E.
  destruct E as [->|[->|[->|[->|[->|[->|[->|[->|[->| ->]]]]]]]]]; discriminate H.
Qed.

(* a literal directly followed by an identifier character that cannot continue it *)
Theorem ident_after_literal_rejected_partial : forall l rest pos r bs R',
  lit_wf l = true -> decode_all rest = (r, bs) :: R' ->
  is_ident_start r = true -> r <> 95 -> has_exp l || negb (is_e r) = true ->
  hex_branch (decode_all (render l ++ rest)) = false ->
  exists tok n,
    scan_one (decode_all (render l ++ rest)) pos = (tok, decode_all rest) /\
    tk tok = KNumber /\
    tdiags tok = [(pos + blen (render l), n, C_Identifier_after_number)].
Proof.
  intros l rest pos r bs R' Hwf HR Hid H95 He Hh.
  rewrite decode_render in * by exact Hwf.
  rewrite HR in Hh |- *.
  assert (Htail : tail_ok (has_frac l) (has_exp l) ((r, bs) :: R') = true).
  { cbn [tail_ok]. apply Z.eqb_neq in H95. rewrite H95, (ident_start_not_digit r Hid), He.
    assert (H46 : (r =? 46) = false).
    { destruct (r =? 46) eqn:E; [|reflexivity]. apply Z.eqb_eq in E. subst r. discriminate Hid. }
    rewrite H46. cbn [negb andb]. rewrite !orb_true_r. reflexivity. }
  rewrite (scan_one_lit l _ pos Hwf Hh). unfold number_tok.
  rewrite (scan_number_lit l _ pos Hwf Htail).
  cbn [ident_diag]. rewrite Hid.
  destruct (ident_run ((r, bs) :: R') (pos + blen (render l)) []) as [[run a] b].
  eexists. exists (blen run). split; [reflexivity|]. split; reflexivity.
Qed.

(* Full statement asked for:
     forall l rest pos, lit_wf l = true -> (the first character of rest is an identifier start
     other than '_' and other than an 'e'/'E' that starts the exponent) -> tdiags tok <> [].
   It is false of the model: "0" followed by "xA" is scanned by the hexadecimal branch into one
   number token without any diagnostic.  The token is not a silently wrong number, though: its
   value is "10", the decimal spelling of the hexadecimal integer A, which the decimal library
   reads as exactly 10 (hex_literal_value below: this holds for every hexadecimal literal). *)
Theorem ident_after_literal_rejected_refuted : exists l rest,
  lit_wf l = true /\
  (exists r bs R', decode_all rest = (r, bs) :: R' /\ is_ident_start r = true /\ r <> 95 /\ is_e r = false) /\
  let tok := fst (scan_one (decode_all (render l ++ rest)) 0) in
  tk tok = KNumber /\ tdiags tok = [] /\ tend tok = 3 /\ tval tok = [49; 48] /\
  dec_of_string (tval tok) = Fin false 10 0.
Proof.
  exists (mkLit (Some [[48]]) None None), [120; 65]. split; [reflexivity|]. split.
  - exists 120, [120], [(65, [65])]. split; [reflexivity|]. split; [reflexivity|]. split; [lia|reflexivity].
  - vm_compute. repeat split; reflexivity.
Qed.

(* ---------- hexadecimal literals: 0x / 0X and at least one hexadecimal digit ---------- *)

(* the decimal spelling of a non-negative integer is read back as that integer *)
Lemma dec_digits_digits_of : forall c, dec_digits c = digits_of c.
Proof. reflexivity. Qed.

Lemma dec_digits_facts : forall c, 0 <= c ->
  forallb is_digit (dec_digits c) = true /\ digits_value (dec_digits c) = c /\ dec_digits c <> [].
Proof.
  intros c Hc. rewrite dec_digits_digits_of. exact (BuiltinNumFacts.digits_of_spec c Hc).
Qed.

Theorem dec_digits_spec : forall c, 0 <= c -> scan_digits (dec_digits c) 0 = Some c.
Proof.
  intros c Hc. rewrite dec_digits_digits_of. exact (BuiltinNumFacts.digits_of_scan c Hc).
Qed.

(* a non-empty string of digits is read as the integer written, with exponent 0 *)
Lemma dec_of_string_digits : forall ds, ds <> [] -> forallb is_digit ds = true ->
  dec_of_string ds = Fin false (digits_value ds) 0.
Proof.
  intros ds Hne Hd.
  pose proof (read_number ds [] false None Hd eq_refl (fun _ => eq_refl) (or_introl Hne) eq_refl) as H.
  cbn [exp_sci exp_val length Z.of_nat app] in H. rewrite !app_nil_r in H. exact H.
Qed.

Theorem dec_of_string_dec_digits : forall c, 0 <= c -> dec_of_string (dec_digits c) = Fin false c 0.
Proof.
  intros c Hc. destruct (dec_digits_facts c Hc) as (Hd & Hv & Hne).
  rewrite (dec_of_string_digits _ Hne Hd), Hv. reflexivity.
Qed.

Lemma hex_digit_range : forall d, is_hex_digit d = true ->
  48 <= d <= 57 \/ 97 <= d <= 102 \/ 65 <= d <= 70.
Proof.
  intros d H. unfold is_hex_digit in H. apply orb_true_iff in H. destruct H as [H|H].
  - apply orb_true_iff in H. destruct H as [H|H].
    + apply digit_range in H. lia.
    + apply andb_true_iff in H. destruct H as [H1 H2]. apply Z.leb_le in H1, H2. lia.
  - apply andb_true_iff in H. destruct H as [H1 H2]. apply Z.leb_le in H1, H2. lia.
Qed.

Lemma hex_val_lower_range : forall d, is_hex_digit d = true -> 0 <= hex_val (hex_lower d) <= 15.
Proof.
  intros d H. apply hex_digit_range in H.
  assert (E : d = 48 \/ d = 49 \/ d = 50 \/ d = 51 \/ d = 52 \/ d = 53 \/ d = 54 \/ d = 55 \/
              d = 56 \/ d = 57 \/ d = 97 \/ d = 98 \/ d = 99 \/ d = 100 \/ d = 101 \/ d = 102 \/
              d = 65 \/ d = 66 \/ d = 67 \/ d = 68 \/ d = 69 \/ d = 70) by lia.
  clear H. repeat (destruct E as [E|E]; [subst d; vm_compute; split; discriminate|]).
  subst d. vm_compute. split; discriminate.
Qed.

Lemma hex_value_acc_nonneg : forall hv acc, forallb is_hex_digit hv = true -> 0 <= acc ->
  0 <= fold_left (fun a d => a * 16 + hex_val d) (map hex_lower hv) acc.
Proof.
  induction hv as [|d hv IH]; intros acc H Hacc; [exact Hacc|].
  cbn [forallb] in H. apply andb_true_iff in H. destruct H as [Hd Hhv].
  cbn [map fold_left]. apply IH; [exact Hhv|].
  pose proof (hex_val_lower_range d Hd). lia.
Qed.

Lemma hex_value_nonneg : forall hv, forallb is_hex_digit hv = true -> 0 <= hex_value (map hex_lower hv).
Proof. intros hv H. unfold hex_value. apply hex_value_acc_nonneg; [exact H|lia]. Qed.

(* what ends the run of hexadecimal digits: the end of the input or a non-hexadecimal character *)
Definition hex_stop (t : list step) : bool :=
  match t with [] => true | (r, _) :: _ => negb (is_hex_digit r) end.

Lemma hex_run_digits : forall hv t pos acc, forallb is_hex_digit hv = true -> hex_stop t = true ->
  hex_run (asc hv ++ t) pos acc = (acc ++ map hex_lower hv, t, pos + blen hv).
Proof.
  induction hv as [|d hv IH]; intros t pos acc H Ht.
  - cbn [asc map app]. rewrite app_nil_r, blen_nil, Z.add_0_r.
    destruct t as [|[r bs] t']; [reflexivity|].
    cbn [hex_stop] in Ht. apply negb_true_iff in Ht. cbn [hex_run]. rewrite Ht. reflexivity.
  - cbn [forallb] in H. apply andb_true_iff in H. destruct H as [Hd Hhv].
    rewrite asc_cons. cbn [app hex_run]. rewrite Hd. change (blen [d]) with 1.
    rewrite (IH t (pos + 1) (acc ++ [hex_lower d]) Hhv Ht).
    rewrite <- app_assoc. cbn [app map]. rewrite (blen_cons d hv), Z.add_assoc. reflexivity.
Qed.

Lemma hex_digits_ascii : forall hv, forallb is_hex_digit hv = true -> Forall (fun b => 0 <= b < 128) hv.
Proof.
  induction hv as [|d hv IH]; intros H; [constructor|].
  cbn [forallb] in H. apply andb_true_iff in H. destruct H as [Hd Hhv].
  constructor; [apply hex_digit_range in Hd; lia|apply IH, Hhv].
Qed.

(* scan_one on 0, x / X and one more one-byte character: the hexadecimal branch *)
Lemma scan_one_hex : forall x h t pos, (x =? 120) || (x =? 88) = true ->
  scan_one ((48, [48]) :: (x, [x]) :: (h, [h]) :: t) pos =
  let '(hv, rest, e) := hex_run ((h, [h]) :: t) (pos + 2) [] in
  match hv with
  | [] => (mkTok KNumber [48] pos pos e false [(e, 0, C_Hexadecimal_digit_expected)], rest)
  | _ => (mkTok KNumber (hex_value_digits hv) pos pos e false [], rest)
  end.
Proof.
  intros x h t pos Hx.
  unfold scan_one. cbn [skip_trivia]. change (trivia_class 48) with 0.
  cbn [Z.eqb Pos.eqb orb andb].
  match goal with |- (if ?c then _ else _) = _ =>
    assert (Hh : c = true) by (cbn [rune_sat nth_error]; rewrite Hx; reflexivity); rewrite Hh
  end.
  reflexivity.
Qed.

(* A hexadecimal literal denotes exactly the integer written: "0x" or "0X", a non-empty run of
   hexadecimal digits of any length and either case, followed by the end of the input or by
   anything that is not a hexadecimal digit, is one number token covering exactly that text,
   without diagnostics, whose value the decimal library reads as the integer [hex_value] of
   the (lower-cased) digits with exponent 0. *)
Theorem hex_literal_value : forall x hv rest pos,
  (x =? 120) || (x =? 88) = true -> hv <> [] -> forallb is_hex_digit hv = true ->
  hex_stop (decode_all rest) = true ->
  exists tok,
    scan_one (decode_all (48 :: x :: hv ++ rest)) pos = (tok, decode_all rest) /\
    tk tok = KNumber /\ tdiags tok = [] /\
    tpos tok = pos /\ tend tok = pos + 2 + blen hv /\
    tval tok = dec_digits (hex_value (map hex_lower hv)) /\
    dec_of_string (tval tok) = Fin false (hex_value (map hex_lower hv)) 0.
Proof.
  intros x hv rest pos Hx Hne Hhv Hstop.
  assert (Hxa : 0 <= x < 128).
  { apply orb_true_iff in Hx. destruct Hx as [Hx|Hx]; apply Z.eqb_eq in Hx; lia. }
  change (48 :: x :: hv ++ rest) with ((48 :: x :: hv) ++ rest).
  rewrite decode_all_asc
    by (constructor; [lia|constructor; [exact Hxa|apply hex_digits_ascii; exact Hhv]]).
  rewrite !asc_cons. cbn [app].
  destruct hv as [|h hv']; [congruence|].
  rewrite asc_cons. cbn [app]. rewrite (scan_one_hex x h _ pos Hx).
  change ((h, [h]) :: asc hv' ++ decode_all rest) with (asc (h :: hv') ++ decode_all rest).
  rewrite (hex_run_digits (h :: hv') (decode_all rest) (pos + 2) [] Hhv Hstop).
  cbn [app]. cbn [map].
  eexists. split; [reflexivity|]. cbn [tk tdiags tpos tend tval].
  repeat (split; [reflexivity|]).
  apply dec_of_string_dec_digits. apply (hex_value_nonneg (h :: hv')). exact Hhv.
Qed.

(* "0x1F" followed by ")" is read as 31, "0XfF" at the end of the input as 255 *)
Example hex_literal_value_instances :
  ((120 =? 120) || (120 =? 88) = true /\ [49; 70] <> [] /\ forallb is_hex_digit [49; 70] = true /\
   hex_stop (decode_all [41]) = true /\ hex_value (map hex_lower [49; 70]) = 31) /\
  ((88 =? 120) || (88 =? 88) = true /\ [102; 70] <> [] /\ forallb is_hex_digit [102; 70] = true /\
   hex_stop (decode_all []) = true /\ hex_value (map hex_lower [102; 70]) = 255).
Proof. repeat split; try reflexivity; discriminate. Qed.

Definition nosign (t : list step) : bool :=
  match t with [] => true | (r, _) :: _ => negb (is_sign r) end.

Lemma ident_diag_in : forall ss p ds d, In d ds -> In d (ident_diag ss p ds).
Proof.
  intros ss p ds d Hd. unfold ident_diag. destruct ss as [|[r0 b0] s0]; [exact Hd|].
  destruct (is_ident_start r0); [|exact Hd].
  destruct (ident_run _ _ _) as [[run a] b]. apply in_or_app. left. exact Hd.
Qed.

Lemma ident_diag_nonempty : forall ss p ds, ds <> [] -> ident_diag ss p ds <> [].
Proof.
  intros ss p ds H. destruct ds as [|d ds]; [congruence|].
  intros Habs. pose proof (ident_diag_in ss p (d :: ds) d (or_introl eq_refl)) as Hin.
  rewrite Habs in Hin. exact Hin.
Qed.

(* a literal without exponent, then 'e' [sign], then the steps T: the token is determined by
   what the fragment scanner makes of T *)
Lemma exp_tail_scan : forall l eb sg T pos fin ss3 p3 d3 sep3,
  lit_wf l = true -> exp l = None -> is_e eb = true -> sign_ok sg = true ->
  (sg = None -> nosign T = true) ->
  fragment T (pos + blen (render l) + 1 + blen (sign_bytes sg)) = (fin, ss3, p3, d3, sep3) ->
  exists v,
    scan_one (asc (render l) ++ asc (eb :: sign_bytes sg) ++ T) pos =
    (mkTok KNumber v pos pos p3 false
       (ident_diag ss3 p3 (match fin with [] => d3 ++ [(p3, 0, C_Digit_expected)] | _ => d3 end)),
     ss3).
Proof.
  intros l eb sg T pos fin ss3 p3 d3 sep3 Hwf Hexp He Hsg Hns Hfr.
  destruct (lit_wf_parts l Hwf) as (Hio & Hfo & _ & _).
  set (Y := asc (eb :: sign_bytes sg) ++ T).
  assert (Heb : eb = 101 \/ eb = 69).
  { unfold is_e in He. apply orb_true_iff in He. destruct He as [H|H]; apply Z.eqb_eq in H; lia. }
  assert (Hh : hex_branch (asc (render l) ++ Y) = false).
  { destruct (hex_branch (asc (render l) ++ Y)) eqn:E; [|reflexivity]. exfalso.
    destruct (hex_branch_lit l _ Hwf E) as (_ & r & bs & R' & HR & Hx).
    unfold Y in HR. rewrite asc_cons in HR. cbn [app] in HR. injection HR as Hr _ _. subst r.
    destruct Heb as [-> | ->]; discriminate Hx. }
  rewrite (scan_one_lit l _ pos Hwf Hh). unfold number_tok.
  assert (Hrender : render l = og_render (int_part l) ++ frac_render (frac l)).
  { unfold render. rewrite Hexp. cbn [exp_render]. rewrite app_nil_r. reflexivity. }
  assert (HstopY : stop Y = true) by (unfold Y; rewrite asc_cons; destruct Heb as [-> | ->]; reflexivity).
  assert (HnodotY : nodot Y = true) by (unfold Y; rewrite asc_cons; destruct Heb as [-> | ->]; reflexivity).
  assert (Hc1 : stop (asc (frac_render (frac l)) ++ Y) = true).
  { destruct (frac l) as [o|]; [reflexivity|exact HstopY]. }
  assert (Hc2 : match frac l with Some _ => stop Y | None => nodot Y end = true).
  { destruct (frac l); assumption. }
  assert (Hsel : forall p, sign_sel [eb] (asc (sign_bytes sg) ++ T) (p + 1) =
                           (eb :: sign_bytes sg, T, p + 1 + blen (sign_bytes sg))).
  { intros p. destruct sg as [s|].
    - cbn [sign_bytes asc map app sign_sel]. assert (Hs : is_sign s = true) by exact Hsg.
      rewrite Hs. reflexivity.
    - cbn [sign_bytes asc map app]. rewrite blen_nil, Z.add_0_r.
      specialize (Hns eq_refl). destruct T as [|[r2 bs2] T2]; [reflexivity|].
      cbn [nosign] in Hns. apply negb_true_iff in Hns. cbn [sign_sel]. rewrite Hns. reflexivity. }
  rewrite Hrender in *.
  assert (H3 : exists sci raw, exp_part Y (pos + blen (og_render (int_part l) ++ frac_render (frac l))) =
     (sci, raw, ss3, p3, match fin with [] => d3 ++ [(p3, 0, C_Digit_expected)] | _ => d3 end, sep3)).
  { unfold Y. rewrite asc_cons. cbn [app].
    rewrite (exp_part_core eb _ _ _ _ _ _ _ _ _ _ He (Hsel _) Hfr).
    destruct fin; eexists; eexists; reflexivity. }
  destruct H3 as (sci & raw & H3).
  rewrite (scan_number_12 _ _ Y pos _ _ _ _ _ _ Hio Hfo Hc1 Hc2 H3).
  eexists. reflexivity.
Qed.

Lemma decode_lit_e : forall l eb sg tl, lit_wf l = true -> is_e eb = true -> sign_ok sg = true ->
  decode_all (render l ++ eb :: sign_bytes sg ++ tl) =
  asc (render l) ++ asc (eb :: sign_bytes sg) ++ decode_all tl.
Proof.
  intros l eb sg tl Hwf He Hsg.
  assert (Heb : eb = 101 \/ eb = 69).
  { unfold is_e in He. apply orb_true_iff in He. destruct He as [H|H]; apply Z.eqb_eq in H; lia. }
  replace (render l ++ eb :: sign_bytes sg ++ tl) with ((render l ++ eb :: sign_bytes sg) ++ tl)
    by (rewrite <- app_assoc; reflexivity).
  rewrite decode_all_asc.
  - rewrite asc_app, <- app_assoc. reflexivity.
  - apply Forall_app. split; [apply forallb_Forall_ascii, render_bytes, Hwf|].
    constructor; [destruct Heb; lia|].
    destruct sg as [s|]; [|constructor]. cbn [sign_ok] in Hsg. apply orb_true_iff in Hsg.
    constructor; [|constructor]. destruct Hsg as [H|H]; apply Z.eqb_eq in H; lia.
Qed.

(* digits 'e' [sign] and then neither a digit nor a separator *)
Theorem exponent_without_digits_rejected : forall l eb sg rest pos,
  lit_wf l = true -> exp l = None -> is_e eb = true -> sign_ok sg = true ->
  stop (decode_all rest) = true ->
  (sg = None -> nosign (decode_all rest) = true) ->
  exists tok,
    scan_one (decode_all (render l ++ eb :: sign_bytes sg ++ rest)) pos = (tok, decode_all rest) /\
    tk tok = KNumber /\
    In (pos + blen (render l) + 1 + blen (sign_bytes sg), 0, C_Digit_expected) (tdiags tok).
Proof.
  intros l eb sg rest pos Hwf Hexp He Hsg Hstop Hns.
  rewrite decode_lit_e by assumption.
  assert (Hfr : fragment (decode_all rest) (pos + blen (render l) + 1 + blen (sign_bytes sg)) =
                ([], decode_all rest, pos + blen (render l) + 1 + blen (sign_bytes sg), [], false)).
  { unfold fragment. apply scan_frag_stop. exact Hstop. }
  destruct (exp_tail_scan l eb sg _ pos _ _ _ _ _ Hwf Hexp He Hsg Hns Hfr) as (v & Hs).
  rewrite Hs. eexists. split; [reflexivity|]. split; [reflexivity|]. cbn [tdiags].
  apply ident_diag_in. left. reflexivity.
Qed.

(* "12.5e" at the end of the input, and "7E-" followed by ")" *)
Example exponent_without_digits_instances :
  let l1 := mkLit (Some [[49; 50]]) (Some (Some [[53]])) None in
  let l2 := mkLit (Some [[55]]) None None in
  (lit_wf l1 = true /\ exp l1 = None /\ is_e 101 = true /\ sign_ok None = true /\
   stop (decode_all []) = true /\ nosign (decode_all []) = true) /\
  (lit_wf l2 = true /\ exp l2 = None /\ is_e 69 = true /\ sign_ok (Some 45) = true /\
   stop (decode_all [41]) = true).
Proof. vm_compute. repeat split; reflexivity. Qed.

(* ---------- separators ---------- *)

Definition frag_ds (x : list Z * list step * Z * list diag * bool) : list diag := snd (fst x).

(* diagnostics are only ever added *)
Lemma scan_frag_mono : forall ss pos al ip us acc ds sep,
  exists x, frag_ds (scan_frag ss pos al ip us acc ds sep) = ds ++ x.
Proof.
  induction ss as [|[r bs] t IH]; intros pos al ip us acc ds sep.
  - cbn [scan_frag]. unfold frag_ds. cbn [fst snd].
    destruct ip; [eexists; reflexivity|exists []; rewrite app_nil_r; reflexivity].
  - cbn [scan_frag]. destruct (r =? 95).
    + match goal with |- context [scan_frag t ?a ?b ?c ?d ?e ?f ?g] =>
        destruct (IH a b c d e f g) as [x Hx] end.
      rewrite Hx. destruct al; [exists x; reflexivity|].
      destruct ip; rewrite <- app_assoc; eexists; reflexivity.
    + destruct (is_digit r); [apply IH|].
      unfold frag_ds. cbn [fst snd].
      destruct ip; [eexists; reflexivity|exists []; rewrite app_nil_r; reflexivity].
Qed.

Lemma fragbyte_cases : forall b, fragbyte b = true -> is_digit b = true \/ b = 95.
Proof.
  intros b H. unfold fragbyte in H. apply orb_true_iff in H.
  destruct H as [H|H]; [left; exact H|right; apply Z.eqb_eq in H; exact H].
Qed.

(* scanning a prefix of digits and separators leads to some state with at least the same
   diagnostics *)
Lemma scan_frag_prefix : forall m, forallb fragbyte m = true ->
  forall t pos al ip us acc ds sep,
  exists pos' al' ip' us' acc' x sep',
    scan_frag (asc m ++ t) pos al ip us acc ds sep = scan_frag t pos' al' ip' us' acc' (ds ++ x) sep'.
Proof.
  induction m as [|b m IH]; intros Hm t pos al ip us acc ds sep.
  { exists pos, al, ip, us, acc, [], sep. rewrite app_nil_r. reflexivity. }
  cbn [forallb] in Hm. apply andb_true_iff in Hm. destruct Hm as [Hb Hm].
  rewrite asc_cons. cbn [app].
  destruct (fragbyte_cases b Hb) as [Hd| ->].
  - rewrite scan_frag_digit by exact Hd. apply IH. exact Hm.
  - rewrite scan_frag_underscore.
    match goal with |- context [scan_frag (asc m ++ t) ?a ?b ?c ?d ?e ?f ?g] =>
      destruct (IH Hm t a b c d e f g) as (pos' & al' & ip' & us' & acc' & x & sep' & Hx) end.
    rewrite Hx. destruct al.
    + exists pos', al', ip', us', acc', x, sep'. reflexivity.
    + destruct ip; rewrite <- app_assoc; eexists pos', al', ip', us', acc', _, sep'; reflexivity.
Qed.

Lemma app_nonnil_l : forall (A : Type) (a b : list A), a <> [] -> a ++ b <> [].
Proof. intros A a b H Habs. apply app_eq_nil in Habs. destruct Habs as [Ha _]. contradiction. Qed.

Lemma snoc_nonnil : forall (A : Type) (a : list A) (x : A), a ++ [x] <> [].
Proof. intros A a x Habs. apply app_eq_nil in Habs. destruct Habs as [_ Hx]. discriminate Hx. Qed.

(* a separator at the start of a fragment:  _5  after a dot or an 'e' *)
Theorem separator_at_start_rejected : forall m t pos,
  frag_ds (fragment (asc (95 :: m) ++ t) pos) <> [].
Proof.
  intros m t pos. unfold fragment. rewrite asc_cons. cbn [app]. rewrite scan_frag_underscore.
  match goal with |- context [scan_frag ?ss ?a ?b ?c ?d ?e ?f ?g] =>
    destruct (scan_frag_mono ss a b c d e f g) as [x Hx] end.
  rewrite Hx. apply app_nonnil_l. discriminate.
Qed.

(* two separators in a row *)
Theorem doubled_separator_rejected : forall a b t pos, forallb fragbyte a = true ->
  frag_ds (fragment (asc (a ++ 95 :: 95 :: b) ++ t) pos) <> [].
Proof.
  intros a b t pos Ha. unfold fragment. rewrite asc_app, <- app_assoc.
  destruct (scan_frag_prefix a Ha (asc (95 :: 95 :: b) ++ t) pos false false 0 [] [] false)
    as (pos' & al' & ip' & us' & acc' & x & sep' & Hx).
  rewrite Hx. rewrite !asc_cons. cbn [app]. rewrite !scan_frag_underscore.
  match goal with |- context [scan_frag ?ss ?a ?b ?c ?d ?e ?f ?g] =>
    destruct (scan_frag_mono ss a b c d e f g) as [y Hy] end.
  rewrite Hy. apply app_nonnil_l.
  destruct (if al' then true else ip'); apply snoc_nonnil.
Qed.

(* a separator at the end of a fragment:  1_  followed by something that is not a digit *)
Theorem trailing_separator_rejected : forall a t pos, forallb fragbyte a = true -> stop t = true ->
  frag_ds (fragment (asc (a ++ [95]) ++ t) pos) <> [].
Proof.
  intros a t pos Ha Ht. unfold fragment. rewrite asc_app, <- app_assoc.
  destruct (scan_frag_prefix a Ha (asc [95] ++ t) pos false false 0 [] [] false)
    as (pos' & al' & ip' & us' & acc' & x & sep' & Hx).
  rewrite Hx. cbn [asc map app]. rewrite scan_frag_underscore.
  rewrite scan_frag_stop by exact Ht. unfold frag_ds. cbn [fst snd].
  destruct al'.
  - apply snoc_nonnil.
  - destruct ip'; [apply snoc_nonnil|apply snoc_nonnil].
Qed.

(* groups whose first group may be empty: what may follow a digit inside a fragment *)
Definition wgroups_ok (gs : groups) : bool :=
  match gs with [] => false | g :: t => forallb is_digit g && forallb group_ok t end.

Lemma frag_clean_inv : forall m, forallb fragbyte m = true -> forall t, stop t = true ->
  forall pos al ip us acc ds sep,
  frag_ds (scan_frag (asc m ++ t) pos al ip us acc ds sep) = [] ->
  ds = [] /\
  ((m = [] /\ (al = true \/ ip = false)) \/
   exists gs, m = render_groups gs /\ (if al then wgroups_ok gs else groups_ok gs) = true).
Proof.
  induction m as [|b m IH]; intros Hm t Ht pos al ip us acc ds sep H.
  { cbn [asc map app] in H. rewrite scan_frag_stop in H by exact Ht.
    unfold frag_ds in H. cbn [fst snd] in H. destruct ip.
    - exfalso. exact (snoc_nonnil _ _ _ H).
    - split; [exact H|]. left. split; [reflexivity|right; reflexivity]. }
  cbn [forallb] in Hm. apply andb_true_iff in Hm. destruct Hm as [Hb Hm].
  rewrite asc_cons in H. cbn [app] in H.
  destruct (fragbyte_cases b Hb) as [Hd| ->].
  - rewrite scan_frag_digit in H by exact Hd.
    destruct (IH Hm t Ht _ _ _ _ _ _ _ H) as [Hds Hcase]. split; [exact Hds|]. right.
    destruct Hcase as [[-> _]|(gs & -> & Hgs)].
    + exists [[b]]. split; [reflexivity|].
      unfold wgroups_ok, groups_ok, group_ok. cbn [forallb]. rewrite Hd. destruct al; reflexivity.
    + destruct gs as [|g gs]; [discriminate Hgs|]. exists ((b :: g) :: gs).
      split; [destruct gs; reflexivity|].
      cbn [wgroups_ok] in Hgs. apply andb_true_iff in Hgs. destruct Hgs as [Hg Hrest].
      assert (Hok : groups_ok ((b :: g) :: gs) = true).
      { unfold groups_ok. cbn [forallb]. unfold group_ok at 1. cbn [forallb]. rewrite Hd, Hg, Hrest. reflexivity. }
      destruct al; [|exact Hok].
      cbn [wgroups_ok forallb]. rewrite Hd, Hg, Hrest. reflexivity.
  - rewrite scan_frag_underscore in H.
    destruct (IH Hm t Ht _ _ _ _ _ _ _ H) as [Hds Hcase].
    destruct al.
    2:{ exfalso. destruct ip; exact (snoc_nonnil _ _ _ Hds). }
    split; [exact Hds|]. right.
    destruct Hcase as [[_ [Habs|Habs]]|(gs & -> & Hgs)]; [discriminate Habs|discriminate Habs|].
    exists ([] :: gs). split.
    + destruct gs as [|g gs]; [discriminate Hgs|]. reflexivity.
    + cbn [wgroups_ok forallb andb]. destruct gs as [|g gs]; [discriminate Hgs|exact Hgs].
Qed.

(* C12, separators: a sequence of digits and underscores is scanned without a diagnostic
   exactly when it is empty or the rendering of a digit-group sequence *)
Theorem fragment_diags_iff : forall m t pos, forallb fragbyte m = true -> stop t = true ->
  (frag_ds (fragment (asc m ++ t) pos) = [] <->
   m = [] \/ exists gs, groups_ok gs = true /\ m = render_groups gs).
Proof.
  intros m t pos Hm Ht. split.
  - intros H. unfold fragment in H.
    destruct (frag_clean_inv m Hm t Ht _ _ _ _ _ _ _ H) as [_ [[-> _]|(gs & -> & Hgs)]].
    + left. reflexivity.
    + right. exists gs. split; [exact Hgs|reflexivity].
  - intros [->|(gs & Hgs & ->)]; unfold fragment.
    + cbn [asc map app]. rewrite scan_frag_stop by exact Ht. reflexivity.
    + rewrite scan_frag_groups by assumption. reflexivity.
Qed.

(* the fragment scanner's diagnostics reach the token *)
Lemma number_diags_from_parts : forall ss pos main ss1 p1 d1 sep1 hasdot dec ss2 p2 d2 sep2
    sci raw_sci ss3 p3 d3 sep3,
  fragment ss pos = (main, ss1, p1, d1, sep1) ->
  dot_part ss1 p1 = (hasdot, dec, ss2, p2, d2, sep2) ->
  exp_part ss2 p2 = (sci, raw_sci, ss3, p3, d3, sep3) ->
  d1 ++ d2 ++ d3 <> [] ->
  tdiags (fst (number_tok ss pos)) <> [].
Proof.
  intros ss pos main ss1 p1 d1 sep1 hasdot dec ss2 p2 d2 sep2 sci raw_sci ss3 p3 d3 sep3 H1 H2 H3 Hne.
  unfold number_tok. rewrite (scan_number_parts _ _ _ _ _ _ _ _ _ _ _ _ _ _ _ _ _ _ _ H1 H2 H3).
  cbn [fst tdiags]. apply ident_diag_nonempty. exact Hne.
Qed.

Definition is_rendering (m : list Z) : Prop := exists gs, groups_ok gs = true /\ m = render_groups gs.

Lemma hex_branch_second : forall d c bs t, (c =? 120) || (c =? 88) = false ->
  hex_branch ((d, [d]) :: (c, bs) :: t) = false.
Proof.
  intros d c bs t H. unfold hex_branch. cbn [rune_sat nth_error]. rewrite H. apply andb_false_r.
Qed.

Lemma fragbyte_not_x : forall c, fragbyte c = true -> (c =? 120) || (c =? 88) = false.
Proof.
  intros c H. apply lit_byte_not_x. unfold fragbyte in H. unfold lit_byte.
  apply orb_true_iff in H. destruct H as [H|H]; rewrite H; [reflexivity|]. rewrite orb_true_r. reflexivity.
Qed.

Lemma fragbytes_ascii : forall m, forallb fragbyte m = true -> Forall (fun b => 0 <= b < 128) m.
Proof. intros m H. apply forallb_Forall_ascii, fragbyte_lit_byte, H. Qed.

(* an integer part (digits and underscores, starting with a digit) that is not a rendering of
   digit groups: the token carries a diagnostic *)
Theorem misplaced_separator_in_integer_rejected : forall d m rest pos,
  is_digit d = true -> forallb fragbyte m = true -> ~ is_rendering (d :: m) ->
  stop (decode_all rest) = true ->
  tk (fst (scan_one (decode_all (d :: m ++ rest)) pos)) = KNumber /\
  tdiags (fst (scan_one (decode_all (d :: m ++ rest)) pos)) <> [].
Proof.
  intros d m rest pos Hd Hm Hnr Hstop.
  assert (Hdm : forallb fragbyte (d :: m) = true).
  { cbn [forallb]. unfold fragbyte at 1. rewrite Hd, Hm. reflexivity. }
  change (d :: m ++ rest) with ((d :: m) ++ rest).
  rewrite decode_all_asc by (apply fragbytes_ascii; exact Hdm).
  assert (Hh : hex_branch (asc (d :: m) ++ decode_all rest) = false).
  { destruct m as [|c m'].
    - exfalso. apply Hnr. exists [[d]]. split; [|reflexivity].
      unfold groups_ok, group_ok. cbn [forallb]. rewrite Hd. reflexivity.
    - rewrite !asc_cons. cbn [app]. apply hex_branch_second. apply fragbyte_not_x.
      cbn [forallb] in Hm. apply andb_true_iff in Hm. apply Hm. }
  rewrite asc_cons in *. cbn [app] in *.
  rewrite scan_one_digit by assumption.
  split; [unfold number_tok; destruct (scan_number _ _) as [[[v r] e] ds]; reflexivity|].
  change ((d, [d]) :: asc m ++ decode_all rest) with (asc (d :: m) ++ decode_all rest).
  destruct (fragment (asc (d :: m) ++ decode_all rest) pos) as [[[[main ss1] p1] d1] sep1] eqn:H1.
  destruct (dot_part ss1 p1) as [[[[[hasdot dec] ss2] p2] d2] sep2] eqn:H2.
  destruct (exp_part ss2 p2) as [[[[[sci raw] ss3] p3] d3] sep3] eqn:H3.
  apply (number_diags_from_parts _ _ _ _ _ _ _ _ _ _ _ _ _ _ _ _ _ _ _ H1 H2 H3).
  apply app_nonnil_l. intros Hd1.
  assert (Hc : frag_ds (fragment (asc (d :: m) ++ decode_all rest) pos) = []) by (rewrite H1; exact Hd1).
  apply (fragment_diags_iff (d :: m) _ pos Hdm Hstop) in Hc.
  destruct Hc as [Hc|Hc]; [discriminate Hc|]. apply Hnr. exact Hc.
Qed.

(* digits '.' and then a non-empty run of digits and underscores that is not a rendering *)
Theorem misplaced_separator_in_fraction_rejected : forall gi m rest pos,
  groups_ok gi = true -> forallb fragbyte m = true -> m <> [] -> ~ is_rendering m ->
  stop (decode_all rest) = true ->
  tk (fst (scan_one (decode_all (render_groups gi ++ 46 :: m ++ rest)) pos)) = KNumber /\
  tdiags (fst (scan_one (decode_all (render_groups gi ++ 46 :: m ++ rest)) pos)) <> [].
Proof.
  intros gi m rest pos Hgi Hm Hne Hnr Hstop.
  set (R := decode_all rest) in *.
  assert (Hdec : decode_all (render_groups gi ++ 46 :: m ++ rest) =
                 asc (render_groups gi) ++ (46, [46]) :: asc m ++ R).
  { replace (render_groups gi ++ 46 :: m ++ rest) with ((render_groups gi ++ 46 :: m) ++ rest)
      by (rewrite <- app_assoc; reflexivity).
    rewrite decode_all_asc.
    - rewrite asc_app, <- app_assoc. reflexivity.
    - apply Forall_app. split; [apply fragbytes_ascii, render_groups_bytes, Hgi|].
      constructor; [lia|apply fragbytes_ascii; exact Hm]. }
  rewrite Hdec.
  pose proof (render_groups_bytes gi Hgi) as Hbytes.
  destruct (render_head gi Hgi) as (d & l0 & Hr & Hd).
  assert (Hh : hex_branch (asc (render_groups gi) ++ (46, [46]) :: asc m ++ R) = false).
  { rewrite Hr in *. destruct l0 as [|c l1].
    - cbn [asc map app]. apply hex_branch_second. reflexivity.
    - rewrite !asc_cons. cbn [app]. apply hex_branch_second. apply fragbyte_not_x.
      cbn [forallb] in Hbytes. apply andb_true_iff in Hbytes. destruct Hbytes as [_ Hb].
      apply andb_true_iff in Hb. apply Hb. }
  assert (Hone : scan_one (asc (render_groups gi) ++ (46, [46]) :: asc m ++ R) pos =
                 number_tok (asc (render_groups gi) ++ (46, [46]) :: asc m ++ R) pos).
  { rewrite Hr in *. rewrite asc_cons in *. cbn [app] in *. apply scan_one_digit; assumption. }
  rewrite Hone.
  split; [unfold number_tok; destruct (scan_number _ _) as [[[v r] e] ds]; reflexivity|].
  assert (H1 : fragment (asc (render_groups gi) ++ (46, [46]) :: asc m ++ R) pos =
               (concat gi, (46, [46]) :: asc m ++ R, pos + blen (render_groups gi), [], has_sep gi)).
  { apply (fragment_og (Some gi)); [exact Hgi|reflexivity]. }
  destruct (fragment (asc m ++ R) (pos + blen (render_groups gi) + 1))
    as [[[[dec ss2] p2] d2] sep2] eqn:Hf.
  assert (H2 : dot_part ((46, [46]) :: asc m ++ R) (pos + blen (render_groups gi)) =
               (true, dec, ss2, p2, d2, sep2)).
  { cbn [dot_part]. rewrite Z.eqb_refl. change (blen [46]) with 1. rewrite Hf. reflexivity. }
  destruct (exp_part ss2 p2) as [[[[[sci raw] ss3] p3] d3] sep3] eqn:H3.
  apply (number_diags_from_parts _ _ _ _ _ _ _ _ _ _ _ _ _ _ _ _ _ _ _ H1 H2 H3).
  cbn [app]. apply app_nonnil_l. intros Hd2.
  assert (Hc : frag_ds (fragment (asc m ++ R) (pos + blen (render_groups gi) + 1)) = [])
    by (rewrite Hf; exact Hd2).
  apply (fragment_diags_iff m _ _ Hm Hstop) in Hc.
  destruct Hc as [Hc|Hc]; [contradiction|]. apply Hnr. exact Hc.
Qed.

(* a literal, 'e' [sign], and then a non-empty run of digits and underscores that is not a
   rendering *)
Theorem misplaced_separator_in_exponent_rejected : forall l eb sg m rest pos,
  lit_wf l = true -> exp l = None -> is_e eb = true -> sign_ok sg = true ->
  forallb fragbyte m = true -> m <> [] -> ~ is_rendering m -> stop (decode_all rest) = true ->
  tk (fst (scan_one (decode_all (render l ++ eb :: sign_bytes sg ++ m ++ rest)) pos)) = KNumber /\
  tdiags (fst (scan_one (decode_all (render l ++ eb :: sign_bytes sg ++ m ++ rest)) pos)) <> [].
Proof.
  intros l eb sg m rest pos Hwf Hexp He Hsg Hm Hne Hnr Hstop.
  rewrite decode_lit_e by assumption.
  rewrite decode_all_asc by (apply fragbytes_ascii; exact Hm).
  set (R := decode_all rest) in *.
  assert (Hns : sg = None -> nosign (asc m ++ R) = true).
  { intros _. destruct m as [|b m']; [congruence|]. rewrite asc_cons. cbn [app nosign].
    cbn [forallb] in Hm. apply andb_true_iff in Hm. destruct Hm as [Hb _].
    destruct (fragbyte_cases b Hb) as [Hd| ->]; [rewrite (digit_not_sign b Hd)|]; reflexivity. }
  destruct (fragment (asc m ++ R) (pos + blen (render l) + 1 + blen (sign_bytes sg)))
    as [[[[fin ss3] p3] d3] sep3] eqn:Hf.
  destruct (exp_tail_scan l eb sg _ pos _ _ _ _ _ Hwf Hexp He Hsg Hns Hf) as (v & Hs).
  rewrite Hs. cbn [fst tk tdiags]. split; [reflexivity|].
  apply ident_diag_nonempty.
  assert (Hd3 : d3 <> []).
  { intros Hd3.
    assert (Hc : frag_ds (fragment (asc m ++ R) (pos + blen (render l) + 1 + blen (sign_bytes sg))) = [])
      by (rewrite Hf; exact Hd3).
    apply (fragment_diags_iff m _ _ Hm Hstop) in Hc.
    destruct Hc as [Hc|Hc]; [contradiction|]. apply Hnr. exact Hc. }
  destruct fin; [apply app_nonnil_l; exact Hd3|exact Hd3].
Qed.

(* renderings start and end with a digit and have no two separators in a row, so the three
   misplacements above are exactly what [is_rendering] excludes *)
Theorem not_rendering_cases : forall m, forallb fragbyte m = true ->
  (exists m', m = 95 :: m') \/ (exists m', m = m' ++ [95]) \/ (exists a b, m = a ++ 95 :: 95 :: b) ->
  ~ is_rendering m.
Proof.
  intros m Hm Hcase (gs & Hgs & Hr).
  pose (t := @nil step). pose (pos := 0). assert (Ht : stop t = true) by reflexivity.
  assert (Hclean : frag_ds (fragment (asc m ++ t) pos) = []).
  { apply (fragment_diags_iff m t pos Hm Ht). right. exists gs. split; assumption. }
  destruct Hcase as [(m' & ->)|[(m' & ->)|(a & b & ->)]].
  - exact (separator_at_start_rejected m' t pos Hclean).
  - rewrite forallb_app in Hm. apply andb_true_iff in Hm. destruct Hm as [Ha _].
    exact (trailing_separator_rejected m' t pos Ha Ht Hclean).
  - rewrite forallb_app in Hm. apply andb_true_iff in Hm. destruct Hm as [Ha _].
    exact (doubled_separator_rejected a b t pos Ha Hclean).
Qed.

(* ---------- evaluator side ---------- *)

Theorem literal_value_kept_exactly : forall hosts local_off v st, v <> [] ->
  eval hosts local_off (SLit KNumber v) st = (Ok (VNum (dec_of_string v)), st).
Proof. intros hosts local_off v st H. destruct v as [|b v]; [congruence|reflexivity]. Qed.

Lemma lit_value_nonempty : forall l, lit_wf l = true -> lit_value l <> [].
Proof.
  intros l Hwf H. pose proof (value_read l Hwf) as Hv. rewrite H in Hv. discriminate Hv.
Qed.

(* scanning then evaluating a literal gives the decimal with exactly the written coefficient
   (all digits, no rounding on entry) and exponent *)
Theorem literal_evaluates_exactly : forall l rest pos hosts local_off st,
  lit_wf l = true -> no_continuation l rest = true ->
  let tok := fst (scan_one (decode_all (render l ++ rest)) pos) in
  eval hosts local_off (SLit KNumber (tval tok)) st =
  (Ok (VNum (Fin false (fst (denote l)) (snd (denote l)))), st).
Proof.
  intros l rest pos hosts local_off st Hwf Hnc tok.
  destruct (literal_scans l rest pos Hwf Hnc) as (tok' & Hs & _ & _ & _ & _ & Hv).
  unfold tok. rewrite Hs. cbn [fst]. rewrite literal_value_kept_exactly; [rewrite Hv; reflexivity|].
  intros Habs. rewrite Habs in Hv. discriminate Hv.
Qed.

(* ---------- the three misplacements in one statement; instances ---------- *)

Theorem misplaced_separator_rejected :
  (forall m t pos, frag_ds (fragment (asc (95 :: m) ++ t) pos) <> []) /\
  (forall a b t pos, forallb fragbyte a = true ->
     frag_ds (fragment (asc (a ++ 95 :: 95 :: b) ++ t) pos) <> []) /\
  (forall a t pos, forallb fragbyte a = true -> stop t = true ->
     frag_ds (fragment (asc (a ++ [95]) ++ t) pos) <> []).
Proof.
  split; [exact separator_at_start_rejected|].
  split; [exact doubled_separator_rejected|exact trailing_separator_rejected].
Qed.

(* "1__0", "1_" : hypotheses of misplaced_separator_in_integer_rejected;
   "1._5" : of misplaced_separator_in_fraction_rejected;
   "1e_5" : of misplaced_separator_in_exponent_rejected *)
Example misplaced_separator_instances :
  (is_digit 49 = true /\ forallb fragbyte [95; 95; 48] = true /\ ~ is_rendering [49; 95; 95; 48]) /\
  (is_digit 49 = true /\ forallb fragbyte [95] = true /\ ~ is_rendering [49; 95]) /\
  (groups_ok [[49]] = true /\ forallb fragbyte [95; 53] = true /\ [95; 53] <> [] /\ ~ is_rendering [95; 53]) /\
  (lit_wf (mkLit (Some [[49]]) None None) = true /\ is_e 101 = true /\ sign_ok None = true).
Proof.
  split; [|split; [|split]].
  - split; [reflexivity|]. split; [reflexivity|].
    apply not_rendering_cases; [reflexivity|]. right. right. exists [49], [48]. reflexivity.
  - split; [reflexivity|]. split; [reflexivity|].
    apply not_rendering_cases; [reflexivity|]. right. left. exists [49]. reflexivity.
  - split; [reflexivity|]. split; [reflexivity|]. split; [discriminate|].
    apply not_rendering_cases; [reflexivity|]. left. exists [53]. reflexivity.
  - repeat split; reflexivity.
Qed.

(* "1" followed by "abc" : hypotheses of ident_after_literal_rejected_partial *)
Example ident_after_literal_instance :
  let l := mkLit (Some [[49]]) None None in
  lit_wf l = true /\ decode_all [97; 98; 99] = (97, [97]) :: decode_all [98; 99] /\
  is_ident_start 97 = true /\ 97 <> 95 /\ has_exp l || negb (is_e 97) = true /\
  hex_branch (decode_all (render l ++ [97; 98; 99])) = false.
Proof. repeat split; try reflexivity. lia. Qed.
