(* Soundness of the recovering parser (Syn/Parser.v) with respect to the grammar of
   Syn/Grammar.v, and nesting of source ranges.

   Main results (summary with the exact deviations at the end of the file):
     parse_sound_as_stated_is_false, parse_sound_rejects_as_stated_is_false   (counterexample)
     parse_sound_partial, parse_sound_rejects_partial     (extra hypothesis [values_ok toks])
     parse_sound_scanned, parse_source_sound              (verbatim for scanned streams)
     accepted_nested, rejected_nested, parsed_nested, within_text, accepted_nested_tiles

   Method for soundness: one induction on fuel over all mutually recursive functions
   ([sound_all]); along a run that ends with no diagnostics every function took its happy
   branch, consumed exactly the yield of the tree it returns ([M]), and returns a tree of
   the right level; the loop invariant of parse_binary_rest is [Pbin] (the next token does not
   continue the left operand at its own level), its result [Qbin]. *)
From Coq Require Import List ZArith Lia Bool Arith.
From Formula Require Import Syn.Grammar Lex.ScanSpec.
Import ListNotations.
Open Scope Z_scope.

(* ====================================================================================== *)
(* 0. The statement as first written is false of the model: counterexample                *)
(* ====================================================================================== *)

(* [tok_matches] compares token VALUES, and [yield] gives punctuation (and the end-of-file
   token) the empty value and the typeof keyword its spelling.  The parser never looks at the
   value of such a token, and [stream_ok] does not constrain values.  So a hand-built stream
   whose end-of-file (or operator) token carries a non-empty value is accepted but is not the
   yield of any tree. *)
Definition cex_toks : list token :=
  [mkTok KNumber [49] 0 0 1 false []; mkTok KEOF [7] 1 1 1 false []].

Eval vm_compute in parse_tokens 100 cex_toks.
(* = Accepted (ELit KNumber [49] 0 1) *)

Lemma cex_stream_ok : stream_ok cex_toks.
Proof.
  exists [mkTok KNumber [49] 0 0 1 false []], (mkTok KEOF [7] 1 1 1 false []).
  split; [reflexivity|]. split; [reflexivity|]. constructor; [cbn; discriminate|constructor].
Qed.

Lemma cex_not_derivable : forall x, ~ derives x cex_toks.
Proof.
  intros x H. unfold derives, cex_toks in H.
  assert (G : forall (l : list atok) ts, Forall2 tok_matches (l ++ [punct KEOF]) ts ->
             exists t, In t ts /\ tk t = KEOF /\ tval t = []).
  { induction l as [|a l IH]; intros ts F; inversion F; subst.
    - match goal with M : tok_matches (punct KEOF) _ |- _ => destruct M as (M1 & M2 & _) end.
      eexists. split; [left; reflexivity|]. split; assumption.
    - match goal with F2 : Forall2 _ (l ++ _) _ |- _ => destruct (IH _ F2) as (t & I & K) end.
      exists t. split; [right; exact I|exact K]. }
  destruct (G _ _ H) as (t & I & K & V).
  destruct I as [E|[E|[]]]; subst t; cbn in K, V; discriminate.
Qed.

(* ORIGINAL STATEMENT 1 (false):
     forall fuel toks e, stream_ok toks -> parse_tokens fuel toks = Accepted e ->
       wf (strip e) /\ derives (strip e) toks.  *)
Lemma parse_sound_as_stated_is_false :
  ~ (forall fuel toks e, stream_ok toks -> parse_tokens fuel toks = Accepted e ->
       wf (strip e) /\ derives (strip e) toks).
Proof.
  intros H.
  destruct (H 100%nat cex_toks (ELit KNumber [49] 0 1) cex_stream_ok) as (_ & D).
  - vm_compute. reflexivity.
  - exact (cex_not_derivable _ D).
Qed.

(* ORIGINAL STATEMENT 2 (false, same stream):
     forall fuel toks, stream_ok toks -> (forall x, wf x -> ~ derives x toks) ->
       forall e, parse_tokens fuel toks <> Accepted e.  *)
Lemma parse_sound_rejects_as_stated_is_false :
  ~ (forall fuel toks, stream_ok toks -> (forall x, wf x -> ~ derives x toks) ->
       forall e, parse_tokens fuel toks <> Accepted e).
Proof.
  intros H.
  apply (H 100%nat cex_toks cex_stream_ok (fun x _ => cex_not_derivable x) (ELit KNumber [49] 0 1)).
  vm_compute. reflexivity.
Qed.

(* The missing hypothesis: tokens that the grammar treats as punctuation carry no value and
   the typeof keyword carries its spelling.  Every token the scanner produces satisfies this
   (section 5: [scan_all_canon]). *)
Definition free_value (k : kind) : bool :=
  match k with
  | KUnknown | KNumber | KString | KIdent | KTrue | KFalse | KNull | KThis | KCtx | KTypeof => true
  | _ => false
  end.

Definition tok_canon (t : token) : Prop :=
  (free_value (tk t) = false -> tval t = []) /\ (tk t = KTypeof -> tval t = kw_typeof).

Definition values_ok (toks : list token) : Prop := Forall tok_canon toks.

(* ====================================================================================== *)
(* 1. Basic facts                                                                         *)
(* ====================================================================================== *)

Lemma kind_eqb_eq a b : kind_eqb a b = true -> a = b.
Proof.
  unfold kind_eqb. intros H. apply Z.eqb_eq in H.
  destruct a; destruct b; try reflexivity; cbv in H; discriminate H.
Qed.

Lemma kind_eqb_refl a : kind_eqb a a = true.
Proof. unfold kind_eqb. apply Z.eqb_refl. Qed.

Lemma kind_eqb_neq a b : kind_eqb a b = false -> a <> b.
Proof. intros H E. subst b. rewrite kind_eqb_refl in H. discriminate. Qed.

Lemma add_diag_nonempty ds d : add_diag ds d <> [].
Proof.
  unfold add_diag. destruct ds as [|l ds]; [discriminate|].
  destruct (dstart l =? dstart d); discriminate.
Qed.

Lemma add_diags_nil new : forall ds, add_diags ds new = [] -> ds = [].
Proof.
  unfold add_diags. induction new as [|d new IH]; intros ds H; cbn in H; [exact H|].
  apply IH in H. exfalso. exact (add_diag_nonempty _ _ H).
Qed.

Definition toks_of (s : pst) : list token := cur s :: rest s.

(* state invariant: what is left is a well-formed stream *)
Definition sok (s : pst) : Prop := stream_ok (toks_of s) /\ values_ok (toks_of s).

Lemma stream_ok_tail c t r : stream_ok (c :: t :: r) -> stream_ok (t :: r).
Proof.
  intros (pre & e & E & K & F). destruct pre as [|c' pre]; cbn in E.
  - inversion E.
  - inversion E; subst. inversion F; subst. exists pre, e. auto.
Qed.

Lemma stream_ok_eof c r : stream_ok (c :: r) -> tk c = KEOF -> r = [].
Proof.
  intros (pre & e & E & K & F) Hc. destruct pre as [|c' pre]; cbn in E.
  - inversion E. reflexivity.
  - inversion E; subst. inversion F; subst. contradiction.
Qed.

Lemma stream_ok_more c r : stream_ok (c :: r) -> tk c <> KEOF -> exists t r', r = t :: r'.
Proof.
  intros (pre & e & E & K & F) Hc. destruct pre as [|c' pre]; cbn in E.
  - inversion E; subst. contradiction.
  - inversion E; subst. destruct pre; cbn; eauto.
Qed.

Lemma sok_advance s : sok s -> sok (advance s).
Proof.
  intros (H1 & H2). unfold advance. destruct (rest s) as [|t r] eqn:E; [split; assumption|].
  unfold sok, toks_of in *. cbn [cur rest]. rewrite E in *.
  split; [eapply stream_ok_tail; eauto|]. inversion H2; assumption.
Qed.

Lemma sok_error_at_current s c : sok s -> sok (error_at_current s c).
Proof. intros H. exact H. Qed.

Lemma sok_error_at s a b c : sok s -> sok (error_at s a b c).
Proof. intros H. exact H. Qed.

Lemma sok_canon s : sok s -> tok_canon (cur s).
Proof. intros (_ & H). inversion H; assumption. Qed.

Lemma diags_advance s : diags (advance s) = [] -> diags s = [].
Proof.
  unfold advance. destruct (rest s) as [|t r]; [auto|]. cbn [diags]. apply add_diags_nil.
Qed.

Lemma diags_error_at_current s c : diags (error_at_current s c) <> [].
Proof. unfold error_at_current. cbn [diags]. apply add_diag_nonempty. Qed.

Lemma diags_error_at s a b c : diags (error_at s a b c) <> [].
Proof. unfold error_at. cbn [diags]. apply add_diag_nonempty. Qed.

(* [M s s' x]: going from s to s' consumes exactly tokens matching x *)
Definition M (s s' : pst) (x : list atok) : Prop :=
  forall Y, Forall2 tok_matches Y (toks_of s') -> Forall2 tok_matches (x ++ Y) (toks_of s).

Lemma M_refl s : M s s [].
Proof. intros Y H. exact H. Qed.

Lemma M_trans s1 s2 s3 x y : M s1 s2 x -> M s2 s3 y -> M s1 s3 (x ++ y).
Proof. intros H1 H2 Y H. rewrite <- app_assoc. apply H1, H2, H. Qed.

Lemma M_adv s a : sok s -> tk (cur s) <> KEOF -> tok_matches a (cur s) -> M s (advance s) [a].
Proof.
  intros (H1 & _) Hk Hm Y HY. unfold toks_of in *.
  destruct (stream_ok_more _ _ H1 Hk) as (t & r & E).
  unfold advance in HY. rewrite E in HY. cbn [cur rest] in HY. rewrite E.
  cbn [app]. constructor; assumption.
Qed.

Lemma canon_punct t : tok_canon t -> free_value (tk t) = false -> tval t = [].
Proof. intros (H & _). exact H. Qed.

(* consuming a punctuation token of known kind *)
Lemma M_punct s k :
  sok s -> tk (cur s) = k -> k <> KEOF -> free_value k = false -> M s (advance s) [punct k].
Proof.
  intros Hs Hk Hne Hf. apply M_adv; [exact Hs|congruence|].
  unfold punct, tok_matches. split; [exact Hk|]. split; [|discriminate].
  apply canon_punct; [apply sok_canon; exact Hs|rewrite Hk; exact Hf].
Qed.

Lemma want_ok s k :
  sok s -> diags (want s k) = [] -> k <> KEOF -> free_value k = false ->
  diags s = [] /\ sok (want s k) /\ M s (want s k) [punct k].
Proof.
  intros Hs Hd Hne Hf. unfold want in *. destruct (at_kind s k) eqn:Hk.
  - apply kind_eqb_eq in Hk. split; [apply diags_advance; exact Hd|].
    split; [apply sok_advance; exact Hs|]. apply M_punct; assumption.
  - exfalso. exact (diags_error_at_current _ _ Hd).
Qed.

(* the argument/element lists of wf and yield, named *)
Fixpoint wf_list (l : list sexpr) : Prop :=
  match l with [] => True | a :: t => wf a /\ 1 <= slvl a /\ wf_list t end.

Fixpoint yield_list (l : list sexpr) : list atok :=
  match l with
  | [] => []
  | a :: t => match t with [] => yield a | _ :: _ => yield a ++ punct KComma :: yield_list t end
  end.

Lemma wf_arr es : wf (SArr es) = wf_list es.
Proof. reflexivity. Qed.

Lemma wf_call f args sp : wf (SCall f args sp) = (wf f /\ 13 <= slvl f /\ wf_list args).
Proof. reflexivity. Qed.

Lemma yield_arr es :
  yield (SArr es) = punct KOpenBracket :: yield_list es ++ [punct KCloseBracket].
Proof. reflexivity. Qed.

Lemma yield_call f args sp :
  yield (SCall f args sp) =
  yield f ++ (KOpenParen, [], true) :: yield_list args ++
  (if sp then [punct KDotDotDot] else []) ++ [punct KCloseParen].
Proof. reflexivity. Qed.

(* ====================================================================================== *)
(* 2. Kind tables                                                                         *)
(* ====================================================================================== *)

Lemma prec_le_10 k : prec_of k <= 10.
Proof. destruct k; cbn; lia. Qed.

Lemma prec_pos_facts k :
  0 < prec_of k ->
  kind_eqb k KComma = false /\ kind_eqb k KEquals = false /\ k <> KEOF /\ free_value k = false.
Proof. destruct k; cbn; intros H; try lia; repeat split; try reflexivity; discriminate. Qed.

Lemma prefix_facts k : is_prefix_op k = true -> k <> KEOF /\ free_value k = false.
Proof. destruct k; cbn; intros H; try discriminate H; split; try reflexivity; discriminate. Qed.

Lemma ident_kind_ne k : is_identifier_kind k = true -> k <> KEOF.
Proof. destruct k; cbn; intros H; try discriminate H; discriminate. Qed.

Lemma literal_ne k : is_literal_start k = true -> k <> KEOF.
Proof. destruct k; cbn; intros H; try discriminate H; discriminate. Qed.

(* what reaches the identifier case of parse_primary *)
Lemma primary_ident k :
  is_literal_start k = false -> is_identifier_kind k = true -> k <> KTypeof -> k = KIdent.
Proof. destruct k; cbn; intros H1 H2 H3; try discriminate; try reflexivity. contradiction. Qed.

(* ====================================================================================== *)
(* 3. Soundness, function by function                                                     *)
(* ====================================================================================== *)

Lemma parse_identifier_sound s c nm s2 :
  sok s -> parse_identifier s c = (nm, s2) ->
  sok s2 /\
  (diags s2 = [] ->
   diags s = [] /\ is_identifier_kind (tk (cur s)) = true /\
   nm = EIdent (tk (cur s)) (tval (cur s)) (tstart (cur s)) (node_pos s2) /\
   M s s2 [(tk (cur s), tval (cur s), false)]).
Proof.
  intros Hs H. unfold parse_identifier in H.
  destruct (is_identifier_kind (tk (cur s))) eqn:Hi; inversion H; subst.
  - split; [apply sok_advance; exact Hs|]. intros Hd.
    split; [apply diags_advance; exact Hd|]. split; [reflexivity|]. split; [reflexivity|].
    apply M_adv; [exact Hs|apply ident_kind_ne; exact Hi|].
    unfold tok_matches. split; [reflexivity|]. split; [reflexivity|discriminate].
  - split; [exact Hs|]. intros Hd. exfalso. exact (diags_error_at_current _ _ Hd).
Qed.

Lemma right_side_of_dot_sound s nm s2 :
  sok s -> parse_right_side_of_dot s = (nm, s2) ->
  sok s2 /\
  (diags s2 = [] ->
   diags s = [] /\ is_identifier_kind (tk (cur s)) = true /\
   nm = EIdent (tk (cur s)) (tval (cur s)) (tstart (cur s)) (node_pos s2) /\
   M s s2 [(tk (cur s), tval (cur s), false)]).
Proof.
  intros Hs H. unfold parse_right_side_of_dot in H.
  destruct (tnl (cur s) && is_identifier_kind (tk (cur s)) &&
            match rest s with t2 :: _ => is_identifier_kind (tk t2) && negb (tnl t2) | [] => false end).
  - inversion H; subst. split; [exact Hs|]. intros Hd. exfalso. exact (diags_error_at _ _ _ _ Hd).
  - eapply parse_identifier_sound; eauto.
Qed.

Lemma member_rest_sound : forall f e s e' s',
  sok s -> member_rest f e s = Some (e', s') ->
  sok s' /\
  (diags s' = [] ->
   diags s = [] /\
   (wf (strip e) -> 13 <= slvl (strip e) ->
    wf (strip e') /\ 13 <= slvl (strip e') /\
    (forall s0, M s0 s (yield (strip e)) -> M s0 s' (yield (strip e'))))).
Proof.
  induction f as [|f IH]; intros e s e' s' Hs H; [discriminate|].
  cbn [member_rest] in H.
  destruct (tnl (cur s)) eqn:Hnl.
  { inversion H; subst. split; [exact Hs|]. intros Hd. split; [exact Hd|]. auto. }
  destruct (at_kind s KDot || at_kind s KBangDot) eqn:Hdot.
  2:{ inversion H; subst. split; [exact Hs|]. intros Hd. split; [exact Hd|]. auto. }
  destruct (parse_right_side_of_dot (advance s)) as [nm s2] eqn:Hr.
  pose proof (sok_advance _ Hs) as Hs1.
  destruct (right_side_of_dot_sound _ _ _ Hs1 Hr) as (Hs2 & Hnm).
  destruct (IH _ _ _ _ Hs2 H) as (Hs' & Hrest).
  split; [exact Hs'|]. intros Hd.
  destruct (Hrest Hd) as (Hd2 & Hcont).
  destruct (Hnm Hd2) as (Hd1 & Hik & Enm & Mnm).
  split; [apply diags_advance; exact Hd1|].
  intros Hw Hl. rewrite Enm in Hcont. cbn [strip] in Hcont.
  destruct Hcont as (Hw' & Hl' & HM).
  - cbn [wf]. auto.
  - cbn [slvl]. lia.
  - split; [exact Hw'|]. split; [exact Hl'|].
    intros s0 M0. apply HM. cbn [yield].
    apply (M_trans _ _ _ _ _ M0).
    apply (M_trans s (advance s) s2 [_] [_]); [|exact Mnm].
    unfold at_kind in Hdot.
    assert (Hk : tk (cur s) = (if at_kind s KBangDot then KBangDot else KDot)).
    { unfold at_kind. destruct (kind_eqb (tk (cur s)) KBangDot) eqn:E2.
      - apply kind_eqb_eq; exact E2.
      - rewrite orb_false_r in Hdot. apply kind_eqb_eq; exact Hdot. }
    apply M_adv; [exact Hs| |].
    + rewrite Hk. destruct (at_kind s KBangDot); discriminate.
    + unfold tok_matches. split; [exact Hk|]. split; [|intros _; exact Hnl].
      apply canon_punct; [apply sok_canon; exact Hs|].
      rewrite Hk. destruct (at_kind s KBangDot); reflexivity.
Qed.

Definition spec_expr (Q : sexpr -> pst -> Prop) (F : pst -> R) : Prop :=
  forall s e s', sok s -> F s = Some (e, s') ->
    sok s' /\
    (diags s' = [] ->
     diags s = [] /\ wf (strip e) /\ M s s' (yield (strip e)) /\ Q (strip e) s').

Definition spec_rest (P Q : sexpr -> pst -> Prop) (F : expr -> pst -> R) : Prop :=
  forall l s e s', sok s -> F l s = Some (e, s') ->
    sok s' /\
    (diags s' = [] ->
     diags s = [] /\
     (wf (strip l) -> P (strip l) s ->
      wf (strip e) /\ Q (strip e) s' /\
      (forall s0, M s0 s (yield (strip l)) -> M s0 s' (yield (strip e))))).

Definition spec_list (F : pctx -> bool -> pst -> option (list expr * pst)) : Prop :=
  forall c tr s es s', sok s -> F c tr s = Some (es, s') ->
    sok s' /\
    (diags s' = [] ->
     diags s = [] /\ wf_list (map strip es) /\ M s s' (yield_list (map strip es)) /\
     (tr = true -> es <> []) /\ is_list_terminator c (tk (cur s')) = true).

Definition Qbin (p : Z) (x : sexpr) (s' : pst) : Prop :=
  p + 1 < slvl x /\ prec_of (tk (cur s')) <= p.

Definition Pbin (p : Z) (l : sexpr) (s : pst) : Prop :=
  p + 1 < slvl l /\ 1 + prec_of (tk (cur s)) <= slvl l.

Definition sound_at (f : nat) : Prop :=
  spec_expr (fun _ _ => True) (parse_expression f) /\
  spec_rest (fun _ _ => True) (fun _ _ => True) (comma_loop f) /\
  spec_expr (fun x _ => 1 <= slvl x) (parse_assign f) /\
  (forall p, 0 <= p <= 10 -> spec_expr (Qbin p) (parse_binary f p)) /\
  (forall p, 0 <= p <= 10 -> spec_rest (Pbin p) (Qbin p) (parse_binary_rest f p)) /\
  spec_expr (fun x _ => 12 <= slvl x) (parse_unary f) /\
  spec_rest (fun l _ => 13 <= slvl l) (fun x _ => 13 <= slvl x) (call_rest f) /\
  (forall s, tk (cur s) <> KTypeof ->
     forall e s', sok s -> parse_primary f s = Some (e, s') ->
       sok s' /\
       (diags s' = [] ->
        diags s = [] /\ wf (strip e) /\ M s s' (yield (strip e)) /\ 14 <= slvl (strip e))) /\
  spec_list (delimited_list f).

Lemma sound_expression f : sound_at f -> spec_expr (fun _ _ => True) (parse_expression (S f)).
Proof.
  intros (IHe & IHc & IHa & IHb & IHr & IHu & IHcall & IHp & IHl).
  intros s e s' Hs H. cbn [parse_expression] in H.
  destruct (parse_assign f s) as [[e1 s1]|] eqn:Ha; [|discriminate].
  destruct (IHa _ _ _ Hs Ha) as (Hs1 & Ka).
  destruct (IHc _ _ _ _ Hs1 H) as (Hs' & Kc).
  split; [exact Hs'|]. intros Hd.
  destruct (Kc Hd) as (Hd1 & Kc').
  destruct (Ka Hd1) as (Hd0 & Hw1 & M1 & _).
  destruct (Kc' Hw1 I) as (Hw & _ & HM).
  auto.
Qed.

Lemma sound_comma f : sound_at f ->
  spec_rest (fun _ _ => True) (fun _ _ => True) (comma_loop (S f)).
Proof.
  intros (IHe & IHc & IHa & IHb & IHr & IHu & IHcall & IHp & IHl).
  intros l s e s' Hs H. cbn [comma_loop] in H.
  destruct (at_kind s KComma) eqn:Hk.
  2:{ inversion H; subst. split; [exact Hs|]. intros Hd. split; [exact Hd|]. auto. }
  destruct (parse_assign f (advance s)) as [[r s2]|] eqn:Ha; [|discriminate].
  pose proof (sok_advance _ Hs) as Hs1.
  destruct (IHa _ _ _ Hs1 Ha) as (Hs2 & Ka).
  destruct (IHc _ _ _ _ Hs2 H) as (Hs' & Kc).
  split; [exact Hs'|]. intros Hd.
  destruct (Kc Hd) as (Hd2 & Kc').
  destruct (Ka Hd2) as (Hd1 & Hwr & Mr & Hlr).
  split; [apply diags_advance; exact Hd1|].
  intros Hwl _. apply kind_eqb_eq in Hk.
  destruct Kc' as (Hw & _ & HM).
  - cbn [strip wf]. rewrite kind_eqb_refl. auto.
  - exact I.
  - split; [exact Hw|]. split; [exact I|].
    intros s0 M0. apply HM. cbn [strip yield].
    apply (M_trans _ _ _ _ _ M0).
    apply (M_trans s (advance s) s2 [_] _); [|exact Mr].
    apply M_punct; [exact Hs|exact Hk|discriminate|reflexivity].
Qed.

Lemma wf_assign_node l r :
  wf l -> wf r -> 2 <= slvl l -> 1 <= slvl r -> wf (SBin l KEquals r) /\ slvl (SBin l KEquals r) = 1.
Proof. cbn. auto. Qed.

Lemma wf_binop_node l op r :
  0 < prec_of op -> wf l -> wf r -> 1 + prec_of op <= slvl l -> 1 + prec_of op < slvl r ->
  wf (SBin l op r) /\ slvl (SBin l op r) = 1 + prec_of op.
Proof.
  intros Hp Hl Hr H1 H2. destruct (prec_pos_facts _ Hp) as (E1 & E2 & _).
  cbn [wf slvl]. rewrite E1, E2. auto 10.
Qed.

Lemma sound_assign f : sound_at f -> spec_expr (fun x _ => 1 <= slvl x) (parse_assign (S f)).
Proof.
  intros (IHe & IHc & IHa & IHb & IHr & IHu & IHcall & IHp & IHl).
  intros s e s' Hs H. cbn [parse_assign] in H.
  destruct (parse_binary f 0 s) as [[c s1]|] eqn:Hb; [|discriminate].
  destruct (IHb 0 ltac:(lia) _ _ _ Hs Hb) as (Hs1 & Kb).
  destruct (is_assignment_op (tk (cur s1))) eqn:Has.
  - (* assignment *)
    destruct (parse_assign f (advance s1)) as [[r s3]|] eqn:Ha; [|discriminate].
    inversion H; subst e s'. clear H.
    pose proof (sok_advance _ Hs1) as Hs2.
    destruct (IHa _ _ _ Hs2 Ha) as (Hs3 & Ka).
    split; [exact Hs3|]. intros Hd.
    destruct (Ka Hd) as (Hd2 & Hwr & Mr & Hlr).
    pose proof (diags_advance _ Hd2) as Hd1.
    destruct (Kb Hd1) as (Hd0 & Hwc & Mc & (Hlc & _)).
    assert (Hk : tk (cur s1) = KEquals)
      by (destruct (tk (cur s1)); try discriminate Has; reflexivity).
    split; [exact Hd0|]. cbn [strip]. rewrite Hk.
    destruct (wf_assign_node (strip c) (strip r)) as (W & L); auto; try lia.
    split; [exact W|]. split; [|lia].
    cbn [yield]. apply (M_trans _ _ _ _ _ Mc).
    apply (M_trans s1 (advance s1) s3 [_] _); [|exact Mr].
    apply M_punct; [exact Hs1|exact Hk|discriminate|reflexivity].
  - destruct (at_kind s1 KQuestion) eqn:Hq.
    + (* conditional *)
      destruct (parse_assign f (advance s1)) as [[wt s3]|] eqn:Ha1; [|discriminate].
      pose proof (sok_advance _ Hs1) as Hs2.
      destruct (IHa _ _ _ Hs2 Ha1) as (Hs3 & Ka1).
      destruct (at_kind s3 KColon) eqn:Hcol; cbv beta iota zeta in H.
      * destruct (parse_assign f (advance s3)) as [[wfl s5]|] eqn:Ha2; [|discriminate].
        inversion H; subst e s'. clear H.
        pose proof (sok_advance _ Hs3) as Hs4.
        destruct (IHa _ _ _ Hs4 Ha2) as (Hs5 & Ka2).
        split; [exact Hs5|]. intros Hd.
        destruct (Ka2 Hd) as (Hd4 & Hwf & Mf & Hlf).
        pose proof (diags_advance _ Hd4) as Hd3.
        destruct (Ka1 Hd3) as (Hd2 & Hwt & Mt & Hlt).
        pose proof (diags_advance _ Hd2) as Hd1.
        destruct (Kb Hd1) as (Hd0 & Hwc & Mc & (Hlc & _)).
        apply kind_eqb_eq in Hq. apply kind_eqb_eq in Hcol.
        split; [exact Hd0|]. cbn [strip wf slvl yield].
        split; [split; [exact Hwc|]; split; [exact Hwt|]; split; [exact Hwf|]; lia|].
        split; [|lia].
        apply (M_trans _ _ _ _ _ Mc).
        apply (M_trans s1 (advance s1) s5 [_] _);
          [apply M_punct; [exact Hs1|exact Hq|discriminate|reflexivity]|].
        apply (M_trans _ _ _ _ _ Mt).
        apply (M_trans s3 (advance s3) s5 [_] _); [|exact Mf].
        apply M_punct; [exact Hs3|exact Hcol|discriminate|reflexivity].
      * destruct (parse_assign f (error_at_current s3 C_0_expected)) as [[wfl s5]|] eqn:Ha2;
          [|discriminate].
        inversion H; subst e s'. clear H.
        destruct (IHa _ _ _ (sok_error_at_current _ _ Hs3) Ha2) as (Hs5 & Ka2).
        split; [exact Hs5|]. intros Hd.
        destruct (Ka2 Hd) as (Hd4 & _). exfalso. exact (diags_error_at_current _ _ Hd4).
    + inversion H; subst c s1. clear H.
      split; [exact Hs1|]. intros Hd.
      destruct (Kb Hd) as (Hd0 & Hwc & Mc & (Hlc & _)).
      split; [exact Hd0|]. split; [exact Hwc|]. split; [exact Mc|]. lia.
Qed.

Lemma sound_binary f : sound_at f ->
  forall p, 0 <= p <= 10 -> spec_expr (Qbin p) (parse_binary (S f) p).
Proof.
  intros (IHe & IHc & IHa & IHb & IHr & IHu & IHcall & IHp & IHl) p Hp.
  intros s e s' Hs H. cbn [parse_binary] in H.
  destruct (parse_unary f s) as [[l s1]|] eqn:Hu; [|discriminate].
  destruct (IHu _ _ _ Hs Hu) as (Hs1 & Ku).
  destruct (IHr p Hp _ _ _ _ Hs1 H) as (Hs' & Kr).
  split; [exact Hs'|]. intros Hd.
  destruct (Kr Hd) as (Hd1 & Kr').
  destruct (Ku Hd1) as (Hd0 & Hwl & Ml & Hll).
  destruct Kr' as (Hw & HQ & HM).
  - exact Hwl.
  - unfold Pbin. pose proof (prec_le_10 (tk (cur s1))). lia.
  - auto.
Qed.

Lemma sound_binary_rest f : sound_at f ->
  forall p, 0 <= p <= 10 -> spec_rest (Pbin p) (Qbin p) (parse_binary_rest (S f) p).
Proof.
  intros (IHe & IHc & IHa & IHb & IHr & IHu & IHcall & IHp & IHl) p Hp.
  intros l s e s' Hs H. cbn [parse_binary_rest] in H.
  destruct (p <? prec_of (tk (cur s))) eqn:Hlt.
  2:{ apply Z.ltb_ge in Hlt. inversion H; subst e s'. split; [exact Hs|]. intros Hd.
      split; [exact Hd|]. intros Hwl (HP1 & HP2). split; [exact Hwl|].
      split; [split; assumption|]. auto. }
  apply Z.ltb_lt in Hlt.
  set (np := prec_of (tk (cur s))) in *.
  assert (Hnp : 0 <= np <= 10) by (pose proof (prec_le_10 (tk (cur s))); unfold np; lia).
  destruct (parse_binary f np (advance s)) as [[r s2]|] eqn:Hb; [|discriminate].
  pose proof (sok_advance _ Hs) as Hs1.
  destruct (IHb np Hnp _ _ _ Hs1 Hb) as (Hs2 & Kb).
  destruct (IHr p Hp _ _ _ _ Hs2 H) as (Hs' & Kr).
  split; [exact Hs'|]. intros Hd.
  destruct (Kr Hd) as (Hd2 & Kr').
  destruct (Kb Hd2) as (Hd1 & Hwr & Mr & (Hlr & Hstop)).
  split; [apply diags_advance; exact Hd1|].
  intros Hwl (HP1 & HP2). fold np in HP2.
  assert (Hpos : 0 < prec_of (tk (cur s))) by (fold np; lia).
  destruct (wf_binop_node (strip l) (tk (cur s)) (strip r) Hpos Hwl Hwr) as (W & L);
    [fold np; lia|fold np; lia|]. fold np in L.
  destruct (prec_pos_facts _ Hpos) as (_ & _ & Hne & Hfv).
  cbn [strip] in Kr'.
  destruct Kr' as (Hw & HQ & HM).
  - exact W.
  - unfold Pbin. rewrite L. lia.
  - split; [exact Hw|]. split; [exact HQ|].
    intros s0 M0. apply HM. cbn [yield].
    apply (M_trans _ _ _ _ _ M0).
    apply (M_trans s (advance s) s2 [_] _); [|exact Mr].
    apply M_punct; [exact Hs|reflexivity|exact Hne|exact Hfv].
Qed.

Lemma sound_unary f : sound_at f -> spec_expr (fun x _ => 12 <= slvl x) (parse_unary (S f)).
Proof.
  intros (IHe & IHc & IHa & IHb & IHr & IHu & IHcall & IHp & IHl).
  intros s e s' Hs H. cbn [parse_unary] in H.
  destruct (is_prefix_op (tk (cur s))) eqn:Hpre.
  - destruct (parse_unary f (advance s)) as [[x s2]|] eqn:Hu; [|discriminate].
    inversion H; subst e s'. clear H.
    destruct (IHu _ _ _ (sok_advance _ Hs) Hu) as (Hs2 & Ku).
    split; [exact Hs2|]. intros Hd.
    destruct (Ku Hd) as (Hd1 & Hwx & Mx & Hlx).
    destruct (prefix_facts _ Hpre) as (Hne & Hfv).
    split; [apply diags_advance; exact Hd1|].
    cbn [strip wf yield slvl].
    split; [auto|]. split; [|lia].
    apply (M_trans s (advance s) s2 [_] _); [|exact Mx].
    apply M_punct; [exact Hs|reflexivity|exact Hne|exact Hfv].
  - destruct (kind_eqb (tk (cur s)) KTypeof) eqn:Hty.
    + destruct (parse_unary f (advance s)) as [[x s2]|] eqn:Hu; [|discriminate].
      inversion H; subst e s'. clear H.
      destruct (IHu _ _ _ (sok_advance _ Hs) Hu) as (Hs2 & Ku).
      split; [exact Hs2|]. intros Hd.
      destruct (Ku Hd) as (Hd1 & Hwx & Mx & Hlx).
      apply kind_eqb_eq in Hty.
      split; [apply diags_advance; exact Hd1|].
      cbn [strip wf yield slvl].
      split; [auto|]. split; [|lia].
      apply (M_trans s (advance s) s2 [_] _); [|exact Mx].
      apply M_adv; [exact Hs|rewrite Hty; discriminate|].
      unfold tok_matches. split; [exact Hty|]. split; [|discriminate].
      destruct (sok_canon _ Hs) as (_ & Hc). apply Hc. exact Hty.
    + apply kind_eqb_neq in Hty.
      destruct (parse_primary f s) as [[e0 s1]|] eqn:Hp; [|discriminate].
      destruct (IHp s Hty _ _ Hs Hp) as (Hs1 & Kp).
      destruct (member_rest f e0 s1) as [[e2 s2]|] eqn:Hm; [|discriminate].
      destruct (member_rest_sound _ _ _ _ _ Hs1 Hm) as (Hs2 & Km).
      destruct (IHcall _ _ _ _ Hs2 H) as (Hs' & Kc).
      split; [exact Hs'|]. intros Hd.
      destruct (Kc Hd) as (Hd2 & Kc').
      destruct (Km Hd2) as (Hd1 & Km').
      destruct (Kp Hd1) as (Hd0 & Hw0 & M0 & Hl0).
      destruct (Km' Hw0 ltac:(lia)) as (Hw2 & Hl2 & MM2).
      destruct (Kc' Hw2 Hl2) as (Hw & Hl & MM).
      split; [exact Hd0|]. split; [exact Hw|]. split; [|lia].
      apply MM, MM2, M0.
Qed.

Lemma sok_want s k : sok s -> sok (want s k).
Proof. intros H. unfold want. destruct (at_kind s k); [apply sok_advance|]; exact H. Qed.

Lemma M_open_call s :
  sok s -> tk (cur s) = KOpenParen -> tnl (cur s) = false ->
  M s (advance s) [(KOpenParen, [], true)].
Proof.
  intros Hs Hk Hnl. apply M_adv; [exact Hs|rewrite Hk; discriminate|].
  unfold tok_matches. split; [exact Hk|]. split; [|intros _; exact Hnl].
  apply canon_punct; [apply sok_canon; exact Hs|rewrite Hk; reflexivity].
Qed.

Lemma sound_call f : sound_at f ->
  spec_rest (fun l _ => 13 <= slvl l) (fun x _ => 13 <= slvl x) (call_rest (S f)).
Proof.
  intros (IHe & IHc & IHa & IHb & IHr & IHu & IHcall & IHp & IHl).
  intros e0 s e s' Hs H. cbn [call_rest] in H.
  destruct (tnl (cur s)) eqn:Hnl.
  { inversion H; subst e s'. split; [exact Hs|]. intros Hd. split; [exact Hd|]. auto. }
  destruct (member_rest f e0 s) as [[e1 s1]|] eqn:Hm; [|discriminate].
  destruct (member_rest_sound _ _ _ _ _ Hs Hm) as (Hs1 & Km).
  destruct (at_kind s1 KOpenParen && negb (tnl (cur s1))) eqn:Hop.
  2:{ inversion H; subst e s'. split; [exact Hs1|]. intros Hd.
      destruct (Km Hd) as (Hd0 & Km'). split; [exact Hd0|]. exact Km'. }
  apply andb_prop in Hop. destruct Hop as (Hk & Hnl1).
  apply kind_eqb_eq in Hk. apply negb_true_iff in Hnl1.
  destruct (delimited_list f PArgs false (advance s1)) as [[args s3]|] eqn:Hlst; [|discriminate].
  pose proof (sok_advance _ Hs1) as Hs2.
  destruct (IHl _ _ _ _ _ Hs2 Hlst) as (Hs3 & Kl).
  destruct (at_kind s3 KDotDotDot) eqn:Hsp; cbv beta iota zeta in H.
  - (* spread marker present *)
    pose proof (sok_advance _ Hs3) as Hs4.
    pose proof (sok_want _ KCloseParen Hs4) as Hs5.
    destruct (IHcall _ _ _ _ Hs5 H) as (Hs' & Kc).
    split; [exact Hs'|]. intros Hd.
    destruct (Kc Hd) as (Hd5 & Kc').
    destruct (want_ok _ KCloseParen Hs4 Hd5) as (Hd4 & _ & M4); [discriminate|reflexivity|].
    pose proof (diags_advance _ Hd4) as Hd3.
    destruct (Kl Hd3) as (Hd2 & Hwargs & Margs & _ & _).
    pose proof (diags_advance _ Hd2) as Hd1.
    destruct (Km Hd1) as (Hd0 & Km').
    split; [exact Hd0|]. intros Hw0 Hl0.
    destruct (Km' Hw0 Hl0) as (Hw1 & Hl1 & MM1).
    cbn [strip] in Kc'. apply kind_eqb_eq in Hsp.
    destruct Kc' as (Hw & Hl & HM).
    + rewrite wf_call. auto.
    + cbn [slvl]. lia.
    + split; [exact Hw|]. split; [exact Hl|].
      intros s0 M0. apply HM. rewrite yield_call.
      apply (M_trans _ _ _ _ _ (MM1 _ M0)).
      apply (M_trans s1 (advance s1) _ [_] _); [apply M_open_call; assumption|].
      apply (M_trans _ _ _ _ _ Margs).
      apply (M_trans s3 (advance s3) _ [_] [_]); [|exact M4].
      apply M_punct; [exact Hs3|exact Hsp|discriminate|reflexivity].
  - (* no spread marker *)
    pose proof (sok_want _ KCloseParen Hs3) as Hs5.
    destruct (IHcall _ _ _ _ Hs5 H) as (Hs' & Kc).
    split; [exact Hs'|]. intros Hd.
    destruct (Kc Hd) as (Hd5 & Kc').
    destruct (want_ok _ KCloseParen Hs3 Hd5) as (Hd3 & _ & M4); [discriminate|reflexivity|].
    destruct (Kl Hd3) as (Hd2 & Hwargs & Margs & _ & _).
    pose proof (diags_advance _ Hd2) as Hd1.
    destruct (Km Hd1) as (Hd0 & Km').
    split; [exact Hd0|]. intros Hw0 Hl0.
    destruct (Km' Hw0 Hl0) as (Hw1 & Hl1 & MM1).
    cbn [strip] in Kc'.
    destruct Kc' as (Hw & Hl & HM).
    + rewrite wf_call. auto.
    + cbn [slvl]. lia.
    + split; [exact Hw|]. split; [exact Hl|].
      intros s0 M0. apply HM. rewrite yield_call.
      apply (M_trans _ _ _ _ _ (MM1 _ M0)).
      apply (M_trans s1 (advance s1) _ [_] _); [apply M_open_call; assumption|].
      apply (M_trans _ _ _ _ _ Margs). exact M4.
Qed.

Lemma sound_primary f : sound_at f ->
  forall s, tk (cur s) <> KTypeof ->
  forall e s', sok s -> parse_primary (S f) s = Some (e, s') ->
    sok s' /\
    (diags s' = [] ->
     diags s = [] /\ wf (strip e) /\ M s s' (yield (strip e)) /\ 14 <= slvl (strip e)).
Proof.
  intros (IHe & IHc & IHa & IHb & IHr & IHu & IHcall & IHp & IHl).
  intros s Hnt e s' Hs H. cbn [parse_primary] in H.
  destruct (is_literal_start (tk (cur s))) eqn:Hlit.
  { inversion H; subst e s'. clear H. split; [apply sok_advance; exact Hs|]. intros Hd.
    split; [apply diags_advance; exact Hd|]. cbn [strip wf yield slvl].
    split; [exact Hlit|]. split; [|lia].
    apply M_adv; [exact Hs|apply literal_ne; exact Hlit|].
    unfold tok_matches. split; [reflexivity|]. split; [reflexivity|discriminate]. }
  destruct (kind_eqb (tk (cur s)) KOpenParen) eqn:Hpar.
  { apply kind_eqb_eq in Hpar.
    destruct (parse_expression f (advance s)) as [[x s2]|] eqn:Hx; [|discriminate].
    inversion H; subst e s'. clear H.
    destruct (IHe _ _ _ (sok_advance _ Hs) Hx) as (Hs2 & Kx).
    split; [apply sok_want; exact Hs2|]. intros Hd.
    destruct (want_ok _ KCloseParen Hs2 Hd) as (Hd2 & _ & M3); [discriminate|reflexivity|].
    destruct (Kx Hd2) as (Hd1 & Hwx & Mx & _).
    split; [apply diags_advance; exact Hd1|]. cbn [strip wf yield slvl].
    split; [exact Hwx|]. split; [|lia].
    apply (M_trans s (advance s) _ [_] _);
      [apply M_punct; [exact Hs|exact Hpar|discriminate|reflexivity]|].
    apply (M_trans _ _ _ _ _ Mx). exact M3. }
  destruct (kind_eqb (tk (cur s)) KOpenBracket) eqn:Hbr.
  { apply kind_eqb_eq in Hbr.
    destruct (delimited_list f PArray false (advance s)) as [[es s2]|] eqn:Hlst; [|discriminate].
    inversion H; subst e s'. clear H.
    destruct (IHl _ _ _ _ _ (sok_advance _ Hs) Hlst) as (Hs2 & Kl).
    split; [apply sok_want; exact Hs2|]. intros Hd.
    destruct (want_ok _ KCloseBracket Hs2 Hd) as (Hd2 & _ & M3); [discriminate|reflexivity|].
    destruct (Kl Hd2) as (Hd1 & Hwes & Mes & _ & _).
    split; [apply diags_advance; exact Hd1|]. cbn [strip slvl].
    rewrite wf_arr, yield_arr.
    split; [exact Hwes|]. split; [|lia].
    apply (M_trans s (advance s) _ [_] _);
      [apply M_punct; [exact Hs|exact Hbr|discriminate|reflexivity]|].
    apply (M_trans _ _ _ _ _ Mes). exact M3. }
  destruct (parse_identifier s C_Expression_expected) as [nm s2] eqn:Hid.
  inversion H; subst e s'. clear H.
  destruct (parse_identifier_sound _ _ _ _ Hs Hid) as (Hs2 & Ki).
  split; [exact Hs2|]. intros Hd.
  destruct (Ki Hd) as (Hd0 & Hik & Enm & Mnm).
  split; [exact Hd0|]. rewrite Enm. cbn [strip wf yield slvl].
  split; [apply primary_ident; assumption|]. split; [exact Mnm|lia].
Qed.

Lemma yield_list_cons a t :
  t <> [] -> yield_list (a :: t) = yield a ++ punct KComma :: yield_list t.
Proof. destruct t; [contradiction|reflexivity]. Qed.

Lemma sound_list f : sound_at f -> spec_list (delimited_list (S f)).
Proof.
  intros (IHe & IHc & IHa & IHb & IHr & IHu & IHcall & IHp & IHl).
  intros c tr s es s' Hs H. cbn [delimited_list] in H.
  destruct (is_list_element c (tk (cur s))) eqn:Hel.
  - destruct (parse_assign f s) as [[e s1]|] eqn:Ha; [|discriminate].
    destruct (IHa _ _ _ Hs Ha) as (Hs1 & Ka).
    destruct (at_kind s1 KComma) eqn:Hk.
    + destruct (delimited_list f c true (advance s1)) as [[es2 s2]|] eqn:Hl; [|discriminate].
      inversion H; subst es s'. clear H.
      destruct (IHl _ _ _ _ _ (sok_advance _ Hs1) Hl) as (Hs2 & Kl).
      split; [exact Hs2|]. intros Hd.
      destruct (Kl Hd) as (Hd2 & Hwes & Mes & Hne & Hterm).
      pose proof (diags_advance _ Hd2) as Hd1.
      destruct (Ka Hd1) as (Hd0 & Hwe & Me & Hle).
      apply kind_eqb_eq in Hk.
      split; [exact Hd0|]. split; [cbn [map wf_list]; auto|].
      split; [|split; [discriminate|exact Hterm]].
      cbn [map]. rewrite yield_list_cons.
      * apply (M_trans _ _ _ _ _ Me).
        apply (M_trans s1 (advance s1) _ [_] _); [|exact Mes].
        apply M_punct; [exact Hs1|exact Hk|discriminate|reflexivity].
      * specialize (Hne eq_refl). destruct es2; [contradiction|discriminate].
    + destruct (is_list_terminator c (tk (cur s1))) eqn:Ht.
      * inversion H; subst es s'. clear H. split; [exact Hs1|]. intros Hd.
        destruct (Ka Hd) as (Hd0 & Hwe & Me & Hle).
        split; [exact Hd0|]. split; [cbn [map wf_list]; auto|].
        split; [exact Me|]. split; [discriminate|exact Ht].
      * destruct (delimited_list f c false (error_at_current s1 C_0_expected))
          as [[es2 s2]|] eqn:Hl; [|discriminate].
        inversion H; subst es s'. clear H.
        destruct (IHl _ _ _ _ _ (sok_error_at_current _ _ Hs1) Hl) as (Hs2 & Kl).
        split; [exact Hs2|]. intros Hd.
        destruct (Kl Hd) as (Hd2 & _). exfalso. exact (diags_error_at_current _ _ Hd2).
  - destruct (is_list_terminator c (tk (cur s))) eqn:Ht.
    + inversion H; subst es s'. clear H. destruct tr.
      * split; [exact Hs|]. intros Hd. exfalso. exact (diags_error_at_current _ _ Hd).
      * split; [exact Hs|]. intros Hd. split; [exact Hd|]. split; [exact I|].
        split; [apply M_refl|]. split; [discriminate|exact Ht].
    + destruct (IHl _ _ _ _ _ (sok_advance _ (sok_error_at_current _ (ctx_error c) Hs)) H)
        as (Hs2 & Kl).
      split; [exact Hs2|]. intros Hd.
      destruct (Kl Hd) as (Hd2 & _). apply diags_advance in Hd2.
      exfalso. exact (diags_error_at_current _ _ Hd2).
Qed.

Theorem sound_all : forall f, sound_at f.
Proof.
  induction f as [|f IH].
  - unfold sound_at, spec_expr, spec_rest, spec_list.
    repeat split; intros; discriminate.
  - unfold sound_at. repeat apply conj.
    + apply sound_expression; exact IH.
    + apply sound_comma; exact IH.
    + apply sound_assign; exact IH.
    + apply sound_binary; exact IH.
    + apply sound_binary_rest; exact IH.
    + apply sound_unary; exact IH.
    + apply sound_call; exact IH.
    + apply sound_primary; exact IH.
    + apply sound_list; exact IH.
Qed.

(* ====================================================================================== *)
(* 4. The soundness theorems                                                              *)
(* ====================================================================================== *)

Lemma rev_nil_inv {A} (l : list A) : rev l = [] -> l = [].
Proof. intros H. apply (f_equal (@rev A)) in H. rewrite rev_involutive in H. exact H. Qed.

(* what an accepting run of parse_tokens looks like *)
Lemma accepted_run fuel t0 r e :
  parse_tokens fuel (t0 :: r) = Accepted e ->
  exists s1, parse_expression fuel (mkSt t0 r (add_diags [] (tdiags t0))) = Some (e, s1) /\
             tk (cur s1) = KEOF /\ diags s1 = [].
Proof.
  intros H. unfold parse_tokens in H.
  destruct (parse_expression fuel (mkSt t0 r (add_diags [] (tdiags t0)))) as [[e1 s1]|] eqn:Hp;
    [|discriminate].
  destruct (rev (diags (advance (if at_kind s1 KEOF then s1
                                 else error_at_current s1 C_0_expected)))) eqn:Hrev;
    [|discriminate].
  inversion H; subst e1. clear H.
  apply rev_nil_inv, diags_advance in Hrev.
  exists s1. destruct (at_kind s1 KEOF) eqn:Heof.
  - apply kind_eqb_eq in Heof. auto.
  - exfalso. exact (diags_error_at_current _ _ Hrev).
Qed.

(* Strongest true variant of statement 1: the extra hypothesis is [values_ok]. *)
Theorem parse_sound_partial : forall fuel toks e,
  stream_ok toks -> values_ok toks -> parse_tokens fuel toks = Accepted e ->
  wf (strip e) /\ derives (strip e) toks.
Proof.
  intros fuel toks e Hok Hv H.
  destruct toks as [|t0 r]; [discriminate|].
  destruct (accepted_run _ _ _ _ H) as (s1 & Hp & Heof & Hd).
  destruct (sound_all fuel) as (IHe & _).
  assert (Hs0 : sok (mkSt t0 r (add_diags [] (tdiags t0)))) by (split; assumption).
  destruct (IHe _ _ _ Hs0 Hp) as (Hs1 & K).
  destruct (K Hd) as (_ & Hw & Mx & _).
  split; [exact Hw|]. unfold derives.
  apply (Mx [punct KEOF]).
  pose proof Hs1 as (Hso & _). unfold toks_of in *.
  rewrite (stream_ok_eof _ _ Hso Heof).
  constructor; [|constructor].
  unfold punct, tok_matches. split; [exact Heof|]. split; [|discriminate].
  apply canon_punct; [apply sok_canon; exact Hs1|rewrite Heof; reflexivity].
Qed.

(* Strongest true variant of statement 2. *)
Theorem parse_sound_rejects_partial : forall fuel toks,
  stream_ok toks -> values_ok toks -> (forall x, wf x -> ~ derives x toks) ->
  forall e, parse_tokens fuel toks <> Accepted e.
Proof.
  intros fuel toks Hok Hv Hno e H.
  destruct (parse_sound_partial _ _ _ Hok Hv H) as (Hw & Hd).
  exact (Hno _ Hw Hd).
Qed.

(* ====================================================================================== *)
(* 5. Scanned streams satisfy both hypotheses, so for source texts the theorem is exact   *)
(* ====================================================================================== *)

Lemma bytes_eqb_eq a : forall b, bytes_eqb a b = true -> a = b.
Proof.
  induction a as [|x a IH]; destruct b as [|y b]; cbn; intros H; try discriminate H; [reflexivity|].
  apply andb_prop in H. destruct H as (H1 & H2). apply Z.eqb_eq in H1. subst y.
  f_equal. apply IH. exact H2.
Qed.

Lemma ident_kind_canon v :
  free_value (ident_kind v) = true /\ (ident_kind v = KTypeof -> v = kw_typeof).
Proof.
  unfold ident_kind, keyword_table. cbn [assoc_bytes].
  destruct (bytes_eqb v kw_true); [split; [reflexivity|discriminate]|].
  destruct (bytes_eqb v kw_false); [split; [reflexivity|discriminate]|].
  destruct (bytes_eqb v kw_null); [split; [reflexivity|discriminate]|].
  destruct (bytes_eqb v kw_this); [split; [reflexivity|discriminate]|].
  destruct (bytes_eqb v kw_ctx); [split; [reflexivity|discriminate]|].
  destruct (bytes_eqb v kw_typeof) eqn:E; [|split; [reflexivity|discriminate]].
  split; [reflexivity|]. intros _. apply bytes_eqb_eq. exact E.
Qed.

Lemma canon_simple k a b c d e :
  free_value k = false -> tok_canon (mkTok k [] a b c d e).
Proof.
  intros H. split; cbn [tk tval]; [reflexivity|]. intros E. subst k. discriminate H.
Qed.

Lemma canon_valued k v a b c d e :
  free_value k = true -> k <> KTypeof -> tok_canon (mkTok k v a b c d e).
Proof.
  intros H Hn. split; cbn [tk tval]; intros E; [rewrite E in H; discriminate H|contradiction].
Qed.

Lemma scan_one_canon ss pos : tok_canon (fst (scan_one ss pos)).
Proof.
  unfold scan_one.
  destruct (skip_trivia ss pos false) as [[ss1 p1] nl].
  destruct ss1 as [|[r bs] t]; [apply canon_simple; reflexivity|].
  cbv zeta.
  match goal with |- context[scan_number ?a ?b] =>
    destruct (scan_number a b) as [[[nv nrest] ne] nds] end.
  match goal with |- context[scan_str ?a ?b ?c ?d ?e ?g] =>
    destruct (scan_str a b c d e g) as [[[sv srest] se] sds] end.
  match goal with |- context[hex_run ?a ?b ?c] =>
    destruct (hex_run a b c) as [[hv hrest] he] end.
  match goal with |- context[ident_run ?a ?b ?c] =>
    destruct (ident_run a b c) as [[iv irest] ie] end.
  repeat match goal with
         | |- tok_canon (fst (if ?b then _ else _)) => destruct b
         | |- tok_canon (fst (match ?l with [] => _ | _ :: _ => _ end)) => destruct l
         end;
    cbn [fst];
    try (apply canon_simple; reflexivity);
    try (apply canon_valued; [reflexivity|discriminate]).
  destruct (ident_kind_canon iv) as (H1 & H2).
  split; cbn [tk tval]; intros E; [rewrite E in H1; discriminate H1|exact (H2 E)].
Qed.

Lemma scan_all_go_ok : forall f ss pos l,
  scan_all_go f ss pos = Some l -> stream_ok l /\ values_ok l.
Proof.
  induction f as [|f IH]; intros ss pos l H; [discriminate|].
  cbn [scan_all_go] in H.
  pose proof (scan_one_canon ss pos) as Hc.
  destruct (scan_one ss pos) as [tok rest0]. cbn [fst] in Hc.
  destruct (kind_eqb (tk tok) KEOF) eqn:Hk.
  - apply kind_eqb_eq in Hk. rewrite Hk in H. inversion H; subst l.
    split; [|constructor; [exact Hc|constructor]].
    exists [], tok. split; [reflexivity|]. split; [exact Hk|constructor].
  - apply kind_eqb_neq in Hk.
    assert (H' : match scan_all_go f rest0 (tend tok) with
                 | Some l0 => Some (tok :: l0) | None => None end = Some l)
      by (destruct (tk tok); try exact H; contradiction).
    clear H. destruct (scan_all_go f rest0 (tend tok)) as [l0|] eqn:Hr; [|discriminate].
    inversion H'; subst l. destruct (IH _ _ _ Hr) as ((pre & e & E & K & F) & Hv).
    split; [|constructor; assumption].
    exists (tok :: pre), e. split; [rewrite E; reflexivity|]. split; [exact K|].
    constructor; assumption.
Qed.

Lemma scan_all_stream_ok text toks : scan_all text = Some toks -> stream_ok toks.
Proof. intros H. exact (proj1 (scan_all_go_ok _ _ _ _ H)). Qed.

Lemma scan_all_canon text toks : scan_all text = Some toks -> values_ok toks.
Proof. intros H. exact (proj2 (scan_all_go_ok _ _ _ _ H)). Qed.

(* Statement 1, exactly as worded, for every token stream the scanner produces. *)
Theorem parse_sound_scanned : forall fuel text toks e,
  scan_all text = Some toks -> parse_tokens fuel toks = Accepted e ->
  wf (strip e) /\ derives (strip e) toks.
Proof.
  intros fuel text toks e Hs H.
  exact (parse_sound_partial fuel toks e (scan_all_stream_ok _ _ Hs) (scan_all_canon _ _ Hs) H).
Qed.

Theorem parse_source_sound : forall text e,
  parse_source text = Accepted e ->
  exists toks, scan_all text = Some toks /\ wf (strip e) /\ derives (strip e) toks.
Proof.
  intros text e H. unfold parse_source in H.
  destruct (scan_all text) as [toks|] eqn:Hs; [|discriminate].
  exists toks. split; [reflexivity|]. eapply parse_sound_scanned; eauto.
Qed.

(* ====================================================================================== *)
(* 6. Source ranges nest (for every parse, accepted or not)                               *)
(* ====================================================================================== *)

(* each token starts where the previous one ends, and start <= text start <= end *)
Fixpoint contiguous (toks : list token) : Prop :=
  match toks with
  | [] => True
  | t :: r =>
    tstart t <= tpos t <= tend t /\
    match r with [] => True | u :: _ => tstart u = tend t end /\
    contiguous r
  end.

Definition hd_tok (toks : list token) : token :=
  hd (mkTok KEOF [] 0 0 0 false []) toks.

Lemma contiguous_app c : forall l, contiguous (c ++ l) -> contiguous l.
Proof.
  induction c as [|a c IH]; intros l H; [exact H|]. apply IH.
  cbn [app contiguous] in H. tauto.
Qed.

Lemma contiguous_le c : forall t r, contiguous (t :: r) ->
  forall t' r', t :: r = c ++ t' :: r' -> tstart t <= tstart t'.
Proof.
  induction c as [|a c IH]; intros t r H t' r' E; cbn [app] in E.
  - inversion E; subst. lia.
  - inversion E; subst a r. clear E.
    cbn [contiguous] in H. destruct H as (H1 & H2 & H3).
    destruct c as [|u c]; cbn [app] in *.
    + lia.
    + specialize (IH u (c ++ t' :: r') H3 t' r' eq_refl). lia.
Qed.

Lemma contiguous_le_end c : forall t r, contiguous (t :: r) ->
  forall t' r', t :: r = c ++ t' :: r' -> tstart t' <= tend t'.
Proof.
  intros t r H t' r' E. rewrite E in H. apply contiguous_app in H.
  cbn [contiguous] in H. lia.
Qed.

Definition reach (s s' : pst) : Prop := exists c, toks_of s = c ++ toks_of s'.
Definition cok (s : pst) : Prop := contiguous (toks_of s).
Definition D (s s' : pst) : Prop := diags s' = [] -> diags s = [].

Lemma reach_refl s : reach s s.
Proof. exists []. reflexivity. Qed.

Lemma reach_trans s1 s2 s3 : reach s1 s2 -> reach s2 s3 -> reach s1 s3.
Proof. intros (c1 & E1) (c2 & E2). exists (c1 ++ c2). rewrite E1, E2, app_assoc. reflexivity. Qed.

Lemma reach_advance s : reach s (advance s).
Proof.
  unfold advance. destruct (rest s) as [|t r] eqn:E; [apply reach_refl|].
  exists [cur s]. unfold toks_of. cbn [cur rest app]. rewrite E. reflexivity.
Qed.

Lemma reach_ok s s' : cok s -> reach s s' -> cok s' /\ tstart (cur s) <= tstart (cur s').
Proof.
  intros H (c & E). unfold cok in *. split.
  - rewrite E in H. eapply contiguous_app; eauto.
  - unfold toks_of in *. eapply contiguous_le; eauto.
Qed.

Lemma cur_eac s c : cur (error_at_current s c) = cur s.
Proof. reflexivity. Qed.

Lemma cur_ea s a b c : cur (error_at s a b c) = cur s.
Proof. reflexivity. Qed.

Lemma reach_eac s c : reach s (error_at_current s c).
Proof. exists []. reflexivity. Qed.

Lemma reach_ea s a b c : reach s (error_at s a b c).
Proof. exists []. reflexivity. Qed.

Lemma reach_want s k : reach s (want s k).
Proof. unfold want. destruct (at_kind s k); [apply reach_advance|apply reach_eac]. Qed.

Lemma D_refl s : D s s.
Proof. intros H. exact H. Qed.

Lemma D_trans s1 s2 s3 : D s1 s2 -> D s2 s3 -> D s1 s3.
Proof. intros H1 H2 H. apply H1, H2, H. Qed.

Lemma D_advance s : D s (advance s).
Proof. intros H. apply diags_advance. exact H. Qed.

Lemma D_eac s c s0 : D s0 (error_at_current s c).
Proof. intros H. exfalso. exact (diags_error_at_current _ _ H). Qed.

Lemma D_ea s a b c s0 : D s0 (error_at s a b c).
Proof. intros H. exfalso. exact (diags_error_at _ _ _ _ H). Qed.

Lemma D_want s k : D s (want s k).
Proof. unfold want. destruct (at_kind s k); [apply D_advance|apply D_eac]. Qed.

Lemma nested_le x : nested x -> epos x <= eend x.
Proof. destruct x; cbn [nested]; intros (H & _); exact H. Qed.

Definition nested_list (le : Z) : list expr -> Z -> Prop :=
  fix go (l : list expr) (from : Z) : Prop :=
    match l with
    | [] => True
    | a :: t => from <= epos a /\ eend a <= le /\ nested a /\ go t (eend a)
    end.

Lemma nested_list_nil le from : nested_list le [] from = True.
Proof. reflexivity. Qed.

Lemma nested_list_cons le a t from :
  nested_list le (a :: t) from =
  (from <= epos a /\ eend a <= le /\ nested a /\ nested_list le t (eend a)).
Proof. reflexivity. Qed.

Lemma nested_arr es lp le p e :
  nested (EArr es lp le p e) = (p <= e /\ p <= lp /\ lp <= le /\ le <= e /\ nested_list le es lp).
Proof. reflexivity. Qed.

Lemma nested_call f args lp le sp p e :
  nested (ECall f args lp le sp p e) =
  (p <= e /\ p <= epos f /\ eend f <= lp /\ lp <= le /\ le <= e /\ nested f /\
   nested_list le args lp).
Proof. reflexivity. Qed.

(* pose the consequences of reaching s' from s *)
Ltac mono Hc Hr Hc' Hle :=
  destruct (reach_ok _ _ Hc Hr) as (Hc' & Hle).

Ltac finish_pos :=
  unfold node_pos in *; rewrite ?cur_eac, ?cur_ea in *;
  cbn [nested epos eend]; repeat split; try assumption; try lia.

Lemma parse_identifier_nested s c nm s2 :
  cok s -> parse_identifier s c = (nm, s2) ->
  reach s s2 /\ D s s2 /\ nested nm /\ epos nm = tstart (cur s) /\ eend nm = tstart (cur s2).
Proof.
  intros Hc H. unfold parse_identifier in H.
  destruct (is_identifier_kind (tk (cur s))); inversion H; subst nm s2; clear H.
  - mono Hc (reach_advance s) Hc1 L1.
    split; [apply reach_advance|]. split; [apply D_advance|]. finish_pos.
  - split; [apply reach_eac|]. split; [apply D_eac|]. finish_pos.
Qed.

Lemma right_side_of_dot_nested s nm s2 :
  cok s -> parse_right_side_of_dot s = (nm, s2) ->
  reach s s2 /\ D s s2 /\ nested nm /\ epos nm = tstart (cur s) /\ eend nm = tstart (cur s2).
Proof.
  intros Hc H. unfold parse_right_side_of_dot in H.
  destruct (tnl (cur s) && is_identifier_kind (tk (cur s)) &&
            match rest s with t2 :: _ => is_identifier_kind (tk t2) && negb (tnl t2) | [] => false end).
  - inversion H; subst nm s2; clear H.
    split; [apply reach_ea|]. split; [apply D_ea|]. finish_pos.
  - eapply parse_identifier_nested; eauto.
Qed.

Definition N_expr (F : pst -> R) : Prop :=
  forall s e s', cok s -> F s = Some (e, s') ->
    reach s s' /\ D s s' /\ nested e /\ epos e = tstart (cur s) /\ eend e = tstart (cur s').

Definition N_rest (F : expr -> pst -> R) : Prop :=
  forall l s e s', cok s -> F l s = Some (e, s') ->
    reach s s' /\ D s s' /\
    (nested l -> eend l = tstart (cur s) ->
     nested e /\ epos e = epos l /\ eend e = tstart (cur s')).

Definition N_list (F : pctx -> bool -> pst -> option (list expr * pst)) : Prop :=
  forall c tr s es s', cok s -> F c tr s = Some (es, s') ->
    reach s s' /\ D s s' /\
    (forall from, from <= tstart (cur s) -> nested_list (tstart (cur s')) es from).

Lemma member_rest_nested : forall f, N_rest (member_rest f).
Proof.
  induction f as [|f IH]; intros l s e s' Hc H; [discriminate|].
  cbn [member_rest] in H.
  destruct (tnl (cur s)).
  { inversion H; subst e s'. split; [apply reach_refl|]. split; [apply D_refl|]. auto. }
  destruct (at_kind s KDot || at_kind s KBangDot).
  2:{ inversion H; subst e s'. split; [apply reach_refl|]. split; [apply D_refl|]. auto. }
  destruct (parse_right_side_of_dot (advance s)) as [nm s2] eqn:Hr.
  mono Hc (reach_advance s) Hc1 L1.
  destruct (right_side_of_dot_nested _ _ _ Hc1 Hr) as (R2 & D2 & Nn & Pn & En).
  mono Hc1 R2 Hc2 L2.
  destruct (IH _ _ _ _ Hc2 H) as (R3 & D3 & K).
  split; [exact (reach_trans _ _ _ (reach_advance s) (reach_trans _ _ _ R2 R3))|].
  split; [exact (D_trans _ _ _ (D_advance s) (D_trans _ _ _ D2 D3))|].
  intros Nl El. pose proof (nested_le _ Nl). pose proof (nested_le _ Nn).
  destruct K as (N & P & E).
  - finish_pos.
  - finish_pos.
  - cbn [epos] in P. auto.
Qed.

Definition nested_at (f : nat) : Prop :=
  N_expr (parse_expression f) /\ N_rest (comma_loop f) /\ N_expr (parse_assign f) /\
  (forall p, N_expr (parse_binary f p)) /\ (forall p, N_rest (parse_binary_rest f p)) /\
  N_expr (parse_unary f) /\ N_rest (call_rest f) /\ N_expr (parse_primary f) /\
  N_list (delimited_list f).

Lemma nested_expression f : nested_at f -> N_expr (parse_expression (S f)).
Proof.
  intros (IHe & IHc & IHa & IHb & IHr & IHu & IHcall & IHp & IHl).
  intros s e s' Hc H. cbn [parse_expression] in H.
  destruct (parse_assign f s) as [[e1 s1]|] eqn:Ha; [|discriminate].
  destruct (IHa _ _ _ Hc Ha) as (R1 & D1 & N1 & P1 & E1).
  mono Hc R1 Hc1 L1.
  destruct (IHc _ _ _ _ Hc1 H) as (R2 & D2 & K).
  destruct (K N1 E1) as (N & P & E).
  split; [exact (reach_trans _ _ _ R1 R2)|]. split; [exact (D_trans _ _ _ D1 D2)|].
  split; [exact N|]. split; [lia|exact E].
Qed.

Lemma nested_comma f : nested_at f -> N_rest (comma_loop (S f)).
Proof.
  intros (IHe & IHc & IHa & IHb & IHr & IHu & IHcall & IHp & IHl).
  intros l s e s' Hc H. cbn [comma_loop] in H.
  destruct (at_kind s KComma).
  2:{ inversion H; subst e s'. split; [apply reach_refl|]. split; [apply D_refl|]. auto. }
  destruct (parse_assign f (advance s)) as [[r s2]|] eqn:Ha; [|discriminate].
  mono Hc (reach_advance s) Hc1 L1.
  destruct (IHa _ _ _ Hc1 Ha) as (R2 & D2 & Nr & Pr & Er).
  mono Hc1 R2 Hc2 L2.
  destruct (IHc _ _ _ _ Hc2 H) as (R3 & D3 & K).
  split; [exact (reach_trans _ _ _ (reach_advance s) (reach_trans _ _ _ R2 R3))|].
  split; [exact (D_trans _ _ _ (D_advance s) (D_trans _ _ _ D2 D3))|].
  intros Nl El. pose proof (nested_le _ Nl). pose proof (nested_le _ Nr).
  destruct K as (N & P & E).
  - finish_pos.
  - finish_pos.
  - cbn [epos] in P. auto.
Qed.

Lemma nested_assign f : nested_at f -> N_expr (parse_assign (S f)).
Proof.
  intros (IHe & IHc & IHa & IHb & IHr & IHu & IHcall & IHp & IHl).
  intros s e s' Hc H. cbn [parse_assign] in H.
  destruct (parse_binary f 0 s) as [[c s1]|] eqn:Hb; [|discriminate].
  destruct (IHb 0 _ _ _ Hc Hb) as (R1 & D1 & Nc & Pc & Ec).
  mono Hc R1 Hc1 L1. pose proof (nested_le _ Nc).
  destruct (is_assignment_op (tk (cur s1))).
  - destruct (parse_assign f (advance s1)) as [[r s3]|] eqn:Ha; [|discriminate].
    inversion H; subst e s'. clear H.
    mono Hc1 (reach_advance s1) Hc2 L2.
    destruct (IHa _ _ _ Hc2 Ha) as (R3 & D3 & Nr & Pr & Er).
    mono Hc2 R3 Hc3 L3. pose proof (nested_le _ Nr).
    split; [exact (reach_trans _ _ _ R1 (reach_trans _ _ _ (reach_advance s1) R3))|].
    split; [exact (D_trans _ _ _ D1 (D_trans _ _ _ (D_advance s1) D3))|].
    finish_pos.
  - destruct (at_kind s1 KQuestion).
    + destruct (parse_assign f (advance s1)) as [[wt s3]|] eqn:Ha1; [|discriminate].
      mono Hc1 (reach_advance s1) Hc2 L2.
      destruct (IHa _ _ _ Hc2 Ha1) as (R3 & D3 & Nt & Pt & Et).
      mono Hc2 R3 Hc3 L3. pose proof (nested_le _ Nt).
      destruct (at_kind s3 KColon); cbv beta iota zeta in H.
      * destruct (parse_assign f (advance s3)) as [[wfl s5]|] eqn:Ha2; [|discriminate].
        inversion H; subst e s'. clear H.
        mono Hc3 (reach_advance s3) Hc4 L4.
        destruct (IHa _ _ _ Hc4 Ha2) as (R5 & D5 & Nf & Pf & Ef).
        mono Hc4 R5 Hc5 L5. pose proof (nested_le _ Nf).
        split; [exact (reach_trans _ _ _ R1 (reach_trans _ _ _ (reach_advance s1)
                  (reach_trans _ _ _ R3 (reach_trans _ _ _ (reach_advance s3) R5))))|].
        split; [exact (D_trans _ _ _ D1 (D_trans _ _ _ (D_advance s1)
                  (D_trans _ _ _ D3 (D_trans _ _ _ (D_advance s3) D5))))|].
        finish_pos.
      * destruct (parse_assign f (error_at_current s3 C_0_expected)) as [[wfl s5]|] eqn:Ha2;
          [|discriminate].
        inversion H; subst e s'. clear H.
        assert (Hc4 : cok (error_at_current s3 C_0_expected)) by exact Hc3.
        destruct (IHa _ _ _ Hc4 Ha2) as (R5 & D5 & Nf & Pf & Ef).
        mono Hc4 R5 Hc5 L5. pose proof (nested_le _ Nf).
        split; [exact (reach_trans _ _ _ R1 (reach_trans _ _ _ (reach_advance s1)
                  (reach_trans _ _ _ R3 (reach_trans _ _ _ (reach_eac s3 _) R5))))|].
        split; [exact (D_trans _ _ _ (D_eac s3 C_0_expected s) D5)|].
        finish_pos.
    + inversion H; subst e s'. clear H.
      split; [exact R1|]. split; [exact D1|]. auto.
Qed.

Lemma nested_binary f : nested_at f -> forall p, N_expr (parse_binary (S f) p).
Proof.
  intros (IHe & IHc & IHa & IHb & IHr & IHu & IHcall & IHp & IHl) p.
  intros s e s' Hc H. cbn [parse_binary] in H.
  destruct (parse_unary f s) as [[l s1]|] eqn:Hu; [|discriminate].
  destruct (IHu _ _ _ Hc Hu) as (R1 & D1 & N1 & P1 & E1).
  mono Hc R1 Hc1 L1.
  destruct (IHr p _ _ _ _ Hc1 H) as (R2 & D2 & K).
  destruct (K N1 E1) as (N & P & E).
  split; [exact (reach_trans _ _ _ R1 R2)|]. split; [exact (D_trans _ _ _ D1 D2)|].
  split; [exact N|]. split; [lia|exact E].
Qed.

Lemma nested_binary_rest f : nested_at f -> forall p, N_rest (parse_binary_rest (S f) p).
Proof.
  intros (IHe & IHc & IHa & IHb & IHr & IHu & IHcall & IHp & IHl) p.
  intros l s e s' Hc H. cbn [parse_binary_rest] in H.
  destruct (p <? prec_of (tk (cur s))).
  2:{ inversion H; subst e s'. split; [apply reach_refl|]. split; [apply D_refl|]. auto. }
  destruct (parse_binary f (prec_of (tk (cur s))) (advance s)) as [[r s2]|] eqn:Hb; [|discriminate].
  mono Hc (reach_advance s) Hc1 L1.
  destruct (IHb _ _ _ _ Hc1 Hb) as (R2 & D2 & Nr & Pr & Er).
  mono Hc1 R2 Hc2 L2.
  destruct (IHr p _ _ _ _ Hc2 H) as (R3 & D3 & K).
  split; [exact (reach_trans _ _ _ (reach_advance s) (reach_trans _ _ _ R2 R3))|].
  split; [exact (D_trans _ _ _ (D_advance s) (D_trans _ _ _ D2 D3))|].
  intros Nl El. pose proof (nested_le _ Nl). pose proof (nested_le _ Nr).
  destruct K as (N & P & E).
  - finish_pos.
  - finish_pos.
  - cbn [epos] in P. auto.
Qed.

Lemma nested_unary f : nested_at f -> N_expr (parse_unary (S f)).
Proof.
  intros (IHe & IHc & IHa & IHb & IHr & IHu & IHcall & IHp & IHl).
  intros s e s' Hc H. cbn [parse_unary] in H.
  destruct (is_prefix_op (tk (cur s))).
  - destruct (parse_unary f (advance s)) as [[x s2]|] eqn:Hu; [|discriminate].
    inversion H; subst e s'. clear H.
    mono Hc (reach_advance s) Hc1 L1.
    destruct (IHu _ _ _ Hc1 Hu) as (R2 & D2 & Nx & Px & Ex).
    mono Hc1 R2 Hc2 L2. pose proof (nested_le _ Nx).
    split; [exact (reach_trans _ _ _ (reach_advance s) R2)|].
    split; [exact (D_trans _ _ _ (D_advance s) D2)|].
    finish_pos.
  - destruct (kind_eqb (tk (cur s)) KTypeof).
    + destruct (parse_unary f (advance s)) as [[x s2]|] eqn:Hu; [|discriminate].
      inversion H; subst e s'. clear H.
      mono Hc (reach_advance s) Hc1 L1.
      destruct (IHu _ _ _ Hc1 Hu) as (R2 & D2 & Nx & Px & Ex).
      mono Hc1 R2 Hc2 L2. pose proof (nested_le _ Nx).
      split; [exact (reach_trans _ _ _ (reach_advance s) R2)|].
      split; [exact (D_trans _ _ _ (D_advance s) D2)|].
      finish_pos.
    + destruct (parse_primary f s) as [[e0 s1]|] eqn:Hp; [|discriminate].
      destruct (IHp _ _ _ Hc Hp) as (R1 & D1 & N0 & P0 & E0).
      mono Hc R1 Hc1 L1.
      destruct (member_rest f e0 s1) as [[e2 s2]|] eqn:Hm; [|discriminate].
      destruct (member_rest_nested _ _ _ _ _ Hc1 Hm) as (R2 & D2 & K2).
      mono Hc1 R2 Hc2 L2.
      destruct (IHcall _ _ _ _ Hc2 H) as (R3 & D3 & K3).
      destruct (K2 N0 E0) as (N2 & P2 & E2).
      destruct (K3 N2 E2) as (N & P & E).
      split; [exact (reach_trans _ _ _ R1 (reach_trans _ _ _ R2 R3))|].
      split; [exact (D_trans _ _ _ D1 (D_trans _ _ _ D2 D3))|].
      split; [exact N|]. split; [lia|exact E].
Qed.

Lemma nested_call_rest f : nested_at f -> N_rest (call_rest (S f)).
Proof.
  intros (IHe & IHc & IHa & IHb & IHr & IHu & IHcall & IHp & IHl).
  intros e0 s e s' Hc H. cbn [call_rest] in H.
  destruct (tnl (cur s)).
  { inversion H; subst e s'. split; [apply reach_refl|]. split; [apply D_refl|]. auto. }
  destruct (member_rest f e0 s) as [[e1 s1]|] eqn:Hm; [|discriminate].
  destruct (member_rest_nested _ _ _ _ _ Hc Hm) as (R1 & D1 & K1).
  mono Hc R1 Hc1 L1.
  destruct (at_kind s1 KOpenParen && negb (tnl (cur s1))).
  2:{ inversion H; subst e s'. split; [exact R1|]. split; [exact D1|]. exact K1. }
  destruct (delimited_list f PArgs false (advance s1)) as [[args s3]|] eqn:Hlst; [|discriminate].
  mono Hc1 (reach_advance s1) Hc2 L2.
  destruct (IHl _ _ _ _ _ Hc2 Hlst) as (R3 & D3 & Kl).
  mono Hc2 R3 Hc3 L3.
  destruct (at_kind s3 KDotDotDot); cbv beta iota zeta in H.
  - mono Hc3 (reach_advance s3) Hc4 L4.
    mono Hc4 (reach_want (advance s3) KCloseParen) Hc5 L5.
    destruct (IHcall _ _ _ _ Hc5 H) as (R6 & D6 & K).
    split; [exact (reach_trans _ _ _ R1 (reach_trans _ _ _ (reach_advance s1)
              (reach_trans _ _ _ R3 (reach_trans _ _ _ (reach_advance s3)
                 (reach_trans _ _ _ (reach_want _ KCloseParen) R6)))))|].
    split; [exact (D_trans _ _ _ D1 (D_trans _ _ _ (D_advance s1)
              (D_trans _ _ _ D3 (D_trans _ _ _ (D_advance s3)
                 (D_trans _ _ _ (D_want _ KCloseParen) D6)))))|].
    intros N0 E0. destruct (K1 N0 E0) as (N1 & P1 & E1). pose proof (nested_le _ N1).
    destruct K as (N & P & E).
    + rewrite nested_call. unfold node_pos in *.
      repeat split; try assumption; try lia. apply Kl. lia.
    + reflexivity.
    + cbn [epos] in P. split; [exact N|]. split; [lia|exact E].
  - mono Hc3 (reach_want s3 KCloseParen) Hc5 L5.
    destruct (IHcall _ _ _ _ Hc5 H) as (R6 & D6 & K).
    split; [exact (reach_trans _ _ _ R1 (reach_trans _ _ _ (reach_advance s1)
              (reach_trans _ _ _ R3 (reach_trans _ _ _ (reach_want _ KCloseParen) R6))))|].
    split; [exact (D_trans _ _ _ D1 (D_trans _ _ _ (D_advance s1)
              (D_trans _ _ _ D3 (D_trans _ _ _ (D_want _ KCloseParen) D6))))|].
    intros N0 E0. destruct (K1 N0 E0) as (N1 & P1 & E1). pose proof (nested_le _ N1).
    destruct K as (N & P & E).
    + rewrite nested_call. unfold node_pos in *.
      repeat split; try assumption; try lia. apply Kl. lia.
    + reflexivity.
    + cbn [epos] in P. split; [exact N|]. split; [lia|exact E].
Qed.

Lemma nested_primary f : nested_at f -> N_expr (parse_primary (S f)).
Proof.
  intros (IHe & IHc & IHa & IHb & IHr & IHu & IHcall & IHp & IHl).
  intros s e s' Hc H. cbn [parse_primary] in H.
  destruct (is_literal_start (tk (cur s))).
  { inversion H; subst e s'. clear H.
    mono Hc (reach_advance s) Hc1 L1.
    split; [apply reach_advance|]. split; [apply D_advance|]. finish_pos. }
  destruct (kind_eqb (tk (cur s)) KOpenParen).
  { destruct (parse_expression f (advance s)) as [[x s2]|] eqn:Hx; [|discriminate].
    inversion H; subst e s'. clear H.
    mono Hc (reach_advance s) Hc1 L1.
    destruct (IHe _ _ _ Hc1 Hx) as (R2 & D2 & Nx & Px & Ex).
    mono Hc1 R2 Hc2 L2. mono Hc2 (reach_want s2 KCloseParen) Hc3 L3.
    pose proof (nested_le _ Nx).
    split; [exact (reach_trans _ _ _ (reach_advance s)
              (reach_trans _ _ _ R2 (reach_want _ KCloseParen)))|].
    split; [exact (D_trans _ _ _ (D_advance s) (D_trans _ _ _ D2 (D_want _ KCloseParen)))|].
    finish_pos. }
  destruct (kind_eqb (tk (cur s)) KOpenBracket).
  { destruct (delimited_list f PArray false (advance s)) as [[es s2]|] eqn:Hlst; [|discriminate].
    inversion H; subst e s'. clear H.
    mono Hc (reach_advance s) Hc1 L1.
    destruct (IHl _ _ _ _ _ Hc1 Hlst) as (R2 & D2 & Kl).
    mono Hc1 R2 Hc2 L2. mono Hc2 (reach_want s2 KCloseBracket) Hc3 L3.
    split; [exact (reach_trans _ _ _ (reach_advance s)
              (reach_trans _ _ _ R2 (reach_want _ KCloseBracket)))|].
    split; [exact (D_trans _ _ _ (D_advance s) (D_trans _ _ _ D2 (D_want _ KCloseBracket)))|].
    rewrite nested_arr. unfold node_pos in *. cbn [epos eend].
    repeat split; try lia. apply Kl. lia. }
  destruct (parse_identifier s C_Expression_expected) as [nm s2] eqn:Hid.
  inversion H; subst e s'. clear H.
  eapply parse_identifier_nested; eauto.
Qed.

Lemma nested_delimited f : nested_at f -> N_list (delimited_list (S f)).
Proof.
  intros (IHe & IHc & IHa & IHb & IHr & IHu & IHcall & IHp & IHl).
  intros c tr s es s' Hc H. cbn [delimited_list] in H.
  destruct (is_list_element c (tk (cur s))).
  - destruct (parse_assign f s) as [[e s1]|] eqn:Ha; [|discriminate].
    destruct (IHa _ _ _ Hc Ha) as (R1 & D1 & Ne & Pe & Ee).
    mono Hc R1 Hc1 L1.
    destruct (at_kind s1 KComma).
    + destruct (delimited_list f c true (advance s1)) as [[es2 s2]|] eqn:Hl; [|discriminate].
      inversion H; subst es s'. clear H.
      mono Hc1 (reach_advance s1) Hc2 L2.
      destruct (IHl _ _ _ _ _ Hc2 Hl) as (R3 & D3 & Kl).
      mono Hc2 R3 Hc3 L3.
      split; [exact (reach_trans _ _ _ R1 (reach_trans _ _ _ (reach_advance s1) R3))|].
      split; [exact (D_trans _ _ _ D1 (D_trans _ _ _ (D_advance s1) D3))|].
      intros from Hfrom. rewrite nested_list_cons.
      split; [lia|]. split; [lia|]. split; [exact Ne|]. apply Kl. lia.
    + destruct (is_list_terminator c (tk (cur s1))).
      * inversion H; subst es s'. clear H.
        split; [exact R1|]. split; [exact D1|].
        intros from Hfrom. rewrite nested_list_cons, nested_list_nil.
        split; [lia|]. split; [lia|]. split; [exact Ne|exact I].
      * destruct (delimited_list f c false (error_at_current s1 C_0_expected))
          as [[es2 s2]|] eqn:Hl; [|discriminate].
        inversion H; subst es s'. clear H.
        assert (Hc2 : cok (error_at_current s1 C_0_expected)) by exact Hc1.
        destruct (IHl _ _ _ _ _ Hc2 Hl) as (R3 & D3 & Kl).
        mono Hc2 R3 Hc3 L3. rewrite cur_eac in L3.
        split; [exact (reach_trans _ _ _ R1 (reach_trans _ _ _ (reach_eac s1 _) R3))|].
        split; [exact (D_trans _ _ _ (D_eac s1 C_0_expected s) D3)|].
        intros from Hfrom. rewrite nested_list_cons.
        split; [lia|]. split; [lia|]. split; [exact Ne|]. apply Kl. rewrite cur_eac. lia.
  - destruct (is_list_terminator c (tk (cur s))).
    + inversion H; subst es s'. clear H. destruct tr.
      * split; [apply reach_eac|]. split; [apply D_eac|]. intros from _. exact I.
      * split; [apply reach_refl|]. split; [apply D_refl|]. intros from _. exact I.
    + assert (Hc1 : cok (error_at_current s (ctx_error c))) by exact Hc.
      mono Hc1 (reach_advance (error_at_current s (ctx_error c))) Hc2 L2. rewrite cur_eac in L2.
      destruct (IHl _ _ _ _ _ Hc2 H) as (R3 & D3 & Kl).
      split; [exact (reach_trans _ _ _ (reach_eac s _) (reach_trans _ _ _ (reach_advance _) R3))|].
      split; [exact (D_trans _ _ _ (D_trans _ _ _ (D_eac s (ctx_error c) s) (D_advance _)) D3)|].
      intros from Hfrom. apply Kl. lia.
Qed.

Theorem nested_all : forall f, nested_at f.
Proof.
  induction f as [|f IH].
  - unfold nested_at, N_expr, N_rest, N_list. repeat split; intros; discriminate.
  - unfold nested_at. repeat apply conj.
    + apply nested_expression; exact IH.
    + apply nested_comma; exact IH.
    + apply nested_assign; exact IH.
    + apply nested_binary; exact IH.
    + apply nested_binary_rest; exact IH.
    + apply nested_unary; exact IH.
    + apply nested_call_rest; exact IH.
    + apply nested_primary; exact IH.
    + apply nested_delimited; exact IH.
Qed.

(* ---------- an expression cannot start at the end-of-file token without a diagnostic ---------- *)

Lemma eof_primary f s e s' :
  tk (cur s) = KEOF -> parse_primary f s = Some (e, s') -> diags s' <> [].
Proof.
  intros Hk H. destruct f as [|f]; [discriminate|]. cbn [parse_primary] in H.
  destruct (is_literal_start (tk (cur s))) eqn:E1; [rewrite Hk in E1; discriminate E1|].
  destruct (kind_eqb (tk (cur s)) KOpenParen) eqn:E2;
    [apply kind_eqb_eq in E2; rewrite Hk in E2; discriminate E2|].
  destruct (kind_eqb (tk (cur s)) KOpenBracket) eqn:E3;
    [apply kind_eqb_eq in E3; rewrite Hk in E3; discriminate E3|].
  unfold parse_identifier in H.
  destruct (is_identifier_kind (tk (cur s))) eqn:E4; [rewrite Hk in E4; discriminate E4|].
  inversion H; subst e s'. apply diags_error_at_current.
Qed.

Lemma eof_unary f s e s' :
  cok s -> tk (cur s) = KEOF -> parse_unary f s = Some (e, s') -> diags s' <> [].
Proof.
  intros Hc Hk H. destruct f as [|f]; [discriminate|]. cbn [parse_unary] in H.
  destruct (nested_all f) as (_ & _ & _ & _ & _ & _ & IHcall & IHp & _).
  destruct (is_prefix_op (tk (cur s))) eqn:E1; [rewrite Hk in E1; discriminate E1|].
  destruct (kind_eqb (tk (cur s)) KTypeof) eqn:E2;
    [apply kind_eqb_eq in E2; rewrite Hk in E2; discriminate E2|].
  destruct (parse_primary f s) as [[e0 s1]|] eqn:Hp; [|discriminate].
  destruct (member_rest f e0 s1) as [[e2 s2]|] eqn:Hm; [|discriminate].
  destruct (IHp _ _ _ Hc Hp) as (R1 & _).
  mono Hc R1 Hc1 L1.
  destruct (member_rest_nested _ _ _ _ _ Hc1 Hm) as (R2 & D2 & _).
  mono Hc1 R2 Hc2 L2.
  destruct (IHcall _ _ _ _ Hc2 H) as (_ & D3 & _).
  intros Hd. exact (eof_primary _ _ _ _ Hk Hp (D2 (D3 Hd))).
Qed.

Lemma eof_binary f p s e s' :
  cok s -> tk (cur s) = KEOF -> parse_binary f p s = Some (e, s') -> diags s' <> [].
Proof.
  intros Hc Hk H. destruct f as [|f]; [discriminate|]. cbn [parse_binary] in H.
  destruct (nested_all f) as (_ & _ & _ & _ & IHr & IHu & _).
  destruct (parse_unary f s) as [[l s1]|] eqn:Hu; [|discriminate].
  destruct (IHu _ _ _ Hc Hu) as (R1 & _).
  mono Hc R1 Hc1 L1.
  destruct (IHr p _ _ _ _ Hc1 H) as (_ & D2 & _).
  intros Hd. exact (eof_unary _ _ _ _ Hc Hk Hu (D2 Hd)).
Qed.

Lemma eof_assign f s e s' :
  cok s -> tk (cur s) = KEOF -> parse_assign f s = Some (e, s') -> diags s' <> [].
Proof.
  intros Hc Hk H. destruct f as [|f]; [discriminate|]. cbn [parse_assign] in H.
  destruct (nested_all f) as (_ & _ & IHa & IHb & _).
  destruct (parse_binary f 0 s) as [[c s1]|] eqn:Hb; [|discriminate].
  destruct (IHb 0 _ _ _ Hc Hb) as (R1 & _).
  mono Hc R1 Hc1 L1.
  pose proof (eof_binary _ _ _ _ _ Hc Hk Hb) as Hne.
  destruct (is_assignment_op (tk (cur s1))).
  - destruct (parse_assign f (advance s1)) as [[r s3]|] eqn:Ha; [|discriminate].
    inversion H; subst e s'. clear H.
    mono Hc1 (reach_advance s1) Hc2 L2.
    destruct (IHa _ _ _ Hc2 Ha) as (_ & D3 & _).
    intros Hd. exact (Hne (D_advance _ (D3 Hd))).
  - destruct (at_kind s1 KQuestion).
    + destruct (parse_assign f (advance s1)) as [[wt s3]|] eqn:Ha1; [|discriminate].
      mono Hc1 (reach_advance s1) Hc2 L2.
      destruct (IHa _ _ _ Hc2 Ha1) as (R3 & D3 & _).
      mono Hc2 R3 Hc3 L3.
      destruct (at_kind s3 KColon); cbv beta iota zeta in H.
      * destruct (parse_assign f (advance s3)) as [[wfl s5]|] eqn:Ha2; [|discriminate].
        inversion H; subst e s'. clear H.
        mono Hc3 (reach_advance s3) Hc4 L4.
        destruct (IHa _ _ _ Hc4 Ha2) as (_ & D5 & _).
        intros Hd. exact (Hne (D_advance _ (D3 (D_advance _ (D5 Hd))))).
      * destruct (parse_assign f (error_at_current s3 C_0_expected)) as [[wfl s5]|] eqn:Ha2;
          [|discriminate].
        inversion H; subst e s'. clear H.
        assert (Hc4 : cok (error_at_current s3 C_0_expected)) by exact Hc3.
        destruct (IHa _ _ _ Hc4 Ha2) as (_ & D5 & _).
        intros Hd. exact (diags_error_at_current _ _ (D5 Hd)).
    + inversion H; subst e s'. exact Hne.
Qed.

Lemma eof_expression f s e s' :
  cok s -> tk (cur s) = KEOF -> parse_expression f s = Some (e, s') -> diags s' <> [].
Proof.
  intros Hc Hk H. destruct f as [|f]; [discriminate|]. cbn [parse_expression] in H.
  destruct (nested_all f) as (_ & IHc & IHa & _).
  destruct (parse_assign f s) as [[e1 s1]|] eqn:Ha; [|discriminate].
  destruct (IHa _ _ _ Hc Ha) as (R1 & _).
  mono Hc R1 Hc1 L1.
  destruct (IHc _ _ _ _ Hc1 H) as (_ & D2 & _).
  intros Hd. exact (eof_assign _ _ _ _ Hc Hk Ha (D2 Hd)).
Qed.

(* ---------- the theorems about parse_tokens ---------- *)

Definition result_tree (r : parse_result) : option expr :=
  match r with Accepted e => Some e | Rejected _ _ e => Some e | OutOfFuel => None end.

Lemma result_tree_run fuel t0 r e :
  result_tree (parse_tokens fuel (t0 :: r)) = Some e ->
  exists s1, parse_expression fuel (mkSt t0 r (add_diags [] (tdiags t0))) = Some (e, s1).
Proof.
  intros H. unfold parse_tokens in H.
  destruct (parse_expression fuel (mkSt t0 r (add_diags [] (tdiags t0)))) as [[e1 s1]|];
    [|discriminate].
  exists s1.
  destruct (rev (diags (advance (if at_kind s1 KEOF then s1
                                 else error_at_current s1 C_0_expected))));
    cbn [result_tree] in H; inversion H; reflexivity.
Qed.

(* Every tree the parser returns, accepted or rejected, has nested source ranges; it starts
   at the start of the first token and ends at the start of some token of the stream (the
   one the parser stopped at), hence inside the text. *)
Theorem parsed_nested : forall fuel toks e,
  contiguous toks -> result_tree (parse_tokens fuel toks) = Some e ->
  nested e /\ epos e = tstart (hd_tok toks) /\
  exists c t r, toks = c ++ t :: r /\ eend e = tstart t.
Proof.
  intros fuel toks e Hc H. destruct toks as [|t0 r]; [discriminate|].
  destruct (result_tree_run _ _ _ _ H) as (s1 & Hp).
  destruct (nested_all fuel) as (IHe & _).
  assert (Hc0 : cok (mkSt t0 r (add_diags [] (tdiags t0)))) by exact Hc.
  destruct (IHe _ _ _ Hc0 Hp) as ((c & E) & _ & N & P & Ee).
  split; [exact N|]. split; [exact P|].
  exists c, (cur s1), (rest s1). split; [exact E|exact Ee].
Qed.

Theorem rejected_nested : forall fuel toks d ds e,
  contiguous toks -> parse_tokens fuel toks = Rejected d ds e -> nested e.
Proof.
  intros fuel toks d ds e Hc H.
  apply (parsed_nested fuel toks e Hc). rewrite H. reflexivity.
Qed.

Lemma eof_is_last pre : forall (x : token) c y r,
  pre ++ [x] = c ++ y :: r -> Forall (fun u => tk u <> KEOF) pre -> tk y = KEOF ->
  r = [] /\ c = pre /\ x = y.
Proof.
  induction pre as [|a pre IH]; intros x c y r E F Hy; cbn [app] in E.
  - destruct c as [|a' c]; cbn [app] in E.
    + inversion E; subst. auto.
    + inversion E. exfalso. eapply app_cons_not_nil; eauto.
  - destruct c as [|a' c]; cbn [app] in E.
    + inversion E; subst. inversion F; subst. contradiction.
    + inversion E; subst a'. inversion F; subst.
      destruct (IH _ _ _ _ H1 H3 Hy) as (? & ? & ?). subst. auto.
Qed.

Lemma contiguous_last pre : forall l x,
  contiguous (pre ++ [l; x]) -> tstart x = tend l.
Proof.
  intros l x H. apply contiguous_app in H. cbn [contiguous] in H. tauto.
Qed.

(* Statement 3.  The existential is stated as a decomposition of the stream:
   toks = pre ++ [last; eof]; the tree ends at [tend last], which is [tstart eof]. *)
Theorem accepted_nested : forall fuel toks e,
  stream_ok toks -> contiguous toks -> parse_tokens fuel toks = Accepted e ->
  nested e /\ epos e = tstart (hd_tok toks) /\
  exists pre last eof,
    toks = pre ++ [last; eof] /\ tk eof = KEOF /\ eend e = tend last /\ eend e = tstart eof.
Proof.
  intros fuel toks e Hok Hc H. destruct toks as [|t0 r]; [discriminate|].
  destruct (accepted_run _ _ _ _ H) as (s1 & Hp & Heof & Hd).
  destruct (nested_all fuel) as (IHe & _).
  assert (Hc0 : cok (mkSt t0 r (add_diags [] (tdiags t0)))) by exact Hc.
  destruct (IHe _ _ _ Hc0 Hp) as ((c & E) & _ & N & P & Ee).
  split; [exact N|]. split; [exact P|].
  destruct Hok as (pre & x & Ex & Kx & F).
  unfold toks_of in E. cbn [cur rest] in E.
  rewrite Ex in E. destruct (eof_is_last _ _ _ _ _ E F Heof) as (Er & Ec & Exy). subst c.
  destruct (@exists_last _ pre) as (pre' & l & El).
  - intros Epre. subst pre. cbn [app] in Ex. inversion Ex; subst t0 r.
    apply (eof_expression _ _ _ _ Hc0 Kx Hp). exact Hd.
  - exists pre', l, x. subst pre. rewrite Ex, <- app_assoc. cbn [app].
    split; [reflexivity|]. split; [exact Kx|].
    rewrite Ex, <- app_assoc in Hc. cbn [app] in Hc.
    rewrite <- (contiguous_last _ _ _ Hc). rewrite Exy. split; exact Ee.
Qed.

Lemma last_app_ne {A} (c l : list A) d : l <> [] -> last (c ++ l) d = last l d.
Proof.
  intros Hl. induction c as [|a c IH]; cbn [app]; [reflexivity|].
  destruct (c ++ l) as [|b m] eqn:E.
  - apply app_eq_nil in E. destruct E as (_ & E). contradiction.
  - rewrite <- IH. reflexivity.
Qed.

Lemma contiguous_le_last d : forall l t, contiguous (t :: l) -> tstart t <= tend (last (t :: l) d).
Proof.
  induction l as [|u l IH]; intros t H.
  - cbn [contiguous last] in *. lia.
  - cbn [contiguous] in H. destruct H as (H1 & H2 & H3).
    specialize (IH u H3). change (last (t :: u :: l) d) with (last (u :: l) d). lia.
Qed.

(* The tree lies inside the text: [0, tend of the last token]. *)
Theorem within_text : forall fuel toks e,
  contiguous toks -> 0 <= tstart (hd_tok toks) ->
  result_tree (parse_tokens fuel toks) = Some e ->
  0 <= epos e /\ epos e <= eend e /\ eend e <= tend (last toks (hd_tok toks)).
Proof.
  intros fuel toks e Hc H0 H.
  destruct (parsed_nested _ _ _ Hc H) as (N & P & c & t & r & E & Ee).
  split; [lia|]. split; [apply nested_le; exact N|].
  rewrite Ee. rewrite E at 1. rewrite last_app_ne by discriminate.
  apply contiguous_le_last. rewrite E in Hc. eapply contiguous_app; eauto.
Qed.

(* ====================================================================================== *)
(* 7. Link to the scanner specification: a stream that tiles the text (Lex/ScanSpec.v)    *)
(*    is contiguous, starts at [from] and has its only end-of-file token last             *)
(* ====================================================================================== *)

Lemma tiles_facts : forall toks from to,
  tiles toks from to -> contiguous toks /\ tstart (hd_tok toks) = from /\ stream_ok toks.
Proof.
  induction toks as [|t r IH]; intros from to H; [contradiction|].
  destruct r as [|u r].
  - cbn [tiles] in H. destruct H as (K & H1 & H2 & H3 & H4).
    split; [cbn [contiguous]; repeat split; lia|]. split; [exact H1|].
    exists [], t. split; [reflexivity|]. split; [exact K|constructor].
  - change (tiles (t :: u :: r) from to) with
      (tk t <> KEOF /\ tstart t = from /\ tstart t <= tpos t /\ tpos t < tend t /\
       tiles (u :: r) (tend t) to) in H.
    destruct H as (K & H1 & H2 & H3 & H4).
    destruct (IH _ _ H4) as (C & S & (pre & e & E & Ke & F)).
    split; [|split; [exact H1|]].
    + change (contiguous (t :: u :: r)) with
        (tstart t <= tpos t <= tend t /\ tstart u = tend t /\ contiguous (u :: r)).
      cbn [hd_tok hd] in S. split; [lia|]. split; [exact S|exact C].
    + exists (t :: pre), e. split; [rewrite E; reflexivity|]. split; [exact Ke|].
      constructor; assumption.
Qed.

(* Statement 3 for streams that tile a text starting at 0: the tree spans exactly from 0 to
   the end of the last token before the end-of-file token. *)
Corollary accepted_nested_tiles : forall fuel toks to e,
  tiles toks 0 to -> parse_tokens fuel toks = Accepted e ->
  nested e /\ epos e = 0 /\
  exists pre last eof,
    toks = pre ++ [last; eof] /\ tk eof = KEOF /\ eend e = tend last /\ eend e <= to.
Proof.
  intros fuel toks to e Ht H.
  destruct (tiles_facts _ _ _ Ht) as (C & S & O).
  destruct (accepted_nested _ _ _ O C H) as (N & P & pre & l & x & E & K & E1 & E2).
  split; [exact N|]. split; [lia|].
  exists pre, l, x. split; [exact E|]. split; [exact K|]. split; [exact E1|].
  (* eend e = tstart x <= tend x = to *)
  rewrite E2. clear - Ht E. subst toks. revert Ht. generalize 0.
  induction pre as [|a pre IH]; intros from Ht.
  - cbn [app tiles] in Ht. lia.
  - destruct pre as [|b pre].
    + cbn [app] in Ht, IH.
      assert (Ht' : tiles [l; x] (tend a) to) by (cbn [tiles] in Ht; cbn [tiles]; tauto).
      exact (IH _ Ht').
    + cbn [app] in Ht, IH.
      assert (Ht' : tiles (b :: pre ++ [l; x]) (tend a) to) by (cbn [tiles] in Ht; tauto).
      exact (IH _ Ht').
Qed.

(* ====================================================================================== *)
(* Summary                                                                                *)
(* ====================================================================================== *)
(* - parse_sound, parse_sound_rejects AS STATED ARE FALSE of the model
     (parse_sound_as_stated_is_false, parse_sound_rejects_as_stated_is_false): [derives]
     compares token values, [stream_ok] does not constrain them, the parser ignores the value
     of punctuation.  Counterexample: [1 <eof>] where the end-of-file token has value [7].
   - parse_sound_partial, parse_sound_rejects_partial: the same statements under the extra
     hypothesis [values_ok toks] (punctuation/EOF tokens have the empty value, the typeof
     token has value "typeof").
   - scan_all_stream_ok, scan_all_canon: every scanned stream satisfies both hypotheses, hence
     parse_sound_scanned / parse_source_sound: statement 1 verbatim for scanned streams.
   - accepted_nested: as requested, with contiguous/hd_tok defined above and the existential
     given as toks = pre ++ [last; eof].  parsed_nested / rejected_nested: nesting holds for
     every tree the parser returns, accepted or not.  within_text.  *)

Print Assumptions parse_sound_as_stated_is_false.
Print Assumptions parse_sound_rejects_as_stated_is_false.
Print Assumptions parse_sound_partial.
Print Assumptions parse_sound_rejects_partial.
Print Assumptions parse_sound_scanned.
Print Assumptions parse_source_sound.
Print Assumptions accepted_nested.
Print Assumptions rejected_nested.
Print Assumptions parsed_nested.
Print Assumptions within_text.
Print Assumptions accepted_nested_tiles.
