(* Integer-level facts about the decimal model (Num/Dec.v): digit counting, half-even
   rounding of a coefficient, the rounded division, remainder, and entry of literals.
   Everything here is stated on integers (coefficients at a common exponent); the rational
   reading is in DecVal.v. *)
From Coq Require Import List ZArith Bool Lia.
From Formula Require Import Num.Dec.
Open Scope Z_scope.

(* ---------- powers of ten ---------- *)

Lemma pow10_pos n : 0 <= n -> 0 < pow10 n.
Proof. intros Hn. unfold pow10. apply Z.pow_pos_nonneg; lia. Qed.

Lemma pow10_0 : pow10 0 = 1.
Proof. reflexivity. Qed.

Lemma pow10_add a b : 0 <= a -> 0 <= b -> pow10 (a + b) = pow10 a * pow10 b.
Proof. intros Ha Hb. unfold pow10. apply Z.pow_add_r; assumption. Qed.

Lemma pow10_succ a : 0 <= a -> pow10 (a + 1) = 10 * pow10 a.
Proof. intros Ha. rewrite pow10_add by lia. change (pow10 1) with 10. lia. Qed.

Lemma pow10_le a b : 0 <= a <= b -> pow10 a <= pow10 b.
Proof. intros H. unfold pow10. apply Z.pow_le_mono_r; lia. Qed.

Lemma pow10_lt a b : 0 <= a < b -> pow10 a < pow10 b.
Proof. intros H. unfold pow10. apply Z.pow_lt_mono_r; lia. Qed.

Lemma pow10_lt_inv a b : 0 <= a -> 0 <= b -> pow10 a < pow10 b -> a < b.
Proof.
  intros Ha Hb H. destruct (Z_lt_le_dec a b) as [L|L]; [exact L|].
  pose proof (pow10_le b a ltac:(lia)). lia.
Qed.

Lemma pow10_ge1 n : 0 <= n -> 1 <= pow10 n.
Proof. intros Hn. pose proof (pow10_pos n Hn). lia. Qed.

Lemma pow10_even n : 0 < n -> Z.even (pow10 n) = true.
Proof.
  intros Hn. replace n with ((n - 1) + 1) by lia. rewrite pow10_succ by lia.
  rewrite Z.even_mul. reflexivity.
Qed.

(* ---------- ndigits ---------- *)

Lemma ndigits_go_spec : forall fuel c acc, 0 < c -> c < 2 ^ Z.of_nat fuel ->
  let k := ndigits_go fuel c acc - acc in
  1 <= k /\ pow10 (k - 1) <= c < pow10 k.
Proof.
  induction fuel as [|f IH]; intros c acc Hc Hlt.
  - cbn in Hlt. lia.
  - cbn [ndigits_go]. destruct (c <? 10) eqn:E; [apply Z.ltb_lt in E|apply Z.ltb_ge in E].
    + replace (acc + 1 - acc) with 1 by lia. cbn zeta. change (pow10 (1 - 1)) with 1.
      change (pow10 1) with 10. lia.
    + pose proof (Z.div_mod c 10 ltac:(lia)) as Hdm.
      pose proof (Z.mod_pos_bound c 10 ltac:(lia)) as Hmb.
      assert (Hc10 : 0 < c / 10) by lia.
      assert (Hlt10 : c / 10 < 2 ^ Z.of_nat f).
      { rewrite Nat2Z.inj_succ, Z.pow_succ_r in Hlt by lia. lia. }
      specialize (IH (c / 10) (acc + 1) Hc10 Hlt10). cbn zeta in IH.
      set (k' := ndigits_go f (c / 10) (acc + 1) - (acc + 1)) in *.
      cbn zeta.
      replace (ndigits_go f (c / 10) (acc + 1) - acc) with (k' + 1) by (unfold k'; lia).
      destruct IH as (Hk & Hlo & Hhi).
      replace (k' + 1 - 1) with ((k' - 1) + 1) by lia.
      rewrite (pow10_succ (k' - 1)) by lia. rewrite (pow10_succ k') by lia.
      lia.
Qed.

Theorem ndigits_spec c : 0 < c -> 10 ^ (ndigits c - 1) <= c < 10 ^ (ndigits c).
Proof.
  intros Hc. unfold ndigits. destruct (c <=? 0) eqn:E; [apply Z.leb_le in E; lia|].
  assert (Hb : c < 2 ^ Z.of_nat (S (Z.to_nat (Z.log2 c)))).
  { rewrite Nat2Z.inj_succ, Z2Nat.id by apply Z.log2_nonneg.
    apply (Z.log2_spec c Hc). }
  pose proof (ndigits_go_spec _ c 0 Hc Hb) as H. cbn zeta in H.
  rewrite Z.sub_0_r in H. exact (proj2 H).
Qed.

Lemma ndigits_pos c : 1 <= ndigits c.
Proof.
  unfold ndigits. destruct (c <=? 0) eqn:E; [lia|apply Z.leb_gt in E].
  assert (Hb : c < 2 ^ Z.of_nat (S (Z.to_nat (Z.log2 c)))).
  { rewrite Nat2Z.inj_succ, Z2Nat.id by apply Z.log2_nonneg.
    apply (Z.log2_spec c E). }
  pose proof (ndigits_go_spec _ c 0 E Hb) as H. cbn zeta in H.
  rewrite Z.sub_0_r in H. exact (proj1 H).
Qed.

Lemma ndigits_nonpos c : c <= 0 -> ndigits c = 1.
Proof. intros H. unfold ndigits. apply Z.leb_le in H. rewrite H. reflexivity. Qed.

Lemma ndigits_bounds c : 0 < c -> pow10 (ndigits c - 1) <= c < pow10 (ndigits c).
Proof. exact (ndigits_spec c). Qed.

(* the bounds determine the digit count *)
Lemma ndigits_unique c k : 1 <= k -> pow10 (k - 1) <= c < pow10 k -> ndigits c = k.
Proof.
  intros Hk [Hlo Hhi].
  assert (Hc : 0 < c) by (pose proof (pow10_pos (k - 1) ltac:(lia)); lia).
  pose proof (ndigits_bounds c Hc) as [Hlo' Hhi']. pose proof (ndigits_pos c) as Hp.
  assert (k - 1 < ndigits c) by (apply pow10_lt_inv; lia).
  assert (ndigits c - 1 < k) by (apply pow10_lt_inv; lia).
  lia.
Qed.

Lemma ndigits_le_iff c p : 0 <= c -> 1 <= p -> (ndigits c <= p <-> c < pow10 p).
Proof.
  intros Hc Hp. destruct (Z.eq_dec c 0) as [->|Hne].
  - rewrite ndigits_nonpos by lia. pose proof (pow10_pos p ltac:(lia)). lia.
  - pose proof (ndigits_bounds c ltac:(lia)) as [Hlo Hhi]. pose proof (ndigits_pos c) as Hn. split.
    + intros H. pose proof (pow10_le (ndigits c) p ltac:(lia)). lia.
    + intros H. assert (ndigits c - 1 < p) by (apply pow10_lt_inv; lia). lia.
Qed.

Lemma ndigits_pow10 k : 0 <= k -> ndigits (pow10 k) = k + 1.
Proof.
  intros Hk. apply ndigits_unique; [lia|]. replace (k + 1 - 1) with k by lia.
  pose proof (pow10_lt k (k + 1) ltac:(lia)). lia.
Qed.

(* ---------- half-even rounding of a coefficient ---------- *)

(* what it means for c' (at exponent e') to be the half-even rounding of c (at exponent e):
   c' * 10^(e'-e) is a multiple of the unit 10^(e'-e) nearest to c, an exact tie going to
   the even c' *)
Definition he_nearest (c c' k : Z) : Prop :=
  2 * Z.abs (c - c' * pow10 k) <= pow10 k /\
  (2 * Z.abs (c - c' * pow10 k) = pow10 k -> Z.even c' = true).

Lemma nearest_even_unique n d q1 q2 : 0 < d ->
  2 * Z.abs (n - q1 * d) <= d -> (2 * Z.abs (n - q1 * d) = d -> Z.even q1 = true) ->
  2 * Z.abs (n - q2 * d) <= d -> (2 * Z.abs (n - q2 * d) = d -> Z.even q2 = true) ->
  q1 = q2.
Proof.
  intros Hd H1 E1 H2 E2.
  assert (Z.abs (q1 - q2) * d <= d) as Hdiff by nia.
  assert (Z.abs (q1 - q2) <= 1) as Hle by nia.
  destruct (Z.eq_dec q1 q2) as [|Hne]; [assumption|exfalso].
  assert (q1 = q2 + 1 \/ q2 = q1 + 1) as [Hc|Hc] by lia.
  - assert (T1 : 2 * Z.abs (n - q1 * d) = d) by nia. assert (T2 : 2 * Z.abs (n - q2 * d) = d) by nia.
    specialize (E1 T1). specialize (E2 T2). subst q1. rewrite Z.even_add in E1. rewrite E2 in E1. discriminate.
  - assert (T1 : 2 * Z.abs (n - q1 * d) = d) by nia. assert (T2 : 2 * Z.abs (n - q2 * d) = d) by nia.
    specialize (E1 T1). specialize (E2 T2). subst q2. rewrite Z.even_add in E2. rewrite E1 in E2. discriminate.
Qed.

Lemma he_nearest_unique c k c1 c2 : 0 <= k -> he_nearest c c1 k -> he_nearest c c2 k -> c1 = c2.
Proof.
  intros Hk [A1 B1] [A2 B2]. apply (nearest_even_unique c (pow10 k)); auto using pow10_pos.
Qed.

(* the rounding step shared by round_he and round_div: q or q+1 by comparing 2r with d *)
Lemma he_step n d : 0 <= n -> 0 < d ->
  let q := n / d in let r := n mod d in
  let up := (d <? 2 * r) || ((2 * r =? d) && Z.odd q) in
  let q' := if up then q + 1 else q in
  q <= q' <= q + 1 /\
  2 * Z.abs (n - q' * d) <= d /\ (2 * Z.abs (n - q' * d) = d -> Z.even q' = true).
Proof.
  intros Hn Hd. cbn zeta.
  pose proof (Z.div_mod n d ltac:(lia)) as Hdm.
  pose proof (Z.mod_pos_bound n d Hd) as Hr.
  set (q := n / d) in *. set (r := n mod d) in *.
  destruct (d <? 2 * r) eqn:E1; [apply Z.ltb_lt in E1|apply Z.ltb_ge in E1]; cbn [orb].
  - split; [lia|]. replace (n - (q + 1) * d) with (r - d) by lia. split; lia.
  - destruct (2 * r =? d) eqn:E2; [apply Z.eqb_eq in E2|apply Z.eqb_neq in E2]; cbn [andb].
    + destruct (Z.odd q) eqn:Eo.
      * split; [lia|]. replace (n - (q + 1) * d) with (r - d) by lia. split; [lia|].
        intros _. rewrite Z.even_add, <- Z.negb_odd, Eo. reflexivity.
      * split; [lia|]. replace (n - q * d) with r by lia. split; [lia|].
        intros _. rewrite <- Z.negb_odd, Eo. reflexivity.
    + split; [lia|]. replace (n - q * d) with r by lia. split; lia.
Qed.

Theorem round_he_exact p c e : ndigits c <= p -> round_he p c e = (c, e).
Proof.
  intros H. unfold round_he. apply Z.leb_le in H. rewrite H. reflexivity.
Qed.

(* main specification of round_he *)
Theorem round_he_spec p c e c' e' : 0 <= c -> 0 < p -> round_he p c e = (c', e') ->
  e <= e' /\ 0 <= c' < 10 ^ p /\
  2 * Z.abs (c - c' * 10 ^ (e' - e)) <= 10 ^ (e' - e) /\
  (2 * Z.abs (c - c' * 10 ^ (e' - e)) = 10 ^ (e' - e) -> Z.even c' = true).
Proof.
  intros Hc Hp. unfold round_he. fold (pow10 p). fold (pow10 (e' - e)).
  destruct (ndigits c <=? p) eqn:En; [apply Z.leb_le in En|apply Z.leb_gt in En].
  - intros H. injection H as <- <-. replace (e - e) with 0 by lia. rewrite pow10_0.
    split; [lia|]. split.
    + split; [lia|]. apply ndigits_le_iff; lia.
    + replace (c - c * 1) with 0 by lia. cbn. split; [lia|]. intros H; discriminate H.
  - assert (Hc0 : 0 < c).
    { destruct (Z.eq_dec c 0) as [->|]; [rewrite ndigits_nonpos in En by lia; lia|lia]. }
    pose proof (ndigits_bounds c Hc0) as [Hlo Hhi].
    set (n := ndigits c) in *. set (d := n - p).
    assert (Hd : 0 < d) by (unfold d; lia).
    pose proof (pow10_pos d ltac:(lia)) as Hpw.
    replace (n - 1) with ((p - 1) + d) in Hlo by (unfold d; lia).
    replace n with (p + d) in Hhi by (unfold d; lia).
    rewrite pow10_add in Hlo, Hhi by lia.
    pose proof (he_step c (pow10 d) Hc Hpw) as Hs. cbn zeta in Hs.
    pose proof (Z.div_mod c (pow10 d) ltac:(lia)) as Hdm.
    pose proof (Z.mod_pos_bound c (pow10 d) Hpw) as Hr.
    set (q := c / pow10 d) in *. set (r := c mod pow10 d) in *.
    set (up := (pow10 d <? 2 * r) || ((2 * r =? pow10 d) && Z.odd q)) in *.
    set (q' := if up then q + 1 else q) in *.
    destruct Hs as (Hq' & Hnear & Htie).
    pose proof (pow10_pos (p - 1) ltac:(lia)) as Hpp1.
    assert (Hp10 : pow10 p = 10 * pow10 (p - 1)).
    { replace p with ((p - 1) + 1) at 1 by lia. apply pow10_succ. lia. }
    assert (Hqlo : pow10 (p - 1) <= q) by nia.
    assert (Hqhi : q < pow10 p) by nia.
    destruct (q' =? pow10 p) eqn:Ec; [apply Z.eqb_eq in Ec|apply Z.eqb_neq in Ec].
    + intros H. injection H as <- <-.
      replace (e + d + 1 - e) with (d + 1) by lia. rewrite pow10_succ by lia.
      split; [lia|]. split; [lia|].
      replace (pow10 (p - 1) * (10 * pow10 d)) with (q' * pow10 d) by (rewrite Ec; lia).
      split; [lia|]. intros T. exfalso. lia.
    + intros H. injection H as <- <-.
      replace (e + d - e) with d by lia.
      split; [lia|]. split; [lia|]. split; assumption.
Qed.

(* when rounding actually happens the result has exactly p digits *)
Lemma round_he_full p c e c' e' : 0 <= c -> 0 < p -> p < ndigits c -> round_he p c e = (c', e') ->
  10 ^ (p - 1) <= c' /\ e < e'.
Proof.
  intros Hc Hp En. unfold round_he. fold (pow10 p). fold (pow10 (p - 1)).
  destruct (ndigits c <=? p) eqn:En'; [apply Z.leb_le in En'; lia|clear En'].
  assert (Hc0 : 0 < c).
  { destruct (Z.eq_dec c 0) as [->|]; [rewrite ndigits_nonpos in En by lia; lia|lia]. }
  pose proof (ndigits_bounds c Hc0) as [Hlo Hhi].
  set (n := ndigits c) in *. set (d := n - p).
  assert (Hd : 0 < d) by (unfold d; lia).
  pose proof (pow10_pos d ltac:(lia)) as Hpw.
  replace (n - 1) with ((p - 1) + d) in Hlo by (unfold d; lia).
  rewrite pow10_add in Hlo by lia.
  pose proof (he_step c (pow10 d) Hc Hpw) as Hs. cbn zeta in Hs.
  pose proof (Z.div_mod c (pow10 d) ltac:(lia)) as Hdm.
  pose proof (Z.mod_pos_bound c (pow10 d) Hpw) as Hr.
  set (q := c / pow10 d) in *. set (r := c mod pow10 d) in *.
  set (up := (pow10 d <? 2 * r) || ((2 * r =? pow10 d) && Z.odd q)) in *.
  set (q' := if up then q + 1 else q) in *.
  destruct Hs as (Hq' & _).
  pose proof (pow10_pos (p - 1) ltac:(lia)) as Hpp1.
  assert (Hqlo : pow10 (p - 1) <= q) by nia.
  destruct (q' =? pow10 p) eqn:Ec; intros H; injection H as <- <-; lia.
Qed.

(* uniqueness: any coefficient meeting the nearest / ties-to-even requirement at the exponent
   chosen by the model is the model's coefficient *)
Theorem round_he_unique p c e c' e' c'' : 0 <= c -> 0 < p -> round_he p c e = (c', e') ->
  2 * Z.abs (c - c'' * 10 ^ (e' - e)) <= 10 ^ (e' - e) ->
  (2 * Z.abs (c - c'' * 10 ^ (e' - e)) = 10 ^ (e' - e) -> Z.even c'' = true) ->
  c'' = c'.
Proof.
  intros Hc Hp Hr A B. pose proof (round_he_spec p c e c' e' Hc Hp Hr) as (He & _ & A' & B').
  apply (nearest_even_unique c (10 ^ (e' - e))); auto.
  apply Z.pow_pos_nonneg; lia.
Qed.

(* rounding is exact when the dropped digits are all zero *)
Lemma round_he_divisible p c e c' e' : 0 <= c -> 0 < p -> round_he p c e = (c', e') ->
  (pow10 (ndigits c - p) | c) -> c' * 10 ^ (e' - e) = c.
Proof.
  intros Hc Hp. unfold round_he. fold (pow10 p). fold (pow10 (e' - e)).
  destruct (ndigits c <=? p) eqn:En; [apply Z.leb_le in En|apply Z.leb_gt in En].
  - intros H _. injection H as <- <-. replace (e - e) with 0 by lia. rewrite pow10_0. lia.
  - intros H Hdiv.
    assert (Hc0 : 0 < c).
    { destruct (Z.eq_dec c 0) as [->|]; [rewrite ndigits_nonpos in En by lia; lia|lia]. }
    pose proof (ndigits_bounds c Hc0) as [Hlo Hhi].
    set (n := ndigits c) in *. set (d := n - p) in *.
    assert (Hd : 0 < d) by (unfold d; lia).
    pose proof (pow10_pos d ltac:(lia)) as Hpw.
    replace n with (p + d) in Hhi by (unfold d; lia).
    rewrite pow10_add in Hhi by lia.
    apply Z.mod_divide in Hdiv; [|lia].
    pose proof (Z.div_mod c (pow10 d) ltac:(lia)) as Hdm.
    rewrite Hdiv in *.
    replace (pow10 d <? 2 * 0) with false in H by (symmetry; apply Z.ltb_ge; lia).
    replace (2 * 0 =? pow10 d) with false in H by (symmetry; apply Z.eqb_neq; lia).
    cbn [orb andb] in H.
    assert (Hq : c / pow10 d < pow10 p) by nia.
    destruct (c / pow10 d =? pow10 p) eqn:Ec; [apply Z.eqb_eq in Ec; lia|].
    injection H as <- <-. replace (e + d - e) with d by lia. lia.
Qed.

(* ---------- well-formed operands ---------- *)

(* a finite decimal with a non-negative coefficient (the representation invariant) *)
Definition finite (x : dec) : bool := match x with Fin _ c _ => 0 <=? c | _ => false end.

Lemma scoef_abs s : scoef (s <? 0) (Z.abs s) = s.
Proof. unfold scoef. destruct (s <? 0) eqn:E; [apply Z.ltb_lt in E|apply Z.ltb_ge in E]; lia. Qed.

(* ---------- strip_zeros ---------- *)

Lemma strip_zeros_go_spec : forall fuel c e c' e', 0 < c -> strip_zeros_go fuel c e = (c', e') ->
  exists j, 0 <= j /\ e' = e + j /\ c = c' * pow10 j /\ 0 < c'.
Proof.
  induction fuel as [|f IH]; intros c e c' e' Hc H.
  - cbn in H. injection H as <- <-. exists 0. rewrite pow10_0. lia.
  - cbn [strip_zeros_go] in H.
    destruct ((c mod 10 =? 0) && negb (c =? 0)) eqn:E.
    + apply andb_true_iff in E. destruct E as [E _]. apply Z.eqb_eq in E.
      pose proof (Z.div_mod c 10 ltac:(lia)) as Hdm.
      destruct (IH (c / 10) (e + 1) c' e' ltac:(lia) H) as (j & Hj & He & Hcj & Hc').
      exists (j + 1). rewrite pow10_succ by lia. split; [lia|]. split; [lia|]. split; [lia|lia].
    + injection H as <- <-. exists 0. rewrite pow10_0. lia.
Qed.

Lemma strip_zeros_spec c e c' e' : 0 < c -> strip_zeros c e = (c', e') ->
  exists j, 0 <= j /\ e' = e + j /\ c = c' * pow10 j /\ 0 < c'.
Proof. unfold strip_zeros. apply strip_zeros_go_spec. Qed.

(* ---------- round_div ---------- *)

(* numerator and denominator of the exact quotient n/d scaled by 10^k, as integers *)
Definition numk (n k : Z) : Z := if 0 <=? k then n * pow10 k else n.
Definition denk (d k : Z) : Z := if 0 <=? k then d else d * pow10 (- k).
Definition quotk (n d k : Z) : Z := if 0 <=? k then (n * pow10 k) / d else n / (d * pow10 (- k)).

Lemma quotk_eq n d k : quotk n d k = numk n k / denk d k.
Proof. unfold quotk, numk, denk. destruct (0 <=? k); reflexivity. Qed.

Lemma numk_pos n k : 0 < n -> 0 < numk n k.
Proof.
  intros Hn. unfold numk. destruct (0 <=? k) eqn:E; [apply Z.leb_le in E|lia].
  pose proof (pow10_pos k E). nia.
Qed.

Lemma denk_pos d k : 0 < d -> 0 < denk d k.
Proof.
  intros Hd. unfold denk. destruct (0 <=? k) eqn:E; [lia|apply Z.leb_gt in E].
  pose proof (pow10_pos (- k) ltac:(lia)). nia.
Qed.

Lemma numden_step n d k : numk n k * denk d (k - 1) = 10 * numk n (k - 1) * denk d k.
Proof.
  unfold numk, denk.
  destruct (0 <=? k) eqn:E1; [apply Z.leb_le in E1|apply Z.leb_gt in E1];
  (destruct (0 <=? k - 1) eqn:E2; [apply Z.leb_le in E2|apply Z.leb_gt in E2]); try lia.
  - replace k with ((k - 1) + 1) at 1 by lia. rewrite pow10_succ by lia. lia.
  - assert (k = 0) by lia. subst k. change (pow10 0) with 1. change (pow10 (- (0 - 1))) with 10. lia.
  - replace (- (k - 1)) with ((- k) + 1) by lia. rewrite pow10_succ by lia. lia.
Qed.

Lemma numden_k0 p n d : 0 < n -> 0 < d -> 0 < p ->
  let k0 := p - ndigits n + ndigits d in
  pow10 (p - 1) * denk d k0 <= numk n k0 < pow10 (p + 1) * denk d k0.
Proof.
  intros Hn Hd Hp k0.
  pose proof (ndigits_bounds n Hn) as [HAlo HAhi]. pose proof (ndigits_bounds d Hd) as [HBlo HBhi].
  pose proof (ndigits_pos n) as Ha. pose proof (ndigits_pos d) as Hb.
  set (a := ndigits n) in *. set (b := ndigits d) in *.
  replace a with ((a - 1) + 1) in HAhi by lia. replace b with ((b - 1) + 1) in HBhi by lia.
  rewrite pow10_succ in HAhi, HBhi by lia.
  pose proof (pow10_pos (a - 1) ltac:(lia)) as HA. pose proof (pow10_pos (b - 1) ltac:(lia)) as HB.
  pose proof (pow10_pos (p - 1) ltac:(lia)) as HP.
  replace (p + 1) with ((p - 1) + 1 + 1) by lia. rewrite !pow10_succ by lia.
  set (A := pow10 (a - 1)) in *. set (B := pow10 (b - 1)) in *. set (P := pow10 (p - 1)) in *.
  unfold numk, denk. destruct (0 <=? k0) eqn:E; [apply Z.leb_le in E|apply Z.leb_gt in E].
  - pose proof (pow10_pos k0 E) as HK.
    assert (Key : P * (10 * B) = A * pow10 k0).
    { unfold P, B, A. rewrite <- pow10_succ, <- !pow10_add by lia. f_equal. unfold k0. lia. }
    set (K := pow10 k0) in *.
    assert (P * d < P * (10 * B)) by nia. assert (A * K <= n * K) by nia.
    assert (n * K < 10 * A * K) by nia. assert (10 * (P * (10 * B)) <= 10 * (10 * P) * d) by nia.
    lia.
  - pose proof (pow10_pos (- k0) ltac:(lia)) as HK.
    assert (Key : P * (10 * B) * pow10 (- k0) = A).
    { unfold P, B, A. rewrite <- pow10_succ, <- !pow10_add by lia. f_equal. unfold k0. lia. }
    set (K := pow10 (- k0)) in *.
    assert (P * (d * K) < P * (10 * B) * K) by nia.
    assert (10 * (P * (10 * B) * K) <= 10 * (10 * P) * (d * K)) by nia.
    lia.
Qed.

Definition choose_k (p n d : Z) : Z :=
  let k0 := p - ndigits n + ndigits d in
  if pow10 p <=? quotk n d k0 then k0 - 1
  else if quotk n d k0 <? pow10 (p - 1) then k0 + 1 else k0.

Lemma choose_k_spec p n d : 0 < n -> 0 < d -> 0 < p ->
  let k := choose_k p n d in
  pow10 (p - 1) * denk d k <= numk n k < pow10 p * denk d k.
Proof.
  intros Hn Hd Hp. unfold choose_k.
  pose proof (numden_k0 p n d Hn Hd Hp) as H0. cbn zeta in H0.
  set (k0 := p - ndigits n + ndigits d) in *.
  rewrite quotk_eq.
  pose proof (denk_pos d k0 Hd) as HD. pose proof (numk_pos n k0 Hn) as HN.
  pose proof (Z.div_mod (numk n k0) (denk d k0) ltac:(lia)) as Hdm.
  pose proof (Z.mod_pos_bound (numk n k0) (denk d k0) HD) as Hmb.
  pose proof (pow10_pos (p - 1) ltac:(lia)) as HP.
  assert (Hp10 : pow10 p = 10 * pow10 (p - 1)).
  { replace p with ((p - 1) + 1) at 1 by lia. apply pow10_succ. lia. }
  assert (Hp11 : pow10 (p + 1) = 10 * pow10 p) by (apply pow10_succ; lia).
  set (q := numk n k0 / denk d k0) in *.
  destruct (pow10 p <=? q) eqn:E1; [apply Z.leb_le in E1|apply Z.leb_gt in E1].
  - cbn zeta. pose proof (numden_step n d k0) as Hst.
    pose proof (denk_pos d (k0 - 1) Hd) as HD'. pose proof (numk_pos n (k0 - 1) Hn) as HN'.
    assert (pow10 p * denk d k0 <= numk n k0) by nia.
    set (N := numk n k0) in *. set (D := denk d k0) in *.
    set (N' := numk n (k0 - 1)) in *. set (D' := denk d (k0 - 1)) in *.
    set (P := pow10 (p - 1)) in *. rewrite Hp10.
    split.
    + (* P * D' <= N' : multiply by 10 * D *)
      assert (P * D' * (10 * D) <= N' * (10 * D)) by nia. nia.
    + assert (N' * (10 * D) < 10 * P * D' * (10 * D)) by nia. nia.
  - destruct (q <? pow10 (p - 1)) eqn:E2; [apply Z.ltb_lt in E2|apply Z.ltb_ge in E2].
    + exfalso. nia.
    + cbn zeta. split; [lia|]. nia.
Qed.

Lemma round_div_unfold p n d e :
  round_div p n d e =
  let k := choose_k p n d in
  let num := numk n k in
  let den := denk d k in
  let q := num / den in
  let r := num mod den in
  if r =? 0 then strip_zeros q (e - k)
  else
    let up := (den <? 2 * r) || ((2 * r =? den) && Z.odd q) in
    let q' := if up then q + 1 else q in
    if q' =? pow10 p then (pow10 (p - 1), e - k + 1) else (q', e - k).
Proof. reflexivity. Qed.

(* Specification of round_div.  With k the scaling chosen by the model, num/den is the exact
   quotient n/d scaled by 10^k and lies in [10^(p-1), 10^p): the unit of the p-th significant
   digit of the quotient is 10^(e-k).  The result c * 10^e', expressed in that unit as the
   integer m, is the multiple nearest to num/den, ties to even, and is exact when den | num. *)
Theorem round_div_spec p n d e c e' : 0 < n -> 0 < d -> 0 < p -> round_div p n d e = (c, e') ->
  exists k,
    let num := numk n k in let den := denk d k in
    pow10 (p - 1) * den <= num < pow10 p * den /\
    e - k <= e' /\ 0 < c < pow10 p /\
    let m := c * pow10 (e' - (e - k)) in
    2 * Z.abs (num - m * den) <= den /\
    (2 * Z.abs (num - m * den) = den -> Z.even m = true) /\
    ((den | num) -> num = m * den).
Proof.
  intros Hn Hd Hp. rewrite round_div_unfold.
  pose proof (choose_k_spec p n d Hn Hd Hp) as Hk. cbn zeta in Hk.
  set (k := choose_k p n d) in *. cbn zeta.
  pose proof (denk_pos d k Hd) as HD. pose proof (numk_pos n k Hn) as HN.
  pose proof (Z.div_mod (numk n k) (denk d k) ltac:(lia)) as Hdm.
  pose proof (Z.mod_pos_bound (numk n k) (denk d k) HD) as Hmb.
  pose proof (he_step (numk n k) (denk d k) ltac:(lia) HD) as Hs. cbn zeta in Hs.
  set (num := numk n k) in *. set (den := denk d k) in *.
  set (q := num / den) in *. set (r := num mod den) in *.
  pose proof (pow10_pos (p - 1) ltac:(lia)) as HP.
  assert (Hp10 : pow10 p = 10 * pow10 (p - 1)).
  { replace p with ((p - 1) + 1) at 1 by lia. apply pow10_succ. lia. }
  assert (Hqlo : pow10 (p - 1) <= q) by nia.
  assert (Hqhi : q < pow10 p) by nia.
  (* exactness follows from nearness *)
  assert (Hex : forall m, 2 * Z.abs (num - m * den) <= den -> (den | num) -> num = m * den).
  { intros m Hm [j Hj]. assert (Z.abs (j - m) * den * 2 <= den) by nia.
    assert (Z.abs (j - m) = 0) by nia. nia. }
  intros H. exists k. split; [exact Hk|].
  destruct (r =? 0) eqn:Er; [apply Z.eqb_eq in Er|apply Z.eqb_neq in Er].
  - destruct (strip_zeros_spec q (e - k) c e' ltac:(lia) H) as (j & Hj & He & Hq & Hc).
    pose proof (pow10_ge1 j Hj) as H1.
    replace (e' - (e - k)) with j by lia. rewrite <- Hq.
    assert (c <= q) by nia.
    split; [lia|]. split; [lia|].
    replace (num - q * den) with 0 by lia. cbn [Z.abs].
    split; [lia|]. split; [intros T; lia|]. intros _. lia.
  - set (up := (den <? 2 * r) || ((2 * r =? den) && Z.odd q)) in *.
    set (q' := if up then q + 1 else q) in *.
    destruct Hs as (Hq' & Hnear & Htie).
    destruct (q' =? pow10 p) eqn:Ec; [apply Z.eqb_eq in Ec|apply Z.eqb_neq in Ec].
    + injection H as <- <-.
      replace (e - k + 1 - (e - k)) with 1 by lia. change (pow10 1) with 10.
      replace (pow10 (p - 1) * 10) with q' by lia.
      split; [lia|]. split; [lia|]. split; [exact Hnear|]. split; [exact Htie|]. apply Hex; exact Hnear.
    + injection H as <- <-.
      replace (e - k - (e - k)) with 0 by lia. rewrite pow10_0, Z.mul_1_r.
      split; [lia|]. split; [lia|]. split; [exact Hnear|]. split; [exact Htie|]. apply Hex; exact Hnear.
Qed.

(* ---------- remainder ---------- *)

(* dec_rem on finite operands, in terms of the truncated division Z.quot / Z.rem of the signed
   coefficients aligned to the common exponent *)
Section Rem.
Variables (n1 : bool) (c1 e1 : Z) (n2 : bool) (c2 e2 : Z).
Let e := Z.min e1 e2.
Let A := scoef n1 (c1 * pow10 (e1 - e)).
Let B := scoef n2 (c2 * pow10 (e2 - e)).

Lemma rem_aligned : 0 <= c1 -> 0 < c2 ->
  let a := c1 * pow10 (e1 - e) in let b := c2 * pow10 (e2 - e) in
  0 <= a /\ 0 < b /\ Z.abs (Z.quot A B) = a / b /\ Z.rem A B = scoef n1 (a mod b) /\ 0 <= a mod b < b.
Proof.
  intros H1 H2 a b.
  pose proof (pow10_pos (e1 - e) ltac:(unfold e; lia)) as P1.
  pose proof (pow10_pos (e2 - e) ltac:(unfold e; lia)) as P2.
  assert (Ha : 0 <= a) by (unfold a; nia). assert (Hb : 0 < b) by (unfold b; nia).
  pose proof (Z.quot_div_nonneg a b Ha Hb) as Hq. pose proof (Z.rem_mod_nonneg a b Ha Hb) as Hr.
  pose proof (Z.div_pos a b Ha Hb) as Hqp. pose proof (Z.mod_pos_bound a b Hb) as Hmb.
  split; [exact Ha|]. split; [exact Hb|].
  unfold A, B. fold a. fold b. unfold scoef.
  destruct n1, n2.
  - rewrite Z.quot_opp_l, Z.quot_opp_r, Z.rem_opp_l, Z.rem_opp_r by lia. rewrite Hq, Hr. lia.
  - rewrite Z.quot_opp_l, Z.rem_opp_l by lia. rewrite Hq, Hr. lia.
  - rewrite Z.quot_opp_r, Z.rem_opp_r by lia. rewrite Hq, Hr. lia.
  - rewrite Hq, Hr. lia.
Qed.

Theorem rem_spec : 0 <= c1 -> 0 < c2 -> ndigits (Z.abs (Z.quot A B)) <= prec ->
  dec_rem (Fin n1 c1 e1) (Fin n2 c2 e2) =
  if Z.rem A B =? 0 then Fin n1 0 e else fin_round n1 (Z.abs (Z.rem A B)) e.
Proof.
  intros H1 H2 Hq. destruct (rem_aligned H1 H2) as (Ha & Hb & Eq & Er & Hmb). cbn zeta in *.
  unfold dec_rem. fold e.
  set (a := c1 * pow10 (e1 - e)) in *. set (b := c2 * pow10 (e2 - e)) in *.
  destruct (c2 =? 0) eqn:E0; [apply Z.eqb_eq in E0; lia|].
  rewrite Eq in Hq.
  replace (prec <? (if a / b =? 0 then 0 else ndigits (a / b))) with false.
  2:{ symmetry. apply Z.ltb_ge. destruct (a / b =? 0); [unfold prec; lia|exact Hq]. }
  rewrite Er.
  replace (scoef n1 (a mod b) =? 0) with (a mod b =? 0).
  2:{ unfold scoef. destruct n1; [|reflexivity].
      destruct (a mod b =? 0) eqn:E; [apply Z.eqb_eq in E|apply Z.eqb_neq in E]; symmetry;
      [apply Z.eqb_eq|apply Z.eqb_neq]; lia. }
  replace (Z.abs (scoef n1 (a mod b))) with (a mod b) by (unfold scoef; destruct n1; lia).
  reflexivity.
Qed.

(* operands of at most 34 digits: the remainder needs no rounding *)
Theorem rem_exact : 0 <= c1 < 10 ^ prec -> 0 < c2 < 10 ^ prec ->
  ndigits (Z.abs (Z.quot A B)) <= prec ->
  dec_rem (Fin n1 c1 e1) (Fin n2 c2 e2) = Fin n1 (Z.abs (Z.rem A B)) e.
Proof.
  intros H1 H2 Hq. rewrite rem_spec by lia.
  destruct (rem_aligned (proj1 H1) (proj1 H2)) as (Ha & Hb & Eq & Er & Hmb). cbn zeta in *.
  destruct (Z.rem A B =? 0) eqn:E; [apply Z.eqb_eq in E; rewrite E; reflexivity|].
  unfold fin_round. rewrite round_he_exact; [reflexivity|].
  rewrite Er. replace (Z.abs (scoef n1 ((c1 * pow10 (e1 - e)) mod (c2 * pow10 (e2 - e)))))
    with ((c1 * pow10 (e1 - e)) mod (c2 * pow10 (e2 - e))) by (unfold scoef; destruct n1; lia).
  apply ndigits_le_iff; [lia|unfold prec; lia|]. fold (pow10 prec) in H1, H2.
  destruct (Z_le_gt_dec e2 e1) as [L|L].
  - replace (e2 - e) with 0 in * by (unfold e; lia). rewrite pow10_0, Z.mul_1_r in *. lia.
  - replace (e1 - e) with 0 in * by (unfold e; lia). rewrite pow10_0, Z.mul_1_r in *.
    pose proof (Z.mod_le c1 (c2 * pow10 (e2 - e)) ltac:(lia) Hb). lia.
Qed.

Theorem rem_impossible : 0 <= c1 -> 0 < c2 -> prec < ndigits (Z.abs (Z.quot A B)) ->
  dec_rem (Fin n1 c1 e1) (Fin n2 c2 e2) = NaN.
Proof.
  intros H1 H2 Hq. destruct (rem_aligned H1 H2) as (Ha & Hb & Eq & Er & Hmb). cbn zeta in *.
  unfold dec_rem. fold e.
  set (a := c1 * pow10 (e1 - e)) in *. set (b := c2 * pow10 (e2 - e)) in *.
  destruct (c2 =? 0) eqn:E0; [apply Z.eqb_eq in E0; lia|].
  rewrite Eq in Hq.
  replace (prec <? (if a / b =? 0 then 0 else ndigits (a / b))) with true; [reflexivity|].
  symmetry. apply Z.ltb_lt. destruct (a / b =? 0) eqn:E; [|exact Hq].
  apply Z.eqb_eq in E. rewrite E in Hq. rewrite ndigits_nonpos in Hq by lia. unfold prec in Hq. lia.
Qed.

End Rem.

(* ---------- entry: literals and Go integers ---------- *)

(* the integer read from a list of ASCII digits, most significant first *)
Definition digit_val (ds : list Z) : Z := fold_left (fun acc b => acc * 10 + (b - 48)) ds 0.
Definition all_digits (ds : list Z) : bool := forallb is_dig ds.

Lemma digit_val_snoc ds b : digit_val (ds ++ [b]) = digit_val ds * 10 + (b - 48).
Proof. unfold digit_val. rewrite fold_left_app. reflexivity. Qed.

Definition frac_digits (fp : option (list Z)) : list Z := match fp with Some f => f | None => [] end.
Definition frac_bytes (fp : option (list Z)) : list Z := match fp with Some f => 46 :: f | None => [] end.
Inductive esign := ENone | EPlus | EMinus.
Definition esign_bytes (s : esign) : list Z := match s with ENone => [] | EPlus => [43] | EMinus => [45] end.
(* exponent part: marker byte ('e' or 'E'), optional sign, digits *)
Definition exp_bytes (ex : option (Z * esign * list Z)) : list Z :=
  match ex with None => [] | Some (m, s, ds) => m :: esign_bytes s ++ ds end.
Definition exp_value (ex : option (Z * esign * list Z)) : Z :=
  match ex with
  | None => 0
  | Some (_, s, ds) => match s with EMinus => - digit_val ds | _ => digit_val ds end
  end.
Definition exp_ok (ex : option (Z * esign * list Z)) : bool :=
  match ex with None => true | Some (m, _, ds) => ((m =? 101) || (m =? 69)) && all_digits ds end.

Definition split_sign (s : list Z) : bool * list Z :=
  match s with 43 :: t => (false, t) | 45 :: t => (true, t) | _ => (false, s) end.

Lemma split_sign_if b t :
  split_sign (b :: t) = if b =? 43 then (false, t) else if b =? 45 then (true, t) else (false, b :: t).
Proof.
  unfold split_sign. destruct b as [|q|q]; try reflexivity.
  do 6 (try (destruct q as [q|q|]; try reflexivity)).
Qed.

Lemma split_sign_other b t : b <> 43 -> b <> 45 -> split_sign (b :: t) = (false, b :: t).
Proof.
  intros H1 H2. rewrite split_sign_if. apply Z.eqb_neq in H1, H2. rewrite H1, H2. reflexivity.
Qed.

(* dec_of_string after the optional leading sign *)
Definition parse_unsigned (neg : bool) (s1 : list Z) : dec :=
  match s1 with
  | [] => NaN
  | b :: _ =>
    if is_dig b || (b =? 46) then
      match scan_mant s1 0 false 0 with
      | None => NaN
      | Some (c, frac, rest) =>
        match rest with
        | [] => Fin neg c (- frac)
        | _ :: r1 =>
          let '(eneg, r2) := split_sign r1 in
          match scan_digits r2 0 with
          | None => NaN
          | Some ex => Fin neg c (- frac + (if eneg then - ex else ex))
          end
        end
      end
    else
      let l := map lower s1 in
      if bytes_eq l [105; 110; 102] || bytes_eq l [105; 110; 102; 105; 110; 105; 116; 121] then Inf neg
      else NaN
  end.

Lemma dec_of_string_unfold s :
  dec_of_string s = let '(neg, s1) := split_sign s in parse_unsigned neg s1.
Proof. reflexivity. Qed.

Lemma is_dig_range b : is_dig b = true -> 48 <= b <= 57.
Proof. unfold is_dig. intros H. apply andb_true_iff in H. destruct H as [A B]. apply Z.leb_le in A, B. lia. Qed.

Lemma scan_mant_digits : forall ds rest c dot frac, all_digits ds = true ->
  scan_mant (ds ++ rest) c dot frac =
  scan_mant rest (fold_left (fun acc b => acc * 10 + (b - 48)) ds c) dot
            (if dot then frac + Z.of_nat (length ds) else frac).
Proof.
  induction ds as [|b ds IH]; intros rest c dot frac H.
  - cbn [app fold_left length]. destruct dot; f_equal; lia.
  - cbn [all_digits forallb] in H. apply andb_true_iff in H. destruct H as [Hb Hds].
    cbn [app scan_mant]. rewrite Hb. rewrite IH by exact Hds. cbn [fold_left length].
    destruct dot; f_equal; lia.
Qed.

Lemma scan_digits_all : forall ds acc, all_digits ds = true ->
  scan_digits ds acc = Some (fold_left (fun acc b => acc * 10 + (b - 48)) ds acc).
Proof.
  induction ds as [|b ds IH]; intros acc H; [reflexivity|].
  cbn [all_digits forallb] in H. apply andb_true_iff in H. destruct H as [Hb Hds].
  cbn [scan_digits fold_left]. rewrite Hb. apply IH. exact Hds.
Qed.

Lemma scan_mant_stop ex c dot frac : exp_ok ex = true ->
  scan_mant (exp_bytes ex) c dot frac = Some (c, frac, exp_bytes ex).
Proof.
  destruct ex as [[[m s] ds]|]; [|reflexivity].
  cbn [exp_ok exp_bytes]. intros H. apply andb_true_iff in H. destruct H as [Hm _].
  cbn [scan_mant].
  apply orb_true_iff in Hm. destruct Hm as [Hm|Hm]; apply Z.eqb_eq in Hm; subst m; reflexivity.
Qed.

Lemma exp_tail_value s ds : all_digits ds = true ->
  (let '(eneg, r2) := split_sign (esign_bytes s ++ ds) in
   match scan_digits r2 0 with
   | None => None
   | Some ex => Some (if eneg then - ex else ex)
   end) = Some (match s with EMinus => - digit_val ds | _ => digit_val ds end).
Proof.
  intros H. destruct s; cbn [esign_bytes app].
  - destruct ds as [|b ds'].
    + reflexivity.
    + assert (Hb : 48 <= b <= 57).
      { cbn [all_digits forallb] in H. apply andb_true_iff in H. apply is_dig_range. apply H. }
      rewrite split_sign_other by lia. cbv beta iota. rewrite scan_digits_all by exact H. reflexivity.
  - change (split_sign (43 :: ds)) with (false, ds). cbv beta iota. rewrite scan_digits_all by exact H. reflexivity.
  - change (split_sign (45 :: ds)) with (true, ds). cbv beta iota. rewrite scan_digits_all by exact H. reflexivity.
Qed.

Lemma literal_first_byte ip fp ex :
  all_digits ip = true -> ip ++ frac_digits fp <> [] ->
  exists b t, ip ++ frac_bytes fp ++ exp_bytes ex = b :: t /\ (is_dig b || (b =? 46)) = true.
Proof.
  intros Hip Hne. destruct ip as [|b ip'].
  - destruct fp as [f|]; cbn [frac_bytes frac_digits app] in *; [|congruence].
    exists 46, (f ++ exp_bytes ex). split; reflexivity.
  - exists b, (ip' ++ frac_bytes fp ++ exp_bytes ex). split; [reflexivity|].
    cbn [all_digits forallb] in Hip. apply andb_true_iff in Hip. destruct Hip as [Hb _]. rewrite Hb. reflexivity.
Qed.

Lemma parse_unsigned_literal neg ip fp ex :
  all_digits ip = true -> all_digits (frac_digits fp) = true -> exp_ok ex = true ->
  ip ++ frac_digits fp <> [] ->
  parse_unsigned neg (ip ++ frac_bytes fp ++ exp_bytes ex) =
  Fin neg (digit_val (ip ++ frac_digits fp)) (exp_value ex - Z.of_nat (length (frac_digits fp))).
Proof.
  intros Hip Hfp Hex Hne.
  (* the mantissa scan *)
  assert (Hscan : scan_mant (ip ++ frac_bytes fp ++ exp_bytes ex) 0 false 0 =
                  Some (digit_val (ip ++ frac_digits fp), Z.of_nat (length (frac_digits fp)), exp_bytes ex)).
  { rewrite scan_mant_digits by exact Hip. unfold digit_val. rewrite fold_left_app.
    destruct fp as [f|]; cbn [frac_bytes frac_digits app] in *.
    - cbn [scan_mant]. change (is_dig 46) with false. change (46 =? 46) with true. cbv iota.
      rewrite scan_mant_digits by exact Hfp. rewrite scan_mant_stop by exact Hex. reflexivity.
    - rewrite scan_mant_stop by exact Hex. reflexivity. }
  destruct (literal_first_byte ip fp ex Hip Hne) as (b & t & Hbt & Hb).
  unfold parse_unsigned. rewrite Hscan. rewrite Hbt. rewrite Hb.
  destruct ex as [[[m s] ds]|]; cbn [exp_bytes exp_value].
  - cbn [exp_ok] in Hex. apply andb_true_iff in Hex. destruct Hex as [_ Hds].
    pose proof (exp_tail_value s ds Hds) as Ht.
    destruct (split_sign (esign_bytes s ++ ds)) as [eneg r2].
    destruct (scan_digits r2 0) as [x|]; [|discriminate Ht].
    injection Ht as Ht. rewrite Ht. f_equal. lia.
  - f_equal.
Qed.

(* a well-formed literal is kept exactly: the coefficient is the integer spelled by all the
   mantissa digits and the exponent is the written exponent minus the number of fraction digits *)
Theorem literal_kept_exactly ip fp ex :
  all_digits ip = true -> all_digits (frac_digits fp) = true -> exp_ok ex = true ->
  ip ++ frac_digits fp <> [] ->
  dec_of_string (ip ++ frac_bytes fp ++ exp_bytes ex) =
  Fin false (digit_val (ip ++ frac_digits fp)) (exp_value ex - Z.of_nat (length (frac_digits fp))).
Proof.
  intros Hip Hfp Hex Hne.
  destruct (literal_first_byte ip fp ex Hip Hne) as (b & t & Hbt & Hb).
  rewrite dec_of_string_unfold.
  assert (Hsg : split_sign (ip ++ frac_bytes fp ++ exp_bytes ex) = (false, ip ++ frac_bytes fp ++ exp_bytes ex)).
  { rewrite Hbt. apply split_sign_other.
    - intros ->. discriminate Hb.
    - intros ->. discriminate Hb. }
  rewrite Hsg. apply parse_unsigned_literal; assumption.
Qed.

(* with a leading sign byte ('-' = 45, '+' = 43), as in the spelling of a negative float *)
Theorem signed_literal_kept_exactly ip fp ex :
  all_digits ip = true -> all_digits (frac_digits fp) = true -> exp_ok ex = true ->
  ip ++ frac_digits fp <> [] ->
  dec_of_string (45 :: ip ++ frac_bytes fp ++ exp_bytes ex) =
  Fin true (digit_val (ip ++ frac_digits fp)) (exp_value ex - Z.of_nat (length (frac_digits fp))) /\
  dec_of_string (43 :: ip ++ frac_bytes fp ++ exp_bytes ex) =
  Fin false (digit_val (ip ++ frac_digits fp)) (exp_value ex - Z.of_nat (length (frac_digits fp))).
Proof.
  intros Hip Hfp Hex Hne. rewrite !dec_of_string_unfold.
  change (split_sign (45 :: ip ++ frac_bytes fp ++ exp_bytes ex)) with (true, ip ++ frac_bytes fp ++ exp_bytes ex).
  change (split_sign (43 :: ip ++ frac_bytes fp ++ exp_bytes ex)) with (false, ip ++ frac_bytes fp ++ exp_bytes ex).
  split; apply parse_unsigned_literal; assumption.
Qed.

Theorem dec_of_Z_exact n : dec_of_Z n = Fin (n <? 0) (Z.abs n) 0 /\ scoef (n <? 0) (Z.abs n) = n.
Proof. split; [reflexivity|apply scoef_abs]. Qed.

(* round_he when digits are dropped, read in the unit 10^d of the p-th significant digit of c
   (d = ndigits c - p): same shape as round_div_spec *)
Lemma round_he_unit p c e c' e' : 0 <= c -> 0 < p -> p < ndigits c -> round_he p c e = (c', e') ->
  let d := ndigits c - p in
  0 < d /\ pow10 (p - 1) * pow10 d <= c < pow10 p * pow10 d /\ e + d <= e' /\ 0 < c' < pow10 p /\
  let m := c' * pow10 (e' - (e + d)) in
  2 * Z.abs (c - m * pow10 d) <= pow10 d /\
  (2 * Z.abs (c - m * pow10 d) = pow10 d -> Z.even m = true).
Proof.
  intros Hc Hp En. unfold round_he. fold (pow10 p). fold (pow10 (p - 1)).
  destruct (ndigits c <=? p) eqn:En'; [apply Z.leb_le in En'; lia|clear En'].
  assert (Hc0 : 0 < c).
  { destruct (Z.eq_dec c 0) as [->|]; [rewrite ndigits_nonpos in En by lia; lia|lia]. }
  pose proof (ndigits_bounds c Hc0) as [Hlo Hhi].
  set (n := ndigits c) in *. set (d := n - p).
  assert (Hd : 0 < d) by (unfold d; lia).
  pose proof (pow10_pos d ltac:(lia)) as Hpw.
  replace (n - 1) with ((p - 1) + d) in Hlo by (unfold d; lia).
  replace n with (p + d) in Hhi by (unfold d; lia).
  rewrite pow10_add in Hlo, Hhi by lia.
  pose proof (he_step c (pow10 d) Hc Hpw) as Hs. cbn zeta in Hs.
  pose proof (Z.div_mod c (pow10 d) ltac:(lia)) as Hdm.
  pose proof (Z.mod_pos_bound c (pow10 d) Hpw) as Hr.
  set (q := c / pow10 d) in *. set (r := c mod pow10 d) in *.
  set (up := (pow10 d <? 2 * r) || ((2 * r =? pow10 d) && Z.odd q)) in *.
  set (q' := if up then q + 1 else q) in *.
  destruct Hs as (Hq' & Hnear & Htie).
  pose proof (pow10_pos (p - 1) ltac:(lia)) as Hpp1.
  assert (Hp10 : pow10 p = 10 * pow10 (p - 1)).
  { replace p with ((p - 1) + 1) at 1 by lia. apply pow10_succ. lia. }
  assert (Hqlo : pow10 (p - 1) <= q) by nia.
  assert (Hqhi : q < pow10 p) by nia.
  cbn zeta.
  destruct (q' =? pow10 p) eqn:Ec; [apply Z.eqb_eq in Ec|apply Z.eqb_neq in Ec];
    intros H; injection H as <- <-.
  - replace (e + d + 1 - (e + d)) with 1 by lia. change (pow10 1) with 10.
    replace (pow10 (p - 1) * 10) with q' by lia.
    split; [lia|]. split; [lia|]. split; [lia|]. split; [lia|]. split; assumption.
  - replace (e + d - (e + d)) with 0 by lia. rewrite pow10_0, Z.mul_1_r.
    split; [lia|]. split; [lia|]. split; [lia|]. split; [lia|]. split; assumption.
Qed.
