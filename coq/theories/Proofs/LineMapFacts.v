(* Proofs about the line-start table and the offset -> (line, column) lookup. *)
From Formula Require Import Base.Utf8 Lex.LineMap Proofs.Utf8Facts.
From Coq Require Import Sorting.Sorted.

Definition znth (l : list Z) (i : Z) : Z := nth (Z.to_nat i) l 0.

Definition last_le (arr : list Z) (off k : Z) : Prop :=
  0 <= k < blen arr /\ znth arr k <= off /\ forall j, k < j < blen arr -> off < znth arr j.

Definition sorted (arr : list Z) : Prop :=
  forall i j, 0 <= i -> i < j -> j < blen arr -> znth arr i < znth arr j.

Lemma last_le_unique : forall arr off k1 k2, last_le arr off k1 -> last_le arr off k2 -> k1 = k2.
Proof.
  intros arr off k1 k2 (R1 & L1 & U1) (R2 & L2 & U2).
  destruct (Z.lt_trichotomy k1 k2) as [H|[H|H]]; [|exact H|].
  - specialize (U1 k2 ltac:(lia)). lia.
  - specialize (U2 k1 ltac:(lia)). lia.
Qed.

Lemma blen_cons : forall x l, blen (x :: l) = blen l + 1.
Proof. intros. unfold blen. simpl length. lia. Qed.

Lemma blen_nonneg : forall l, 0 <= blen l.
Proof. intros. unfold blen. lia. Qed.

Lemma znth_0 : forall x l, znth (x :: l) 0 = x.
Proof. reflexivity. Qed.

Lemma znth_cons : forall x l i, 0 < i -> znth (x :: l) i = znth l (i - 1).
Proof.
  intros x l i Hi. unfold znth.
  replace (Z.to_nat i) with (S (Z.to_nat (i - 1))) by lia. reflexivity.
Qed.

Lemma nth_error_znth : forall l i, 0 <= i < blen l -> nth_error l (Z.to_nat i) = Some (znth l i).
Proof.
  intros l i Hi. unfold znth, blen in *.
  apply nth_error_nth'. lia.
Qed.

Lemma Forall_znth : forall (P : Z -> Prop) l i, Forall P l -> 0 <= i < blen l -> P (znth l i).
Proof.
  intros P l i HF Hi. unfold znth, blen in *.
  rewrite Forall_forall in HF. apply HF. apply nth_In. lia.
Qed.

Lemma StronglySorted_sorted : forall l, StronglySorted Z.lt l -> sorted l.
Proof.
  induction l as [|x l IH]; intros HS i j Hi Hij Hj.
  { unfold blen in Hj. simpl in Hj. lia. }
  inversion HS as [|? ? HS' HF]; subst.
  rewrite blen_cons in Hj.
  rewrite (znth_cons x l j) by lia.
  destruct (Z.eq_dec i 0) as [->|Hne].
  - rewrite znth_0. apply (Forall_znth (fun y => x < y)); [exact HF|lia].
  - rewrite (znth_cons x l i) by lia. apply IH; [exact HS'|lia|lia|lia].
Qed.

(* ---------- binary search ---------- *)

Lemma bsearch_spec : forall fuel arr value low high,
  sorted arr -> 0 <= low -> high < blen arr -> low <= high + 1 ->
  (forall i, 0 <= i < low -> znth arr i < value) ->
  (forall i, high < i < blen arr -> value < znth arr i) ->
  (Z.to_nat (high - low + 1) < fuel)%nat ->
  exists n, bsearch fuel arr value low high = Some n /\
    ((0 <= n < blen arr /\ znth arr n = value) \/
     (n < 0 /\ 0 <= - n - 1 <= blen arr /\
      (forall i, 0 <= i < - n - 1 -> znth arr i < value) /\
      (forall i, - n - 1 <= i < blen arr -> value < znth arr i))).
Proof.
  induction fuel as [|f IH]; intros arr value low high Hs Hlo Hhi Hlh Hbelow Habove Hfuel; [lia|].
  cbn [bsearch].
  destruct (low <=? high) eqn:Elh.
  - apply Z.leb_le in Elh.
    rewrite Z.shiftr_div_pow2 by lia. change (2 ^ 1) with 2.
    set (middle := low + (high - low) / 2).
    assert (Hm : low <= middle <= high).
    { unfold middle. pose proof (Z.div_pos (high - low) 2 ltac:(lia) ltac:(lia)).
      pose proof (Z.div_le_upper_bound (high - low) 2 (high - low) ltac:(lia) ltac:(lia)). lia. }
    rewrite (nth_error_znth arr middle) by lia.
    destruct (znth arr middle =? value) eqn:Eeq.
    + apply Z.eqb_eq in Eeq. exists middle. split; [reflexivity|]. left. split; [lia|exact Eeq].
    + apply Z.eqb_neq in Eeq.
      destruct (value <? znth arr middle) eqn:Elt.
      * apply Z.ltb_lt in Elt.
        apply IH; try assumption; try lia.
        intros i Hi. destruct (Z.eq_dec i middle) as [->|Hne]; [exact Elt|].
        destruct (Z_lt_le_dec high i) as [Hgi|Hgi]; [apply Habove; lia|].
        assert (znth arr middle < znth arr i) by (apply Hs; lia). lia.
      * apply Z.ltb_ge in Elt.
        apply IH; try assumption; try lia.
        intros i Hi. destruct (Z.eq_dec i middle) as [->|Hne]; [lia|].
        destruct (Z_lt_le_dec i low) as [Hgi|Hgi]; [apply Hbelow; lia|].
        assert (znth arr i < znth arr middle) by (apply Hs; lia). lia.
  - apply Z.leb_gt in Elh. exists (- low - 1). split; [reflexivity|]. right.
    replace (- (- low - 1) - 1) with low by lia.
    split; [lia|]. split; [lia|]. split; [exact Hbelow|].
    intros i Hi. apply Habove. lia.
Qed.

Lemma position_from_offset_spec : forall content starts off,
  sorted starts -> 0 < blen starts -> znth starts 0 <= off -> off <= blen content ->
  exists line, position_from_offset off content starts = Some (line, off - znth starts line) /\
               last_le starts off line.
Proof.
  intros content starts off Hs Hne H0 Hoff.
  unfold position_from_offset.
  destruct (blen content <? off) eqn:E; [apply Z.ltb_lt in E; lia|clear E].
  unfold binary_search.
  destruct (bsearch_spec (S (length starts)) starts off 0 (blen starts - 1)) as (n & Hn & Hcase);
    try assumption; try lia; try (intros; lia); try (unfold blen; lia).
  rewrite Hn.
  destruct Hcase as [(Hr & Heq)|(Hneg & Hr & Hb & Ha)].
  - destruct (n <? 0) eqn:En; [apply Z.ltb_lt in En; lia|].
    destruct (n <? 0) eqn:En'; [discriminate|].
    rewrite (nth_error_znth starts n) by lia.
    exists n. split; [reflexivity|].
    split; [lia|]. split; [lia|].
    intros j Hj. rewrite <- Heq. apply Hs; lia.
  - destruct (n <? 0) eqn:En; [|apply Z.ltb_ge in En; lia].
    set (l := - n - 1) in *.
    assert (Hl1 : 1 <= l).
    { destruct (Z_lt_le_dec l 1) as [Hl|Hl]; [|exact Hl].
      assert (l = 0) by lia. specialize (Ha 0 ltac:(lia)). lia. }
    destruct (l - 1 <? 0) eqn:El; [apply Z.ltb_lt in El; lia|].
    rewrite (nth_error_znth starts (l - 1)) by lia.
    exists (l - 1). split; [reflexivity|].
    split; [lia|]. split.
    + specialize (Hb (l - 1) ltac:(lia)). lia.
    + intros j Hj. apply Ha. lia.
Qed.

(* ---------- the line-start table ---------- *)

Lemma step_ok_blen : forall r bs, step_ok (r, bs) -> 1 <= blen bs.
Proof. intros r bs H. unfold step_ok, blen in *. simpl in H. lia. Qed.

Lemma ls_go_shape : forall n ss, (length ss <= n)%nat -> forall pos ls,
  Forall step_ok ss -> ls <= pos ->
  exists L', ls_go ss pos ls = ls :: L' /\ Forall (fun x => pos < x) L' /\
             StronglySorted Z.lt (ls :: L').
Proof.
  induction n as [|n IH]; intros ss Hn pos ls Hok Hle.
  { destruct ss; [|simpl in Hn; lia]. exists []. simpl. repeat split; constructor; constructor. }
  destruct ss as [|[r bs] t].
  { exists []. simpl. repeat split; constructor; constructor. }
  simpl in Hn. inversion Hok as [|? ? Hs Hok']; subst.
  pose proof (step_ok_blen _ _ Hs) as Hb.
  (* the generic "break ending at e, continuing with t'" case *)
  assert (Hbrk : forall t' e, (length t' <= n)%nat -> Forall step_ok t' -> pos < e ->
            exists L', ls :: ls_go t' e e = ls :: L' /\ Forall (fun x => pos < x) L' /\
                       StronglySorted Z.lt (ls :: L')).
  { intros t' e Hlen Hok2 He.
    destruct (IH t' Hlen e e Hok2 ltac:(lia)) as (L2 & E2 & F2 & S2).
    exists (e :: L2). rewrite E2. split; [reflexivity|]. split.
    - constructor; [exact He|]. eapply Forall_impl; [|exact F2]. intros; simpl in *; lia.
    - constructor; [exact S2|]. constructor; [lia|].
      eapply Forall_impl; [|exact F2]. intros; simpl in *; lia. }
  cbn [ls_go].
  destruct (r =? 13).
  { destruct t as [|[r2 bs2] t2].
    - apply Hbrk; [simpl; lia|constructor|lia].
    - destruct (r2 =? 10).
      + inversion Hok'; subst. apply Hbrk; [simpl in Hn; lia|assumption|lia].
      + apply Hbrk; [lia|assumption|lia]. }
  destruct (r =? 10); [apply Hbrk; [lia|assumption|lia]|].
  destruct ((127 <? r) && is_line_break r); [apply Hbrk; [lia|assumption|lia]|].
  destruct (IH t ltac:(lia) (pos + blen bs) ls Hok' ltac:(lia)) as (L2 & E2 & F2 & S2).
  exists L2. split; [exact E2|]. split; [|exact S2].
  eapply Forall_impl; [|exact F2]. intros; simpl in *; lia.
Qed.

Lemma line_starts_sorted : forall text,
  sorted (line_starts text) /\ 0 < blen (line_starts text) /\ znth (line_starts text) 0 = 0.
Proof.
  intros text. unfold line_starts.
  destruct (ls_go_shape (length (decode_all text)) (decode_all text) (le_n _) 0 0
              (decode_all_ok text) ltac:(lia)) as (L & E & F & S).
  rewrite E. split; [apply StronglySorted_sorted; exact S|].
  split; [rewrite blen_cons; pose proof (blen_nonneg L); lia|reflexivity].
Qed.

(* ---------- the direct count agrees with "last start <= off" ---------- *)

Lemma last_le_cons_hd : forall ls L off,
  ls <= off -> Forall (fun x => off < x) L -> last_le (ls :: L) off 0.
Proof.
  intros ls L off Hle HF. split; [rewrite blen_cons; pose proof (blen_nonneg L); lia|].
  split; [rewrite znth_0; exact Hle|].
  intros j Hj. rewrite blen_cons in Hj. rewrite znth_cons by lia.
  apply (Forall_znth (fun x => off < x)); [exact HF|lia].
Qed.

Lemma last_le_cons_tl : forall ls L off k,
  last_le L off k -> last_le (ls :: L) off (k + 1).
Proof.
  intros ls L off k (R & Hle & U). split; [rewrite blen_cons; lia|].
  split; [rewrite znth_cons by lia; replace (k + 1 - 1) with k by lia; exact Hle|].
  intros j Hj. rewrite blen_cons in Hj. rewrite znth_cons by lia. apply U. lia.
Qed.

Lemma term_rune_cases : forall r,
  is_terminator_rune r = (r =? 13) || (r =? 10) || ((127 <? r) && is_line_break r).
Proof.
  intros r. unfold is_terminator_rune, is_line_break.
  destruct (r =? 10) eqn:E10; destruct (r =? 13) eqn:E13;
  destruct (r =? 8232) eqn:E1; destruct (r =? 8233) eqn:E2; destruct (r =? 133) eqn:E3;
  destruct (127 <? r) eqn:E127; try reflexivity;
  repeat match goal with
  | H : (_ =? _) = true |- _ => apply Z.eqb_eq in H
  | H : (_ <? _) = false |- _ => apply Z.ltb_ge in H
  end; lia.
Qed.

Lemma dcount_spec : forall n ss, (length ss <= n)%nat -> forall pos line ls off,
  Forall step_ok ss -> ls <= pos -> ls <= off ->
  exists k, last_le (ls_go ss pos ls) off k /\
            dcount ss pos line ls off = (line + k, off - znth (ls_go ss pos ls) k).
Proof.
  induction n as [|n IH]; intros ss Hn pos line ls off Hok Hlp Hlo.
  { destruct ss; [|simpl in Hn; lia]. exists 0. simpl. split.
    - split; [unfold blen; simpl; lia|]. split; [rewrite znth_0; lia|].
      intros j Hj. unfold blen in Hj. simpl in Hj. lia.
    - rewrite Z.add_0_r. reflexivity. }
  destruct ss as [|[r bs] t].
  { exists 0. simpl. split.
    - split; [unfold blen; simpl; lia|]. split; [rewrite znth_0; lia|].
      intros j Hj. unfold blen in Hj. simpl in Hj. lia.
    - rewrite Z.add_0_r. reflexivity. }
  simpl in Hn. inversion Hok as [|? ? Hs Hok']; subst.
  pose proof (step_ok_blen _ _ Hs) as Hb.
  (* generic break case *)
  assert (Hbrk : forall t' e, (length t' <= n)%nat -> Forall step_ok t' -> pos < e ->
     exists k, last_le (ls :: ls_go t' e e) off k /\
       (if e <=? off then dcount t' e (line + 1) e off else (line, off - ls)) =
       (line + k, off - znth (ls :: ls_go t' e e) k)).
  { intros t' e Hlen Hok2 He.
    destruct (e <=? off) eqn:Ee.
    - apply Z.leb_le in Ee.
      destruct (IH t' Hlen e (line + 1) e off Hok2 ltac:(lia) Ee) as (k & Hk & Hd).
      exists (k + 1). split; [apply last_le_cons_tl; exact Hk|].
      rewrite Hd. destruct Hk as (Rk & _). rewrite znth_cons by lia.
      replace (k + 1 - 1) with k by lia. f_equal. lia.
    - apply Z.leb_gt in Ee.
      exists 0. split.
      + apply last_le_cons_hd; [exact Hlo|].
        destruct (ls_go_shape (length t') t' (le_n _) e e Hok2 ltac:(lia)) as (L2 & E2 & F2 & S2).
        rewrite E2. constructor; [lia|]. eapply Forall_impl; [|exact F2]. intros; simpl in *; lia.
      + rewrite znth_0, Z.add_0_r. reflexivity. }
  cbn [ls_go dcount]. rewrite term_rune_cases.
  destruct (r =? 13) eqn:E13.
  { cbn [orb].
    destruct t as [|[r2 bs2] t2].
    - apply Hbrk; [simpl; lia|constructor|lia].
    - cbn [andb]. destruct (r2 =? 10).
      + inversion Hok'; subst. apply Hbrk; [simpl in Hn; lia|assumption|lia].
      + apply Hbrk; [lia|assumption|lia]. }
  cbn [orb].
  destruct (r =? 10) eqn:E10.
  { cbn [orb]. destruct t as [|[r2 bs2] t2]; cbn [andb]; apply Hbrk; try assumption; try lia; simpl; lia. }
  cbn [orb].
  destruct ((127 <? r) && is_line_break r) eqn:Eu.
  { destruct t as [|[r2 bs2] t2]; cbn [andb]; apply Hbrk; try assumption; try lia; simpl; lia. }
  apply IH; try assumption; lia.
Qed.

Theorem line_col_correct : forall text off,
  0 <= off <= blen text -> line_col text off = Some (direct_count text off).
Proof.
  intros text off Hoff.
  destruct (line_starts_sorted text) as (Hs & Hne & H0).
  unfold line_col.
  destruct (position_from_offset_spec text (line_starts text) off Hs Hne ltac:(lia) ltac:(lia))
    as (line & Hp & Hl).
  rewrite Hp. f_equal.
  unfold direct_count.
  destruct (dcount_spec (length (decode_all text)) (decode_all text) (le_n _) 0 0 0 off
              (decode_all_ok text) ltac:(lia) ltac:(lia)) as (k & Hk & Hd).
  fold (line_starts text) in Hk, Hd.
  rewrite Hd. rewrite (last_le_unique _ _ _ _ Hl Hk). f_equal.
Qed.

(* the lookup never fails for an offset inside the text (no index panic, no error) *)
Corollary line_col_total : forall text off, 0 <= off <= blen text -> line_col text off <> None.
Proof. intros text off H. rewrite (line_col_correct text off H). discriminate. Qed.
