(* Ordering and equality of the evaluator's operators (C05): numbers, strings, ===, ==, !=, !==. *)
From Coq Require Import QArith ZArith Lia Bool List String.
From Formula Require Import Sem.Eval Proofs.DecFacts Proofs.DecVal.
Import ListNotations.
Open Scope Z_scope.

(* ---------- numbers ---------- *)

Lemma lt_num x y : binary_op KLt (VNum x) (VNum y) = Ok (VBool (dec_cmp x y =? -1)).
Proof. reflexivity. Qed.
Lemma gt_num x y : binary_op KGt (VNum x) (VNum y) = Ok (VBool (dec_cmp x y =? 1)).
Proof. reflexivity. Qed.
Lemma le_num x y : binary_op KLe (VNum x) (VNum y) = Ok (VBool (dec_cmp x y <=? 0)).
Proof. reflexivity. Qed.
Lemma ge_num x y : binary_op KGe (VNum x) (VNum y) = Ok (VBool (0 <=? dec_cmp x y)).
Proof. reflexivity. Qed.
Lemma eq_num x y : binary_op KEqEq (VNum x) (VNum y) = Ok (VBool (dec_cmp x y =? 0)).
Proof. reflexivity. Qed.

Lemma cmp_cases x y : is_finite x = true -> is_finite y = true ->
  dec_cmp x y = -1 \/ dec_cmp x y = 0 \/ dec_cmp x y = 1.
Proof. intros Hx Hy. pose proof (cmp_trichotomy x y Hx Hy). lia. Qed.

(* exactly one of a < b, a == b, a > b, and each says what the order of values says *)
Theorem num_lt_gt_eq_exactly_one x y : is_finite x = true -> is_finite y = true ->
  exists lt eq gt : bool,
    binary_op KLt (VNum x) (VNum y) = Ok (VBool lt) /\
    binary_op KEqEq (VNum x) (VNum y) = Ok (VBool eq) /\
    binary_op KGt (VNum x) (VNum y) = Ok (VBool gt) /\
    ((lt = true /\ eq = false /\ gt = false) \/
     (lt = false /\ eq = true /\ gt = false) \/
     (lt = false /\ eq = false /\ gt = true)) /\
    (lt = true <-> (val x < val y)%Q) /\ (eq = true <-> (val x == val y)%Q) /\ (gt = true <-> (val y < val x)%Q).
Proof.
  intros Hx Hy.
  exists (dec_cmp x y =? -1), (dec_cmp x y =? 0), (dec_cmp x y =? 1).
  split; [apply lt_num|]. split; [apply eq_num|]. split; [apply gt_num|].
  destruct (cmp_is_value_order x y Hx Hy) as (L & E & G).
  split.
  - destruct (cmp_cases x y Hx Hy) as [H|[H|H]]; rewrite H; cbn; auto.
  - rewrite Z.eqb_eq, Z.eqb_eq, Z.eqb_eq. auto.
Qed.

Theorem le_is_lt_or_eq x y lt eq : is_finite x = true -> is_finite y = true ->
  binary_op KLt (VNum x) (VNum y) = Ok (VBool lt) ->
  binary_op KEqEq (VNum x) (VNum y) = Ok (VBool eq) ->
  binary_op KLe (VNum x) (VNum y) = Ok (VBool (lt || eq)).
Proof.
  intros Hx Hy. rewrite lt_num, eq_num, le_num. intros H1 H2.
  injection H1 as <-. injection H2 as <-.
  destruct (cmp_cases x y Hx Hy) as [H|[H|H]]; rewrite H; reflexivity.
Qed.

Theorem ge_is_gt_or_eq x y gt eq : is_finite x = true -> is_finite y = true ->
  binary_op KGt (VNum x) (VNum y) = Ok (VBool gt) ->
  binary_op KEqEq (VNum x) (VNum y) = Ok (VBool eq) ->
  binary_op KGe (VNum x) (VNum y) = Ok (VBool (gt || eq)).
Proof.
  intros Hx Hy. rewrite gt_num, eq_num, ge_num. intros H1 H2.
  injection H1 as <-. injection H2 as <-.
  destruct (cmp_cases x y Hx Hy) as [H|[H|H]]; rewrite H; reflexivity.
Qed.

(* ---------- strings ---------- *)

(* byte-wise lexicographic order: a proper prefix is smaller; otherwise the first differing
   byte decides *)
Inductive lex_lt : list Z -> list Z -> Prop :=
| lex_nil : forall y t, lex_lt [] (y :: t)
| lex_head : forall x y s t, x < y -> lex_lt (x :: s) (y :: t)
| lex_tail : forall x s t, lex_lt s t -> lex_lt (x :: s) (x :: t).

Lemma bytes_ltb_lex : forall s t, bytes_ltb s t = true <-> lex_lt s t.
Proof.
  induction s as [|x s IH]; intros [|y t]; cbn [bytes_ltb].
  - split; [discriminate|]. intros H. inversion H.
  - split; [intros _; constructor|reflexivity].
  - split; [discriminate|]. intros H. inversion H.
  - rewrite orb_true_iff, andb_true_iff, Z.ltb_lt, Z.eqb_eq, IH. split.
    + intros [H|[-> H]]; [apply lex_head; exact H|apply lex_tail; exact H].
    + intros H. inversion H; subst; [left; assumption|right; split; [reflexivity|assumption]].
Qed.

(* the same order said with a common prefix *)
Lemma lex_lt_prefix s t : lex_lt s t <->
  exists p, (s = p /\ exists y t', t = p ++ y :: t') \/
            (exists x y s' t', s = p ++ x :: s' /\ t = p ++ y :: t' /\ x < y).
Proof.
  split.
  - induction 1 as [y t|x y s t Hxy|x s t H IH].
    + exists []. left. split; [reflexivity|]. exists y, t. reflexivity.
    + exists []. right. exists x, y, s, t. auto.
    + destruct IH as (p & [(-> & y & t' & ->)|(a & b & s' & t' & -> & -> & Hab)]).
      * exists (x :: p). left. split; [reflexivity|]. exists y, t'. reflexivity.
      * exists (x :: p). right. exists a, b, s', t'. auto.
  - intros (p & H). revert s t H. induction p as [|a p IH]; intros s t H.
    + destruct H as [(-> & y & t' & ->)|(x & y & s' & t' & -> & -> & Hxy)].
      * constructor.
      * apply lex_head. exact Hxy.
    + destruct H as [(-> & y & t' & ->)|(x & y & s' & t' & -> & -> & Hxy)].
      * cbn [app]. apply lex_tail. apply IH. left. split; [reflexivity|]. exists y, t'. reflexivity.
      * cbn [app]. apply lex_tail. apply IH. right. exists x, y, s', t'. auto.
Qed.

Lemma lex_lt_irrefl s : ~ lex_lt s s.
Proof. induction s as [|x s IH]; intros H; inversion H; subst; [lia|auto]. Qed.

Lemma lex_lt_trans s t u : lex_lt s t -> lex_lt t u -> lex_lt s u.
Proof.
  intros H. revert u. induction H as [y t|x y s t Hxy|x s t H IH]; intros u Hu; inversion Hu; subst.
  - constructor.
  - constructor.
  - apply lex_head. lia.
  - apply lex_head. assumption.
  - apply lex_head. assumption.
  - apply lex_tail. apply IH. assumption.
Qed.

Lemma lex_lt_total s t : lex_lt s t \/ s = t \/ lex_lt t s.
Proof.
  revert t. induction s as [|x s IH]; intros [|y t].
  - auto.
  - left. constructor.
  - right. right. constructor.
  - destruct (Z.lt_trichotomy x y) as [H|[->|H]].
    + left. apply lex_head. exact H.
    + destruct (IH t) as [H|[->|H]]; [left; apply lex_tail; exact H|auto|right; right; apply lex_tail; exact H].
    + right. right. apply lex_head. exact H.
Qed.

Lemma lex_lt_asym s t : lex_lt s t -> ~ lex_lt t s.
Proof. intros H1 H2. apply (lex_lt_irrefl s). apply (lex_lt_trans s t s); assumption. Qed.

Lemma bytes_eqb_eq : forall s t, bytes_eqb s t = true <-> s = t.
Proof.
  induction s as [|x s IH]; intros [|y t]; cbn [bytes_eqb]; try (split; [discriminate|intros H; discriminate H]).
  - split; reflexivity.
  - rewrite andb_true_iff, Z.eqb_eq, IH. split; [intros [-> ->]; reflexivity|intros H; injection H; auto].
Qed.

Lemma str_lt s t : binary_op KLt (VStr s) (VStr t) = Ok (VBool (bytes_ltb s t)).
Proof. reflexivity. Qed.
Lemma str_gt s t : binary_op KGt (VStr s) (VStr t) = Ok (VBool (bytes_ltb t s)).
Proof. reflexivity. Qed.
Lemma str_le s t : binary_op KLe (VStr s) (VStr t) = Ok (VBool (negb (bytes_ltb t s))).
Proof. reflexivity. Qed.
Lemma str_ge s t : binary_op KGe (VStr s) (VStr t) = Ok (VBool (negb (bytes_ltb s t))).
Proof. reflexivity. Qed.
Lemma str_eq s t : binary_op KEqEq (VStr s) (VStr t) = Ok (VBool (bytes_eqb s t)).
Proof. reflexivity. Qed.

Theorem str_lt_is_lex s t :
  exists b, binary_op KLt (VStr s) (VStr t) = Ok (VBool b) /\ (b = true <-> lex_lt s t).
Proof. exists (bytes_ltb s t). split; [apply str_lt|apply bytes_ltb_lex]. Qed.

Theorem str_gt_is_lex s t :
  exists b, binary_op KGt (VStr s) (VStr t) = Ok (VBool b) /\ (b = true <-> lex_lt t s).
Proof. exists (bytes_ltb t s). split; [apply str_gt|apply bytes_ltb_lex]. Qed.

Theorem str_le_ge_is_lex s t :
  exists le ge, binary_op KLe (VStr s) (VStr t) = Ok (VBool le) /\ binary_op KGe (VStr s) (VStr t) = Ok (VBool ge) /\
    (le = true <-> lex_lt s t \/ s = t) /\ (ge = true <-> lex_lt t s \/ s = t).
Proof.
  exists (negb (bytes_ltb t s)), (negb (bytes_ltb s t)).
  split; [apply str_le|]. split; [apply str_ge|].
  rewrite !negb_true_iff, <- !not_true_iff_false, !bytes_ltb_lex.
  pose proof (lex_lt_total s t) as T. pose proof (lex_lt_asym s t) as A1. pose proof (lex_lt_asym t s) as A2.
  pose proof (lex_lt_irrefl s) as I.
  split; split.
  - intros H. destruct T as [H'|[H'|H']]; auto. contradiction.
  - intros [H|H] H'; [exact (A1 H H')|subst t; exact (I H')].
  - intros H. destruct T as [H'|[H'|H']]; auto. contradiction.
  - intros [H|H] H'; [exact (A2 H H')|subst t; exact (I H')].
Qed.

(* ---------- === == != !== ---------- *)

(* the four kinds of plain values the property speaks of; numbers finite *)
Definition basic (v : value) : bool :=
  match v with
  | VNull | VBool _ | VStr _ => true
  | VNum d => is_finite d
  | _ => false
  end.

Inductive vkind := KdNull | KdBool | KdNum | KdStr | KdOther.
Definition kind_of (v : value) : vkind :=
  match v with VNull => KdNull | VBool _ => KdBool | VNum _ => KdNum | VStr _ => KdStr | _ => KdOther end.

(* both null, or the same kind and the same value (numbers: the same rational value) *)
Definition same_value (v w : value) : Prop :=
  match v, w with
  | VNull, VNull => True
  | VBool a, VBool b => a = b
  | VNum x, VNum y => (val x == val y)%Q
  | VStr s, VStr t => s = t
  | _, _ => False
  end.

Lemma strict_eq_num x y : strict_eq (VNum x) (VNum y) = Ok (dec_cmp x y =? 0).
Proof. reflexivity. Qed.
Lemma strict_eq_bool a b : strict_eq (VBool a) (VBool b) = Ok (Bool.eqb a b).
Proof. destruct a, b; reflexivity. Qed.
Lemma strict_eq_str s t : strict_eq (VStr s) (VStr t) = Ok (bytes_eqb s t).
Proof. unfold strict_eq. cbn. destruct (bytes_eqb s t); reflexivity. Qed.

Theorem strict_eq_spec v w : basic v = true -> basic w = true ->
  exists b, strict_eq v w = Ok b /\ (b = true <-> same_value v w).
Proof.
  intros Hv Hw.
  destruct v as [|a|x|s| | | | | | | | | | |]; try discriminate Hv;
  destruct w as [|b|y|t| | | | | | | | | | |]; try discriminate Hw;
  try (exists false; split; [reflexivity|cbn [same_value]; split; [discriminate|contradiction]]).
  - exists true. split; [reflexivity|]. cbn. tauto.
  - exists (Bool.eqb a b). split; [apply strict_eq_bool|]. cbn [same_value]. apply eqb_true_iff.
  - exists (dec_cmp x y =? 0). split; [apply strict_eq_num|]. cbn [same_value basic] in *.
    rewrite Z.eqb_eq. apply (cmp_is_value_order x y Hv Hw).
  - exists (bytes_eqb s t). split; [apply strict_eq_str|]. cbn [same_value]. apply bytes_eqb_eq.
Qed.

Theorem strict_eq_diff_kind_false v w : basic v = true -> basic w = true ->
  kind_of v <> kind_of w -> strict_eq v w = Ok false.
Proof.
  intros Hv Hw Hk.
  destruct v as [|a|x|s| | | | | | | | | | |]; try discriminate Hv;
  destruct w as [|b|y|t| | | | | | | | | | |]; try discriminate Hw;
  try reflexivity; exfalso; apply Hk; reflexivity.
Qed.

(* != and !== are the negations of == and === whenever those produce a result, and fail the same
   way otherwise; for arbitrary operands *)
Theorem ne_is_negation v w :
  (forall r, binary_op KEqEq v w = Ok r -> exists b, r = VBool b /\ binary_op KNe v w = Ok (VBool (negb b))) /\
  (binary_op KEqEq v w = Err -> binary_op KNe v w = Err) /\
  (binary_op KEqEq v w = Panic -> binary_op KNe v w = Panic) /\
  (binary_op KEqEq v w = Unk -> binary_op KNe v w = Unk).
Proof.
  cbn [binary_op]. destruct (loose_eq v w) as [b| | |]; cbn [obind];
    (split; [|split; [|split]]); try discriminate; try reflexivity.
  intros r H. injection H as <-. exists b. auto.
Qed.

Theorem strict_ne_is_negation v w :
  (forall r, binary_op KEqEqEq v w = Ok r -> exists b, r = VBool b /\ binary_op KNeEq v w = Ok (VBool (negb b))) /\
  (binary_op KEqEqEq v w = Err -> binary_op KNeEq v w = Err) /\
  (binary_op KEqEqEq v w = Panic -> binary_op KNeEq v w = Panic) /\
  (binary_op KEqEqEq v w = Unk -> binary_op KNeEq v w = Unk).
Proof.
  cbn [binary_op]. destruct (strict_eq v w) as [b| | |]; cbn [obind];
    (split; [|split; [|split]]); try discriminate; try reflexivity.
  intros r H. injection H as <-. exists b. auto.
Qed.

(* same kind among null / boolean / number / string: == is === (numbers need not be finite) *)
Definition plain (v : value) : bool :=
  match v with VNull | VBool _ | VNum _ | VStr _ => true | _ => false end.

Theorem loose_eq_same_kind v w : plain v = true -> plain w = true -> kind_of v = kind_of w ->
  loose_eq v w = strict_eq v w.
Proof.
  intros Hv Hw Hk.
  destruct v as [|a|x|s| | | | | | | | | | |]; try discriminate Hv;
  destruct w as [|b|y|t| | | | | | | | | | |]; try discriminate Hw; try discriminate Hk.
  - reflexivity.
  - rewrite strict_eq_bool. destruct a, b; reflexivity.
  - reflexivity.
  - rewrite strict_eq_str. reflexivity.
Qed.

Corollary eq_same_kind_is_strict v w : plain v = true -> plain w = true -> kind_of v = kind_of w ->
  binary_op KEqEq v w = binary_op KEqEqEq v w.
Proof. intros Hv Hw Hk. cbn [binary_op]. rewrite loose_eq_same_kind by assumption. reflexivity. Qed.

(* ---------- examples ---------- *)


Definition d_1 := dec_of_string (str "1"%string).
Definition d_1_0 := dec_of_string (str "1.0"%string).
Definition d_1e0 := dec_of_string (str "1e0"%string).
Definition d_10em1 := dec_of_string (str "10e-1"%string).

Example spellings_of_one_compare_alike :
  let l := [d_1; d_1_0; d_1e0; d_10em1] in
  forallb (fun x => forallb (fun y => dec_cmp x y =? 0) l) l = true /\
  forallb is_finite l = true /\
  forallb (fun x => forallb (fun y => (dec_cmp x y =? dec_cmp d_1 y) && (dec_cmp y x =? dec_cmp y d_1))
                      [dec_of_string (str "0.99"%string); dec_of_string (str "-0"%string); dec_of_string (str "1.000000000000000000000000000000001"%string); dec_of_string (str "2e3"%string)]) l = true.
Proof. vm_compute. auto. Qed.

Example spellings_of_one_same_value :
  (val d_1 == val d_1_0)%Q /\ (val d_1 == val d_1e0)%Q /\ (val d_1 == val d_10em1)%Q.
Proof. vm_compute. auto. Qed.

Example equality_instances :
  strict_eq (VNum d_1) (VNum d_1_0) = Ok true /\
  strict_eq (VNum d_1) (VStr (str "1"%string)) = Ok false /\
  loose_eq (VNum d_1) (VStr (str "1"%string)) = Ok true /\
  strict_eq VNull VNull = Ok true /\ strict_eq VNull (VBool false) = Ok false /\
  strict_eq (VStr (str "ab"%string)) (VStr (str "ab"%string)) = Ok true /\
  binary_op KNeEq (VNum d_1) (VNum d_10em1) = Ok (VBool false) /\
  binary_op KNe (VNum (dec_of_string (str "-0"%string))) (VNum (dec_of_string (str "0.00"%string))) = Ok (VBool false).
Proof. vm_compute. auto 10. Qed.

(* "" < "a" < "ab" < "b"; the two bytes of U+00E9 (195 169) are above "z" *)
Example lex_instances :
  bytes_ltb [] [97] = true /\ bytes_ltb [97] [97; 98] = true /\ bytes_ltb [97; 98] [98] = true /\
  bytes_ltb [122] [195; 169] = true /\ bytes_ltb [97] [97] = false /\ bytes_ltb [98] [97; 98] = false.
Proof. vm_compute. auto 10. Qed.

(* why the theorems assume finite numbers: the library's Cmp answers 0 on NaN, so in the model
   NaN is == and === to every number (and <=, >= hold while <, > do not) *)
Example nan_compares_equal_to_everything :
  strict_eq (VNum NaN) (VNum d_1) = Ok true /\ binary_op KEqEq (VNum NaN) (VNum d_1) = Ok (VBool true) /\
  binary_op KLt (VNum NaN) (VNum d_1) = Ok (VBool false) /\ binary_op KLe (VNum NaN) (VNum d_1) = Ok (VBool true) /\
  binary_op KGe (VNum NaN) (VNum d_1) = Ok (VBool true).
Proof. vm_compute. auto 10. Qed.

(* ---------- Go integers that were not normalised (below a member, inside an array): == and === compare the
   Go interface values, which are equal only when the dynamic TYPES are identical - uint(5) and uint64(5) differ ---------- *)
Lemma gokind_eqb_eq k k' : gokind_eqb k k' = true <-> k = k'.
Proof. split; [destruct k, k'; intros H; try reflexivity; discriminate H | intros ->; destruct k'; reflexivity]. Qed.

Lemma goint_strict_eq k k' x y :
  binary_op KEqEqEq (VGoInt k x) (VGoInt k' y) = Ok (VBool ((x =? y) && gokind_eqb k k')).
Proof. cbv [binary_op]. cbn. destruct ((x =? y) && gokind_eqb k k'); reflexivity. Qed.

Lemma goint_loose_eq k k' x y :
  binary_op KEqEq (VGoInt k x) (VGoInt k' y) = Ok (VBool ((x =? y) && gokind_eqb k k')).
Proof. reflexivity. Qed.

Theorem goint_eq_iff k k' x y :
  binary_op KEqEq (VGoInt k x) (VGoInt k' y) = Ok (VBool true) <-> (x = y /\ k = k').
Proof.
  rewrite goint_loose_eq. split.
  - intros H. injection H as H. apply andb_true_iff in H. destruct H as [H1 H2].
    apply Z.eqb_eq in H1. apply gokind_eqb_eq in H2. auto.
  - intros [-> ->]. rewrite Z.eqb_refl. replace (gokind_eqb k' k') with true by (symmetry; apply gokind_eqb_eq; reflexivity). reflexivity.
Qed.

Example goint_eq_examples :
  binary_op KEqEq (VGoInt GUint 5) (VGoInt GUint64 5) = Ok (VBool false) /\
  binary_op KEqEqEq (VGoInt GInt8 5) (VGoInt GInt16 5) = Ok (VBool false) /\
  binary_op KEqEq (VGoInt GUint8 5) (VGoInt GUint8 5) = Ok (VBool true) /\
  binary_op KNe (VGoInt GUint 5) (VGoInt GUint64 5) = Ok (VBool true).
Proof. vm_compute. auto. Qed.
