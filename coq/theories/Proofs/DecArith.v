(* C04 at the level of whole operations: + - * / % on finite decimals, read on rational values;
   entry of literals, Go integers and floats; worked examples. *)
From Coq Require Import QArith Qabs ZArith Lia Bool List String.
From Formula Require Import Sem.Eval Proofs.DecFacts Proofs.DecVal.
Import ListNotations.
Open Scope Z_scope.

Lemma finite_inv x : finite x = true -> exists n c e, x = Fin n c e /\ 0 <= c.
Proof.
  destruct x as [n c e| |]; intros H; try discriminate H.
  cbn [finite] in H. apply Z.leb_le in H. eauto.
Qed.

Lemma prec_pos : 0 < prec.
Proof. reflexivity. Qed.

(* ---------- + ---------- *)

(* the model's sum of two finite decimals is fin_round of the exact integer sum at the common
   exponent (this is the definition, displayed) *)
Theorem add_is_fin_round n1 c1 e1 n2 c2 e2 :
  let e := Z.min e1 e2 in
  let s := scoef n1 (c1 * pow10 (e1 - e)) + scoef n2 (c2 * pow10 (e2 - e)) in
  dec_add (Fin n1 c1 e1) (Fin n2 c2 e2) =
  if s =? 0 then Fin (n1 && n2) 0 e else fin_round (s <? 0) (Z.abs s) e.
Proof. reflexivity. Qed.

Theorem add_rounded x y : finite x = true -> finite y = true ->
  rounds_to prec (val x + val y)%Q (dec_add x y).
Proof.
  intros Hx Hy. destruct (finite_inv x Hx) as (n1 & c1 & e1 & -> & _).
  destruct (finite_inv y Hy) as (n2 & c2 & e2 & -> & _). apply add_rounds_fin.
Qed.

Theorem add_exact x y n c e : finite x = true -> finite y = true ->
  0 <= c < 10 ^ prec -> (val x + val y == val (Fin n c e))%Q ->
  (val (dec_add x y) == val x + val y)%Q.
Proof.
  intros Hx Hy Hc Hq.
  apply (rounds_to_representable prec _ _ n c e prec_pos (add_rounded x y Hx Hy) Hc Hq).
Qed.

Theorem add_exact_digits n1 c1 e1 n2 c2 e2 :
  let e := Z.min e1 e2 in
  let s := scoef n1 (c1 * pow10 (e1 - e)) + scoef n2 (c2 * pow10 (e2 - e)) in
  ndigits (Z.abs s) <= prec ->
  (val (dec_add (Fin n1 c1 e1) (Fin n2 c2 e2)) == val (Fin n1 c1 e1) + val (Fin n2 c2 e2))%Q /\
  (val (dec_add (Fin n1 c1 e1) (Fin n2 c2 e2)) == inject_Z s * q10 e)%Q.
Proof.
  cbn zeta. intros H. split.
  - apply add_exact_fin. exact H.
  - rewrite add_exact_fin by exact H. apply val_sum.
Qed.

(* ---------- - ---------- *)

Theorem sub_is_fin_round n1 c1 e1 n2 c2 e2 :
  let e := Z.min e1 e2 in
  let s := scoef n1 (c1 * pow10 (e1 - e)) - scoef n2 (c2 * pow10 (e2 - e)) in
  dec_sub (Fin n1 c1 e1) (Fin n2 c2 e2) =
  if s =? 0 then Fin (n1 && negb n2) 0 e else fin_round (s <? 0) (Z.abs s) e.
Proof.
  cbn zeta. unfold dec_sub. cbn [flip]. rewrite add_is_fin_round. cbn zeta.
  rewrite (scoef_negb n2). reflexivity.
Qed.

Lemma finite_flip y : finite y = true -> finite (flip y) = true.
Proof. destruct y; auto. Qed.

Theorem sub_rounded x y : finite x = true -> finite y = true ->
  rounds_to prec (val x - val y)%Q (dec_sub x y).
Proof.
  intros Hx Hy. unfold dec_sub.
  apply (rounds_to_wd prec (val x + val (flip y))%Q).
  - rewrite val_flip. reflexivity.
  - apply add_rounded; [exact Hx|apply finite_flip; exact Hy].
Qed.

Theorem sub_exact x y n c e : finite x = true -> finite y = true ->
  0 <= c < 10 ^ prec -> (val x - val y == val (Fin n c e))%Q ->
  (val (dec_sub x y) == val x - val y)%Q.
Proof.
  intros Hx Hy Hc Hq.
  apply (rounds_to_representable prec _ _ n c e prec_pos (sub_rounded x y Hx Hy) Hc Hq).
Qed.

Theorem sub_exact_digits n1 c1 e1 n2 c2 e2 :
  let e := Z.min e1 e2 in
  let s := scoef n1 (c1 * pow10 (e1 - e)) - scoef n2 (c2 * pow10 (e2 - e)) in
  ndigits (Z.abs s) <= prec ->
  (val (dec_sub (Fin n1 c1 e1) (Fin n2 c2 e2)) == val (Fin n1 c1 e1) - val (Fin n2 c2 e2))%Q /\
  (val (dec_sub (Fin n1 c1 e1) (Fin n2 c2 e2)) == inject_Z s * q10 e)%Q.
Proof.
  cbn zeta. intros H. unfold dec_sub. cbn [flip].
  assert (Hs : scoef n1 (c1 * pow10 (e1 - Z.min e1 e2)) - scoef n2 (c2 * pow10 (e2 - Z.min e1 e2)) =
               scoef n1 (c1 * pow10 (e1 - Z.min e1 e2)) + scoef (negb n2) (c2 * pow10 (e2 - Z.min e1 e2))).
  { rewrite scoef_negb. lia. }
  rewrite Hs in *.
  destruct (add_exact_digits n1 c1 e1 (negb n2) c2 e2 H) as [A B]. split; [|exact B].
  rewrite A. change (Fin (negb n2) c2 e2) with (flip (Fin n2 c2 e2)). rewrite val_flip. reflexivity.
Qed.

(* ---------- * ---------- *)

Theorem mul_is_fin_round n1 c1 e1 n2 c2 e2 :
  dec_mul (Fin n1 c1 e1) (Fin n2 c2 e2) = fin_round (xorb n1 n2) (c1 * c2) (e1 + e2).
Proof. reflexivity. Qed.

Theorem mul_rounded x y : finite x = true -> finite y = true ->
  rounds_to prec (val x * val y)%Q (dec_mul x y).
Proof.
  intros Hx Hy. destruct (finite_inv x Hx) as (n1 & c1 & e1 & -> & H1).
  destruct (finite_inv y Hy) as (n2 & c2 & e2 & -> & H2). apply mul_rounds_fin; assumption.
Qed.

Theorem mul_exact x y n c e : finite x = true -> finite y = true ->
  0 <= c < 10 ^ prec -> (val x * val y == val (Fin n c e))%Q ->
  (val (dec_mul x y) == val x * val y)%Q.
Proof.
  intros Hx Hy Hc Hq.
  apply (rounds_to_representable prec _ _ n c e prec_pos (mul_rounded x y Hx Hy) Hc Hq).
Qed.

Theorem mul_exact_digits n1 c1 e1 n2 c2 e2 :
  ndigits (c1 * c2) <= prec ->
  dec_mul (Fin n1 c1 e1) (Fin n2 c2 e2) = Fin (xorb n1 n2) (c1 * c2) (e1 + e2) /\
  (val (dec_mul (Fin n1 c1 e1) (Fin n2 c2 e2)) == val (Fin n1 c1 e1) * val (Fin n2 c2 e2))%Q.
Proof.
  intros H. split.
  - cbn [dec_mul]. unfold fin_round. rewrite round_he_exact by exact H. reflexivity.
  - apply mul_exact_fin. exact H.
Qed.

(* ---------- / ---------- *)

Definition nonzero (x : dec) : bool := match x with Fin _ c _ => 0 <? c | _ => false end.

Lemma nonzero_inv x : nonzero x = true -> exists n c e, x = Fin n c e /\ 0 < c.
Proof.
  destruct x as [n c e| |]; intros H; try discriminate H.
  cbn [nonzero] in H. apply Z.ltb_lt in H. eauto.
Qed.

Theorem quo_spec x y : nonzero x = true -> nonzero y = true ->
  rounds_to prec (val x / val y)%Q (dec_quo x y).
Proof.
  intros Hx Hy. destruct (nonzero_inv x Hx) as (n1 & c1 & e1 & -> & H1).
  destruct (nonzero_inv y Hy) as (n2 & c2 & e2 & -> & H2). apply quo_rounds_fin; assumption.
Qed.

Theorem quo_exact x y n c e : nonzero x = true -> nonzero y = true ->
  0 <= c < 10 ^ prec -> (val x / val y == val (Fin n c e))%Q ->
  (val (dec_quo x y) == val x / val y)%Q.
Proof.
  intros Hx Hy Hc Hq.
  apply (rounds_to_representable prec _ _ n c e prec_pos (quo_spec x y Hx Hy) Hc Hq).
Qed.

(* a zero dividend gives a zero *)
Theorem quo_zero_dividend n1 e1 y : nonzero y = true ->
  exists n e, dec_quo (Fin n1 0 e1) y = Fin n 0 e.
Proof.
  intros Hy. destruct (nonzero_inv y Hy) as (n2 & c2 & e2 & -> & H2). cbn [dec_quo].
  destruct (c2 =? 0) eqn:E; [apply Z.eqb_eq in E; lia|]. cbn. eauto.
Qed.

(* the integer form: dec_quo is round_div on the coefficients *)
Theorem quo_is_round_div n1 c1 e1 n2 c2 e2 : 0 < c1 -> 0 < c2 ->
  dec_quo (Fin n1 c1 e1) (Fin n2 c2 e2) =
  let '(c, e) := round_div prec c1 c2 (e1 - e2) in Fin (xorb n1 n2) c e.
Proof.
  intros H1 H2. cbn [dec_quo].
  destruct (c2 =? 0) eqn:E2; [apply Z.eqb_eq in E2; lia|].
  destruct (c1 =? 0) eqn:E1; [apply Z.eqb_eq in E1; lia|]. reflexivity.
Qed.

(* ---------- % ---------- *)

Section RemVal.
Variables (n1 : bool) (c1 e1 : Z) (n2 : bool) (c2 e2 : Z).
Let e := Z.min e1 e2.
Let A := scoef n1 (c1 * pow10 (e1 - e)).
Let B := scoef n2 (c2 * pow10 (e2 - e)).

(* the remainder on values: x - trunc(x/y) * y, smaller than y in magnitude, sign bit of x *)
Theorem rem_value : 0 <= c1 < 10 ^ prec -> 0 < c2 < 10 ^ prec ->
  ndigits (Z.abs (Z.quot A B)) <= prec ->
  let r := dec_rem (Fin n1 c1 e1) (Fin n2 c2 e2) in
  (val r == val (Fin n1 c1 e1) - inject_Z (Z.quot A B) * val (Fin n2 c2 e2))%Q /\
  (Qabs (val r) < Qabs (val (Fin n2 c2 e2)))%Q /\
  sign_of r = n1 /\ finite r = true.
Proof.
  intros H1 H2 Hq. cbn zeta.
  rewrite (rem_exact n1 c1 e1 n2 c2 e2 H1 H2 Hq). fold e. fold A. fold B.
  destruct (rem_aligned n1 c1 e1 n2 c2 e2 (proj1 H1) (proj1 H2)) as (Ha & Hb & Eq & Er & Hmb).
  cbn zeta in *. fold e in Ha, Hb, Eq, Er, Hmb. fold A in Eq, Er. fold B in Eq, Er.
  assert (HB : B <> 0).
  { unfold B, scoef. destruct n2; lia. }
  pose proof (Z.quot_rem' A B) as Hqr.
  assert (Hv : (val (Fin n1 (Z.abs (Z.rem A B)) e) == inject_Z (Z.rem A B) * q10 e)%Q).
  { cbn [val]. rewrite Er. unfold scoef. destruct n1; rewrite ?Z.abs_opp, Z.abs_eq by lia; reflexivity. }
  split; [|split; [|split]].
  - rewrite Hv, (val_a n1 c1 e1 n2 c2 e2), (val_b n1 c1 e1 n2 c2 e2). fold e. fold A. fold B.
    replace (Z.rem A B) with (A - B * Z.quot A B) by lia.
    rewrite <- inject_Z_minus, inject_Z_mult. ring.
  - rewrite Hv, (val_b n1 c1 e1 n2 c2 e2). fold e. fold B.
    rewrite !Qabs_Qmult, !Qabs_inject.
    apply Qmult_lt_compat_r.
    + rewrite Qabs_pos by (apply Qlt_le_weak, q10_pos). apply q10_pos.
    + rewrite <- Zlt_Qlt. pose proof (Z.rem_bound_abs A B HB). lia.
  - reflexivity.
  - cbn [finite]. apply Z.leb_le. lia.
Qed.

End RemVal.

(* ---------- entry ---------- *)

Theorem int_entry_exact n :
  format_input (VGoInt GInt64 n) = VNum (dec_of_Z n) /\
  format_input (VGoInt GInt n) = VNum (dec_of_Z n) /\
  format_input (VGoInt GInt32 n) = VNum (dec_of_Z n) /\
  (val (dec_of_Z n) == inject_Z n)%Q /\ finite (dec_of_Z n) = true.
Proof.
  split; [reflexivity|]. split; [reflexivity|]. split; [reflexivity|]. split.
  - unfold dec_of_Z. cbn [val]. rewrite scoef_abs. change (q10 0) with 1%Q. ring.
  - cbn. apply Z.leb_le. lia.
Qed.

Theorem float_entry s : format_input (VGoFloat s) = VNum (dec_of_string s).
Proof. reflexivity. Qed.

(* a literal evaluates to dec_of_string of its spelling *)
Theorem literal_value_exact ip fp ex :
  all_digits ip = true -> all_digits (frac_digits fp) = true -> exp_ok ex = true ->
  ip ++ frac_digits fp <> [] ->
  (val (dec_of_string (ip ++ frac_bytes fp ++ exp_bytes ex)) ==
   inject_Z (digit_val (ip ++ frac_digits fp)) * q10 (exp_value ex - Z.of_nat (length (frac_digits fp))))%Q.
Proof.
  intros A B C D. rewrite literal_kept_exactly by assumption. reflexivity.
Qed.

(* ---------- examples ---------- *)

Definition ds (s : string) : dec := dec_of_string (str s).

Example literal_instance :
  str "12.50e-3" = [49; 50] ++ frac_bytes (Some [53; 48]) ++ exp_bytes (Some (101, EMinus, [51])) /\
  all_digits [49; 50] = true /\ all_digits [53; 48] = true /\ exp_ok (Some (101, EMinus, [51])) = true /\
  ds "12.50e-3" = Fin false 1250 (-5).
Proof. vm_compute. auto. Qed.

Example tenth_plus_fifth :
  exists s, binary_op KPlus (VNum (ds "0.1")) (VNum (ds "0.2")) = Ok (VNum s) /\
            binary_op KEqEqEq (VNum s) (VNum (ds "0.3")) = Ok (VBool true) /\
            strict_eq (VNum (dec_add (ds "0.1") (ds "0.2"))) (VNum (ds "0.3")) = Ok true /\
            dec_cmp (dec_add (ds "0.1") (ds "0.2")) (ds "0.3") = 0.
Proof. eexists. vm_compute. auto. Qed.

Example int64_above_2_53 :
  dec_cmp (dec_of_Z 9007199254740993) (ds "9007199254740993") = 0 /\
  strict_eq (format_input (VGoInt GInt64 9007199254740993)) (VNum (ds "9007199254740993")) = Ok true /\
  dec_cmp (dec_of_Z 9007199254740993) (ds "9007199254740992") = 1.
Proof. vm_compute. auto. Qed.

(* the hypothesis of add_exact on an instance: 0.1 + 0.2 is the 1-digit decimal 3e-1 *)
Example add_exact_instance :
  finite (ds "0.1") = true /\ finite (ds "0.2") = true /\
  (val (ds "0.1") + val (ds "0.2") == val (Fin false 3 (-1)))%Q.
Proof. vm_compute. auto. Qed.

(* rounding does happen: 34 nines plus a half is a tie and goes to the even neighbour 10^34 *)
Example add_rounding_instance :
  dec_add (ds "9999999999999999999999999999999999") (ds "0.5") = Fin false (10 ^ 33) 1 /\
  dec_add (ds "9999999999999999999999999999999998") (ds "0.5") = Fin false 9999999999999999999999999999999998 0 /\
  dec_mul (ds "3333333333333333333333333333333333") (ds "3.5") = Fin false 1166666666666666666666666666666667 1.
Proof. vm_compute. auto. Qed.

Example quo_instance :
  nonzero (ds "1") = true /\ nonzero (ds "3") = true /\
  dec_quo (ds "1") (ds "3") = Fin false 3333333333333333333333333333333333 (-34) /\
  dec_quo (ds "2") (ds "3") = Fin false 6666666666666666666666666666666667 (-34) /\
  dec_quo (ds "1") (ds "8") = Fin false 125 (-3) /\
  (val (ds "1") / val (ds "8") == val (Fin false 125 (-3)))%Q.
Proof. vm_compute. auto 10. Qed.

Example rem_instance :
  dec_rem (ds "7") (ds "-3") = Fin false 1 0 /\ dec_rem (ds "-7") (ds "3") = Fin true 1 0 /\
  dec_rem (ds "7.5") (ds "2") = Fin false 15 (-1) /\ dec_rem (ds "-6") (ds "3") = Fin true 0 0 /\
  ndigits (Z.abs (Z.quot (scoef false (7 * pow10 0)) (scoef true (3 * pow10 0)))) <= prec.
Proof. vm_compute. split; [auto|]. split; [auto|]. split; [auto|]. split; [auto|]. discriminate. Qed.

Example rem_impossible_instance :
  dec_rem (ds "1e40") (ds "3") = NaN /\
  prec < ndigits (Z.abs (Z.quot (scoef false (1 * pow10 40)) (scoef false (3 * pow10 0)))).
Proof. vm_compute. auto. Qed.

(* ---------- results are again finite decimals of at most 34 digits ---------- *)

Definition fits (x : dec) : bool := match x with Fin _ c _ => (0 <=? c) && (c <? 10 ^ prec) | _ => false end.

Lemma fits_finite x : fits x = true -> finite x = true.
Proof.
  destruct x as [n c e| |]; cbn [fits finite]; try discriminate.
  intros H. apply andb_true_iff in H. apply H.
Qed.

Lemma rounds_to_fits q r : rounds_to prec q r -> fits r = true.
Proof.
  intros (n & c & e & u & -> & Hc & _). cbn [fits]. apply andb_true_iff. split; [apply Z.leb_le|apply Z.ltb_lt]; lia.
Qed.

Theorem results_fit x y : finite x = true -> finite y = true ->
  fits (dec_add x y) = true /\ fits (dec_sub x y) = true /\ fits (dec_mul x y) = true /\
  (nonzero y = true -> fits (dec_quo x y) = true).
Proof.
  intros Hx Hy.
  split; [apply (rounds_to_fits _ _ (add_rounded x y Hx Hy))|].
  split; [apply (rounds_to_fits _ _ (sub_rounded x y Hx Hy))|].
  split; [apply (rounds_to_fits _ _ (mul_rounded x y Hx Hy))|].
  intros Hy0. destruct (finite_inv x Hx) as (n1 & c1 & e1 & -> & H1).
  destruct (Z.eq_dec c1 0) as [->|Hne].
  - destruct (quo_zero_dividend n1 e1 y Hy0) as (n & e & ->). reflexivity.
  - apply (rounds_to_fits (val (Fin n1 c1 e1) / val y)%Q). apply quo_spec; [|exact Hy0].
    cbn [nonzero]. apply Z.ltb_lt. lia.
Qed.

Example round_he_instances :
  round_he 3 12345 0 = (123, 2) /\ round_he 3 12350 0 = (124, 2) /\ round_he 3 12450 0 = (124, 2) /\
  round_he 3 99950 (-2) = (100, 1) /\ round_he 34 (3 * 10 ^ 40 + 5) 0 = (3 * 10 ^ 33, 7) /\ ndigits 12350 = 5.
Proof. vm_compute. auto 10. Qed.

(* what Z.quot / Z.rem (Coq's truncated division) are: the remainder is smaller than the divisor
   in magnitude and has the sign of the dividend, i.e. the quotient is rounded toward zero *)
Theorem trunc_division_facts a b : b <> 0 ->
  a = b * Z.quot a b + Z.rem a b /\ Z.abs (Z.rem a b) < Z.abs b /\ 0 <= Z.rem a b * a.
Proof.
  intros Hb. split; [apply Z.quot_rem'|]. split; [apply Z.rem_bound_abs; exact Hb|apply Z.rem_sign_mul; exact Hb].
Qed.

(* the limitation of % is reachable inside the property's own domain (1-34 digits, exponents
   within +-30): 1e30 % 3e-10 has a 40-digit integer quotient *)
Example rem_impossible_in_domain :
  dec_rem (ds "1e30") (ds "3e-10") = NaN /\ ds "1e30" = Fin false 1 30 /\ ds "3e-10" = Fin false 3 (-10) /\
  prec < ndigits (Z.abs (Z.quot (scoef false (1 * pow10 (30 - Z.min 30 (-10)))) (scoef false (3 * pow10 (-10 - Z.min 30 (-10)))))).
Proof. vm_compute. auto. Qed.

Example signed_literal_instance :
  ds "-0.5" = Fin true 5 (-1) /\ ds "1e+06" = Fin false 1 6 /\ ds "-1.25E-7" = Fin true 125 (-9) /\
  str "-0.5" = 45 :: [48] ++ frac_bytes (Some [53]) ++ exp_bytes None.
Proof. vm_compute. auto. Qed.
