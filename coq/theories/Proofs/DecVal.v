(* The rational value of a decimal, and the arithmetic / ordering of the model read on values. *)
From Coq Require Import QArith Qabs Qpower Qfield ZArith Lia Bool.
From Formula Require Import Num.Dec Proofs.DecFacts.
Open Scope Q_scope.

(* 10^e as a rational, e of either sign *)
Definition q10 (e : Z) : Q := inject_Z 10 ^ e.

(* the mathematical value (-1)^neg * c * 10^e of a finite decimal (0 for Inf / NaN, which every
   theorem below excludes by a [finite] hypothesis) *)
Definition val (x : dec) : Q :=
  match x with
  | Fin n c e => inject_Z (scoef n c) * q10 e
  | _ => 0
  end.

(* ---------- powers of ten in Q ---------- *)

Lemma ten_neq_0 : ~ inject_Z 10 == 0.
Proof. intros H. discriminate H. Qed.

Lemma q10_pos e : 0 < q10 e.
Proof. unfold q10. apply Qpower_0_lt. reflexivity. Qed.

Lemma q10_neq_0 e : ~ q10 e == 0.
Proof. intros H. pose proof (q10_pos e) as P. rewrite H in P. discriminate P. Qed.

Lemma q10_add a b : q10 (a + b) == q10 a * q10 b.
Proof. unfold q10. apply Qpower_plus. exact ten_neq_0. Qed.

Lemma q10_Z k : (0 <= k)%Z -> q10 k == inject_Z (pow10 k).
Proof. intros Hk. unfold q10, pow10. symmetry. apply Zpower_Qpower. exact Hk. Qed.

Lemma q10_opp k : q10 (- k) == / q10 k.
Proof. unfold q10. apply Qpower_opp. Qed.

Lemma q10_split e m : (m <= e)%Z -> q10 e == inject_Z (pow10 (e - m)) * q10 m.
Proof.
  intros H. replace e with ((e - m) + m)%Z at 1 by lia. rewrite q10_add, q10_Z by lia. reflexivity.
Qed.

(* ---------- signed coefficients ---------- *)

Lemma scoef_mul n c k : scoef n (c * k) = (scoef n c * k)%Z.
Proof. unfold scoef. destruct n; lia. Qed.

Lemma scoef_0 n : scoef n 0 = 0%Z.
Proof. destruct n; reflexivity. Qed.

Lemma scoef_negb n c : scoef (negb n) c = (- scoef n c)%Z.
Proof. unfold scoef. destruct n; cbn [negb]; lia. Qed.

Lemma scoef_xorb a b c : scoef (xorb a b) c = scoef a (scoef b c).
Proof. unfold scoef. destruct a, b; cbn [xorb]; lia. Qed.

(* the value read at any lower exponent m: the coefficient scaled by 10^(e-m), times 10^m *)
Lemma val_align n c e m : (m <= e)%Z ->
  val (Fin n c e) == inject_Z (scoef n (c * pow10 (e - m))) * q10 m.
Proof.
  intros H. cbn [val]. rewrite (q10_split e m H), scoef_mul, inject_Z_mult. ring.
Qed.

Lemma val_flip x : val (flip x) == - val x.
Proof.
  destruct x as [n c e| |]; cbn [flip val]; [|reflexivity|reflexivity].
  rewrite scoef_negb, inject_Z_opp. ring.
Qed.

Lemma val_zero n e : val (Fin n 0 e) == 0.
Proof. cbn [val]. rewrite scoef_0. ring. Qed.

(* ---------- comparison is the order of values ---------- *)

Section Cmp.
Variables (n1 : bool) (c1 e1 : Z) (n2 : bool) (c2 e2 : Z).
Let e := Z.min e1 e2.
Let a := scoef n1 (c1 * pow10 (e1 - e)).
Let b := scoef n2 (c2 * pow10 (e2 - e)).

Lemma val_a : val (Fin n1 c1 e1) == inject_Z a * q10 e.
Proof. apply val_align. unfold e. lia. Qed.
Lemma val_b : val (Fin n2 c2 e2) == inject_Z b * q10 e.
Proof. apply val_align. unfold e. lia. Qed.

Lemma val_lt_iff : val (Fin n1 c1 e1) < val (Fin n2 c2 e2) <-> (a < b)%Z.
Proof. rewrite val_a, val_b, Qmult_lt_r by apply q10_pos. rewrite <- Zlt_Qlt. reflexivity. Qed.

Lemma val_eq_iff : val (Fin n1 c1 e1) == val (Fin n2 c2 e2) <-> a = b.
Proof.
  rewrite val_a, val_b. split.
  - intros H. apply Qmult_inj_r in H; [|apply q10_neq_0]. apply inject_Z_injective. exact H.
  - intros ->. reflexivity.
Qed.

Lemma dec_cmp_fin :
  dec_cmp (Fin n1 c1 e1) (Fin n2 c2 e2) = if (a <? b)%Z then (-1)%Z else if (a =? b)%Z then 0%Z else 1%Z.
Proof. reflexivity. Qed.

Lemma cmp_lt_iff : dec_cmp (Fin n1 c1 e1) (Fin n2 c2 e2) = (-1)%Z <-> val (Fin n1 c1 e1) < val (Fin n2 c2 e2).
Proof.
  rewrite val_lt_iff, dec_cmp_fin.
  destruct (a <? b)%Z eqn:E1; [apply Z.ltb_lt in E1|apply Z.ltb_ge in E1].
  - split; auto.
  - destruct (a =? b)%Z; split; intros H; try discriminate H; lia.
Qed.

Lemma cmp_eq_iff : dec_cmp (Fin n1 c1 e1) (Fin n2 c2 e2) = 0%Z <-> val (Fin n1 c1 e1) == val (Fin n2 c2 e2).
Proof.
  rewrite val_eq_iff, dec_cmp_fin.
  destruct (a <? b)%Z eqn:E1; [apply Z.ltb_lt in E1|apply Z.ltb_ge in E1].
  - split; intros H; [discriminate H|lia].
  - destruct (a =? b)%Z eqn:E2; [apply Z.eqb_eq in E2|apply Z.eqb_neq in E2]; split; intros H; try discriminate H; auto; lia.
Qed.

Lemma cmp_gt_iff : dec_cmp (Fin n1 c1 e1) (Fin n2 c2 e2) = 1%Z <-> val (Fin n2 c2 e2) < val (Fin n1 c1 e1).
Proof.
  assert (H : val (Fin n2 c2 e2) < val (Fin n1 c1 e1) <-> (b < a)%Z).
  { rewrite val_a, val_b, Qmult_lt_r by apply q10_pos. rewrite <- Zlt_Qlt. reflexivity. }
  rewrite H, dec_cmp_fin.
  destruct (a <? b)%Z eqn:E1; [apply Z.ltb_lt in E1|apply Z.ltb_ge in E1].
  - split; intros H'; [discriminate H'|lia].
  - destruct (a =? b)%Z eqn:E2; [apply Z.eqb_eq in E2|apply Z.eqb_neq in E2]; split; intros H'; try discriminate H'; auto; lia.
Qed.

Lemma cmp_range : let r := dec_cmp (Fin n1 c1 e1) (Fin n2 c2 e2) in r = (-1)%Z \/ r = 0%Z \/ r = 1%Z.
Proof.
  cbn zeta. rewrite dec_cmp_fin. destruct (a <? b)%Z; [auto|]. destruct (a =? b)%Z; auto.
Qed.

End Cmp.

(* is_finite: Fin with any coefficient (the comparison theorems do not need c >= 0) *)
Lemma is_finite_inv x : is_finite x = true -> exists n c e, x = Fin n c e.
Proof. destruct x as [n c e| |]; intros H; try discriminate H. eauto. Qed.

Theorem cmp_trichotomy x y : is_finite x = true -> is_finite y = true ->
  (dec_cmp x y = (-1)%Z /\ dec_cmp x y <> 0%Z /\ dec_cmp x y <> 1%Z) \/
  (dec_cmp x y <> (-1)%Z /\ dec_cmp x y = 0%Z /\ dec_cmp x y <> 1%Z) \/
  (dec_cmp x y <> (-1)%Z /\ dec_cmp x y <> 0%Z /\ dec_cmp x y = 1%Z).
Proof.
  intros Hx Hy. destruct (is_finite_inv x Hx) as (n1 & c1 & e1 & ->).
  destruct (is_finite_inv y Hy) as (n2 & c2 & e2 & ->).
  pose proof (cmp_range n1 c1 e1 n2 c2 e2) as H. cbn zeta in H. lia.
Qed.

Theorem cmp_is_value_order x y : is_finite x = true -> is_finite y = true ->
  (dec_cmp x y = (-1)%Z <-> val x < val y) /\
  (dec_cmp x y = 0%Z <-> val x == val y) /\
  (dec_cmp x y = 1%Z <-> val y < val x).
Proof.
  intros Hx Hy. destruct (is_finite_inv x Hx) as (n1 & c1 & e1 & ->).
  destruct (is_finite_inv y Hy) as (n2 & c2 & e2 & ->).
  split; [apply cmp_lt_iff|]. split; [apply cmp_eq_iff|apply cmp_gt_iff].
Qed.

Theorem cmp_representation_independent x x' y :
  is_finite x = true -> is_finite x' = true -> is_finite y = true ->
  val x == val x' -> dec_cmp x y = dec_cmp x' y.
Proof.
  intros Hx Hx' Hy Hv.
  destruct (cmp_is_value_order x y Hx Hy) as (L1 & E1 & G1).
  destruct (cmp_is_value_order x' y Hx' Hy) as (L2 & E2 & G2).
  destruct (cmp_trichotomy x y Hx Hy) as [(A & _)|[(_ & A & _)|(_ & _ & A)]]; rewrite A; symmetry.
  - apply L2. rewrite <- Hv. apply L1. exact A.
  - apply E2. rewrite <- Hv. apply E1. exact A.
  - apply G2. rewrite <- Hv. apply G1. exact A.
Qed.

Theorem cmp_representation_independent_r x y y' :
  is_finite x = true -> is_finite y = true -> is_finite y' = true ->
  val y == val y' -> dec_cmp x y = dec_cmp x y'.
Proof.
  intros Hx Hy Hy' Hv.
  destruct (cmp_is_value_order x y Hx Hy) as (L1 & E1 & G1).
  destruct (cmp_is_value_order x y' Hx Hy') as (L2 & E2 & G2).
  destruct (cmp_trichotomy x y Hx Hy) as [(A & _)|[(_ & A & _)|(_ & _ & A)]]; rewrite A; symmetry.
  - apply L2. rewrite <- Hv. apply L1. exact A.
  - apply E2. rewrite <- Hv. apply E1. exact A.
  - apply G2. rewrite <- Hv. apply G1. exact A.
Qed.

(* ---------- rounding to p significant digits, on values ---------- *)

(* [rounds_to p q r]: the decimal r is the rational q rounded half-even to p significant digits.
   r has a coefficient below 10^p; either r is exactly q, or 10^u is the unit of the p-th
   significant digit of q (10^(p-1) <= |q| / 10^u < 10^p); r is a multiple of 10^u within half a
   unit of q, and in the case of an exact tie the multiple is even. *)
Definition rounds_to (p : Z) (q : Q) (r : dec) : Prop :=
  exists n c e u,
    r = Fin n c e /\ (0 <= c < 10 ^ p)%Z /\ (u <= e)%Z /\
    (q == val r \/ (inject_Z (10 ^ (p - 1)) * q10 u <= Qabs q /\ Qabs q < inject_Z (10 ^ p) * q10 u)) /\
    2 * Qabs (q - val r) <= q10 u /\
    (2 * Qabs (q - val r) == q10 u -> Z.even (c * 10 ^ (e - u)) = true).

Lemma inject_pos D : (0 < D)%Z -> 0 < inject_Z D.
Proof. intros H. rewrite Zlt_Qlt in H. exact H. Qed.

Lemma inject_neq_0 D : (0 < D)%Z -> ~ inject_Z D == 0.
Proof. intros H E. apply inject_pos in H. rewrite E in H. discriminate H. Qed.

Lemma Qabs_inject z : Qabs (inject_Z z) = inject_Z (Z.abs z).
Proof. reflexivity. Qed.

Lemma Qabs_scaled z D u : (0 < D)%Z ->
  Qabs (inject_Z z * q10 u / inject_Z D) == inject_Z (Z.abs z) * q10 u / inject_Z D.
Proof.
  intros HD. unfold Qdiv. rewrite !Qabs_Qmult, Qabs_inject.
  rewrite (Qabs_pos (q10 u)) by (apply Qlt_le_weak, q10_pos).
  rewrite (Qabs_pos (/ inject_Z D)); [reflexivity|].
  apply Qlt_le_weak, Qinv_lt_0_compat, inject_pos, HD.
Qed.

(* comparing N * 10^u / D with P * 10^u is comparing N with P * D *)
Section Scaled.
Variables (N P D u : Z).
Hypothesis HD : (0 < D)%Z.

Let X := inject_Z N * q10 u / inject_Z D.
Let Y := inject_Z P * q10 u.

Lemma scaled_X : X * inject_Z D == inject_Z N * q10 u.
Proof. unfold X. field. apply inject_neq_0, HD. Qed.
Lemma scaled_Y : Y * inject_Z D == inject_Z (P * D) * q10 u.
Proof. unfold Y. rewrite inject_Z_mult. ring. Qed.

Lemma scaled_le : X <= Y <-> (N <= P * D)%Z.
Proof.
  rewrite <- (Qmult_le_r X Y (inject_Z D)) by (apply inject_pos, HD).
  rewrite scaled_X, scaled_Y, Qmult_le_r by apply q10_pos. rewrite <- Zle_Qle. reflexivity.
Qed.
Lemma scaled_ge : Y <= X <-> (P * D <= N)%Z.
Proof.
  rewrite <- (Qmult_le_r Y X (inject_Z D)) by (apply inject_pos, HD).
  rewrite scaled_X, scaled_Y, Qmult_le_r by apply q10_pos. rewrite <- Zle_Qle. reflexivity.
Qed.
Lemma scaled_lt : X < Y <-> (N < P * D)%Z.
Proof.
  rewrite <- (Qmult_lt_r X Y (inject_Z D)) by (apply inject_pos, HD).
  rewrite scaled_X, scaled_Y, Qmult_lt_r by apply q10_pos. rewrite <- Zlt_Qlt. reflexivity.
Qed.
Lemma scaled_eq : X == Y <-> (N = P * D)%Z.
Proof.
  split.
  - intros H. assert (H' : X * inject_Z D == Y * inject_Z D) by (rewrite H; reflexivity).
    rewrite scaled_X, scaled_Y in H'. apply Qmult_inj_r in H'; [|apply q10_neq_0].
    apply inject_Z_injective. exact H'.
  - intros H. apply (Qmult_inj_r X Y (inject_Z D)); [apply inject_neq_0, HD|].
    rewrite scaled_X, scaled_Y, H. reflexivity.
Qed.
End Scaled.

Lemma abs_scoef sg z : Z.abs (scoef sg z) = Z.abs z.
Proof. unfold scoef. destruct sg; lia. Qed.

Lemma rounds_to_exact p q n c e : (0 <= c < 10 ^ p)%Z -> q == val (Fin n c e) -> rounds_to p q (Fin n c e).
Proof.
  intros Hc Hq. exists n, c, e, e. split; [reflexivity|]. split; [exact Hc|]. split; [lia|].
  split; [left; exact Hq|].
  assert (Hz : 2 * Qabs (q - val (Fin n c e)) == 0).
  { rewrite Hq. setoid_replace (val (Fin n c e) - val (Fin n c e)) with 0 by ring. reflexivity. }
  rewrite Hz. split.
  - apply Qlt_le_weak, q10_pos.
  - intros H. exfalso. apply (q10_neq_0 e). symmetry. exact H.
Qed.

Lemma rounds_to_wd p q q' r : q == q' -> rounds_to p q r -> rounds_to p q' r.
Proof.
  intros Hq (n & c & e & u & Hr & Hc & Hu & Hm & He & Ht).
  exists n, c, e, u. rewrite <- Hq. auto 10.
Qed.

(* from the integer-level facts: q = +-(N/D) * 10^u with N/D in [10^(p-1), 10^p), and the result
   c * 10^e' read in units of 10^u is nearest to N/D, ties to even *)
Lemma rounds_to_intro p sg N D u c e' q :
  (0 < D)%Z -> (0 <= N)%Z -> (0 <= c < pow10 p)%Z -> (u <= e')%Z ->
  q == inject_Z (scoef sg N) * q10 u / inject_Z D ->
  (pow10 (p - 1) * D <= N < pow10 p * D)%Z ->
  (2 * Z.abs (N - c * pow10 (e' - u) * D) <= D)%Z ->
  ((2 * Z.abs (N - c * pow10 (e' - u) * D) = D)%Z -> Z.even (c * pow10 (e' - u)) = true) ->
  rounds_to p q (Fin sg c e').
Proof.
  intros HD HN Hc Hu Hq Hmag Hnear Htie.
  exists sg, c, e', u. split; [reflexivity|]. split; [exact Hc|]. split; [exact Hu|].
  assert (Habs : Qabs q == inject_Z N * q10 u / inject_Z D).
  { rewrite Hq, Qabs_scaled by exact HD. rewrite abs_scoef, Z.abs_eq by exact HN. reflexivity. }
  split.
  { right. rewrite Habs. split.
    - apply scaled_ge; [exact HD|]. apply Hmag.
    - apply scaled_lt; [exact HD|]. apply Hmag. }
  set (m := (c * pow10 (e' - u))%Z) in *.
  assert (Hdiff : q - val (Fin sg c e') == inject_Z (scoef sg (N - m * D)) * q10 u / inject_Z D).
  { rewrite Hq, (val_align sg c e' u Hu). fold m.
    replace (scoef sg (N - m * D)) with (scoef sg N - scoef sg m * D)%Z by (unfold scoef; destruct sg; lia).
    unfold Zminus. rewrite inject_Z_plus, inject_Z_opp, inject_Z_mult. field. apply inject_neq_0, HD. }
  assert (H2 : 2 * Qabs (q - val (Fin sg c e')) ==
               inject_Z (2 * Z.abs (N - m * D)) * q10 u / inject_Z D).
  { rewrite Hdiff, Qabs_scaled by exact HD. rewrite abs_scoef, inject_Z_mult.
    change (inject_Z 2) with 2. field. apply inject_neq_0, HD. }
  assert (H1 : q10 u == inject_Z 1 * q10 u) by (change (inject_Z 1) with 1; ring).
  rewrite H2. split.
  - rewrite H1 at 2. apply scaled_le; [exact HD|]. lia.
  - intros T. rewrite H1 in T at 2. apply scaled_eq in T; [|exact HD]. fold (pow10 (e' - u)). apply Htie. lia.
Qed.

(* fin_round of a positive coefficient rounds the value it is given *)
Lemma fin_round_rounds sg s e q : (0 < s)%Z -> q == inject_Z (scoef sg s) * q10 e ->
  rounds_to prec q (fin_round sg s e).
Proof.
  intros Hs Hq. unfold fin_round.
  destruct (round_he prec s e) as [c' e'] eqn:Hr.
  destruct (Z_le_gt_dec (ndigits s) prec) as [L|G].
  - rewrite round_he_exact in Hr by exact L. injection Hr as <- <-.
    apply rounds_to_exact; [|exact Hq].
    split; [lia|]. apply (ndigits_le_iff s prec); [lia|unfold prec; lia|exact L].
  - pose proof (round_he_unit prec s e c' e' ltac:(lia) ltac:(unfold prec; lia) ltac:(lia) Hr) as H.
    cbn zeta in H. set (d := (ndigits s - prec)%Z) in *.
    destruct H as (Hd & Hmag & He' & Hc' & Hnear & Htie).
    apply (rounds_to_intro prec sg s (pow10 d) (e + d) c' e' q); try assumption; try lia.
    + apply pow10_pos. lia.
    + rewrite Hq, q10_add, (q10_Z d) by lia. field. apply inject_neq_0, pow10_pos. lia.
Qed.

Lemma fin_round_zero sg e : fin_round sg 0 e = Fin sg 0 e.
Proof. reflexivity. Qed.

Lemma ten_pow_pos p : (0 <= p)%Z -> (0 < 10 ^ p)%Z.
Proof. intros H. apply Z.pow_pos_nonneg; lia. Qed.

(* ---------- + - * ---------- *)

Section AddMul.
Variables (n1 : bool) (c1 e1 : Z) (n2 : bool) (c2 e2 : Z).
Let e := Z.min e1 e2.
Let s := (scoef n1 (c1 * pow10 (e1 - e)) + scoef n2 (c2 * pow10 (e2 - e)))%Z.

Lemma val_sum : val (Fin n1 c1 e1) + val (Fin n2 c2 e2) == inject_Z s * q10 e.
Proof.
  rewrite (val_align n1 c1 e1 e), (val_align n2 c2 e2 e) by (unfold e; lia).
  unfold s. rewrite inject_Z_plus. ring.
Qed.

Lemma dec_add_fin :
  dec_add (Fin n1 c1 e1) (Fin n2 c2 e2) =
  if (s =? 0)%Z then Fin (n1 && n2) 0 e else fin_round (s <? 0)%Z (Z.abs s) e.
Proof. reflexivity. Qed.

Lemma add_rounds_fin : rounds_to prec (val (Fin n1 c1 e1) + val (Fin n2 c2 e2)) (dec_add (Fin n1 c1 e1) (Fin n2 c2 e2)).
Proof.
  rewrite dec_add_fin. destruct (s =? 0)%Z eqn:E; [apply Z.eqb_eq in E|apply Z.eqb_neq in E].
  - apply rounds_to_exact.
    + split; [lia|]. apply ten_pow_pos. unfold prec. lia.
    + rewrite val_sum, E, val_zero. ring.
  - apply fin_round_rounds; [lia|]. rewrite scoef_abs. apply val_sum.
Qed.

Lemma add_exact_fin : (ndigits (Z.abs s) <= prec)%Z ->
  val (dec_add (Fin n1 c1 e1) (Fin n2 c2 e2)) == val (Fin n1 c1 e1) + val (Fin n2 c2 e2).
Proof.
  intros H. rewrite dec_add_fin, val_sum.
  destruct (s =? 0)%Z eqn:E; [apply Z.eqb_eq in E|].
  - rewrite E, val_zero. ring.
  - unfold fin_round. rewrite round_he_exact by exact H. cbn [val]. rewrite scoef_abs. reflexivity.
Qed.

Lemma val_prod : val (Fin n1 c1 e1) * val (Fin n2 c2 e2) == inject_Z (scoef (xorb n1 n2) (c1 * c2)) * q10 (e1 + e2).
Proof.
  cbn [val]. rewrite q10_add.
  replace (scoef (xorb n1 n2) (c1 * c2)) with (scoef n1 c1 * scoef n2 c2)%Z
    by (unfold scoef; destruct n1, n2; cbn [xorb]; lia).
  rewrite inject_Z_mult. ring.
Qed.

Lemma mul_rounds_fin : (0 <= c1)%Z -> (0 <= c2)%Z ->
  rounds_to prec (val (Fin n1 c1 e1) * val (Fin n2 c2 e2)) (dec_mul (Fin n1 c1 e1) (Fin n2 c2 e2)).
Proof.
  intros H1 H2. cbn [dec_mul].
  destruct (Z.eq_dec (c1 * c2) 0) as [E|E].
  - rewrite E, fin_round_zero. apply rounds_to_exact.
    + split; [lia|]. apply ten_pow_pos. unfold prec. lia.
    + rewrite val_prod, E, val_zero, scoef_0. ring.
  - apply fin_round_rounds; [nia|]. apply val_prod.
Qed.

Lemma mul_exact_fin : (ndigits (c1 * c2) <= prec)%Z ->
  val (dec_mul (Fin n1 c1 e1) (Fin n2 c2 e2)) == val (Fin n1 c1 e1) * val (Fin n2 c2 e2).
Proof.
  intros H. cbn [dec_mul]. unfold fin_round. rewrite round_he_exact by exact H.
  rewrite val_prod. reflexivity.
Qed.

End AddMul.

(* ---------- / ---------- *)

Lemma numk_denk_Q n d k : (0 < d)%Z ->
  inject_Z (numk n k) / inject_Z (denk d k) == inject_Z n / inject_Z d * q10 k.
Proof.
  intros Hd. unfold numk, denk.
  destruct (0 <=? k)%Z eqn:E; [apply Z.leb_le in E|apply Z.leb_gt in E].
  - rewrite inject_Z_mult, q10_Z by exact E. field. apply inject_neq_0, Hd.
  - replace k with (- (- k))%Z at 2 by lia. rewrite q10_opp, q10_Z by lia. rewrite inject_Z_mult.
    field. split; apply inject_neq_0; [apply pow10_pos; lia|exact Hd].
Qed.

Lemma scoef_one sg z : scoef sg z = (scoef sg 1 * z)%Z.
Proof. unfold scoef. destruct sg; lia. Qed.

Section Quo.
Variables (n1 : bool) (c1 e1 : Z) (n2 : bool) (c2 e2 : Z).
Hypothesis H1 : (0 < c1)%Z.
Hypothesis H2 : (0 < c2)%Z.

Lemma val_quot :
  val (Fin n1 c1 e1) / val (Fin n2 c2 e2) ==
  inject_Z (scoef (xorb n1 n2) 1) * (inject_Z c1 / inject_Z c2) * q10 (e1 - e2).
Proof.
  cbn [val]. replace e1 with ((e1 - e2) + e2)%Z at 1 by lia. rewrite q10_add.
  pose proof (inject_neq_0 c2 H2) as N2. pose proof (q10_neq_0 e2) as N3.
  unfold scoef. destruct n1, n2; cbn [xorb]; rewrite ?inject_Z_opp; change (inject_Z 1) with 1; field; auto.
Qed.

Lemma quo_rounds_fin :
  rounds_to prec (val (Fin n1 c1 e1) / val (Fin n2 c2 e2)) (dec_quo (Fin n1 c1 e1) (Fin n2 c2 e2)).
Proof.
  cbn [dec_quo].
  destruct (c2 =? 0)%Z eqn:E2; [apply Z.eqb_eq in E2; lia|clear E2].
  destruct (c1 =? 0)%Z eqn:E1; [apply Z.eqb_eq in E1; lia|clear E1].
  destruct (round_div prec c1 c2 (e1 - e2)) as [c e'] eqn:Hr.
  destruct (round_div_spec prec c1 c2 (e1 - e2) c e' H1 H2 ltac:(unfold prec; lia) Hr)
    as (k & Hmag & He' & Hc & Hnear & Htie & _).
  pose proof (denk_pos c2 k H2) as HD. pose proof (numk_pos c1 k H1) as HN.
  apply (rounds_to_intro prec (xorb n1 n2) (numk c1 k) (denk c2 k) (e1 - e2 - k) c e'); try assumption; try lia.
  rewrite val_quot, (scoef_one _ (numk c1 k)), inject_Z_mult.
  transitivity (inject_Z (scoef (xorb n1 n2) 1) * (inject_Z (numk c1 k) / inject_Z (denk c2 k)) * q10 (e1 - e2 - k)).
  - rewrite numk_denk_Q by exact H2.
    replace (e1 - e2)%Z with (k + (e1 - e2 - k))%Z at 1 by lia. rewrite q10_add. ring.
  - field. apply inject_neq_0, HD.
Qed.

End Quo.

(* ---------- the rounding of a rational is unique ---------- *)

Lemma inject_Z_minus a b : inject_Z a - inject_Z b == inject_Z (a - b).
Proof. unfold Qminus, Z.sub. rewrite inject_Z_plus, inject_Z_opp. reflexivity. Qed.

Lemma near_int_unique t M1 M2 :
  2 * Qabs (t - inject_Z M1) <= 1 -> 2 * Qabs (t - inject_Z M2) <= 1 ->
  (2 * Qabs (t - inject_Z M1) == 1 -> Z.even M1 = true) ->
  (2 * Qabs (t - inject_Z M2) == 1 -> Z.even M2 = true) ->
  M1 = M2.
Proof.
  intros A1 A2 T1 T2.
  assert (Htri : Qabs (inject_Z M1 - inject_Z M2) <= Qabs (t - inject_Z M1) + Qabs (t - inject_Z M2)).
  { setoid_replace (inject_Z M1 - inject_Z M2) with ((t - inject_Z M2) + - (t - inject_Z M1)) by ring.
    eapply Qle_trans; [apply Qabs_triangle|]. rewrite Qabs_opp, Qplus_comm. apply Qle_refl. }
  rewrite inject_Z_minus, Qabs_inject in Htri.
  set (A := Qabs (t - inject_Z M1)) in *. set (B := Qabs (t - inject_Z M2)) in *.
  assert (Hle : inject_Z (Z.abs (M1 - M2)) <= inject_Z 1).
  { change (inject_Z 1) with 1. apply Qle_trans with (A + B); [exact Htri|].
    apply Qmult_le_l with (z := 2); [reflexivity|].
    setoid_replace (2 * (A + B)) with (2 * A + 2 * B) by ring.
    setoid_replace (2 * 1) with (1 + 1) by ring. apply Qplus_le_compat; assumption. }
  rewrite <- Zle_Qle in Hle.
  destruct (Z.eq_dec M1 M2) as [|Hne]; [assumption|exfalso].
  assert (Hone : (Z.abs (M1 - M2) = 1)%Z) by lia.
  rewrite Hone in Htri. change (inject_Z 1) with 1 in Htri.
  assert (EA : 2 * A == 1).
  { apply Qle_antisym; [exact A1|].
    apply Qplus_le_l with (z := 2 * B). apply Qle_trans with (1 + 1).
    - apply Qplus_le_compat; [apply Qle_refl|exact A2].
    - setoid_replace (1 + 1) with (2 * 1) by ring. setoid_replace (2 * A + 2 * B) with (2 * (A + B)) by ring.
      apply Qmult_le_l; [reflexivity|exact Htri]. }
  assert (EB : 2 * B == 1).
  { apply Qle_antisym; [exact A2|].
    apply Qplus_le_l with (z := 2 * A). apply Qle_trans with (1 + 1).
    - apply Qplus_le_compat; [apply Qle_refl|exact A1].
    - setoid_replace (1 + 1) with (2 * 1) by ring. setoid_replace (2 * B + 2 * A) with (2 * (A + B)) by ring.
      apply Qmult_le_l; [reflexivity|exact Htri]. }
  specialize (T1 EA). specialize (T2 EB).
  assert (M1 = M2 + 1 \/ M2 = M1 + 1)%Z as [Hc|Hc] by lia.
  - subst M1. rewrite Z.even_add, T2 in T1. discriminate T1.
  - subst M2. rewrite Z.even_add, T1 in T2. discriminate T2.
Qed.

(* errors measured in units of 10^u *)
Lemma unit_diff q M u : q - inject_Z M * q10 u == (q / q10 u - inject_Z M) * q10 u.
Proof. field. apply q10_neq_0. Qed.

Lemma unit_abs q M u : 2 * Qabs (q - inject_Z M * q10 u) == (2 * Qabs (q / q10 u - inject_Z M)) * q10 u.
Proof.
  rewrite unit_diff, Qabs_Qmult, (Qabs_pos (q10 u)) by (apply Qlt_le_weak, q10_pos). ring.
Qed.

Lemma unit_le q M u : 2 * Qabs (q - inject_Z M * q10 u) <= q10 u <-> 2 * Qabs (q / q10 u - inject_Z M) <= 1.
Proof.
  rewrite unit_abs. rewrite <- (Qmult_le_r _ 1 (q10 u)) by apply q10_pos.
  rewrite Qmult_1_l. reflexivity.
Qed.

Lemma unit_eq q M u : 2 * Qabs (q - inject_Z M * q10 u) == q10 u <-> 2 * Qabs (q / q10 u - inject_Z M) == 1.
Proof.
  rewrite unit_abs. split.
  - intros H. apply (Qmult_inj_r _ _ (q10 u)); [apply q10_neq_0|]. rewrite H. ring.
  - intros H. rewrite H. ring.
Qed.

Lemma even_scoef sg z : Z.even (scoef sg z) = Z.even z.
Proof. unfold scoef. destruct sg; [apply Z.even_opp|reflexivity]. Qed.

(* two roundings of q in the same unit have the same value *)
Lemma same_unit_unique q u n1 c1 e1 n2 c2 e2 :
  (u <= e1)%Z -> (u <= e2)%Z ->
  2 * Qabs (q - val (Fin n1 c1 e1)) <= q10 u ->
  (2 * Qabs (q - val (Fin n1 c1 e1)) == q10 u -> Z.even (c1 * 10 ^ (e1 - u)) = true) ->
  2 * Qabs (q - val (Fin n2 c2 e2)) <= q10 u ->
  (2 * Qabs (q - val (Fin n2 c2 e2)) == q10 u -> Z.even (c2 * 10 ^ (e2 - u)) = true) ->
  val (Fin n1 c1 e1) == val (Fin n2 c2 e2).
Proof.
  intros U1 U2 A1 T1 A2 T2.
  rewrite (val_align n1 c1 e1 u U1) in *. rewrite (val_align n2 c2 e2 u U2) in *.
  fold (pow10 (e1 - u)) in T1. fold (pow10 (e2 - u)) in T2.
  rewrite unit_le in A1, A2. rewrite unit_eq in T1, T2.
  rewrite <- (even_scoef n1) in T1. rewrite <- (even_scoef n2) in T2.
  rewrite (near_int_unique _ _ _ A1 A2 T1 T2). reflexivity.
Qed.

Lemma q10_step a b : (b < a)%Z -> 10 * q10 b <= q10 a.
Proof.
  intros H. rewrite (q10_split a b) by lia.
  apply Qmult_le_compat_r; [|apply Qlt_le_weak, q10_pos].
  change 10 with (inject_Z 10). rewrite <- Zle_Qle.
  pose proof (pow10_le 1 (a - b) ltac:(lia)) as P. change (pow10 1) with 10%Z in P. exact P.
Qed.

Lemma pow_p_split p : (0 < p)%Z -> inject_Z (10 ^ p) == inject_Z (10 ^ (p - 1)) * 10.
Proof.
  intros Hp. replace p with ((p - 1) + 1)%Z at 1 by lia. rewrite Z.pow_add_r by lia.
  rewrite inject_Z_mult. reflexivity.
Qed.

(* the unit of the p-th significant digit is determined by the magnitude *)
Lemma mag_unit_le p q a b : (0 < p)%Z ->
  inject_Z (10 ^ (p - 1)) * q10 a <= q -> q < inject_Z (10 ^ p) * q10 b -> (a <= b)%Z.
Proof.
  intros Hp L U. destruct (Z_le_gt_dec a b) as [|G]; [assumption|exfalso].
  pose proof (q10_step a b ltac:(lia)) as S.
  assert (P : 0 < inject_Z (10 ^ (p - 1))) by (apply inject_pos, ten_pow_pos; lia).
  assert (C : inject_Z (10 ^ p) * q10 b <= inject_Z (10 ^ (p - 1)) * q10 a).
  { rewrite (pow_p_split p Hp), <- Qmult_assoc. apply Qmult_le_l; assumption. }
  apply (Qlt_irrefl q). eapply Qlt_le_trans; [exact U|]. eapply Qle_trans; [exact C|exact L].
Qed.

(* a p-digit decimal whose magnitude reaches 10^(p-1) units of 10^u is a multiple of 10^u *)
Lemma exact_unit_le p q n c e u : (0 < p)%Z -> (0 <= c < 10 ^ p)%Z ->
  q == val (Fin n c e) -> inject_Z (10 ^ (p - 1)) * q10 u <= Qabs q -> (u <= e)%Z.
Proof.
  intros Hp Hc Hq L.
  apply (mag_unit_le p (Qabs q) u e Hp L).
  rewrite Hq. cbn [val]. rewrite Qabs_Qmult, Qabs_inject, abs_scoef, Z.abs_eq by lia.
  rewrite (Qabs_pos (q10 e)) by (apply Qlt_le_weak, q10_pos).
  apply Qmult_lt_compat_r; [apply q10_pos|]. rewrite <- Zlt_Qlt. lia.
Qed.

Lemma exact_vs_rounded p q n1 c1 e1 n2 c2 e2 u2 : (0 < p)%Z ->
  (0 <= c1 < 10 ^ p)%Z -> q == val (Fin n1 c1 e1) ->
  (u2 <= e2)%Z ->
  inject_Z (10 ^ (p - 1)) * q10 u2 <= Qabs q ->
  2 * Qabs (q - val (Fin n2 c2 e2)) <= q10 u2 ->
  (2 * Qabs (q - val (Fin n2 c2 e2)) == q10 u2 -> Z.even (c2 * 10 ^ (e2 - u2)) = true) ->
  val (Fin n1 c1 e1) == val (Fin n2 c2 e2).
Proof.
  intros Hp Hc Hq U2 L A2 T2.
  pose proof (exact_unit_le p q n1 c1 e1 u2 Hp Hc Hq L) as U1.
  apply (same_unit_unique q u2); try assumption.
  - rewrite Hq. setoid_replace (val (Fin n1 c1 e1) - val (Fin n1 c1 e1)) with 0 by ring.
    apply Qlt_le_weak. apply q10_pos.
  - rewrite Hq. setoid_replace (val (Fin n1 c1 e1) - val (Fin n1 c1 e1)) with 0 by ring.
    intros H. exfalso. apply (q10_neq_0 u2). symmetry. exact H.
Qed.

Theorem rounds_to_unique p q r1 r2 : (0 < p)%Z ->
  rounds_to p q r1 -> rounds_to p q r2 -> val r1 == val r2.
Proof.
  intros Hp (n1 & c1 & e1 & u1 & -> & Hc1 & U1 & D1 & A1 & T1) (n2 & c2 & e2 & u2 & -> & Hc2 & U2 & D2 & A2 & T2).
  destruct D1 as [X1|[L1 R1]]; destruct D2 as [X2|[L2 R2]].
  - rewrite <- X1, <- X2. reflexivity.
  - apply (exact_vs_rounded p q n1 c1 e1 n2 c2 e2 u2); assumption.
  - symmetry. apply (exact_vs_rounded p q n2 c2 e2 n1 c1 e1 u1); assumption.
  - assert (u1 = u2).
    { pose proof (mag_unit_le p (Qabs q) u1 u2 Hp L1 R2). pose proof (mag_unit_le p (Qabs q) u2 u1 Hp L2 R1). lia. }
    subst u2. apply (same_unit_unique q u1); assumption.
Qed.

(* hence: whenever the exact result is representable with p digits, it is returned *)
Corollary rounds_to_representable p q r n c e : (0 < p)%Z -> rounds_to p q r ->
  (0 <= c < 10 ^ p)%Z -> q == val (Fin n c e) -> val r == q.
Proof.
  intros Hp Hr Hc Hq. rewrite Hq. apply (rounds_to_unique p q); [exact Hp|exact Hr|].
  apply rounds_to_exact; assumption.
Qed.
