(* Operators obey longest match (theorem 7 of the scanner facts).
   Route: the operator branch of scan_one and longest_match both depend only on the first three
   runes, and only on which punctuation character (or digit) each of them is.  Both are shown
   invariant under normalising every other rune to 0; the remaining finite question
   (34 symbols, words of length <= 3) is settled by vm_compute. *)
From Formula Require Import Base.Utf8 Lex.Chars Lex.Scanner Lex.ScanSpec Proofs.Utf8Facts
  Proofs.ScannerFacts.

(* ---------- the alphabet and the normalisation ---------- *)

Definition alpha : list Z :=
  [33; 34; 39; 38; 40; 41; 37; 42; 43; 44; 45; 46; 47; 58; 60; 61; 62; 63; 91; 93; 94; 124; 126;
   48; 49; 50; 51; 52; 53; 54; 55; 56; 57].

Definition mem (r : Z) (l : list Z) : bool := existsb (Z.eqb r) l.

Definition norm (r : Z) : Z := if mem r alpha then r else 0.

Lemma mem_In : forall r l, mem r l = true -> In r l.
Proof.
  intros r l H. unfold mem in H. apply existsb_exists in H. destruct H as (x & Hin & Heq).
  apply Z.eqb_eq in Heq. subst x. exact Hin.
Qed.

Lemma mem_eqb_false : forall r c l, mem r l = false -> mem c l = true -> (r =? c) = false.
Proof.
  intros r c l Hr Hc. destruct (r =? c) eqn:E; [|reflexivity].
  apply Z.eqb_eq in E. subst c. congruence.
Qed.

Lemma norm_eqb : forall r c, mem c alpha = true -> (norm r =? c) = (r =? c).
Proof.
  intros r c Hc. unfold norm. destruct (mem r alpha) eqn:Hr; [reflexivity|].
  rewrite (mem_eqb_false r c alpha Hr Hc).
  apply (mem_eqb_false 0 c alpha); [reflexivity|exact Hc].
Qed.

Lemma digit_mem : forall r, is_digit r = true -> mem r alpha = true.
Proof.
  intros r H. unfold is_digit in H. apply andb_true_iff in H. destruct H as [H1 H2].
  apply Z.leb_le in H1. apply Z.leb_le in H2.
  assert (Hr : r = 48 \/ r = 49 \/ r = 50 \/ r = 51 \/ r = 52 \/ r = 53 \/ r = 54 \/ r = 55 \/
               r = 56 \/ r = 57) by lia.
  destruct Hr as [Hr|[Hr|[Hr|[Hr|[Hr|[Hr|[Hr|[Hr|[Hr|Hr]]]]]]]]]; subst r; reflexivity.
Qed.

Lemma norm_digit : forall r, is_digit (norm r) = is_digit r.
Proof.
  intros r. unfold norm. destruct (mem r alpha) eqn:Hr; [reflexivity|].
  destruct (is_digit r) eqn:Hd; [|reflexivity].
  apply digit_mem in Hd. congruence.
Qed.

Lemma norm_in : forall r, In (norm r) (0 :: alpha).
Proof.
  intros r. unfold norm. destruct (mem r alpha) eqn:Hr; [right; apply mem_In; exact Hr|left; reflexivity].
Qed.

(* the abstraction of an input: the first three steps, runes normalised, bytes dropped *)
Definition abs_step (s : step) : step := (norm (fst s), []).
Definition abs (ss : list step) : list step := map abs_step (firstn 3 ss).

Lemma rune_is_abs : forall n c ss, (n < 3)%nat -> mem c alpha = true ->
  rune_is n c (abs ss) = rune_is n c ss.
Proof.
  intros n c ss Hn Hc.
  destruct n as [|[|[|n]]]; [| | |lia];
    destruct ss as [|[r0 b0] [|[r1 b1] [|[r2 b2] t]]];
    cbn [abs firstn map abs_step fst rune_is nth_error];
    first [reflexivity | apply norm_eqb; exact Hc].
Qed.

Lemma rune_sat_abs : forall n ss, (n < 3)%nat ->
  rune_sat n is_digit (abs ss) = rune_sat n is_digit ss.
Proof.
  intros n ss Hn.
  destruct n as [|[|[|n]]]; [| | |lia];
    destruct ss as [|[r0 b0] [|[r1 b1] [|[r2 b2] t]]];
    cbn [abs firstn map abs_step fst rune_sat nth_error];
    first [reflexivity | apply norm_digit].
Qed.

Lemma runes_prefix_abs : forall lex ss, (length lex <= 3)%nat ->
  forallb (fun c => mem c alpha) lex = true ->
  runes_prefix lex (abs ss) = runes_prefix lex ss.
Proof.
  intros lex ss Hlen Hmem.
  destruct lex as [|c0 [|c1 [|c2 [|c3 lex]]]]; [| | | |cbn [length] in Hlen; lia];
    cbn [forallb] in Hmem; rewrite ?andb_true_iff in Hmem;
    destruct ss as [|[r0 b0] [|[r1 b1] [|[r2 b2] t]]];
    cbn [abs firstn map abs_step fst runes_prefix];
    rewrite ?norm_eqb by tauto; reflexivity.
Qed.

(* ---------- longest_match and starts_operator are invariant ---------- *)

Lemma longest_match_unfold : forall ss,
  longest_match ss = longest (filter (fun lk => runes_prefix (fst lk) ss) op_lexemes) None.
Proof. intros ss. reflexivity. Qed.

Lemma op_lexemes_small :
  forallb (fun lk : list Z * kind =>
             (length (fst lk) <=? 3)%nat && forallb (fun c => mem c alpha) (fst lk)) op_lexemes = true.
Proof. vm_compute. reflexivity. Qed.

Lemma longest_match_abs : forall ss, longest_match (abs ss) = longest_match ss.
Proof.
  intros ss. rewrite !longest_match_unfold. f_equal.
  apply filter_ext_in. intros lk Hin.
  pose proof op_lexemes_small as Hs. rewrite forallb_forall in Hs.
  specialize (Hs lk Hin). apply andb_true_iff in Hs. destruct Hs as [Hlen Hmem].
  apply Nat.leb_le in Hlen. apply runes_prefix_abs; assumption.
Qed.

Lemma starts_operator_unfold : forall ss,
  starts_operator ss =
  match longest_match ss with
  | Some _ => negb (rune_is 0 46 ss && rune_sat 1 is_digit ss)
  | None => false
  end.
Proof. intros ss. destruct ss as [|[r bs] t]; reflexivity. Qed.

Lemma starts_operator_abs : forall ss, starts_operator (abs ss) = starts_operator ss.
Proof.
  intros ss. rewrite !starts_operator_unfold.
  rewrite longest_match_abs, rune_is_abs, rune_sat_abs by (first [lia|reflexivity]).
  reflexivity.
Qed.

(* ---------- the operator branch of scan_one, as a function of the runes alone ---------- *)

Definition scan_op (a : list step) : option (kind * nat) :=
  if rune_is 0 33 a then
    (if rune_is 1 61 a then (if rune_is 2 61 a then Some (KNeEq, 3%nat) else Some (KNe, 2%nat))
     else if rune_is 1 33 a then Some (KBangBang, 2%nat)
     else if rune_is 1 46 a then Some (KBangDot, 2%nat)
     else Some (KBang, 1%nat))
  else if rune_is 0 34 a || rune_is 0 39 a then None
  else if rune_is 0 38 a then (if rune_is 1 38 a then Some (KAmpAmp, 2%nat) else Some (KAmp, 1%nat))
  else if rune_is 0 40 a then Some (KOpenParen, 1%nat)
  else if rune_is 0 41 a then Some (KCloseParen, 1%nat)
  else if rune_is 0 37 a then Some (KPercent, 1%nat)
  else if rune_is 0 42 a then Some (KAsterisk, 1%nat)
  else if rune_is 0 43 a then Some (KPlus, 1%nat)
  else if rune_is 0 44 a then Some (KComma, 1%nat)
  else if rune_is 0 45 a then Some (KMinus, 1%nat)
  else if rune_is 0 46 a then
    (if rune_sat 1 is_digit a then None
     else if rune_is 1 46 a && rune_is 2 46 a then Some (KDotDotDot, 3%nat)
     else Some (KDot, 1%nat))
  else if rune_is 0 47 a then Some (KSlash, 1%nat)
  else if rune_is 0 48 a then None
  else if rune_sat 0 is_digit a then None
  else if rune_is 0 58 a then Some (KColon, 1%nat)
  else if rune_is 0 60 a then (if rune_is 1 61 a then Some (KLe, 2%nat) else Some (KLt, 1%nat))
  else if rune_is 0 61 a then
    (if rune_is 1 61 a then (if rune_is 2 61 a then Some (KEqEqEq, 3%nat) else Some (KEqEq, 2%nat))
     else Some (KEquals, 1%nat))
  else if rune_is 0 62 a then (if rune_is 1 61 a then Some (KGe, 2%nat) else Some (KGt, 1%nat))
  else if rune_is 0 63 a then (if rune_is 1 63 a then Some (KQQ, 2%nat) else Some (KQuestion, 1%nat))
  else if rune_is 0 91 a then Some (KOpenBracket, 1%nat)
  else if rune_is 0 93 a then Some (KCloseBracket, 1%nat)
  else if rune_is 0 94 a then Some (KCaret, 1%nat)
  else if rune_is 0 124 a then (if rune_is 1 124 a then Some (KBarBar, 2%nat) else Some (KBar, 1%nat))
  else if rune_is 0 126 a then Some (KTilde, 1%nat)
  else None.

Lemma scan_op_abs : forall ss, scan_op (abs ss) = scan_op ss.
Proof.
  intros ss. unfold scan_op.
  rewrite !rune_is_abs by (first [lia|reflexivity]).
  rewrite !rune_sat_abs by lia.
  reflexivity.
Qed.

Lemma rune_is_0 : forall c r bs t, rune_is 0 c ((r, bs) :: t) = (r =? c).
Proof. reflexivity. Qed.

Lemma rune_sat_0 : forall f r bs t, rune_sat 0 f ((r, bs) :: t) = f r.
Proof. reflexivity. Qed.

Ltac head_if H :=
  lazymatch type of H with (if ?c then _ else _) = _ => destruct c eqn:? end.

Ltac op_leaf Hscan Hop :=
  first [ discriminate Hop
        | injection Hop as <- <-; injection Hscan as <- <-; repeat split; reflexivity ].

(* scan_one takes exactly the branch scan_op describes *)
Lemma scan_one_op : forall ss pos tok rest k n,
  skip_trivia ss pos false = (ss, pos, false) -> scan_one ss pos = (tok, rest) ->
  scan_op ss = Some (k, n) ->
  tk tok = k /\ rest = skipn n ss /\ tval tok = [] /\ tdiags tok = [].
Proof.
  intros ss pos tok rest k n Hskip Hscan Hop.
  unfold scan_one in Hscan. rewrite Hskip in Hscan. clear Hskip.
  destruct ss as [|[r bs] t]; [discriminate Hop|].
  cbv beta zeta in Hscan. unfold scan_op in Hop.
  rewrite !rune_is_0, !rune_sat_0 in Hop.
  do 24 (head_if Hscan; [repeat head_if Hscan; op_leaf Hscan Hop|]).
  discriminate Hop.
Qed.

(* ---------- the finite question ---------- *)

Lemma kind_eqb_eq : forall a b, kind_eqb a b = true -> a = b.
Proof.
  intros a b H. unfold kind_eqb in H. apply Z.eqb_eq in H.
  assert (Hinv : forall k, find (fun k' => kind_code k' =? kind_code k) all_kinds = Some k).
  { intros k. destruct k; reflexivity. }
  pose proof (Hinv a) as Ha. rewrite H, Hinv in Ha. injection Ha as Ha. symmetry. exact Ha.
Qed.

(* for an input that starts an operator: scan_op and longest_match agree on kind and length *)
Definition check (a : list step) : bool :=
  if starts_operator a then
    match scan_op a, longest_match a with
    | Some (k, n), Some (lex, k') => kind_eqb k k' && (length lex =? n)%nat
    | _, _ => false
    end
  else true.

Definition sym : list step := map (fun r => (r, [])) (0 :: alpha).

Lemma check_0 : check [] = true.
Proof. vm_compute. reflexivity. Qed.

Lemma check_1 : forallb (fun x => check [x]) sym = true.
Proof. vm_compute. reflexivity. Qed.

Lemma check_2 : forallb (fun x => forallb (fun y => check [x; y]) sym) sym = true.
Proof. vm_compute. reflexivity. Qed.

Lemma check_3 :
  forallb (fun x => forallb (fun y => forallb (fun z => check [x; y; z]) sym) sym) sym = true.
Proof. vm_compute. reflexivity. Qed.

Lemma abs_step_in : forall s, In (abs_step s) sym.
Proof.
  intros s. unfold abs_step, sym.
  apply (in_map (fun r : Z => (r, @nil Z))). apply norm_in.
Qed.

Lemma check_abs : forall ss, check (abs ss) = true.
Proof.
  intros ss. pose proof check_0 as H0. pose proof check_1 as H1.
  pose proof check_2 as H2. pose proof check_3 as H3.
  destruct ss as [|s0 [|s1 [|s2 t]]]; cbn [abs firstn map].
  - exact H0.
  - rewrite forallb_forall in H1. apply H1. apply abs_step_in.
  - rewrite forallb_forall in H2. specialize (H2 (abs_step s0) (abs_step_in s0)).
    rewrite forallb_forall in H2. apply H2. apply abs_step_in.
  - rewrite forallb_forall in H3. specialize (H3 (abs_step s0) (abs_step_in s0)).
    rewrite forallb_forall in H3. specialize (H3 (abs_step s1) (abs_step_in s1)).
    rewrite forallb_forall in H3. apply H3. apply abs_step_in.
Qed.

Lemma check_true : forall ss, check ss = true.
Proof.
  intros ss. pose proof (check_abs ss) as H. unfold check in *.
  rewrite starts_operator_abs, scan_op_abs, longest_match_abs in H. exact H.
Qed.

(* ---------- 7. operators: longest match ---------- *)

Theorem operators_longest_match : forall ss pos tok rest,
  (forall s, In s ss -> True) -> skip_trivia ss pos false = (ss, pos, false) ->
  starts_operator ss = true -> scan_one ss pos = (tok, rest) ->
  exists lex, longest_match ss = Some (lex, tk tok) /\ rest = skipn (length lex) ss /\
    tval tok = [] /\ tdiags tok = [].
Proof.
  intros ss pos tok rest _ Hskip Hstart Hscan.
  pose proof (check_true ss) as Hc. unfold check in Hc. rewrite Hstart in Hc.
  destruct (scan_op ss) as [[k n]|] eqn:Hop; [|discriminate Hc].
  destruct (longest_match ss) as [[lex k']|] eqn:HL; [|discriminate Hc].
  apply andb_true_iff in Hc. destruct Hc as [Hk Hn].
  apply kind_eqb_eq in Hk. apply Nat.eqb_eq in Hn. subst k' n.
  destruct (scan_one_op ss pos tok rest k (length lex) Hskip Hscan Hop) as (Htk & Hrest & Hval & Hds).
  exists lex. rewrite Htk. split; [reflexivity|]. split; [exact Hrest|]. split; [exact Hval|exact Hds].
Qed.

Print Assumptions operators_longest_match.
