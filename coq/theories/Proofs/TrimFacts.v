(* Facts about trim beyond ASCII (Lex/CaseMap.v: trim_utf8): what is removed is white space, it is removed at both
   ends only, and what remains neither starts nor ends with white space. *)
From Coq Require Import ZArith List Bool Lia.
From Formula Require Import Base.Utf8 Lex.CaseMap Proofs.Utf8Facts.
Import ListNotations.
Open Scope Z_scope.

Definition space_step (p : step) : Prop := is_unicode_space (fst p) = true.

Lemma drop_space_split l : exists a, l = a ++ drop_space_steps l /\ Forall space_step a.
Proof.
  induction l as [|[r bs] t IH]; cbn [drop_space_steps].
  - exists []. split; [reflexivity|constructor].
  - destruct (is_unicode_space r) eqn:E.
    + destruct IH as (a & Ha & Fa). exists ((r, bs) :: a). split.
      * cbn [app]. f_equal. exact Ha.
      * constructor; [exact E|exact Fa].
    + exists []. split; [reflexivity|constructor].
Qed.

Lemma drop_space_head l : match drop_space_steps l with p :: _ => is_unicode_space (fst p) = false | [] => True end.
Proof.
  induction l as [|[r bs] t IH]; cbn [drop_space_steps]; [exact I|].
  destruct (is_unicode_space r) eqn:E; [exact IH|cbn [fst]; exact E].
Qed.

Lemma drop_space_fixed l : match l with p :: _ => is_unicode_space (fst p) = false | [] => True end ->
  drop_space_steps l = l.
Proof. destruct l as [|[r bs] t]; cbn [drop_space_steps fst]; intros H; [reflexivity|rewrite H; reflexivity]. Qed.

(* the steps that remain *)
Definition trimmed_steps (s : list Z) : list step :=
  rev (drop_space_steps (rev (drop_space_steps (decode_all s)))).

Lemma trim_utf8_steps s : trim_utf8 s = steps_bytes (trimmed_steps s).
Proof. reflexivity. Qed.

(* the text is: white space, the trimmed text, white space *)
Theorem trim_utf8_middle s : exists a b,
  decode_all s = a ++ trimmed_steps s ++ b /\ Forall space_step a /\ Forall space_step b /\
  s = steps_bytes a ++ trim_utf8 s ++ steps_bytes b.
Proof.
  destruct (drop_space_split (decode_all s)) as (a & Ha & Fa).
  set (m := drop_space_steps (decode_all s)) in *.
  destruct (drop_space_split (rev m)) as (b' & Hb & Fb).
  exists a, (rev b'). unfold trimmed_steps. fold m.
  assert (Hm : m = rev (drop_space_steps (rev m)) ++ rev b').
  { rewrite <- rev_app_distr, <- Hb, rev_involutive. reflexivity. }
  assert (Hd : decode_all s = a ++ rev (drop_space_steps (rev m)) ++ rev b') by (rewrite <- Hm; exact Ha).
  split; [exact Hd|]. split; [exact Fa|]. split.
  - apply Forall_rev. exact Fb.
  - rewrite trim_utf8_steps. unfold trimmed_steps. fold m.
    rewrite <- (decode_all_bytes s) at 1. rewrite Hd. unfold steps_bytes.
    rewrite !map_app, !concat_app. reflexivity.
Qed.

(* what remains neither starts nor ends with white space *)
Theorem trim_utf8_edges s :
  match trimmed_steps s with p :: _ => is_unicode_space (fst p) = false | [] => True end /\
  match rev (trimmed_steps s) with p :: _ => is_unicode_space (fst p) = false | [] => True end.
Proof.
  unfold trimmed_steps. set (m := drop_space_steps (decode_all s)).
  split.
  - (* the head of m is not a space (or m is empty); dropping at the other end keeps the head unless all goes *)
    pose proof (drop_space_head (decode_all s)) as Hh. fold m in Hh.
    destruct (drop_space_split (rev m)) as (b' & Hb & Fb).
    set (k := drop_space_steps (rev m)) in *.
    assert (Hm : m = rev k ++ rev b') by (rewrite <- rev_app_distr, <- Hb, rev_involutive; reflexivity).
    destruct (rev k) as [|p t] eqn:Ek; [exact I|].
    rewrite Hm in Hh. cbn [app] in Hh. exact Hh.
  - rewrite rev_involutive. apply drop_space_head.
Qed.

(* text without white space at either end is left alone (as steps) *)
Theorem trim_utf8_nothing_to_do s :
  match decode_all s with p :: _ => is_unicode_space (fst p) = false | [] => True end ->
  match rev (decode_all s) with p :: _ => is_unicode_space (fst p) = false | [] => True end ->
  trim_utf8 s = s.
Proof.
  intros H1 H2. unfold trim_utf8. rewrite (drop_space_fixed _ H1), (drop_space_fixed _ H2), rev_involutive.
  apply decode_all_bytes.
Qed.

Example trim_examples :
  trim_utf8 [194; 160; 226; 128; 168; 195; 169; 32; 120; 227; 128; 128; 9] = [195; 169; 32; 120] /\
  trim_utf8 [226; 128; 139; 97; 32] = [226; 128; 139; 97] /\       (* U+200B is not white space *)
  trim_utf8 [32; 255; 32] = [255] /\                                 (* an invalid byte is kept *)
  trim_utf8 [194; 133; 225; 154; 128] = [].                          (* U+0085 U+1680: all white space *)
Proof. vm_compute. repeat split. Qed.
