(* One-step unfolding equations of the parser's fuel functions and fuel monotonicity:
   a run that succeeds keeps its result with any larger fuel. *)
From Coq Require Import List ZArith Lia Bool Arith.
From Formula Require Import Syn.Parser.
Import ListNotations.
Open Scope Z_scope.

(* ---------- one-step unfolding equations ---------- *)

Lemma member_rest_S f e s :
  member_rest (S f) e s =
    if tnl (cur s) then Some (e, s)
    else if at_kind s KDot || at_kind s KBangDot then
      let asrt := at_kind s KBangDot in
      let s1 := advance s in
      let '(nm, s2) := parse_right_side_of_dot s1 in
      member_rest f (ESel e nm asrt (epos e) (node_pos s2)) s2
    else Some (e, s).
Proof. reflexivity. Qed.

Lemma parse_expression_S f s :
  parse_expression (S f) s =
    do (e, s1) <- parse_assign f s; comma_loop f e s1.
Proof. reflexivity. Qed.

Lemma comma_loop_S f l s :
  comma_loop (S f) l s =
    if at_kind s KComma then
      let t := cur s in
      let s1 := advance s in
      do (r, s2) <- parse_assign f s1;
      comma_loop f (EBin l KComma (tstart t) (node_pos s1) r (epos l) (node_pos s2)) s2
    else Some (l, s).
Proof. reflexivity. Qed.

Lemma parse_assign_S f s :
  parse_assign (S f) s =
    do (e, s1) <- parse_binary f 0 s;
    if is_assignment_op (tk (cur s1)) then
      let t := cur s1 in
      let s2 := advance s1 in
      do (r, s3) <- parse_assign f s2;
      Some (EBin e (tk t) (tstart t) (node_pos s2) r (epos e) (node_pos s3), s3)
    else if at_kind s1 KQuestion then
      let q := cur s1 in
      let s2 := advance s1 in
      do (wt, s3) <- parse_assign f s2;
      let '(colon, cp, ce, s4) :=
        if at_kind s3 KColon then
          let s4 := advance s3 in (true, tstart (cur s3), node_pos s4, s4)
        else (false, node_pos s3, node_pos s3, error_at_current s3 C_0_expected) in
      do (wf, s5) <- parse_assign f s4;
      Some (ECond e (tstart q) (node_pos s2) wt colon cp ce wf (epos e) (node_pos s5), s5)
    else Some (e, s1).
Proof. reflexivity. Qed.

Lemma parse_binary_S f p s :
  parse_binary (S f) p s =
    do (l, s1) <- parse_unary f s; parse_binary_rest f p l s1.
Proof. reflexivity. Qed.

Lemma parse_binary_rest_S f p l s :
  parse_binary_rest (S f) p l s =
    let np := prec_of (tk (cur s)) in
    if p <? np then
      let t := cur s in
      let s1 := advance s in
      do (r, s2) <- parse_binary f np s1;
      parse_binary_rest f p (EBin l (tk t) (tstart t) (node_pos s1) r (epos l) (node_pos s2)) s2
    else Some (l, s).
Proof. reflexivity. Qed.

Lemma parse_unary_S f s :
  parse_unary (S f) s =
    let t := cur s in
    if is_prefix_op (tk t) then
      let s1 := advance s in
      do (x, s2) <- parse_unary f s1;
      Some (EPrefix (tk t) (tstart t) (node_pos s1) x (tstart t) (node_pos s2), s2)
    else if kind_eqb (tk t) KTypeof then
      let s1 := advance s in
      do (x, s2) <- parse_unary f s1;
      Some (ETypeof x (tstart t) (node_pos s2), s2)
    else
      do (e, s1) <- parse_primary f s;
      do (e2, s2) <- member_rest f e s1;
      call_rest f e2 s2.
Proof. reflexivity. Qed.

Lemma call_rest_S f e s :
  call_rest (S f) e s =
    if tnl (cur s) then Some (e, s)
    else
      do (e1, s1) <- member_rest f e s;
      if at_kind s1 KOpenParen && negb (tnl (cur s1)) then
        let s2 := advance s1 in
        let lp := node_pos s2 in
        do (args, s3) <- delimited_list f PArgs false s2;
        let le := node_pos s3 in
        let '(sp, s4) :=
          if at_kind s3 KDotDotDot then
            let s4 := advance s3 in (Some (tstart (cur s3), node_pos s4), s4)
          else (None, s3) in
        let s5 := want s4 KCloseParen in
        call_rest f (ECall e1 args lp le sp (epos e1) (node_pos s5)) s5
      else Some (e1, s1).
Proof. reflexivity. Qed.

Lemma parse_primary_S f s :
  parse_primary (S f) s =
    let t := cur s in
    if is_literal_start (tk t) then
      let s1 := advance s in Some (ELit (tk t) (tval t) (tstart t) (node_pos s1), s1)
    else if kind_eqb (tk t) KOpenParen then
      let s1 := advance s in
      do (x, s2) <- parse_expression f s1;
      let s3 := want s2 KCloseParen in
      Some (EParen x (tstart t) (node_pos s3), s3)
    else if kind_eqb (tk t) KOpenBracket then
      let s1 := advance s in
      let lp := node_pos s1 in
      do (es, s2) <- delimited_list f PArray false s1;
      let le := node_pos s2 in
      let s3 := want s2 KCloseBracket in
      Some (EArr es lp le (tstart t) (node_pos s3), s3)
    else Some (parse_identifier s C_Expression_expected).
Proof. reflexivity. Qed.

Lemma delimited_list_S f c trailing s :
  delimited_list (S f) c trailing s =
    if is_list_element c (tk (cur s)) then
      do (e, s1) <- parse_assign f s;
      if at_kind s1 KComma then
        match delimited_list f c true (advance s1) with
        | Some (es, s2) => Some (e :: es, s2)
        | None => None
        end
      else if is_list_terminator c (tk (cur s1)) then Some ([e], s1)
      else
        match delimited_list f c false (error_at_current s1 C_0_expected) with
        | Some (es, s2) => Some (e :: es, s2)
        | None => None
        end
    else if is_list_terminator c (tk (cur s)) then
      Some ([], if trailing then error_at_current s C_Trailing_comma else s)
    else delimited_list f c trailing (advance (error_at_current s (ctx_error c))).
Proof. reflexivity. Qed.

Local Opaque member_rest parse_expression comma_loop parse_assign parse_binary parse_binary_rest
  parse_unary call_rest parse_primary delimited_list.

(* ---------- monotonicity ---------- *)

Lemma member_rest_mono_S f : forall e s r,
  member_rest f e s = Some r -> member_rest (S f) e s = Some r.
Proof.
  induction f as [|f IH]; intros e s r H.
  { discriminate H. }
  rewrite member_rest_S in H. rewrite member_rest_S.
  destruct (tnl (cur s)); [exact H|].
  destruct (at_kind s KDot || at_kind s KBangDot); [|exact H].
  cbv zeta in H |- *.
  destruct (parse_right_side_of_dot (advance s)) as [nm s2].
  apply IH. exact H.
Qed.

Definition mono_at (f : nat) : Prop :=
  (forall s r, parse_expression f s = Some r -> parse_expression (S f) s = Some r) /\
  (forall l s r, comma_loop f l s = Some r -> comma_loop (S f) l s = Some r) /\
  (forall s r, parse_assign f s = Some r -> parse_assign (S f) s = Some r) /\
  (forall p s r, parse_binary f p s = Some r -> parse_binary (S f) p s = Some r) /\
  (forall p l s r, parse_binary_rest f p l s = Some r -> parse_binary_rest (S f) p l s = Some r) /\
  (forall s r, parse_unary f s = Some r -> parse_unary (S f) s = Some r) /\
  (forall e s r, call_rest f e s = Some r -> call_rest (S f) e s = Some r) /\
  (forall s r, parse_primary f s = Some r -> parse_primary (S f) s = Some r) /\
  (forall c tr s r, delimited_list f c tr s = Some r -> delimited_list (S f) c tr s = Some r).

Lemma mono_S : forall f, mono_at f.
Proof.
  induction f as [|f IH].
  { unfold mono_at. repeat split; intros; discriminate. }
  destruct IH as (IHe & IHc & IHa & IHb & IHr & IHu & IHk & IHp & IHd).
  unfold mono_at. split; [|split; [|split; [|split; [|split; [|split; [|split; [|split]]]]]]].
  - (* parse_expression *)
    intros s r H. rewrite parse_expression_S in H. rewrite parse_expression_S.
    destruct (parse_assign f s) as [[e s1]|] eqn:HA; [|discriminate H].
    rewrite (IHa _ _ HA). apply IHc. exact H.
  - (* comma_loop *)
    intros l s r H. rewrite comma_loop_S in H. rewrite comma_loop_S.
    destruct (at_kind s KComma); [|exact H].
    cbv zeta in H |- *.
    destruct (parse_assign f (advance s)) as [[e s1]|] eqn:HA; [|discriminate H].
    rewrite (IHa _ _ HA). apply IHc. exact H.
  - (* parse_assign *)
    intros s r H. rewrite parse_assign_S in H. rewrite parse_assign_S.
    destruct (parse_binary f 0 s) as [[e s1]|] eqn:HB; [|discriminate H].
    rewrite (IHb _ _ _ HB).
    destruct (is_assignment_op (tk (cur s1))).
    { cbv zeta in H |- *.
      destruct (parse_assign f (advance s1)) as [[e2 s3]|] eqn:HA; [|discriminate H].
      rewrite (IHa _ _ HA). exact H. }
    destruct (at_kind s1 KQuestion); [|exact H].
    cbv zeta in H |- *.
    destruct (parse_assign f (advance s1)) as [[wt s3]|] eqn:HA; [|discriminate H].
    rewrite (IHa _ _ HA).
    destruct (at_kind s3 KColon).
    + destruct (parse_assign f (advance s3)) as [[wf s5]|] eqn:HA2; [|discriminate H].
      rewrite (IHa _ _ HA2). exact H.
    + destruct (parse_assign f (error_at_current s3 C_0_expected)) as [[wf s5]|] eqn:HA2; [|discriminate H].
      rewrite (IHa _ _ HA2). exact H.
  - (* parse_binary *)
    intros p s r H. rewrite parse_binary_S in H. rewrite parse_binary_S.
    destruct (parse_unary f s) as [[l s1]|] eqn:HU; [|discriminate H].
    rewrite (IHu _ _ HU). apply IHr. exact H.
  - (* parse_binary_rest *)
    intros p l s r H. rewrite parse_binary_rest_S in H. rewrite parse_binary_rest_S.
    cbv zeta in H |- *.
    destruct (p <? prec_of (tk (cur s))); [|exact H].
    destruct (parse_binary f (prec_of (tk (cur s))) (advance s)) as [[r0 s2]|] eqn:HB; [|discriminate H].
    rewrite (IHb _ _ _ HB). apply IHr. exact H.
  - (* parse_unary *)
    intros s r H. rewrite parse_unary_S in H. rewrite parse_unary_S.
    cbv zeta in H |- *.
    destruct (is_prefix_op (tk (cur s))).
    { destruct (parse_unary f (advance s)) as [[x s2]|] eqn:HU; [|discriminate H].
      rewrite (IHu _ _ HU). exact H. }
    destruct (kind_eqb (tk (cur s)) KTypeof).
    { destruct (parse_unary f (advance s)) as [[x s2]|] eqn:HU; [|discriminate H].
      rewrite (IHu _ _ HU). exact H. }
    destruct (parse_primary f s) as [[e s1]|] eqn:HP; [|discriminate H].
    rewrite (IHp _ _ HP).
    destruct (member_rest f e s1) as [[e2 s2]|] eqn:HM; [|discriminate H].
    rewrite (member_rest_mono_S _ _ _ _ HM). apply IHk. exact H.
  - (* call_rest *)
    intros e s r H. rewrite call_rest_S in H. rewrite call_rest_S.
    destruct (tnl (cur s)); [exact H|].
    destruct (member_rest f e s) as [[e1 s1]|] eqn:HM; [|discriminate H].
    rewrite (member_rest_mono_S _ _ _ _ HM).
    destruct (at_kind s1 KOpenParen && negb (tnl (cur s1))); [|exact H].
    cbv zeta in H |- *.
    destruct (delimited_list f PArgs false (advance s1)) as [[args s3]|] eqn:HD; [|discriminate H].
    rewrite (IHd _ _ _ _ HD).
    destruct (at_kind s3 KDotDotDot); apply IHk; exact H.
  - (* parse_primary *)
    intros s r H. rewrite parse_primary_S in H. rewrite parse_primary_S.
    cbv zeta in H |- *.
    destruct (is_literal_start (tk (cur s))); [exact H|].
    destruct (kind_eqb (tk (cur s)) KOpenParen).
    { destruct (parse_expression f (advance s)) as [[x s2]|] eqn:HE; [|discriminate H].
      rewrite (IHe _ _ HE). exact H. }
    destruct (kind_eqb (tk (cur s)) KOpenBracket); [|exact H].
    destruct (delimited_list f PArray false (advance s)) as [[es s2]|] eqn:HD; [|discriminate H].
    rewrite (IHd _ _ _ _ HD). exact H.
  - (* delimited_list *)
    intros c tr s r H. rewrite delimited_list_S in H. rewrite delimited_list_S.
    destruct (is_list_element c (tk (cur s))).
    + destruct (parse_assign f s) as [[e s1]|] eqn:HA; [|discriminate H].
      rewrite (IHa _ _ HA).
      destruct (at_kind s1 KComma).
      { destruct (delimited_list f c true (advance s1)) as [[es s2]|] eqn:HD; [|discriminate H].
        rewrite (IHd _ _ _ _ HD). exact H. }
      destruct (is_list_terminator c (tk (cur s1))); [exact H|].
      destruct (delimited_list f c false (error_at_current s1 C_0_expected)) as [[es s2]|] eqn:HD;
        [|discriminate H].
      rewrite (IHd _ _ _ _ HD). exact H.
    + destruct (is_list_terminator c (tk (cur s))); [exact H|].
      apply IHd. exact H.
Qed.

Lemma mono_le : forall f f', (f <= f')%nat ->
  (forall s r, parse_expression f s = Some r -> parse_expression f' s = Some r) /\
  (forall l s r, comma_loop f l s = Some r -> comma_loop f' l s = Some r) /\
  (forall s r, parse_assign f s = Some r -> parse_assign f' s = Some r) /\
  (forall p s r, parse_binary f p s = Some r -> parse_binary f' p s = Some r) /\
  (forall p l s r, parse_binary_rest f p l s = Some r -> parse_binary_rest f' p l s = Some r) /\
  (forall s r, parse_unary f s = Some r -> parse_unary f' s = Some r) /\
  (forall e s r, call_rest f e s = Some r -> call_rest f' e s = Some r) /\
  (forall s r, parse_primary f s = Some r -> parse_primary f' s = Some r) /\
  (forall c tr s r, delimited_list f c tr s = Some r -> delimited_list f' c tr s = Some r).
Proof.
  intros f f' Hle. induction Hle as [|g Hle IH].
  { repeat split; intros; assumption. }
  destruct IH as (IHe & IHc & IHa & IHb & IHr & IHu & IHk & IHp & IHd).
  destruct (mono_S g) as (Me & Mc & Ma & Mb & Mr & Mu & Mk & Mp & Md).
  split; [|split; [|split; [|split; [|split; [|split; [|split; [|split]]]]]]]; intros.
  - apply Me, IHe; assumption.
  - apply Mc, IHc; assumption.
  - apply Ma, IHa; assumption.
  - apply Mb, IHb; assumption.
  - apply Mr, IHr; assumption.
  - apply Mu, IHu; assumption.
  - apply Mk, IHk; assumption.
  - apply Mp, IHp; assumption.
  - apply Md, IHd; assumption.
Qed.

Lemma member_rest_mono f f' e s r :
  member_rest f e s = Some r -> (f <= f')%nat -> member_rest f' e s = Some r.
Proof.
  intros H Hle. induction Hle as [|g Hle IH]; [exact H|].
  apply member_rest_mono_S. exact IH.
Qed.

Lemma parse_expression_mono f f' s r :
  parse_expression f s = Some r -> (f <= f')%nat -> parse_expression f' s = Some r.
Proof. intros H Hle. destruct (mono_le f f' Hle) as (M & _). apply M. exact H. Qed.

Lemma comma_loop_mono f f' l s r :
  comma_loop f l s = Some r -> (f <= f')%nat -> comma_loop f' l s = Some r.
Proof. intros H Hle. destruct (mono_le f f' Hle) as (_ & M & _). apply M. exact H. Qed.

Lemma parse_assign_mono f f' s r :
  parse_assign f s = Some r -> (f <= f')%nat -> parse_assign f' s = Some r.
Proof. intros H Hle. destruct (mono_le f f' Hle) as (_ & _ & M & _). apply M. exact H. Qed.

Lemma parse_binary_mono f f' p s r :
  parse_binary f p s = Some r -> (f <= f')%nat -> parse_binary f' p s = Some r.
Proof. intros H Hle. destruct (mono_le f f' Hle) as (_ & _ & _ & M & _). apply M. exact H. Qed.

Lemma parse_binary_rest_mono f f' p l s r :
  parse_binary_rest f p l s = Some r -> (f <= f')%nat -> parse_binary_rest f' p l s = Some r.
Proof. intros H Hle. destruct (mono_le f f' Hle) as (_ & _ & _ & _ & M & _). apply M. exact H. Qed.

Lemma parse_unary_mono f f' s r :
  parse_unary f s = Some r -> (f <= f')%nat -> parse_unary f' s = Some r.
Proof. intros H Hle. destruct (mono_le f f' Hle) as (_ & _ & _ & _ & _ & M & _). apply M. exact H. Qed.

Lemma call_rest_mono f f' e s r :
  call_rest f e s = Some r -> (f <= f')%nat -> call_rest f' e s = Some r.
Proof. intros H Hle. destruct (mono_le f f' Hle) as (_ & _ & _ & _ & _ & _ & M & _). apply M. exact H. Qed.

Lemma parse_primary_mono f f' s r :
  parse_primary f s = Some r -> (f <= f')%nat -> parse_primary f' s = Some r.
Proof. intros H Hle. destruct (mono_le f f' Hle) as (_ & _ & _ & _ & _ & _ & _ & M & _). apply M. exact H. Qed.

Lemma delimited_list_mono f f' c tr s r :
  delimited_list f c tr s = Some r -> (f <= f')%nat -> delimited_list f' c tr s = Some r.
Proof. intros H Hle. destruct (mono_le f f' Hle) as (_ & _ & _ & _ & _ & _ & _ & _ & M). apply M. exact H. Qed.

(* a successful parse is independent of the fuel *)
Lemma parse_tokens_mono f f' toks :
  parse_tokens f toks <> OutOfFuel -> (f <= f')%nat -> parse_tokens f' toks = parse_tokens f toks.
Proof.
  intros H Hle. destruct toks as [|t0 r]; [reflexivity|].
  unfold parse_tokens in *.
  destruct (parse_expression f _) as [[e s1]|] eqn:HE; [|congruence].
  rewrite (parse_expression_mono _ _ _ _ HE Hle). reflexivity.
Qed.
