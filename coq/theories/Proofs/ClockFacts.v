(* Facts about the clock builtins' model (Sem/Clock.v). *)
From Coq Require Import ZArith Lia.
From Formula Require Import Sem.Value Sem.Builtins Sem.Clock.
Open Scope Z_scope.

Lemma local_secs_today t : local_secs (today_of t) = t_days t * 86400.
Proof.
  unfold local_secs, today_of. cbn [t_ns t_off]. unfold NS.
  rewrite Z.div_mul by lia. lia.
Qed.

(* toDay is a local midnight: hour, minute and second are 0, of the reading's own civil day and zone *)
Theorem today_is_local_midnight t :
  t_hour (today_of t) = 0 /\ t_minute (today_of t) = 0 /\ t_second (today_of t) = 0 /\
  t_days (today_of t) = t_days t /\ t_off (today_of t) = t_off t /\
  t_year (today_of t) = t_year t /\ t_month (today_of t) = t_month t /\ t_day (today_of t) = t_day t.
Proof.
  assert (Hd : t_days (today_of t) = t_days t).
  { unfold t_days at 1. rewrite local_secs_today. apply Z.div_mul. lia. }
  assert (Hs : t_sod (today_of t) = 0).
  { unfold t_sod. rewrite local_secs_today. apply Z.mod_mul. lia. }
  unfold t_hour, t_minute, t_second, t_year, t_month, t_day. rewrite Hs, Hd. repeat split.
Qed.

(* it is the latest local midnight not after the reading, less than a day before it *)
Theorem today_brackets_reading t :
  t_ns (today_of t) <= t_ns t < t_ns (today_of t) + 86400 * NS.
Proof.
  unfold today_of, t_days, local_secs. cbn [t_ns t_off]. unfold NS.
  pose proof (Z.div_mod (t_ns t) 1000000000 ltac:(lia)) as H1.
  pose proof (Z.mod_pos_bound (t_ns t) 1000000000 ltac:(lia)) as H2.
  set (q := t_ns t / 1000000000) in *.
  pose proof (Z.div_mod (q + t_off t) 86400 ltac:(lia)) as H3.
  pose proof (Z.mod_pos_bound (q + t_off t) 86400 ltac:(lia)) as H4.
  set (d := (q + t_off t) / 86400) in *. lia.
Qed.

(* with one reading inside the call's bracket, toDay is the midnight of a day the local clock showed during
   the call: the day of the start or the day of the end or one in between *)
Theorem today_within_call lo hi t : in_bracket lo hi t ->
  t_days lo <= t_days (today_of t) <= t_days hi.
Proof.
  intros (Hns & Ho1 & Ho2). destruct (today_is_local_midnight t) as (_ & _ & _ & Hd & _). rewrite Hd.
  unfold t_days, local_secs. rewrite Ho1, Ho2. unfold NS.
  split; apply Z.div_le_mono; try lia; apply Z.add_le_mono_r; apply Z.div_le_mono; lia.
Qed.

Theorem now_within_call lo hi t : in_bracket lo hi t -> t_ns lo <= t_ns (now_of t) <= t_ns hi.
Proof. intros (H & _). exact H. Qed.

Example today_example :
  today_of (mkTime 1700000000123456789 19800) = mkTime 1699986600000000000 19800 /\
  t_hour (mkTime 1699986600000000000 19800) = 0 /\ t_day (mkTime 1699986600000000000 19800) = 15.
Proof. vm_compute. repeat split. Qed.
