(* Facts about literals for C12 (numbers) and C13 (strings).
   LiteralAscii: ASCII decoding, one-step decoder, locality of decoding.
   LiteralNum:   syntax, rendering and denotation of numeric literals; scanning; rejections.
   LiteralStr:   the reference escaper as a relation; round trip; open literals. *)
From Formula Require Export Proofs.LiteralAscii Proofs.LiteralNum Proofs.LiteralStr.
