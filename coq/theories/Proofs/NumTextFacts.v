(* C18, numeric text: which strings the evaluator's string->number coercion (Num/Dec.v
   [num_of_text], used by convToNumber, toInt and toFloat on a string) reads as a finite number,
   which as an infinity, and that everything else is NaN.
     decimal_text s          an independent description of "decimal numeral"
     is_decimal_text_spec    the model's check [is_decimal_text] decides exactly that
     toFloat_numeric         the number a decimal numeral denotes
     toFloat_other_text      any other text is NaN or (for the spellings of infinity) an infinity *)
From Coq Require Import List ZArith Bool Lia String.
From Formula Require Import Sem.Eval Proofs.DecFacts.
Import ListNotations.
Local Open Scope Z_scope.

(* ---------------------------------------------------------------------------------------- *)
(* the specification                                                                         *)
(* ---------------------------------------------------------------------------------------- *)

(* a list of ASCII digit bytes '0'..'9' *)
Definition is_digits (l : list Z) : Prop := forall b, In b l -> 48 <= b <= 57.

(* the base-10 number spelled by a list of digit bytes, most significant first *)
Definition dval (l : list Z) : Z := fold_left (fun a b => a * 10 + (b - 48)) l 0.

(* an optional sign: nothing, '+' or '-'; the flag says "negative" *)
Inductive sign_text : list Z -> bool -> Prop :=
| sign_none : sign_text [] false
| sign_plus : sign_text [43] false
| sign_minus : sign_text [45] true.

(* an optional fraction part: nothing, or '.' followed by digits (possibly none); second
   component: the fraction digits *)
Inductive frac_text : list Z -> list Z -> Prop :=
| frac_absent : frac_text [] []
| frac_present : forall fp, is_digits fp -> frac_text (46 :: fp) fp.

(* an optional exponent part: nothing (value 0), or 'e' / 'E', an optional sign and at least one
   digit; second component: the signed value *)
Inductive exp_text : list Z -> Z -> Prop :=
| exp_absent : exp_text [] 0
| exp_present : forall m sg neg ds,
    m = 101 \/ m = 69 -> sign_text sg neg -> is_digits ds -> ds <> [] ->
    exp_text (m :: sg ++ ds) (if neg then - dval ds else dval ds).

(* sign, integer digits, fraction, exponent - with at least one digit before the exponent *)
Inductive numeral : list Z -> bool -> list Z -> list Z -> Z -> Prop :=
| numeral_intro : forall sg neg ip ft fp et ev,
    sign_text sg neg -> is_digits ip -> frac_text ft fp -> ip ++ fp <> [] -> exp_text et ev ->
    numeral (sg ++ ip ++ ft ++ et) neg ip fp ev.

Definition decimal_text (s : list Z) : Prop := exists neg ip fp ev, numeral s neg ip fp ev.

(* the inductive definitions above, as plain equivalences *)
Lemma sign_text_def sg neg :
  sign_text sg neg <-> (sg = [] /\ neg = false) \/ (sg = [43] /\ neg = false) \/ (sg = [45] /\ neg = true).
Proof.
  split.
  - intros H. destruct H; [left|right; left|right; right]; split; reflexivity.
  - intros [[-> ->]|[[-> ->]|[-> ->]]]; constructor.
Qed.

Lemma frac_text_def ft fp :
  frac_text ft fp <-> (ft = [] /\ fp = []) \/ (ft = 46 :: fp /\ is_digits fp).
Proof.
  split.
  - intros H. destruct H as [|fp Hfp]; [left; split; reflexivity|right; split; [reflexivity|exact Hfp]].
  - intros [[-> ->]|[-> Hfp]]; constructor. exact Hfp.
Qed.

Lemma exp_text_def et ev :
  exp_text et ev <->
  (et = [] /\ ev = 0) \/
  exists m sg neg ds, et = m :: sg ++ ds /\ (m = 101 \/ m = 69) /\ sign_text sg neg /\ is_digits ds /\ ds <> [] /\
                      ev = if neg then - dval ds else dval ds.
Proof.
  split.
  - intros H. destruct H as [|m sg neg ds Hm Hsg Hds Hne]; [left; split; reflexivity|].
    right. exists m, sg, neg, ds.
    split; [reflexivity|]. split; [exact Hm|]. split; [exact Hsg|]. split; [exact Hds|].
    split; [exact Hne|reflexivity].
  - intros [[-> ->]|(m & sg & neg & ds & -> & Hm & Hsg & Hds & Hne & ->)]; constructor; assumption.
Qed.

Lemma numeral_def s neg ip fp ev :
  numeral s neg ip fp ev <->
  exists sg ft et, s = sg ++ ip ++ ft ++ et /\ sign_text sg neg /\ is_digits ip /\ frac_text ft fp /\
                   ip ++ fp <> [] /\ exp_text et ev.
Proof.
  split.
  - intros H. destruct H as [sg neg ip ft fp et ev Hsg Hip Hft Hne Het].
    exists sg, ft, et.
    split; [reflexivity|]. split; [exact Hsg|]. split; [exact Hip|]. split; [exact Hft|].
    split; [exact Hne|exact Het].
  - intros (sg & ft & et & -> & Hsg & Hip & Hft & Hne & Het). constructor; assumption.
Qed.

Lemma text_parts_def :
  (forall sg neg, sign_text sg neg <-> (sg = [] /\ neg = false) \/ (sg = [43] /\ neg = false) \/ (sg = [45] /\ neg = true)) /\
  (forall ft fp, frac_text ft fp <-> (ft = [] /\ fp = []) \/ (ft = 46 :: fp /\ is_digits fp)) /\
  (forall et ev, exp_text et ev <->
     (et = [] /\ ev = 0) \/
     exists m sg neg ds, et = m :: sg ++ ds /\ (m = 101 \/ m = 69) /\ sign_text sg neg /\ is_digits ds /\ ds <> [] /\
                         ev = if neg then - dval ds else dval ds) /\
  (forall l, is_digits l <-> forall b, In b l -> 48 <= b <= 57) /\
  (forall l, dval l = fold_left (fun a b => a * 10 + (b - 48)) l 0).
Proof.
  split; [exact sign_text_def|]. split; [exact frac_text_def|]. split; [exact exp_text_def|].
  split; [intros l; reflexivity|intros l; reflexivity].
Qed.

(* ---------------------------------------------------------------------------------------- *)
(* digits                                                                                    *)
(* ---------------------------------------------------------------------------------------- *)

Lemma is_dig_iff b : is_dig b = true <-> 48 <= b <= 57.
Proof.
  unfold is_dig. rewrite andb_true_iff, !Z.leb_le. reflexivity.
Qed.

Lemma is_digits_forallb l : is_digits l <-> forallb is_dig l = true.
Proof.
  unfold is_digits. rewrite forallb_forall. split.
  - intros H b Hb. apply is_dig_iff. exact (H b Hb).
  - intros H b Hb. apply is_dig_iff. exact (H b Hb).
Qed.

Lemma is_digits_nil : is_digits [].
Proof. intros b Hb. destruct Hb. Qed.

Lemma is_digits_cons b l : is_digits (b :: l) <-> 48 <= b <= 57 /\ is_digits l.
Proof.
  unfold is_digits. split.
  - intros H. split; [apply H; left; reflexivity|]. intros c Hc. apply H. right. exact Hc.
  - intros [Hb Hl] c [Hc|Hc]; [subst c; exact Hb|exact (Hl c Hc)].
Qed.

Lemma dval_digit_val l : dval l = digit_val l.
Proof. reflexivity. Qed.

(* a text that does not begin with a digit *)
Definition no_digit_head (r : list Z) : Prop :=
  match r with [] => True | b :: _ => is_dig b = false end.

Lemma skip_digits_stop r : no_digit_head r -> skip_digits r = (O, r).
Proof.
  destruct r as [|b t]; intros H; [reflexivity|]. cbn [no_digit_head] in H.
  cbn [skip_digits]. rewrite H. reflexivity.
Qed.

Lemma skip_digits_app : forall ds r, is_digits ds -> no_digit_head r ->
  skip_digits (ds ++ r) = (length ds, r).
Proof.
  induction ds as [|b ds IH]; intros r Hds Hr.
  - exact (skip_digits_stop r Hr).
  - apply is_digits_cons in Hds. destruct Hds as [Hb Hds].
    cbn [app skip_digits length]. rewrite (proj2 (is_dig_iff b) Hb).
    rewrite (IH r Hds Hr). reflexivity.
Qed.

Lemma skip_digits_inv : forall s n r, skip_digits s = (n, r) ->
  exists ds, s = ds ++ r /\ is_digits ds /\ length ds = n /\ no_digit_head r.
Proof.
  induction s as [|b t IH]; intros n r H.
  - cbn [skip_digits] in H. injection H as Hn Hr. subst n r.
    exists []. split; [reflexivity|]. split; [exact is_digits_nil|]. split; [reflexivity|exact I].
  - cbn [skip_digits] in H. destruct (is_dig b) eqn:Eb.
    + destruct (skip_digits t) as [n' r'] eqn:Et. injection H as Hn Hr. subst n r.
      destruct (IH n' r' eq_refl) as (ds & Hs & Hds & Hlen & Hstop).
      exists (b :: ds). split; [cbn [app]; rewrite <- Hs; reflexivity|].
      split; [apply is_digits_cons; split; [apply is_dig_iff; exact Eb|exact Hds]|].
      split; [cbn [length]; rewrite Hlen; reflexivity|exact Hstop].
    + injection H as Hn Hr. subst n r.
      exists []. split; [reflexivity|]. split; [exact is_digits_nil|]. split; [reflexivity|exact Eb].
Qed.

(* ---------------------------------------------------------------------------------------- *)
(* signs                                                                                     *)
(* ---------------------------------------------------------------------------------------- *)

Lemma skip_sign_cons b t : skip_sign (b :: t) = if (b =? 43) || (b =? 45) then t else b :: t.
Proof.
  unfold skip_sign. destruct b as [|q|q]; try reflexivity.
  do 6 (try (destruct q as [q|q|]; try reflexivity)).
Qed.

Lemma split_sign_skip s : snd (split_sign s) = skip_sign s.
Proof.
  destruct s as [|b t]; [reflexivity|]. rewrite split_sign_if, skip_sign_cons.
  destruct (b =? 43); [reflexivity|]. destruct (b =? 45); reflexivity.
Qed.

Lemma split_sign_neg s : fst (split_sign s) = match s with [] => false | b :: _ => b =? 45 end.
Proof.
  destruct s as [|b t]; [reflexivity|]. rewrite split_sign_if.
  destruct (b =? 43) eqn:E43.
  - apply Z.eqb_eq in E43. subst b. reflexivity.
  - destruct (b =? 45); reflexivity.
Qed.

(* a text that does not begin with a sign byte *)
Definition no_sign_head (r : list Z) : Prop :=
  match r with [] => True | b :: _ => b <> 43 /\ b <> 45 end.

Lemma skip_sign_stop r : no_sign_head r -> skip_sign r = r.
Proof.
  destruct r as [|b t]; intros H; [reflexivity|]. cbn [no_sign_head] in H. destruct H as [H1 H2].
  rewrite skip_sign_cons. apply Z.eqb_neq in H1. apply Z.eqb_neq in H2. rewrite H1, H2. reflexivity.
Qed.

Lemma skip_sign_app sg neg r : sign_text sg neg -> no_sign_head r -> skip_sign (sg ++ r) = r.
Proof.
  intros Hsg Hr. destruct Hsg; cbn [app]; [exact (skip_sign_stop r Hr)|reflexivity|reflexivity].
Qed.

Lemma skip_sign_inv s : exists sg neg, sign_text sg neg /\ s = sg ++ skip_sign s.
Proof.
  destruct s as [|b t].
  - exists [], false. split; [constructor|reflexivity].
  - rewrite skip_sign_cons. destruct (b =? 43) eqn:E43.
    + apply Z.eqb_eq in E43. subst b. exists [43], false. split; [constructor|reflexivity].
    + destruct (b =? 45) eqn:E45.
      * apply Z.eqb_eq in E45. subst b. exists [45], true. split; [constructor|reflexivity].
      * exists [], false. split; [constructor|reflexivity].
Qed.

Lemma digit_no_sign_head b t : 48 <= b <= 57 -> no_sign_head (b :: t).
Proof. intros H. cbn [no_sign_head]. lia. Qed.

(* ---------------------------------------------------------------------------------------- *)
(* the model's check, in three steps                                                         *)
(* ---------------------------------------------------------------------------------------- *)

(* the optional fraction: digits after a '.' *)
Definition frac_skip (r1 : list Z) : nat * list Z :=
  match r1 with 46 :: t => skip_digits t | _ => (O, r1) end.

(* the optional exponent, which must end the text *)
Definition exp_check (r2 : list Z) : bool :=
  match r2 with
  | [] => true
  | e :: r3 =>
    if (e =? 101) || (e =? 69) then
      let '(n3, r5) := skip_digits (skip_sign r3) in
      match n3, r5 with
      | S _, [] => true
      | _, _ => false
      end
    else false
  end.

Lemma is_decimal_text_unfold s :
  is_decimal_text s =
  let '(n1, r1) := skip_digits (skip_sign s) in
  let '(n2, r2) := frac_skip r1 in
  match (n1 + n2)%nat with
  | O => false
  | S _ => exp_check r2
  end.
Proof. reflexivity. Qed.

Lemma frac_skip_cons b t : frac_skip (b :: t) = if b =? 46 then skip_digits t else (O, b :: t).
Proof.
  unfold frac_skip. destruct b as [|q|q]; try reflexivity.
  do 6 (try (destruct q as [q|q|]; try reflexivity)).
Qed.

(* the first byte of an exponent part is neither a digit nor the point *)
Lemma exp_text_head et ev : exp_text et ev -> no_digit_head et /\ frac_skip et = (O, et).
Proof.
  intros H. destruct H as [|m sg neg ds Hm Hsg Hds Hne].
  - split; [exact I|reflexivity].
  - split.
    + cbn [no_digit_head]. destruct Hm as [Hm|Hm]; subst m; reflexivity.
    + rewrite frac_skip_cons. destruct Hm as [Hm|Hm]; subst m; reflexivity.
Qed.

Lemma exp_check_complete et ev : exp_text et ev -> exp_check et = true.
Proof.
  intros H. destruct H as [|m sg neg ds Hm Hsg Hds Hne]; [reflexivity|].
  cbn [exp_check].
  assert (Em : (m =? 101) || (m =? 69) = true) by (destruct Hm as [Hm|Hm]; subst m; reflexivity).
  rewrite Em.
  destruct ds as [|d ds']; [contradiction Hne; reflexivity|].
  assert (Hd : 48 <= d <= 57) by (apply Hds; left; reflexivity).
  rewrite (skip_sign_app sg neg (d :: ds') Hsg (digit_no_sign_head d ds' Hd)).
  rewrite <- (app_nil_r (d :: ds')). rewrite (skip_digits_app (d :: ds') [] Hds I).
  reflexivity.
Qed.

Lemma exp_check_sound r2 : exp_check r2 = true -> exists ev, exp_text r2 ev.
Proof.
  destruct r2 as [|e r3]; intros H.
  - exists 0. constructor.
  - cbn [exp_check] in H. destruct ((e =? 101) || (e =? 69)) eqn:Ee; [|discriminate H].
    destruct (skip_digits (skip_sign r3)) as [n3 r5] eqn:E3.
    destruct n3 as [|n3]; [discriminate H|]. destruct r5 as [|x r5]; [|discriminate H].
    destruct (skip_digits_inv _ _ _ E3) as (ds & Hs & Hds & Hlen & _).
    destruct (skip_sign_inv r3) as (sg & neg & Hsg & Hr3).
    rewrite Hs, app_nil_r in Hr3. rewrite Hr3.
    exists (if neg then - dval ds else dval ds). constructor.
    + apply orb_true_iff in Ee. destruct Ee as [Ee|Ee]; apply Z.eqb_eq in Ee; [left|right]; exact Ee.
    + exact Hsg.
    + exact Hds.
    + intros ->. discriminate Hlen.
Qed.

(* ---------------------------------------------------------------------------------------- *)
(* B1: the check decides the specification                                                   *)
(* ---------------------------------------------------------------------------------------- *)

Lemma is_decimal_text_build sg neg ip ft fp et ev :
  sign_text sg neg -> is_digits ip -> frac_text ft fp -> ip ++ fp <> [] -> exp_text et ev ->
  is_decimal_text (sg ++ ip ++ ft ++ et) = true.
Proof.
  intros Hsg Hip Hft Hne Het.
  destruct (exp_text_head et ev Het) as [Het_nd Het_fs].
  rewrite is_decimal_text_unfold.
  (* the sign *)
  assert (Hhead : no_sign_head (ip ++ ft ++ et)).
  { destruct ip as [|b ip'].
    - destruct Hft as [|fp Hfp]; [contradiction Hne; reflexivity|].
      cbn [app no_sign_head]. lia.
    - cbn [app]. apply digit_no_sign_head. apply Hip. left. reflexivity. }
  rewrite (skip_sign_app sg neg _ Hsg Hhead).
  (* the integer digits *)
  assert (Hnd : no_digit_head (ft ++ et)).
  { destruct Hft as [|fp Hfp]; [exact Het_nd|reflexivity]. }
  rewrite (skip_digits_app ip (ft ++ et) Hip Hnd).
  (* the fraction *)
  assert (Hfrac : frac_skip (ft ++ et) = (length fp, et)).
  { destruct Hft as [|fp Hfp].
    - exact Het_fs.
    - cbn [app]. rewrite frac_skip_cons. change (46 =? 46) with true. cbv iota.
      exact (skip_digits_app fp et Hfp Het_nd). }
  rewrite Hfrac.
  (* at least one digit, and the exponent *)
  assert (Hlen : (length ip + length fp)%nat <> O).
  { rewrite <- app_length. intros H0. apply Hne. apply length_zero_iff_nil. exact H0. }
  destruct (length ip + length fp)%nat as [|k]; [contradiction Hlen; reflexivity|].
  exact (exp_check_complete et ev Het).
Qed.

Theorem is_decimal_text_spec : forall s, is_decimal_text s = true <-> decimal_text s.
Proof.
  intros s. split.
  - intros H. rewrite is_decimal_text_unfold in H.
    destruct (skip_digits (skip_sign s)) as [n1 r1] eqn:E1.
    destruct (skip_sign_inv s) as (sg & neg & Hsg & Hs).
    destruct (skip_digits_inv _ _ _ E1) as (ip & Hs1 & Hip & Hlen1 & Hstop1).
    assert (Hfrac : exists ft fp r2 n2, r1 = ft ++ r2 /\ frac_text ft fp /\ length fp = n2 /\
                                        frac_skip r1 = (n2, r2)).
    { destruct r1 as [|b t].
      - exists [], [], [], O. repeat split. constructor.
      - rewrite frac_skip_cons. destruct (b =? 46) eqn:Eb.
        + apply Z.eqb_eq in Eb. subst b. destruct (skip_digits t) as [n2 r2] eqn:E2.
          destruct (skip_digits_inv _ _ _ E2) as (fp & Ht & Hfp & Hlen2 & _).
          exists (46 :: fp), fp, r2, n2. split; [cbn [app]; rewrite <- Ht; reflexivity|].
          split; [constructor; exact Hfp|]. split; [exact Hlen2|reflexivity].
        + exists [], [], (b :: t), O. repeat split. constructor. }
    destruct Hfrac as (ft & fp & r2 & n2 & Hr1 & Hft & Hlen2 & Hfs).
    rewrite Hfs in H.
    destruct (n1 + n2)%nat as [|k] eqn:Ek; [discriminate H|].
    destruct (exp_check_sound r2 H) as [ev Hev].
    exists neg, ip, fp, ev. rewrite Hs, Hs1, Hr1.
    constructor; try assumption.
    intros Hnil. apply (f_equal (@length Z)) in Hnil. rewrite app_length, Hlen1, Hlen2, Ek in Hnil.
    discriminate Hnil.
  - intros (neg & ip & fp & ev & H). destruct H as [sg neg ip ft fp et ev Hsg Hip Hft Hne Het].
    exact (is_decimal_text_build sg neg ip ft fp et ev Hsg Hip Hft Hne Het).
Qed.

(* ---------------------------------------------------------------------------------------- *)
(* B2: the number a decimal numeral denotes                                                  *)
(* ---------------------------------------------------------------------------------------- *)

Lemma frac_text_bytes ft fp : frac_text ft fp ->
  exists fpo, ft = frac_bytes fpo /\ fp = frac_digits fpo /\ all_digits (frac_digits fpo) = true.
Proof.
  intros H. destruct H as [|fp Hfp].
  - exists None. repeat split.
  - exists (Some fp). split; [reflexivity|]. split; [reflexivity|].
    apply is_digits_forallb. exact Hfp.
Qed.

Lemma exp_text_bytes et ev : exp_text et ev ->
  exists ex, et = exp_bytes ex /\ exp_ok ex = true /\ exp_value ex = ev.
Proof.
  intros H. destruct H as [|m sg neg ds Hm Hsg Hds Hne].
  - exists None. repeat split.
  - assert (Em : (m =? 101) || (m =? 69) = true) by (destruct Hm as [Hm|Hm]; subst m; reflexivity).
    assert (Ed : all_digits ds = true) by (apply is_digits_forallb; exact Hds).
    destruct Hsg.
    + exists (Some (m, ENone, ds)). cbn [exp_bytes esign_bytes exp_ok exp_value]. rewrite Em, Ed.
      repeat split.
    + exists (Some (m, EPlus, ds)). cbn [exp_bytes esign_bytes exp_ok exp_value]. rewrite Em, Ed.
      repeat split.
    + exists (Some (m, EMinus, ds)). cbn [exp_bytes esign_bytes exp_ok exp_value]. rewrite Em, Ed.
      repeat split.
Qed.

(* the decimal library's SetString on a numeral *)
Theorem dec_of_string_numeric : forall s neg ip fp ev,
  numeral s neg ip fp ev ->
  dec_of_string s = Fin neg (dval (ip ++ fp)) (ev - Z.of_nat (length fp)).
Proof.
  intros s neg0 ip0 fp0 ev0 H. destruct H as [sg neg ip ft fp et ev Hsg Hip Hft Hne Het].
  destruct (frac_text_bytes ft fp Hft) as (fpo & -> & -> & Hfp).
  destruct (exp_text_bytes et ev Het) as (ex & -> & Hex & <-).
  apply is_digits_forallb in Hip. rewrite dval_digit_val.
  destruct Hsg; cbn [app].
  - exact (literal_kept_exactly ip fpo ex Hip Hfp Hex Hne).
  - exact (proj2 (signed_literal_kept_exactly ip fpo ex Hip Hfp Hex Hne)).
  - exact (proj1 (signed_literal_kept_exactly ip fpo ex Hip Hfp Hex Hne)).
Qed.

Lemma num_of_text_decimal s : is_decimal_text s = true -> num_of_text s = dec_of_string s.
Proof.
  intros H. unfold num_of_text. rewrite H. destruct (dec_of_string s); reflexivity.
Qed.

(* toFloat / toInt / arithmetic on a string that is a decimal numeral: the sign, all the mantissa
   digits as the coefficient, the written exponent less the number of fraction digits *)
Theorem toFloat_numeric : forall s neg ip fp ev,
  numeral s neg ip fp ev ->
  num_of_text s = Fin neg (dval (ip ++ fp)) (ev - Z.of_nat (length fp)).
Proof.
  intros s neg ip fp ev H.
  rewrite num_of_text_decimal.
  - exact (dec_of_string_numeric s neg ip fp ev H).
  - apply is_decimal_text_spec. exists neg, ip, fp, ev. exact H.
Qed.

(* ---------------------------------------------------------------------------------------- *)
(* B3: every other text                                                                      *)
(* ---------------------------------------------------------------------------------------- *)

Definition inf_bytes : list Z := [105; 110; 102].
Definition infinity_bytes : list Z := [105; 110; 102; 105; 110; 105; 116; 121].

(* the text after an optional sign is, ignoring ASCII case, "inf" or "infinity" *)
Definition spells_infinity (s : list Z) : bool :=
  let l := map lower (skip_sign s) in bytes_eq l inf_bytes || bytes_eq l infinity_bytes.

Definition starts_minus (s : list Z) : bool := match s with [] => false | b :: _ => b =? 45 end.

Lemma spells_infinity_def s :
  spells_infinity s =
  (bytes_eq (map lower (skip_sign s)) [105; 110; 102] ||
   bytes_eq (map lower (skip_sign s)) [105; 110; 102; 105; 110; 105; 116; 121]) /\
  starts_minus s = match s with [] => false | b :: _ => b =? 45 end.
Proof. split; reflexivity. Qed.

Lemma lower_i b : lower b = 105 -> is_dig b || (b =? 46) = false.
Proof.
  unfold lower, is_dig. intros H.
  destruct ((65 <=? b) && (b <=? 90)) eqn:E.
  - assert (b = 73) by lia. subst b. reflexivity.
  - subst b. reflexivity.
Qed.

Lemma spells_infinity_head s : spells_infinity s = true ->
  exists b t, skip_sign s = b :: t /\ is_dig b || (b =? 46) = false.
Proof.
  unfold spells_infinity. cbv zeta. intros H.
  destruct (skip_sign s) as [|b t]; [discriminate H|].
  exists b, t. split; [reflexivity|]. apply lower_i.
  cbn [map] in H. apply orb_true_iff in H. destruct H as [H|H].
  - unfold inf_bytes in H. cbn [bytes_eq] in H. apply andb_true_iff in H. destruct H as [H _].
    apply Z.eqb_eq. exact H.
  - unfold infinity_bytes in H. cbn [bytes_eq] in H. apply andb_true_iff in H. destruct H as [H _].
    apply Z.eqb_eq. exact H.
Qed.

Lemma dec_of_string_inf_iff s n :
  dec_of_string s = Inf n <-> spells_infinity s = true /\ n = starts_minus s.
Proof.
  rewrite dec_of_string_unfold.
  pose proof (split_sign_skip s) as Hsk. pose proof (split_sign_neg s) as Hng.
  destruct (split_sign s) as [neg s1]. cbn [fst snd] in Hsk, Hng.
  fold (starts_minus s) in Hng. subst s1 neg.
  split.
  - intros H. unfold parse_unsigned in H. unfold spells_infinity. cbv zeta.
    destruct (skip_sign s) as [|b t]; [discriminate H|].
    destruct (is_dig b || (b =? 46)).
    + destruct (scan_mant (b :: t) 0 false 0) as [[[c frac] rest]|]; [|discriminate H].
      destruct rest as [|x r1]; [discriminate H|].
      destruct (split_sign r1) as [eneg r2]. destruct (scan_digits r2 0); discriminate H.
    + cbv zeta in H. fold inf_bytes infinity_bytes in H.
      destruct (bytes_eq (map lower (b :: t)) inf_bytes || bytes_eq (map lower (b :: t)) infinity_bytes);
        [|discriminate H].
      injection H as H. split; [reflexivity|]. symmetry. exact H.
  - intros [H Hn]. subst n.
    destruct (spells_infinity_head s H) as (b & t & Hbt & Hb).
    unfold spells_infinity in H. cbv zeta in H. rewrite Hbt in H.
    unfold parse_unsigned. rewrite Hbt, Hb. cbv zeta. fold inf_bytes infinity_bytes. rewrite H.
    reflexivity.
Qed.

Lemma num_of_text_inf s n : num_of_text s = Inf n <-> dec_of_string s = Inf n.
Proof.
  unfold num_of_text. destruct (dec_of_string s) as [n0 c e|n0|].
  - destruct (is_decimal_text s); split; intros H; discriminate H.
  - reflexivity.
  - reflexivity.
Qed.

(* a text that is not a decimal numeral is not a finite number; it is an infinity exactly when
   it spells one, and then the sign is the written sign *)
Theorem toFloat_other_text : forall s,
  is_decimal_text s = false ->
  (num_of_text s = NaN \/ exists n, num_of_text s = Inf n) /\
  (forall n, num_of_text s = Inf n <-> spells_infinity s = true /\ n = starts_minus s).
Proof.
  intros s H. split.
  - unfold num_of_text. rewrite H. destruct (dec_of_string s) as [n0 c e|n0|].
    + left. reflexivity.
    + right. exists n0. reflexivity.
    + left. reflexivity.
  - intros n. rewrite num_of_text_inf. apply dec_of_string_inf_iff.
Qed.

(* the infinity clause holds of every text (a decimal numeral never spells infinity) *)
Theorem toFloat_infinity_iff : forall s n,
  num_of_text s = Inf n <-> spells_infinity s = true /\ n = starts_minus s.
Proof. intros s n. rewrite num_of_text_inf. apply dec_of_string_inf_iff. Qed.

(* so the result is finite exactly for the decimal numerals, and NaN for everything that is
   neither a numeral nor a spelling of infinity *)
Theorem toFloat_finite_iff : forall s,
  is_finite (num_of_text s) = true <-> decimal_text s.
Proof.
  intros s. rewrite <- is_decimal_text_spec. unfold num_of_text.
  destruct (dec_of_string s) as [n c e|n|] eqn:E.
  - destruct (is_decimal_text s); split; intros H; try reflexivity; discriminate H.
  - split; intros H; [discriminate H|].
    apply is_decimal_text_spec in H. destruct H as (neg & ip & fp & ev & H).
    rewrite (dec_of_string_numeric s neg ip fp ev H) in E. discriminate E.
  - split; intros H; [discriminate H|].
    apply is_decimal_text_spec in H. destruct H as (neg & ip & fp & ev & H).
    rewrite (dec_of_string_numeric s neg ip fp ev H) in E. discriminate E.
Qed.

Theorem toFloat_nan_iff : forall s,
  num_of_text s = NaN <-> is_decimal_text s = false /\ spells_infinity s = false.
Proof.
  intros s. split.
  - intros H. split.
    + destruct (is_decimal_text s) eqn:E; [|reflexivity].
      apply is_decimal_text_spec, toFloat_finite_iff in E. rewrite H in E. discriminate E.
    + destruct (spells_infinity s) eqn:E; [|reflexivity].
      assert (Hi : num_of_text s = Inf (starts_minus s)) by (apply toFloat_infinity_iff; split; [exact E|reflexivity]).
      rewrite H in Hi. discriminate Hi.
  - intros [Hd Hi]. destruct (toFloat_other_text s Hd) as [[Hn|[n Hn]] _]; [exact Hn|].
    apply toFloat_infinity_iff in Hn. destruct Hn as [Hn _]. rewrite Hi in Hn. discriminate Hn.
Qed.

(* ---------------------------------------------------------------------------------------- *)
(* B4: examples                                                                              *)
(* ---------------------------------------------------------------------------------------- *)

(* texts the decimal library's SetString reads as a number but the evaluator rejects, and other
   non-numerals *)
Example num_of_text_rejects :
  num_of_text (str ".") = NaN /\ num_of_text (str "1e") = NaN /\ num_of_text (str "1e+") = NaN /\
  num_of_text (str "+.e1") = NaN /\ num_of_text (str "") = NaN /\ num_of_text (str "-") = NaN /\
  num_of_text (str "e5") = NaN /\ num_of_text (str "0x10") = NaN /\ num_of_text (str "1_000") = NaN /\
  num_of_text (str " 5") = NaN /\ num_of_text (str "1.2.3") = NaN /\ num_of_text (str "--1") = NaN /\
  num_of_text (str "NaN") = NaN /\ num_of_text (str "infinit") = NaN.
Proof. repeat split. Qed.

(* what SetString alone makes of the first four *)
Example set_string_accepts :
  dec_of_string (str ".") = Fin false 0 0 /\ dec_of_string (str "1e") = Fin false 1 0 /\
  dec_of_string (str "1e+") = Fin false 1 0 /\ dec_of_string (str "+.e1") = Fin false 0 1.
Proof. repeat split. Qed.

Example num_of_text_accepts :
  num_of_text (str "5.") = Fin false 5 0 /\ num_of_text (str ".5") = Fin false 5 (-1) /\
  num_of_text (str "+5") = Fin false 5 0 /\ num_of_text (str "-12.50") = Fin true 1250 (-2) /\
  num_of_text (str "1E+20") = Fin false 1 20 /\ num_of_text (str "007") = Fin false 7 0 /\
  num_of_text (str "-0") = Fin true 0 0 /\ num_of_text (str "2.5e-3") = Fin false 25 (-4).
Proof. repeat split. Qed.

Example num_of_text_infinities :
  num_of_text (str "Inf") = Inf false /\ num_of_text (str "-infinity") = Inf true /\
  num_of_text (str "+INF") = Inf false /\ num_of_text (str "-InFiNiTy") = Inf true.
Proof. repeat split. Qed.

(* the decomposition of "-12.50e+3" *)
Example numeral_example :
  numeral (str "-12.50e+3") true (str "12") (str "50") 3 /\
  num_of_text (str "-12.50e+3") = Fin true 1250 1.
Proof.
  assert (H : numeral (str "-12.50e+3") true (str "12") (str "50") 3).
  { change (str "-12.50e+3") with ([45] ++ str "12" ++ (46 :: str "50") ++ (101 :: [43] ++ str "3")).
    change 3 with (if false then - dval (str "3") else dval (str "3")).
    constructor.
    - constructor.
    - intros b Hb. cbn in Hb. lia.
    - constructor. intros b Hb. cbn in Hb. lia.
    - discriminate.
    - apply (exp_present 101 [43] false (str "3")); [left; reflexivity|constructor| |discriminate].
      intros b Hb. cbn in Hb. lia. }
  split; [exact H|]. rewrite (toFloat_numeric _ _ _ _ _ H). reflexivity.
Qed.
