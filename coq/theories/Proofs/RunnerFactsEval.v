(* Shared infrastructure for the runner (C20) and field-analysis (C10) proofs:
   an induction principle for [sexpr] with [Forall] on list children, one-step unfolding
   lemmas for the nested fixpoint [eval], facts about [bytes_eqb], [assoc], [call_value],
   and a generic "every state change of an evaluation is an allowed one" lemma. *)
From Coq Require Import String List ZArith Lia Bool.
From Formula Require Import Sem.Eval.
Import ListNotations.
Local Open Scope Z_scope.

(* ---------- induction on trees ---------- *)

Section SexprInd.
Variable P : sexpr -> Prop.
Hypothesis HIdent : forall k v, P (SIdent k v).
Hypothesis HMissing : P SMissing.
Hypothesis HLit : forall k v, P (SLit k v).
Hypothesis HPrefix : forall op x, P x -> P (SPrefix op x).
Hypothesis HTypeof : forall x, P x -> P (STypeof x).
Hypothesis HBin : forall l op r, P l -> P r -> P (SBin l op r).
Hypothesis HCond : forall c t f, P c -> P t -> P f -> P (SCond c t f).
Hypothesis HArr : forall es, Forall P es -> P (SArr es).
Hypothesis HParen : forall x, P x -> P (SParen x).
Hypothesis HSel : forall x nk n a, P x -> P (SSel x nk n a).
Hypothesis HSelM : forall x a, P x -> P (SSelMissing x a).
Hypothesis HCall : forall f args sp, P f -> Forall P args -> P (SCall f args sp).

Fixpoint sexpr_ind2 (e : sexpr) : P e :=
  match e with
  | SIdent k v => HIdent k v
  | SMissing => HMissing
  | SLit k v => HLit k v
  | SPrefix op x => HPrefix op x (sexpr_ind2 x)
  | STypeof x => HTypeof x (sexpr_ind2 x)
  | SBin l op r => HBin l op r (sexpr_ind2 l) (sexpr_ind2 r)
  | SCond c t f => HCond c t f (sexpr_ind2 c) (sexpr_ind2 t) (sexpr_ind2 f)
  | SArr es =>
    HArr es ((fix go (l : list sexpr) : Forall P l :=
                match l with
                | [] => Forall_nil P
                | a :: t => Forall_cons a (sexpr_ind2 a) (go t)
                end) es)
  | SParen x => HParen x (sexpr_ind2 x)
  | SSel x nk n a => HSel x nk n a (sexpr_ind2 x)
  | SSelMissing x a => HSelM x a (sexpr_ind2 x)
  | SCall f args sp =>
    HCall f args sp (sexpr_ind2 f)
          ((fix go (l : list sexpr) : Forall P l :=
              match l with
              | [] => Forall_nil P
              | a :: t => Forall_cons a (sexpr_ind2 a) (go t)
              end) args)
  end.
End SexprInd.

(* ---------- byte strings and association lists ---------- *)

Lemma bytes_eqb_refl : forall a, bytes_eqb a a = true.
Proof.
  induction a as [|x a IH]; cbn [bytes_eqb]; [reflexivity|].
  rewrite Z.eqb_refl, IH. reflexivity.
Qed.

Lemma bytes_eqb_eq : forall a b, bytes_eqb a b = true <-> a = b.
Proof.
  induction a as [|x a IH]; intros [|y b]; cbn [bytes_eqb]; split; intros H;
    try reflexivity; try discriminate H.
  - apply andb_true_iff in H. destruct H as [H1 H2].
    apply Z.eqb_eq in H1. apply IH in H2. subst. reflexivity.
  - injection H as H1 H2. subst. rewrite Z.eqb_refl. cbn [andb]. apply bytes_eqb_refl.
Qed.

Lemma bytes_eqb_neq : forall a b, bytes_eqb a b = false <-> a <> b.
Proof.
  intros a b. split.
  - intros H E. apply bytes_eqb_eq in E. rewrite E in H. discriminate H.
  - intros H. destruct (bytes_eqb a b) eqn:E; [|reflexivity].
    apply bytes_eqb_eq in E. contradiction.
Qed.

Lemma bytes_eqb_sym : forall a b, bytes_eqb a b = bytes_eqb b a.
Proof.
  intros a b. destruct (bytes_eqb a b) eqn:E.
  - apply bytes_eqb_eq in E. subst. symmetry. apply bytes_eqb_refl.
  - symmetry. apply bytes_eqb_neq. apply bytes_eqb_neq in E. congruence.
Qed.

Lemma existsb_bytes_In : forall a l, existsb (bytes_eqb a) l = true <-> In a l.
Proof.
  intros a l. rewrite existsb_exists. split.
  - intros [x [Hx E]]. apply bytes_eqb_eq in E. subst. exact Hx.
  - intros H. exists a. split; [exact H | apply bytes_eqb_refl].
Qed.

Lemma assoc_set_same : forall k v m, assoc k (assoc_set k v m) = Some v.
Proof.
  intros k v m. induction m as [|[k' v'] m IH]; cbn [assoc_set assoc].
  - rewrite bytes_eqb_refl. reflexivity.
  - destruct (bytes_eqb k k') eqn:E; cbn [assoc].
    + rewrite bytes_eqb_refl. reflexivity.
    + rewrite E. exact IH.
Qed.

Lemma assoc_set_other : forall k k' v m, k' <> k -> assoc k' (assoc_set k v m) = assoc k' m.
Proof.
  intros k k' v m Hne. induction m as [|[k2 v2] m IH]; cbn [assoc_set assoc].
  - assert (E : bytes_eqb k' k = false) by (apply bytes_eqb_neq; exact Hne).
    rewrite E. reflexivity.
  - destruct (bytes_eqb k k2) eqn:E; cbn [assoc].
    + apply bytes_eqb_eq in E. subst k2.
      assert (E : bytes_eqb k' k = false) by (apply bytes_eqb_neq; exact Hne).
      rewrite E. reflexivity.
    + destruct (bytes_eqb k' k2); [reflexivity | exact IH].
Qed.

Lemma starts_dollar_not_builtin : forall n,
  starts_dollar n = true -> existsb (bytes_eqb n) builtin_names = false.
Proof.
  intros n H. destruct (existsb (bytes_eqb n) builtin_names) eqn:E; [|reflexivity].
  apply existsb_bytes_In in E.
  assert (A : forallb (fun b => negb (starts_dollar b)) builtin_names = true) by (vm_compute; reflexivity).
  rewrite forallb_forall in A. specialize (A n E). rewrite H in A. discriminate A.
Qed.

(* value of a name in a data map held by value; an unset map reads like an empty one *)
Definition data_get (n : list Z) (d : option (list (list Z * value))) : value :=
  match d with
  | Some m => match assoc n m with Some v => v | None => VNull end
  | None => VNull
  end.

Lemma lookup_ident_data : forall x st,
  existsb (bytes_eqb x) builtin_names = false -> lookup_ident x st = data_get x (r_this st).
Proof. intros x st H. unfold lookup_ident, data_get. rewrite H. reflexivity. Qed.

Lemma data_get_set_other : forall a k v d,
  k <> a -> data_get a (Some (assoc_set k v (match d with Some m => m | None => [] end))) = data_get a d.
Proof.
  intros a k v d Hne. unfold data_get at 1. rewrite assoc_set_other by congruence.
  destruct d as [m|]; reflexivity.
Qed.

Lemma data_get_set_same : forall a v d,
  data_get a (Some (assoc_set a v (match d with Some m => m | None => [] end))) = v.
Proof. intros a v d. unfold data_get. rewrite assoc_set_same. reflexivity. Qed.

(* ---------- one-step unfolding of eval ---------- *)

Section EvalU.
Variable hosts : list (Z * hostfn).
Variable off : Z.

Definition fmt (r : outcome value * rstate) : outcome value * rstate :=
  match r with (Ok v, s) => (Ok (format_input v), s) | _ => r end.

Fixpoint eval_list (l : list sexpr) (st : rstate) : outcome (list value) * rstate :=
  match l with
  | [] => (Ok [], st)
  | a :: t =>
    match eval hosts off a st with
    | (Ok v, st1) =>
      match eval_list t st1 with
      | (Ok vs, st2) => (Ok (v :: vs), st2)
      | (Err, st2) => (Err, st2)
      | (Panic, st2) => (Panic, st2)
      | (Unk, st2) => (Unk, st2)
      end
    | (Err, st1) => (Err, st1)
    | (Panic, st1) => (Panic, st1)
    | (Unk, st1) => (Unk, st1)
    end
  end.

Definition lit_value (k : kind) (v : list Z) (st : rstate) : outcome value :=
  match k with
  | KTrue => Ok (VBool true)
  | KFalse => Ok (VBool false)
  | KNull => Ok VNull
  | KThis => Ok (VMap (match r_this st with Some m => m | None => [] end))
  | KCtx => Ok VCtx
  | KNumber => match v with [] => Err | _ => Ok (VNum (dec_of_string v)) end
  | KString => Ok (VStr v)
  | _ => Err
  end.

Definition typeof_str (v : value) : list Z :=
  match v with
  | VBool _ => str "boolean"%string | VStr _ => str "string"%string | VNum _ => str "number"%string
  | _ => str "object"%string end.

Definition sel_value (v : value) (name : list Z) : outcome value :=
  match v with
  | VMap m => Ok (match assoc name m with Some x => (if is_null x then VNull else x) | None => VNull end)
  | VTime _ => Panic
  | VOpaque _ => Unk
  | VStruct _ fs => match assoc name fs with Some x => Ok (if is_null x then VNull else x) | None => Panic end
  | _ => Ok VNull
  end.

Lemma eval_SIdent : forall k n st, eval hosts off (SIdent k n) st = fmt (Ok (lookup_ident n st), st).
Proof. reflexivity. Qed.

Lemma eval_SMissing : forall st, eval hosts off SMissing st = fmt (Ok (lookup_ident [] st), st).
Proof. reflexivity. Qed.

Lemma eval_SLit : forall k v st, eval hosts off (SLit k v) st = fmt (lit_value k v st, st).
Proof. intros k v st. destruct k; reflexivity. Qed.

Lemma eval_SPrefix : forall op a st,
  eval hosts off (SPrefix op a) st =
  fmt (match eval hosts off a st with (Ok v, st1) => (unary_op op v, st1) | r => r end).
Proof. reflexivity. Qed.

Lemma eval_STypeof : forall a st,
  eval hosts off (STypeof a) st =
  fmt (match eval hosts off a st with (Ok v, st1) => (Ok (VStr (typeof_str v)), st1) | r => r end).
Proof. reflexivity. Qed.

Lemma eval_SBin : forall l op r st,
  eval hosts off (SBin l op r) st =
  fmt (if kind_eqb op KEquals then
         match l with
         | SIdent _ name =>
           if starts_dollar name then
             match eval hosts off r st with
             | (Ok v, st1) => (Ok v, set_this_value name v st1)
             | x => x
             end
           else (Err, st)
         | _ => (Err, st)
         end
       else
         match eval hosts off l st with
         | (Ok v1, st1) =>
           match eval hosts off r st1 with
           | (Ok v2, st2) => (binary_op op v1 v2, st2)
           | x => x
           end
         | x => x
         end).
Proof. reflexivity. Qed.

Lemma eval_SCond : forall c t f st,
  eval hosts off (SCond c t f) st =
  fmt (match eval hosts off c st with
       | (Ok v, st1) => if truthy v then eval hosts off t st1 else eval hosts off f st1
       | x => x
       end).
Proof. reflexivity. Qed.

Lemma eval_SArr : forall es st,
  eval hosts off (SArr es) st =
  fmt (match eval_list es st with
       | (Ok vs, st1) => (Ok (VArr vs), st1)
       | (Err, st1) => (Err, st1)
       | (Panic, st1) => (Panic, st1)
       | (Unk, st1) => (Unk, st1)
       end).
Proof. reflexivity. Qed.

Lemma eval_SParen : forall a st, eval hosts off (SParen a) st = fmt (eval hosts off a st).
Proof. reflexivity. Qed.

Lemma eval_SSel : forall a nk name asrt st,
  eval hosts off (SSel a nk name asrt) st =
  fmt (match eval hosts off a st with
       | (Ok v, st1) => if is_null v && asrt then (Err, st1) else (sel_value v name, st1)
       | x => x
       end).
Proof. reflexivity. Qed.

Lemma eval_SSelMissing : forall a asrt st,
  eval hosts off (SSelMissing a asrt) st = fmt (eval hosts off a st).
Proof. reflexivity. Qed.

Lemma eval_SCall : forall f args sp st,
  eval hosts off (SCall f args sp) st =
  fmt (match eval hosts off f st with
       | (Ok fv, st1) =>
         if negb (is_name_path f) then (Err, st1)
         else
           match eval_list args st1 with
           | (Ok vs, st2) => call_value hosts off fv vs sp st2
           | (Err, st2) => (Err, st2)
           | (Panic, st2) => (Panic, st2)
           | (Unk, st2) => (Unk, st2)
           end
       | x => x
       end).
Proof. reflexivity. Qed.

Lemma fmt_snd : forall r, snd (fmt r) = snd r.
Proof. intros [[v| | |] s]; reflexivity. Qed.

End EvalU.

(* ---------- host/builtin calls leave the data map alone; generic state invariant ---------- *)

Definition assign_target (l : sexpr) (op : kind) : list (list Z) :=
  match l with
  | SIdent _ n => if kind_eqb op KEquals && starts_dollar n then [n] else []
  | _ => []
  end.

(* the locals a formula may assign *)
Fixpoint assigns (e : sexpr) : list (list Z) :=
  match e with
  | SIdent _ _ | SMissing | SLit _ _ => []
  | SPrefix _ a | STypeof a | SParen a | SSel a _ _ _ | SSelMissing a _ => assigns a
  | SBin l op r => assign_target l op ++ assigns l ++ assigns r
  | SCond c t f => assigns c ++ assigns t ++ assigns f
  | SArr es => flat_map assigns es
  | SCall f args _ => assigns f ++ flat_map assigns args
  end.

Section EvalInv.
Variable hosts : list (Z * hostfn).
Variable off : Z.
Lemma call_value_frame : forall f args sp this1 this2 tr,
  fst (call_value hosts off f args sp (mkR this1 tr)) = fst (call_value hosts off f args sp (mkR this2 tr)) /\
  r_trace (snd (call_value hosts off f args sp (mkR this1 tr))) = r_trace (snd (call_value hosts off f args sp (mkR this2 tr))) /\
  r_this (snd (call_value hosts off f args sp (mkR this1 tr))) = this1.
Proof.
  intros f args sp this1 this2 tr. unfold call_value. cbv zeta beta.
  destruct f; try (cbn; auto; fail).
  - destruct (host_lookup id hosts) as [h|]; [|cbn; auto].
    repeat match goal with
    | |- context [if ?c then _ else _] => destruct c
    | |- context [match conv_args ?a ?b ?c with _ => _ end] => destruct (conv_args a b c)
    | |- context [match last ?a ?b with _ => _ end] => destruct (last a b)
    end; cbn; auto.
  - destruct (builtin_sig name) as [sg|]; [|cbn; auto].
    repeat match goal with
    | |- context [if ?c then _ else _] => destruct c
    | |- context [match conv_args ?a ?b ?c with _ => _ end] => destruct (conv_args a b c)
    | |- context [match last ?a ?b with _ => _ end] => destruct (last a b)
    end; cbn; auto.
Qed.

Lemma call_value_this : forall f args sp st,
  r_this (snd (call_value hosts off f args sp st)) = r_this st.
Proof.
  intros f args sp [this tr]. cbn [r_this].
  exact (proj2 (proj2 (call_value_frame f args sp this this tr))).
Qed.

Lemma call_value_agree : forall f args sp st1 st2,
  r_trace st1 = r_trace st2 ->
  fst (call_value hosts off f args sp st1) = fst (call_value hosts off f args sp st2) /\
  r_trace (snd (call_value hosts off f args sp st1)) = r_trace (snd (call_value hosts off f args sp st2)).
Proof.
  intros f args sp [this1 tr1] [this2 tr2] H. cbn [r_trace] in H. subst tr2.
  destruct (call_value_frame f args sp this1 this2 tr1) as [A [B _]]. split; assumption.
Qed.

Section Inv.
Variable R : rstate -> rstate -> Prop.
Variable allowed : list Z -> Prop.
Hypothesis Rrefl : forall st, R st st.
Hypothesis Rtrans : forall a b c, R a b -> R b c -> R a c.
Hypothesis Rtrace : forall this tr tr', R (mkR this tr) (mkR this tr').
Hypothesis Rset : forall n v st, allowed n -> R st (set_this_value n v st).

Definition inv_at (e : sexpr) : Prop :=
  (forall n, In n (assigns e) -> allowed n) -> forall st, R st (snd (eval hosts off e st)).

Lemma R_call : forall f args sp st, R st (snd (call_value hosts off f args sp st)).
Proof.
  intros f args sp st. pose proof (call_value_this f args sp st) as H.
  destruct (snd (call_value hosts off f args sp st)) as [this' tr'].
  cbn [r_this] in H. subst this'. destruct st as [this tr]. cbn [r_this]. apply Rtrace.
Qed.

Lemma eval_list_inv : forall es, Forall inv_at es ->
  (forall n, In n (flat_map assigns es) -> allowed n) ->
  forall st, R st (snd (eval_list hosts off es st)).
Proof.
  intros es HF. induction HF as [|a t Ha Ht IH]; intros Hall st; cbn [eval_list].
  - apply Rrefl.
  - assert (Ha' : forall n, In n (assigns a) -> allowed n).
    { intros n Hn. apply Hall. cbn [flat_map]. apply in_or_app. left. exact Hn. }
    assert (Ht' : forall n, In n (flat_map assigns t) -> allowed n).
    { intros n Hn. apply Hall. cbn [flat_map]. apply in_or_app. right. exact Hn. }
    pose proof (Ha Ha' st) as H1.
    destruct (eval hosts off a st) as [[v| | |] st1]; cbn [snd] in H1 |- *; try exact H1.
    pose proof (IH Ht' st1) as H2.
    destruct (eval_list hosts off t st1) as [[vs| | |] st2]; cbn [snd] in H2 |- *;
      exact (Rtrans _ _ _ H1 H2).
Qed.

Lemma eval_inv : forall e, inv_at e.
Proof.
  induction e as [k v| |k v|op x IH|x IH|l op r IHl IHr|c t f IHc IHt IHf|es IH|x IH
                  |x nk n a IH|x a IH|f args sp IHf IHargs] using sexpr_ind2;
    unfold inv_at; intros Hall st.
  - rewrite eval_SIdent, fmt_snd. apply Rrefl.
  - rewrite eval_SMissing, fmt_snd. apply Rrefl.
  - rewrite eval_SLit, fmt_snd. apply Rrefl.
  - rewrite eval_SPrefix, fmt_snd. pose proof (IH Hall st) as H.
    destruct (eval hosts off x st) as [[v| | |] st1]; exact H.
  - rewrite eval_STypeof, fmt_snd. pose proof (IH Hall st) as H.
    destruct (eval hosts off x st) as [[v| | |] st1]; exact H.
  - rewrite eval_SBin, fmt_snd. cbn [assigns] in Hall.
    assert (Hl : forall n, In n (assigns l) -> allowed n).
    { intros n Hn. apply Hall. apply in_or_app. right. apply in_or_app. left. exact Hn. }
    assert (Hr : forall n, In n (assigns r) -> allowed n).
    { intros n Hn. apply Hall. apply in_or_app. right. apply in_or_app. right. exact Hn. }
    destruct (kind_eqb op KEquals) eqn:Eop.
    + destruct l; try apply Rrefl.
      destruct (starts_dollar v) eqn:Ed; [|apply Rrefl].
      pose proof (IHr Hr st) as H.
      destruct (eval hosts off r st) as [[w| | |] st1]; cbn [snd] in H |- *; try exact H.
      apply Rtrans with st1; [exact H|]. apply Rset. apply Hall. apply in_or_app. left.
      unfold assign_target. rewrite Eop, Ed. cbn. left. reflexivity.
    + pose proof (IHl Hl st) as H1.
      destruct (eval hosts off l st) as [[v1| | |] st1]; cbn [snd] in H1 |- *; try exact H1.
      pose proof (IHr Hr st1) as H2.
      destruct (eval hosts off r st1) as [[v2| | |] st2]; cbn [snd] in H2 |- *;
        exact (Rtrans _ _ _ H1 H2).
  - rewrite eval_SCond, fmt_snd. cbn [assigns] in Hall.
    assert (Hc : forall n, In n (assigns c) -> allowed n).
    { intros n Hn. apply Hall. apply in_or_app. left. exact Hn. }
    assert (Ht : forall n, In n (assigns t) -> allowed n).
    { intros n Hn. apply Hall. apply in_or_app. right. apply in_or_app. left. exact Hn. }
    assert (Hf : forall n, In n (assigns f) -> allowed n).
    { intros n Hn. apply Hall. apply in_or_app. right. apply in_or_app. right. exact Hn. }
    pose proof (IHc Hc st) as H1.
    destruct (eval hosts off c st) as [[v| | |] st1]; cbn [snd] in H1 |- *; try exact H1.
    destruct (truthy v).
    + exact (Rtrans _ _ _ H1 (IHt Ht st1)).
    + exact (Rtrans _ _ _ H1 (IHf Hf st1)).
  - rewrite eval_SArr, fmt_snd. cbn [assigns] in Hall.
    pose proof (eval_list_inv es IH Hall st) as H.
    destruct (eval_list hosts off es st) as [[vs| | |] st1]; exact H.
  - rewrite eval_SParen, fmt_snd. exact (IH Hall st).
  - rewrite eval_SSel, fmt_snd. pose proof (IH Hall st) as H.
    destruct (eval hosts off x st) as [[v| | |] st1]; cbn [snd] in H |- *; try exact H.
    destruct (is_null v && a); exact H.
  - rewrite eval_SSelMissing, fmt_snd. exact (IH Hall st).
  - rewrite eval_SCall, fmt_snd. cbn [assigns] in Hall.
    assert (Hf : forall n, In n (assigns f) -> allowed n).
    { intros n Hn. apply Hall. apply in_or_app. left. exact Hn. }
    assert (Ha : forall n, In n (flat_map assigns args) -> allowed n).
    { intros n Hn. apply Hall. apply in_or_app. right. exact Hn. }
    pose proof (IHf Hf st) as H1.
    destruct (eval hosts off f st) as [[fv| | |] st1]; cbn [snd] in H1 |- *; try exact H1.
    destruct (negb (is_name_path f)); [exact H1|].
    pose proof (eval_list_inv args IHargs Ha st1) as H2.
    destruct (eval_list hosts off args st1) as [[vs| | |] st2]; cbn [snd] in H2 |- *;
      try exact (Rtrans _ _ _ H1 H2).
    exact (Rtrans _ _ _ H1 (Rtrans _ _ _ H2 (R_call fv vs sp st2))).
Qed.
End Inv.
End EvalInv.
