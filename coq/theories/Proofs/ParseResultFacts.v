From Formula Require Import Syn.Parser Proofs.ParserTotalSource.

Lemma tree_xor_error : forall text,
  (exists e, parse_source text = Accepted e) \/ (exists d ds e, parse_source text = Rejected d ds e).
Proof.
  intros text. pose proof (parse_source_total text) as H.
  destruct (parse_source text) as [e|d ds e|].
  - left. exists e. reflexivity.
  - right. exists d, ds, e. reflexivity.
  - exfalso. apply H. reflexivity.
Qed.

Lemma not_both : forall text e d ds e', parse_source text = Accepted e -> parse_source text <> Rejected d ds e'.
Proof. intros text e d ds e' H1 H2. rewrite H1 in H2. discriminate. Qed.
