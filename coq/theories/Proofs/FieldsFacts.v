(* C10: the referenced-field analysis (Sem/Fields.v) is exact and sufficient. *)
From Coq Require Import String List ZArith Lia Bool.
From Formula Require Import Sem.Eval Sem.Fields Proofs.RunnerFactsEval.
Import ListNotations.
Local Open Scope Z_scope.

(* ================= specification ================= *)

(* the source text of a name or dotted path: `a`, `a.b`, `a.b.c`, ... (a missing name is empty) *)
Inductive PathText : sexpr -> list Z -> Prop :=
| PT_ident : forall k n, PathText (SIdent k n) n
| PT_missing : PathText SMissing []
| PT_sel : forall a k n b s, PathText a s -> PathText (SSel a k n b) (s ++ 46 :: n)
| PT_selm : forall a b s, PathText a s -> PathText (SSelMissing a b) (s ++ [46]).

(* "path p is read as a value by e".  A name or dotted path in value position is read as ONE
   entry, its whole text: there is no rule descending into the base of a member access, so the
   prefixes `a`, `a.b` of `a.b.c` are not read.  There is no rule for the callee of a call. *)
Inductive Reads : sexpr -> list Z -> Prop :=
| Rd_path : forall e s, PathText e s -> Reads e s
| Rd_prefix : forall op a p, Reads a p -> Reads (SPrefix op a) p
| Rd_typeof : forall a p, Reads a p -> Reads (STypeof a) p
| Rd_bin_l : forall l op r p, Reads l p -> Reads (SBin l op r) p
| Rd_bin_r : forall l op r p, Reads r p -> Reads (SBin l op r) p
| Rd_cond_c : forall c t f p, Reads c p -> Reads (SCond c t f) p
| Rd_cond_t : forall c t f p, Reads t p -> Reads (SCond c t f) p
| Rd_cond_f : forall c t f p, Reads f p -> Reads (SCond c t f) p
| Rd_arr : forall es a p, In a es -> Reads a p -> Reads (SArr es) p
| Rd_paren : forall a p, Reads a p -> Reads (SParen a) p
| Rd_arg : forall f args sp a p, In a args -> Reads a p -> Reads (SCall f args sp) p.

(* a member access in value position whose base is neither a name nor a dotted path *)
Fixpoint has_bad_selector (e : sexpr) : bool :=
  match e with
  | SIdent _ _ | SMissing | SLit _ _ => false
  | SPrefix _ a | STypeof a | SParen a => has_bad_selector a
  | SBin l _ r => has_bad_selector l || has_bad_selector r
  | SCond c t f => has_bad_selector c || has_bad_selector t || has_bad_selector f
  | SArr es => existsb has_bad_selector es
  | SSel a _ _ _ | SSelMissing a _ => negb (is_name_path a)
  | SCall _ args _ => existsb has_bad_selector args
  end.

(* ================= unfolding fields_raw ================= *)

Fixpoint fields_all (l : list sexpr) : option (list (list Z)) :=
  match l with
  | [] => Some []
  | a :: t => match fields_raw a with
              | Some x => match fields_all t with Some y => Some (x ++ y) | None => None end
              | None => None
              end
  end.

Lemma fields_raw_SCond : forall c t f, fields_raw (SCond c t f) = fields_all [c; t; f].
Proof. reflexivity. Qed.
Lemma fields_raw_SArr : forall es, fields_raw (SArr es) = fields_all es.
Proof. reflexivity. Qed.
Lemma fields_raw_SCall : forall f args sp, fields_raw (SCall f args sp) = fields_all args.
Proof. reflexivity. Qed.
Lemma fields_raw_SBin : forall l op r,
  fields_raw (SBin l op r) =
  match fields_raw l with
  | Some x => match fields_raw r with Some y => Some (x ++ y) | None => None end
  | None => None
  end.
Proof. reflexivity. Qed.
Lemma fields_raw_sel : forall e,
  match e with SSel _ _ _ _ | SSelMissing _ _ => True | _ => False end ->
  fields_raw e = match sel_names e with Some l => Some [join_dot l] | None => None end.
Proof. intros e H. destruct e; try contradiction; reflexivity. Qed.

(* ================= dotted paths ================= *)

Lemma sel_names_nonempty : forall e l, sel_names e = Some l -> l <> [].
Proof.
  intros e l H. destruct e; cbn [sel_names] in H; try discriminate H.
  - injection H as H. subst l. discriminate.
  - injection H as H. subst l. discriminate.
  - destruct (sel_names e) as [l0|]; [|discriminate H]. injection H as H. subst l.
    destruct l0; discriminate.
  - destruct (sel_names e) as [l0|]; [|discriminate H]. injection H as H. subst l.
    destruct l0; discriminate.
Qed.

Lemma join_dot_snoc : forall l n, l <> [] -> join_dot (l ++ [n]) = join_dot l ++ 46 :: n.
Proof.
  induction l as [|a t IH]; intros n Hne; [contradiction|].
  destruct t as [|b t'].
  - reflexivity.
  - change (join_dot ((a :: b :: t') ++ [n])) with (a ++ 46 :: join_dot ((b :: t') ++ [n])).
    rewrite IH by discriminate.
    change (join_dot (a :: b :: t')) with (a ++ 46 :: join_dot (b :: t')).
    rewrite <- app_assoc. reflexivity.
Qed.

Lemma sel_names_text : forall e l, sel_names e = Some l -> PathText e (join_dot l).
Proof.
  induction e; intros l H; cbn [sel_names] in H; try discriminate H.
  - injection H as H. subst l. apply PT_ident.
  - injection H as H. subst l. apply PT_missing.
  - destruct (sel_names e) as [l0|] eqn:E; [|discriminate H]. injection H as H. subst l.
    rewrite join_dot_snoc by (eapply sel_names_nonempty; exact E).
    apply PT_sel. apply IHe. reflexivity.
  - destruct (sel_names e) as [l0|] eqn:E; [|discriminate H]. injection H as H. subst l.
    rewrite join_dot_snoc by (eapply sel_names_nonempty; exact E).
    apply PT_selm. apply IHe. reflexivity.
Qed.

Lemma text_sel_names : forall e s, PathText e s -> exists l, sel_names e = Some l /\ s = join_dot l.
Proof.
  intros e s H. induction H as [k n| |a k n b s H IH|a b s H IH].
  - exists [n]. split; reflexivity.
  - exists [[]]. split; reflexivity.
  - destruct IH as [l [E1 E2]]. exists (l ++ [n]). cbn [sel_names]. rewrite E1. split; [reflexivity|].
    rewrite join_dot_snoc by (eapply sel_names_nonempty; exact E1). subst s. reflexivity.
  - destruct IH as [l [E1 E2]]. exists (l ++ [[]]). cbn [sel_names]. rewrite E1. split; [reflexivity|].
    rewrite join_dot_snoc by (eapply sel_names_nonempty; exact E1). subst s. reflexivity.
Qed.

Lemma sel_names_none : forall e, sel_names e = None <-> is_name_path e = false.
Proof.
  induction e; cbn [sel_names is_name_path]; try (split; [reflexivity|reflexivity]);
    try (split; intros H; discriminate H).
  - destruct (sel_names e) as [l|].
    + split; [intros H; discriminate H|]. intros H. apply IHe in H. discriminate H.
    + split; [intros _; apply IHe; reflexivity | reflexivity].
  - destruct (sel_names e) as [l|].
    + split; [intros H; discriminate H|]. intros H. apply IHe in H. discriminate H.
    + split; [intros _; apply IHe; reflexivity | reflexivity].
Qed.

(* ================= the walker computes Reads ================= *)

Ltac inv_reads H :=
  inversion H; subst;
  try match goal with HP : PathText _ _ |- _ => inversion HP; subst end.

Definition exact_at (e : sexpr) : Prop :=
  forall l, fields_raw e = Some l -> forall p, In p l <-> Reads e p.

Lemma fields_all_reads : forall es, Forall exact_at es ->
  forall l, fields_all es = Some l -> forall p, In p l <-> exists a, In a es /\ Reads a p.
Proof.
  intros es HF. induction HF as [|a t Ha Ht IH]; intros l H p; cbn [fields_all] in H.
  - injection H as H. subst l. split; [intros []|]. intros [a [[] _]].
  - destruct (fields_raw a) as [x|] eqn:Ex; [|discriminate H].
    destruct (fields_all t) as [y|] eqn:Ey; [|discriminate H].
    injection H as H. subst l. rewrite in_app_iff. rewrite (Ha x Ex p). rewrite (IH y eq_refl p).
    split.
    + intros [H|[b [Hb Hr]]].
      * exists a. split; [left; reflexivity | exact H].
      * exists b. split; [right; exact Hb | exact Hr].
    + intros [b [[Hb|Hb] Hr]].
      * subst b. left. exact Hr.
      * right. exists b. split; assumption.
Qed.

Lemma fields_raw_reads : forall e, exact_at e.
Proof.
  induction e as [k v| |k v|op x IH|x IH|l op r IHl IHr|c t f IHc IHt IHf|es IH|x IH
                  |x nk n a IH|x a IH|f args sp IHf IHargs] using sexpr_ind2;
    unfold exact_at; intros fl H p.
  - cbn [fields_raw] in H. injection H as H. subst fl. split.
    + intros [E|[]]. subst p. apply Rd_path, PT_ident.
    + intros Hr. inv_reads Hr. left. reflexivity.
  - cbn [fields_raw] in H. injection H as H. subst fl. split.
    + intros [E|[]]. subst p. apply Rd_path, PT_missing.
    + intros Hr. inv_reads Hr. left. reflexivity.
  - cbn [fields_raw] in H. injection H as H. subst fl. split; [intros []|].
    intros Hr. inv_reads Hr.
  - change (fields_raw (SPrefix op x)) with (fields_raw x) in H. rewrite (IH fl H p). split.
    + apply Rd_prefix.
    + intros Hr. inv_reads Hr. assumption.
  - change (fields_raw (STypeof x)) with (fields_raw x) in H. rewrite (IH fl H p). split.
    + apply Rd_typeof.
    + intros Hr. inv_reads Hr. assumption.
  - rewrite fields_raw_SBin in H.
    destruct (fields_raw l) as [xl|] eqn:El; [|discriminate H].
    destruct (fields_raw r) as [xr|] eqn:Er; [|discriminate H].
    injection H as H. subst fl. rewrite in_app_iff, (IHl xl El p), (IHr xr Er p). split.
    + intros [Hr|Hr]; [apply Rd_bin_l | apply Rd_bin_r]; exact Hr.
    + intros Hr. inv_reads Hr; [left | right]; assumption.
  - rewrite fields_raw_SCond in H.
    assert (HF : Forall exact_at [c; t; f]) by (constructor; [exact IHc | constructor; [exact IHt | constructor; [exact IHf | constructor]]]).
    rewrite (fields_all_reads _ HF fl H p). split.
    + intros [a [[E|[E|[E|[]]]] Hr]]; subst a;
        [apply Rd_cond_c | apply Rd_cond_t | apply Rd_cond_f]; exact Hr.
    + intros Hr. inv_reads Hr.
      * exists c. split; [left; reflexivity | assumption].
      * exists t. split; [right; left; reflexivity | assumption].
      * exists f. split; [right; right; left; reflexivity | assumption].
  - rewrite fields_raw_SArr in H. rewrite (fields_all_reads _ IH fl H p). split.
    + intros [a [Ha Hr]]. exact (Rd_arr es a p Ha Hr).
    + intros Hr. inv_reads Hr. eexists. split; eassumption.
  - change (fields_raw (SParen x)) with (fields_raw x) in H. rewrite (IH fl H p). split.
    + apply Rd_paren.
    + intros Hr. inv_reads Hr. assumption.
  - rewrite (fields_raw_sel (SSel x nk n a) I) in H.
    destruct (sel_names (SSel x nk n a)) as [ns|] eqn:Es; [|discriminate H].
    injection H as H. subst fl. split.
    + intros [E|[]]. subst p. apply Rd_path. apply sel_names_text. exact Es.
    + intros Hr. inversion Hr as [e0 s0 HP| | | | | | | | | |]; subst.
      destruct (text_sel_names _ _ HP) as [l' [E1 E2]]. rewrite Es in E1. injection E1 as E1.
      subst l' p. left. reflexivity.
  - rewrite (fields_raw_sel (SSelMissing x a) I) in H.
    destruct (sel_names (SSelMissing x a)) as [ns|] eqn:Es; [|discriminate H].
    injection H as H. subst fl. split.
    + intros [E|[]]. subst p. apply Rd_path. apply sel_names_text. exact Es.
    + intros Hr. inversion Hr as [e0 s0 HP| | | | | | | | | |]; subst.
      destruct (text_sel_names _ _ HP) as [l' [E1 E2]]. rewrite Es in E1. injection E1 as E1.
      subst l' p. left. reflexivity.
  - rewrite fields_raw_SCall in H. rewrite (fields_all_reads _ IHargs fl H p). split.
    + intros [a [Ha Hr]]. exact (Rd_arg f args sp a p Ha Hr).
    + intros Hr. inv_reads Hr. eexists. split; eassumption.
Qed.

(* ================= refusal ================= *)

Definition refuse_at (e : sexpr) : Prop := fields_raw e = None <-> has_bad_selector e = true.

Lemma fields_all_none : forall es, Forall refuse_at es ->
  (fields_all es = None <-> existsb has_bad_selector es = true).
Proof.
  intros es HF. induction HF as [|a t Ha Ht IH]; cbn [fields_all existsb].
  - split; intros H; discriminate H.
  - unfold refuse_at in Ha. rewrite orb_true_iff, <- Ha, <- IH.
    destruct (fields_raw a) as [x|]; destruct (fields_all t) as [y|]; split; intros H;
      try reflexivity; try discriminate H; try (destruct H as [H|H]; discriminate H);
      try (left; reflexivity); try (right; reflexivity).
Qed.

Lemma fields_raw_none : forall e, refuse_at e.
Proof.
  induction e as [k v| |k v|op x IH|x IH|l op r IHl IHr|c t f IHc IHt IHf|es IH|x IH
                  |x nk n a IH|x a IH|f args sp IHf IHargs] using sexpr_ind2;
    unfold refuse_at.
  - cbn. split; intros H; discriminate H.
  - cbn. split; intros H; discriminate H.
  - cbn. split; intros H; discriminate H.
  - exact IH.
  - exact IH.
  - rewrite fields_raw_SBin. cbn [has_bad_selector]. unfold refuse_at in IHl, IHr.
    rewrite orb_true_iff, <- IHl, <- IHr.
    destruct (fields_raw l) as [xl|]; destruct (fields_raw r) as [xr|]; split; intros H;
      try reflexivity; try discriminate H; try (destruct H as [H|H]; discriminate H);
      try (left; reflexivity); try (right; reflexivity).
  - rewrite fields_raw_SCond. cbn [has_bad_selector].
    assert (HF : Forall refuse_at [c; t; f]) by (constructor; [exact IHc | constructor; [exact IHt | constructor; [exact IHf | constructor]]]).
    rewrite (fields_all_none _ HF). cbn [existsb]. rewrite orb_false_r, orb_assoc. reflexivity.
  - rewrite fields_raw_SArr. cbn [has_bad_selector]. exact (fields_all_none _ IH).
  - exact IH.
  - rewrite (fields_raw_sel (SSel x nk n a) I). cbn [has_bad_selector sel_names].
    rewrite negb_true_iff, <- sel_names_none.
    destruct (sel_names x) as [l|]; split; intros H; try reflexivity; discriminate H.
  - rewrite (fields_raw_sel (SSelMissing x a) I). cbn [has_bad_selector sel_names].
    rewrite negb_true_iff, <- sel_names_none.
    destruct (sel_names x) as [l|]; split; intros H; try reflexivity; discriminate H.
  - rewrite fields_raw_SCall. cbn [has_bad_selector]. exact (fields_all_none _ IHargs).
Qed.

(* ================= duplicates ================= *)

Lemma dedup_In : forall l p, In p (dedup l) <-> In p l.
Proof.
  induction l as [|a t IH]; intros p; cbn [dedup]; [reflexivity|].
  destruct (existsb (bytes_eqb a) t) eqn:E.
  - rewrite IH. split; [intros H; right; exact H|].
    intros [H|H]; [|exact H]. subst p. exact (proj1 (existsb_bytes_In a t) E).
  - cbn [In]. rewrite IH. reflexivity.
Qed.

Lemma dedup_NoDup : forall l, NoDup (dedup l).
Proof.
  induction l as [|a t IH]; cbn [dedup]; [constructor|].
  destruct (existsb (bytes_eqb a) t) eqn:E; [exact IH|].
  constructor; [|exact IH]. intros H. apply (proj1 (dedup_In t a)) in H.
  apply (proj2 (existsb_bytes_In a t)) in H.
  rewrite H in E. discriminate E.
Qed.

(* ================= the theorems on fields_of / fields_not_local ================= *)

Lemma fields_exact : forall e l,
  fields_of e = Some l -> NoDup l /\ forall p, In p l <-> Reads e p.
Proof.
  intros e l H. unfold fields_of in H. destruct (fields_raw e) as [raw|] eqn:E; [|discriminate H].
  injection H as H. subst l. split; [apply dedup_NoDup|].
  intros p. rewrite dedup_In. exact (fields_raw_reads e raw E p).
Qed.

Lemma fields_refuses : forall e, fields_of e = None <-> has_bad_selector e = true.
Proof.
  intros e. pose proof (fields_raw_none e) as R. unfold refuse_at in R. rewrite <- R. unfold fields_of.
  destruct (fields_raw e); split; intros H; try reflexivity; discriminate H.
Qed.

Lemma not_local_is_filter : forall e,
  fields_not_local e = option_map (filter (fun p => negb (starts_dollar p))) (fields_of e).
Proof. intros e. unfold fields_not_local. destruct (fields_of e); reflexivity. Qed.

Lemma not_local_members : forall e,
  match fields_of e, fields_not_local e with
  | Some l, Some l' => NoDup l' /\ forall p, In p l' <-> In p l /\ starts_dollar p = false
  | None, None => True
  | _, _ => False
  end.
Proof.
  intros e. rewrite not_local_is_filter. destruct (fields_of e) as [l|] eqn:E; cbn [option_map]; [|exact I].
  split.
  - apply NoDup_filter. exact (proj1 (fields_exact e l E)).
  - intros p. rewrite filter_In, negb_true_iff. reflexivity.
Qed.

(* exactness of the non-local variant in one statement *)
Lemma not_local_exact : forall e l',
  fields_not_local e = Some l' ->
  NoDup l' /\ forall p, In p l' <-> Reads e p /\ starts_dollar p = false.
Proof.
  intros e l' H. pose proof (not_local_members e) as M. rewrite H in M.
  destruct (fields_of e) as [l|] eqn:E; [|contradiction]. destruct M as [M1 M2].
  split; [exact M1|]. intros p. rewrite M2. rewrite (proj2 (fields_exact e l E) p). reflexivity.
Qed.

(* ================= sufficiency ================= *)

(* every identifier occurring in a tree (a missing identifier has the empty name); the names of
   member accesses (`b`, `c` in `a.b.c`) are not identifiers *)
Fixpoint idents (e : sexpr) : list (list Z) :=
  match e with
  | SIdent _ n => [n]
  | SMissing => [[]]
  | SLit _ _ => []
  | SPrefix _ a | STypeof a | SParen a | SSel a _ _ _ | SSelMissing a _ => idents a
  | SBin l _ r => idents l ++ idents r
  | SCond c t f => idents c ++ idents t ++ idents f
  | SArr es => flat_map idents es
  | SCall f args _ => idents f ++ flat_map idents args
  end.

(* the names in callee position of the calls in value position: for a callee `f` or `a.b.c` the
   top-level name `f` / `a`.  (A callee that is not a name or path makes the call fail, but it is
   evaluated first: every identifier inside it counts.) *)
Fixpoint callee_tops (e : sexpr) : list (list Z) :=
  match e with
  | SIdent _ _ | SMissing | SLit _ _ | SSel _ _ _ _ | SSelMissing _ _ => []
  | SPrefix _ a | STypeof a | SParen a => callee_tops a
  | SBin l _ r => callee_tops l ++ callee_tops r
  | SCond c t f => callee_tops c ++ callee_tops t ++ callee_tops f
  | SArr es => flat_map callee_tops es
  | SCall f args _ => idents f ++ flat_map callee_tops args
  end.

(* the formula does not use `this` *)
Fixpoint no_this (e : sexpr) : bool :=
  match e with
  | SIdent _ _ | SMissing => true
  | SLit k _ => negb (kind_eqb k KThis)
  | SPrefix _ a | STypeof a | SParen a | SSel a _ _ _ | SSelMissing a _ => no_this a
  | SBin l _ r => no_this l && no_this r
  | SCond c t f => no_this c && no_this t && no_this f
  | SArr es => forallb no_this es
  | SCall f args _ => no_this f && forallb no_this args
  end.

(* the text before the first '.' *)
Fixpoint top (p : list Z) : list Z :=
  match p with
  | [] => []
  | c :: t => if c =? 46 then [] else c :: top t
  end.

Definition dotfree (n : list Z) : bool := negb (existsb (Z.eqb 46) n).

(* identifiers contain no '.' (true of every tree the parser builds) *)
Definition names_dotfree (e : sexpr) : bool := forallb dotfree (idents e).

Definition agree_on (N : list (list Z)) (d1 d2 : option (list (list Z * value))) : Prop :=
  forall n, In n N -> data_get n d1 = data_get n d2.

Lemma top_dotfree : forall h, dotfree h = true -> top h = h.
Proof.
  induction h as [|c t IH]; intros H; [reflexivity|].
  unfold dotfree in H. cbn [existsb] in H. rewrite negb_orb in H. apply andb_true_iff in H.
  destruct H as [H1 H2]. cbn [top]. rewrite Z.eqb_sym. apply negb_true_iff in H1. rewrite H1.
  f_equal. apply IH. exact H2.
Qed.

Lemma top_dotfree_app : forall h r, dotfree h = true -> top (h ++ 46 :: r) = h.
Proof.
  induction h as [|c t IH]; intros r H; [reflexivity|].
  unfold dotfree in H. cbn [existsb] in H. rewrite negb_orb in H. apply andb_true_iff in H.
  destruct H as [H1 H2]. cbn [top app]. rewrite Z.eqb_sym. apply negb_true_iff in H1. rewrite H1.
  f_equal. apply IH. exact H2.
Qed.

Lemma sel_names_idents : forall e ns, sel_names e = Some ns ->
  exists h t, ns = h :: t /\ idents e = [h].
Proof.
  induction e; intros ns H; cbn [sel_names] in H; try discriminate H.
  - injection H as H. subst ns. exists v, []. split; reflexivity.
  - injection H as H. subst ns. exists [], []. split; reflexivity.
  - destruct (sel_names e) as [l0|]; [|discriminate H]. injection H as H. subst ns.
    destruct (IHe l0 eq_refl) as [h [t [E1 E2]]]. subst l0. exists h, (t ++ [name]).
    split; [reflexivity | exact E2].
  - destruct (sel_names e) as [l0|]; [|discriminate H]. injection H as H. subst ns.
    destruct (IHe l0 eq_refl) as [h [t [E1 E2]]]. subst l0. exists h, (t ++ [[]]).
    split; [reflexivity | exact E2].
Qed.

Lemma top_join_dot : forall h t, dotfree h = true -> top (join_dot (h :: t)) = h.
Proof.
  intros h [|b t'] H.
  - apply top_dotfree. exact H.
  - change (join_dot (h :: b :: t')) with (h ++ 46 :: join_dot (b :: t')). apply top_dotfree_app. exact H.
Qed.

(* every identifier the evaluation can look up is the top of a reported field or a callee name *)
Definition covered_at (e : sexpr) : Prop :=
  forall l, fields_raw e = Some l -> names_dotfree e = true ->
  incl (idents e) (map top l ++ callee_tops e).

Lemma incl_app_app : forall (A : Type) (a b c d e f : list A),
  incl a (c ++ e) -> incl b (d ++ f) -> incl (a ++ b) ((c ++ d) ++ (e ++ f)).
Proof.
  intros A a b c d e f H1 H2 x Hx. apply in_app_or in Hx. destruct Hx as [Hx|Hx].
  - apply H1 in Hx. apply in_app_or in Hx. destruct Hx as [Hx|Hx]; apply in_or_app.
    + left. apply in_or_app. left. exact Hx.
    + right. apply in_or_app. left. exact Hx.
  - apply H2 in Hx. apply in_app_or in Hx. destruct Hx as [Hx|Hx]; apply in_or_app.
    + left. apply in_or_app. right. exact Hx.
    + right. apply in_or_app. right. exact Hx.
Qed.

Lemma fields_all_covered : forall es, Forall covered_at es ->
  forall l, fields_all es = Some l -> forallb dotfree (flat_map idents es) = true ->
  incl (flat_map idents es) (map top l ++ flat_map callee_tops es).
Proof.
  intros es HF. induction HF as [|a t Ha Ht IH]; intros l H Hd; cbn [fields_all] in H.
  - intros x [].
  - destruct (fields_raw a) as [x|] eqn:Ex; [|discriminate H].
    destruct (fields_all t) as [y|] eqn:Ey; [|discriminate H].
    injection H as H. subst l. cbn [flat_map] in Hd |- *. rewrite forallb_app in Hd.
    apply andb_true_iff in Hd. destruct Hd as [Hd1 Hd2]. rewrite map_app.
    apply incl_app_app; [exact (Ha x Ex Hd1) | exact (IH y eq_refl Hd2)].
Qed.

Lemma idents_covered : forall e, covered_at e.
Proof.
  induction e as [k v| |k v|op x IH|x IH|l op r IHl IHr|c t f IHc IHt IHf|es IH|x IH
                  |x nk n a IH|x a IH|f args sp IHf IHargs] using sexpr_ind2;
    unfold covered_at; intros fl H Hd.
  - cbn [fields_raw] in H. injection H as H. subst fl. unfold names_dotfree in Hd.
    cbn [idents forallb] in Hd. apply andb_true_iff in Hd. destruct Hd as [Hd _].
    cbn [idents map callee_tops app]. rewrite (top_dotfree v Hd). apply incl_refl.
  - cbn [fields_raw] in H. injection H as H. subst fl. cbn. apply incl_refl.
  - intros y [].
  - exact (IH fl H Hd).
  - exact (IH fl H Hd).
  - rewrite fields_raw_SBin in H.
    destruct (fields_raw l) as [xl|] eqn:El; [|discriminate H].
    destruct (fields_raw r) as [xr|] eqn:Er; [|discriminate H].
    injection H as H. subst fl. unfold names_dotfree in Hd. cbn [idents] in Hd. rewrite forallb_app in Hd.
    apply andb_true_iff in Hd. destruct Hd as [Hd1 Hd2]. cbn [idents callee_tops]. rewrite map_app.
    apply incl_app_app; [exact (IHl xl El Hd1) | exact (IHr xr Er Hd2)].
  - rewrite fields_raw_SCond in H.
    assert (HF : Forall covered_at [c; t; f])
      by (constructor; [exact IHc | constructor; [exact IHt | constructor; [exact IHf | constructor]]]).
    pose proof (fields_all_covered _ HF fl H) as R. cbn [flat_map] in R. rewrite !app_nil_r in R.
    apply R. exact Hd.
  - rewrite fields_raw_SArr in H. exact (fields_all_covered _ IH fl H Hd).
  - exact (IH fl H Hd).
  - rewrite (fields_raw_sel (SSel x nk n a) I) in H.
    destruct (sel_names (SSel x nk n a)) as [ns|] eqn:Es; [|discriminate H].
    injection H as H. subst fl. destruct (sel_names_idents _ _ Es) as [h [t [E1 E2]]]. subst ns.
    unfold names_dotfree in Hd. rewrite E2 in Hd |- *. cbn [forallb] in Hd.
    apply andb_true_iff in Hd. destruct Hd as [Hd _].
    cbn [map callee_tops app]. rewrite (top_join_dot h t Hd). apply incl_refl.
  - rewrite (fields_raw_sel (SSelMissing x a) I) in H.
    destruct (sel_names (SSelMissing x a)) as [ns|] eqn:Es; [|discriminate H].
    injection H as H. subst fl. destruct (sel_names_idents _ _ Es) as [h [t [E1 E2]]]. subst ns.
    unfold names_dotfree in Hd. rewrite E2 in Hd |- *. cbn [forallb] in Hd.
    apply andb_true_iff in Hd. destruct Hd as [Hd _].
    cbn [map callee_tops app]. rewrite (top_join_dot h t Hd). apply incl_refl.
  - rewrite fields_raw_SCall in H. unfold names_dotfree in Hd. cbn [idents] in Hd.
    rewrite forallb_app in Hd. apply andb_true_iff in Hd. destruct Hd as [Hd1 Hd2].
    cbn [idents callee_tops]. pose proof (fields_all_covered _ IHargs fl H Hd2) as R.
    intros y Hy. apply in_app_or in Hy. destruct Hy as [Hy|Hy].
    + apply in_or_app. right. apply in_or_app. left. exact Hy.
    + apply R in Hy. apply in_app_or in Hy. destruct Hy as [Hy|Hy]; apply in_or_app.
      * left. exact Hy.
      * right. apply in_or_app. right. exact Hy.
Qed.

Section Suff.
Variable hosts : list (Z * hostfn).
Variable off : Z.

Definition st_rel (N : list (list Z)) (st1 st2 : rstate) : Prop :=
  r_trace st1 = r_trace st2 /\ agree_on N (r_this st1) (r_this st2).

(* two runs ended alike: same outcome, same host-call log, data maps that still agree on N *)
Definition same {A : Type} (N : list (list Z)) (r1 r2 : outcome A * rstate) : Prop :=
  fst r1 = fst r2 /\ st_rel N (snd r1) (snd r2).

Lemma fmt_same : forall N r1 r2, same N r1 r2 -> same N (fmt r1) (fmt r2).
Proof.
  intros N [o1 s1] [o2 s2] [A B]. cbn [fst snd] in A, B. subst o2.
  destruct o1; split; cbn [fmt fst snd]; auto.
Qed.

Lemma lookup_agree : forall N n st1 st2,
  In n N -> st_rel N st1 st2 -> lookup_ident n st1 = lookup_ident n st2.
Proof.
  intros N n st1 st2 Hin [_ Hag]. unfold lookup_ident.
  destruct (existsb (bytes_eqb n) builtin_names); [reflexivity|]. exact (Hag n Hin).
Qed.

Lemma agree_set : forall N k v st1 st2,
  st_rel N st1 st2 -> st_rel N (set_this_value k v st1) (set_this_value k v st2).
Proof.
  intros N k v st1 st2 [Ht Hag]. split; [exact Ht|]. unfold set_this_value. cbn [r_this].
  intros n Hin. destruct (bytes_eqb k n) eqn:E.
  - apply bytes_eqb_eq in E. subst n. rewrite !data_get_set_same. reflexivity.
  - apply bytes_eqb_neq in E. rewrite !data_get_set_other by exact E. exact (Hag n Hin).
Qed.

Lemma call_same : forall N fv vs sp st1 st2,
  st_rel N st1 st2 ->
  same N (call_value hosts off fv vs sp st1) (call_value hosts off fv vs sp st2).
Proof.
  intros N fv vs sp st1 st2 [Ht Hag].
  destruct (call_value_agree hosts off fv vs sp st1 st2 Ht) as [A B].
  split; [exact A|]. split; [exact B|]. rewrite !call_value_this. exact Hag.
Qed.

Definition agree_at (e : sexpr) : Prop :=
  forall N st1 st2, no_this e = true -> incl (idents e) N -> st_rel N st1 st2 ->
  same N (eval hosts off e st1) (eval hosts off e st2).

Lemma same_fail : forall (A : Type) N (o : outcome A) s1 s2, st_rel N s1 s2 -> same N (o, s1) (o, s2).
Proof. intros A N o s1 s2 H. split; [reflexivity | exact H]. Qed.

Lemma eval_list_agree : forall es, Forall agree_at es ->
  forall N st1 st2, forallb no_this es = true -> incl (flat_map idents es) N -> st_rel N st1 st2 ->
  same N (eval_list hosts off es st1) (eval_list hosts off es st2).
Proof.
  intros es HF. induction HF as [|a t Ha Ht IH]; intros N st1 st2 Hn Hi Hr; cbn [eval_list].
  - apply same_fail. exact Hr.
  - cbn [forallb] in Hn. apply andb_true_iff in Hn. destruct Hn as [Hn1 Hn2].
    cbn [flat_map] in Hi. apply incl_app_inv in Hi. destruct Hi as [Hi1 Hi2].
    pose proof (Ha N st1 st2 Hn1 Hi1 Hr) as S.
    destruct (eval hosts off a st1) as [o1 s1]; destruct (eval hosts off a st2) as [o2 s2].
    destruct S as [A B]. cbn [fst snd] in A, B. subst o2.
    destruct o1 as [v| | |]; try (apply same_fail; exact B).
    pose proof (IH N s1 s2 Hn2 Hi2 B) as S2.
    destruct (eval_list hosts off t s1) as [o1 s1']; destruct (eval_list hosts off t s2) as [o2 s2'].
    destruct S2 as [A2 B2]. cbn [fst snd] in A2, B2. subst o2.
    destruct o1 as [vs| | |]; apply same_fail; exact B2.
Qed.

Lemma eval_agree : forall e, agree_at e.
Proof.
  induction e as [k v| |k v|op x IH|x IH|l op r IHl IHr|c t f IHc IHt IHf|es IH|x IH
                  |x nk n a IH|x a IH|f args sp IHf IHargs] using sexpr_ind2;
    unfold agree_at; intros N st1 st2 Hn Hi Hr.
  - rewrite !eval_SIdent. apply fmt_same. split; [|exact Hr]. cbn [fst]. f_equal.
    apply (lookup_agree N); [|exact Hr]. apply Hi. left. reflexivity.
  - rewrite !eval_SMissing. apply fmt_same. split; [|exact Hr]. cbn [fst]. f_equal.
    apply (lookup_agree N); [|exact Hr]. apply Hi. left. reflexivity.
  - rewrite !eval_SLit. apply fmt_same. split; [|exact Hr]. cbn [fst]. cbn [no_this] in Hn.
    destruct k; try reflexivity. discriminate Hn.
  - rewrite !eval_SPrefix. apply fmt_same. pose proof (IH N st1 st2 Hn Hi Hr) as S.
    destruct (eval hosts off x st1) as [o1 s1]; destruct (eval hosts off x st2) as [o2 s2].
    destruct S as [A B]. cbn [fst snd] in A, B. subst o2.
    destruct o1 as [v| | |]; apply same_fail; exact B.
  - rewrite !eval_STypeof. apply fmt_same. pose proof (IH N st1 st2 Hn Hi Hr) as S.
    destruct (eval hosts off x st1) as [o1 s1]; destruct (eval hosts off x st2) as [o2 s2].
    destruct S as [A B]. cbn [fst snd] in A, B. subst o2.
    destruct o1 as [v| | |]; apply same_fail; exact B.
  - rewrite !eval_SBin. apply fmt_same. cbn [no_this] in Hn. apply andb_true_iff in Hn.
    destruct Hn as [Hn1 Hn2]. cbn [idents] in Hi. apply incl_app_inv in Hi. destruct Hi as [Hi1 Hi2].
    destruct (kind_eqb op KEquals).
    + destruct l; try (apply same_fail; exact Hr).
      destruct (starts_dollar v); [|apply same_fail; exact Hr].
      pose proof (IHr N st1 st2 Hn2 Hi2 Hr) as S.
      destruct (eval hosts off r st1) as [o1 s1]; destruct (eval hosts off r st2) as [o2 s2].
      destruct S as [A B]. cbn [fst snd] in A, B. subst o2.
      destruct o1 as [w| | |]; try (apply same_fail; exact B).
      apply same_fail. apply agree_set. exact B.
    + pose proof (IHl N st1 st2 Hn1 Hi1 Hr) as S.
      destruct (eval hosts off l st1) as [o1 s1]; destruct (eval hosts off l st2) as [o2 s2].
      destruct S as [A B]. cbn [fst snd] in A, B. subst o2.
      destruct o1 as [v1| | |]; try (apply same_fail; exact B).
      pose proof (IHr N s1 s2 Hn2 Hi2 B) as S2.
      destruct (eval hosts off r s1) as [o1 s1']; destruct (eval hosts off r s2) as [o2 s2'].
      destruct S2 as [A2 B2]. cbn [fst snd] in A2, B2. subst o2.
      destruct o1 as [v2| | |]; apply same_fail; exact B2.
  - rewrite !eval_SCond. apply fmt_same. cbn [no_this] in Hn. apply andb_true_iff in Hn.
    destruct Hn as [Hn Hn3]. apply andb_true_iff in Hn. destruct Hn as [Hn1 Hn2].
    cbn [idents] in Hi. apply incl_app_inv in Hi. destruct Hi as [Hi1 Hi]. apply incl_app_inv in Hi.
    destruct Hi as [Hi2 Hi3].
    pose proof (IHc N st1 st2 Hn1 Hi1 Hr) as S.
    destruct (eval hosts off c st1) as [o1 s1]; destruct (eval hosts off c st2) as [o2 s2].
    destruct S as [A B]. cbn [fst snd] in A, B. subst o2.
    destruct o1 as [v| | |]; try (apply same_fail; exact B).
    destruct (truthy v); [exact (IHt N s1 s2 Hn2 Hi2 B) | exact (IHf N s1 s2 Hn3 Hi3 B)].
  - rewrite !eval_SArr. apply fmt_same. cbn [no_this] in Hn. cbn [idents] in Hi.
    pose proof (eval_list_agree es IH N st1 st2 Hn Hi Hr) as S.
    destruct (eval_list hosts off es st1) as [o1 s1]; destruct (eval_list hosts off es st2) as [o2 s2].
    destruct S as [A B]. cbn [fst snd] in A, B. subst o2.
    destruct o1 as [vs| | |]; apply same_fail; exact B.
  - rewrite !eval_SParen. apply fmt_same. exact (IH N st1 st2 Hn Hi Hr).
  - rewrite !eval_SSel. apply fmt_same. pose proof (IH N st1 st2 Hn Hi Hr) as S.
    destruct (eval hosts off x st1) as [o1 s1]; destruct (eval hosts off x st2) as [o2 s2].
    destruct S as [A B]. cbn [fst snd] in A, B. subst o2.
    destruct o1 as [v| | |]; try (apply same_fail; exact B).
    destruct (is_null v && a); apply same_fail; exact B.
  - rewrite !eval_SSelMissing. apply fmt_same. exact (IH N st1 st2 Hn Hi Hr).
  - rewrite !eval_SCall. apply fmt_same. cbn [no_this] in Hn. apply andb_true_iff in Hn.
    destruct Hn as [Hn1 Hn2]. cbn [idents] in Hi. apply incl_app_inv in Hi. destruct Hi as [Hi1 Hi2].
    pose proof (IHf N st1 st2 Hn1 Hi1 Hr) as S.
    destruct (eval hosts off f st1) as [o1 s1]; destruct (eval hosts off f st2) as [o2 s2].
    destruct S as [A B]. cbn [fst snd] in A, B. subst o2.
    destruct o1 as [fv| | |]; try (apply same_fail; exact B).
    destruct (negb (is_name_path f)); [apply same_fail; exact B|].
    pose proof (eval_list_agree args IHargs N s1 s2 Hn2 Hi2 B) as S2.
    destruct (eval_list hosts off args s1) as [o1 s1']; destruct (eval_list hosts off args s2) as [o2 s2'].
    destruct S2 as [A2 B2]. cbn [fst snd] in A2, B2. subst o2.
    destruct o1 as [vs| | |]; try (apply same_fail; exact B2).
    apply call_same. exact B2.
Qed.

(* the reported fields are sufficient *)
Lemma fields_sufficient_strong : forall e l st1 st2,
  no_this e = true -> names_dotfree e = true ->
  fields_of e = Some l ->
  r_trace st1 = r_trace st2 ->
  agree_on (map top l ++ callee_tops e) (r_this st1) (r_this st2) ->
  same (map top l ++ callee_tops e) (eval hosts off e st1) (eval hosts off e st2).
Proof.
  intros e l st1 st2 Hn Hd Hf Ht Hag. unfold fields_of in Hf.
  destruct (fields_raw e) as [raw|] eqn:E; [|discriminate Hf]. injection Hf as Hf. subst l.
  apply eval_agree; [exact Hn| |split; assumption].
  intros x Hx. apply (idents_covered e raw E Hd) in Hx. apply in_app_or in Hx. apply in_or_app.
  destruct Hx as [Hx|Hx]; [left | right; exact Hx].
  apply in_map_iff in Hx. destruct Hx as [p [E1 Hp]]. apply in_map_iff. exists p.
  split; [exact E1 | apply dedup_In; exact Hp].
Qed.

Lemma fields_sufficient : forall e l st1 st2,
  no_this e = true -> names_dotfree e = true ->
  fields_of e = Some l ->
  r_trace st1 = r_trace st2 ->
  agree_on (map top l ++ callee_tops e) (r_this st1) (r_this st2) ->
  fst (eval hosts off e st1) = fst (eval hosts off e st2) /\
  fst (resolve_entry hosts off e st1) = fst (resolve_entry hosts off e st2) /\
  r_trace (snd (eval hosts off e st1)) = r_trace (snd (eval hosts off e st2)).
Proof.
  intros e l st1 st2 Hn Hd Hf Ht Hag.
  destruct (fields_sufficient_strong e l st1 st2 Hn Hd Hf Ht Hag) as [A [B _]].
  split; [exact A|]. split; [|exact B]. unfold resolve_entry.
  destruct (eval hosts off e st1) as [o1 s1]; destruct (eval hosts off e st2) as [o2 s2].
  cbn [fst] in A. subst o2. destruct o1; reflexivity.
Qed.

(* in the words of the property: the full data map against the map restricted to the reported names *)
Definition restrict (N : list (list Z)) (m : list (list Z * value)) : list (list Z * value) :=
  filter (fun kv => existsb (bytes_eqb (fst kv)) N) m.

Lemma assoc_restrict : forall N m n, In n N -> assoc n (restrict N m) = assoc n m.
Proof.
  intros N m n Hin. induction m as [|[k v] t IH]; [reflexivity|].
  cbn [restrict filter fst]. destruct (existsb (bytes_eqb k) N) eqn:E.
  - cbn [assoc]. fold (restrict N t). rewrite IH. reflexivity.
  - fold (restrict N t). rewrite IH. cbn [assoc].
    destruct (bytes_eqb n k) eqn:E2; [|reflexivity].
    apply bytes_eqb_eq in E2. subst k. apply (proj2 (existsb_bytes_In n N)) in Hin.
    rewrite Hin in E. discriminate E.
Qed.

Lemma fields_sufficient_restrict : forall e l m tr,
  no_this e = true -> names_dotfree e = true ->
  fields_of e = Some l ->
  fst (resolve_entry hosts off e (mkR (Some m) tr)) =
  fst (resolve_entry hosts off e (mkR (Some (restrict (map top l ++ callee_tops e) m)) tr)).
Proof.
  intros e l m tr Hn Hd Hf.
  apply (fields_sufficient e l _ _ Hn Hd Hf); [reflexivity|].
  intros n Hin. cbn [r_this data_get]. rewrite (assoc_restrict _ m n Hin). reflexivity.
Qed.

End Suff.

(* ================= examples: the hypotheses are satisfiable, the restrictions are needed ================= *)

Definition xid (s : string) : sexpr := SIdent KIdent (str s).
Definition xsel (a : sexpr) (s : string) : sexpr := SSel a KIdent (str s) false.
Definition xnum (s : string) : sexpr := SLit KNumber (str s).

(* a.b.c + f(x, $y, g.h(a)) ? [a.b, z, a.b.c] : typeof ($w = (q.r)) *)
Definition ex1 : sexpr :=
  SCond (SBin (xsel (xsel (xid "a") "b") "c") KPlus
              (SCall (xid "f") [xid "x"; xid "$y"; SCall (xsel (xid "g") "h") [xid "a"] false] false))
        (SArr [xsel (xid "a") "b"; xid "z"; xsel (xsel (xid "a") "b") "c"])
        (STypeof (SBin (xid "$w") KEquals (SParen (xsel (xid "q") "r")))).

Example ex1_fields :
  fields_of ex1 = Some (map str ["x"; "$y"; "a"; "a.b"; "z"; "a.b.c"; "$w"; "q.r"]%string) /\
  fields_not_local ex1 = Some (map str ["x"; "a"; "a.b"; "z"; "a.b.c"; "q.r"]%string) /\
  callee_tops ex1 = map str ["f"; "g"]%string /\
  no_this ex1 = true /\ names_dotfree ex1 = true /\ has_bad_selector ex1 = false.
Proof. vm_compute. repeat split; reflexivity. Qed.

(* `a.b.c` is read as one path; its prefix `a.b` is read only because it also occurs on its own;
   the callees `f`, `g.h` and the path prefix `q` are not read *)
Example ex1_reads :
  Reads ex1 (str "a.b.c") /\ Reads ex1 (str "a.b") /\ Reads ex1 (str "$w") /\
  ~ Reads ex1 (str "f") /\ ~ Reads ex1 (str "g.h") /\ ~ Reads ex1 (str "g") /\ ~ Reads ex1 (str "q").
Proof.
  destruct ex1_fields as [H _]. destruct (fields_exact ex1 _ H) as [_ R].
  repeat split; try (apply R; vm_compute; tauto);
    intros C; apply R in C; vm_compute in C;
    repeat (destruct C as [C|C]; [discriminate C|]); exact C.
Qed.

(* u + (a + b).c is refused; as a callee the same member access is not examined *)
Definition ex_bad : sexpr := SBin (xid "u") KPlus (xsel (SParen (SBin (xid "a") KPlus (xid "b"))) "c").
Definition ex_bad_callee : sexpr := SCall (xsel (SParen (SBin (xid "a") KPlus (xid "b"))) "c") [xid "u"] false.

Example ex_refused :
  fields_of ex_bad = None /\ has_bad_selector ex_bad = true /\
  fields_of ex_bad_callee = Some [str "u"] /\ has_bad_selector ex_bad_callee = false.
Proof. vm_compute. repeat split; reflexivity. Qed.

(* a.b.c + len(x), ($w = z) ?? $w   against a map with an unrelated entry *)
Definition ex2 : sexpr :=
  SBin (SBin (xsel (xsel (xid "a") "b") "c") KPlus (SCall (xid "len") [xid "x"] false)) KComma
       (SBin (SBin (xid "$w") KEquals (xid "z")) KQQ (xid "$w")).
Definition ex2_map : list (list Z * value) :=
  [(str "a", VMap [(str "b", VMap [(str "c", VNum (dec_of_string (str "2")))])]);
   (str "x", VStr (str "s")); (str "junk", VBool true); (str "z", VStr (str "zz"))].

Example ex2_sufficient_hyps :
  no_this ex2 = true /\ names_dotfree ex2 = true /\
  fields_of ex2 = Some (map str ["a.b.c"; "x"; "z"; "$w"]%string) /\
  restrict (map top (map str ["a.b.c"; "x"; "z"; "$w"]%string) ++ callee_tops ex2) ex2_map =
    [(str "a", VMap [(str "b", VMap [(str "c", VNum (dec_of_string (str "2")))])]);
     (str "x", VStr (str "s")); (str "z", VStr (str "zz"))] /\
  fst (eval [] 0 ex2 (mkR (Some ex2_map) [])) = Ok (VStr (str "zz")).
Proof. vm_compute. repeat split; reflexivity. Qed.

(* Without [names_dotfree] the statement is false - on a tree no parser builds: an identifier
   whose own name contains a dot.  Its top is `a`, but the evaluator looks up `a.b`. *)
Example fields_sufficient_without_dotfree_refuted :
  exists e l st1 st2,
    no_this e = true /\ fields_of e = Some l /\ r_trace st1 = r_trace st2 /\
    agree_on (map top l ++ callee_tops e) (r_this st1) (r_this st2) /\
    fst (eval [] 0 e st1) <> fst (eval [] 0 e st2).
Proof.
  exists (xid "a.b"), [str "a.b"], (mkR (Some [(str "a.b", VBool true)]) []), (mkR None []).
  split; [reflexivity|]. split; [reflexivity|]. split; [reflexivity|]. split.
  - intros n [E|[]]. subst n. reflexivity.
  - vm_compute. discriminate.
Qed.

(* Why [callee_tops] counts the identifiers inside a callee that is not a name or path:
   (x.y)(1) reports no field, the call always fails, but HOW it fails depends on x
   (a time value makes the member access panic; the entry point turns both into an error) *)
Example non_path_callee_is_evaluated :
  let e := SCall (SParen (xsel (xid "x") "y")) [xnum "1"] false in
  fields_of e = Some [] /\ callee_tops e = [str "x"] /\
  fst (eval [] 0 e (mkR (Some [(str "x", VTime (mkTime 0 0))]) [])) = Panic /\
  fst (eval [] 0 e (mkR None [])) = Err.
Proof. vm_compute. repeat split; reflexivity. Qed.

(* Why `this` is excluded: [this] reports no field and depends on the whole map *)
Example this_must_be_excluded :
  let e := SArr [SLit KThis []] in
  fields_of e = Some [] /\ callee_tops e = [] /\ no_this e = false /\
  fst (eval [] 0 e (mkR (Some [(str "x", VNull)]) [])) <> fst (eval [] 0 e (mkR None [])).
Proof. vm_compute. repeat split; try reflexivity. discriminate. Qed.
