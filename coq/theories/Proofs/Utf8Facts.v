(* Facts about the decode-step walk: steps tile the text; every step has 1..4 bytes. *)
From Formula Require Import Base.Utf8.

Definition step_ok (s : step) : Prop := (1 <= length (snd s) <= 4)%nat.

Lemma decode_all_spec : forall n l, (length l <= n)%nat ->
  steps_bytes (decode_all l) = l /\ Forall step_ok (decode_all l).
Proof.
  unfold steps_bytes.
  induction n as [|n IH]; intros l Hl.
  { destruct l; [simpl; split; [reflexivity|constructor]|simpl in Hl; lia]. }
  destruct l as [|b0 t]; [simpl; split; [reflexivity|constructor]|].
  simpl in Hl.
  assert (Ht : (length t <= n)%nat) by lia.
  destruct (IH t Ht) as [Et Ft].
  assert (Hone : forall r, concat (map snd ((r, [b0]) :: decode_all t)) = b0 :: t /\
                      Forall step_ok ((r, [b0]) :: decode_all t)).
  { intros r. simpl. rewrite Et. split; [reflexivity|]. constructor; [unfold step_ok; simpl; lia|exact Ft]. }
  cbn [decode_all].
  destruct (b0 <? 128); [apply Hone|].
  destruct ((b0 <? 194) || (244 <? b0)); [apply Hone|].
  destruct (b0 <? 224).
  { destruct t as [|b1 t1]; [apply Hone|].
    destruct (is_cont b1); [|apply Hone].
    simpl in Ht. destruct (IH t1 ltac:(lia)) as [E1 F1].
    simpl. rewrite E1. split; [reflexivity|]. constructor; [unfold step_ok; simpl; lia|exact F1]. }
  destruct (b0 <? 240).
  { destruct t as [|b1 t1]; [apply Hone|].
    destruct (in_rng _ _ b1); [|apply Hone].
    destruct t1 as [|b2 t2]; [apply Hone|].
    destruct (is_cont b2); [|apply Hone].
    simpl in Ht. destruct (IH t2 ltac:(lia)) as [E1 F1].
    simpl. rewrite E1. split; [reflexivity|]. constructor; [unfold step_ok; simpl; lia|exact F1]. }
  destruct t as [|b1 t1]; [apply Hone|].
  destruct (in_rng _ _ b1); [|apply Hone].
  destruct t1 as [|b2 t2]; [apply Hone|].
  destruct (is_cont b2); [|apply Hone].
  destruct t2 as [|b3 t3]; [apply Hone|].
  destruct (is_cont b3); [|apply Hone].
  simpl in Ht. destruct (IH t3 ltac:(lia)) as [E1 F1].
  simpl. rewrite E1. split; [reflexivity|]. constructor; [unfold step_ok; simpl; lia|exact F1].
Qed.

Lemma decode_all_bytes : forall l, steps_bytes (decode_all l) = l.
Proof. intros l. apply (decode_all_spec (length l) l). lia. Qed.

Lemma decode_all_ok : forall l, Forall step_ok (decode_all l).
Proof. intros l. apply (decode_all_spec (length l) l). lia. Qed.

Lemma steps_len_decode : forall l, steps_len (decode_all l) = Z.of_nat (length l).
Proof. intros l. unfold steps_len. rewrite decode_all_bytes. reflexivity. Qed.
