(* Shared base for the literal properties C12 / C13:
   - ASCII bytes decode to one-byte steps ([decode_all_ascii]);
   - the decode walk as an explicit one-step function [decode1] and the unfolding
     [decode_all_step];
   - locality of decoding: the first step of [b0 :: X] only depends on the run of
     continuation bytes at the front of X ([decode1_lookahead]). *)
From Formula Require Import Base.Utf8 Proofs.Utf8Facts.

(* ---------- ASCII ---------- *)

Definition asc (l : list Z) : list step := map (fun b => (b, [b])) l.

Lemma asc_app : forall a b, asc (a ++ b) = asc a ++ asc b.
Proof. intros a b. unfold asc. apply map_app. Qed.

Lemma asc_cons : forall a l, asc (a :: l) = (a, [a]) :: asc l.
Proof. reflexivity. Qed.

Lemma asc_length : forall l, length (asc l) = length l.
Proof. intros l. unfold asc. apply map_length. Qed.

Lemma steps_bytes_cons : forall r bs t, steps_bytes ((r, bs) :: t) = bs ++ steps_bytes t.
Proof. reflexivity. Qed.

Lemma steps_bytes_app : forall a b, steps_bytes (a ++ b) = steps_bytes a ++ steps_bytes b.
Proof. intros a b. unfold steps_bytes. rewrite map_app, concat_app. reflexivity. Qed.

Lemma steps_bytes_asc : forall l, steps_bytes (asc l) = l.
Proof.
  induction l as [|a l IH]; [reflexivity|].
  rewrite asc_cons, steps_bytes_cons, IH. reflexivity.
Qed.

Lemma blen_app : forall a b, blen (a ++ b) = blen a + blen b.
Proof. intros a b. unfold blen. rewrite app_length, Nat2Z.inj_add. reflexivity. Qed.

Lemma blen_cons : forall a l, blen (a :: l) = 1 + blen l.
Proof. intros a l. unfold blen. cbn [length]. lia. Qed.

Lemma blen_nil : blen [] = 0.
Proof. reflexivity. Qed.

Lemma blen_nonneg : forall l, 0 <= blen l.
Proof. intros l. unfold blen. lia. Qed.

Lemma decode_all_lt128 : forall b t, b < 128 -> decode_all (b :: t) = (b, [b]) :: decode_all t.
Proof.
  intros b t Hb. cbn [decode_all].
  destruct (b <? 128) eqn:E; [reflexivity|]. apply Z.ltb_ge in E. lia.
Qed.

(* every byte below 128 is a step of its own, whatever follows *)
Theorem decode_all_ascii : forall l r, Forall (fun b => 0 <= b < 128) l ->
  decode_all (l ++ r) = map (fun b => (b, [b])) l ++ decode_all r.
Proof.
  induction l as [|a l IH]; intros r Hl; [reflexivity|].
  inversion Hl as [|a' l' Ha Hl' Heq]; subst.
  cbn [app map]. rewrite decode_all_lt128 by lia. rewrite IH by exact Hl'. reflexivity.
Qed.

Lemma decode_all_asc : forall l r, Forall (fun b => 0 <= b < 128) l ->
  decode_all (l ++ r) = asc l ++ decode_all r.
Proof. exact decode_all_ascii. Qed.

Lemma decode_all_nonnil : forall l, l <> [] -> decode_all l <> [].
Proof.
  intros l Hl Hd. apply Hl. rewrite <- (decode_all_bytes l), Hd. reflexivity.
Qed.

(* ---------- one decode step ---------- *)

(* rune and number of bytes consumed after the first one *)
Definition decode1 (b0 : Z) (t : list Z) : Z * nat :=
  if b0 <? 128 then (b0, 0%nat)
  else if (b0 <? 194) || (244 <? b0) then (RuneError, 0%nat)
  else if b0 <? 224 then
    match t with
    | b1 :: _ => if is_cont b1 then ((b0 - 192) * 64 + (b1 - 128), 1%nat) else (RuneError, 0%nat)
    | [] => (RuneError, 0%nat)
    end
  else if b0 <? 240 then
    match t with
    | b1 :: t1 =>
      if in_rng (if b0 =? 224 then 160 else 128) (if b0 =? 237 then 159 else 191) b1 then
        match t1 with
        | b2 :: _ =>
          if is_cont b2 then ((b0 - 224) * 4096 + (b1 - 128) * 64 + (b2 - 128), 2%nat)
          else (RuneError, 0%nat)
        | [] => (RuneError, 0%nat)
        end
      else (RuneError, 0%nat)
    | [] => (RuneError, 0%nat)
    end
  else
    match t with
    | b1 :: t1 =>
      if in_rng (if b0 =? 240 then 144 else 128) (if b0 =? 244 then 143 else 191) b1 then
        match t1 with
        | b2 :: t2 =>
          if is_cont b2 then
            match t2 with
            | b3 :: _ =>
              if is_cont b3 then
                ((b0 - 240) * 262144 + (b1 - 128) * 4096 + (b2 - 128) * 64 + (b3 - 128), 3%nat)
              else (RuneError, 0%nat)
            | [] => (RuneError, 0%nat)
            end
          else (RuneError, 0%nat)
        | [] => (RuneError, 0%nat)
        end
      else (RuneError, 0%nat)
    | [] => (RuneError, 0%nat)
    end.

Lemma decode_all_step : forall b0 t,
  decode_all (b0 :: t) =
  (fst (decode1 b0 t), b0 :: firstn (snd (decode1 b0 t)) t) :: decode_all (skipn (snd (decode1 b0 t)) t).
Proof.
  intros b0 t. unfold decode1. cbn [decode_all].
  destruct (b0 <? 128); [reflexivity|].
  destruct ((b0 <? 194) || (244 <? b0)); [reflexivity|].
  destruct (b0 <? 224).
  { destruct t as [|b1 t1]; [reflexivity|]. destruct (is_cont b1); reflexivity. }
  destruct (b0 <? 240).
  { destruct t as [|b1 t1]; [reflexivity|].
    destruct (in_rng _ _ b1); [|reflexivity].
    destruct t1 as [|b2 t2]; [reflexivity|]. destruct (is_cont b2); reflexivity. }
  destruct t as [|b1 t1]; [reflexivity|].
  destruct (in_rng _ _ b1); [|reflexivity].
  destruct t1 as [|b2 t2]; [reflexivity|]. destruct (is_cont b2); [|reflexivity].
  destruct t2 as [|b3 t3]; [reflexivity|]. destruct (is_cont b3); reflexivity.
Qed.

Lemma decode1_len : forall b0 t, (snd (decode1 b0 t) <= length t)%nat.
Proof.
  intros b0 t. unfold decode1.
  destruct (b0 <? 128); [cbn; lia|].
  destruct ((b0 <? 194) || (244 <? b0)); [cbn; lia|].
  destruct (b0 <? 224).
  { destruct t as [|b1 t1]; [cbn; lia|]. destruct (is_cont b1); cbn; lia. }
  destruct (b0 <? 240).
  { destruct t as [|b1 t1]; [cbn; lia|].
    destruct (in_rng _ _ b1); [|cbn; lia].
    destruct t1 as [|b2 t2]; [cbn; lia|]. destruct (is_cont b2); cbn; lia. }
  destruct t as [|b1 t1]; [cbn; lia|].
  destruct (in_rng _ _ b1); [|cbn; lia].
  destruct t1 as [|b2 t2]; [cbn; lia|]. destruct (is_cont b2); [|cbn; lia].
  destruct t2 as [|b3 t3]; [cbn; lia|]. destruct (is_cont b3); cbn; lia.
Qed.

(* ---------- locality ---------- *)

Definition head_noncont (l : list Z) : bool :=
  match l with [] => true | b :: _ => negb (is_cont b) end.

(* X and Y agree up to (and excluding) a position where both have a non-continuation byte
   or end *)
Inductive same_lookahead : list Z -> list Z -> Prop :=
| SL_stop : forall X Y, head_noncont X = true -> head_noncont Y = true -> same_lookahead X Y
| SL_cons : forall b X Y, same_lookahead X Y -> same_lookahead (b :: X) (b :: Y).

Lemma same_lookahead_app : forall p X Y, same_lookahead X Y -> same_lookahead (p ++ X) (p ++ Y).
Proof. induction p as [|b p IH]; intros X Y H; [exact H|]. cbn [app]. apply SL_cons, IH, H. Qed.

Lemma in_rng_cont : forall lo hi b, 128 <= lo -> hi <= 191 -> in_rng lo hi b = true -> is_cont b = true.
Proof.
  intros lo hi b Hlo Hhi H. unfold in_rng in H. unfold is_cont.
  apply andb_true_iff in H. destruct H as [H1 H2]. apply Z.leb_le in H1, H2.
  apply andb_true_iff. split; apply Z.leb_le; lia.
Qed.

Lemma in_rng_noncont : forall lo hi b, 128 <= lo -> hi <= 191 -> is_cont b = false -> in_rng lo hi b = false.
Proof.
  intros lo hi b Hlo Hhi H. destruct (in_rng lo hi b) eqn:E; [|reflexivity].
  apply in_rng_cont in E; [congruence|lia|lia].
Qed.

(* the view of a list that decode1 can see: its first <= 3 bytes, cut at the first
   non-continuation byte *)
Fixpoint cprefix (n : nat) (X : list Z) : list Z :=
  match n, X with
  | S n', b :: X' => if is_cont b then b :: cprefix n' X' else []
  | _, _ => []
  end.

Lemma same_lookahead_cprefix : forall n X Y, same_lookahead X Y -> cprefix n X = cprefix n Y.
Proof.
  induction n as [|n IH]; intros X Y H; [destruct X, Y; reflexivity|].
  destruct H as [X Y HX HY|b X Y H].
  - destruct X as [|x X]; destruct Y as [|y Y]; cbn [cprefix head_noncont] in *;
      try (apply negb_true_iff in HX; rewrite HX);
      try (apply negb_true_iff in HY; rewrite HY); reflexivity.
  - cbn [cprefix]. rewrite (IH X Y H). reflexivity.
Qed.

Lemma decode1_cprefix : forall b0 X, decode1 b0 X = decode1 b0 (cprefix 3 X).
Proof.
  intros b0 X. unfold decode1.
  destruct (b0 <? 128); [reflexivity|].
  destruct ((b0 <? 194) || (244 <? b0)); [reflexivity|].
  assert (Hr3 : forall b1, is_cont b1 = false ->
     in_rng (if b0 =? 224 then 160 else 128) (if b0 =? 237 then 159 else 191) b1 = false).
  { intros b1 H. apply in_rng_noncont; [destruct (b0 =? 224); lia|destruct (b0 =? 237); lia|exact H]. }
  assert (Hr4 : forall b1, is_cont b1 = false ->
     in_rng (if b0 =? 240 then 144 else 128) (if b0 =? 244 then 143 else 191) b1 = false).
  { intros b1 H. apply in_rng_noncont; [destruct (b0 =? 240); lia|destruct (b0 =? 244); lia|exact H]. }
  destruct X as [|b1 X1]; [reflexivity|].
  cbn [cprefix].
  destruct (is_cont b1) eqn:C1.
  2:{ rewrite (Hr3 b1 C1), (Hr4 b1 C1). destruct (b0 <? 224); [reflexivity|]. destruct (b0 <? 240); reflexivity. }
  destruct (b0 <? 224); [rewrite C1; reflexivity|].
  destruct X1 as [|b2 X2].
  { destruct (b0 <? 240); reflexivity. }
  cbn [cprefix].
  destruct (is_cont b2) eqn:C2.
  2:{ destruct (b0 <? 240).
      - destruct (in_rng _ _ b1); reflexivity.
      - destruct (in_rng _ _ b1); reflexivity. }
  destruct (b0 <? 240).
  { destruct (in_rng _ _ b1); [rewrite C2; reflexivity|reflexivity]. }
  destruct (in_rng _ _ b1); [|reflexivity].
  rewrite C2.
  destruct X2 as [|b3 X3]; [reflexivity|].
  cbn [cprefix].
  destruct (is_cont b3) eqn:C3; [rewrite C3; reflexivity|reflexivity].
Qed.

Theorem decode1_lookahead : forall b0 X Y, same_lookahead X Y -> decode1 b0 X = decode1 b0 Y.
Proof.
  intros b0 X Y H. rewrite (decode1_cprefix b0 X), (decode1_cprefix b0 Y).
  rewrite (same_lookahead_cprefix 3 X Y H). reflexivity.
Qed.

(* ---------- self-decoding step lists ---------- *)

(* ss is the decoding of its own bytes: true of [decode_all t] and of every suffix of it *)
Definition self_decoding (ss : list step) : Prop := decode_all (steps_bytes ss) = ss.

Lemma self_decoding_decode_all : forall t, self_decoding (decode_all t).
Proof. intros t. unfold self_decoding. rewrite decode_all_bytes. reflexivity. Qed.

(* the head step of a self-decoding list: its bytes are b0 :: bs' and the one-step decoder,
   looking at bs' ++ the rest, consumes exactly bs' *)
Lemma self_decoding_head : forall r bs ss, self_decoding ((r, bs) :: ss) ->
  exists b0 bs', bs = b0 :: bs' /\
    decode1 b0 (bs' ++ steps_bytes ss) = (r, length bs') /\ self_decoding ss.
Proof.
  intros r bs ss H. unfold self_decoding in H. rewrite steps_bytes_cons in H.
  destruct bs as [|b0 bs'].
  { cbn [app] in H. destruct (steps_bytes ss) as [|c t] eqn:E.
    - cbn in H. discriminate H.
    - rewrite decode_all_step in H. injection H as _ Hnil _. discriminate Hnil. }
  cbn [app] in H. rewrite decode_all_step in H.
  pose proof (decode1_len b0 (bs' ++ steps_bytes ss)) as Hlen.
  destruct (decode1 b0 (bs' ++ steps_bytes ss)) as [r' n] eqn:E1.
  cbn [fst snd] in H, Hlen.
  injection H as Hr Hf Hs.
  assert (Hn : n = length bs').
  { assert (Hl : length (firstn n (bs' ++ steps_bytes ss)) = length bs') by (rewrite Hf; reflexivity).
    rewrite firstn_length in Hl. lia. }
  exists b0, bs'. split; [reflexivity|]. split; [rewrite E1, Hr, Hn; reflexivity|].
  unfold self_decoding. rewrite <- Hs at 2. f_equal.
  rewrite Hn. rewrite skipn_app, Nat.sub_diag, skipn_all. reflexivity.
Qed.

(* a step of a self-decoding list is decoded the same way when the bytes after it are
   replaced by bytes with the same look-ahead *)
Lemma decode_all_copy : forall r bs ss X, self_decoding ((r, bs) :: ss) ->
  same_lookahead X (steps_bytes ss) ->
  decode_all (bs ++ X) = (r, bs) :: decode_all X.
Proof.
  intros r bs ss X Hsd Hla.
  destruct (self_decoding_head r bs ss Hsd) as (b0 & bs' & -> & Hd & _).
  cbn [app]. rewrite decode_all_step.
  rewrite (decode1_lookahead b0 (bs' ++ X) (bs' ++ steps_bytes ss)) by (apply same_lookahead_app; exact Hla).
  rewrite Hd. cbn [fst snd].
  rewrite firstn_app, Nat.sub_diag, firstn_all. cbn [firstn]. rewrite app_nil_r.
  rewrite skipn_app, Nat.sub_diag, skipn_all. reflexivity.
Qed.
