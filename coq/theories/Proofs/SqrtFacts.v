(* Facts about the decimal square root of Num/Sqrt.v: the result is the correctly rounded
   (nearest, ties to even, p significant digits) square root; it is exact on squares of
   p-digit numbers; it is monotone; special operands.  No real numbers: "r is within half a
   unit of sqrt v" is stated by squaring, (2r - u)^2 <= 4v <= (2r + u)^2. *)
From Coq Require Import QArith Qabs ZArith Lia Bool.
From Formula Require Import Num.Dec Num.Sqrt Proofs.DecFacts Proofs.DecVal.
Open Scope Z_scope.

(* ---------- integer helpers ---------- *)

Lemma sq_le_inv a b : 0 <= b -> a * a <= b * b -> a <= b.
Proof. intros Hb H. nia. Qed.

Lemma sq_lt_inv a b : 0 <= b -> a * a < b * b -> a < b.
Proof. intros Hb H. nia. Qed.

Lemma sq_le_mono a b : 0 <= a <= b -> a * a <= b * b.
Proof. intros H. nia. Qed.

Lemma sq_lt_mono a b : 0 <= a < b -> a * a < b * b.
Proof. intros H. nia. Qed.

Lemma sq_eq_inv a b : 0 <= a -> 0 <= b -> a * a = b * b -> a = b.
Proof. intros Ha Hb H. nia. Qed.

(* e = 2 * (e / 2) + (1 if e is odd), floor division, either sign *)
Lemma half_split e : e = 2 * (e / 2) + (if Z.odd e then 1 else 0).
Proof. rewrite <- Zmod_odd. apply Z.div_mod. lia. Qed.

Lemma sqrt_shift_spec p n1 : 0 <= sqrt_shift p n1 /\ 2 * p + 2 <= n1 + 2 * sqrt_shift p n1.
Proof.
  unfold sqrt_shift.
  pose proof (Z.div_mod (2 * p + 3 - n1) 2 ltac:(lia)) as Hdm.
  pose proof (Z.mod_pos_bound (2 * p + 3 - n1) 2 ltac:(lia)) as Hmb.
  lia.
Qed.

(* ---------- the rounding of a root, on integers ---------- *)

(* [sqrt_unit_ok P1 P V U M] with P1 = 10^(p-1), P = 10^p: in a scale where the operand is the
   integer V and the unit of the p-th significant digit of its root is the integer U,
   - the root lies in [P1 * U, P * U)             (U is the unit of its p-th digit),
   - M * U is within half a unit of the root       ((2M-1)^2 U^2 <= 4V <= (2M+1)^2 U^2),
   - and when the root is exactly half-way, M is even. *)
Definition sqrt_unit_ok (P1 P V U M : Z) : Prop :=
  0 < U /\
  ((P1 * U) * (P1 * U) <= V /\ V < (P * U) * (P * U)) /\
  (((2 * M - 1) * U) * ((2 * M - 1) * U) <= 4 * V /\ 4 * V <= ((2 * M + 1) * U) * ((2 * M + 1) * U)) /\
  (((2 * M - 1) * U) * ((2 * M - 1) * U) = 4 * V \/ 4 * V = ((2 * M + 1) * U) * ((2 * M + 1) * U) ->
   Z.even M = true).

(* the operand and the unit read in a finer scale *)
Lemma sqrt_unit_scale P1 P V U M T : 0 < T ->
  sqrt_unit_ok P1 P V U M -> sqrt_unit_ok P1 P (V * (T * T)) (U * T) M.
Proof.
  intros HT (HU & (Hlo & Hhi) & (Hl & Hh) & Htie).
  assert (HTT : 0 < T * T) by nia.
  split; [nia|]. split; [|split].
  - split.
    + replace (P1 * (U * T) * (P1 * (U * T))) with ((P1 * U) * (P1 * U) * (T * T)) by ring. nia.
    + replace (P * (U * T) * (P * (U * T))) with ((P * U) * (P * U) * (T * T)) by ring. nia.
  - split.
    + replace ((2 * M - 1) * (U * T) * ((2 * M - 1) * (U * T)))
        with (((2 * M - 1) * U) * ((2 * M - 1) * U) * (T * T)) by ring. nia.
    + replace ((2 * M + 1) * (U * T) * ((2 * M + 1) * (U * T)))
        with (((2 * M + 1) * U) * ((2 * M + 1) * U) * (T * T)) by ring. nia.
  - intros H. apply Htie.
    replace ((2 * M - 1) * (U * T) * ((2 * M - 1) * (U * T)))
      with (((2 * M - 1) * U) * ((2 * M - 1) * U) * (T * T)) in H by ring.
    replace ((2 * M + 1) * (U * T) * ((2 * M + 1) * (U * T)))
      with (((2 * M + 1) * U) * ((2 * M + 1) * U) * (T * T)) in H by ring.
    destruct H as [H|H]; [left|right]; nia.
Qed.

(* M lies in [P1, P] *)
Lemma sqrt_unit_range P1 P V U M : 0 < P1 -> 0 < P ->
  sqrt_unit_ok P1 P V U M -> P1 <= M <= P.
Proof.
  intros HP1 HP (HU & (Hlo & Hhi) & (Hl & Hh) & _).
  split.
  - destruct (Z_lt_le_dec M P1) as [L|G]; [exfalso|exact G].
    assert (H1 : 0 <= (2 * M + 1) * U \/ (2 * M + 1) * U < 0) by lia.
    destruct H1 as [H1|H1].
    + assert (H2 : (2 * M + 1) * U < 2 * (P1 * U)) by nia.
      assert (H3 : (2 * M + 1) * U * ((2 * M + 1) * U) < 2 * (P1 * U) * (2 * (P1 * U))).
      { apply sq_lt_mono. lia. }
      nia.
    + (* 2M + 1 < 0: then (2M - 1) is more negative and its square exceeds the upper bound *)
      assert (H2 : (2 * M + 1) * U * ((2 * M + 1) * U) < (2 * M - 1) * U * ((2 * M - 1) * U)) by nia.
      lia.
  - destruct (Z_lt_le_dec P M) as [L|G]; [exfalso|exact G].
    assert (H2 : 2 * (P * U) <= (2 * M - 1) * U) by nia.
    assert (H3 : 2 * (P * U) * (2 * (P * U)) <= (2 * M - 1) * U * ((2 * M - 1) * U)).
    { apply sq_le_mono. nia. }
    nia.
Qed.

(* the rounding step of sqrt_pos: m has at least 2p + 2 digits, s = floor (sqrt m), one sticky
   digit; the unit of the p-th digit of the root is 10^w in the scale of m (w >= 1) *)
Lemma sqrt_round_core p m E c' e' : 0 < p -> pow10 (2 * p + 1) <= m ->
  round_he p (Z.sqrt m * 10 + (if Z.sqrt m * Z.sqrt m =? m then 0 else 1)) (E - 1) = (c', e') ->
  exists w, 0 < w /\ E + w <= e' /\ pow10 (p - 1) <= c' < pow10 p /\
    sqrt_unit_ok (pow10 (p - 1)) (pow10 p) m (pow10 w) (c' * pow10 (e' - (E + w))).
Proof.
  intros Hp Hm Hr.
  pose proof (pow10_pos (2 * p + 1) ltac:(lia)) as Hm0.
  pose proof (Z.sqrt_spec m ltac:(lia)) as Hs. cbn zeta in Hs. unfold Z.succ in Hs.
  pose proof (Z.sqrt_nonneg m) as Hs0.
  set (s := Z.sqrt m) in *.
  pose proof (pow10_pos p ltac:(lia)) as HP.
  pose proof (pow10_pos (p - 1) ltac:(lia)) as HP1.
  assert (HP10 : pow10 p = 10 * pow10 (p - 1)).
  { replace p with ((p - 1) + 1) at 1 by lia. apply pow10_succ. lia. }
  assert (Hm2 : pow10 (2 * p + 1) = 10 * (pow10 p * pow10 p)).
  { replace (2 * p + 1) with ((p + p) + 1) by lia. rewrite pow10_succ, pow10_add by lia. reflexivity. }
  assert (Hsp : pow10 p <= s).
  { destruct (Z_lt_le_dec s (pow10 p)) as [L|G]; [exfalso|exact G].
    assert ((s + 1) * (s + 1) <= pow10 p * pow10 p) by (apply sq_le_mono; lia). nia. }
  set (f := if s * s =? m then 0 else 1) in *.
  assert (Hf : (f = 0 /\ s * s = m) \/ (f = 1 /\ s * s < m)).
  { unfold f. destruct (s * s =? m) eqn:Ef; [apply Z.eqb_eq in Ef|apply Z.eqb_neq in Ef]; [left|right]; lia. }
  set (t := s * 10 + f) in *.
  assert (Ht0 : 0 <= t) by (unfold t; lia).
  assert (Htd : p + 1 < ndigits t).
  { destruct (Z_le_gt_dec (ndigits t) (p + 1)) as [L|G]; [exfalso|lia].
    apply (ndigits_le_iff t (p + 1)) in L; [|lia|lia]. rewrite pow10_succ in L by lia. unfold t in L. lia. }
  pose proof (round_he_unit p t (E - 1) c' e' Ht0 Hp ltac:(lia) Hr) as Hu. cbn zeta in Hu.
  pose proof (round_he_full p t (E - 1) c' e' Ht0 Hp ltac:(lia) Hr) as [Hfull _]. fold (pow10 (p - 1)) in Hfull.
  set (d := ndigits t - p) in *.
  destruct Hu as (_ & (Hlo & Hhi) & He' & Hc' & Hnear & Htie).
  exists (d - 1). split; [lia|]. split; [lia|]. split; [lia|].
  replace (E + (d - 1)) with (E - 1 + d) by lia.
  set (M := c' * pow10 (e' - (E - 1 + d))) in *.
  assert (HM1 : 1 <= M).
  { unfold M. pose proof (pow10_pos (e' - (E - 1 + d)) ltac:(lia)). nia. }
  assert (Hd : pow10 d = 10 * pow10 (d - 1)).
  { replace d with ((d - 1) + 1) at 1 by lia. apply pow10_succ. lia. }
  assert (Hd2 : pow10 (d - 1) = 2 * (5 * pow10 (d - 2))).
  { replace (d - 1) with ((d - 2) + 1) by lia. rewrite pow10_succ by lia. lia. }
  pose proof (pow10_pos (d - 2) ltac:(lia)) as HW2.
  rewrite Hd in Hlo, Hhi, Hnear, Htie.
  set (W := pow10 (d - 1)) in *. set (W2 := 5 * pow10 (d - 2)) in *.
  set (P := pow10 p) in *. set (P1 := pow10 (p - 1)) in *.
  clearbody W W2 P P1 M f s. clear Hr Hm2 Hm Hm0 Htd.
  subst t. subst W.
  (* the products as atoms *)
  assert (HMW : M * (10 * (2 * W2)) = 20 * (M * W2)) by ring. rewrite HMW in Hnear, Htie.
  assert (HP1W : P1 * (10 * (2 * W2)) = 20 * (P1 * W2)) by ring. rewrite HP1W in Hlo.
  assert (HPW : P * (10 * (2 * W2)) = 20 * (P * W2)) by ring. rewrite HPW in Hhi.
  set (Y := M * W2) in *. set (X1 := P1 * W2) in *. set (X := P * W2) in *.
  assert (HY : W2 <= Y) by (unfold Y; nia).
  unfold sqrt_unit_ok. split; [lia|].
  replace (P1 * (2 * W2)) with (2 * X1) by (unfold X1; ring).
  replace (P * (2 * W2)) with (2 * X) by (unfold X; ring).
  replace ((2 * M - 1) * (2 * W2)) with (2 * (2 * Y - W2)) by (unfold Y; ring).
  replace ((2 * M + 1) * (2 * W2)) with (2 * (2 * Y + W2)) by (unfold Y; ring).
  assert (Hs1 : 2 * X1 <= s) by lia.
  assert (Hs2 : s + 1 <= 2 * X) by lia.
  assert (HX1 : 0 <= X1) by (unfold X1; nia).
  split; [split|split].
  - assert (2 * X1 * (2 * X1) <= s * s) by (apply sq_le_mono; lia). lia.
  - assert ((s + 1) * (s + 1) <= 2 * X * (2 * X)) by (apply sq_le_mono; lia). lia.
  - destruct Hf as [[Hf0 Hex]|[Hf1 Hin]].
    + assert (Hl : 2 * Y - W2 <= s) by lia.
      assert ((2 * Y - W2) * (2 * Y - W2) <= s * s) by (apply sq_le_mono; lia).
      assert (Hh : s <= 2 * Y + W2) by lia.
      assert (s * s <= (2 * Y + W2) * (2 * Y + W2)) by (apply sq_le_mono; lia).
      lia.
    + assert (Hl : 2 * Y - W2 <= s) by lia.
      assert ((2 * Y - W2) * (2 * Y - W2) <= s * s) by (apply sq_le_mono; lia).
      assert (Hh : s + 1 <= 2 * Y + W2) by lia.
      assert ((s + 1) * (s + 1) <= (2 * Y + W2) * (2 * Y + W2)) by (apply sq_le_mono; lia).
      lia.
  - intros Heq. apply Htie.
    destruct Hf as [[Hf0 Hex]|[Hf1 Hin]].
    + destruct Heq as [Heq|Heq].
      * assert (2 * Y - W2 = s) by (apply sq_eq_inv; lia). lia.
      * assert (s = 2 * Y + W2) by (apply sq_eq_inv; lia). lia.
    + exfalso.
      assert (Hl : 2 * Y - W2 <= s) by lia.
      assert ((2 * Y - W2) * (2 * Y - W2) <= s * s) by (apply sq_le_mono; lia).
      assert (Hh : s + 1 <= 2 * Y + W2) by lia.
      assert ((s + 1) * (s + 1) <= (2 * Y + W2) * (2 * Y + W2)) by (apply sq_le_mono; lia).
      lia.
Qed.

(* nearest-with-ties-to-even is monotone in the operand, across units: the units are powers of
   ten (equal, or one at least ten times the other) *)
Lemma sqrt_unit_mono P1 P V1 U1 M1 V2 U2 M2 : 0 < P1 -> P = 10 * P1 ->
  sqrt_unit_ok P1 P V1 U1 M1 -> sqrt_unit_ok P1 P V2 U2 M2 ->
  U1 = U2 \/ 10 * U1 <= U2 \/ 10 * U2 <= U1 ->
  V1 <= V2 -> M1 * U1 <= M2 * U2.
Proof.
  intros HP1 HP Hok1 Hok2 Htri HV.
  pose proof (sqrt_unit_range P1 P V1 U1 M1 HP1 ltac:(lia) Hok1) as HR1.
  pose proof (sqrt_unit_range P1 P V2 U2 M2 HP1 ltac:(lia) Hok2) as HR2.
  destruct Hok1 as (HU1 & (Hlo1 & Hhi1) & (Hl1 & Hh1) & Htie1).
  destruct Hok2 as (HU2 & (Hlo2 & Hhi2) & (Hl2 & Hh2) & Htie2).
  destruct Htri as [Heq|[Hlt|Hgt]].
  - subst U2. destruct (Z_le_gt_dec M1 M2) as [L|G]; [nia|exfalso].
    assert (Hc : (2 * M2 + 1) * U1 <= (2 * M1 - 1) * U1) by nia.
    assert (Hsq : (2 * M2 + 1) * U1 * ((2 * M2 + 1) * U1) <= (2 * M1 - 1) * U1 * ((2 * M1 - 1) * U1)).
    { apply sq_le_mono. nia. }
    assert (E1 : (2 * M1 - 1) * U1 * ((2 * M1 - 1) * U1) = 4 * V1) by lia.
    assert (E2 : 4 * V2 = (2 * M2 + 1) * U1 * ((2 * M2 + 1) * U1)) by lia.
    assert (E3 : (2 * M2 + 1) * U1 = (2 * M1 - 1) * U1).
    { apply sq_eq_inv; [nia|nia|lia]. }
    assert (E4 : M1 = M2 + 1) by nia.
    specialize (Htie1 (or_introl E1)). specialize (Htie2 (or_intror E2)).
    subst M1. rewrite Z.even_add, Htie2 in Htie1. discriminate Htie1.
  - assert (M1 * U1 <= P * U1) by nia.
    assert (P * U1 <= P1 * U2) by nia.
    assert (P1 * U2 <= M2 * U2) by nia.
    lia.
  - exfalso.
    assert (H1 : P * U2 <= P1 * U1) by nia.
    assert (H2 : P * U2 * (P * U2) <= P1 * U1 * (P1 * U1)).
    { apply sq_le_mono. nia. }
    lia.
Qed.

Lemma sqrt_unit_unique P1 P V U1 M1 U2 M2 : 0 < P1 -> P = 10 * P1 ->
  sqrt_unit_ok P1 P V U1 M1 -> sqrt_unit_ok P1 P V U2 M2 ->
  U1 = U2 \/ 10 * U1 <= U2 \/ 10 * U2 <= U1 ->
  M1 * U1 = M2 * U2.
Proof.
  intros HP1 HP Hok1 Hok2 Htri.
  pose proof (sqrt_unit_mono P1 P V U1 M1 V U2 M2 HP1 HP Hok1 Hok2 Htri ltac:(lia)) as A.
  pose proof (sqrt_unit_mono P1 P V U2 M2 V U1 M1 HP1 HP Hok2 Hok1 ltac:(lia) ltac:(lia)) as B.
  lia.
Qed.

(* an exact root M * U with P1 <= M < P is its own rounding *)
Lemma sqrt_unit_exact P1 P U M : 0 < P1 -> 0 < U -> P1 <= M < P ->
  sqrt_unit_ok P1 P ((M * U) * (M * U)) U M.
Proof.
  intros HP1 HU HM. split; [exact HU|]. split; [|split].
  - split.
    + apply sq_le_mono. nia.
    + apply sq_lt_mono. nia.
  - split.
    + replace (4 * (M * U * (M * U))) with (2 * M * U * (2 * M * U)) by ring. apply sq_le_mono. nia.
    + replace (4 * (M * U * (M * U))) with (2 * M * U * (2 * M * U)) by ring. apply sq_le_mono. nia.
  - intros [H|H]; exfalso.
    + replace (4 * (M * U * (M * U))) with (2 * M * U * (2 * M * U)) in H by ring.
      apply sq_eq_inv in H; nia.
    + replace (4 * (M * U * (M * U))) with (2 * M * U * (2 * M * U)) in H by ring.
      apply sq_eq_inv in H; nia.
Qed.

(* two powers of ten are equal or a factor of at least ten apart *)
Lemma pow10_trichotomy a b : 0 <= a -> 0 <= b ->
  pow10 a = pow10 b \/ 10 * pow10 a <= pow10 b \/ 10 * pow10 b <= pow10 a.
Proof.
  intros Ha Hb. destruct (Z.lt_trichotomy a b) as [L|[E|G]].
  - right. left. rewrite <- pow10_succ by lia. apply pow10_le. lia.
  - left. subst b. reflexivity.
  - right. right. rewrite <- pow10_succ by lia. apply pow10_le. lia.
Qed.

(* ---------- sqrt_pos on integers ---------- *)

(* There are a base exponent b (the operand is an integer in units of 10^(2b)) and the exponent u
   of the unit of the p-th significant digit of the root, b < u <= e'; the result coefficient has
   exactly p digits; read at any base z <= b, the result c' * 10^e' = M * 10^u is the root of
   c * 10^e rounded to a multiple of 10^u, nearest, ties to even. *)
Lemma sqrt_pos_spec p c e c' e' : 0 < p -> 0 < c -> sqrt_pos p c e = (c', e') ->
  exists b u, 2 * b <= e /\ b < u <= e' /\ pow10 (p - 1) <= c' < pow10 p /\
    forall z, z <= b ->
      sqrt_unit_ok (pow10 (p - 1)) (pow10 p) (c * pow10 (e - 2 * z)) (pow10 (u - z)) (c' * pow10 (e' - u)).
Proof.
  intros Hp Hc. unfold sqrt_pos.
  set (h := e / 2). set (c1 := if Z.odd e then c * 10 else c).
  set (k := sqrt_shift p (ndigits c1)).
  pose proof (half_split e) as He. fold h in He.
  pose proof (sqrt_shift_spec p (ndigits c1)) as [Hk0 Hk]. fold k in Hk0, Hk.
  assert (Hc1 : 0 < c1) by (unfold c1; destruct (Z.odd e); lia).
  assert (Hm : c1 * pow10 (2 * k) = c * pow10 (e - 2 * (h - k))).
  { unfold c1. destruct (Z.odd e).
    - replace (e - 2 * (h - k)) with (2 * k + 1) by lia. rewrite pow10_succ by lia. ring.
    - replace (e - 2 * (h - k)) with (2 * k) by lia. reflexivity. }
  assert (Hbig : pow10 (2 * p + 1) <= c1 * pow10 (2 * k)).
  { pose proof (ndigits_bounds c1 Hc1) as [Hlo _]. pose proof (ndigits_pos c1) as Hn.
    pose proof (pow10_le (2 * p + 1) (ndigits c1 - 1 + 2 * k) ltac:(lia)) as Hle.
    rewrite (pow10_add (ndigits c1 - 1) (2 * k)) in Hle by lia.
    pose proof (pow10_pos (2 * k) ltac:(lia)) as Hpk.
    pose proof (Z.mul_le_mono_nonneg_r _ _ (pow10 (2 * k)) ltac:(lia) Hlo) as Hmul. lia. }
  set (m := c1 * pow10 (2 * k)) in *.
  intros Hr.
  destruct (sqrt_round_core p m (h - k) c' e' Hp Hbig Hr) as (w & Hw & He' & Hc' & Hok).
  exists (h - k), (h - k + w).
  split; [destruct (Z.odd e); lia|]. split; [lia|]. split; [exact Hc'|].
  intros z Hz.
  replace (e - 2 * z) with ((e - 2 * (h - k)) + 2 * (h - k - z)) by lia.
  replace (h - k + w - z) with (w + (h - k - z)) by lia.
  assert (He0 : 0 <= e - 2 * (h - k)) by (destruct (Z.odd e); lia).
  rewrite !pow10_add by lia. rewrite Z.mul_assoc, <- Hm.
  replace (2 * (h - k - z)) with ((h - k - z) + (h - k - z)) by lia. rewrite pow10_add by lia.
  apply sqrt_unit_scale; [apply pow10_pos; lia|exact Hok].
Qed.

(* the bracket of sqrt_unit_ok read at the result's own last place (the result coefficient c' may
   stand G = 10^(e'-u) units above the rounding unit, after a carry to the next power of ten) *)
Lemma sqrt_unit_coarsen P1 P V U M c' G : 1 <= c' -> 1 <= G -> M = c' * G ->
  sqrt_unit_ok P1 P V U M ->
  ((2 * c' - 1) * (G * U)) * ((2 * c' - 1) * (G * U)) <= 4 * V /\
  4 * V <= ((2 * c' + 1) * (G * U)) * ((2 * c' + 1) * (G * U)) /\
  (((2 * c' - 1) * (G * U)) * ((2 * c' - 1) * (G * U)) = 4 * V \/
   4 * V = ((2 * c' + 1) * (G * U)) * ((2 * c' + 1) * (G * U)) -> Z.even c' = true).
Proof.
  intros Hc' HG HM (HU & _ & (Hl & Hh) & Htie).
  assert (A : (2 * c' - 1) * (G * U) <= (2 * M - 1) * U) by (subst M; nia).
  assert (A0 : 0 <= (2 * c' - 1) * (G * U)) by nia.
  assert (B : (2 * M + 1) * U <= (2 * c' + 1) * (G * U)) by (subst M; nia).
  assert (B0 : 0 <= (2 * M + 1) * U) by (subst M; nia).
  pose proof (sq_le_mono _ _ (conj A0 A)) as A2.
  pose proof (sq_le_mono _ _ (conj B0 B)) as B2.
  split; [lia|]. split; [lia|].
  intros Heq.
  destruct (Z.eq_dec G 1) as [->|HG1].
  - replace M with c' in * by lia. apply Htie.
    replace (1 * U) with U in Heq by lia. exact Heq.
  - exfalso.
    assert (A' : (2 * c' - 1) * (G * U) < (2 * M - 1) * U) by (subst M; nia).
    assert (B' : (2 * M + 1) * U < (2 * c' + 1) * (G * U)) by (subst M; nia).
    pose proof (sq_lt_mono _ _ (conj A0 A')) as A3.
    pose proof (sq_lt_mono _ _ (conj B0 B')) as B3.
    lia.
Qed.

(* ---------- values ---------- *)

Open Scope Q_scope.

Lemma q10_rebase A a z : (z <= a)%Z -> inject_Z A * q10 a == inject_Z (A * pow10 (a - z)) * q10 z.
Proof. intros H. rewrite (q10_split a z H), inject_Z_mult. ring. Qed.

Lemma q10_le_iff A a B b z : (z <= a)%Z -> (z <= b)%Z ->
  (inject_Z A * q10 a <= inject_Z B * q10 b <-> (A * pow10 (a - z) <= B * pow10 (b - z))%Z).
Proof.
  intros Ha Hb. rewrite (q10_rebase A a z Ha), (q10_rebase B b z Hb).
  rewrite Qmult_le_r by apply q10_pos. rewrite <- Zle_Qle. reflexivity.
Qed.

Lemma q10_lt_iff A a B b z : (z <= a)%Z -> (z <= b)%Z ->
  (inject_Z A * q10 a < inject_Z B * q10 b <-> (A * pow10 (a - z) < B * pow10 (b - z))%Z).
Proof.
  intros Ha Hb. rewrite (q10_rebase A a z Ha), (q10_rebase B b z Hb).
  rewrite Qmult_lt_r by apply q10_pos. rewrite <- Zlt_Qlt. reflexivity.
Qed.

Lemma q10_eq_iff A a B b z : (z <= a)%Z -> (z <= b)%Z ->
  (inject_Z A * q10 a == inject_Z B * q10 b <-> (A * pow10 (a - z) = B * pow10 (b - z))%Z).
Proof.
  intros Ha Hb. rewrite (q10_rebase A a z Ha), (q10_rebase B b z Hb). split.
  - intros H. apply Qmult_inj_r in H; [|apply q10_neq_0]. apply inject_Z_injective. exact H.
  - intros ->. reflexivity.
Qed.

Lemma dec_sqrt_pos p c e : (0 < c)%Z ->
  dec_sqrt p (Fin false c e) = let '(c', e') := sqrt_pos p c e in Fin false c' e'.
Proof.
  intros Hc. unfold dec_sqrt.
  replace (c =? 0)%Z with false by (symmetry; apply Z.eqb_neq; lia).
  replace (c <? 0)%Z with false by (symmetry; apply Z.ltb_ge; lia).
  reflexivity.
Qed.

Lemma pow10_double k : (0 <= k)%Z -> pow10 (2 * k) = (pow10 k * pow10 k)%Z.
Proof. intros Hk. replace (2 * k)%Z with (k + k)%Z by lia. apply pow10_add; lia. Qed.

(* (a) The result of a positive operand: positive, exactly p digits, within half a unit in its
   last place of the root - (2c' - 1)^2 * 10^(2e') <= 4 * c * 10^e <= (2c' + 1)^2 * 10^(2e') as
   rationals - and even when the root is exactly half-way. *)
Theorem dec_sqrt_bracket_full p c e n c' e' : (0 < p)%Z -> (0 < c)%Z ->
  dec_sqrt p (Fin false c e) = Fin n c' e' ->
  n = false /\ (pow10 (p - 1) <= c' < pow10 p)%Z /\ ndigits c' = p /\
  inject_Z ((2 * c' - 1) ^ 2) * q10 (2 * e') <= inject_Z (4 * c) * q10 e /\
  inject_Z (4 * c) * q10 e <= inject_Z ((2 * c' + 1) ^ 2) * q10 (2 * e') /\
  (inject_Z ((2 * c' - 1) ^ 2) * q10 (2 * e') == inject_Z (4 * c) * q10 e \/
   inject_Z (4 * c) * q10 e == inject_Z ((2 * c' + 1) ^ 2) * q10 (2 * e') -> Z.even c' = true).
Proof.
  intros Hp Hc. rewrite dec_sqrt_pos by exact Hc.
  destruct (sqrt_pos p c e) as [c0 e0] eqn:Hs. intros Heq. injection Heq as <- <- <-.
  destruct (sqrt_pos_spec p c e c0 e0 Hp Hc Hs) as (b & u & Hb & Hu & Hc0 & Hok).
  specialize (Hok b ltac:(lia)).
  pose proof (pow10_pos (p - 1) ltac:(lia)) as HP1.
  split; [reflexivity|]. split; [exact Hc0|]. split; [apply ndigits_unique; lia|].
  pose proof (pow10_pos (e0 - u) ltac:(lia)) as HG.
  pose proof (sqrt_unit_coarsen _ _ _ _ _ c0 (pow10 (e0 - u)) ltac:(lia) ltac:(lia) eq_refl Hok)
    as (Hl & Hh & Htie).
  rewrite <- pow10_add in Hl, Hh, Htie by lia.
  replace (e0 - u + (u - b))%Z with (e0 - b)%Z in Hl, Hh, Htie by lia.
  rewrite (q10_le_iff _ _ _ _ (2 * b)), (q10_le_iff _ _ _ _ (2 * b)), (q10_eq_iff _ _ _ _ (2 * b)),
    (q10_eq_iff _ _ _ _ (2 * b)) by lia.
  replace (2 * e0 - 2 * b)%Z with (2 * (e0 - b))%Z by lia.
  rewrite pow10_double by lia. rewrite !Z.pow_2_r.
  set (R := pow10 (e0 - b)) in *. set (V := (c * pow10 (e - 2 * b))%Z) in *.
  replace (4 * c * pow10 (e - 2 * b))%Z with (4 * V)%Z by (unfold V; ring).
  replace ((2 * c0 - 1) * (2 * c0 - 1) * (R * R))%Z with ((2 * c0 - 1) * R * ((2 * c0 - 1) * R))%Z by ring.
  replace ((2 * c0 + 1) * (2 * c0 + 1) * (R * R))%Z with ((2 * c0 + 1) * R * ((2 * c0 + 1) * R))%Z by ring.
  split; [exact Hl|]. split; [exact Hh|exact Htie].
Qed.

(* the form asked for by the property: at most p digits, the bracket, and exactness of any result
   of fewer than p digits (there is none: the coefficient always has exactly p digits) *)
Theorem dec_sqrt_bracket p c e n c' e' : (0 < p)%Z -> (0 < c)%Z ->
  dec_sqrt p (Fin false c e) = Fin n c' e' ->
  n = false /\ (0 < c')%Z /\ (ndigits c' <= p)%Z /\
  inject_Z ((2 * c' - 1) ^ 2) * q10 (2 * e') <= inject_Z (4 * c) * q10 e /\
  inject_Z (4 * c) * q10 e <= inject_Z ((2 * c' + 1) ^ 2) * q10 (2 * e') /\
  ((ndigits c' < p)%Z -> inject_Z (c' ^ 2) * q10 (2 * e') == inject_Z c * q10 e).
Proof.
  intros Hp Hc Hr.
  destruct (dec_sqrt_bracket_full p c e n c' e' Hp Hc Hr) as (Hn & Hc' & Hd & Hl & Hh & _).
  pose proof (pow10_pos (p - 1) ltac:(lia)) as HP1.
  split; [exact Hn|]. split; [lia|]. split; [lia|]. split; [exact Hl|]. split; [exact Hh|]. lia.
Qed.

Theorem dec_sqrt_tie_even p c e n c' e' : (0 < p)%Z -> (0 < c)%Z ->
  dec_sqrt p (Fin false c e) = Fin n c' e' ->
  inject_Z ((2 * c' - 1) ^ 2) * q10 (2 * e') == inject_Z (4 * c) * q10 e \/
  inject_Z (4 * c) * q10 e == inject_Z ((2 * c' + 1) ^ 2) * q10 (2 * e') -> Z.even c' = true.
Proof.
  intros Hp Hc Hr. apply (dec_sqrt_bracket_full p c e n c' e' Hp Hc Hr).
Qed.

(* the same bracket on integers: both sides multiplied by 10^(-z), z = min e (2e') *)
Theorem dec_sqrt_bracket_Z p c e n c' e' : (0 < p)%Z -> (0 < c)%Z ->
  dec_sqrt p (Fin false c e) = Fin n c' e' ->
  let z := Z.min e (2 * e') in
  ((2 * c' - 1) ^ 2 * 10 ^ (2 * e' - z) <= 4 * c * 10 ^ (e - z) /\
   4 * c * 10 ^ (e - z) <= (2 * c' + 1) ^ 2 * 10 ^ (2 * e' - z))%Z.
Proof.
  intros Hp Hc Hr. cbn zeta.
  destruct (dec_sqrt_bracket_full p c e n c' e' Hp Hc Hr) as (_ & _ & _ & Hl & Hh & _).
  apply (q10_le_iff _ _ _ _ (Z.min e (2 * e'))) in Hl; [|lia|lia].
  apply (q10_le_iff _ _ _ _ (Z.min e (2 * e'))) in Hh; [|lia|lia].
  split; [exact Hl|exact Hh].
Qed.

(* the value of a result of sqrt_pos, in units of 10^z for z below the rounding unit *)
Lemma result_units c' e' u z : (z <= u)%Z -> (u <= e')%Z ->
  (c' * pow10 (e' - z) = c' * pow10 (e' - u) * pow10 (u - z))%Z.
Proof.
  intros Hz Hu. replace (e' - z)%Z with ((e' - u) + (u - z))%Z by lia.
  rewrite pow10_add by lia. ring.
Qed.

(* (b) inverse to squaring: the root of the square of a number of at most p digits is that number *)
Theorem dec_sqrt_exact_square p c e a b : (0 < p)%Z -> (0 < c)%Z -> (0 < a)%Z -> (ndigits a <= p)%Z ->
  val (Fin false c e) == val (Fin false a b) * val (Fin false a b) ->
  val (dec_sqrt p (Fin false c e)) == val (Fin false a b).
Proof.
  intros Hp Hc Ha Hna Hsq. rewrite dec_sqrt_pos by exact Hc.
  destruct (sqrt_pos p c e) as [c0 e0] eqn:Hs.
  destruct (sqrt_pos_spec p c e c0 e0 Hp Hc Hs) as (b0 & u & Hb0 & Hu & Hc0 & Hok).
  cbn [val scoef] in *.
  pose proof (ndigits_pos a) as Hn1. pose proof (ndigits_bounds a Ha) as [Halo Hahi].
  set (g := (p - ndigits a)%Z) in *.
  assert (Hg : (0 <= g)%Z) by (unfold g; lia).
  pose proof (pow10_pos g Hg) as HGpos.
  (* a normalised to exactly p digits: a1 * 10^b1 = a * 10^b *)
  set (a1 := (a * pow10 g)%Z). set (b1 := (b - g)%Z).
  assert (Ha1 : (pow10 (p - 1) <= a1 < pow10 p)%Z).
  { unfold a1.
    assert (E1 : pow10 (p - 1) = (pow10 (ndigits a - 1) * pow10 g)%Z).
    { rewrite <- pow10_add by lia. f_equal. unfold g. lia. }
    assert (E2 : pow10 p = (pow10 (ndigits a) * pow10 g)%Z).
    { rewrite <- pow10_add by lia. f_equal. unfold g. lia. }
    rewrite E1, E2. split.
    - apply Z.mul_le_mono_nonneg_r; lia.
    - apply Z.mul_lt_mono_pos_r; lia. }
  set (z := Z.min b0 b1).
  specialize (Hok z ltac:(unfold z; lia)).
  pose proof (pow10_pos (p - 1) ltac:(lia)) as HP1.
  assert (HP10 : pow10 p = (10 * pow10 (p - 1))%Z).
  { replace p with ((p - 1) + 1)%Z at 1 by lia. apply pow10_succ. lia. }
  pose proof (sqrt_unit_exact (pow10 (p - 1)) (pow10 p) (pow10 (b1 - z)) a1 HP1
                ltac:(apply pow10_pos; unfold z; lia) Ha1) as Hex.
  (* the operand is that square *)
  assert (HV : (c * pow10 (e - 2 * z) = a1 * pow10 (b1 - z) * (a1 * pow10 (b1 - z)))%Z).
  { assert (Hsq' : inject_Z c * q10 e == inject_Z (a * a) * q10 (2 * b)).
    { rewrite Hsq. replace (2 * b)%Z with (b + b)%Z by lia. rewrite q10_add, inject_Z_mult. ring. }
    apply (q10_eq_iff _ _ _ _ (2 * z)) in Hsq'; [|unfold z; lia|unfold z, b1; lia].
    rewrite Hsq'. unfold a1.
    replace (2 * b - 2 * z)%Z with (2 * (b - z))%Z by lia. rewrite pow10_double by (unfold z, b1; lia).
    replace (b - z)%Z with (g + (b1 - z))%Z by (unfold b1; lia).
    rewrite pow10_add by (unfold z; lia). ring. }
  rewrite HV in Hok.
  pose proof (sqrt_unit_unique _ _ _ _ _ _ _ HP1 HP10 Hok Hex
                (pow10_trichotomy (u - z) (b1 - z) ltac:(unfold z; lia) ltac:(unfold z; lia))) as Heq.
  apply (q10_eq_iff _ _ _ _ z); [unfold z; lia|unfold z, b1; lia|].
  rewrite (result_units c0 e0 u z) by (unfold z; lia). rewrite Heq. unfold a1.
  replace (b - z)%Z with (g + (b1 - z))%Z by (unfold b1; lia).
  rewrite pow10_add by (unfold z; lia). ring.
Qed.

(* (c) monotone on positive operands *)
Theorem dec_sqrt_monotone_pos p c1 e1 c2 e2 : (0 < p)%Z -> (0 < c1)%Z -> (0 < c2)%Z ->
  val (Fin false c1 e1) <= val (Fin false c2 e2) ->
  val (dec_sqrt p (Fin false c1 e1)) <= val (dec_sqrt p (Fin false c2 e2)).
Proof.
  intros Hp Hc1 Hc2 Hle. rewrite !dec_sqrt_pos by assumption.
  destruct (sqrt_pos p c1 e1) as [r1 f1] eqn:Hs1. destruct (sqrt_pos p c2 e2) as [r2 f2] eqn:Hs2.
  destruct (sqrt_pos_spec p c1 e1 r1 f1 Hp Hc1 Hs1) as (b1 & u1 & Hb1 & Hu1 & Hr1 & Hok1).
  destruct (sqrt_pos_spec p c2 e2 r2 f2 Hp Hc2 Hs2) as (b2 & u2 & Hb2 & Hu2 & Hr2 & Hok2).
  cbn [val scoef] in *.
  set (z := Z.min b1 b2).
  specialize (Hok1 z ltac:(unfold z; lia)). specialize (Hok2 z ltac:(unfold z; lia)).
  pose proof (pow10_pos (p - 1) ltac:(lia)) as HP1.
  assert (HP10 : pow10 p = (10 * pow10 (p - 1))%Z).
  { replace p with ((p - 1) + 1)%Z at 1 by lia. apply pow10_succ. lia. }
  apply (q10_le_iff _ _ _ _ (2 * z)) in Hle; [|unfold z; lia|unfold z; lia].
  pose proof (sqrt_unit_mono _ _ _ _ _ _ _ _ HP1 HP10 Hok1 Hok2
                (pow10_trichotomy (u1 - z) (u2 - z) ltac:(unfold z; lia) ltac:(unfold z; lia)) Hle) as Hm.
  apply (q10_le_iff _ _ _ _ z); [unfold z; lia|unfold z; lia|].
  rewrite (result_units r1 f1 u1 z), (result_units r2 f2 u2 z) by (unfold z; lia). exact Hm.
Qed.

(* the value of a root is never negative *)
Lemma dec_sqrt_val_nonneg p n c e : (0 < p)%Z -> 0 <= val (dec_sqrt p (Fin n c e)).
Proof.
  intros Hp. unfold dec_sqrt.
  destruct (c =? 0)%Z eqn:E0.
  - rewrite val_zero. apply Qle_refl.
  - destruct (n || (c <? 0)%Z) eqn:En; [apply Qle_refl|].
    apply orb_false_iff in En. destruct En as [-> En]. apply Z.ltb_ge in En. apply Z.eqb_neq in E0.
    destruct (sqrt_pos p c e) as [c0 e0] eqn:Hs.
    destruct (sqrt_pos_spec p c e c0 e0 Hp ltac:(lia) Hs) as (_ & _ & _ & _ & Hc0 & _).
    pose proof (pow10_pos (p - 1) ltac:(lia)) as HP1.
    cbn [val scoef]. apply Qmult_le_0_compat; [|apply Qlt_le_weak, q10_pos].
    change (inject_Z 0 <= inject_Z c0). rewrite <- Zle_Qle. lia.
Qed.

(* (c) monotone on all non-negative finite operands (zero included) *)
Theorem dec_sqrt_monotone p c1 e1 c2 e2 : (0 < p)%Z -> (0 <= c1)%Z -> (0 <= c2)%Z ->
  val (Fin false c1 e1) <= val (Fin false c2 e2) ->
  val (dec_sqrt p (Fin false c1 e1)) <= val (dec_sqrt p (Fin false c2 e2)).
Proof.
  intros Hp Hc1 Hc2 Hle.
  destruct (Z.eq_dec c1 0) as [->|N1].
  - change (dec_sqrt p (Fin false 0 e1)) with (Fin false 0 (e1 / 2)). rewrite val_zero.
    apply dec_sqrt_val_nonneg. exact Hp.
  - destruct (Z.eq_dec c2 0) as [->|N2].
    + exfalso. rewrite val_zero in Hle. cbn [val scoef] in Hle.
      assert (Hpos : 0 < inject_Z c1 * q10 e1).
      { apply Qmult_lt_0_compat; [|apply q10_pos]. change (inject_Z 0 < inject_Z c1). rewrite <- Zlt_Qlt. lia. }
      apply (Qlt_irrefl 0). apply (Qlt_le_trans _ _ _ Hpos Hle).
    + apply dec_sqrt_monotone_pos; [exact Hp|lia|lia|exact Hle].
Qed.

(* (d) special operands *)
Theorem dec_sqrt_special p :
  dec_sqrt p NaN = NaN /\
  dec_sqrt p (Inf false) = Inf false /\
  dec_sqrt p (Inf true) = NaN /\
  (forall n e, dec_sqrt p (Fin n 0 e) = Fin n 0 (e / 2)) /\
  (forall c e, (0 < c)%Z -> dec_sqrt p (Fin true c e) = NaN) /\
  (forall c e, (0 < c)%Z -> exists c' e', dec_sqrt p (Fin false c e) = Fin false c' e').
Proof.
  split; [reflexivity|]. split; [reflexivity|]. split; [reflexivity|].
  split; [reflexivity|]. split.
  - intros c e Hc. unfold dec_sqrt.
    replace (c =? 0)%Z with false by (symmetry; apply Z.eqb_neq; lia). reflexivity.
  - intros c e Hc. rewrite dec_sqrt_pos by exact Hc.
    destruct (sqrt_pos p c e) as [c' e']. exists c', e'. reflexivity.
Qed.

(* ---------- "correctly rounded", as one predicate on values ---------- *)

(* [sqrt_rounds_to p c e r]: r is the square root of v = c * 10^e rounded half-even to p
   significant digits.  r = c' * 10^e' with exactly p digits; 10^u (u <= e') is the unit of the p-th
   significant digit of the root (10^(p-1) * 10^u <= root < 10^p * 10^u, squared); r = M * 10^u is
   within half a unit of the root (squared), and M is even when the root is exactly half-way. *)
Definition sqrt_unit_okQ (p c e u M : Z) : Prop :=
  (inject_Z (pow10 (p - 1) ^ 2) * q10 (2 * u) <= inject_Z c * q10 e /\
   inject_Z c * q10 e < inject_Z (pow10 p ^ 2) * q10 (2 * u)) /\
  (inject_Z ((2 * M - 1) ^ 2) * q10 (2 * u) <= inject_Z (4 * c) * q10 e /\
   inject_Z (4 * c) * q10 e <= inject_Z ((2 * M + 1) ^ 2) * q10 (2 * u)) /\
  (inject_Z ((2 * M - 1) ^ 2) * q10 (2 * u) == inject_Z (4 * c) * q10 e \/
   inject_Z (4 * c) * q10 e == inject_Z ((2 * M + 1) ^ 2) * q10 (2 * u) -> Z.even M = true).

Definition sqrt_rounds_to (p c e : Z) (r : dec) : Prop :=
  exists c' e' u, r = Fin false c' e' /\ (pow10 (p - 1) <= c' < pow10 p)%Z /\ (u <= e')%Z /\
    sqrt_unit_okQ p c e u (c' * pow10 (e' - u)).

Lemma sqrt_unit_okQ_iff p c e u M z : (2 * z <= e)%Z -> (z <= u)%Z ->
  (sqrt_unit_okQ p c e u M <->
   sqrt_unit_ok (pow10 (p - 1)) (pow10 p) (c * pow10 (e - 2 * z)) (pow10 (u - z)) M).
Proof.
  intros Hz Hu. unfold sqrt_unit_okQ, sqrt_unit_ok.
  rewrite !(q10_le_iff _ _ _ _ (2 * z)) by lia.
  rewrite !(q10_lt_iff _ _ _ _ (2 * z)) by lia.
  rewrite !(q10_eq_iff _ _ _ _ (2 * z)) by lia.
  replace (2 * u - 2 * z)%Z with (2 * (u - z))%Z by lia. rewrite pow10_double by lia.
  rewrite !Z.pow_2_r.
  pose proof (pow10_pos (u - z) ltac:(lia)) as HU.
  set (U := pow10 (u - z)) in *. set (P1 := pow10 (p - 1)). set (P := pow10 p).
  set (V := (c * pow10 (e - 2 * z))%Z).
  replace (4 * c * pow10 (e - 2 * z))%Z with (4 * V)%Z by (unfold V; ring).
  replace (P1 * P1 * (U * U))%Z with (P1 * U * (P1 * U))%Z by ring.
  replace (P * P * (U * U))%Z with (P * U * (P * U))%Z by ring.
  replace ((2 * M - 1) * (2 * M - 1) * (U * U))%Z with ((2 * M - 1) * U * ((2 * M - 1) * U))%Z by ring.
  replace ((2 * M + 1) * (2 * M + 1) * (U * U))%Z with ((2 * M + 1) * U * ((2 * M + 1) * U))%Z by ring.
  tauto.
Qed.

Theorem dec_sqrt_correctly_rounded p c e : (0 < p)%Z -> (0 < c)%Z ->
  sqrt_rounds_to p c e (dec_sqrt p (Fin false c e)).
Proof.
  intros Hp Hc. rewrite dec_sqrt_pos by exact Hc.
  destruct (sqrt_pos p c e) as [c0 e0] eqn:Hs.
  destruct (sqrt_pos_spec p c e c0 e0 Hp Hc Hs) as (b & u & Hb & Hu & Hc0 & Hok).
  exists c0, e0, u. split; [reflexivity|]. split; [exact Hc0|]. split; [lia|].
  apply (sqrt_unit_okQ_iff p c e u _ b); [lia|lia|]. apply Hok. lia.
Qed.

(* the predicate determines the value, and is monotone in the operand: any two decimals that are
   correctly rounded roots of v1 <= v2 (whatever the representations of v1, v2) are ordered *)
Theorem sqrt_rounds_to_monotone p c1 e1 r1 c2 e2 r2 : (0 < p)%Z ->
  sqrt_rounds_to p c1 e1 r1 -> sqrt_rounds_to p c2 e2 r2 ->
  inject_Z c1 * q10 e1 <= inject_Z c2 * q10 e2 -> val r1 <= val r2.
Proof.
  intros Hp (a1 & f1 & u1 & -> & Ha1 & Hu1 & Hq1) (a2 & f2 & u2 & -> & Ha2 & Hu2 & Hq2) Hle.
  set (z := Z.min (Z.min (e1 / 2) (e2 / 2)) (Z.min u1 u2)).
  pose proof (half_split e1) as He1. pose proof (half_split e2) as He2.
  assert (Hz1 : (2 * z <= e1)%Z) by (unfold z; destruct (Z.odd e1); lia).
  assert (Hz2 : (2 * z <= e2)%Z) by (unfold z; destruct (Z.odd e2); lia).
  apply (sqrt_unit_okQ_iff p c1 e1 u1 _ z) in Hq1; [|lia|unfold z; lia].
  apply (sqrt_unit_okQ_iff p c2 e2 u2 _ z) in Hq2; [|lia|unfold z; lia].
  pose proof (pow10_pos (p - 1) ltac:(lia)) as HP1.
  assert (HP10 : pow10 p = (10 * pow10 (p - 1))%Z).
  { replace p with ((p - 1) + 1)%Z at 1 by lia. apply pow10_succ. lia. }
  apply (q10_le_iff _ _ _ _ (2 * z)) in Hle; [|lia|lia].
  pose proof (sqrt_unit_mono _ _ _ _ _ _ _ _ HP1 HP10 Hq1 Hq2
                (pow10_trichotomy (u1 - z) (u2 - z) ltac:(unfold z; lia) ltac:(unfold z; lia)) Hle) as Hm.
  cbn [val scoef].
  apply (q10_le_iff _ _ _ _ z); [unfold z; lia|unfold z; lia|].
  rewrite (result_units a1 f1 u1 z), (result_units a2 f2 u2 z) by (unfold z; lia). exact Hm.
Qed.

Theorem sqrt_rounds_to_unique p c1 e1 r1 c2 e2 r2 : (0 < p)%Z ->
  sqrt_rounds_to p c1 e1 r1 -> sqrt_rounds_to p c2 e2 r2 ->
  inject_Z c1 * q10 e1 == inject_Z c2 * q10 e2 -> val r1 == val r2.
Proof.
  intros Hp H1 H2 Heq. apply Qle_antisym.
  - apply (sqrt_rounds_to_monotone p c1 e1 r1 c2 e2 r2 Hp H1 H2). rewrite Heq. apply Qle_refl.
  - apply (sqrt_rounds_to_monotone p c2 e2 r2 c1 e1 r1 Hp H2 H1). rewrite Heq. apply Qle_refl.
Qed.

(* the result does not depend on the representation of the operand (4 = 4.0 = 0.40e1) *)
Corollary dec_sqrt_representation_independent p c1 e1 c2 e2 : (0 < p)%Z -> (0 < c1)%Z -> (0 < c2)%Z ->
  val (Fin false c1 e1) == val (Fin false c2 e2) ->
  val (dec_sqrt p (Fin false c1 e1)) == val (dec_sqrt p (Fin false c2 e2)).
Proof.
  intros Hp Hc1 Hc2 Hv. cbn [val scoef] in Hv.
  apply (sqrt_rounds_to_unique p c1 e1 _ c2 e2 _ Hp); [| |exact Hv];
    apply dec_sqrt_correctly_rounded; assumption.
Qed.

(* ---------- examples ---------- *)

Close Scope Q_scope.
Open Scope Z_scope.

(* same value: dec_cmp = 0 *)
Definition same_value (x y : dec) : bool := dec_cmp x y =? 0.

Example dec_sqrt16_examples :
  (* sqrt 4 = 2 *)
  dec_sqrt16 (Fin false 4 0) = Fin false 2000000000000000 (-15) /\
  same_value (dec_sqrt16 (Fin false 4 0)) (Fin false 2 0) = true /\
  dec_reduce (dec_sqrt16 (Fin false 4 0)) = Fin false 2 0 /\
  (* sqrt 2 = 1.414213562373095 *)
  dec_sqrt16 (Fin false 2 0) = Fin false 1414213562373095 (-15) /\
  (* sqrt 0.25 = 0.5 *)
  same_value (dec_sqrt16 (Fin false 25 (-2))) (Fin false 5 (-1)) = true /\
  dec_reduce (dec_sqrt16 (Fin false 25 (-2))) = Fin false 5 (-1) /\
  (* sqrt 1e-7 = 0.0003162277660168379 *)
  dec_sqrt16 (Fin false 1 (-7)) = Fin false 3162277660168379 (-19) /\
  (* sqrt 10 = 3.162277660168379 *)
  dec_sqrt16 (Fin false 10 0) = Fin false 3162277660168379 (-15) /\
  (* sqrt 15241578750190521 = 123456789, exact *)
  same_value (dec_sqrt16 (Fin false 15241578750190521 0)) (Fin false 123456789 0) = true /\
  dec_reduce (dec_sqrt16 (Fin false 15241578750190521 0)) = Fin false 123456789 0 /\
  (* sqrt 1e30 = 1e15 *)
  same_value (dec_sqrt16 (Fin false 1 30)) (Fin false 1 15) = true /\
  dec_reduce (dec_sqrt16 (Fin false 1 30)) = Fin false 1 15 /\
  (* sqrt 0 = 0, of either sign, exponent halved (floor) *)
  dec_sqrt16 (Fin false 0 0) = Fin false 0 0 /\
  dec_sqrt16 (Fin true 0 (-3)) = Fin true 0 (-2) /\
  (* sqrt (-1) = NaN *)
  dec_sqrt16 (Fin true 1 0) = NaN /\
  (* 32 nines: rounds up to 1e16 *)
  dec_sqrt16 (Fin false 99999999999999999999999999999999 0) = Fin false 1000000000000000 1 /\
  same_value (dec_sqrt16 (Fin false 99999999999999999999999999999999 0)) (Fin false 1 16) = true /\
  (* odd exponent, tie-free rounding up; infinities *)
  dec_sqrt16 (Fin false 2 1) = Fin false 4472135954999579 (-15) /\
  dec_sqrt16 (Inf false) = Inf false /\ dec_sqrt16 (Inf true) = NaN /\ dec_sqrt16 NaN = NaN.
Proof. vm_compute. repeat split. Qed.

Print Assumptions dec_sqrt_bracket_full.
Print Assumptions dec_sqrt_bracket.
Print Assumptions dec_sqrt_bracket_Z.
Print Assumptions dec_sqrt_tie_even.
Print Assumptions dec_sqrt_exact_square.
Print Assumptions dec_sqrt_monotone.
Print Assumptions dec_sqrt_special.
Print Assumptions dec_sqrt_correctly_rounded.
Print Assumptions sqrt_rounds_to_unique.
Print Assumptions dec_sqrt_representation_independent.
Print Assumptions dec_sqrt16_examples.
