(* C20: the runner (a reference into a heap of caller-owned maps + an auxiliary store) behaves
   like a plain data map (held by value) plus a separate key-value store. *)
From Coq Require Import String List ZArith Lia Bool.
From Formula Require Import Sem.Eval Sem.Runner Proofs.RunnerFactsEval.
Import ListNotations.
Local Open Scope Z_scope.

(* ---------- the heap ---------- *)

Lemma heap_get_set_same : forall id m h, heap_get id (heap_set id m h) = m.
Proof.
  intros id m h. induction h as [|[i m'] t IH]; cbn [heap_set heap_get].
  - rewrite Z.eqb_refl. reflexivity.
  - destruct (i =? id) eqn:E; cbn [heap_get]; rewrite E; [reflexivity | exact IH].
Qed.

Lemma heap_get_set_other : forall id id' m h, id' <> id -> heap_get id' (heap_set id m h) = heap_get id' h.
Proof.
  intros id id' m h Hne. induction h as [|[i m'] t IH]; cbn [heap_set heap_get].
  - destruct (id =? id') eqn:E; [apply Z.eqb_eq in E; congruence | reflexivity].
  - destruct (i =? id) eqn:E; cbn [heap_get].
    + apply Z.eqb_eq in E. subst i.
      destruct (id =? id') eqn:E2; [apply Z.eqb_eq in E2; congruence | reflexivity].
    + destruct (i =? id'); [reflexivity | exact IH].
Qed.

(* ---------- the abstract machine ---------- *)

(* operations of the simple model.  The data map is passed BY VALUE. *)
Inductive aop :=
| ASetData (m : option gomap)                 (* replace the data map (None = no map) *)
| ASetEntry (k : list Z) (v : value)          (* set one entry; creates the map when there is none *)
| AEval (e : sexpr)                           (* evaluate a formula *)
| AStore (k : list Z) (v : value)             (* auxiliary store: set *)
| AFetch (k : list Z)                         (* auxiliary store: get *)
| ANop.                                       (* something that does not concern this runner *)

Section Run.
Variable hosts : list (Z * hostfn).
Variable off : Z.

Definition astep (a : amodel) (o : aop) : amodel * robs :=
  match o with
  | ASetData m => (mkA m (a_store a), ObsNone)
  | ASetEntry k v =>
    (mkA (Some (assoc_set k v (match a_data a with Some m => m | None => [] end))) (a_store a), ObsNone)
  | AEval e =>
    let '(out, st') := resolve_entry hosts off e (mkR (a_data a) []) in
    (mkA (r_this st') (a_store a), ObsValue out)
  | AStore k v => (mkA (a_data a) (assoc_set k v (a_store a)), ObsNone)
  | AFetch k => (a, ObsGet (match assoc k (a_store a) with Some v => v | None => VNull end))
  | ANop => (a, ObsNone)
  end.

Fixpoint arun (a : amodel) (ops : list aop) : list robs :=
  match ops with
  | [] => []
  | o :: t => let '(a', ob) := astep a o in ob :: arun a' t
  end.

(* abstraction: what the formulas of runner r see, and its store *)
Definition abs (r : runner) : amodel :=
  mkA (match this_ref r with Some id => Some (heap_get id (heap r)) | None => None end) (aux r).

(* the abstract reading of a concrete operation in runner state r: SetThis(map id) hands over
   the CURRENT CONTENT of the caller's map id (which includes whatever the runner wrote into it
   while it was attached); a write of the caller into one of its maps is an entry update when
   that map is the attached one and does not concern the runner otherwise *)
Definition absop (r : runner) (o : rop) : aop :=
  match o with
  | OpSetThis None => ASetData None
  | OpSetThis (Some id) => ASetData (Some (heap_get id (heap r)))
  | OpSetThisValue k v => ASetEntry k v
  | OpResolve e => AEval e
  | OpSet k v => AStore k v
  | OpGet k => AFetch k
  | OpCallerWrite id k v =>
    match this_ref r with
    | Some id' => if id' =? id then ASetEntry k v else ANop
    | None => ANop
    end
  end.

Fixpoint abs_ops (r : runner) (ops : list rop) : list aop :=
  match ops with
  | [] => []
  | o :: t => absop r o :: abs_ops (fst (rstep hosts off r o)) t
  end.

(* ---------- evaluation never unsets the data map ---------- *)

Lemma resolve_entry_snd : forall e st, snd (resolve_entry hosts off e st) = snd (eval hosts off e st).
Proof.
  intros e st. unfold resolve_entry. destruct (eval hosts off e st) as [[v| | |] st']; reflexivity.
Qed.

Lemma eval_keeps_map : forall e st,
  r_this st <> None -> r_this (snd (eval hosts off e st)) <> None.
Proof.
  intros e st.
  apply (eval_inv hosts off (fun s s' => r_this s <> None -> r_this s' <> None) (fun _ => True)).
  - intros s H. exact H.
  - intros a b c H1 H2 H. exact (H2 (H1 H)).
  - intros this tr tr' H. exact H.
  - intros n v s _ _. unfold set_this_value. cbn [r_this]. discriminate.
  - intros n _. exact I.
Qed.

(* ---------- simulation ---------- *)

Lemma rstep_simulates : forall r o,
  astep (abs r) (absop r o) = (abs (fst (rstep hosts off r o)), snd (rstep hosts off r o)).
Proof.
  intros r o. destruct o as [[id|]|k v|e|k v|k|id k v].
  - reflexivity.
  - reflexivity.
  - cbn [absop rstep]. unfold abs at 1. cbn [astep a_data a_store]. destruct (this_ref r) as [id|] eqn:Eref.
    + cbn [fst snd]; unfold abs; cbn [this_ref heap aux]. rewrite heap_get_set_same. reflexivity.
    + cbn [fst snd]; unfold abs; cbn [this_ref heap aux]. rewrite heap_get_set_same. reflexivity.
  - cbn [absop rstep]. unfold abs at 1. cbn [astep a_data a_store]. unfold gomap.
    match goal with |- context [resolve_entry hosts off e ?s] =>
      pose proof (resolve_entry_snd e s) as Hs; pose proof (eval_keeps_map e s) as Hk;
      rewrite <- Hs in Hk; clear Hs;
      destruct (resolve_entry hosts off e s) as [out st']
    end.
    cbn [snd r_this] in Hk.
    destruct (r_this st') as [m|] eqn:Em; destruct (this_ref r) as [id|] eqn:Eref.
    + cbn [fst snd]; unfold abs; cbn [this_ref heap aux]. rewrite heap_get_set_same. reflexivity.
    + cbn [fst snd]; unfold abs; cbn [this_ref heap aux]. rewrite heap_get_set_same. reflexivity.
    + exfalso. apply Hk; [discriminate | reflexivity].
    + cbn [fst snd]. unfold abs. rewrite Eref. reflexivity.
  - reflexivity.
  - reflexivity.
  - cbn [absop rstep fst snd]. unfold abs at 2. cbn [this_ref heap aux].
    destruct (this_ref r) as [id'|] eqn:Eref.
    + destruct (id' =? id) eqn:E.
      * apply Z.eqb_eq in E. subst id'. rewrite heap_get_set_same.
        unfold abs. rewrite Eref. reflexivity.
      * apply Z.eqb_neq in E. rewrite (heap_get_set_other id id' _ _ E).
        unfold abs. rewrite Eref. reflexivity.
    + unfold abs. rewrite Eref. reflexivity.
Qed.

Lemma runner_refines_spec : forall ops r,
  rrun hosts off r ops = arun (abs r) (abs_ops r ops).
Proof.
  induction ops as [|o t IH]; intros r; [reflexivity|].
  cbn [rrun abs_ops arun]. rewrite rstep_simulates.
  destruct (rstep hosts off r o) as [r' ob]. cbn [fst snd]. rewrite IH. reflexivity.
Qed.

(* the abstract state after a concrete step *)
Lemma abs_step : forall r o, abs (fst (rstep hosts off r o)) = fst (astep (abs r) (absop r o)).
Proof. intros r o. rewrite rstep_simulates. reflexivity. Qed.

Lemma obs_step : forall r o, snd (rstep hosts off r o) = snd (astep (abs r) (absop r o)).
Proof. intros r o. rewrite rstep_simulates. reflexivity. Qed.

(* ---------- histories in which every map is handed over at most once and left alone ----------
   Then the content handed over by SetThis is the map's INITIAL content, and the abstract run
   needs nothing from the concrete runner. *)

Definition absop0 (h0 : list (Z * gomap)) (o : rop) : aop :=
  match o with
  | OpSetThis None => ASetData None
  | OpSetThis (Some id) => ASetData (Some (heap_get id h0))
  | OpSetThisValue k v => ASetEntry k v
  | OpResolve e => AEval e
  | OpSet k v => AStore k v
  | OpGet k => AFetch k
  | OpCallerWrite _ _ _ => ANop
  end.

Fixpoint set_this_ids (ops : list rop) : list Z :=
  match ops with
  | [] => []
  | OpSetThis (Some id) :: t => id :: set_this_ids t
  | _ :: t => set_this_ids t
  end.

Definition is_caller_write (o : rop) : bool :=
  match o with OpCallerWrite _ _ _ => true | _ => false end.

Definition fresh_inv (h0 : list (Z * gomap)) (r : runner) (ids : list Z) : Prop :=
  forall id, In id ids ->
    heap_get id (heap r) = heap_get id h0 /\ id < next_id r /\ this_ref r <> Some id.

Lemma fresh_step : forall h0 r o,
  is_caller_write o = false ->
  forall rest, NoDup (set_this_ids (o :: rest)) ->
  fresh_inv h0 r (set_this_ids (o :: rest)) ->
  absop r o = absop0 h0 o /\ fresh_inv h0 (fst (rstep hosts off r o)) (set_this_ids rest).
Proof.
  intros h0 r o Hcw rest Hnd Hinv.
  destruct o as [[id|]|k v|e|k v|k|id k v]; try discriminate Hcw.
  - cbn [set_this_ids] in Hnd, Hinv. split.
    + cbn [absop absop0]. f_equal. f_equal. apply (Hinv id). left. reflexivity.
    + intros id' Hin. cbn [rstep fst heap next_id this_ref].
      destruct (Hinv id' (or_intror Hin)) as [A [B _]].
      split; [exact A|]. split; [exact B|].
      intros E. injection E as E. subst id'. apply NoDup_cons_iff in Hnd. tauto.
  - cbn [set_this_ids] in Hinv. split; [reflexivity|].
    intros id' Hin. cbn [rstep fst heap next_id this_ref].
    destruct (Hinv id' Hin) as [A [B _]]. split; [exact A|]. split; [exact B|]. discriminate.
  - cbn [set_this_ids] in Hinv. split; [reflexivity|].
    intros id' Hin. destruct (Hinv id' Hin) as [A [B C]]. cbn [rstep].
    destruct (this_ref r) as [id|] eqn:Eref; cbn [fst heap next_id this_ref].
    + assert (Hne : id' <> id) by (intros E; apply C; subst; reflexivity).
      rewrite (heap_get_set_other id id' _ _ Hne).
      split; [exact A|]. split; [exact B|]. intros E. injection E as E. congruence.
    + assert (Hne : id' <> next_id r) by lia.
      rewrite (heap_get_set_other _ id' _ _ Hne).
      split; [exact A|]. split; [lia|]. intros E. injection E as E. congruence.
  - cbn [set_this_ids] in Hinv. split; [reflexivity|].
    intros id' Hin. destruct (Hinv id' Hin) as [A [B C]]. cbn [rstep].
    destruct (resolve_entry hosts off e
      (mkR (match this_ref r with Some id => Some (heap_get id (heap r)) | None => None end) []))
      as [out st'].
    destruct (r_this st') as [m|]; destruct (this_ref r) as [id|] eqn:Eref;
      cbn [fst heap next_id this_ref].
    + assert (Hne : id' <> id) by (intros E; apply C; subst; reflexivity).
      rewrite (heap_get_set_other id id' _ _ Hne).
      split; [exact A|]. split; [exact B|]. intros E. injection E as E. congruence.
    + assert (Hne : id' <> next_id r) by lia.
      rewrite (heap_get_set_other _ id' _ _ Hne).
      split; [exact A|]. split; [lia|]. intros E. injection E as E. congruence.
    + split; [exact A|]. split; [exact B|]. rewrite Eref. exact C.
    + split; [exact A|]. split; [exact B|]. rewrite Eref. exact C.
  - cbn [set_this_ids] in Hinv. split; [reflexivity|].
    intros id' Hin. cbn [rstep fst heap next_id this_ref]. exact (Hinv id' Hin).
  - cbn [set_this_ids] in Hinv. split; [reflexivity|].
    intros id' Hin. cbn [rstep fst]. exact (Hinv id' Hin).
Qed.

Lemma set_this_ids_tail_nodup : forall o rest,
  NoDup (set_this_ids (o :: rest)) -> NoDup (set_this_ids rest).
Proof.
  intros o rest H. destruct o as [[id|]|k v|e|k v|k|id k v]; cbn [set_this_ids] in H; try exact H.
  apply NoDup_cons_iff in H. tauto.
Qed.

Lemma fresh_run : forall h0 ops r,
  existsb is_caller_write ops = false ->
  NoDup (set_this_ids ops) ->
  fresh_inv h0 r (set_this_ids ops) ->
  abs_ops r ops = map (absop0 h0) ops.
Proof.
  intros h0 ops. induction ops as [|o t IH]; intros r Hcw Hnd Hinv; [reflexivity|].
  cbn [existsb] in Hcw. apply orb_false_iff in Hcw. destruct Hcw as [Hc1 Hc2].
  destruct (fresh_step h0 r o Hc1 t Hnd Hinv) as [A B].
  cbn [abs_ops map]. rewrite A. f_equal.
  apply IH; [exact Hc2 | exact (set_this_ids_tail_nodup o t Hnd) | exact B].
Qed.

Lemma fresh_maps_refine : forall h0 ops,
  existsb is_caller_write ops = false ->
  NoDup (set_this_ids ops) ->
  forallb (fun id => id <? 1000) (set_this_ids ops) = true ->
  rrun hosts off (new_runner h0) ops = arun (mkA None []) (map (absop0 h0) ops).
Proof.
  intros h0 ops Hcw Hnd Hlt. rewrite runner_refines_spec.
  rewrite (fresh_run h0 ops (new_runner h0) Hcw Hnd); [reflexivity|].
  intros id Hin. rewrite forallb_forall in Hlt. specialize (Hlt id Hin). apply Z.ltb_lt in Hlt.
  unfold new_runner. cbn [heap next_id this_ref].
  split; [reflexivity|]. split; [exact Hlt | discriminate].
Qed.

(* ---------- corollaries in the words of the property ---------- *)

(* what an evaluation observes and leaves behind depends on the data map only *)
Lemma resolve_obs : forall r e,
  snd (rstep hosts off r (OpResolve e)) =
  ObsValue (fst (resolve_entry hosts off e (mkR (a_data (abs r)) []))).
Proof.
  intros r e. rewrite obs_step. cbn [absop astep].
  destruct (resolve_entry hosts off e (mkR (a_data (abs r)) [])) as [out st']. reflexivity.
Qed.

Lemma resolve_data : forall r e,
  a_data (abs (fst (rstep hosts off r (OpResolve e)))) =
  r_this (snd (eval hosts off e (mkR (a_data (abs r)) []))).
Proof.
  intros r e. rewrite abs_step. cbn [absop astep]. rewrite <- resolve_entry_snd.
  destruct (resolve_entry hosts off e (mkR (a_data (abs r)) [])) as [out st']. reflexivity.
Qed.

Lemma resolve_aux : forall r e, aux (fst (rstep hosts off r (OpResolve e))) = aux r.
Proof.
  intros r e. cbn [rstep].
  destruct (resolve_entry hosts off e
    (mkR (match this_ref r with Some id => Some (heap_get id (heap r)) | None => None end) []))
    as [out st'].
  destruct (r_this st'); destruct (this_ref r); reflexivity.
Qed.

Lemma get_obs : forall r k,
  snd (rstep hosts off r (OpGet k)) = ObsGet (match assoc k (aux r) with Some v => v | None => VNull end).
Proof. reflexivity. Qed.

Lemma aux_store_invisible : forall r e,
  (* an evaluation's observation is a function of the data map and the formula only ... *)
  snd (rstep hosts off r (OpResolve e)) =
    ObsValue (fst (resolve_entry hosts off e (mkR (a_data (abs r)) []))) /\
  (* ... the data map is untouched by the store operations ... *)
  (forall k v, a_data (abs (fst (rstep hosts off r (OpSet k v)))) = a_data (abs r)) /\
  (forall k, fst (rstep hosts off r (OpGet k)) = r) /\
  (* ... so Set/Get never change the outcome of an evaluation ... *)
  (forall k v, snd (rstep hosts off (fst (rstep hosts off r (OpSet k v))) (OpResolve e)) =
               snd (rstep hosts off r (OpResolve e))) /\
  (* ... and evaluations never change the store, hence no later Get *)
  aux (fst (rstep hosts off r (OpResolve e))) = aux r /\
  (forall k, snd (rstep hosts off (fst (rstep hosts off r (OpResolve e))) (OpGet k)) =
             snd (rstep hosts off r (OpGet k))).
Proof.
  intros r e. split; [apply resolve_obs|]. split; [reflexivity|]. split; [reflexivity|].
  split; [|split].
  - intros k v. rewrite !resolve_obs. reflexivity.
  - apply resolve_aux.
  - intros k. rewrite !get_obs, resolve_aux. reflexivity.
Qed.

(* a Get returns the last value Set for the key, whatever happened in between to the data map *)
Lemma get_after_set : forall r k v,
  snd (rstep hosts off (fst (rstep hosts off r (OpSet k v))) (OpGet k)) = ObsGet v.
Proof.
  intros r k v. cbn [rstep fst snd aux]. rewrite assoc_set_same. reflexivity.
Qed.

(* reading a non-builtin name: the observation is the (normalised) entry of the data map *)
Lemma read_obs : forall r k x,
  existsb (bytes_eqb x) builtin_names = false ->
  snd (rstep hosts off r (OpResolve (SIdent k x))) =
  ObsValue (Ok (format_input (data_get x (a_data (abs r))))).
Proof.
  intros r k x Hb. rewrite resolve_obs. unfold resolve_entry. rewrite eval_SIdent.
  rewrite (lookup_ident_data x _ Hb). reflexivity.
Qed.

Lemma reads_of_unset_map_are_null : forall r k x,
  this_ref r = None ->
  existsb (bytes_eqb x) builtin_names = false ->
  snd (rstep hosts off r (OpResolve (SIdent k x))) = ObsValue (Ok VNull).
Proof.
  intros r k x Hn Hb. rewrite (read_obs r k x Hb). unfold abs. rewrite Hn. reflexivity.
Qed.

Lemma set_value_on_nil_creates_map : forall r k v,
  this_ref r = None ->
  let r1 := fst (rstep hosts off r (OpSetThisValue k v)) in
  this_ref r1 <> None /\
  a_data (abs r1) = Some [(k, v)] /\
  (forall k', existsb (bytes_eqb k) builtin_names = false ->
     snd (rstep hosts off r1 (OpResolve (SIdent k' k))) = ObsValue (Ok (format_input v))).
Proof.
  intros r k v Hn r1.
  assert (Hd : a_data (abs r1) = Some [(k, v)]).
  { unfold r1. rewrite abs_step. cbn [absop astep fst a_data]. unfold abs. rewrite Hn. reflexivity. }
  split; [|split].
  - unfold r1. cbn [rstep]. rewrite Hn. cbn [fst this_ref]. discriminate.
  - exact Hd.
  - intros k' Hb. rewrite (read_obs r1 k' k Hb). rewrite Hd. cbn [data_get assoc].
    rewrite bytes_eqb_refl. reflexivity.
Qed.

(* the assignment formula `$a = e` *)
Definition assign (k : kind) (a : list Z) (e : sexpr) : sexpr := SBin (SIdent k a) KEquals e.

Lemma assign_effect : forall r k a e w,
  starts_dollar a = true ->
  snd (rstep hosts off r (OpResolve (assign k a e))) = ObsValue (Ok w) ->
  exists v, w = format_input v /\
    data_get a (a_data (abs (fst (rstep hosts off r (OpResolve (assign k a e)))))) = v.
Proof.
  intros r k a e w Hd Hobs. rewrite resolve_obs in Hobs. rewrite resolve_data.
  unfold resolve_entry, assign in *. rewrite eval_SBin in *.
  assert (Ek : kind_eqb KEquals KEquals = true) by reflexivity. rewrite Ek in *. rewrite Hd in *.
  destruct (eval hosts off e (mkR (a_data (abs r)) [])) as [[v| | |] st1];
    cbn [fmt fst snd] in Hobs |- *; try discriminate Hobs.
  exists v. split; [injection Hobs as Hobs; symmetry; exact Hobs|].
  unfold set_this_value. cbn [r_this data_get]. rewrite assoc_set_same. reflexivity.
Qed.

(* operations that keep the local `a`: no SetThis, no entry update or assignment of `a` itself *)
Definition keeps_local (a : list Z) (o : rop) : bool :=
  match o with
  | OpSetThis _ => false
  | OpSetThisValue k _ => negb (bytes_eqb k a)
  | OpResolve e => negb (existsb (bytes_eqb a) (assigns e))
  | OpSet _ _ | OpGet _ => true
  | OpCallerWrite _ k _ => negb (bytes_eqb k a)
  end.

Lemma eval_keeps_unassigned : forall a e st,
  existsb (bytes_eqb a) (assigns e) = false ->
  data_get a (r_this (snd (eval hosts off e st))) = data_get a (r_this st).
Proof.
  intros a e st Hna. symmetry.
  apply (eval_inv hosts off (fun s s' => data_get a (r_this s) = data_get a (r_this s'))
                  (fun n => n <> a)).
  - reflexivity.
  - intros x y z H1 H2. congruence.
  - reflexivity.
  - intros n v s Hne. unfold set_this_value. cbn [r_this]. symmetry. apply data_get_set_other. exact Hne.
  - intros n Hin E. subst n. apply existsb_bytes_In in Hin. rewrite Hin in Hna. discriminate Hna.
Qed.

Lemma keeps_local_step : forall a r o,
  keeps_local a o = true ->
  data_get a (a_data (abs (fst (rstep hosts off r o)))) = data_get a (a_data (abs r)).
Proof.
  intros a r o Hk. destruct o as [id|k v|e|k v|k|id k v]; cbn [keeps_local] in Hk.
  - discriminate Hk.
  - rewrite abs_step. cbn [absop astep fst a_data]. apply data_get_set_other.
    apply negb_true_iff in Hk. apply bytes_eqb_neq in Hk. exact Hk.
  - rewrite resolve_data. apply negb_true_iff in Hk.
    rewrite (eval_keeps_unassigned a e _ Hk). reflexivity.
  - reflexivity.
  - reflexivity.
  - rewrite abs_step. cbn [absop]. apply negb_true_iff in Hk. apply bytes_eqb_neq in Hk.
    destruct (this_ref r) as [id'|]; [|reflexivity].
    destruct (id' =? id); [|reflexivity].
    cbn [astep fst a_data]. apply data_get_set_other. exact Hk.
Qed.

Lemma rrun_app_last : forall ops r o d,
  last (rrun hosts off r (ops ++ [o])) d =
  snd (rstep hosts off (fold_left (fun r o => fst (rstep hosts off r o)) ops r) o).
Proof.
  induction ops as [|x t IH]; intros r o d.
  - cbn [app rrun fold_left]. destruct (rstep hosts off r o) as [r' ob]. reflexivity.
  - cbn [app rrun fold_left]. destruct (rstep hosts off r x) as [r' ob] eqn:E. cbn [fst].
    specialize (IH r' o d). rewrite <- IH.
    destruct (rrun hosts off r' (t ++ [o])) eqn:E2; [|reflexivity].
    destruct t; cbn [app rrun] in E2; destruct (rstep hosts off r') in E2; discriminate E2.
Qed.

Lemma keeps_local_run : forall a ops r,
  forallb (keeps_local a) ops = true ->
  data_get a (a_data (abs (fold_left (fun r o => fst (rstep hosts off r o)) ops r))) =
  data_get a (a_data (abs r)).
Proof.
  intros a ops. induction ops as [|o t IH]; intros r H; [reflexivity|].
  cbn [forallb] in H. apply andb_true_iff in H. destruct H as [H1 H2].
  cbn [fold_left]. rewrite (IH _ H2). apply keeps_local_step. exact H1.
Qed.

Lemma locals_persist_across_evals : forall r k k' a e w mid,
  starts_dollar a = true ->
  snd (rstep hosts off r (OpResolve (assign k a e))) = ObsValue (Ok w) ->
  forallb (keeps_local a) mid = true ->
  last (rrun hosts off (fst (rstep hosts off r (OpResolve (assign k a e))))
             (mid ++ [OpResolve (SIdent k' a)])) ObsNone = ObsValue (Ok w).
Proof.
  intros r k k' a e w mid Hd Hobs Hmid.
  destruct (assign_effect r k a e w Hd Hobs) as [v [Hw Hv]].
  rewrite rrun_app_last. rewrite (read_obs _ k' a (starts_dollar_not_builtin a Hd)).
  rewrite (keeps_local_run a mid _ Hmid). rewrite Hv, Hw. reflexivity.
Qed.

Lemma rrun_cons : forall r o t,
  rrun hosts off r (o :: t) = snd (rstep hosts off r o) :: rrun hosts off (fst (rstep hosts off r o)) t.
Proof. intros r o t. cbn [rrun]. destruct (rstep hosts off r o) as [r' ob]. reflexivity. Qed.

Lemma rstep_SetThis : forall r id,
  rstep hosts off r (OpSetThis id) = (mkRunner (heap r) id (aux r) (next_id r), ObsNone).
Proof. reflexivity. Qed.

(* after SetThis(map id2) a local reads as whatever map id2 carries for it *)
Lemma set_this_then_read : forall r id2 k a,
  existsb (bytes_eqb a) builtin_names = false ->
  rrun hosts off r [OpSetThis (Some id2); OpResolve (SIdent k a)] =
  [ObsNone; ObsValue (Ok (format_input (data_get a (Some (heap_get id2 (heap r))))))].
Proof.
  intros r id2 k a Hb. rewrite !rrun_cons. cbn [rrun]. rewrite rstep_SetThis. cbn [fst snd].
  rewrite (read_obs _ k a Hb). reflexivity.
Qed.

Lemma set_this_nil_then_read : forall r k a,
  existsb (bytes_eqb a) builtin_names = false ->
  rrun hosts off r [OpSetThis None; OpResolve (SIdent k a)] = [ObsNone; ObsValue (Ok VNull)].
Proof.
  intros r k a Hb. rewrite !rrun_cons. cbn [rrun]. rewrite rstep_SetThis. cbn [fst snd].
  rewrite (read_obs _ k a Hb). reflexivity.
Qed.

(* an evaluation writes only into the attached map *)
Lemma resolve_other_map : forall r e id1 id2,
  this_ref r = Some id1 -> id2 <> id1 ->
  heap_get id2 (heap (fst (rstep hosts off r (OpResolve e)))) = heap_get id2 (heap r).
Proof.
  intros r e id1 id2 Href Hne. cbn [rstep]. rewrite Href.
  destruct (resolve_entry hosts off e (mkR (Some (heap_get id1 (heap r))) [])) as [out st'].
  destruct (r_this st') as [m|]; cbn [fst heap]; [|reflexivity].
  apply heap_get_set_other. exact Hne.
Qed.

Lemma set_this_discards_locals_unless_carried : forall r id1 id2 k k' a e w,
  starts_dollar a = true ->
  this_ref r = Some id1 ->
  snd (rstep hosts off r (OpResolve (assign k a e))) = ObsValue (Ok w) ->
  let r1 := fst (rstep hosts off r (OpResolve (assign k a e))) in
  (* another map that does not carry the local: it reads as null *)
  (id2 <> id1 -> assoc a (heap_get id2 (heap r)) = None ->
   rrun hosts off r1 [OpSetThis (Some id2); OpResolve (SIdent k' a)] = [ObsNone; ObsValue (Ok VNull)]) /\
  (* no map at all: null *)
  rrun hosts off r1 [OpSetThis None; OpResolve (SIdent k' a)] = [ObsNone; ObsValue (Ok VNull)] /\
  (* the new map carries the local (here: the very map the runner wrote it into, handed over
     again after a detour): it is still there *)
  (id2 <> id1 ->
   rrun hosts off r1 [OpSetThis (Some id2); OpSetThis (Some id1); OpResolve (SIdent k' a)] =
   [ObsNone; ObsNone; ObsValue (Ok w)]).
Proof.
  intros r id1 id2 k k' a e w Hd Href Hobs r1.
  pose proof (starts_dollar_not_builtin a Hd) as Hb.
  split; [|split].
  - intros Hne Hnone. rewrite (set_this_then_read r1 id2 k' a Hb).
    unfold r1. rewrite (resolve_other_map r _ id1 id2 Href Hne).
    cbn [data_get]. rewrite Hnone. reflexivity.
  - apply set_this_nil_then_read. exact Hb.
  - intros Hne. destruct (assign_effect r k a e w Hd Hobs) as [v [Hw Hv]]. fold r1 in Hv.
    assert (Href1 : this_ref r1 = Some id1).
    { unfold r1. cbn [rstep]. rewrite Href.
      destruct (resolve_entry hosts off (assign k a e) (mkR (Some (heap_get id1 (heap r))) [])) as [out st'].
      destruct (r_this st'); [reflexivity | exact Href]. }
    unfold abs in Hv. rewrite Href1 in Hv. cbn [a_data] in Hv.
    rewrite !rrun_cons. cbn [rrun]. repeat (rewrite rstep_SetThis; cbn [fst snd]).
    cbn [fst snd heap aux next_id]. rewrite (read_obs _ k' a Hb). unfold abs. cbn [this_ref heap a_data].
    rewrite Hv, Hw. reflexivity.
Qed.

End Run.

(* ---------- non-vacuity and a concrete history ---------- *)

Definition ex_a : list Z := str "$a"%string.
Definition ex_x : list Z := str "x"%string.
Definition ex_num (s : string) : sexpr := SLit KNumber (str s).
Definition ex_heap : list (Z * gomap) :=
  [(1, [(ex_x, VNum (dec_of_string (str "5"%string)))]); (2, [(ex_x, VNum (dec_of_string (str "7"%string)))])].

(* $a = x + 1 on map 1; read $a; switch to map 2: $a gone, x is 7; back to map 1: $a is there;
   SetThis(nil) then SetThisValue creates a map; the store is separate *)
Definition ex_history : list rop :=
  [ OpResolve (SIdent KIdent ex_x);
    OpSetThis (Some 1);
    OpResolve (assign KIdent ex_a (SBin (SIdent KIdent ex_x) KPlus (ex_num "1")));
    OpSet ex_x (VStr (str "aux"%string));
    OpResolve (SBin (SIdent KIdent ex_a) KAsterisk (ex_num "2"));
    OpSetThis (Some 2);
    OpResolve (SIdent KIdent ex_a);
    OpResolve (SIdent KIdent ex_x);
    OpSetThis (Some 1);
    OpResolve (SIdent KIdent ex_a);
    OpSetThis None;
    OpSetThisValue ex_x (VBool true);
    OpResolve (SIdent KIdent ex_x);
    OpGet ex_x;
    OpGet ex_a ].

Definition dnum (s : string) : value := VNum (dec_of_string (str s)).

Example ex_history_obs :
  rrun [] 0 (new_runner ex_heap) ex_history =
  [ ObsValue (Ok VNull); ObsNone; ObsValue (Ok (dnum "6")); ObsNone; ObsValue (Ok (dnum "12"));
    ObsNone; ObsValue (Ok VNull); ObsValue (Ok (dnum "7")); ObsNone; ObsValue (Ok (dnum "6"));
    ObsNone; ObsNone; ObsValue (Ok (VBool true)); ObsGet (VStr (str "aux"%string)); ObsGet VNull ].
Proof. vm_compute. reflexivity. Qed.

(* the same history through the simple model *)
Example ex_history_abs :
  arun [] 0 (mkA None []) (abs_ops [] 0 (new_runner ex_heap) ex_history) =
  rrun [] 0 (new_runner ex_heap) ex_history.
Proof. vm_compute. reflexivity. Qed.

(* the hypotheses of [locals_persist_across_evals] are satisfiable with a non-trivial middle part *)
Example ex_persist_hyps :
  let r := fst (rstep [] 0 (new_runner ex_heap) (OpSetThis (Some 1))) in
  starts_dollar ex_a = true /\
  snd (rstep [] 0 r (OpResolve (assign KIdent ex_a (ex_num "3")))) = ObsValue (Ok (dnum "3")) /\
  forallb (keeps_local ex_a)
    [OpSet ex_a VNull; OpResolve (assign KIdent (str "$b"%string) (SIdent KIdent ex_a));
     OpSetThisValue ex_x VNull; OpCallerWrite 1 ex_x VNull; OpGet ex_a] = true.
Proof. vm_compute. repeat split; reflexivity. Qed.

(* the hypotheses of [set_this_discards_locals_unless_carried] *)
Example ex_discard_hyps :
  let r := fst (rstep [] 0 (new_runner ex_heap) (OpSetThis (Some 1))) in
  starts_dollar ex_a = true /\ this_ref r = Some 1 /\
  snd (rstep [] 0 r (OpResolve (assign KIdent ex_a (ex_num "3")))) = ObsValue (Ok (dnum "3")) /\
  2 <> 1 /\ assoc ex_a (heap_get 2 (heap r)) = None.
Proof. vm_compute. repeat split; try reflexivity. discriminate. Qed.

(* the hypotheses of [fresh_maps_refine] *)
Example ex_fresh_hyps :
  let ops := [OpSetThis (Some 1); OpResolve (assign KIdent ex_a (ex_num "3")); OpSetThis (Some 2);
              OpResolve (SIdent KIdent ex_a); OpSetThis None; OpSetThisValue ex_x VNull] in
  existsb is_caller_write ops = false /\ NoDup (set_this_ids ops) /\
  forallb (fun id => id <? 1000) (set_this_ids ops) = true.
Proof.
  cbn [existsb is_caller_write orb set_this_ids forallb]. split; [reflexivity|]. split; [|reflexivity].
  constructor; [intros [H|[]]; discriminate H|]. constructor; [intros []|constructor].
Qed.
