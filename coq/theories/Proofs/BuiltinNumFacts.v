(* C18: numeric builtins (abs ceil floor round roundBank max min toInt toFloat toString finite)
   and the bit operators & | ^ ~, proved of the model in Sem/Builtins.v, Sem/Eval.v, Num/Dec.v.
   Finite decimals denote rationals through dec_val.
   Not covered (the model answers Unk): exp, ln, log. *)
From Coq Require Import String Ascii QArith Qabs Qpower.
From Formula Require Import Sem.Eval Proofs.NumTextFacts.
Local Open Scope Z_scope.

Arguments str s%string.

(* ---------- powers of ten ---------- *)

Lemma bn_pow10_pos n : 0 <= n -> 0 < pow10 n.
Proof. intros H. unfold pow10. apply Z.pow_pos_nonneg; lia. Qed.

Lemma bn_pow10_0 : pow10 0 = 1.
Proof. reflexivity. Qed.

Lemma bn_pow10_add a b : 0 <= a -> 0 <= b -> pow10 (a + b) = pow10 a * pow10 b.
Proof. intros Ha Hb. unfold pow10. apply Z.pow_add_r; assumption. Qed.

(* ---------- the rational denoted by a finite decimal ---------- *)

Definition dec_val (x : dec) : Q :=
  match x with
  | Fin n c e => (inject_Z (scoef n c) * Qpower (inject_Z 10) e)%Q
  | _ => 0%Q
  end.

Lemma dec_val_def n c e :
  (dec_val (Fin n c e) == inject_Z (if n then - c else c) * Qpower (inject_Z 10) e)%Q.
Proof. unfold dec_val, scoef. reflexivity. Qed.

(* well-formed: the coefficient of a finite decimal is non-negative *)
Definition dec_wf (x : dec) : bool := match x with Fin _ c _ => 0 <=? c | _ => true end.

(* finite with a non-negative exponent: denotes an integer *)
Definition is_integer_dec (x : dec) : bool := match x with Fin _ _ e => 0 <=? e | _ => false end.

(* v = a / pw *)
Definition is_quot (v : Q) (a pw : Z) : Prop := (v * inject_Z pw == inject_Z a)%Q.

Lemma ten_nonzero : ~ (inject_Z 10 == 0)%Q.
Proof. intros H. discriminate H. Qed.

Lemma qpow10_nonneg k : 0 <= k -> (Qpower (inject_Z 10) k == inject_Z (pow10 k))%Q.
Proof. intros Hk. unfold pow10. symmetry. apply Zpower_Qpower. exact Hk. Qed.

Lemma qpow10_cancel e : (Qpower (inject_Z 10) e * Qpower (inject_Z 10) (- e) == 1)%Q.
Proof.
  rewrite <- Qpower_plus by exact ten_nonzero. rewrite Z.add_opp_diag_r. reflexivity.
Qed.

(* every finite decimal is a quotient of an integer by a power of ten *)
Lemma dec_val_quot n c e :
  is_quot (dec_val (Fin n c e)) (scoef n c * pow10 (e + Z.max 0 (- e))) (pow10 (Z.max 0 (- e))).
Proof.
  unfold is_quot, dec_val. destruct (Z_le_gt_dec 0 e) as [He|He].
  - replace (Z.max 0 (- e)) with 0 by lia. rewrite Z.add_0_r.
    rewrite bn_pow10_0, inject_Z_mult, qpow10_nonneg by exact He. ring.
  - replace (Z.max 0 (- e)) with (- e) by lia. rewrite Z.add_opp_diag_r, bn_pow10_0, Z.mul_1_r.
    rewrite <- qpow10_nonneg by lia. rewrite <- Qmult_assoc, qpow10_cancel. ring.
Qed.

Lemma dec_val_neg_exp n c e : e < 0 -> is_quot (dec_val (Fin n c e)) (scoef n c) (pow10 (- e)).
Proof.
  intros He. pose proof (dec_val_quot n c e) as H.
  replace (Z.max 0 (- e)) with (- e) in H by lia.
  rewrite Z.add_opp_diag_r, bn_pow10_0, Z.mul_1_r in H. exact H.
Qed.

Lemma dec_val_int n c e : 0 <= e -> (dec_val (Fin n c e) == inject_Z (scoef n c * pow10 e))%Q.
Proof.
  intros He. unfold dec_val. rewrite inject_Z_mult, qpow10_nonneg by exact He. reflexivity.
Qed.

Lemma is_quot_int R : is_quot (inject_Z R) R 1.
Proof. unfold is_quot. ring. Qed.

Lemma is_quot_scale v a pw k : is_quot v a pw -> is_quot v (a * k) (pw * k).
Proof. unfold is_quot. intros H. rewrite !inject_Z_mult, Qmult_assoc, H. reflexivity. Qed.

Lemma is_quot_sub v a w b pw : is_quot v a pw -> is_quot w b pw -> is_quot (v - w) (a - b) pw.
Proof.
  unfold is_quot. intros Hv Hw. unfold Z.sub. rewrite inject_Z_plus, inject_Z_opp, <- Hv, <- Hw. ring.
Qed.

Lemma inject_Z_pos z : 0 < z -> (0 < inject_Z z)%Q.
Proof. intros H. unfold Qlt, inject_Z. cbn [Qnum Qden]. lia. Qed.

Lemma inject_Z_nonneg z : 0 <= z -> (0 <= inject_Z z)%Q.
Proof. intros H. unfold Qle, inject_Z. cbn [Qnum Qden]. lia. Qed.

Lemma is_quot_abs v a pw : 0 < pw -> is_quot v a pw -> is_quot (Qabs v) (Z.abs a) pw.
Proof.
  unfold is_quot. intros Hpw Hv.
  assert (H : (Qabs v * inject_Z pw == Qabs (v * inject_Z pw))%Q).
  { rewrite Qabs_Qmult. rewrite (Qabs_pos (inject_Z pw)); [reflexivity|].
    apply inject_Z_nonneg. lia. }
  rewrite H, Hv. unfold Qabs, inject_Z. cbn [Qnum Qden]. reflexivity.
Qed.

Lemma is_quot_le_l v a pw p q : 0 < pw -> is_quot v a pw ->
  ((p # q <= v)%Q <-> p * pw <= a * Zpos q).
Proof.
  intros Hpw Hv. unfold is_quot in Hv.
  assert (Hpos : (0 < inject_Z pw)%Q) by (apply inject_Z_pos; exact Hpw).
  rewrite <- (Qmult_le_r _ _ _ Hpos), Hv.
  unfold Qle, Qmult, inject_Z. cbn [Qnum Qden]. rewrite Pos.mul_1_r, Z.mul_1_r. reflexivity.
Qed.

Lemma is_quot_le_r v a pw p q : 0 < pw -> is_quot v a pw ->
  ((v <= p # q)%Q <-> a * Zpos q <= p * pw).
Proof.
  intros Hpw Hv. unfold is_quot in Hv.
  assert (Hpos : (0 < inject_Z pw)%Q) by (apply inject_Z_pos; exact Hpw).
  rewrite <- (Qmult_le_r _ _ _ Hpos), Hv.
  unfold Qle, Qmult, inject_Z. cbn [Qnum Qden]. rewrite Pos.mul_1_r, Z.mul_1_r. reflexivity.
Qed.

Lemma is_quot_lt_r v a pw p q : 0 < pw -> is_quot v a pw ->
  ((v < p # q)%Q <-> a * Zpos q < p * pw).
Proof.
  intros Hpw Hv. unfold is_quot in Hv.
  assert (Hpos : (0 < inject_Z pw)%Q) by (apply inject_Z_pos; exact Hpw).
  rewrite <- (Qmult_lt_r _ _ _ Hpos), Hv.
  unfold Qlt, Qmult, inject_Z. cbn [Qnum Qden]. rewrite Pos.mul_1_r, Z.mul_1_r. reflexivity.
Qed.

Lemma is_quot_eq v a w b pw : 0 < pw -> is_quot v a pw -> is_quot w b pw -> ((v == w)%Q <-> a = b).
Proof.
  intros Hpw Hv Hw. unfold is_quot in *.
  assert (Hnz : ~ (inject_Z pw == 0)%Q).
  { intros H. apply (inject_Z_injective pw 0) in H. lia. }
  split.
  - intros H. apply inject_Z_injective. rewrite <- Hv, <- Hw, H. reflexivity.
  - intros H. subst b. apply (Qmult_inj_r _ _ _ Hnz). rewrite Hv, Hw. reflexivity.
Qed.

Lemma is_quot_le v a w b pw : 0 < pw -> is_quot v a pw -> is_quot w b pw -> ((v <= w)%Q <-> a <= b).
Proof.
  intros Hpw Hv Hw. unfold is_quot in *. pose proof (inject_Z_pos pw Hpw) as Hpos.
  rewrite <- (Qmult_le_r _ _ _ Hpos), Hv, Hw. rewrite <- Zle_Qle. reflexivity.
Qed.

Lemma is_quot_lt v a w b pw : 0 < pw -> is_quot v a pw -> is_quot w b pw -> ((v < w)%Q <-> a < b).
Proof.
  intros Hpw Hv Hw. unfold is_quot in *. pose proof (inject_Z_pos pw Hpw) as Hpos.
  rewrite <- (Qmult_lt_r _ _ _ Hpos), Hv, Hw. rewrite <- Zlt_Qlt. reflexivity.
Qed.

Lemma is_quot_half pw : is_quot (1 # 2) pw (pw * 2).
Proof. unfold is_quot. rewrite inject_Z_mult. unfold Qeq, Qmult, inject_Z. cbn [Qnum Qden]. lia. Qed.

Lemma is_quot_intmul R pw : is_quot (inject_Z R) (R * pw) pw.
Proof. unfold is_quot. rewrite inject_Z_mult. reflexivity. Qed.

Lemma is_quot_plus1 v a pw : is_quot v a pw -> is_quot (v + 1) (a + pw) pw.
Proof. unfold is_quot. intros H. rewrite inject_Z_plus, <- H. ring. Qed.

(* ---------- the dispatch ---------- *)

Lemma ba_abs off d : builtin_apply off (str "abs") [VNum d] = Ok (VNum (dec_abs d)).
Proof. reflexivity. Qed.
Lemma ba_ceil off d : builtin_apply off (str "ceil") [VNum d] = Ok (VNum (dec_ceil d)).
Proof. reflexivity. Qed.
Lemma ba_floor off d :
  builtin_apply off (str "floor") [VNum d] = Ok (VNum (match d with NaN => NaN | _ => dec_floor d end)).
Proof. reflexivity. Qed.
Lemma ba_round off d : builtin_apply off (str "round") [VNum d] = Ok (VNum (round_to_int 2 d)).
Proof. reflexivity. Qed.
Lemma ba_roundBank off d : builtin_apply off (str "roundBank") [VNum d] = Ok (VNum (round_to_int 1 d)).
Proof. reflexivity. Qed.
Lemma ba_finite_num off d :
  builtin_apply off (str "finite") [VNum d] = Ok (VNum (if is_finite d then d else dec_zero)).
Proof. reflexivity. Qed.
Lemma ba_toString_num off d : builtin_apply off (str "toString") [VNum d] =
  if is_nan d then Unk else Ok (VStr (dec_to_string d)).
Proof. reflexivity. Qed.
Lemma ba_toInt_num off d :
  builtin_apply off (str "toInt") [VNum d] = Ok (VNum (to_int_dec d)).
Proof. reflexivity. Qed.
Lemma ba_toFloat_num off d : builtin_apply off (str "toFloat") [VNum d] = Ok (VNum d).
Proof. reflexivity. Qed.
Lemma ba_toFloat_str off s : builtin_apply off (str "toFloat") [VStr s] = Ok (VNum (num_of_text s)).
Proof. reflexivity. Qed.
Lemma ba_toInt_str off s :
  builtin_apply off (str "toInt") [VStr s] = Ok (VNum (to_int_dec (num_of_text s))).
Proof. reflexivity. Qed.
Lemma ba_finite_str off s : builtin_apply off (str "finite") [VStr s] = Ok (VNum dec_zero).
Proof. reflexivity. Qed.
Lemma ba_toString_str off s : builtin_apply off (str "toString") [VStr s] = Ok (VStr s).
Proof. reflexivity. Qed.

(* exp, ln, log: the model does not describe them *)
Theorem transcendental_not_modelled off d :
  builtin_apply off (str "exp") [VNum d] = Unk /\ builtin_apply off (str "ln") [VNum d] = Unk /\
  builtin_apply off (str "log") [VNum d] = Unk.
Proof. repeat split. Qed.

(* sqrt: the root correctly rounded to 16 digits (Num/Sqrt.v; facts in SqrtFacts.v) *)
Lemma ba_sqrt off d : builtin_apply off (str "sqrt") [VNum d] = Ok (VNum (Sqrt.dec_sqrt16 d)).
Proof. reflexivity. Qed.

(* ---------- abs ---------- *)

Lemma scoef_abs n c : 0 <= c -> Z.abs (scoef n c) = c.
Proof. intros H. destruct n; unfold scoef; lia. Qed.

Lemma dec_val_abs n c e : 0 <= c -> (dec_val (Fin false c e) == Qabs (dec_val (Fin n c e)))%Q.
Proof.
  intros Hc. unfold dec_val. rewrite Qabs_Qmult.
  rewrite (Qabs_pos (Qpower (inject_Z 10) e)).
  - apply Qmult_comp; [|reflexivity]. unfold Qabs, inject_Z. cbn [Qnum Qden].
    rewrite scoef_abs by exact Hc. reflexivity.
  - apply Qpower_0_le. discriminate.
Qed.

(* a coefficient of at most 34 digits is not rounded: the result is the operand with the sign cleared *)
Theorem abs_spec off n c e : 0 <= c -> ndigits c <= 34 ->
  builtin_apply off (str "abs") [VNum (Fin n c e)] = Ok (VNum (Fin false c e)) /\
  (dec_val (Fin false c e) == Qabs (dec_val (Fin n c e)))%Q.
Proof.
  intros Hc Hd. rewrite ba_abs. unfold dec_abs, fin_round, round_he, prec.
  destruct (ndigits c <=? 34) eqn:E; [|apply Z.leb_gt in E; lia].
  split; [reflexivity|apply dec_val_abs; exact Hc].
Qed.

Theorem abs_nonfinite off :
  builtin_apply off (str "abs") [VNum (Inf true)] = Ok (VNum (Inf false)) /\
  builtin_apply off (str "abs") [VNum (Inf false)] = Ok (VNum (Inf false)) /\
  builtin_apply off (str "abs") [VNum NaN] = Ok (VNum NaN).
Proof. repeat split. Qed.

(* ---------- RoundToInt ---------- *)

Lemma rti_unfold mode n c e : e < 0 ->
  round_to_int mode (Fin n c e) =
  let pw := pow10 (- e) in
  let q := c / pw in
  let r := c mod pw in
  let up :=
    if r =? 0 then false
    else if mode =? 0 then n
    else if mode =? 1 then (pw <? 2 * r) || ((2 * r =? pw) && Z.odd q)
    else pw <=? 2 * r in
  Fin n (if up then q + 1 else q) 0.
Proof.
  intros He. unfold round_to_int. destruct (0 <=? e) eqn:E; [apply Z.leb_le in E; lia|reflexivity].
Qed.

Lemma rti_int mode n c e : 0 <= e -> round_to_int mode (Fin n c e) = Fin n c e.
Proof.
  intros He. unfold round_to_int. destruct (0 <=? e) eqn:E; [reflexivity|apply Z.leb_gt in E; lia].
Qed.

Lemma floor_fin n c e : 0 <= c -> e < 0 -> exists q',
  dec_floor (Fin n c e) = Fin n q' 0 /\ 0 <= q' /\
  scoef n q' * pow10 (- e) <= scoef n c < (scoef n q' + 1) * pow10 (- e).
Proof.
  intros Hc He. unfold dec_floor. rewrite rti_unfold by exact He. cbv zeta.
  set (pw := pow10 (- e)). assert (Hpw : 0 < pw) by (apply bn_pow10_pos; lia).
  pose proof (Z.div_mod c pw) as Hdm. pose proof (Z.mod_pos_bound c pw Hpw) as Hr.
  assert (Hq : 0 <= c / pw) by (apply Z.div_pos; lia).
  set (q := c / pw) in *. set (r := c mod pw) in *.
  assert (Hc' : c = pw * q + r) by (apply Hdm; lia).
  change (0 =? 0) with true. cbv iota.
  destruct (r =? 0) eqn:Er.
  - apply Z.eqb_eq in Er. exists q. split; [reflexivity|]. split; [lia|].
    destruct n; unfold scoef; nia.
  - apply Z.eqb_neq in Er. destruct n.
    + exists (q + 1). split; [reflexivity|]. split; [lia|]. unfold scoef. nia.
    + exists q. split; [reflexivity|]. split; [lia|]. unfold scoef. nia.
Qed.

Lemma round_fin mode n c e : 0 <= c -> e < 0 -> mode = 1 \/ mode = 2 -> exists q',
  round_to_int mode (Fin n c e) = Fin n q' 0 /\ 0 <= q' /\
  2 * Z.abs (c - q' * pow10 (- e)) <= pow10 (- e) /\
  (2 * Z.abs (c - q' * pow10 (- e)) = pow10 (- e) ->
   if mode =? 1 then Z.even q' = true else c < q' * pow10 (- e)).
Proof.
  intros Hc He Hmode. rewrite rti_unfold by exact He. cbv zeta.
  set (pw := pow10 (- e)). assert (Hpw : 0 < pw) by (apply bn_pow10_pos; lia).
  pose proof (Z.div_mod c pw) as Hdm. pose proof (Z.mod_pos_bound c pw Hpw) as Hr.
  assert (Hq : 0 <= c / pw) by (apply Z.div_pos; lia).
  set (q := c / pw) in *. set (r := c mod pw) in *.
  assert (Hc' : c = pw * q + r) by (apply Hdm; lia).
  assert (Hd0 : c - q * pw = r) by lia.
  assert (Hd1 : c - (q + 1) * pw = r - pw) by lia.
  destruct Hmode as [Hm|Hm]; subst mode.
  - change (1 =? 0) with false. change (1 =? 1) with true. cbv iota.
    destruct (r =? 0) eqn:Er.
    { apply Z.eqb_eq in Er. exists q. split; [reflexivity|]. split; [lia|]. rewrite Hd0. split; lia. }
    apply Z.eqb_neq in Er.
    destruct (pw <? 2 * r) eqn:E1; cbn [orb].
    { apply Z.ltb_lt in E1. exists (q + 1). split; [reflexivity|]. split; [lia|]. rewrite Hd1. split; lia. }
    apply Z.ltb_ge in E1. destruct (2 * r =? pw) eqn:E2; cbn [andb].
    + apply Z.eqb_eq in E2. destruct (Z.odd q) eqn:Eo.
      * exists (q + 1). split; [reflexivity|]. split; [lia|]. rewrite Hd1. split; [lia|].
        intros _. rewrite Z.even_add, <- Z.negb_odd, Eo. reflexivity.
      * exists q. split; [reflexivity|]. split; [lia|]. rewrite Hd0. split; [lia|].
        intros _. rewrite <- Z.negb_odd, Eo. reflexivity.
    + apply Z.eqb_neq in E2. exists q. split; [reflexivity|]. split; [lia|]. rewrite Hd0. split; lia.
  - change (2 =? 0) with false. change (2 =? 1) with false. cbv iota.
    destruct (r =? 0) eqn:Er.
    { apply Z.eqb_eq in Er. exists q. split; [reflexivity|]. split; [lia|]. rewrite Hd0. split; lia. }
    apply Z.eqb_neq in Er.
    destruct (pw <=? 2 * r) eqn:E1.
    + apply Z.leb_le in E1. exists (q + 1). split; [reflexivity|]. split; [lia|]. rewrite Hd1. split; lia.
    + apply Z.leb_gt in E1. exists q. split; [reflexivity|]. split; [lia|]. rewrite Hd0. split; lia.
Qed.

(* ---------- from integer inequalities to statements about the denoted rationals ---------- *)

Lemma is_quot_integer_dec n c e pw : 0 <= e ->
  is_quot (dec_val (Fin n c e)) (scoef n c * pow10 e * pw) pw.
Proof.
  intros He. unfold is_quot. rewrite (dec_val_int n c e He), <- inject_Z_mult. reflexivity.
Qed.

Lemma floor_lift v w a R pw : 0 < pw -> is_quot v a pw -> is_quot w (R * pw) pw ->
  R * pw <= a < (R + 1) * pw ->
  (w <= v)%Q /\ (v < w + 1)%Q /\ (forall z : Z, (inject_Z z <= v)%Q -> (inject_Z z <= w)%Q).
Proof.
  intros Hpw Hv Hw [H1 H2]. split; [|split].
  - apply (is_quot_le w (R * pw) v a pw Hpw Hw Hv). exact H1.
  - apply (is_quot_lt v a (w + 1) (R * pw + pw) pw Hpw Hv (is_quot_plus1 w _ pw Hw)). lia.
  - intros z Hz. apply (is_quot_le _ _ _ _ pw Hpw (is_quot_intmul z pw) Hv) in Hz.
    apply (is_quot_le _ _ _ _ pw Hpw (is_quot_intmul z pw) Hw).
    assert (Hlt : z * pw < (R + 1) * pw) by lia.
    apply Z.mul_lt_mono_pos_r in Hlt; [|exact Hpw].
    apply Z.mul_le_mono_nonneg_r; lia.
Qed.

Lemma ceil_lift v w a R pw : 0 < pw -> is_quot v a pw -> is_quot w (R * pw) pw ->
  (R - 1) * pw < a <= R * pw ->
  (v <= w)%Q /\ (w < v + 1)%Q /\ (forall z : Z, (v <= inject_Z z)%Q -> (w <= inject_Z z)%Q).
Proof.
  intros Hpw Hv Hw [H1 H2]. split; [|split].
  - apply (is_quot_le v a w (R * pw) pw Hpw Hv Hw). exact H2.
  - apply (is_quot_lt w (R * pw) (v + 1) (a + pw) pw Hpw Hw (is_quot_plus1 v _ pw Hv)). lia.
  - intros z Hz. apply (is_quot_le _ _ _ _ pw Hpw Hv (is_quot_intmul z pw)) in Hz.
    apply (is_quot_le _ _ _ _ pw Hpw Hw (is_quot_intmul z pw)).
    assert (Hlt : (R - 1) * pw < z * pw) by lia.
    apply Z.mul_lt_mono_pos_r in Hlt; [|exact Hpw].
    apply Z.mul_le_mono_nonneg_r; lia.
Qed.

Lemma dist_quot v w a R pw : 0 < pw -> is_quot v a pw -> is_quot w (R * pw) pw ->
  is_quot (Qabs (v - w)) (Z.abs (a - R * pw) * 2) (pw * 2).
Proof.
  intros Hpw Hv Hw. apply is_quot_scale. apply is_quot_abs; [exact Hpw|].
  apply is_quot_sub; assumption.
Qed.

Lemma round_lift v w a R pw : 0 < pw -> is_quot v a pw -> is_quot w (R * pw) pw ->
  2 * Z.abs (a - R * pw) <= pw ->
  (Qabs (v - w) <= 1 # 2)%Q /\
  ((Qabs (v - w) == 1 # 2)%Q <-> 2 * Z.abs (a - R * pw) = pw) /\
  (forall z : Z, (Qabs (v - w) <= Qabs (v - inject_Z z))%Q).
Proof.
  intros Hpw Hv Hw H. assert (Hpw2 : 0 < pw * 2) by lia.
  pose proof (dist_quot v w a R pw Hpw Hv Hw) as Hd. split; [|split].
  - apply (is_quot_le _ _ _ _ (pw * 2) Hpw2 Hd (is_quot_half pw)). lia.
  - rewrite (is_quot_eq _ _ _ _ (pw * 2) Hpw2 Hd (is_quot_half pw)). lia.
  - intros z. pose proof (dist_quot v (inject_Z z) a z pw Hpw Hv (is_quot_intmul z pw)) as Hz.
    apply (is_quot_le _ _ _ _ (pw * 2) Hpw2 Hd Hz).
    assert (Hcases : z = R \/ z <= R - 1 \/ R + 1 <= z) by lia.
    destruct Hcases as [Hc|[Hc|Hc]]; [subst z; lia| |]; nia.
Qed.

Lemma scoef_mul n c k : scoef n c * k = scoef n (c * k).
Proof. destruct n; unfold scoef; lia. Qed.

Lemma scoef_sub_abs n c d : Z.abs (scoef n c - scoef n d) = Z.abs (c - d).
Proof. destruct n; unfold scoef; lia. Qed.

Lemma scoef_even n c : Z.even (scoef n c) = Z.even c.
Proof. destruct n; unfold scoef; [apply Z.even_opp|reflexivity]. Qed.

(* ---------- floor ---------- *)

Theorem floor_spec off x : is_finite x = true -> dec_wf x = true -> exists r,
  builtin_apply off (str "floor") [VNum x] = Ok (VNum r) /\
  is_integer_dec r = true /\
  (dec_val r <= dec_val x)%Q /\ (dec_val x < dec_val r + 1)%Q /\
  (forall z : Z, (inject_Z z <= dec_val x)%Q -> (inject_Z z <= dec_val r)%Q).
Proof.
  intros Hfin Hwf. destruct x as [n c e| |]; try discriminate Hfin.
  cbn [dec_wf] in Hwf. apply Z.leb_le in Hwf. rewrite ba_floor.
  destruct (Z_le_gt_dec 0 e) as [He|He].
  - exists (Fin n c e). unfold dec_floor. rewrite rti_int by exact He.
    split; [reflexivity|]. split; [cbn [is_integer_dec]; apply Z.leb_le; exact He|].
    apply (floor_lift _ _ (scoef n c * pow10 e * 1) (scoef n c * pow10 e) 1); try lia;
      apply is_quot_integer_dec; exact He.
  - destruct (floor_fin n c e Hwf) as [q' [Hr [Hq' Hb]]]; [lia|].
    exists (Fin n q' 0). rewrite Hr. split; [reflexivity|]. split; [reflexivity|].
    assert (Hpw : 0 < pow10 (- e)) by (apply bn_pow10_pos; lia).
    apply (floor_lift _ _ (scoef n c) (scoef n q') (pow10 (- e)) Hpw).
    + apply dec_val_neg_exp. lia.
    + pose proof (is_quot_integer_dec n q' 0 (pow10 (- e))) as H.
      rewrite bn_pow10_0, Z.mul_1_r in H. apply H. lia.
    + exact Hb.
Qed.

Theorem floor_nonfinite off :
  builtin_apply off (str "floor") [VNum (Inf true)] = Ok (VNum (Inf true)) /\
  builtin_apply off (str "floor") [VNum (Inf false)] = Ok (VNum (Inf false)) /\
  builtin_apply off (str "floor") [VNum NaN] = Ok (VNum NaN).
Proof. repeat split. Qed.

(* ---------- round (half away from zero), roundBank (half to even) ---------- *)

Lemma round_core mode n c e : 0 <= c -> mode = 1 \/ mode = 2 -> exists r a R pw,
  round_to_int mode (Fin n c e) = r /\ is_integer_dec r = true /\ 0 < pw /\
  is_quot (dec_val (Fin n c e)) a pw /\ is_quot (dec_val r) (R * pw) pw /\
  2 * Z.abs (a - R * pw) <= pw /\
  (2 * Z.abs (a - R * pw) = pw ->
   if mode =? 1 then Z.even R = true else Z.abs a < Z.abs (R * pw)).
Proof.
  intros Hc Hmode. destruct (Z_le_gt_dec 0 e) as [He|He].
  - exists (Fin n c e), (scoef n c * pow10 e * 1), (scoef n c * pow10 e), 1.
    rewrite rti_int by exact He. split; [reflexivity|].
    split; [cbn [is_integer_dec]; apply Z.leb_le; exact He|]. split; [lia|].
    split; [apply is_quot_integer_dec; exact He|]. split; [apply is_quot_integer_dec; exact He|].
    split; lia.
  - destruct (round_fin mode n c e Hc) as [q' [Hr [Hq' [Hb Htie]]]]; [lia|exact Hmode|].
    assert (Hpw : 0 < pow10 (- e)) by (apply bn_pow10_pos; lia).
    exists (Fin n q' 0), (scoef n c), (scoef n q'), (pow10 (- e)).
    split; [exact Hr|]. split; [reflexivity|]. split; [exact Hpw|].
    split; [apply dec_val_neg_exp; lia|]. split.
    { pose proof (is_quot_integer_dec n q' 0 (pow10 (- e))) as H.
      rewrite bn_pow10_0, Z.mul_1_r in H. apply H. lia. }
    rewrite scoef_mul, scoef_sub_abs. split; [exact Hb|]. intros Ht. specialize (Htie Ht).
    destruct (mode =? 1).
    + rewrite scoef_even. exact Htie.
    + rewrite !scoef_abs by nia. exact Htie.
Qed.

Theorem round_spec off x : is_finite x = true -> dec_wf x = true -> exists r,
  builtin_apply off (str "round") [VNum x] = Ok (VNum r) /\
  is_integer_dec r = true /\
  (Qabs (dec_val x - dec_val r) <= 1 # 2)%Q /\
  (forall z : Z, (Qabs (dec_val x - dec_val r) <= Qabs (dec_val x - inject_Z z))%Q) /\
  ((Qabs (dec_val x - dec_val r) == 1 # 2)%Q -> (Qabs (dec_val x) < Qabs (dec_val r))%Q).
Proof.
  intros Hfin Hwf. destruct x as [n c e| |]; try discriminate Hfin.
  cbn [dec_wf] in Hwf. apply Z.leb_le in Hwf. rewrite ba_round.
  destruct (round_core 2 n c e Hwf) as [r [a [R [pw [Hr [Hint [Hpw [Hv [Hw [Hb Htie]]]]]]]]]]; [right; reflexivity|].
  exists r. rewrite Hr. split; [reflexivity|]. split; [exact Hint|].
  destruct (round_lift _ _ a R pw Hpw Hv Hw Hb) as [H1 [H2 H3]].
  split; [exact H1|]. split; [exact H3|]. intros Heq. apply H2 in Heq. specialize (Htie Heq).
  change (2 =? 1) with false in Htie. cbv iota in Htie.
  apply (is_quot_lt _ _ _ _ pw Hpw (is_quot_abs _ _ pw Hpw Hv) (is_quot_abs _ _ pw Hpw Hw)). exact Htie.
Qed.

Theorem roundBank_spec off x : is_finite x = true -> dec_wf x = true -> exists r,
  builtin_apply off (str "roundBank") [VNum x] = Ok (VNum r) /\
  is_integer_dec r = true /\
  (Qabs (dec_val x - dec_val r) <= 1 # 2)%Q /\
  (forall z : Z, (Qabs (dec_val x - dec_val r) <= Qabs (dec_val x - inject_Z z))%Q) /\
  ((Qabs (dec_val x - dec_val r) == 1 # 2)%Q ->
   exists R : Z, (dec_val r == inject_Z R)%Q /\ Z.even R = true).
Proof.
  intros Hfin Hwf. destruct x as [n c e| |]; try discriminate Hfin.
  cbn [dec_wf] in Hwf. apply Z.leb_le in Hwf. rewrite ba_roundBank.
  destruct (round_core 1 n c e Hwf) as [r [a [R [pw [Hr [Hint [Hpw [Hv [Hw [Hb Htie]]]]]]]]]]; [left; reflexivity|].
  exists r. rewrite Hr. split; [reflexivity|]. split; [exact Hint|].
  destruct (round_lift _ _ a R pw Hpw Hv Hw Hb) as [H1 [H2 H3]].
  split; [exact H1|]. split; [exact H3|]. intros Heq. apply H2 in Heq. specialize (Htie Heq).
  change (1 =? 1) with true in Htie. cbv iota in Htie.
  exists R. split; [|exact Htie].
  apply (is_quot_eq _ _ _ _ pw Hpw Hw (is_quot_intmul R pw)). reflexivity.
Qed.

Theorem round_nonfinite off :
  builtin_apply off (str "round") [VNum (Inf true)] = Ok (VNum (Inf true)) /\
  builtin_apply off (str "round") [VNum (Inf false)] = Ok (VNum (Inf false)) /\
  builtin_apply off (str "round") [VNum NaN] = Ok (VNum NaN) /\
  builtin_apply off (str "roundBank") [VNum (Inf true)] = Ok (VNum (Inf true)) /\
  builtin_apply off (str "roundBank") [VNum (Inf false)] = Ok (VNum (Inf false)) /\
  builtin_apply off (str "roundBank") [VNum NaN] = Ok (VNum NaN).
Proof. repeat split. Qed.

(* ---------- ceil ---------- *)

Lemma ndigits_go_le : forall fuel c acc p, 1 <= p -> 0 <= c < pow10 p ->
  ndigits_go fuel c acc <= acc + p.
Proof.
  induction fuel as [|f IH]; intros c acc p Hp Hc; cbn [ndigits_go]; [lia|].
  destruct (c <? 10) eqn:E; [lia|]. apply Z.ltb_ge in E.
  assert (Hp2 : 2 <= p).
  { destruct (Z.eq_dec p 1) as [->|Hne]; [|lia]. change (pow10 1) with 10 in Hc. lia. }
  assert (Hdiv : 0 <= c / 10 < pow10 (p - 1)).
  { replace p with (1 + (p - 1)) in Hc by lia. rewrite bn_pow10_add in Hc by lia.
    change (pow10 1) with 10 in Hc. split; [apply Z.div_pos; lia|].
    apply Z.div_lt_upper_bound; lia. }
  specialize (IH (c / 10) (acc + 1) (p - 1)). lia.
Qed.

Lemma ndigits_le c p : 1 <= p -> 0 <= c < pow10 p -> ndigits c <= p.
Proof.
  intros Hp Hc. unfold ndigits. destruct (c <=? 0); [lia|].
  pose proof (ndigits_go_le (S (Z.to_nat (Z.log2 c))) c 0 p Hp Hc). lia.
Qed.

Lemma fin_round16_small n c e : 0 <= c < pow10 16 -> fin_round16 (Fin n c e) = Fin n c e.
Proof.
  intros Hc. unfold fin_round16, round_he.
  pose proof (ndigits_le c 16 ltac:(lia) Hc) as Hd.
  destruct (ndigits c <=? 16) eqn:E; [reflexivity|apply Z.leb_gt in E; lia].
Qed.

Lemma scoef_negb n c : scoef (negb n) c = - scoef n c.
Proof. destruct n; unfold scoef; cbn [negb]; lia. Qed.

(* magnitude at most 10^16 - 1: the 16-digit rounding of Context64.Neg inside Ceil does not bite *)
Definition ceil_in_range (x : dec) : Prop :=
  (Qabs (dec_val x) <= inject_Z (pow10 16 - 1))%Q.

Lemma ceil_core n c e : 0 <= c -> ceil_in_range (Fin n c e) -> exists r a R pw,
  dec_ceil (Fin n c e) = r /\ is_integer_dec r = true /\ 0 < pw /\
  is_quot (dec_val (Fin n c e)) a pw /\ is_quot (dec_val r) (R * pw) pw /\
  (R - 1) * pw < a <= R * pw.
Proof.
  intros Hc Hrange. unfold ceil_in_range in Hrange.
  destruct (Z_le_gt_dec 0 e) as [He|He].
  - (* an integer already *)
    pose proof (is_quot_integer_dec n c e 1 He) as Hq.
    apply (is_quot_le_r _ _ 1 (pow10 16 - 1) 1 ltac:(lia) (is_quot_abs _ _ 1 ltac:(lia) Hq)) in Hrange.
    assert (Hpe : 0 < pow10 e) by (apply bn_pow10_pos; exact He).
    rewrite Z.mul_1_r, <- Z.mul_assoc, Z.abs_mul, scoef_abs in Hrange by exact Hc.
    assert (Hc16 : 0 <= c < pow10 16) by nia.
    unfold dec_ceil, dec_floor. cbn [flip]. rewrite rti_int by exact He.
    destruct (c =? 0) eqn:Ec.
    + apply Z.eqb_eq in Ec. subst c.
      exists (Fin false 0 e), (scoef n 0 * pow10 e * 1), 0, 1.
      split; [reflexivity|]. split; [cbn [is_integer_dec]; apply Z.leb_le; exact He|].
      split; [lia|]. split; [exact Hq|]. split.
      * pose proof (is_quot_integer_dec false 0 e 1 He) as H0. cbn [scoef] in H0. exact H0.
      * destruct n; cbn [scoef]; lia.
    + rewrite Bool.negb_involutive, fin_round16_small by exact Hc16.
      exists (Fin n c e), (scoef n c * pow10 e * 1), (scoef n c * pow10 e), 1.
      split; [reflexivity|]. split; [cbn [is_integer_dec]; apply Z.leb_le; exact He|].
      split; [lia|]. split; [exact Hq|]. split; [exact Hq|lia].
  - assert (Hpw : 0 < pow10 (- e)) by (apply bn_pow10_pos; lia).
    pose proof (dec_val_neg_exp n c e ltac:(lia)) as Hq.
    apply (is_quot_le_r _ _ _ (pow10 16 - 1) 1 Hpw (is_quot_abs _ _ _ Hpw Hq)) in Hrange.
    rewrite Z.mul_1_r, scoef_abs in Hrange by exact Hc.
    destruct (floor_fin (negb n) c e Hc) as [q' [Hr [Hq' Hb]]]; [lia|].
    rewrite !scoef_negb in Hb.
    assert (Hq16 : 0 <= q' < pow10 16).
    { split; [exact Hq'|]. destruct n; unfold scoef in Hb; nia. }
    unfold dec_ceil. cbn [flip]. rewrite Hr.
    destruct (q' =? 0) eqn:Eq.
    + apply Z.eqb_eq in Eq. subst q'.
      exists (Fin false 0 0), (scoef n c), 0, (pow10 (- e)).
      split; [reflexivity|]. split; [reflexivity|]. split; [exact Hpw|]. split; [exact Hq|]. split.
      * pose proof (is_quot_integer_dec false 0 0 (pow10 (- e)) ltac:(lia)) as H0.
        cbn [scoef] in H0. exact H0.
      * destruct n; unfold scoef in *; lia.
    + rewrite Bool.negb_involutive, fin_round16_small by exact Hq16.
      exists (Fin n q' 0), (scoef n c), (scoef n q'), (pow10 (- e)).
      split; [reflexivity|]. split; [reflexivity|]. split; [exact Hpw|]. split; [exact Hq|]. split.
      * pose proof (is_quot_integer_dec n q' 0 (pow10 (- e)) ltac:(lia)) as H0.
        rewrite bn_pow10_0, Z.mul_1_r in H0. exact H0.
      * lia.
Qed.

Theorem ceil_spec off x : is_finite x = true -> dec_wf x = true ->
  (Qabs (dec_val x) <= inject_Z (10 ^ 16 - 1))%Q -> exists r,
  builtin_apply off (str "ceil") [VNum x] = Ok (VNum r) /\
  is_integer_dec r = true /\
  (dec_val x <= dec_val r)%Q /\ (dec_val r < dec_val x + 1)%Q /\
  (forall z : Z, (dec_val x <= inject_Z z)%Q -> (dec_val r <= inject_Z z)%Q).
Proof.
  intros Hfin Hwf Hrange. destruct x as [n c e| |]; try discriminate Hfin.
  cbn [dec_wf] in Hwf. apply Z.leb_le in Hwf. rewrite ba_ceil.
  destruct (ceil_core n c e Hwf Hrange) as [r [a [R [pw [Hr [Hint [Hpw [Hv [Hw Hb]]]]]]]]].
  exists r. rewrite Hr. split; [reflexivity|]. split; [exact Hint|].
  apply (ceil_lift _ _ a R pw Hpw Hv Hw Hb).
Qed.

(* the full statement "for every finite x, ceil x is the least integer >= x" is false of the
   model beyond 16 digits: ceil(10000000000000001) = 1.000000000000000E+16 < x *)
Theorem ceil_refuted_beyond_16_digits : exists x r,
  is_finite x = true /\ dec_wf x = true /\
  builtin_apply 0 (str "ceil") [VNum x] = Ok (VNum r) /\ (dec_val r < dec_val x)%Q /\
  dec_cmp r x = -1 /\
  dec_of_string (str "10000000000000001") = x /\ dec_to_string r = str "1.000000000000000E+16".
Proof.
  exists (Fin false 10000000000000001 0), (Fin false 1000000000000000 1).
  repeat split; vm_compute; reflexivity.
Qed.

Theorem ceil_nonfinite off :
  builtin_apply off (str "ceil") [VNum (Inf true)] = Ok (VNum (Inf true)) /\
  builtin_apply off (str "ceil") [VNum (Inf false)] = Ok (VNum (Inf false)) /\
  builtin_apply off (str "ceil") [VNum NaN] = Ok (VNum NaN).
Proof. repeat split. Qed.

Example ex_ceil_in_range : (Qabs (dec_val (Fin true 125 (-1))) <= inject_Z (10 ^ 16 - 1))%Q /\
  builtin_apply 0 (str "ceil") [VNum (Fin true 125 (-1))] = Ok (VNum (Fin true 12 0)) /\
  builtin_apply 0 (str "floor") [VNum (Fin true 125 (-1))] = Ok (VNum (Fin true 13 0)) /\
  builtin_apply 0 (str "round") [VNum (Fin true 125 (-1))] = Ok (VNum (Fin true 13 0)) /\
  builtin_apply 0 (str "roundBank") [VNum (Fin true 125 (-1))] = Ok (VNum (Fin true 12 0)).
Proof. split; [vm_compute; discriminate|]. repeat split. Qed.

(* ---------- dec_cmp compares the denoted rationals ---------- *)

Lemma dec_val_shift n c e1 e : e <= e1 ->
  (dec_val (Fin n c e1) == inject_Z (scoef n c * pow10 (e1 - e)) * Qpower (inject_Z 10) e)%Q.
Proof.
  intros He. unfold dec_val. rewrite inject_Z_mult, <- qpow10_nonneg by lia.
  rewrite <- Qmult_assoc, <- Qpower_plus by exact ten_nonzero.
  replace (e1 - e + e) with e1 by lia. reflexivity.
Qed.

Lemma qpow10_pos e : (0 < Qpower (inject_Z 10) e)%Q.
Proof. apply Qpower_0_lt. reflexivity. Qed.

Theorem dec_cmp_val n1 c1 e1 n2 c2 e2 :
  let x := Fin n1 c1 e1 in let y := Fin n2 c2 e2 in
  (dec_cmp x y = -1 <-> (dec_val x < dec_val y)%Q) /\
  (dec_cmp x y = 0 <-> (dec_val x == dec_val y)%Q) /\
  (dec_cmp x y = 1 <-> (dec_val y < dec_val x)%Q).
Proof.
  intros x y. unfold x, y, dec_cmp.
  set (e := Z.min e1 e2).
  rewrite (dec_val_shift n1 c1 e1 e) by (unfold e; lia).
  rewrite (dec_val_shift n2 c2 e2 e) by (unfold e; lia).
  rewrite !scoef_mul.
  set (a := scoef n1 (c1 * pow10 (e1 - e))). set (b := scoef n2 (c2 * pow10 (e2 - e))).
  pose proof (qpow10_pos e) as Hpos.
  rewrite !(Qmult_lt_r _ _ _ Hpos), <- !Zlt_Qlt.
  assert (Heq : (inject_Z a * Qpower (inject_Z 10) e == inject_Z b * Qpower (inject_Z 10) e)%Q <-> a = b).
  { split.
    - intros H. apply Qmult_inj_r in H; [apply inject_Z_injective; exact H|].
      intros Hzero. rewrite Hzero in Hpos. discriminate Hpos.
    - intros H. rewrite H. reflexivity. }
  rewrite Heq.
  destruct (a <? b) eqn:E1; [apply Z.ltb_lt in E1|apply Z.ltb_ge in E1].
  - repeat split; intros H; try lia; try discriminate H.
  - destruct (a =? b) eqn:E2; [apply Z.eqb_eq in E2|apply Z.eqb_neq in E2];
      repeat split; intros H; try lia; try discriminate H.
Qed.

Lemma dec_cmp_range x y : dec_cmp x y = -1 \/ dec_cmp x y = 0 \/ dec_cmp x y = 1.
Proof.
  destruct x as [n1 c1 e1|n1|]; destruct y as [n2 c2 e2|n2|]; cbn [dec_cmp]; try (right; left; reflexivity).
  - destruct (_ <? _); [left; reflexivity|]. destruct (_ =? _); [right; left|right; right]; reflexivity.
  - destruct n2; [right; right|left]; reflexivity.
  - destruct n1; [left|right; right]; reflexivity.
  - destruct (Bool.eqb n1 n2); [right; left; reflexivity|]. destruct n1; [left|right; right]; reflexivity.
Qed.

Lemma dec_cmp_le_val x y : is_finite x = true -> is_finite y = true ->
  (dec_cmp x y <= 0 <-> (dec_val x <= dec_val y)%Q).
Proof.
  intros Hx Hy. destruct x as [n1 c1 e1| |]; try discriminate Hx.
  destruct y as [n2 c2 e2| |]; try discriminate Hy.
  destruct (dec_cmp_val n1 c1 e1 n2 c2 e2) as [H1 [H2 H3]]. cbv zeta in *.
  destruct (dec_cmp_range (Fin n1 c1 e1) (Fin n2 c2 e2)) as [Hc|[Hc|Hc]]; rewrite Hc in *; split; intros H; try lia.
  - apply Qlt_le_weak. apply H1. reflexivity.
  - apply Qle_lteq. right. apply H2. reflexivity.
  - exfalso. apply (Qlt_not_le _ _ (proj1 H3 eq_refl)). exact H.
Qed.

(* ---------- max, min ---------- *)

Lemma no_opaque_nums l : existsb is_opaque (map VNum l) = false.
Proof. induction l as [|d t IH]; [reflexivity|exact IH]. Qed.

Lemma nums_of_map l : nums_of (map VNum l) = Some l.
Proof.
  unfold nums_of. induction l as [|d t IH]; cbn [map fold_right]; [reflexivity|].
  rewrite IH. reflexivity.
Qed.

Lemma bc_max off d r : builtin_call off (str "max") (map VNum (d :: r)) = Ok (VNum (dec_max r d)).
Proof.
  unfold builtin_call. rewrite no_opaque_nums, nums_of_map. reflexivity.
Qed.

Lemma bc_min off d r : builtin_call off (str "min") (map VNum (d :: r)) = Ok (VNum (dec_min r d)).
Proof.
  unfold builtin_call. rewrite no_opaque_nums, nums_of_map. reflexivity.
Qed.

Definition all_finite (l : list dec) : Prop := forall y, In y l -> is_finite y = true.

Lemma dec_max_spec : forall l cur, all_finite (cur :: l) ->
  In (dec_max l cur) (cur :: l) /\
  forall y, In y (cur :: l) -> dec_cmp y (dec_max l cur) <= 0.
Proof.
  induction l as [|v t IH]; intros cur Hfin; cbn [dec_max].
  - split; [left; reflexivity|]. intros y [Hy|[]]. subst y.
    apply dec_cmp_le_val; try (apply Hfin; left; reflexivity). apply Qle_refl.
  - assert (Hcur : is_finite cur = true) by (apply Hfin; left; reflexivity).
    assert (Hv : is_finite v = true) by (apply Hfin; right; left; reflexivity).
    destruct (0 <? dec_cmp v cur) eqn:E.
    + apply Z.ltb_lt in E.
      assert (Hfin' : all_finite (v :: t)) by (intros y Hy; apply Hfin; right; exact Hy).
      destruct (IH v Hfin') as [Hin Hb]. split.
      * destruct Hin as [Hin|Hin]; [right; left; exact Hin|right; right; exact Hin].
      * assert (Hm : is_finite (dec_max t v) = true) by (apply Hfin'; exact Hin).
        intros y [Hy|Hy]; [|apply Hb; exact Hy]. subst y.
        apply dec_cmp_le_val; [exact Hcur|exact Hm|].
        apply Qle_trans with (dec_val v).
        { apply dec_cmp_le_val; [exact Hcur|exact Hv|].
          destruct cur as [n1 c1 e1| |]; try discriminate Hcur.
          destruct v as [n2 c2 e2| |]; try discriminate Hv.
          destruct (dec_cmp_val n2 c2 e2 n1 c1 e1) as [_ [_ H3]].
          destruct (dec_cmp_val n1 c1 e1 n2 c2 e2) as [H1 _]. cbv zeta in *.
          destruct (dec_cmp_range (Fin n2 c2 e2) (Fin n1 c1 e1)) as [Hc|[Hc|Hc]]; try lia.
          rewrite (proj2 H1 (proj1 H3 Hc)). lia. }
        apply dec_cmp_le_val; [exact Hv|exact Hm|]. apply Hb. left. reflexivity.
    + apply Z.ltb_ge in E.
      assert (Hfin' : all_finite (cur :: t)).
      { intros y [Hy|Hy]; apply Hfin; [left; exact Hy|right; right; exact Hy]. }
      destruct (IH cur Hfin') as [Hin Hb]. split.
      * destruct Hin as [Hin|Hin]; [left; exact Hin|right; right; exact Hin].
      * assert (Hm : is_finite (dec_max t cur) = true) by (apply Hfin'; exact Hin).
        intros y [Hy|[Hy|Hy]]; [apply Hb; left; exact Hy| |apply Hb; right; exact Hy]. subst y.
        apply dec_cmp_le_val; [exact Hv|exact Hm|].
        apply Qle_trans with (dec_val cur).
        { apply dec_cmp_le_val; [exact Hv|exact Hcur|exact E]. }
        apply dec_cmp_le_val; [exact Hcur|exact Hm|]. apply Hb. left. reflexivity.
Qed.

Lemma dec_cmp_antisym_le x y : is_finite x = true -> is_finite y = true ->
  0 <= dec_cmp x y -> dec_cmp y x <= 0.
Proof.
  intros Hx Hy H. destruct x as [n1 c1 e1| |]; try discriminate Hx.
  destruct y as [n2 c2 e2| |]; try discriminate Hy.
  destruct (dec_cmp_val n1 c1 e1 n2 c2 e2) as [H1 [H2 H3]].
  destruct (dec_cmp_val n2 c2 e2 n1 c1 e1) as [G1 [G2 G3]]. cbv zeta in *.
  destruct (dec_cmp_range (Fin n1 c1 e1) (Fin n2 c2 e2)) as [Hc|[Hc|Hc]]; try lia.
  - rewrite (proj2 G2); [lia|]. symmetry. apply H2. exact Hc.
  - rewrite (proj2 G1); [lia|]. apply H3. exact Hc.
Qed.

Lemma dec_min_spec : forall l cur, all_finite (cur :: l) ->
  In (dec_min l cur) (cur :: l) /\
  forall y, In y (cur :: l) -> dec_cmp (dec_min l cur) y <= 0.
Proof.
  induction l as [|v t IH]; intros cur Hfin; cbn [dec_min].
  - split; [left; reflexivity|]. intros y [Hy|[]]. subst y.
    apply dec_cmp_le_val; try (apply Hfin; left; reflexivity). apply Qle_refl.
  - assert (Hcur : is_finite cur = true) by (apply Hfin; left; reflexivity).
    assert (Hv : is_finite v = true) by (apply Hfin; right; left; reflexivity).
    destruct (dec_cmp v cur <? 0) eqn:E.
    + apply Z.ltb_lt in E.
      assert (Hfin' : all_finite (v :: t)) by (intros y Hy; apply Hfin; right; exact Hy).
      destruct (IH v Hfin') as [Hin Hb]. split.
      * destruct Hin as [Hin|Hin]; [right; left; exact Hin|right; right; exact Hin].
      * assert (Hm : is_finite (dec_min t v) = true) by (apply Hfin'; exact Hin).
        intros y [Hy|Hy]; [|apply Hb; exact Hy]. subst y.
        apply dec_cmp_le_val; [exact Hm|exact Hcur|].
        apply Qle_trans with (dec_val v).
        { apply dec_cmp_le_val; [exact Hm|exact Hv|]. apply Hb. left. reflexivity. }
        apply dec_cmp_le_val; [exact Hv|exact Hcur|lia].
    + apply Z.ltb_ge in E.
      assert (Hfin' : all_finite (cur :: t)).
      { intros y [Hy|Hy]; apply Hfin; [left; exact Hy|right; right; exact Hy]. }
      destruct (IH cur Hfin') as [Hin Hb]. split.
      * destruct Hin as [Hin|Hin]; [left; exact Hin|right; right; exact Hin].
      * assert (Hm : is_finite (dec_min t cur) = true) by (apply Hfin'; exact Hin).
        intros y [Hy|[Hy|Hy]]; [apply Hb; left; exact Hy| |apply Hb; right; exact Hy]. subst y.
        apply dec_cmp_le_val; [exact Hm|exact Hv|].
        apply Qle_trans with (dec_val cur).
        { apply dec_cmp_le_val; [exact Hm|exact Hcur|]. apply Hb. left. reflexivity. }
        apply dec_cmp_le_val; [exact Hcur|exact Hv|].
        apply dec_cmp_antisym_le; [exact Hv|exact Hcur|exact E].
Qed.

Theorem max_spec off d r : (forall y, In y (d :: r) -> is_finite y = true) -> exists m,
  builtin_call off (str "max") (map VNum (d :: r)) = Ok (VNum m) /\
  In m (d :: r) /\
  forall y, In y (d :: r) -> dec_cmp y m <= 0 /\ (dec_val y <= dec_val m)%Q.
Proof.
  intros Hfin. exists (dec_max r d). rewrite bc_max. split; [reflexivity|].
  destruct (dec_max_spec r d Hfin) as [Hin Hb]. split; [exact Hin|].
  intros y Hy. split; [apply Hb; exact Hy|].
  apply dec_cmp_le_val; [apply Hfin; exact Hy|apply Hfin; exact Hin|apply Hb; exact Hy].
Qed.

Theorem min_spec off d r : (forall y, In y (d :: r) -> is_finite y = true) -> exists m,
  builtin_call off (str "min") (map VNum (d :: r)) = Ok (VNum m) /\
  In m (d :: r) /\
  forall y, In y (d :: r) -> dec_cmp m y <= 0 /\ (dec_val m <= dec_val y)%Q.
Proof.
  intros Hfin. exists (dec_min r d). rewrite bc_min. split; [reflexivity|].
  destruct (dec_min_spec r d Hfin) as [Hin Hb]. split; [exact Hin|].
  intros y Hy. split; [apply Hb; exact Hy|].
  apply dec_cmp_le_val; [apply Hfin; exact Hin|apply Hfin; exact Hy|apply Hb; exact Hy].
Qed.

Theorem max_min_no_arguments off :
  builtin_call off (str "max") [] = Err /\ builtin_call off (str "min") [] = Err.
Proof. split; reflexivity. Qed.

Example ex_max :
  builtin_call 0 (str "max") (map VNum [Fin false 15 (-1); Fin false 2 0; Fin true 7 0; Fin false 200 (-2)]) =
  Ok (VNum (Fin false 2 0)) /\
  builtin_call 0 (str "min") (map VNum [Fin false 15 (-1); Fin false 2 0; Fin true 7 0; Fin true 70 (-1)]) =
  Ok (VNum (Fin true 7 0)).
Proof. split; vm_compute; reflexivity. Qed.

(* ---------- toInt, toFloat, finite ---------- *)

Definition in_int64 (v : Z) : Prop := -9223372036854775808 <= v <= 9223372036854775807.

Lemma to_i64_opt_fin n c e : in_int64 (trunc_dec (Fin n c e)) ->
  to_i64_opt (Fin n c e) = Some (trunc_dec (Fin n c e)).
Proof.
  unfold in_int64, to_i64_opt, dec_to_int, trunc_dec. intros [H1 H2].
  set (v := scoef n (if 0 <=? e then c * pow10 e else c / pow10 (- e))) in *.
  destruct (-9223372036854775808 <=? v) eqn:E1; [|apply Z.leb_gt in E1; lia].
  destruct (v <=? 9223372036854775807) eqn:E2; [|apply Z.leb_gt in E2; lia]. reflexivity.
Qed.

Lemma to_i64_opt_fin_out n c e : ~ in_int64 (trunc_dec (Fin n c e)) -> to_i64_opt (Fin n c e) = None.
Proof.
  unfold in_int64, to_i64_opt, dec_to_int, trunc_dec. intros H.
  set (v := scoef n (if 0 <=? e then c * pow10 e else c / pow10 (- e))) in *.
  destruct (-9223372036854775808 <=? v) eqn:E1; [|reflexivity]. apply Z.leb_le in E1.
  destruct (v <=? 9223372036854775807) eqn:E2; [|reflexivity]. apply Z.leb_le in E2. lia.
Qed.

(* trunc_dec is the truncation toward zero: same sign as x, |T| <= |x| < |T| + 1 *)
Lemma trunc_dec_spec n c e : 0 <= c ->
  let x := Fin n c e in let T := trunc_dec x in
  (Qabs (inject_Z T) <= Qabs (dec_val x))%Q /\ (Qabs (dec_val x) < Qabs (inject_Z T) + 1)%Q /\
  ((0 <= dec_val x)%Q -> 0 <= T) /\ ((dec_val x <= 0)%Q -> T <= 0).
Proof.
  intros Hc x T. subst T x. unfold trunc_dec.
  destruct (0 <=? e) eqn:Ee; [apply Z.leb_le in Ee|apply Z.leb_gt in Ee].
  - pose proof (is_quot_integer_dec n c e 1 Ee) as Hq.
    assert (Hpe : 0 < pow10 e) by (apply bn_pow10_pos; exact Ee).
    pose proof (is_quot_intmul (scoef n (c * pow10 e)) 1) as Hi.
    rewrite scoef_mul in Hq.
    assert (H1 : 0 < 1) by lia.
    split; [|split; [|split]].
    + apply (is_quot_le _ _ _ _ 1 H1 (is_quot_abs _ _ 1 H1 Hi) (is_quot_abs _ _ 1 H1 Hq)). lia.
    + apply (is_quot_lt _ _ _ _ 1 H1 (is_quot_abs _ _ 1 H1 Hq)
               (is_quot_plus1 _ _ 1 (is_quot_abs _ _ 1 H1 Hi))). lia.
    + intros H. apply (is_quot_le_l _ _ 1 0 1 H1 Hq) in H. lia.
    + intros H. apply (is_quot_le_r _ _ 1 0 1 H1 Hq) in H. lia.
  - assert (Hpw : 0 < pow10 (- e)) by (apply bn_pow10_pos; lia).
    pose proof (dec_val_neg_exp n c e Ee) as Hq.
    set (pw := pow10 (- e)) in *.
    pose proof (Z.div_mod c pw) as Hdm. pose proof (Z.mod_pos_bound c pw Hpw) as Hr.
    assert (Hdiv : 0 <= c / pw) by (apply Z.div_pos; lia).
    set (q := c / pw) in *. set (r := c mod pw) in *.
    assert (Hc' : c = pw * q + r) by (apply Hdm; lia).
    pose proof (is_quot_intmul (scoef n q) pw) as Hi.
    assert (Ha1 : Z.abs (scoef n q * pw) = q * pw) by (rewrite Z.abs_mul, scoef_abs by exact Hdiv; lia).
    assert (Ha2 : Z.abs (scoef n c) = c) by (apply scoef_abs; exact Hc).
    split; [|split; [|split]].
    + apply (is_quot_le _ _ _ _ pw Hpw (is_quot_abs _ _ pw Hpw Hi) (is_quot_abs _ _ pw Hpw Hq)). lia.
    + apply (is_quot_lt _ _ _ _ pw Hpw (is_quot_abs _ _ pw Hpw Hq)
               (is_quot_plus1 _ _ pw (is_quot_abs _ _ pw Hpw Hi))). lia.
    + intros H. apply (is_quot_le_l _ _ pw 0 1 Hpw Hq) in H. destruct n; unfold scoef in *; nia.
    + intros H. apply (is_quot_le_r _ _ pw 0 1 Hpw Hq) in H. destruct n; unfold scoef in *; nia.
Qed.

Theorem toInt_truncates off x : is_finite x = true -> dec_wf x = true ->
  -9223372036854775808 <= trunc_dec x <= 9223372036854775807 -> exists T,
  builtin_apply off (str "toInt") [VNum x] = Ok (VNum (dec_of_Z T)) /\
  (Qabs (inject_Z T) <= Qabs (dec_val x))%Q /\ (Qabs (dec_val x) < Qabs (inject_Z T) + 1)%Q /\
  ((0 <= dec_val x)%Q -> 0 <= T) /\ ((dec_val x <= 0)%Q -> T <= 0).
Proof.
  intros Hfin Hwf Hr. destruct x as [n c e| |]; try discriminate Hfin.
  cbn [dec_wf] in Hwf. apply Z.leb_le in Hwf.
  exists (trunc_dec (Fin n c e)). rewrite ba_toInt_num. unfold to_int_dec. rewrite to_i64_opt_fin by exact Hr.
  split; [reflexivity|]. apply (trunc_dec_spec n c e Hwf).
Qed.

(* to_int_dec (funToInt), case by case *)
Lemma to_int_dec_in_range d a : to_i64_opt d = Some a -> to_int_dec d = dec_of_Z a.
Proof. intros H. unfold to_int_dec. rewrite H. reflexivity. Qed.

Lemma to_int_dec_beyond n c e : to_i64_opt (Fin n c e) = None ->
  to_int_dec (Fin n c e) = if 0 <=? e then Fin n c e else Fin n (c / pow10 (- e)) 0.
Proof. intros H. unfold to_int_dec. rewrite H. reflexivity. Qed.

Lemma to_i64_opt_fin_iff n c e :
  (to_i64_opt (Fin n c e) = Some (trunc_dec (Fin n c e)) <-> in_int64 (trunc_dec (Fin n c e))) /\
  (to_i64_opt (Fin n c e) = None <-> ~ in_int64 (trunc_dec (Fin n c e))).
Proof.
  assert (Hdec : in_int64 (trunc_dec (Fin n c e)) \/ ~ in_int64 (trunc_dec (Fin n c e))) by (unfold in_int64; lia).
  destruct Hdec as [H|H].
  - rewrite (to_i64_opt_fin n c e H). split; split; intros H'; try exact H; try reflexivity; try discriminate H'.
    contradiction.
  - rewrite (to_i64_opt_fin_out n c e H). split; split; intros H'; try exact H; try reflexivity; try discriminate H'.
    contradiction.
Qed.

Lemma trunc_dec_of_Z a : trunc_dec (dec_of_Z a) = a.
Proof.
  unfold dec_of_Z, trunc_dec. cbn [Z.leb Z.compare]. rewrite bn_pow10_0, Z.mul_1_r.
  unfold scoef. destruct (a <? 0) eqn:E; [apply Z.ltb_lt in E|apply Z.ltb_ge in E]; lia.
Qed.

(* the value of toInt is the truncation toward zero of its argument, whatever the size (and 0 for
   NaN and the infinities, whose trunc_dec is 0) *)
Theorem to_int_dec_trunc d : trunc_dec (to_int_dec d) = trunc_dec d.
Proof.
  destruct d as [n c e|n|]; [|reflexivity|reflexivity].
  destruct (to_i64_opt (Fin n c e)) as [a|] eqn:E.
  - rewrite (to_int_dec_in_range _ a E), trunc_dec_of_Z.
    unfold to_i64_opt, dec_to_int in E. unfold trunc_dec.
    destruct (_ && _) in E; [|discriminate E]. injection E as E. symmetry. exact E.
  - rewrite (to_int_dec_beyond n c e E). destruct (0 <=? e) eqn:Ee; [reflexivity|].
    unfold trunc_dec. rewrite Ee. cbn [Z.leb Z.compare]. rewrite bn_pow10_0, Z.mul_1_r. reflexivity.
Qed.

(* ... it has no fraction digits, and keeps the sign flag of its argument beyond int64 *)
Lemma to_int_dec_integer d : is_integer_dec (to_int_dec d) = true.
Proof.
  destruct d as [n c e|n|]; [|reflexivity|reflexivity].
  destruct (to_i64_opt (Fin n c e)) as [a|] eqn:E.
  - rewrite (to_int_dec_in_range _ a E). reflexivity.
  - rewrite (to_int_dec_beyond n c e E). destruct (0 <=? e) eqn:Ee; [exact Ee|reflexivity].
Qed.

Lemma to_int_dec_wf d : dec_wf d = true -> dec_wf (to_int_dec d) = true.
Proof.
  destruct d as [n c e|n|]; [|reflexivity|reflexivity]. intros Hwf.
  destruct (to_i64_opt (Fin n c e)) as [a|] eqn:E.
  - rewrite (to_int_dec_in_range _ a E). cbn [dec_of_Z dec_wf]. apply Z.leb_le. lia.
  - rewrite (to_int_dec_beyond n c e E). destruct (0 <=? e) eqn:Ee; [exact Hwf|].
    cbn [dec_wf] in *. apply Z.leb_le in Hwf. apply Z.leb_gt in Ee. apply Z.leb_le.
    apply Z.div_pos; [exact Hwf|]. apply bn_pow10_pos. lia.
Qed.

(* an integer-valued decimal denotes its trunc_dec *)
Lemma dec_val_integer_dec x : is_integer_dec x = true -> (dec_val x == inject_Z (trunc_dec x))%Q.
Proof.
  destruct x as [n c e|n|]; try discriminate. cbn [is_integer_dec]. intros He.
  rewrite (dec_val_int n c e) by (apply Z.leb_le; exact He).
  unfold trunc_dec. rewrite He, scoef_mul. reflexivity.
Qed.

(* beyond int64 the decimal itself is truncated: the same number when it has no fraction digits,
   the integer quotient of the coefficient otherwise *)
Theorem toInt_beyond_int64 off n c e : to_i64_opt (Fin n c e) = None ->
  (0 <= e -> builtin_apply off (str "toInt") [VNum (Fin n c e)] = Ok (VNum (Fin n c e))) /\
  (e < 0 -> builtin_apply off (str "toInt") [VNum (Fin n c e)] = Ok (VNum (Fin n (c / pow10 (- e)) 0))).
Proof.
  intros H. rewrite ba_toInt_num, (to_int_dec_beyond n c e H). split; intros He.
  - apply Z.leb_le in He. rewrite He. reflexivity.
  - apply Z.leb_gt in He. rewrite He. reflexivity.
Qed.

(* toInt on every finite number, within int64 or beyond: an integer-valued decimal r whose value is
   T = trunc_dec x, the truncation toward zero of x *)
Theorem toInt_spec off x : is_finite x = true -> dec_wf x = true -> exists r T,
  builtin_apply off (str "toInt") [VNum x] = Ok (VNum r) /\ r = to_int_dec x /\
  T = trunc_dec x /\ trunc_dec r = T /\ is_integer_dec r = true /\ dec_wf r = true /\
  (dec_val r == inject_Z T)%Q /\
  (Qabs (inject_Z T) <= Qabs (dec_val x))%Q /\ (Qabs (dec_val x) < Qabs (inject_Z T) + 1)%Q /\
  ((0 <= dec_val x)%Q -> 0 <= T) /\ ((dec_val x <= 0)%Q -> T <= 0).
Proof.
  intros Hfin Hwf. exists (to_int_dec x), (trunc_dec x).
  split; [apply ba_toInt_num|]. split; [reflexivity|]. split; [reflexivity|].
  split; [apply to_int_dec_trunc|]. split; [apply to_int_dec_integer|].
  split; [apply to_int_dec_wf; exact Hwf|]. split.
  - rewrite (dec_val_integer_dec _ (to_int_dec_integer x)), to_int_dec_trunc. reflexivity.
  - destruct x as [n c e| |]; try discriminate Hfin.
    cbn [dec_wf] in Hwf. apply Z.leb_le in Hwf. apply (trunc_dec_spec n c e Hwf).
Qed.

Theorem toInt_nonfinite off n :
  builtin_apply off (str "toInt") [VNum (Inf n)] = Ok (VNum dec_zero) /\
  builtin_apply off (str "toInt") [VNum NaN] = Ok (VNum dec_zero).
Proof. split; reflexivity. Qed.

(* arithmetic and comparison on a string operand use the same coercion as toFloat *)
Lemma conv_to_number_string s : conv_to_number (VStr s) = num_of_text s.
Proof. reflexivity. Qed.

(* toInt of a string converts with toFloat first *)
Theorem toInt_string off s :
  builtin_apply off (str "toInt") [VStr s] = builtin_apply off (str "toInt") [VNum (num_of_text s)].
Proof. rewrite ba_toInt_str, ba_toInt_num. reflexivity. Qed.

Example ex_toInt :
  builtin_apply 0 (str "toInt") [VNum (Fin true 1999 (-2))] = Ok (VNum (dec_of_Z (-19))) /\
  builtin_apply 0 (str "toInt") [VStr (str "42.9")] = Ok (VNum (dec_of_Z 42)) /\
  builtin_apply 0 (str "toInt") [VNum (Fin false 1 25)] = Ok (VNum (Fin false 1 25)) /\
  builtin_apply 0 (str "toInt") [VNum (Fin true 123456789012345678905 (-1))] = Ok (VNum (Fin true 12345678901234567890 0)) /\
  to_i64_opt (Fin false 1 25) = None /\ to_i64_opt (Fin true 123456789012345678905 (-1)) = None.
Proof. repeat split. Qed.

Theorem toFloat_spec off :
  (forall d, builtin_apply off (str "toFloat") [VNum d] = Ok (VNum d)) /\
  (forall s, builtin_apply off (str "toFloat") [VStr s] = Ok (VNum (num_of_text s))).
Proof. split; intros; reflexivity. Qed.

Example ex_toFloat :
  builtin_apply 0 (str "toFloat") [VStr (str "12.50")] = Ok (VNum (Fin false 1250 (-2))) /\
  builtin_apply 0 (str "toFloat") [VStr (str "-3e2")] = Ok (VNum (Fin true 3 2)) /\
  builtin_apply 0 (str "toFloat") [VStr (str "abc")] = Ok (VNum NaN) /\
  builtin_apply 0 (str "toFloat") [VStr (str "1.2.3")] = Ok (VNum NaN) /\
  builtin_apply 0 (str "toFloat") [VStr (str "")] = Ok (VNum NaN) /\
  builtin_apply 0 (str "toFloat") [VStr (str "12a")] = Ok (VNum NaN).
Proof. repeat split. Qed.

Theorem finite_spec off :
  (forall n c e, builtin_apply off (str "finite") [VNum (Fin n c e)] = Ok (VNum (Fin n c e))) /\
  (forall n, builtin_apply off (str "finite") [VNum (Inf n)] = Ok (VNum dec_zero)) /\
  builtin_apply off (str "finite") [VNum NaN] = Ok (VNum dec_zero) /\
  (forall v, (forall d, v <> VNum d) -> builtin_apply off (str "finite") [v] = Ok (VNum dec_zero)).
Proof.
  split; [intros; reflexivity|]. split; [intros; reflexivity|]. split; [reflexivity|].
  intros v Hv. destruct v; try reflexivity. exfalso. apply (Hv d). reflexivity.
Qed.

(* ---------- digits_of, and toString / toFloat round trip ---------- *)

Definition digit_val (acc : Z) (l : list Z) : Z := fold_left (fun a b => a * 10 + (b - 48)) l acc.

Lemma digit_val_app acc l1 l2 : digit_val acc (l1 ++ l2) = digit_val (digit_val acc l1) l2.
Proof. unfold digit_val. apply fold_left_app. Qed.

Lemma scan_digits_app : forall l r acc, forallb is_dig l = true ->
  scan_digits (l ++ r) acc = scan_digits r (digit_val acc l).
Proof.
  induction l as [|b t IH]; intros r acc H; [reflexivity|].
  cbn [forallb] in H. apply andb_true_iff in H as [Hb Ht].
  cbn [app scan_digits]. rewrite Hb. rewrite IH by exact Ht. reflexivity.
Qed.

Lemma scan_digits_all l acc : forallb is_dig l = true -> scan_digits l acc = Some (digit_val acc l).
Proof.
  intros H. rewrite <- (app_nil_r l) at 1. rewrite scan_digits_app by exact H. reflexivity.
Qed.

Lemma scan_mant_app : forall l r c dot frac, forallb is_dig l = true ->
  scan_mant (l ++ r) c dot frac =
  scan_mant r (digit_val c l) dot (if dot then frac + slen l else frac).
Proof.
  induction l as [|b t IH]; intros r c dot frac H.
  - cbn [app]. unfold slen. cbn [length Z.of_nat digit_val fold_left].
    destruct dot; [rewrite Z.add_0_r|]; reflexivity.
  - cbn [forallb] in H. apply andb_true_iff in H as [Hb Ht].
    cbn [app scan_mant]. rewrite Hb. rewrite IH by exact Ht.
    unfold slen. cbn [length]. rewrite Nat2Z.inj_succ.
    destruct dot; [|reflexivity]. f_equal. lia.
Qed.

Lemma scan_mant_dot t c frac : scan_mant (46 :: t) c false frac = scan_mant t c true frac.
Proof. reflexivity. Qed.

Lemma scan_mant_E t c dot frac : scan_mant (69 :: t) c dot frac = Some (c, frac, 69 :: t).
Proof. reflexivity. Qed.

Lemma dog_acc : forall fuel c acc, digits_of_go fuel c acc = digits_of_go fuel c [] ++ acc.
Proof.
  induction fuel as [|f IH]; intros c acc; cbn [digits_of_go]; [reflexivity|].
  destruct (c <? 10); [reflexivity|].
  rewrite (IH (c / 10) ((48 + c mod 10) :: acc)), (IH (c / 10) [48 + c mod 10]).
  rewrite <- app_assoc. reflexivity.
Qed.

Lemma is_dig_48 d : 0 <= d < 10 -> is_dig (48 + d) = true.
Proof.
  intros H. unfold is_dig. apply andb_true_iff. split; apply Z.leb_le; lia.
Qed.

Lemma dog_spec : forall fuel c, 0 <= c < 2 ^ Z.of_nat fuel ->
  forallb is_dig (digits_of_go fuel c []) = true /\ digit_val 0 (digits_of_go fuel c []) = c.
Proof.
  induction fuel as [|f IH]; intros c Hc.
  - cbn [digits_of_go]. change (2 ^ Z.of_nat 0) with 1 in Hc. split; [reflexivity|]. cbn. lia.
  - cbn [digits_of_go]. destruct (c <? 10) eqn:E.
    + apply Z.ltb_lt in E. cbn [forallb]. rewrite is_dig_48 by lia. split; [reflexivity|].
      unfold digit_val. cbn [fold_left]. lia.
    + apply Z.ltb_ge in E. rewrite dog_acc.
      rewrite Nat2Z.inj_succ, Z.pow_succ_r in Hc by lia.
      assert (Hdiv : 0 <= c / 10 < 2 ^ Z.of_nat f).
      { split; [apply Z.div_pos; lia|]. apply Z.div_lt_upper_bound; lia. }
      destruct (IH (c / 10) Hdiv) as [Hd Hv].
      pose proof (Z.mod_pos_bound c 10 ltac:(lia)) as Hm.
      split.
      * rewrite forallb_app, Hd. cbn [forallb]. rewrite is_dig_48 by lia. reflexivity.
      * rewrite digit_val_app, Hv. unfold digit_val. cbn [fold_left].
        pose proof (Z.div_mod c 10 ltac:(lia)). lia.
Qed.

Lemma dog_nonempty fuel c acc : digits_of_go (S fuel) c acc <> [].
Proof.
  cbn [digits_of_go]. destruct (c <? 10); [discriminate|].
  rewrite dog_acc. intros H. apply app_eq_nil in H as [_ H]. discriminate H.
Qed.

(* digits_of c is the decimal spelling of c *)
Theorem digits_of_spec c : 0 <= c ->
  forallb is_dig (digits_of c) = true /\ digit_val 0 (digits_of c) = c /\ digits_of c <> [].
Proof.
  intros Hc. unfold digits_of. destruct (c <=? 0) eqn:E.
  - apply Z.leb_le in E. assert (c = 0) as -> by lia. repeat split. discriminate.
  - apply Z.leb_gt in E. split; [|split]; [| |apply dog_nonempty].
    + apply dog_spec. rewrite Nat2Z.inj_succ, Z2Nat.id by apply Z.log2_nonneg.
      pose proof (Z.log2_spec c E). lia.
    + apply dog_spec. rewrite Nat2Z.inj_succ, Z2Nat.id by apply Z.log2_nonneg.
      pose proof (Z.log2_spec c E). lia.
Qed.

Theorem digits_of_scan c : 0 <= c -> scan_digits (digits_of c) 0 = Some c.
Proof.
  intros Hc. destruct (digits_of_spec c Hc) as [Hd [Hv _]].
  rewrite scan_digits_all by exact Hd. rewrite Hv. reflexivity.
Qed.

Lemma zeros_digits k : forallb is_dig (zeros k) = true.
Proof. unfold zeros. induction (Z.to_nat k) as [|m IH]; [reflexivity|exact IH]. Qed.

Lemma zeros_val k : digit_val 0 (zeros k) = 0.
Proof. unfold zeros. induction (Z.to_nat k) as [|m IH]; [reflexivity|exact IH]. Qed.

Lemma zeros_len k : 0 <= k -> slen (zeros k) = k.
Proof. intros H. unfold slen, zeros. rewrite repeat_length. lia. Qed.

(* dec_of_string, factored: sign, then the unsigned body *)
Definition split_sign (s : list Z) : bool * list Z :=
  match s with
  | 43 :: t => (false, t)
  | 45 :: t => (true, t)
  | _ => (false, s)
  end.

Definition parse_num (neg : bool) (s1 : list Z) : dec :=
  match scan_mant s1 0 false 0 with
  | None => NaN
  | Some (c, frac, rest) =>
    match rest with
    | [] => Fin neg c (- frac)
    | _ :: r1 =>
      let '(eneg, r2) := split_sign r1 in
      match scan_digits r2 0 with
      | None => NaN
      | Some ex => Fin neg c (- frac + (if eneg then - ex else ex))
      end
    end
  end.

Lemma dec_of_string_factored s :
  dec_of_string s =
  let '(neg, s1) := split_sign s in
  match s1 with
  | [] => NaN
  | b :: _ =>
    if is_dig b || (b =? 46) then parse_num neg s1
    else
      let l := map lower s1 in
      if bytes_eq l [105; 110; 102] || bytes_eq l [105; 110; 102; 105; 110; 105; 116; 121] then Inf neg
      else NaN
  end.
Proof. reflexivity. Qed.

Lemma split_sign_digit b t : is_dig b = true -> split_sign (b :: t) = (false, b :: t).
Proof.
  intros H. unfold is_dig in H. apply andb_true_iff in H as [H1 H2].
  apply Z.leb_le in H1. apply Z.leb_le in H2.
  destruct (Z.eq_dec b 43) as [->|H43]; [lia|]. destruct (Z.eq_dec b 45) as [->|H45]; [lia|].
  unfold split_sign.
  destruct b as [|p|p]; try reflexivity.
  repeat (destruct p as [p|p|]; try reflexivity; try (exfalso; apply H43; reflexivity);
          try (exfalso; apply H45; reflexivity)).
Qed.

Lemma dec_of_string_signed (neg : bool) b t : is_dig b = true ->
  dec_of_string ((if neg then [45] else []) ++ b :: t) = parse_num neg (b :: t).
Proof.
  intros Hb. rewrite dec_of_string_factored. destruct neg; cbn [app].
  - change (split_sign (45 :: b :: t)) with (true, b :: t). cbv beta iota. rewrite Hb. reflexivity.
  - rewrite (split_sign_digit b t Hb). cbv beta iota. rewrite Hb. reflexivity.
Qed.

Lemma bn_slen_app (a b : list Z) : slen (a ++ b) = slen a + slen b.
Proof. unfold slen. rewrite app_length. lia. Qed.

Definition body_of (ds : list Z) (e : Z) : list Z :=
  let nd := Z.of_nat (length ds) in
  let adj := e + nd - 1 in
  if (e <=? 0) && (-6 <=? adj) then
    if e =? 0 then ds
    else if 0 <? nd + e then firstn (Z.to_nat (nd + e)) ds ++ [46] ++ skipn (Z.to_nat (nd + e)) ds
    else [48; 46] ++ zeros (- (nd + e)) ++ ds
  else
    let mant := match ds with
                | d :: ((_ :: _) as tl) => d :: 46 :: tl
                | _ => ds
                end in
    mant ++ [69] ++ (if adj <? 0 then [45] else [43]) ++ digits_of (Z.abs adj).

Lemma dec_to_string_fin n c e :
  dec_to_string (Fin n c e) = (if n then [45] else []) ++ body_of (digits_of c) e.
Proof. reflexivity. Qed.

Lemma forallb_firstn {A} (f : A -> bool) : forall k l, forallb f l = true -> forallb f (firstn k l) = true.
Proof.
  induction k as [|k IH]; intros [|a l] H; try reflexivity.
  cbn [forallb] in H. apply andb_true_iff in H as [Ha Hl].
  cbn [firstn forallb]. rewrite Ha, IH by exact Hl. reflexivity.
Qed.

Lemma forallb_skipn {A} (f : A -> bool) : forall k l, forallb f l = true -> forallb f (skipn k l) = true.
Proof.
  induction k as [|k IH]; intros [|a l] H; try reflexivity; [exact H|].
  cbn [forallb] in H. apply andb_true_iff in H as [Ha Hl]. cbn [skipn]. apply IH. exact Hl.
Qed.

Lemma body_head ds e : forallb is_dig ds = true -> ds <> [] ->
  exists b t, body_of ds e = b :: t /\ is_dig b = true.
Proof.
  intros Hd Hne. destruct ds as [|d tl]; [contradiction|].
  cbn [forallb] in Hd. apply andb_true_iff in Hd as [Hd Htl].
  unfold body_of. cbv zeta.
  set (nd := Z.of_nat (length (d :: tl))). set (adj := e + nd - 1).
  destruct ((e <=? 0) && (-6 <=? adj)).
  - destruct (e =? 0); [exists d, tl; split; [reflexivity|exact Hd]|].
    destruct (0 <? nd + e) eqn:E.
    + apply Z.ltb_lt in E. destruct (Z.to_nat (nd + e)) as [|k] eqn:Ek; [lia|].
      cbn [firstn app]. eexists d, _. split; [reflexivity|exact Hd].
    + cbn [app]. eexists 48, _. split; [reflexivity|reflexivity].
  - destruct tl as [|d2 tl2]; cbn [app]; eexists d, _; (split; [reflexivity|exact Hd]).
Qed.

Lemma scan_mant_digit b t c dot frac : is_dig b = true ->
  scan_mant (b :: t) c dot frac = scan_mant t (c * 10 + (b - 48)) dot (if dot then frac + 1 else frac).
Proof. intros H. cbn [scan_mant]. rewrite H. reflexivity. Qed.

Lemma split_sign_exp (neg : bool) digs :
  split_sign ((if neg then [45] else [43]) ++ digs) = (neg, digs).
Proof. destruct neg; reflexivity. Qed.

Lemma body_parse (neg : bool) ds c e : forallb is_dig ds = true -> digit_val 0 ds = c -> ds <> [] ->
  parse_num neg (body_of ds e) = Fin neg c e.
Proof.
  intros Hall Hv Hne. destruct ds as [|d tl]; [contradiction|].
  assert (Hall' := Hall). cbn [forallb] in Hall'. apply andb_true_iff in Hall' as [Hd Htl].
  unfold body_of. cbv zeta.
  set (ds := d :: tl) in *. set (nd := Z.of_nat (length ds)). set (adj := e + nd - 1).
  assert (Hnd : nd = slen ds) by reflexivity.
  destruct ((e <=? 0) && (-6 <=? adj)) eqn:Eplain.
  - apply andb_true_iff in Eplain as [Ee Eadj]. apply Z.leb_le in Ee.
    destruct (e =? 0) eqn:E0.
    + apply Z.eqb_eq in E0. subst e. unfold parse_num.
      rewrite <- (app_nil_r ds), scan_mant_app by exact Hall. cbn [scan_mant].
      rewrite Hv. reflexivity.
    + apply Z.eqb_neq in E0. destruct (0 <? nd + e) eqn:Epos.
      * apply Z.ltb_lt in Epos. unfold parse_num. set (k := Z.to_nat (nd + e)).
        rewrite scan_mant_app by (apply forallb_firstn; exact Hall).
        cbn [app]. rewrite scan_mant_dot.
        rewrite <- (app_nil_r (skipn k ds)), scan_mant_app by (apply forallb_skipn; exact Hall).
        cbn [scan_mant]. rewrite <- digit_val_app, firstn_skipn, Hv.
        f_equal. unfold slen. rewrite skipn_length. unfold k. unfold slen in Hnd. lia.
      * apply Z.ltb_ge in Epos. unfold parse_num.
        change ([48; 46] ++ zeros (- (nd + e)) ++ ds) with (48 :: 46 :: (zeros (- (nd + e)) ++ ds)).
        rewrite (scan_mant_digit 48) by reflexivity. cbv iota.
        rewrite scan_mant_dot.
        rewrite <- (app_nil_r (zeros (- (nd + e)) ++ ds)), scan_mant_app
          by (rewrite forallb_app, zeros_digits, Hall; reflexivity).
        cbn [scan_mant]. rewrite digit_val_app.
        change (0 * 10 + (48 - 48)) with 0. rewrite zeros_val, Hv.
        f_equal. rewrite bn_slen_app, zeros_len by lia. lia.
  - unfold parse_num. unfold ds in *. destruct tl as [|d2 tl2].
    + cbn [app]. rewrite (scan_mant_digit d) by exact Hd. cbv iota. rewrite scan_mant_E.
      rewrite split_sign_exp. rewrite (digits_of_scan (Z.abs adj)) by apply Z.abs_nonneg.
      unfold digit_val in Hv. cbn [fold_left] in Hv. rewrite Hv.
      f_equal. unfold adj, nd. cbn [length Z.of_nat Pos.of_succ_nat].
      destruct (e + 1 - 1 <? 0) eqn:Es; [apply Z.ltb_lt in Es|apply Z.ltb_ge in Es]; lia.
    + cbn [app]. rewrite (scan_mant_digit d) by exact Hd. cbv iota. rewrite scan_mant_dot.
      change (d2 :: tl2 ++ 69 :: (if adj <? 0 then [45] else [43]) ++ digits_of (Z.abs adj))
        with ((d2 :: tl2) ++ 69 :: (if adj <? 0 then [45] else [43]) ++ digits_of (Z.abs adj)).
      rewrite scan_mant_app by exact Htl. rewrite scan_mant_E.
      rewrite split_sign_exp. rewrite (digits_of_scan (Z.abs adj)) by apply Z.abs_nonneg.
      assert (Hv' : digit_val (0 * 10 + (d - 48)) (d2 :: tl2) = c) by exact Hv.
      rewrite Hv'. f_equal.
      assert (Hnd' : nd = 1 + slen (d2 :: tl2)).
      { unfold nd, slen. cbn [length]. lia. }
      destruct (adj <? 0) eqn:Es; [apply Z.ltb_lt in Es|apply Z.ltb_ge in Es]; lia.
Qed.

Theorem toString_roundtrip_fin n c e : 0 <= c ->
  dec_of_string (dec_to_string (Fin n c e)) = Fin n c e.
Proof.
  intros Hc. destruct (digits_of_spec c Hc) as [Hd [Hv Hne]].
  rewrite dec_to_string_fin.
  destruct (body_head (digits_of c) e Hd Hne) as [b [t [Hb Hdig]]].
  rewrite Hb, dec_of_string_signed by exact Hdig. rewrite <- Hb.
  apply body_parse; assumption.
Qed.

Theorem toString_roundtrip d : dec_wf d = true -> dec_of_string (dec_to_string d) = d.
Proof.
  intros Hwf. destruct d as [n c e|n|].
  - apply toString_roundtrip_fin. cbn [dec_wf] in Hwf. apply Z.leb_le. exact Hwf.
  - destruct n; reflexivity.
  - reflexivity.
Qed.

(* the spelling of a finite number is a decimal numeral in the evaluator's sense *)
Lemma body_numeral ds e : forallb is_dig ds = true -> ds <> [] ->
  exists ip ft fp et ev,
    body_of ds e = ip ++ ft ++ et /\ is_digits ip /\ frac_text ft fp /\ ip ++ fp <> [] /\ exp_text et ev.
Proof.
  intros Hall Hne. destruct ds as [|d tl]; [contradiction Hne; reflexivity|].
  assert (Hall' := Hall). cbn [forallb] in Hall'. apply andb_true_iff in Hall' as [Hd Htl].
  unfold body_of. cbv zeta.
  set (ds := d :: tl) in *. set (nd := Z.of_nat (length ds)). set (adj := e + nd - 1).
  assert (Hexp : exp_text (69 :: (if adj <? 0 then [45] else [43]) ++ digits_of (Z.abs adj))
                          (if (adj <? 0) then - dval (digits_of (Z.abs adj)) else dval (digits_of (Z.abs adj)))).
  { destruct (digits_of_spec (Z.abs adj) (Z.abs_nonneg adj)) as [Hdd [_ Hdne]].
    apply (exp_present 69 (if adj <? 0 then [45] else [43]) (adj <? 0) (digits_of (Z.abs adj))).
    - right. reflexivity.
    - destruct (adj <? 0); constructor.
    - apply is_digits_forallb. exact Hdd.
    - exact Hdne. }
  destruct ((e <=? 0) && (-6 <=? adj)).
  - destruct (e =? 0).
    + exists ds, [], [], [], 0. split; [rewrite !app_nil_r; reflexivity|].
      split; [apply is_digits_forallb; exact Hall|]. split; [constructor|].
      split; [rewrite app_nil_r; exact Hne|constructor].
    + destruct (0 <? nd + e).
      * set (k := Z.to_nat (nd + e)).
        exists (firstn k ds), (46 :: skipn k ds), (skipn k ds), [], 0.
        split; [rewrite app_nil_r; reflexivity|].
        split; [apply is_digits_forallb; apply forallb_firstn; exact Hall|].
        split; [constructor; apply is_digits_forallb; apply forallb_skipn; exact Hall|].
        split; [rewrite firstn_skipn; exact Hne|constructor].
      * exists [48], (46 :: zeros (- (nd + e)) ++ ds), (zeros (- (nd + e)) ++ ds), [], 0.
        split; [rewrite app_nil_r; reflexivity|].
        split; [apply is_digits_forallb; reflexivity|].
        split; [constructor; apply is_digits_forallb; rewrite forallb_app, zeros_digits, Hall; reflexivity|].
        split; [discriminate|constructor].
  - unfold ds. destruct tl as [|d2 tl2].
    + eexists [d], [], [], _, _. split; [reflexivity|].
      split; [apply is_digits_forallb; cbn [forallb]; rewrite Hd; reflexivity|].
      split; [constructor|]. split; [discriminate|exact Hexp].
    + eexists [d], (46 :: d2 :: tl2), (d2 :: tl2), _, _. split; [reflexivity|].
      split; [apply is_digits_forallb; cbn [forallb]; rewrite Hd; reflexivity|].
      split; [constructor; apply is_digits_forallb; exact Htl|]. split; [discriminate|exact Hexp].
Qed.

Theorem toString_is_decimal_text n c e : 0 <= c -> is_decimal_text (dec_to_string (Fin n c e)) = true.
Proof.
  intros Hc. destruct (digits_of_spec c Hc) as [Hd [_ Hne]].
  rewrite dec_to_string_fin.
  destruct (body_numeral (digits_of c) e Hd Hne) as (ip & ft & fp & et & ev & Hb & Hip & Hft & Hn & Het).
  rewrite Hb.
  apply (is_decimal_text_build (if n then [45] else []) n ip ft fp et ev); try assumption.
  destruct n; constructor.
Qed.

(* the same round trip through the evaluator's own string->number coercion: finite numbers,
   infinities ("Infinity", "-Infinity") and NaN ("NaN") alike *)
Theorem toString_roundtrip_text d : dec_wf d = true -> num_of_text (dec_to_string d) = d.
Proof.
  intros Hwf. destruct d as [n c e|n|].
  - assert (Hc : 0 <= c) by (cbn [dec_wf] in Hwf; apply Z.leb_le; exact Hwf).
    rewrite num_of_text_decimal by (apply toString_is_decimal_text; exact Hc).
    apply toString_roundtrip_fin. exact Hc.
  - destruct n; reflexivity.
  - reflexivity.
Qed.

(* toString of a number, read back by toFloat, is the same number in the same representation *)
Theorem toString_toFloat off d s : dec_wf d = true ->
  builtin_apply off (str "toString") [VNum d] = Ok (VStr s) ->
  builtin_apply off (str "toFloat") [VStr s] = Ok (VNum d).
Proof.
  intros Hwf. rewrite ba_toString_num, ba_toFloat_str. destruct (is_nan d); [discriminate|].
  intros H. injection H as H. subst s.
  rewrite toString_roundtrip_text by exact Hwf. reflexivity.
Qed.

(* ... and by toInt gives what toInt gives on the number itself *)
Theorem toString_toInt off d s : dec_wf d = true ->
  builtin_apply off (str "toString") [VNum d] = Ok (VStr s) ->
  builtin_apply off (str "toInt") [VStr s] = builtin_apply off (str "toInt") [VNum d].
Proof.
  intros Hwf. rewrite ba_toString_num, ba_toInt_str, ba_toInt_num. destruct (is_nan d); [discriminate|].
  intros H. injection H as H. subst s.
  rewrite toString_roundtrip_text by exact Hwf. reflexivity.
Qed.

Theorem toString_roundtrip_cmp d : dec_wf d = true -> dec_cmp (dec_of_string (dec_to_string d)) d = 0.
Proof.
  intros Hwf. rewrite toString_roundtrip by exact Hwf.
  destruct d as [n c e|n|]; cbn [dec_cmp]; [|destruct n; reflexivity|reflexivity].
  rewrite Z.ltb_irrefl, Z.eqb_refl. reflexivity.
Qed.

Example ex_toString :
  dec_to_string (Fin true 1250 (-2)) = str "-12.50" /\
  dec_to_string (Fin false 5 (-9)) = str "5E-9" /\
  dec_to_string (Fin false 123 4) = str "1.23E+6" /\
  dec_to_string (Fin false 0 (-3)) = str "0.000" /\
  dec_of_string (str "0.000") = Fin false 0 (-3).
Proof. repeat split. Qed.

(* ---------- bit operators ---------- *)

Definition int64_range (a : Z) : Prop := - 2 ^ 63 <= a < 2 ^ 63.

Lemma wrap64_id v : int64_range v -> wrap64 v = v.
Proof.
  unfold int64_range, wrap64, wrap_int. cbn [int_bits int_signed andb]. intros H.
  change (2 ^ 64 / 2) with (2 ^ 63).
  destruct (Z_lt_le_dec v 0) as [Hneg|Hpos].
  - assert (Hm : v mod 2 ^ 64 = v + 2 ^ 64).
    { symmetry. apply (Z.mod_unique v (2 ^ 64) (-1)); lia. }
    rewrite Hm. destruct (2 ^ 63 <=? v + 2 ^ 64) eqn:E; [lia|apply Z.leb_gt in E; lia].
  - rewrite Z.mod_small by lia. destruct (2 ^ 63 <=? v) eqn:E; [apply Z.leb_le in E; lia|reflexivity].
Qed.

Lemma to_i64_opt_of_Z a : int64_range a -> to_i64_opt (dec_of_Z a) = Some a.
Proof.
  unfold int64_range. intros H. unfold dec_of_Z, to_i64_opt, dec_to_int.
  change (0 <=? 0) with true. cbv iota. rewrite bn_pow10_0, Z.mul_1_r.
  assert (Hs : scoef (a <? 0) (Z.abs a) = a).
  { destruct (a <? 0) eqn:E; [apply Z.ltb_lt in E|apply Z.ltb_ge in E]; unfold scoef; lia. }
  rewrite Hs.
  destruct (-9223372036854775808 <=? a) eqn:E1; [|apply Z.leb_gt in E1; lia].
  destruct (a <=? 9223372036854775807) eqn:E2; [|apply Z.leb_gt in E2; lia]. reflexivity.
Qed.

(* a lies in [-2^n, 2^n) exactly when all bits from n upward equal the sign, i.e. a >> n is 0 or -1 *)
Lemma range_shiftr a n : 0 <= n -> (- 2 ^ n <= a < 2 ^ n <-> (Z.shiftr a n = 0 \/ Z.shiftr a n = -1)).
Proof.
  intros Hn. rewrite Z.shiftr_div_pow2 by exact Hn.
  assert (Hp : 0 < 2 ^ n) by (apply Z.pow_pos_nonneg; lia).
  pose proof (Z.div_mod a (2 ^ n) ltac:(lia)) as Hdm.
  pose proof (Z.mod_pos_bound a (2 ^ n) Hp) as Hr.
  split.
  - intros H. assert (-1 <= a / 2 ^ n <= 0) by nia. lia.
  - intros [H|H]; rewrite H in Hdm; lia.
Qed.

Lemma bitop_range (f : Z -> Z -> Z) a b n : 0 <= n ->
  (forall x y, Z.shiftr (f x y) n = f (Z.shiftr x n) (Z.shiftr y n)) ->
  (forall x y, (x = 0 \/ x = -1) -> (y = 0 \/ y = -1) -> (f x y = 0 \/ f x y = -1)) ->
  - 2 ^ n <= a < 2 ^ n -> - 2 ^ n <= b < 2 ^ n -> - 2 ^ n <= f a b < 2 ^ n.
Proof.
  intros Hn Hshift Hsmall Ha Hb. apply (range_shiftr _ n Hn).
  rewrite Hshift. apply Hsmall; apply (range_shiftr _ n Hn); assumption.
Qed.

Lemma land_range a b n : 0 <= n -> - 2 ^ n <= a < 2 ^ n -> - 2 ^ n <= b < 2 ^ n ->
  - 2 ^ n <= Z.land a b < 2 ^ n.
Proof.
  intros Hn. apply bitop_range; [exact Hn|intros; apply Z.shiftr_land|].
  intros x y [->| ->] [->| ->]; cbn; auto.
Qed.

Lemma lor_range a b n : 0 <= n -> - 2 ^ n <= a < 2 ^ n -> - 2 ^ n <= b < 2 ^ n ->
  - 2 ^ n <= Z.lor a b < 2 ^ n.
Proof.
  intros Hn. apply bitop_range; [exact Hn|intros; apply Z.shiftr_lor|].
  intros x y [->| ->] [->| ->]; cbn; auto.
Qed.

Lemma lxor_range a b n : 0 <= n -> - 2 ^ n <= a < 2 ^ n -> - 2 ^ n <= b < 2 ^ n ->
  - 2 ^ n <= Z.lxor a b < 2 ^ n.
Proof.
  intros Hn. apply bitop_range; [exact Hn|intros; apply Z.shiftr_lxor|].
  intros x y [->| ->] [->| ->]; cbn; auto.
Qed.

Lemma arith_bit_unfold op a b : int64_range a -> int64_range b ->
  op = KAmp \/ op = KBar \/ op = KCaret ->
  arith op (VNum (dec_of_Z a)) (VNum (dec_of_Z b)) =
  Ok (VNum (dec_of_Z (wrap64 (if kind_eqb op KAmp then Z.land a b
                              else if kind_eqb op KBar then Z.lor a b else Z.lxor a b)))).
Proof.
  intros Ha Hb Hop. unfold arith. cbn [conv_to_number].
  rewrite (to_i64_opt_of_Z a Ha), (to_i64_opt_of_Z b Hb).
  destruct Hop as [->|[->| ->]]; reflexivity.
Qed.

Theorem and_spec a b : - 2 ^ 63 <= a < 2 ^ 63 -> - 2 ^ 63 <= b < 2 ^ 63 ->
  arith KAmp (VNum (dec_of_Z a)) (VNum (dec_of_Z b)) = Ok (VNum (dec_of_Z (Z.land a b))).
Proof.
  intros Ha Hb. rewrite arith_bit_unfold by (try assumption; left; reflexivity).
  change (kind_eqb KAmp KAmp) with true. cbv iota.
  rewrite wrap64_id by (apply land_range; [lia|assumption|assumption]). reflexivity.
Qed.

Theorem or_spec a b : - 2 ^ 63 <= a < 2 ^ 63 -> - 2 ^ 63 <= b < 2 ^ 63 ->
  arith KBar (VNum (dec_of_Z a)) (VNum (dec_of_Z b)) = Ok (VNum (dec_of_Z (Z.lor a b))).
Proof.
  intros Ha Hb. rewrite arith_bit_unfold by (try assumption; right; left; reflexivity).
  change (kind_eqb KBar KAmp) with false. change (kind_eqb KBar KBar) with true. cbv iota.
  rewrite wrap64_id by (apply lor_range; [lia|assumption|assumption]). reflexivity.
Qed.

Theorem xor_spec a b : - 2 ^ 63 <= a < 2 ^ 63 -> - 2 ^ 63 <= b < 2 ^ 63 ->
  arith KCaret (VNum (dec_of_Z a)) (VNum (dec_of_Z b)) = Ok (VNum (dec_of_Z (Z.lxor a b))).
Proof.
  intros Ha Hb. rewrite arith_bit_unfold by (try assumption; right; right; reflexivity).
  change (kind_eqb KCaret KAmp) with false. change (kind_eqb KCaret KBar) with false. cbv iota.
  rewrite wrap64_id by (apply lxor_range; [lia|assumption|assumption]). reflexivity.
Qed.

Theorem not_spec a : - 2 ^ 63 <= a < 2 ^ 63 ->
  unary_op KTilde (VNum (dec_of_Z a)) = Ok (VNum (dec_of_Z (Z.lnot a))) /\ Z.lnot a = - a - 1.
Proof.
  intros Ha. assert (Hl : Z.lnot a = - a - 1) by (unfold Z.lnot; lia). split; [|exact Hl].
  unfold unary_op. rewrite (to_i64_opt_of_Z a Ha).
  rewrite wrap64_id by (unfold int64_range; lia). rewrite Hl. reflexivity.
Qed.

(* the operators act on the 64-bit two's-complement patterns (a mod 2^64) bit by bit *)
Theorem bitops_twos_complement a b i : 0 <= i < 64 ->
  Z.testbit (Z.land a b mod 2 ^ 64) i = Z.testbit (a mod 2 ^ 64) i && Z.testbit (b mod 2 ^ 64) i /\
  Z.testbit (Z.lor a b mod 2 ^ 64) i = Z.testbit (a mod 2 ^ 64) i || Z.testbit (b mod 2 ^ 64) i /\
  Z.testbit (Z.lxor a b mod 2 ^ 64) i = xorb (Z.testbit (a mod 2 ^ 64) i) (Z.testbit (b mod 2 ^ 64) i) /\
  Z.testbit (Z.lnot a mod 2 ^ 64) i = negb (Z.testbit (a mod 2 ^ 64) i).
Proof.
  intros Hi. rewrite !Z.mod_pow2_bits_low by lia.
  rewrite Z.land_spec, Z.lor_spec, Z.lxor_spec, Z.lnot_spec by lia. repeat split.
Qed.

(* operands that are not finite or whose truncation leaves int64: the library's Int64() is unspecified *)
Theorem bitops_out_of_range op v x : is_finite x = true ->
  ~ (-9223372036854775808 <= trunc_dec x <= 9223372036854775807) ->
  op = KAmp \/ op = KBar \/ op = KCaret ->
  arith op (VNum x) v = Unk /\ unary_op KTilde (VNum x) = Unk.
Proof.
  intros Hfin Hr Hop. destruct x as [n c e| |]; try discriminate Hfin.
  unfold arith, unary_op. cbn [conv_to_number]. rewrite to_i64_opt_fin_out by exact Hr.
  destruct Hop as [->|[->| ->]]; split; reflexivity.
Qed.

Example ex_bitops :
  arith KAmp (VNum (dec_of_Z (-6))) (VNum (dec_of_Z 11)) = Ok (VNum (dec_of_Z 10)) /\
  arith KBar (VNum (dec_of_Z (-6))) (VNum (dec_of_Z 3)) = Ok (VNum (dec_of_Z (-5))) /\
  arith KCaret (VNum (dec_of_Z (-1))) (VNum (dec_of_Z 5)) = Ok (VNum (dec_of_Z (-6))) /\
  unary_op KTilde (VNum (dec_of_Z 5)) = Ok (VNum (dec_of_Z (-6))) /\
  (- 2 ^ 63 <= 2 ^ 53 - 1 < 2 ^ 63).
Proof. repeat split; vm_compute; congruence. Qed.
