(* Where a Panic of the inner evaluator can come from (property C03, third part):
   every Panic of [eval] originates at a sub-formula whose own operation panics - an equality
   test on uncomparable values, a selector on a struct (time.Time), or a call whose bridge
   panics - and the bridge / conversion / builtin panics are characterised in turn. *)
From Coq Require Import String Ascii.
From Formula Require Import Sem.Eval Proofs.BridgeFacts Proofs.BridgePanic.
Open Scope Z_scope.

(* ================================================================== *)
(* 1. Conversions                                                      *)
(* ================================================================== *)

Lemma conv_map_elems_panic_iff : forall et m,
  conv_map_elems et m = Panic <->
  exists m1 k x m2, m = m1 ++ (k, x) :: m2 /\ (exists m1', conv_map_elems et m1 = Ok m1') /\
                    conv_to et x = Panic.
Proof.
  intros et m. split.
  - induction m as [|[k x] r IH]; intros H; [discriminate H|].
    rewrite conv_map_elems_cons in H.
    destruct (conv_to et x) as [x'| | |] eqn:Ex; try discriminate H.
    + destruct (conv_map_elems et r) as [r'| | |] eqn:Er; try discriminate H.
      destruct (IH eq_refl) as (m1 & k1 & y & m2 & Hm & [m1' Hm1] & Hy).
      exists ((k, x) :: m1), k1, y, m2. split; [rewrite Hm; reflexivity|]. split; [|exact Hy].
      rewrite conv_map_elems_cons, Ex, Hm1. eexists. reflexivity.
    + exists [], k, x, r. split; [reflexivity|]. split; [exists []; reflexivity|exact Ex].
  - intros (m1 & k & x & m2 & Hm & [m1' Hm1] & Hx). subst m. revert m1' Hm1.
    induction m1 as [|[k1 y] m1 IH]; intros m1' Hm1.
    + cbn [app]. rewrite conv_map_elems_cons, Hx. reflexivity.
    + cbn [app]. rewrite conv_map_elems_cons. rewrite conv_map_elems_cons in Hm1.
      destruct (conv_to et y) as [y'| | |]; try discriminate Hm1.
      destruct (conv_map_elems et m1) as [r'| | |] eqn:Er; try discriminate Hm1.
      rewrite (IH r' eq_refl). reflexivity.
Qed.

(* convTypeToTarget panics only for slice and map targets:
   nil for a slice parameter (Type() of the zero reflect.Value) or an element whose conversion
   panics itself; a non-map for a map parameter (Key() of a non-map type) or an element that panics *)
Lemma conv_to_panic_iff : forall t v,
  conv_to t v = Panic <->
  match t with
  | TSlice et => v = VNull \/ exists l, v = VArr l /\ conv_slice_elems et l = Panic
  | TMapStr et => (forall m, v <> VMap m) \/ exists m, v = VMap m /\ conv_map_elems et m = Panic
  | _ => False
  end.
Proof.
  intros t v. destruct t.
  - split; [intros H; destruct v; discriminate H|tauto].
  - split; [intros H; destruct v; cbn in H; kill_cases H|tauto].
  - split; [intros H; destruct v; cbn in H; kill_cases H|tauto].
  - split; [intros H; destruct k; destruct v; cbn in H; kill_cases H|tauto].
  - split; [intros H; destruct v; cbn in H; kill_cases H|tauto].
  - split; [intros H; destruct v; cbn in H; kill_cases H|tauto].
  - split; [intros H; destruct v; cbn in H; kill_cases H|tauto].
  - rewrite conv_to_slice. split.
    + intros H. destruct v; try discriminate H; [left; reflexivity|].
      right. exists l. split; [reflexivity|]. destruct (conv_slice_elems t l); try discriminate H. reflexivity.
    + intros [H|(l & Hv & H)]; subst v; [reflexivity|]. rewrite H. reflexivity.
  - rewrite conv_to_map. split.
    + intros H. destruct v; try (left; intros m0; discriminate).
      right. exists m. split; [reflexivity|]. destruct (conv_map_elems t m); try discriminate H. reflexivity.
    + intros [H|(m & Hv & H)].
      * destruct v; try reflexivity. exfalso. apply (H m). reflexivity.
      * subst v. rewrite H. reflexivity.
  - split; [intros H; discriminate H|tauto].
Qed.

Lemma conv_to_scalar_no_panic : forall t v,
  (forall et, t <> TSlice et) -> (forall et, t <> TMapStr et) -> conv_to t v <> Panic.
Proof.
  intros t v H1 H2 H. apply conv_to_panic_iff in H.
  destruct t; try exact H; [exact (H1 t eq_refl)|exact (H2 t eq_refl)].
Qed.

(* conv_args panics only if one argument's conversion panics, or the signature claims a variadic
   tail whose last parameter is not a slice *)
Lemma conv_args_panic_inv : forall params variadic args,
  conv_args params variadic args = Panic ->
  (exists i a t, nth_error args i = Some a /\ arg_type params variadic i = Some t /\ conv_to t a = Panic) \/
  (variadic = true /\ exists fixed p, params = fixed ++ [p] /\ (forall et, p <> TSlice et) /\
                                      (length fixed < length args)%nat).
Proof.
  intros params variadic args. revert params.
  induction args as [|a rest IH]; intros params H.
  - rewrite conv_args_nil in H. discriminate H.
  - destruct params as [|p ps]; [discriminate H|].
    destruct ps as [|p' ps'].
    + destruct variadic.
      * destruct (match p with TSlice et => Some et | _ => None end) as [et|] eqn:Ep.
        -- assert (Hp : p = TSlice et) by (destruct p; try discriminate Ep; injection Ep as Ep; subst; reflexivity).
           subst p. rewrite conv_args_variadic_tail in H.
           destruct (conv_to et a) as [a'| | |] eqn:Ea; try discriminate H.
           ++ cbn [obind] in H.
              destruct (conv_args [TSlice et] true rest) as [r| | |] eqn:Er; try discriminate H.
              destruct (IH [TSlice et] Er) as [(i & x & t & Hi & Ht & Hc)|(_ & fixed & q & Hq & Hns & _)].
              ** left. exists (S i), x, t. split; [exact Hi|]. split; [exact Ht|exact Hc].
              ** exfalso. change [TSlice et] with ([] ++ [TSlice et]) in Hq.
                 apply app_inj_tail in Hq. destruct Hq as [_ Hq]. apply (Hns et). symmetry. exact Hq.
           ++ left. exists O, a, et. split; [reflexivity|]. split; [reflexivity|exact Ea].
        -- right. split; [reflexivity|]. exists [], p. split; [reflexivity|]. split.
           ++ intros et Hp. subst p. discriminate Ep.
           ++ cbn. lia.
      * rewrite conv_args_fixed_cons in H.
        destruct (conv_to p a) as [a'| | |] eqn:Ea; try discriminate H.
        -- cbn [obind] in H. destruct rest; discriminate H.
        -- left. exists O, a, p. split; [reflexivity|]. split; [reflexivity|exact Ea].
    + assert (Heq : conv_args (p :: p' :: ps') variadic (a :: rest) =
                    obind (conv_to p a) (fun a' => obind (conv_args (p' :: ps') variadic rest) (fun r => Ok (a' :: r)))).
      { destruct variadic; reflexivity. }
      rewrite Heq in H.
      destruct (conv_to p a) as [a'| | |] eqn:Ea; try discriminate H.
      * cbn [obind] in H.
        destruct (conv_args (p' :: ps') variadic rest) as [r| | |] eqn:Er; try discriminate H.
        destruct (IH (p' :: ps') Er) as [(i & x & t & Hi & Ht & Hc)|(Hv & fixed & q & Hq & Hns & Hlen)].
        -- left. exists (S i), x, t. split; [exact Hi|]. split; [rewrite arg_type_cons2; exact Ht|exact Hc].
        -- right. split; [exact Hv|]. exists (p :: fixed), q. split; [rewrite Hq; reflexivity|].
           split; [exact Hns|]. cbn. lia.
      * left. exists O, a, p. split; [reflexivity|]. split; [reflexivity|exact Ea].
Qed.

(* ================================================================== *)
(* 2. The bridge                                                       *)
(* ================================================================== *)

Lemma call_value_panic_iff : forall hosts off f args sp st,
  fst (call_value hosts off f args sp st) = Panic <->
  f = VNull \/
  exists sg, callee_sig hosts f = Some sg /\
             arity_ok sg (length args) sp = true /\ spread_ok sg args sp = true /\
             (conv_args (sig_params sg) (sig_variadic sg) (expanded_args args sp) = Panic \/
              exists name cargs, f = VBuiltin name /\
                conv_args (sig_params sg) (sig_variadic sg) (expanded_args args sp) = Ok cargs /\
                builtin_call off name cargs = Panic).
Proof.
  intros hosts off f args sp st.
  destruct (callee_sig hosts f) as [sg|] eqn:Hsg.
  - rewrite (call_value_eq hosts off f args sp st sg Hsg). split.
    + intros H. right. exists sg. split; [reflexivity|].
      destruct (arity_ok sg (length args) sp); [|discriminate H].
      destruct (spread_ok sg args sp); [|discriminate H].
      split; [reflexivity|]. split; [reflexivity|]. cbn [andb] in H.
      destruct (conv_args (sig_params sg) (sig_variadic sg) (expanded_args args sp)) as [cargs| | |];
        try discriminate H; [|left; reflexivity].
      right. destruct f; cbn [callee_sig] in Hsg; try discriminate Hsg.
      * destruct (host_lookup id hosts) as [h|] eqn:Eh; [|discriminate Hsg].
        rewrite (run_callee_host hosts off id h cargs st Eh) in H. cbn [fst] in H.
        destruct (negb (sig_nres (h_sig h) =? 2) || h_fail h); discriminate H.
      * exists name, cargs. split; [reflexivity|]. split; [reflexivity|exact H].
    + intros [Hf|(sg' & Hsg' & Ha & Hs & Hc)].
      * subst f. discriminate Hsg.
      * injection Hsg' as Hsg'. subst sg'. rewrite Ha, Hs. cbn [andb].
        destruct Hc as [Hc|(name & cargs & Hf & Hc & Hb)].
        -- rewrite Hc. reflexivity.
        -- rewrite Hc. subst f. exact Hb.
  - rewrite (call_value_no_sig hosts off f args sp st Hsg). cbn [fst]. split.
    + intros H. left. destruct f; try discriminate H. reflexivity.
    + intros [Hf|(sg' & Hsg' & _)]; [subst f; reflexivity|discriminate Hsg'].
Qed.

(* ================================================================== *)
(* 3. The evaluator                                                    *)
(* ================================================================== *)

Section SexprInd.
Variable P : sexpr -> Prop.
Hypothesis HIdent : forall k v, P (SIdent k v).
Hypothesis HMissing : P SMissing.
Hypothesis HLit : forall k v, P (SLit k v).
Hypothesis HPrefix : forall op a, P a -> P (SPrefix op a).
Hypothesis HTypeof : forall a, P a -> P (STypeof a).
Hypothesis HBin : forall l op r, P l -> P r -> P (SBin l op r).
Hypothesis HCond : forall c t f, P c -> P t -> P f -> P (SCond c t f).
Hypothesis HArr : forall es, Forall P es -> P (SArr es).
Hypothesis HParen : forall a, P a -> P (SParen a).
Hypothesis HSel : forall a nk name asrt, P a -> P (SSel a nk name asrt).
Hypothesis HSelMissing : forall a asrt, P a -> P (SSelMissing a asrt).
Hypothesis HCall : forall f args sp, P f -> Forall P args -> P (SCall f args sp).

Fixpoint sexpr_ind' (e : sexpr) : P e :=
  match e with
  | SIdent k v => HIdent k v
  | SMissing => HMissing
  | SLit k v => HLit k v
  | SPrefix op a => HPrefix op a (sexpr_ind' a)
  | STypeof a => HTypeof a (sexpr_ind' a)
  | SBin l op r => HBin l op r (sexpr_ind' l) (sexpr_ind' r)
  | SCond c t f => HCond c t f (sexpr_ind' c) (sexpr_ind' t) (sexpr_ind' f)
  | SArr es =>
    HArr es ((fix go (l : list sexpr) : Forall P l :=
                match l with
                | [] => Forall_nil P
                | x :: t => Forall_cons x (sexpr_ind' x) (go t)
                end) es)
  | SParen a => HParen a (sexpr_ind' a)
  | SSel a nk name asrt => HSel a nk name asrt (sexpr_ind' a)
  | SSelMissing a asrt => HSelMissing a asrt (sexpr_ind' a)
  | SCall f args sp =>
    HCall f args sp (sexpr_ind' f)
          ((fix go (l : list sexpr) : Forall P l :=
              match l with
              | [] => Forall_nil P
              | x :: t => Forall_cons x (sexpr_ind' x) (go t)
              end) args)
  end.
End SexprInd.

(* immediate sub-formulas, and the sub-formula relation *)
Definition children (e : sexpr) : list sexpr :=
  match e with
  | SPrefix _ a | STypeof a | SParen a | SSel a _ _ _ | SSelMissing a _ => [a]
  | SBin l _ r => [l; r]
  | SCond c t f => [c; t; f]
  | SArr es => es
  | SCall f args _ => f :: args
  | _ => []
  end.

Inductive subexpr (s : sexpr) : sexpr -> Prop :=
| sub_refl : subexpr s s
| sub_child : forall e c, In c (children e) -> subexpr s c -> subexpr s e.

Section Sources.
Variable hosts : list (Z * hostfn).
Variable off : Z.

(* the operation of node e itself panics in state st, its operands having been evaluated *)
Definition node_panics (e : sexpr) (st : rstate) : Prop :=
  match e with
  | SBin l op r =>
    exists v1 st1 v2 st2,
      eval hosts off l st = (Ok v1, st1) /\ eval hosts off r st1 = (Ok v2, st2) /\
      is_eq_op op = true /\ uncomparable v1 v2 = true            (* == != === !== on two arrays, two maps, the same function *)
  | SSel a _ name _ =>                                          (* field of a struct without that field *)
    (exists t st1, eval hosts off a st = (Ok (VTime t), st1)) \/
    (exists id fs st1, eval hosts off a st = (Ok (VStruct id fs), st1) /\ assoc name fs = None)
  | SCall f args sp =>
    exists fv st1 vs st2,
      eval hosts off f st = (Ok fv, st1) /\ is_name_path f = true /\
      eval_list hosts off args st1 = (Ok vs, st2) /\
      fst (call_value hosts off fv vs sp st2) = Panic          (* see call_value_panic_iff *)
  | _ => False
  end.

Lemma node_panics_selector : forall a nk name asrt st,
  node_panics (SSel a nk name asrt) st <->
  (exists t st1, eval hosts off a st = (Ok (VTime t), st1)) \/
  (exists id fs st1, eval hosts off a st = (Ok (VStruct id fs), st1) /\ assoc name fs = None).
Proof. intros a nk name asrt st. reflexivity. Qed.

Lemma node_panics_sound : forall e st, node_panics e st -> fst (eval hosts off e st) = Panic.
Proof.
  intros e st H. destruct e; try contradiction H.
  - destruct H as (v1 & st1 & v2 & st2 & Hl & Hr & Hop & Hu).
    exact (proj1 (compare_uncomparable hosts off e1 op e2 st v1 st1 v2 st2 Hop Hl Hr Hu)).
  - destruct H as [(t & st1 & Ha)|(id & fs & st1 & Ha & Hn)].
    + exact (proj1 (member_of_struct_missing_field hosts off e nk name assert st t st1 Ha)).
    + exact (proj1 (member_of_go_struct_missing_field hosts off e nk name assert st id fs st1 Ha Hn)).
  - destruct H as (fv & st1 & vs & st2 & Hf & Hn & Ha & Hc).
    rewrite (call_node hosts off e args spread st fv st1 vs st2 Hf Hn Ha). apply fmt_fst_panic. exact Hc.
Qed.

Lemma eval_list_panic : forall es st,
  fst (eval_list hosts off es st) = Panic ->
  exists c st1, In c es /\ fst (eval hosts off c st1) = Panic.
Proof.
  induction es as [|a t IH]; intros st H.
  - discriminate H.
  - rewrite eval_list_cons in H.
    destruct (eval hosts off a st) as [[v| | |] st1] eqn:Ea; try discriminate H.
    + destruct (eval_list hosts off t st1) as [[vs| | |] st2] eqn:Et; try discriminate H.
      destruct (IH st1) as (c & st0 & Hin & Hc); [rewrite Et; reflexivity|].
      exists c, st0. split; [right; exact Hin|exact Hc].
    + exists a, st. split; [left; reflexivity|]. rewrite Ea. reflexivity.
Qed.

Definition has_source (e : sexpr) : Prop := exists s st0, subexpr s e /\ node_panics s st0.

Lemma source_of_child : forall e c, In c (children e) -> has_source c -> has_source e.
Proof.
  intros e c Hin (s & st0 & Hs & Hp). exists s, st0. split; [|exact Hp].
  exact (sub_child s e c Hin Hs).
Qed.

(* every Panic of the evaluator starts at a node whose own operation panics *)
Theorem eval_panic_sources : forall e st,
  fst (eval hosts off e st) = Panic -> has_source e.
Proof.
  intros e.
  induction e as [k v| |k v|op a IHa|a IHa|l op r IHl IHr|c t f IHc IHt IHf|es IHes|a IHa
                 |a nk name asrt IHa|a asrt IHa|f args sp IHf IHargs] using sexpr_ind'; intros st H.
  - rewrite eval_SIdent in H. discriminate H.
  - rewrite eval_SMissing in H. discriminate H.
  - rewrite eval_SLit in H. destruct k; try discriminate H. destruct v; discriminate H.
  - (* SPrefix *)
    rewrite eval_SPrefix in H. apply fmt_fst_inv_panic in H.
    destruct (eval hosts off a st) as [[v| | |] st1] eqn:Ea; cbn [fst] in H; try discriminate H.
    + exfalso. exact (unary_op_no_panic _ _ H).
    + apply (source_of_child _ a); [left; reflexivity|]. apply (IHa st). rewrite Ea. reflexivity.
  - (* STypeof *)
    rewrite eval_STypeof in H. apply fmt_fst_inv_panic in H.
    destruct (eval hosts off a st) as [[v| | |] st1] eqn:Ea; cbn [fst] in H; try discriminate H.
    apply (source_of_child _ a); [left; reflexivity|]. apply (IHa st). rewrite Ea. reflexivity.
  - (* SBin *)
    rewrite eval_SBin in H. apply fmt_fst_inv_panic in H.
    destruct (kind_eqb op KEquals) eqn:Eop.
    + destruct l; try discriminate H.
      destruct (starts_dollar v); [|discriminate H].
      destruct (eval hosts off r st) as [[w| | |] st1] eqn:Er; cbn [fst] in H; try discriminate H.
      apply (source_of_child _ r); [right; left; reflexivity|]. apply (IHr st). rewrite Er. reflexivity.
    + destruct (eval hosts off l st) as [[v1| | |] st1] eqn:El; cbn [fst] in H; try discriminate H.
      * destruct (eval hosts off r st1) as [[v2| | |] st2] eqn:Er; cbn [fst] in H; try discriminate H.
        -- apply binary_op_panic_iff in H. destruct H as [Hop Hu].
           exists (SBin l op r), st. split; [apply sub_refl|].
           exists v1, st1, v2, st2. repeat split; assumption.
        -- apply (source_of_child _ r); [right; left; reflexivity|]. apply (IHr st1). rewrite Er. reflexivity.
      * apply (source_of_child _ l); [left; reflexivity|]. apply (IHl st). rewrite El. reflexivity.
  - (* SCond *)
    rewrite eval_SCond in H. apply fmt_fst_inv_panic in H.
    destruct (eval hosts off c st) as [[v| | |] st1] eqn:Ec; cbn [fst] in H; try discriminate H.
    + destruct (truthy v).
      * apply (source_of_child _ t); [right; left; reflexivity|]. exact (IHt st1 H).
      * apply (source_of_child _ f); [right; right; left; reflexivity|]. exact (IHf st1 H).
    + apply (source_of_child _ c); [left; reflexivity|]. apply (IHc st). rewrite Ec. reflexivity.
  - (* SArr *)
    rewrite eval_SArr in H. apply fmt_fst_inv_panic in H.
    destruct (eval_list hosts off es st) as [[vs| | |] st1] eqn:Ee; cbn [fst] in H; try discriminate H.
    destruct (eval_list_panic es st) as (c & st0 & Hin & Hc); [rewrite Ee; reflexivity|].
    apply (source_of_child _ c); [exact Hin|].
    rewrite Forall_forall in IHes. exact (IHes c Hin st0 Hc).
  - (* SParen *)
    rewrite eval_SParen in H. apply fmt_fst_inv_panic in H.
    apply (source_of_child _ a); [left; reflexivity|]. exact (IHa st H).
  - (* SSel *)
    rewrite eval_SSel in H. apply fmt_fst_inv_panic in H.
    destruct (eval hosts off a st) as [[v| | |] st1] eqn:Ea; cbn [fst] in H; try discriminate H.
    + destruct (is_null v && asrt); [discriminate H|]. cbn [fst] in H.
      destruct v as [| | | |t| | | | | | | | | |id fs]; try discriminate H.
      * exists (SSel a nk name asrt), st. split; [apply sub_refl|]. left. exists t, st1. exact Ea.
      * destruct (assoc name fs) as [x|] eqn:En; [discriminate H|].
        exists (SSel a nk name asrt), st. split; [apply sub_refl|]. right.
        exists id, fs, st1. split; [exact Ea|exact En].
    + apply (source_of_child _ a); [left; reflexivity|]. apply (IHa st). rewrite Ea. reflexivity.
  - (* SSelMissing *)
    rewrite eval_SSelMissing in H. apply fmt_fst_inv_panic in H.
    apply (source_of_child _ a); [left; reflexivity|]. exact (IHa st H).
  - (* SCall *)
    rewrite eval_SCall in H. apply fmt_fst_inv_panic in H.
    destruct (eval hosts off f st) as [[fv| | |] st1] eqn:Ef; cbn [fst] in H; try discriminate H.
    + destruct (is_name_path f) eqn:En; [|discriminate H]. cbn [negb] in H.
      destruct (eval_list hosts off args st1) as [[vs| | |] st2] eqn:Ea; cbn [fst] in H; try discriminate H.
      * exists (SCall f args sp), st. split; [apply sub_refl|].
        exists fv, st1, vs, st2. repeat split; assumption.
      * destruct (eval_list_panic args st1) as (c & st0 & Hin & Hc); [rewrite Ea; reflexivity|].
        apply (source_of_child _ c); [right; exact Hin|].
        rewrite Forall_forall in IHargs. exact (IHargs c Hin st0 Hc).
    + apply (source_of_child _ f); [left; reflexivity|]. apply (IHf st). rewrite Ef. reflexivity.
Qed.

(* the panicking call nodes, spelled out with the primitive sources *)
Lemma call_panic_sources : forall fv vs sp st,
  fst (call_value hosts off fv vs sp st) = Panic ->
  fv = VNull \/
  exists sg, callee_sig hosts fv = Some sg /\
    ((exists i a t, nth_error (expanded_args vs sp) i = Some a /\
                    arg_type (sig_params sg) (sig_variadic sg) i = Some t /\ conv_to t a = Panic) \/
     (sig_variadic sg = true /\ exists fixed p, sig_params sg = fixed ++ [p] /\ (forall et, p <> TSlice et)) \/
     (exists name cargs, fv = VBuiltin name /\ slice_builtin_panics name cargs)).
Proof.
  intros fv vs sp st H. apply call_value_panic_iff in H.
  destruct H as [H|(sg & Hsg & _ & _ & [Hc|(name & cargs & Hf & _ & Hb)])]; [left; exact H| |].
  - right. exists sg. split; [exact Hsg|].
    destruct (conv_args_panic_inv _ _ _ Hc) as [Hl|(Hv & fixed & p & Hp & Hns & _)].
    + left. exact Hl.
    + right. left. split; [exact Hv|]. exists fixed, p. split; assumption.
  - right. exists sg. split; [exact Hsg|]. right. right. exists name, cargs. split; [exact Hf|].
    exact (builtin_call_panic_inv off name cargs Hb).
Qed.

End Sources.

(* non-vacuity: the three kinds of source, on formulas *)
Example ex_source_eq :
  node_panics [] 0 (SBin (SArr []) KEqEq (SArr [])) (mkR None []).
Proof. exists (VArr []), (mkR None []), (VArr []), (mkR None []). repeat split. Qed.

Example ex_source_call_null :
  node_panics [] 0 (SCall (SIdent KIdent (str "f")) [] false) (mkR None []).
Proof. exists VNull, (mkR None []), [], (mkR None []). repeat split. Qed.

(* join(null, ","): nil passed for a []string parameter *)
Example ex_source_conv_nil :
  let e := SCall (SIdent KIdent (str "join")) [SLit KNull []; SLit KString (str ",")] false in
  fst (eval [] 0 e (mkR None [])) = Panic /\ fst (resolve_entry [] 0 e (mkR None [])) = Err /\
  conv_to (TSlice TString) VNull = Panic.
Proof. repeat split; vm_compute; reflexivity. Qed.

(* a host function func(m map[string]interface{}) given a number *)
Example ex_source_conv_map :
  conv_to (TMapStr TIface) (VNum (Fin false 1 0)) = Panic /\
  fst (call_value [(1, mkHost (mkSig false [TMapStr TIface] false 2) VNull false)] 0 (VFunc 1)
         [VNum (Fin false 1 0)] false (mkR None [])) = Panic.
Proof. split; vm_compute; reflexivity. Qed.

(* a nested panic is found below the root: [1, f()] with f undefined *)
Example ex_source_nested :
  let e := SArr [SLit KNumber (str "1"); SCall (SIdent KIdent (str "f")) [] false] in
  fst (eval [] 0 e (mkR None [])) = Panic /\
  subexpr (SCall (SIdent KIdent (str "f")) [] false) e.
Proof.
  split; [vm_compute; reflexivity|].
  apply (sub_child _ _ (SCall (SIdent KIdent (str "f")) [] false)); [right; left; reflexivity|apply sub_refl].
Qed.
