(* The %v rendering of nested values (show_value): the entry sort is a sort (permutation, sorted, independent of
   the order of its input when the keys are distinct), characterisation of the two local fixpoints, independence of
   the rendering of a map from the iteration order, totality on printable data, examples. *)
From Coq Require Import ZArith Lia Bool List String Permutation Sorted.
From Formula Require Import Sem.Eval Proofs.DecOrder Proofs.BridgeFacts.
Import ListNotations.
Open Scope Z_scope.

(* ---------- the byte order ---------- *)

Lemma bytes_ltb_false_iff s t : bytes_ltb s t = false <-> ~ lex_lt s t.
Proof.
  rewrite <- bytes_ltb_lex. destruct (bytes_ltb s t).
  - split; intro H; [discriminate H | exfalso; apply H; reflexivity].
  - split; intro H; [intro H'; discriminate H' | reflexivity].
Qed.

(* "not below" is transitive: e <= x and x <= y give e <= y *)
Lemma lex_le_trans e x y : ~ lex_lt x e -> ~ lex_lt y x -> ~ lex_lt y e.
Proof.
  intros Hxe Hyx Hye.
  destruct (lex_lt_total e x) as [Hlt | [Heq | Hgt]].
  - apply Hyx. apply (lex_lt_trans y e x); assumption.
  - subst x. apply Hyx. assumption.
  - apply Hxe. assumption.
Qed.

Definition ent := (list Z * list Z)%type.
Definition key_le (a b : ent) : Prop := bytes_ltb (fst b) (fst a) = false.
Definition key_lt (a b : ent) : Prop := bytes_ltb (fst a) (fst b) = true.

Lemma key_le_trans a b c : key_le a b -> key_le b c -> key_le a c.
Proof.
  unfold key_le. rewrite !bytes_ltb_false_iff. intros Hab Hbc. apply (lex_le_trans (fst a) (fst b) (fst c)); assumption.
Qed.

Lemma key_lt_le a b : key_lt a b -> key_le a b.
Proof.
  unfold key_lt, key_le. rewrite bytes_ltb_false_iff, bytes_ltb_lex. intros Hab Hba.
  apply (lex_lt_asym (fst a) (fst b)); assumption.
Qed.

Lemma key_lt_asym a b : key_lt a b -> key_lt b a -> False.
Proof. unfold key_lt. rewrite !bytes_ltb_lex. apply lex_lt_asym. Qed.

Lemma key_le_neq_lt a b : key_le a b -> fst a <> fst b -> key_lt a b.
Proof.
  unfold key_le, key_lt. rewrite bytes_ltb_false_iff, bytes_ltb_lex. intros Hle Hne.
  destruct (lex_lt_total (fst a) (fst b)) as [Hlt | [Heq | Hgt]].
  - assumption.
  - exfalso. apply Hne. assumption.
  - exfalso. apply Hle. assumption.
Qed.

(* ---------- 1. the sort permutes ---------- *)

Lemma insert_ent_perm e l : Permutation (insert_ent e l) (e :: l).
Proof.
  induction l as [|x t IH]; simpl.
  - apply Permutation_refl.
  - destruct (bytes_ltb (fst x) (fst e)).
    + apply perm_trans with (x :: e :: t).
      * apply perm_skip. exact IH.
      * apply perm_swap.
    + apply Permutation_refl.
Qed.

Theorem sort_ents_perm : forall l, Permutation (sort_ents l) l.
Proof.
  induction l as [|e t IH]; simpl.
  - apply perm_nil.
  - apply perm_trans with (e :: sort_ents t).
    + apply insert_ent_perm.
    + apply perm_skip. exact IH.
Qed.

(* ---------- 2. the result is sorted ---------- *)

Lemma insert_ent_sorted e l : StronglySorted key_le l -> StronglySorted key_le (insert_ent e l).
Proof.
  induction l as [|x t IH]; intros Hs; simpl.
  - constructor; constructor.
  - apply StronglySorted_inv in Hs. destruct Hs as [Hst Hall].
    destruct (bytes_ltb (fst x) (fst e)) eqn:Hxe.
    + constructor.
      * apply IH. exact Hst.
      * rewrite insert_ent_perm.
        constructor; [| exact Hall]. apply key_lt_le. exact Hxe.
    + constructor.
      * constructor; assumption.
      * constructor.
        -- exact Hxe.
        -- apply Forall_forall. intros y Hy. rewrite Forall_forall in Hall.
           apply (key_le_trans e x y); [exact Hxe | apply Hall; exact Hy].
Qed.

Lemma sort_ents_sorted_le l : StronglySorted key_le (sort_ents l).
Proof.
  induction l as [|e t IH]; simpl.
  - constructor.
  - apply insert_ent_sorted. exact IH.
Qed.

Theorem sort_ents_sorted :
  forall l, StronglySorted (fun a b => bytes_ltb (fst b) (fst a) = false) (sort_ents l).
Proof. exact sort_ents_sorted_le. Qed.

Lemma sorted_le_nodup_lt l : StronglySorted key_le l -> NoDup (map fst l) -> StronglySorted key_lt l.
Proof.
  induction l as [|a t IH]; intros Hs Hnd.
  - constructor.
  - apply StronglySorted_inv in Hs. destruct Hs as [Hst Hall].
    simpl in Hnd. inversion Hnd as [|k ks Hnotin Hnd']; subst.
    constructor.
    + apply IH; assumption.
    + apply Forall_forall. intros b Hb. rewrite Forall_forall in Hall.
      apply key_le_neq_lt.
      * apply Hall. exact Hb.
      * intro Heq. apply Hnotin. rewrite Heq. apply in_map. exact Hb.
Qed.

Lemma sort_ents_strict_lt l : NoDup (map fst l) -> StronglySorted key_lt (sort_ents l).
Proof.
  intros Hnd. apply sorted_le_nodup_lt.
  - apply sort_ents_sorted_le.
  - apply (Permutation_NoDup (l := map fst l)); [| exact Hnd].
    apply Permutation_map. apply Permutation_sym. apply sort_ents_perm.
Qed.

Theorem sort_ents_strict :
  forall l, NoDup (map fst l) -> StronglySorted (fun a b => bytes_ltb (fst a) (fst b) = true) (sort_ents l).
Proof. exact sort_ents_strict_lt. Qed.

(* ---------- 3. a strictly sorted list is determined by its elements ---------- *)

Lemma strict_sorted_perm_eq l1 :
  forall l2, StronglySorted key_lt l1 -> StronglySorted key_lt l2 -> Permutation l1 l2 -> l1 = l2.
Proof.
  induction l1 as [|a t1 IH]; intros l2 Hs1 Hs2 Hp.
  - apply Permutation_nil in Hp. symmetry. exact Hp.
  - destruct l2 as [|b t2].
    + apply Permutation_sym in Hp. apply Permutation_nil in Hp. discriminate.
    + apply StronglySorted_inv in Hs1. destruct Hs1 as [Hst1 Hall1].
      apply StronglySorted_inv in Hs2. destruct Hs2 as [Hst2 Hall2].
      assert (Hab : a = b).
      { assert (Hain : In a (b :: t2)) by (apply (Permutation_in a Hp); left; reflexivity).
        assert (Hbin : In b (a :: t1)) by (apply (Permutation_in b (Permutation_sym Hp)); left; reflexivity).
        destruct Hain as [Hba | Hain]; [symmetry; exact Hba |].
        destruct Hbin as [Hab | Hbin]; [exact Hab |].
        rewrite Forall_forall in Hall1, Hall2.
        exfalso. apply (key_lt_asym a b); [apply Hall1; exact Hbin | apply Hall2; exact Hain]. }
      subst b. f_equal. apply IH; try assumption.
      apply (Permutation_cons_inv (a := a)). exact Hp.
Qed.

Theorem sort_ents_order_independent :
  forall l l', NoDup (map fst l) -> Permutation l l' -> sort_ents l = sort_ents l'.
Proof.
  intros l l' Hnd Hp. apply strict_sorted_perm_eq.
  - apply sort_ents_strict_lt. exact Hnd.
  - apply sort_ents_strict_lt. apply (Permutation_NoDup (l := map fst l)); [| exact Hnd].
    apply Permutation_map. exact Hp.
  - apply perm_trans with l; [apply sort_ents_perm |].
    apply perm_trans with l'; [exact Hp |]. apply Permutation_sym. apply sort_ents_perm.
Qed.

(* ---------- 4. the two local fixpoints ---------- *)

Definition shows (x : value) (p : list Z) : Prop := show_value x = Some p.

Fixpoint show_list (l : list value) : option (list (list Z)) :=
  match l with
  | [] => Some []
  | x :: r => match show_value x, show_list r with Some a, Some b => Some (a :: b) | _, _ => None end
  end.

Fixpoint show_ents (m : list (list Z * value)) : option (list (list Z * list Z)) :=
  match m with
  | [] => Some []
  | (k, x) :: r => match show_value x, show_ents r with Some a, Some b => Some ((k, a) :: b) | _, _ => None end
  end.

Definition arr_text (parts : list (list Z)) : list Z := 91 :: join_strs parts [32] ++ [93].
Definition map_text (ents : list (list Z * list Z)) : list Z :=
  str "map[" ++ join_strs (map (fun e => fst e ++ 58 :: snd e) (sort_ents ents)) [32] ++ [93].

Lemma show_list_fix l :
  (fix go (l : list value) : option (list (list Z)) :=
     match l with
     | [] => Some []
     | x :: r => match show_value x, go r with Some a, Some b => Some (a :: b) | _, _ => None end
     end) l = show_list l.
Proof.
  induction l as [|x r IH]; [reflexivity |].
  cbn [show_list]. rewrite <- IH. reflexivity.
Qed.

Lemma show_ents_fix m :
  (fix go (m : list (list Z * value)) : option (list (list Z * list Z)) :=
     match m with
     | [] => Some []
     | (k, x) :: r => match show_value x, go r with Some a, Some b => Some ((k, a) :: b) | _, _ => None end
     end) m = show_ents m.
Proof.
  induction m as [|[k x] r IH]; [reflexivity |].
  cbn [show_ents]. rewrite <- IH. reflexivity.
Qed.

Lemma show_value_arr l :
  show_value (VArr l) = match show_list l with Some parts => Some (arr_text parts) | None => None end.
Proof. rewrite <- show_list_fix. reflexivity. Qed.

Lemma show_value_map m :
  show_value (VMap m) = match show_ents m with Some ents => Some (map_text ents) | None => None end.
Proof. rewrite <- show_ents_fix. reflexivity. Qed.

Lemma show_list_some l parts : show_list l = Some parts <-> Forall2 shows l parts.
Proof.
  revert parts. induction l as [|x r IH]; intros parts; simpl.
  - split.
    + intros H. inversion H. constructor.
    + intros H. inversion H. reflexivity.
  - split.
    + intros H. destruct (show_value x) as [a|] eqn:Hx; [| discriminate].
      destruct (show_list r) as [b|] eqn:Hr; [| discriminate].
      inversion H. constructor; [exact Hx | apply IH; reflexivity].
    + intros H. inversion H as [| x' a r' b Hx Hr]; subst.
      unfold shows in Hx. rewrite Hx. apply IH in Hr. rewrite Hr. reflexivity.
Qed.

Lemma show_list_none l : show_list l = None <-> exists x, In x l /\ show_value x = None.
Proof.
  induction l as [|x r IH]; simpl.
  - split; [discriminate | intros [x [[] _]]].
  - split.
    + intros H. destruct (show_value x) as [a|] eqn:Hx.
      * destruct (show_list r) as [b|] eqn:Hr; [discriminate |].
        destruct (proj1 IH eq_refl) as [y [Hy Hn]]. exists y. split; [right; exact Hy | exact Hn].
      * exists x. split; [left; reflexivity | exact Hx].
    + intros [y [[Hy | Hy] Hn]].
      * subst y. rewrite Hn. reflexivity.
      * destruct (show_value x) as [a|]; [| reflexivity].
        rewrite (proj2 IH (ex_intro _ y (conj Hy Hn))). reflexivity.
Qed.

Definition shows_ent (kx : list Z * value) (e : list Z * list Z) : Prop :=
  fst e = fst kx /\ shows (snd kx) (snd e).

Lemma show_ents_some m ents : show_ents m = Some ents <-> Forall2 shows_ent m ents.
Proof.
  revert ents. induction m as [|[k x] r IH]; intros ents; simpl.
  - split.
    + intros H. inversion H. constructor.
    + intros H. inversion H. reflexivity.
  - split.
    + intros H. destruct (show_value x) as [a|] eqn:Hx; [| discriminate].
      destruct (show_ents r) as [b|] eqn:Hr; [| discriminate].
      inversion H. constructor; [split; [reflexivity | exact Hx] | apply IH; reflexivity].
    + intros H. inversion H as [| kx e r' b He Hr]; subst.
      destruct He as [Hk Hx]. destruct e as [k' a]. simpl in Hk, Hx. subst k'.
      unfold shows in Hx. rewrite Hx. apply IH in Hr. rewrite Hr. reflexivity.
Qed.

Lemma show_ents_none m : show_ents m = None <-> exists k x, In (k, x) m /\ show_value x = None.
Proof.
  induction m as [|[k x] r IH]; simpl.
  - split; [discriminate | intros [k [x [[] _]]]].
  - split.
    + intros H. destruct (show_value x) as [a|] eqn:Hx.
      * destruct (show_ents r) as [b|] eqn:Hr; [discriminate |].
        destruct (proj1 IH eq_refl) as [k' [y [Hy Hn]]]. exists k', y. split; [right; exact Hy | exact Hn].
      * exists k, x. split; [left; reflexivity | exact Hx].
    + intros [k' [y [[Hy | Hy] Hn]]].
      * inversion Hy; subst. rewrite Hn. reflexivity.
      * destruct (show_value x) as [a|]; [| reflexivity].
        rewrite (proj2 IH (ex_intro _ k' (ex_intro _ y (conj Hy Hn)))). reflexivity.
Qed.

Theorem show_arr : forall l parts,
  Forall2 shows l parts -> show_value (VArr l) = Some (91 :: join_strs parts [32] ++ [93]).
Proof.
  intros l parts H. rewrite show_value_arr. apply show_list_some in H. rewrite H. reflexivity.
Qed.

Theorem show_arr_none : forall l x, In x l -> show_value x = None -> show_value (VArr l) = None.
Proof.
  intros l x Hin Hn. rewrite show_value_arr.
  rewrite (proj2 (show_list_none l) (ex_intro _ x (conj Hin Hn))). reflexivity.
Qed.

Theorem show_arr_inv : forall l s,
  show_value (VArr l) = Some s ->
  exists parts, Forall2 shows l parts /\ s = 91 :: join_strs parts [32] ++ [93].
Proof.
  intros l s H. rewrite show_value_arr in H. destruct (show_list l) as [parts|] eqn:Hl; [| discriminate].
  exists parts. split; [apply show_list_some; exact Hl | inversion H; reflexivity].
Qed.

Theorem show_arr_none_inv : forall l,
  show_value (VArr l) = None -> exists x, In x l /\ show_value x = None.
Proof.
  intros l H. rewrite show_value_arr in H. destruct (show_list l) as [parts|] eqn:Hl; [discriminate |].
  apply show_list_none. exact Hl.
Qed.

Theorem show_map : forall m ents,
  Forall2 (fun kx e => fst e = fst kx /\ shows (snd kx) (snd e)) m ents ->
  show_value (VMap m) =
  Some (str "map[" ++ join_strs (map (fun e => fst e ++ 58 :: snd e) (sort_ents ents)) [32] ++ [93]).
Proof.
  intros m ents H. rewrite show_value_map. apply show_ents_some in H. rewrite H. reflexivity.
Qed.

Theorem show_map_none : forall m k x, In (k, x) m -> show_value x = None -> show_value (VMap m) = None.
Proof.
  intros m k x Hin Hn. rewrite show_value_map.
  rewrite (proj2 (show_ents_none m) (ex_intro _ k (ex_intro _ x (conj Hin Hn)))). reflexivity.
Qed.

Theorem show_map_inv : forall m s,
  show_value (VMap m) = Some s ->
  exists ents, Forall2 (fun kx e => fst e = fst kx /\ shows (snd kx) (snd e)) m ents /\
    s = str "map[" ++ join_strs (map (fun e => fst e ++ 58 :: snd e) (sort_ents ents)) [32] ++ [93].
Proof.
  intros m s H. rewrite show_value_map in H. destruct (show_ents m) as [ents|] eqn:Hm; [| discriminate].
  exists ents. split; [apply show_ents_some; exact Hm | inversion H; reflexivity].
Qed.

Theorem show_map_none_inv : forall m,
  show_value (VMap m) = None -> exists k x, In (k, x) m /\ show_value x = None.
Proof.
  intros m H. rewrite show_value_map in H. destruct (show_ents m) as [ents|] eqn:Hm; [discriminate |].
  apply show_ents_none. exact Hm.
Qed.

(* the entries carry the keys of the map, in the same order *)
Lemma shows_ent_keys m ents : Forall2 shows_ent m ents -> map fst ents = map fst m.
Proof.
  intros H. induction H as [| kx e r b He Hr IH]; simpl.
  - reflexivity.
  - destruct He as [Hk _]. rewrite Hk, IH. reflexivity.
Qed.

(* ---------- 5. the rendering of a map does not depend on the iteration order ---------- *)

Theorem show_map_order_independent :
  forall m m', NoDup (map fst m) -> Permutation m m' -> show_value (VMap m) = show_value (VMap m').
Proof.
  intros m m' Hnd Hp. rewrite (show_value_map m).
  destruct (show_ents m) as [ents|] eqn:Hm.
  - apply show_ents_some in Hm.
    destruct (Permutation_Forall2 Hp Hm) as [ents' [Hpe Hm']].
    rewrite (show_value_map m'). apply show_ents_some in Hm'. rewrite Hm'.
    unfold map_text. rewrite (sort_ents_order_independent ents ents'); [reflexivity | | exact Hpe].
    rewrite (shows_ent_keys m ents Hm). exact Hnd.
  - apply show_ents_none in Hm. destruct Hm as [k [x [Hin Hn]]].
    symmetry. apply (show_map_none m' k x); [| exact Hn].
    apply (Permutation_in (k, x) Hp). exact Hin.
Qed.

(* ---------- 6. printable data always has a rendering ---------- *)

Fixpoint printable (v : value) : bool :=
  match v with
  | VStr _ | VBool _ | VNull | VNilPtr | VGoInt _ _ => true
  | VNum d => negb (is_nan d)
  | VArr l =>
    (fix go (l : list value) : bool := match l with [] => true | x :: r => printable x && go r end) l
  | VMap m =>
    (fix go (m : list (list Z * value)) : bool :=
       match m with [] => true | (_, x) :: r => printable x && go r end) m
  | _ => false
  end.

Lemma printable_num d : printable (VNum d) = true <-> is_nan d = false.
Proof. simpl. destruct (is_nan d); simpl; split; intro H; try reflexivity; discriminate. Qed.

Lemma printable_arr l : printable (VArr l) = forallb printable l.
Proof.
  induction l as [|x r IH]; [reflexivity |].
  change (printable (VArr (x :: r))) with (printable x && printable (VArr r)). rewrite IH. reflexivity.
Qed.

Lemma printable_map m : printable (VMap m) = forallb (fun kx => printable (snd kx)) m.
Proof.
  induction m as [|[k x] r IH]; [reflexivity |].
  change (printable (VMap ((k, x) :: r))) with (printable x && printable (VMap r)). rewrite IH. reflexivity.
Qed.

(* induction on values with the nested lists *)
Section ValueInd.
  Variable P : value -> Prop.
  Hypothesis Hatom : forall v, match v with VArr _ | VMap _ | VStruct _ _ => False | _ => True end -> P v.
  Hypothesis Harr : forall l, Forall P l -> P (VArr l).
  Hypothesis Hmap : forall m, Forall (fun kx => P (snd kx)) m -> P (VMap m).
  Hypothesis Hstruct : forall id fs, Forall (fun kx => P (snd kx)) fs -> P (VStruct id fs).

  Fixpoint value_nested_ind (v : value) : P v :=
    match v as v0 return P v0 with
    | VArr l =>
      Harr l ((fix go (l : list value) : Forall P l :=
                 match l with
                 | [] => Forall_nil P
                 | x :: r => Forall_cons x (value_nested_ind x) (go r)
                 end) l)
    | VMap m =>
      Hmap m ((fix go (m : list (list Z * value)) : Forall (fun kx => P (snd kx)) m :=
                 match m with
                 | [] => Forall_nil _
                 | (k, x) :: r => @Forall_cons _ (fun kx => P (snd kx)) (k, x) r (value_nested_ind x) (go r)
                 end) m)
    | VStruct id fs =>
      Hstruct id fs ((fix go (m : list (list Z * value)) : Forall (fun kx => P (snd kx)) m :=
                 match m with
                 | [] => Forall_nil _
                 | (k, x) :: r => @Forall_cons _ (fun kx => P (snd kx)) (k, x) r (value_nested_ind x) (go r)
                 end) fs)
    | VNull => Hatom VNull I
    | VBool b => Hatom (VBool b) I
    | VNum d => Hatom (VNum d) I
    | VStr s => Hatom (VStr s) I
    | VTime t => Hatom (VTime t) I
    | VFunc id => Hatom (VFunc id) I
    | VBuiltin n => Hatom (VBuiltin n) I
    | VGoInt k n => Hatom (VGoInt k n) I
    | VGoFloat s => Hatom (VGoFloat s) I
    | VNilPtr => Hatom VNilPtr I
    | VCtx => Hatom VCtx I
    | VOpaque t => Hatom (VOpaque t) I
    end.
End ValueInd.

Lemma forall2_shows_of_plain l :
  Forall (fun v => printable v = true -> exists s, show_value v = Some s) l ->
  forallb printable l = true -> exists parts, Forall2 shows l parts.
Proof.
  induction l as [|x r IH]; intros Hall Hpl.
  - exists []. constructor.
  - simpl in Hpl. apply andb_true_iff in Hpl. destruct Hpl as [Hx Hr].
    inversion Hall as [| x' r' Hpx Hpr]; subst.
    destruct (Hpx Hx) as [a Ha]. destruct (IH Hpr Hr) as [b Hb].
    exists (a :: b). constructor; [exact Ha | exact Hb].
Qed.

Lemma forall2_shows_ent_of_plain m :
  Forall (fun kx : list Z * value => printable (snd kx) = true -> exists s, show_value (snd kx) = Some s) m ->
  forallb (fun kx => printable (snd kx)) m = true -> exists ents, Forall2 shows_ent m ents.
Proof.
  induction m as [|[k x] r IH]; intros Hall Hpl.
  - exists []. constructor.
  - simpl in Hpl. apply andb_true_iff in Hpl. destruct Hpl as [Hx Hr].
    inversion Hall as [| x' r' Hpx Hpr]; subst. simpl in Hpx.
    destruct (Hpx Hx) as [a Ha]. destruct (IH Hpr Hr) as [b Hb].
    exists ((k, a) :: b). constructor; [split; [reflexivity | exact Ha] | exact Hb].
Qed.

Theorem show_value_total_on_printable : forall v, printable v = true -> exists s, show_value v = Some s.
Proof.
  intros v. induction v as [v Hv | l Hl | m Hm | id fs Hfs] using value_nested_ind.
  - intros Hp. destruct v; simpl in Hp; try discriminate; try contradiction; simpl; try (eexists; reflexivity).
    destruct (is_nan d); [discriminate | eexists; reflexivity].
  - intros Hp. rewrite printable_arr in Hp. destruct (forall2_shows_of_plain l Hl Hp) as [parts Hparts].
    eexists. apply show_arr. exact Hparts.
  - intros Hp. rewrite printable_map in Hp. destruct (forall2_shows_ent_of_plain m Hm Hp) as [ents Hents].
    eexists. apply show_map. exact Hents.
  - intros Hp. discriminate.
Qed.

(* ---------- 7. convToString of arrays and maps; examples ---------- *)

Lemma conv_to_string_arr : forall l, conv_to_string (VArr l) = show_value (VArr l).
Proof. reflexivity. Qed.

Lemma conv_to_string_map : forall m, conv_to_string (VMap m) = show_value (VMap m).
Proof. reflexivity. Qed.

Example show_arr_example :
  show_value (VArr [VNum (Fin false 1 0); VStr (str "a"); VNull; VBool true; VArr []; VMap []])
  = Some (str "[1 a <nil> true [] map[]]").
Proof. vm_compute. reflexivity. Qed.

Example show_map_example :
  show_value (VMap [(str "b", VNum (dec_of_Z 2)); (str "a", VStr (str "x")); (str "", VArr [VBool false; VNilPtr])])
  = Some (str "map[:[false <nil>] a:x b:2]").
Proof. vm_compute. reflexivity. Qed.

Example show_map_example_permuted :
  show_value (VMap [(str "", VArr [VBool false; VNilPtr]); (str "b", VNum (dec_of_Z 2)); (str "a", VStr (str "x"))])
  = Some (str "map[:[false <nil>] a:x b:2]").
Proof. vm_compute. reflexivity. Qed.

Example show_nested_unmodelled :
  show_value (VArr [VStr (str "a"); VMap [(str "k", VOpaque 0)]]) = None.
Proof. vm_compute. reflexivity. Qed.

(* ---------- the bridge: an array or a map handed to a string parameter, a string operand of + == < ---------- *)

Lemma conv_to_string_printable v : printable v = true -> conv_to_string v = show_value v.
Proof. destruct v; cbn [printable conv_to_string show_value]; intros H; try reflexivity; discriminate H. Qed.

Lemma conv_to_tstring_coll v : (exists l, v = VArr l) \/ (exists m, v = VMap m) ->
  conv_to TString v = match show_value v with Some s => Ok (VStr s) | None => Unk end.
Proof. intros [[l ->]|[m ->]]; reflexivity. Qed.

Theorem array_to_string_param l parts : Forall2 shows l parts ->
  conv_to TString (VArr l) = Ok (VStr (91 :: join_strs parts [32] ++ [93])).
Proof.
  intros H. rewrite conv_to_tstring_coll by (left; eexists; reflexivity). rewrite (show_arr l parts H). reflexivity.
Qed.

Theorem map_to_string_param m ents :
  Forall2 (fun kx e => fst e = fst kx /\ shows (snd kx) (snd e)) m ents ->
  conv_to TString (VMap m) =
  Ok (VStr (str "map[" ++ join_strs (map (fun e => fst e ++ 58 :: snd e) (sort_ents ents)) [32] ++ [93])).
Proof.
  intros H. rewrite conv_to_tstring_coll by (right; eexists; reflexivity). rewrite (show_map m ents H). reflexivity.
Qed.

(* printable data - strings, booleans, numbers other than NaN, Go integers, nil, arrays and maps of these to any depth -
   always has a text, so a string parameter always receives one *)
Theorem printable_to_string_param v : printable v = true -> exists s, conv_to TString v = Ok (VStr s).
Proof.
  intros Hp. destruct (show_value_total_on_printable v Hp) as [s Hs].
  rewrite <- (conv_to_string_printable v Hp) in Hs.
  eexists. apply (BridgeFacts.any_to_string_formats_gen v s Hs).
Qed.

(* the text a host function receives for a map does not depend on the order in which Go iterates over it *)
Theorem map_to_string_param_order_independent m m' : NoDup (map fst m) -> Permutation m m' ->
  conv_to TString (VMap m) = conv_to TString (VMap m').
Proof.
  intros Hd Hp. rewrite !conv_to_tstring_coll by (right; eexists; reflexivity).
  rewrite (show_map_order_independent m m' Hd Hp). reflexivity.
Qed.

Example to_string_param_examples :
  conv_to TString (VArr [VGoInt GInt8 (-3); VStr (str "a b"); VNilPtr; VArr [VArr []]; VMap [(str "k", VBool false)]])
    = Ok (VStr (str "[-3 a b <nil> [[]] map[k:false]]")) /\
  conv_to TString (VMap [(str "b", VNull); (str "", VArr [VNum (dec_of_Z 7)]); (str "B", VStr [])])
    = Ok (VStr (str "map[:[7] B: b:<nil>]")) /\
  conv_to TString (VArr [VOpaque 1]) = Unk.
Proof. vm_compute. repeat split. Qed.

Print Assumptions sort_ents_perm.
Print Assumptions sort_ents_sorted.
Print Assumptions sort_ents_strict.
Print Assumptions sort_ents_order_independent.
Print Assumptions show_arr.
Print Assumptions show_arr_inv.
Print Assumptions show_map.
Print Assumptions show_map_inv.
Print Assumptions show_map_order_independent.
Print Assumptions show_value_total_on_printable.
Print Assumptions array_to_string_param.
Print Assumptions map_to_string_param.
Print Assumptions printable_to_string_param.
Print Assumptions map_to_string_param_order_independent.
