(* Facts about the host-call bridge of the evaluator model (theories/Sem/Eval.v):
   unfolding equations of [eval], the arity / spread / conversion rules of [call_value],
   the conversion laws of [conv_to], normalisation of results.  Used by Props/C11.v and
   (through BridgePanic.v) by Props/C03.v. *)
From Coq Require Import String Ascii.
From Formula Require Import Sem.Eval.
Open Scope Z_scope.

(* ================================================================== *)
(* 1. Names for the local functions of [eval] and its unfolding equations *)
(* ================================================================== *)

(* the [fmt] of [eval]: formatInput applied to every node result *)
Definition fmt (r : outcome value * rstate) : outcome value * rstate :=
  match r with (Ok v, s) => (Ok (format_input v), s) | _ => r end.

(* the [eval_list] of [eval]: arguments / array elements, left to right, threading the state *)
Definition eval_list (hosts : list (Z * hostfn)) (off : Z) :=
  fix go (l : list sexpr) (st : rstate) : outcome (list value) * rstate :=
      match l with
      | [] => (Ok [], st)
      | a :: t =>
        match eval hosts off a st with
        | (Ok v, st1) =>
          match go t st1 with
          | (Ok vs, st2) => (Ok (v :: vs), st2)
          | (Err, st2) => (Err, st2)
          | (Panic, st2) => (Panic, st2)
          | (Unk, st2) => (Unk, st2)
          end
        | (Err, st1) => (Err, st1)
        | (Panic, st1) => (Panic, st1)
        | (Unk, st1) => (Unk, st1)
        end
      end.

Section Equations.
Variable hosts : list (Z * hostfn).
Variable off : Z.
Notation eval := (eval hosts off).
Notation eval_list := (eval_list hosts off).

Lemma eval_list_nil : forall st, eval_list [] st = (Ok [], st).
Proof. reflexivity. Qed.

Lemma eval_list_cons : forall a t st,
  eval_list (a :: t) st =
  match eval a st with
  | (Ok v, st1) =>
    match eval_list t st1 with
    | (Ok vs, st2) => (Ok (v :: vs), st2)
    | (Err, st2) => (Err, st2)
    | (Panic, st2) => (Panic, st2)
    | (Unk, st2) => (Unk, st2)
    end
  | (Err, st1) => (Err, st1)
  | (Panic, st1) => (Panic, st1)
  | (Unk, st1) => (Unk, st1)
  end.
Proof. reflexivity. Qed.

Lemma eval_SIdent : forall k name st, eval (SIdent k name) st = fmt (Ok (lookup_ident name st), st).
Proof. reflexivity. Qed.

Lemma eval_SMissing : forall st, eval SMissing st = fmt (Ok (lookup_ident [] st), st).
Proof. reflexivity. Qed.

Lemma eval_SLit : forall k v st,
  eval (SLit k v) st =
  fmt match k with
      | KTrue => (Ok (VBool true), st)
      | KFalse => (Ok (VBool false), st)
      | KNull => (Ok VNull, st)
      | KThis => (Ok (VMap (match r_this st with Some m => m | None => [] end)), st)
      | KCtx => (Ok VCtx, st)
      | KNumber => (match v with [] => Err | _ => Ok (VNum (dec_of_string v)) end, st)
      | KString => (Ok (VStr v), st)
      | _ => (Err, st)
      end.
Proof. reflexivity. Qed.

Lemma eval_SPrefix : forall op a st,
  eval (SPrefix op a) st =
  fmt match eval a st with
      | (Ok v, st1) => (unary_op op v, st1)
      | r => r
      end.
Proof. reflexivity. Qed.

Lemma eval_STypeof : forall a st,
  eval (STypeof a) st =
  fmt match eval a st with
      | (Ok v, st1) =>
        (Ok (VStr (match v with
                   | VBool _ => str "boolean" | VStr _ => str "string" | VNum _ => str "number"
                   | _ => str "object" end)), st1)
      | r => r
      end.
Proof. reflexivity. Qed.

Lemma eval_SBin : forall l op r st,
  eval (SBin l op r) st =
  fmt (if kind_eqb op KEquals then
      match l with
      | SIdent _ name =>
        if starts_dollar name then
          match eval r st with
          | (Ok v, st1) => (Ok v, set_this_value name v st1)
          | x => x
          end
        else (Err, st)
      | _ => (Err, st)
      end
    else
      match eval l st with
      | (Ok v1, st1) =>
        match eval r st1 with
        | (Ok v2, st2) => (binary_op op v1 v2, st2)
        | x => x
        end
      | x => x
      end).
Proof. reflexivity. Qed.

Lemma eval_SCond : forall c t f st,
  eval (SCond c t f) st =
  fmt match eval c st with
      | (Ok v, st1) => if truthy v then eval t st1 else eval f st1
      | x => x
      end.
Proof. reflexivity. Qed.

Lemma eval_SArr : forall es st,
  eval (SArr es) st =
  fmt match eval_list es st with
      | (Ok vs, st1) => (Ok (VArr vs), st1)
      | (Err, st1) => (Err, st1)
      | (Panic, st1) => (Panic, st1)
      | (Unk, st1) => (Unk, st1)
      end.
Proof. reflexivity. Qed.

Lemma eval_SParen : forall a st, eval (SParen a) st = fmt (eval a st).
Proof. reflexivity. Qed.

Lemma eval_SSel : forall a nk name asrt st,
  eval (SSel a nk name asrt) st =
  fmt match eval a st with
      | (Ok v, st1) =>
        if is_null v && asrt then (Err, st1)
        else
          (match v with
           | VMap m => Ok (match assoc name m with Some x => (if is_null x then VNull else x) | None => VNull end)
           | VTime _ => Panic
           | VOpaque _ => Unk
           | VStruct _ fs =>
             match assoc name fs with Some x => Ok (if is_null x then VNull else x) | None => Panic end
           | _ => Ok VNull
           end, st1)
      | x => x
      end.
Proof. reflexivity. Qed.

Lemma eval_SSelMissing : forall a asrt st, eval (SSelMissing a asrt) st = fmt (eval a st).
Proof. reflexivity. Qed.

Lemma eval_SCall : forall f args sp st,
  eval (SCall f args sp) st =
  fmt match eval f st with
      | (Ok fv, st1) =>
        if negb (is_name_path f) then (Err, st1)
        else
          match eval_list args st1 with
          | (Ok vs, st2) => call_value hosts off fv vs sp st2
          | (Err, st2) => (Err, st2)
          | (Panic, st2) => (Panic, st2)
          | (Unk, st2) => (Unk, st2)
          end
      | x => x
      end.
Proof. reflexivity. Qed.

(* every node result went through [fmt] *)
Lemma eval_is_fmt : forall e st, exists r, eval e st = fmt r.
Proof.
  intros e st. destruct e.
  - rewrite eval_SIdent. eexists. reflexivity.
  - rewrite eval_SMissing. eexists. reflexivity.
  - rewrite eval_SLit. eexists. reflexivity.
  - rewrite eval_SPrefix. eexists. reflexivity.
  - rewrite eval_STypeof. eexists. reflexivity.
  - rewrite eval_SBin. eexists. reflexivity.
  - rewrite eval_SCond. eexists. reflexivity.
  - rewrite eval_SArr. eexists. reflexivity.
  - rewrite eval_SParen. eexists. reflexivity.
  - rewrite eval_SSel. eexists. reflexivity.
  - rewrite eval_SSelMissing. eexists. reflexivity.
  - rewrite eval_SCall. eexists. reflexivity.
Qed.

End Equations.

Lemma fmt_not_ok : forall o s, (forall v, o <> Ok v) -> fmt (o, s) = (o, s).
Proof. intros o s H. destruct o as [v| | |]; try reflexivity. exfalso. apply (H v). reflexivity. Qed.

Lemma fmt_fst_err : forall r, fst r = Err -> fst (fmt r) = Err.
Proof. intros [o s] H. cbn in H. subst o. reflexivity. Qed.

Lemma fmt_fst_panic : forall r, fst r = Panic -> fst (fmt r) = Panic.
Proof. intros [o s] H. cbn in H. subst o. reflexivity. Qed.

Lemma fmt_snd : forall r, snd (fmt r) = snd r.
Proof. intros [[v| | |] s]; reflexivity. Qed.

Lemma fmt_fst_inv_panic : forall r, fst (fmt r) = Panic -> fst r = Panic.
Proof. intros [[v| | |] s] H; cbn in *; try discriminate; reflexivity. Qed.

(* ================================================================== *)
(* 2. Normalisation of results (formatInput)                           *)
(* ================================================================== *)

(* a value that formatInput leaves alone: not a Go int/int32/int64 and not a Go float *)
Definition normalised (v : value) : bool :=
  match v with
  | VGoInt GInt _ | VGoInt GInt32 _ | VGoInt GInt64 _ | VGoFloat _ => false
  | _ => true
  end.

Lemma format_input_int : forall n, format_input (VGoInt GInt n) = VNum (dec_of_Z n).
Proof. reflexivity. Qed.
Lemma format_input_int32 : forall n, format_input (VGoInt GInt32 n) = VNum (dec_of_Z n).
Proof. reflexivity. Qed.
Lemma format_input_int64 : forall n, format_input (VGoInt GInt64 n) = VNum (dec_of_Z n).
Proof. reflexivity. Qed.
Lemma format_input_float : forall s, format_input (VGoFloat s) = VNum (dec_of_string s).
Proof. reflexivity. Qed.

Lemma results_normalised :
  (forall n, format_input (VGoInt GInt n) = VNum (dec_of_Z n)) /\
  (forall n, format_input (VGoInt GInt32 n) = VNum (dec_of_Z n)) /\
  (forall n, format_input (VGoInt GInt64 n) = VNum (dec_of_Z n)) /\
  (forall s, format_input (VGoFloat s) = VNum (dec_of_string s)).
Proof.
  exact (conj format_input_int (conj format_input_int32 (conj format_input_int64 format_input_float))).
Qed.

Lemma format_input_normalised : forall v, normalised (format_input v) = true.
Proof. intros v. destruct v as [| | | | | | | | |k n| | | | |]; try reflexivity. destruct k; reflexivity. Qed.

Lemma format_input_id : forall v, normalised v = true -> format_input v = v.
Proof. intros v H. destruct v as [| | | | | | | | |k n| | | | |]; try reflexivity; try discriminate. destruct k; try reflexivity; discriminate. Qed.

Lemma eval_result_normalised : forall hosts off e st v st',
  eval hosts off e st = (Ok v, st') -> normalised v = true.
Proof.
  intros hosts off e st v st' H.
  destruct (eval_is_fmt hosts off e st) as [[o s] Hr]. rewrite Hr in H.
  destruct o as [w| | |]; cbn in H; try discriminate.
  injection H as Hv _. subst v. apply format_input_normalised.
Qed.

(* ================================================================== *)
(* 3. Conversion laws                                                  *)
(* ================================================================== *)

(* names for the two local loops of [conv_to] *)
Definition conv_slice_elems (et : gotype) :=
  fix go (l : list value) : outcome (list value) :=
    match l with
    | [] => Ok []
    | x :: r =>
      match conv_to et x with
      | Ok x' => match go r with Ok r' => Ok (x' :: r') | Err => Err | Panic => Panic | Unk => Unk end
      | Err => Err
      | Panic => Panic
      | Unk => Unk
      end
    end.

Definition conv_map_elems (et : gotype) :=
  fix go (m : list (list Z * value)) : outcome (list (list Z * value)) :=
    match m with
    | [] => Ok []
    | (k, x) :: r =>
      match conv_to et x with
      | Ok x' => match go r with
                 | Ok r' => Ok ((k, x') :: r')
                 | Err => Err | Panic => Panic | Unk => Unk end
      | Err => Err
      | Panic => Panic
      | Unk => Unk
      end
    end.

Lemma conv_to_slice : forall et v,
  conv_to (TSlice et) v =
  match v with
  | VArr l => match conv_slice_elems et l with Ok l' => Ok (VArr l') | Err => Err | Panic => Panic | Unk => Unk end
  | VNull => Panic
  | _ => Err
  end.
Proof. intros et v. destruct v; reflexivity. Qed.

Lemma conv_to_map : forall et v,
  conv_to (TMapStr et) v =
  match v with
  | VMap m => match conv_map_elems et m with Ok m' => Ok (VMap m') | Err => Err | Panic => Panic | Unk => Unk end
  | _ => Panic
  end.
Proof. intros et v. destruct v; reflexivity. Qed.

Lemma conv_slice_elems_cons : forall et x r,
  conv_slice_elems et (x :: r) =
  match conv_to et x with
  | Ok x' => match conv_slice_elems et r with Ok r' => Ok (x' :: r') | Err => Err | Panic => Panic | Unk => Unk end
  | Err => Err
  | Panic => Panic
  | Unk => Unk
  end.
Proof. reflexivity. Qed.

Lemma conv_map_elems_cons : forall et k x r,
  conv_map_elems et ((k, x) :: r) =
  match conv_to et x with
  | Ok x' => match conv_map_elems et r with
             | Ok r' => Ok ((k, x') :: r')
             | Err => Err | Panic => Panic | Unk => Unk end
  | Err => Err
  | Panic => Panic
  | Unk => Unk
  end.
Proof. reflexivity. Qed.

(* --- numbers to Go integers: truncation toward zero --- *)

Lemma pow10_pos : forall n, 0 <= n -> 0 < pow10 n.
Proof. intros n Hn. unfold pow10. apply Z.pow_pos_nonneg; lia. Qed.

(* the value of Fin n c e is (-1)^n * c * 10^e; for e >= 0 the truncation is exact, for e < 0
   it is the sign times the integer quotient: |trunc| * 10^-e <= c < (|trunc| + 1) * 10^-e *)
Lemma trunc_dec_spec : forall n c e, 0 <= c ->
  (0 <= e -> trunc_dec (Fin n c e) = scoef n (c * pow10 e)) /\
  (e < 0 ->
     let q := c / pow10 (- e) in
     trunc_dec (Fin n c e) = scoef n q /\
     0 <= q /\ q * pow10 (- e) <= c < (q + 1) * pow10 (- e) /\
     Z.abs (trunc_dec (Fin n c e)) = q).
Proof.
  intros n c e Hc. split.
  - intros He. unfold trunc_dec. destruct (0 <=? e) eqn:E; [reflexivity|]. apply Z.leb_gt in E. lia.
  - intros He q. unfold trunc_dec. destruct (0 <=? e) eqn:E; [apply Z.leb_le in E; lia|].
    assert (Hp : 0 < pow10 (- e)) by (apply pow10_pos; lia).
    assert (Hq : 0 <= q) by (apply Z.div_pos; lia).
    pose proof (Z.div_mod c (pow10 (- e))) as Hdm.
    pose proof (Z.mod_pos_bound c (pow10 (- e)) Hp) as Hmb.
    fold q in Hdm.
    split; [reflexivity|]. split; [exact Hq|]. split; [nia|].
    fold q. unfold scoef. destruct n; lia.
Qed.

Lemma trunc_dec_sign : forall n c e, 0 <= c ->
  (n = true -> trunc_dec (Fin n c e) <= 0) /\ (n = false -> 0 <= trunc_dec (Fin n c e)).
Proof.
  intros n c e Hc.
  assert (H : 0 <= (if 0 <=? e then c * pow10 e else c / pow10 (- e))).
  { destruct (0 <=? e) eqn:E.
    - apply Z.leb_le in E. pose proof (pow10_pos e E). nia.
    - apply Z.leb_gt in E. apply Z.div_pos; [lia|]. apply pow10_pos; lia. }
  unfold trunc_dec, scoef. split; intros Hn; subst n; lia.
Qed.


Lemma num_to_int_truncates : forall k d,
  int_signed k = true -> is_finite d = true -> wrap_int k (trunc_dec d) = trunc_dec d ->
  conv_to (TInt k) (VNum d) = Ok (VGoInt k (trunc_dec d)).
Proof.
  intros k d Hk Hf Hw.
  assert (E : (wrap_int k (trunc_dec d) =? trunc_dec d) = true) by (apply Z.eqb_eq; exact Hw).
  destruct k; try discriminate Hk; cbn [conv_to reflect_convert is_basic_number]; rewrite Hf, E; reflexivity.
Qed.

(* a number that is not finite or whose truncation is outside the target range cannot be converted:
   the result is Err (every integer kind; the unsigned kinds accept no number at all) *)
Lemma num_to_int_out_of_range : forall k d,
  is_finite d && (wrap_int k (trunc_dec d) =? trunc_dec d) = false ->
  conv_to (TInt k) (VNum d) = Err.
Proof.
  intros k d Hf.
  destruct k; cbn [conv_to reflect_convert is_basic_number]; try rewrite Hf; reflexivity.
Qed.

Lemma num_out_of_range_is_error : forall k d,
  is_finite d = false \/ wrap_int k (trunc_dec d) <> trunc_dec d ->
  conv_to (TInt k) (VNum d) = Err.
Proof.
  intros k d H. apply num_to_int_out_of_range. destruct H as [H|H].
  - rewrite H. reflexivity.
  - apply Z.eqb_neq in H. rewrite H. apply andb_false_r.
Qed.

(* the conversion of a number to a signed integer kind, completely: the truncation when the number is
   finite and fits, Err otherwise - never Unk, never Panic *)
Lemma num_to_int_iff : forall k d, int_signed k = true ->
  (conv_to (TInt k) (VNum d) = Ok (VGoInt k (trunc_dec d)) <->
     is_finite d = true /\ wrap_int k (trunc_dec d) = trunc_dec d) /\
  (conv_to (TInt k) (VNum d) = Err <->
     is_finite d = false \/ wrap_int k (trunc_dec d) <> trunc_dec d) /\
  (conv_to (TInt k) (VNum d) = Ok (VGoInt k (trunc_dec d)) \/ conv_to (TInt k) (VNum d) = Err).
Proof.
  intros k d Hk.
  destruct (is_finite d) eqn:Hf; [destruct (Z.eq_dec (wrap_int k (trunc_dec d)) (trunc_dec d)) as [Hw|Hw]|].
  - rewrite (num_to_int_truncates k d Hk Hf Hw). split; [|split].
    + split; [intros _; split; [reflexivity|exact Hw]|reflexivity].
    + split; [discriminate|]. intros [H|H]; [discriminate H|contradiction].
    + left. reflexivity.
  - rewrite (num_out_of_range_is_error k d (or_intror Hw)). split; [|split].
    + split; [discriminate|]. intros [_ H]. contradiction.
    + split; [intros _; right; exact Hw|reflexivity].
    + right. reflexivity.
  - rewrite (num_out_of_range_is_error k d (or_introl Hf)). split; [|split].
    + split; [discriminate|]. intros [H _]. discriminate H.
    + split; [intros _; left; reflexivity|reflexivity].
    + right. reflexivity.
Qed.

(* when does an integer fit kind k (signed kinds)? *)
Lemma wrap_int_fits_iff : forall k z, int_signed k = true ->
  (wrap_int k z = z <-> - 2 ^ (int_bits k - 1) <= z < 2 ^ (int_bits k - 1)).
Proof.
  intros k z Hk. unfold wrap_int. rewrite Hk. cbn [andb].
  assert (Hb : 2 ^ int_bits k = 2 * 2 ^ (int_bits k - 1)).
  { replace (int_bits k) with (Z.succ (int_bits k - 1)) at 1 by lia.
    apply Z.pow_succ_r. destruct k; cbn; lia. }
  assert (Hp : 0 < 2 ^ (int_bits k - 1)) by (apply Z.pow_pos_nonneg; destruct k; cbn; lia).
  set (m := 2 ^ int_bits k) in *. set (h := 2 ^ (int_bits k - 1)) in *.
  assert (Hm : 0 < m) by lia.
  assert (Hh : m / 2 = h). { rewrite Hb. rewrite Z.mul_comm. apply Z.div_mul. lia. }
  rewrite Hh.
  pose proof (Z.div_mod z m) as Hdm. pose proof (Z.mod_pos_bound z m Hm) as Hmb.
  destruct (h <=? z mod m) eqn:E.
  - apply Z.leb_le in E. split; intros H.
    + lia.
    + assert (Hq : z / m = -1) by nia. nia.
  - apply Z.leb_gt in E. split; intros H.
    + lia.
    + assert (Hq : z / m = 0) by nia. nia.
Qed.

Lemma num_to_float : forall is32 d, conv_to (TFloat is32) (VNum d) = Ok (VGoFloat (dec_to_string d)).
Proof. intros is32 d. reflexivity. Qed.

(* --- anything to string --- *)

(* every value that convToString formats arrives as that text; null arrives as "" *)
Lemma any_to_string_formats_gen : forall v s,
  conv_to_string v = Some s ->
  conv_to TString v = Ok (VStr (if is_null v then [] else s)).
Proof.
  intros v s Hs.
  destruct v; cbn [conv_to_string] in Hs; try discriminate Hs.
  - reflexivity.
  - injection Hs as Hs. subst s. reflexivity.
  - cbn [conv_to reflect_convert is_basic_number is_null]. cbn [conv_to_string].
    destruct (is_nan d); [discriminate Hs|]. injection Hs as Hs. subst s. reflexivity.
  - injection Hs as Hs. subst s. reflexivity.
  - cbn [conv_to reflect_convert is_basic_number is_null conv_to_string]. rewrite Hs. reflexivity.
  - cbn [conv_to reflect_convert is_basic_number is_null conv_to_string]. rewrite Hs. reflexivity.
  - injection Hs as Hs. subst s. reflexivity.
  - reflexivity.
Qed.

Lemma any_to_string_formats :
  (forall v s, is_null v = false -> conv_to_string v = Some s -> conv_to TString v = Ok (VStr s)) /\
  conv_to TString VNull = Ok (VStr []).
Proof.
  split; [|reflexivity].
  intros v s Hn Hs. rewrite (any_to_string_formats_gen v s Hs). rewrite Hn. reflexivity.
Qed.

Lemma string_to_string : forall s, conv_to TString (VStr s) = Ok (VStr s).
Proof. reflexivity. Qed.
Lemma bool_to_string : forall b, conv_to TString (VBool b) = Ok (VStr (bool_str b)).
Proof. reflexivity. Qed.
Lemma num_to_string : forall d, is_nan d = false -> conv_to TString (VNum d) = Ok (VStr (dec_to_string d)).
Proof. intros d H. cbn [conv_to reflect_convert is_basic_number is_null conv_to_string]. rewrite H. reflexivity. Qed.
Lemma null_to_string_is_empty : conv_to TString VNull = Ok (VStr []) /\ conv_to TString VNilPtr = Ok (VStr []).
Proof. split; reflexivity. Qed.

(* Go integers that formatInput leaves alone (int8, int16, uintN from the data map) are formatted as
   their digits like every other value (not converted to the string of that code point) *)
Lemma goint_to_string_is_digits : forall k n,
  conv_to TString (VGoInt k n) = Ok (VStr (dec_to_string (dec_of_Z n))).
Proof. reflexivity. Qed.

Example ex_goint_to_string : conv_to TString (VGoInt GInt8 65) = Ok (VStr [54; 53]).
Proof. vm_compute. reflexivity. Qed.

(* --- null to interface --- *)
Lemma null_to_interface_is_nil : conv_to TIface VNull = Ok VNull.
Proof. reflexivity. Qed.

Lemma any_to_interface_unchanged : forall v, conv_to TIface v = Ok v.
Proof. intros v. destruct v; reflexivity. Qed.

(* --- arrays to slices, element-wise --- *)
Lemma conv_slice_elems_forall2 : forall et l l',
  conv_slice_elems et l = Ok l' <->
  Forall2 (fun x x' => conv_to et x = Ok x') l l'.
Proof.
  intros et l l'. split.
  - revert l'. induction l as [|x r IH]; intros l' H.
    + cbn in H. injection H as H. subst l'. constructor.
    + rewrite conv_slice_elems_cons in H.
      destruct (conv_to et x) as [x'| | |] eqn:Ex; try discriminate H.
      destruct (conv_slice_elems et r) as [r'| | |] eqn:Er; try discriminate H.
      injection H as H. subst l'. constructor; [exact Ex|]. apply IH. reflexivity.
  - intros H. induction H as [|x x' r r' Hx _ IH]; [reflexivity|].
    rewrite conv_slice_elems_cons, Hx, IH. reflexivity.
Qed.

Lemma array_to_slice_elementwise : forall t l l',
  conv_to (TSlice t) (VArr l) = Ok (VArr l') ->
  Forall2 (fun x x' => conv_to t x = Ok x') l l'.
Proof.
  intros t l l' H. rewrite conv_to_slice in H.
  destruct (conv_slice_elems t l) as [r| | |] eqn:E; try discriminate H.
  injection H as H. subst r.
  apply conv_slice_elems_forall2 in E. exact E.
Qed.

Lemma array_to_slice_elementwise_conv : forall t l l',
  Forall2 (fun x x' => conv_to t x = Ok x') l l' ->
  conv_to (TSlice t) (VArr l) = Ok (VArr l').
Proof.
  intros t l l' H. rewrite conv_to_slice.
  apply conv_slice_elems_forall2 in H. rewrite H. reflexivity.
Qed.

(* an element that converts to nil (null for an interface element type) is kept as nil *)
Lemma null_element_kept : forall l1 l2 l1' l2',
  conv_to (TSlice TIface) (VArr l1) = Ok (VArr l1') ->
  conv_to (TSlice TIface) (VArr l2) = Ok (VArr l2') ->
  conv_to (TSlice TIface) (VArr (l1 ++ VNull :: l2)) = Ok (VArr (l1' ++ VNull :: l2')).
Proof.
  intros l1 l2 l1' l2' H1 H2.
  apply array_to_slice_elementwise in H1. apply array_to_slice_elementwise in H2.
  apply array_to_slice_elementwise_conv. apply Forall2_app; [exact H1|].
  constructor; [reflexivity|exact H2].
Qed.

Example ex_null_element_kept :
  conv_to (TSlice TIface) (VArr [VStr [97]; VNull; VBool true]) = Ok (VArr [VStr [97]; VNull; VBool true]).
Proof. vm_compute. reflexivity. Qed.

(* --- maps to Go maps, entry by entry: every key is kept, also when its value converts to nil --- *)
Lemma conv_map_elems_forall2 : forall et m m',
  conv_map_elems et m = Ok m' <->
  Forall2 (fun e e' => fst e' = fst e /\ conv_to et (snd e) = Ok (snd e')) m m'.
Proof.
  intros et m m'. split.
  - revert m'. induction m as [|[k x] r IH]; intros m' H.
    + cbn in H. injection H as H. subst m'. constructor.
    + rewrite conv_map_elems_cons in H.
      destruct (conv_to et x) as [x'| | |] eqn:Ex; try discriminate H.
      destruct (conv_map_elems et r) as [r'| | |] eqn:Er; try discriminate H.
      injection H as H. subst m'. constructor; [split; [reflexivity|exact Ex]|]. apply IH. reflexivity.
  - intros H. induction H as [|[k x] [k' x'] r r' [Hk Hx] _ IH]; [reflexivity|].
    cbn [fst snd] in Hk, Hx. subst k'.
    rewrite conv_map_elems_cons, Hx, IH. reflexivity.
Qed.

Lemma map_to_map_entrywise : forall t m m',
  conv_to (TMapStr t) (VMap m) = Ok (VMap m') <->
  Forall2 (fun e e' => fst e' = fst e /\ conv_to t (snd e) = Ok (snd e')) m m'.
Proof.
  intros t m m'. rewrite conv_to_map, <- conv_map_elems_forall2.
  destruct (conv_map_elems t m) as [r| | |]; split; intros H; try discriminate H.
  - injection H as H. subst r. reflexivity.
  - injection H as H. subst r. reflexivity.
Qed.

Lemma map_keys_kept : forall t m m',
  conv_to (TMapStr t) (VMap m) = Ok (VMap m') -> map fst m' = map fst m.
Proof.
  intros t m m' H. apply map_to_map_entrywise in H.
  induction H as [|e e' r r' [Hk _] _ IH]; [reflexivity|]. cbn [map]. rewrite Hk, IH. reflexivity.
Qed.

Example ex_null_entry_kept :
  conv_to (TMapStr TIface) (VMap [([97], VNull); ([98], VBool true)]) = Ok (VMap [([97], VNull); ([98], VBool true)]).
Proof. vm_compute. reflexivity. Qed.

Lemma slice_result_is_array : forall t v w, conv_to (TSlice t) v = Ok w -> exists l l', v = VArr l /\ w = VArr l'.
Proof.
  intros t v w H. rewrite conv_to_slice in H. destruct v; try discriminate H.
  destruct (conv_slice_elems t l) as [r| | |]; try discriminate H. injection H as H. subst w. eauto.
Qed.

(* ================================================================== *)
(* 4. conv_args: position by position                                  *)
(* ================================================================== *)

Lemma conv_args_nil : forall params variadic, conv_args params variadic [] = Ok [].
Proof. intros. destruct params; reflexivity. Qed.

Lemma conv_args_fixed_cons : forall p ps a rest,
  conv_args (p :: ps) false (a :: rest) =
  obind (conv_to p a) (fun a' => obind (conv_args ps false rest) (fun r => Ok (a' :: r))).
Proof. intros. destruct ps; reflexivity. Qed.

Lemma conv_args_no_params : forall variadic a rest, conv_args [] variadic (a :: rest) = Err.
Proof. reflexivity. Qed.

Lemma conv_args_variadic_head : forall p p' ps a rest,
  conv_args (p :: p' :: ps) true (a :: rest) =
  obind (conv_to p a) (fun a' => obind (conv_args (p' :: ps) true rest) (fun r => Ok (a' :: r))).
Proof. reflexivity. Qed.

Lemma conv_args_variadic_tail : forall et a rest,
  conv_args [TSlice et] true (a :: rest) =
  obind (conv_to et a) (fun a' => obind (conv_args [TSlice et] true rest) (fun r => Ok (a' :: r))).
Proof. reflexivity. Qed.

Lemma obind_ok_inv : forall (A B : Type) (a : outcome A) (f : A -> outcome B) b,
  obind a f = Ok b -> exists x, a = Ok x /\ f x = Ok b.
Proof. intros A B a f b H. destruct a as [x| | |]; try discriminate H. exists x. split; [reflexivity|exact H]. Qed.

(* The Go type against which the i-th argument (0-based) is converted *)
Fixpoint arg_type (params : list gotype) (variadic : bool) (i : nat) : option gotype :=
  match params with
  | [] => None
  | [p] => if variadic then (match p with TSlice et => Some et | _ => None end)
           else (match i with O => Some p | S _ => None end)
  | p :: ps => match i with O => Some p | S j => arg_type ps variadic j end
  end.

Lemma arg_type_cons2 : forall p p' ps variadic j,
  arg_type (p :: p' :: ps) variadic (S j) = arg_type (p' :: ps) variadic j.
Proof. reflexivity. Qed.

Lemma arg_type_fixed : forall params i, arg_type params false i = nth_error params i.
Proof.
  induction params as [|p ps IH]; intros i.
  - destruct i; reflexivity.
  - destruct ps as [|p' ps'].
    + destruct i as [|[|j]]; reflexivity.
    + destruct i as [|j]; [reflexivity|]. rewrite arg_type_cons2. cbn [nth_error]. apply IH.
Qed.

Lemma arg_type_variadic_fixed_part : forall fixed et i, (i < length fixed)%nat ->
  arg_type (fixed ++ [TSlice et]) true i = nth_error fixed i.
Proof.
  induction fixed as [|p ps IH]; intros et i Hi; [cbn in Hi; lia|].
  cbn [app]. destruct (ps ++ [TSlice et]) as [|q qs] eqn:E.
  - destruct ps; discriminate E.
  - destruct i as [|j]; [reflexivity|]. rewrite arg_type_cons2. cbn [nth_error]. rewrite <- E. apply IH. cbn in Hi. lia.
Qed.

Lemma arg_type_variadic_tail_part : forall fixed et i, (length fixed <= i)%nat ->
  arg_type (fixed ++ [TSlice et]) true i = Some et.
Proof.
  induction fixed as [|p ps IH]; intros et i Hi; [reflexivity|].
  cbn [app]. destruct (ps ++ [TSlice et]) as [|q qs] eqn:E.
  - destruct ps; discriminate E.
  - destruct i as [|j]; [cbn in Hi; lia|]. rewrite arg_type_cons2. rewrite <- E. apply IH. cbn in Hi. lia.
Qed.

(* the converted list has the length of the argument list, and position i holds the i-th
   argument converted to the i-th parameter type (element type of the variadic tail) *)
Lemma conv_args_pointwise : forall params variadic args cargs,
  conv_args params variadic args = Ok cargs ->
  length cargs = length args /\
  forall i a, nth_error args i = Some a ->
    exists t c, arg_type params variadic i = Some t /\ nth_error cargs i = Some c /\ conv_to t a = Ok c.
Proof.
  intros params variadic args. revert params.
  induction args as [|a rest IH]; intros params cargs H.
  - rewrite conv_args_nil in H. injection H as H. subst cargs. split; [reflexivity|].
    intros i a Hi. destruct i; discriminate Hi.
  - destruct params as [|p ps]; [discriminate H|].
    assert (Hstep : exists t ps', arg_type (p :: ps) variadic 0 = Some t /\
               (forall j, arg_type (p :: ps) variadic (S j) = arg_type ps' variadic j) /\
               conv_args (p :: ps) variadic (a :: rest) =
               obind (conv_to t a) (fun a' => obind (conv_args ps' variadic rest) (fun r => Ok (a' :: r)))).
    { destruct ps as [|p' ps'].
      - destruct variadic.
        + destruct p; try discriminate H.
          exists p, [TSlice p]. split; [reflexivity|]. split; [intros j; reflexivity|reflexivity].
        + exists p, []. split; [reflexivity|]. split; [intros j; reflexivity|reflexivity].
      - exists p, (p' :: ps'). split; [reflexivity|]. split; [intros j; reflexivity|reflexivity]. }
    destruct Hstep as (t & ps' & Ht0 & HtS & Heq). rewrite Heq in H.
    apply obind_ok_inv in H. destruct H as (a' & Ha & H).
    apply obind_ok_inv in H. destruct H as (r & Hr & H). injection H as H. subst cargs.
    destruct (IH ps' r Hr) as [Hlen Hpt]. split; [cbn; lia|].
    intros i x Hi. destruct i as [|j].
    + cbn in Hi. injection Hi as Hi. subst x. exists t, a'. split; [exact Ht0|]. split; [reflexivity|exact Ha].
    + cbn in Hi. destruct (Hpt j x Hi) as (t' & c & Ht' & Hc & Hcv).
      exists t', c. split; [rewrite HtS; exact Ht'|]. split; [exact Hc|exact Hcv].
Qed.

(* one step of conv_args on a non-empty parameter list: the head argument meets the type of
   position 0, the rest meets the positions shifted by one - or no position has a type at all
   (a "variadic" signature whose last parameter is not a slice) *)
Lemma conv_args_step : forall p ps variadic a rest,
  (exists t ps', arg_type (p :: ps) variadic 0 = Some t /\
     (forall j, arg_type (p :: ps) variadic (S j) = arg_type ps' variadic j) /\
     conv_args (p :: ps) variadic (a :: rest) =
     obind (conv_to t a) (fun a' => obind (conv_args ps' variadic rest) (fun r => Ok (a' :: r)))) \/
  (forall i, arg_type (p :: ps) variadic i = None).
Proof.
  intros p ps variadic a rest. destruct ps as [|p' ps'].
  - destruct variadic.
    + destruct p; try (right; intros i; reflexivity).
      left. exists p, [TSlice p]. split; [reflexivity|]. split; [intros j; reflexivity|reflexivity].
    + left. exists p, []. split; [reflexivity|]. split; [intros j; reflexivity|reflexivity].
  - left. exists p, (p' :: ps'). split; [reflexivity|]. split; [intros j; reflexivity|reflexivity].
Qed.

(* the first argument that cannot be converted decides: if position i yields Err and every earlier
   position converts, the whole list yields Err *)
Lemma conv_args_err_at : forall params variadic args i a t,
  nth_error args i = Some a -> arg_type params variadic i = Some t -> conv_to t a = Err ->
  (forall j b, (j < i)%nat -> nth_error args j = Some b ->
     exists tj c, arg_type params variadic j = Some tj /\ conv_to tj b = Ok c) ->
  conv_args params variadic args = Err.
Proof.
  intros params variadic args. revert params.
  induction args as [|a0 rest IH]; intros params i a t Hi Ht Hc Hbefore.
  - destruct i; discriminate Hi.
  - destruct params as [|p ps]; [reflexivity|].
    destruct (conv_args_step p ps variadic a0 rest) as [(t0 & ps' & Ht0 & HtS & Heq)|Hnone];
      [|rewrite Hnone in Ht; discriminate Ht].
    rewrite Heq. destruct i as [|i'].
    + cbn in Hi. injection Hi as Hi. subst a0. rewrite Ht0 in Ht. injection Ht as Ht. subst t0.
      rewrite Hc. reflexivity.
    + destruct (Hbefore O a0 (Nat.lt_0_succ i') eq_refl) as (tj & c & Htj & Hcj).
      rewrite Ht0 in Htj. injection Htj as Htj. subst tj. rewrite Hcj. cbn [obind].
      rewrite (IH ps' i' a t).
      * reflexivity.
      * exact Hi.
      * rewrite <- HtS. exact Ht.
      * exact Hc.
      * intros j b Hj Hb. destruct (Hbefore (S j) b) as (tj & c' & Htj & Hcj'); [lia|exact Hb|].
        exists tj, c'. split; [rewrite <- HtS; exact Htj|exact Hcj'].
Qed.

(* ================================================================== *)
(* 5. The bridge: call_value                                           *)
(* ================================================================== *)

Definition is_arr (v : value) : bool := match v with VArr _ => true | _ => false end.

(* "argument count fits the signature" *)
Definition arity_ok (sg : gosig) (nargs : nat) (spread : bool) : bool :=
  let n := Z.of_nat (length (sig_params sg)) in
  let na := Z.of_nat nargs in
  if sig_variadic sg then (if spread then na =? n else n - 1 <=? na) else na =? n.

(* "spread only on variadic functions and only with an array as last argument" *)
Definition spread_ok (sg : gosig) (args : list value) (spread : bool) : bool :=
  negb spread ||
  (sig_variadic sg && match args with [] => true | _ => is_arr (last args VNull) end).

(* the argument list after spreading *)
Definition expanded_args (args : list value) (spread : bool) : list value :=
  if spread then match last args VNull with VArr l => removelast args ++ l | _ => args end
  else args.

(* the signature of a callable value *)
Definition callee_sig (hosts : list (Z * hostfn)) (f : value) : option gosig :=
  match f with
  | VBuiltin name => builtin_sig name
  | VFunc id => match host_lookup id hosts with Some h => Some (h_sig h) | None => None end
  | _ => None
  end.

(* what happens once the arguments are converted *)
Definition run_callee (hosts : list (Z * hostfn)) (off : Z) (f : value) (cargs : list value) (st : rstate)
  : outcome value * rstate :=
  match f with
  | VBuiltin name => (builtin_call off name cargs, st)
  | VFunc id =>
    match host_lookup id hosts with
    | Some h =>
      let st' := mkR (r_this st) ((id, cargs) :: r_trace st) in
      if negb (sig_nres (h_sig h) =? 2) then (Err, st')
      else if h_fail h then (Err, st') else (Ok (h_result h), st')
    | None => (Err, st)
    end
  | _ => (Err, st)
  end.

(* call_value in one equation *)
Lemma call_value_eq : forall hosts off f args spread st sg,
  callee_sig hosts f = Some sg ->
  call_value hosts off f args spread st =
  if arity_ok sg (length args) spread && spread_ok sg args spread then
    match conv_args (sig_params sg) (sig_variadic sg) (expanded_args args spread) with
    | Ok cargs => run_callee hosts off f cargs st
    | Err => (Err, st)
    | Panic => (Panic, st)
    | Unk => (Unk, st)
    end
  else (Err, st).
Proof.
  intros hosts off f args spread st sg Hsg.
  assert (Hgen : forall run,
    (let n := Z.of_nat (length (sig_params sg)) in
     let na := Z.of_nat (length args) in
     if spread && negb (sig_variadic sg) then (Err, st)
     else if (negb (sig_variadic sg) || spread) && negb (na =? n) then (Err, st)
     else if sig_variadic sg && negb spread && (na <? n - 1) then (Err, st)
     else
       match (if spread && (0 <? na) then
                match last args VNull with
                | VArr l => Ok (removelast args ++ l)
                | _ => Err
                end
              else Ok args) with
       | Ok args1 =>
         match conv_args (sig_params sg) (sig_variadic sg) args1 with
         | Ok cargs => run cargs
         | Err => (Err, st)
         | Panic => (Panic, st)
         | Unk => (Unk, st)
         end
       | Err => (Err, st)
       | Panic => (Panic, st)
       | Unk => (Unk, st)
       end) =
    if arity_ok sg (length args) spread && spread_ok sg args spread then
      match conv_args (sig_params sg) (sig_variadic sg) (expanded_args args spread) with
      | Ok cargs => run cargs
      | Err => (Err, st)
      | Panic => (Panic, st)
      | Unk => (Unk, st)
      end
    else ((Err, st) : outcome value * rstate)).
  { intros run. unfold arity_ok, spread_ok, expanded_args. cbv zeta.
    set (n := Z.of_nat (length (sig_params sg))). set (na := Z.of_nat (length args)).
    destruct (sig_variadic sg) eqn:Ev; destruct spread eqn:Es; cbn [andb orb negb].
    - (* variadic, spread *)
      destruct (na =? n) eqn:E1; cbn [andb negb]; [|reflexivity].
      destruct args as [|a0 args0] eqn:Ea.
      + reflexivity.
      + rewrite <- Ea.
        assert (Hpos : (0 <? na) = true) by (apply Z.ltb_lt; subst na args; cbn [length]; lia).
        rewrite Hpos. destruct (last args VNull); reflexivity.
    - (* variadic, no spread *)
      destruct (na <? n - 1) eqn:E1.
      + assert (E2 : (n - 1 <=? na) = false) by (apply Z.leb_gt; apply Z.ltb_lt in E1; lia).
        rewrite E2. reflexivity.
      + assert (E2 : (n - 1 <=? na) = true) by (apply Z.leb_le; apply Z.ltb_ge in E1; lia).
        rewrite E2. reflexivity.
    - destruct (na =? n); reflexivity.
    - destruct (na =? n); reflexivity. }
  destruct f; cbn [callee_sig] in Hsg; try discriminate Hsg.
  - (* VFunc *)
    cbn [call_value run_callee].
    destruct (host_lookup id hosts) as [h|] eqn:Eh; [|discriminate Hsg].
    injection Hsg as Hsg. subst sg. apply Hgen.
  - (* VBuiltin *)
    cbn [call_value run_callee]. rewrite Hsg. apply Hgen.
Qed.

Lemma call_value_no_sig : forall hosts off f args spread st,
  callee_sig hosts f = None ->
  call_value hosts off f args spread st = (match f with VNull => Panic | _ => Err end, st).
Proof.
  intros hosts off f args spread st H.
  destruct f; cbn [callee_sig] in H; cbn [call_value]; try reflexivity.
  - destruct (host_lookup id hosts); [discriminate H|reflexivity].
  - rewrite H. reflexivity.
Qed.

Lemma run_callee_host : forall hosts off id h cargs st,
  host_lookup id hosts = Some h ->
  run_callee hosts off (VFunc id) cargs st =
  (if negb (sig_nres (h_sig h) =? 2) || h_fail h then Err else Ok (h_result h),
   mkR (r_this st) ((id, cargs) :: r_trace st)).
Proof.
  intros hosts off id h cargs st H. cbn [run_callee]. rewrite H.
  destruct (negb (sig_nres (h_sig h) =? 2)); [reflexivity|]. destruct (h_fail h); reflexivity.
Qed.

Lemma cons_neq_self : forall (A : Type) (x : A) l, x :: l <> l.
Proof.
  intros A x l H. assert (Hl : length (x :: l) = length l) by (rewrite H; reflexivity).
  cbn in Hl. lia.
Qed.

(* --- C11.1: at most one invocation per call_value, and only of a host function --- *)
Lemma host_called_at_most_once : forall hosts off f args spread st,
  let st' := snd (call_value hosts off f args spread st) in
  r_this st' = r_this st /\
  (r_trace st' = r_trace st \/
   exists id cargs, f = VFunc id /\ r_trace st' = (id, cargs) :: r_trace st).
Proof.
  intros hosts off f args spread st.
  destruct (callee_sig hosts f) as [sg|] eqn:Hsg.
  - rewrite (call_value_eq hosts off f args spread st sg Hsg).
    destruct (arity_ok sg (length args) spread && spread_ok sg args spread); [|cbn; auto].
    destruct (conv_args (sig_params sg) (sig_variadic sg) (expanded_args args spread)) as [cargs| | |];
      try (cbn; auto; fail).
    destruct f; cbn [callee_sig] in Hsg; try discriminate Hsg.
    + destruct (host_lookup id hosts) as [h|] eqn:Eh; [|discriminate Hsg].
      rewrite (run_callee_host hosts off id h cargs st Eh). cbn. split; [reflexivity|].
      right. exists id, cargs. split; reflexivity.
    + cbn. auto.
  - rewrite (call_value_no_sig hosts off f args spread st Hsg). cbn. auto.
Qed.

(* --- C11.1: the function is called iff everything fits --- *)
Lemma called_iff_fits : forall hosts off id h args spread st cargs,
  host_lookup id hosts = Some h ->
  (r_trace (snd (call_value hosts off (VFunc id) args spread st)) = (id, cargs) :: r_trace st
   <->
   arity_ok (h_sig h) (length args) spread = true /\
   spread_ok (h_sig h) args spread = true /\
   conv_args (sig_params (h_sig h)) (sig_variadic (h_sig h)) (expanded_args args spread) = Ok cargs).
Proof.
  intros hosts off id h args spread st cargs Hh.
  assert (Hsg : callee_sig hosts (VFunc id) = Some (h_sig h)) by (cbn; rewrite Hh; reflexivity).
  rewrite (call_value_eq hosts off (VFunc id) args spread st (h_sig h) Hsg).
  destruct (arity_ok (h_sig h) (length args) spread) eqn:Ea;
  destruct (spread_ok (h_sig h) args spread) eqn:Es; cbn [andb].
  - destruct (conv_args (sig_params (h_sig h)) (sig_variadic (h_sig h)) (expanded_args args spread)) as [c| | |] eqn:Ec.
    + rewrite (run_callee_host hosts off id h c st Hh). cbn [snd r_trace]. split.
      * intros H. injection H as H. subst c. auto.
      * intros (_ & _ & H). injection H as H. subst c. reflexivity.
    + cbn [snd]. split; [intros H; symmetry in H; exfalso; exact (cons_neq_self _ _ _ H)|intros (_ & _ & H); discriminate H].
    + cbn [snd]. split; [intros H; symmetry in H; exfalso; exact (cons_neq_self _ _ _ H)|intros (_ & _ & H); discriminate H].
    + cbn [snd]. split; [intros H; symmetry in H; exfalso; exact (cons_neq_self _ _ _ H)|intros (_ & _ & H); discriminate H].
  - cbn [snd]. split; [intros H; symmetry in H; exfalso; exact (cons_neq_self _ _ _ H)|intros (_ & H & _); discriminate H].
  - cbn [snd]. split; [intros H; symmetry in H; exfalso; exact (cons_neq_self _ _ _ H)|intros (H & _); discriminate H].
  - cbn [snd]. split; [intros H; symmetry in H; exfalso; exact (cons_neq_self _ _ _ H)|intros (H & _); discriminate H].
Qed.

(* --- C11.1: no call when something does not fit --- *)
Lemma not_called_on_error : forall hosts off f sg args spread st,
  callee_sig hosts f = Some sg ->
  (arity_ok sg (length args) spread = false \/ spread_ok sg args spread = false ->
     call_value hosts off f args spread st = (Err, st)) /\
  (arity_ok sg (length args) spread = true -> spread_ok sg args spread = true ->
   forall o, conv_args (sig_params sg) (sig_variadic sg) (expanded_args args spread) = o ->
     (forall cargs, o <> Ok cargs) ->
     (o = Err \/ o = Panic \/ o = Unk) /\
     call_value hosts off f args spread st =
       (match o with Ok _ => Err | Err => Err | Panic => Panic | Unk => Unk end, st)).
Proof.
  intros hosts off f sg args spread st Hsg.
  rewrite (call_value_eq hosts off f args spread st sg Hsg). split.
  - intros [H|H]; rewrite H; [reflexivity|]. rewrite andb_false_r. reflexivity.
  - intros Ha Hs o Ho Hno. rewrite Ha, Hs, Ho. cbn [andb].
    destruct o as [c| | |]; [exfalso; apply (Hno c); reflexivity| | |]; split; auto.
Qed.

(* an argument that cannot be converted (the arguments before it converting): the function is not
   called, the state is unchanged, the outcome is Err *)
Lemma unconvertible_argument_not_called : forall hosts off f sg args spread st i a t,
  callee_sig hosts f = Some sg ->
  nth_error (expanded_args args spread) i = Some a ->
  arg_type (sig_params sg) (sig_variadic sg) i = Some t -> conv_to t a = Err ->
  (forall j b, (j < i)%nat -> nth_error (expanded_args args spread) j = Some b ->
     exists tj c, arg_type (sig_params sg) (sig_variadic sg) j = Some tj /\ conv_to tj b = Ok c) ->
  call_value hosts off f args spread st = (Err, st).
Proof.
  intros hosts off f sg args spread st i a t Hsg Hi Ht Hc Hb.
  rewrite (call_value_eq hosts off f args spread st sg Hsg).
  rewrite (conv_args_err_at _ _ _ i a t Hi Ht Hc Hb).
  destruct (arity_ok sg (length args) spread && spread_ok sg args spread); reflexivity.
Qed.

(* in particular NaN, an infinity or a number beyond the range of the integer parameter it is given to *)
Lemma num_out_of_range_not_called : forall hosts off f sg args spread st i k d,
  callee_sig hosts f = Some sg ->
  nth_error (expanded_args args spread) i = Some (VNum d) ->
  arg_type (sig_params sg) (sig_variadic sg) i = Some (TInt k) ->
  is_finite d = false \/ wrap_int k (trunc_dec d) <> trunc_dec d ->
  (forall j b, (j < i)%nat -> nth_error (expanded_args args spread) j = Some b ->
     exists tj c, arg_type (sig_params sg) (sig_variadic sg) j = Some tj /\ conv_to tj b = Ok c) ->
  call_value hosts off f args spread st = (Err, st).
Proof.
  intros hosts off f sg args spread st i k d Hsg Hi Ht Hr Hb.
  exact (unconvertible_argument_not_called hosts off f sg args spread st i (VNum d) (TInt k) Hsg Hi Ht
           (num_out_of_range_is_error k d Hr) Hb).
Qed.

(* --- C11.2: outcome of an actual call --- *)
Lemma call_outcome : forall hosts off id h args spread st cargs,
  host_lookup id hosts = Some h ->
  arity_ok (h_sig h) (length args) spread = true ->
  spread_ok (h_sig h) args spread = true ->
  conv_args (sig_params (h_sig h)) (sig_variadic (h_sig h)) (expanded_args args spread) = Ok cargs ->
  call_value hosts off (VFunc id) args spread st =
  (if negb (sig_nres (h_sig h) =? 2) || h_fail h then Err else Ok (h_result h),
   mkR (r_this st) ((id, cargs) :: r_trace st)).
Proof.
  intros hosts off id h args spread st cargs Hh Ha Hs Hc.
  assert (Hsg : callee_sig hosts (VFunc id) = Some (h_sig h)) by (cbn; rewrite Hh; reflexivity).
  rewrite (call_value_eq hosts off (VFunc id) args spread st (h_sig h) Hsg), Ha, Hs, Hc. cbn [andb].
  apply run_callee_host. exact Hh.
Qed.

Lemma error_result_aborts : forall hosts off id h args spread st cargs,
  host_lookup id hosts = Some h ->
  arity_ok (h_sig h) (length args) spread = true ->
  spread_ok (h_sig h) args spread = true ->
  conv_args (sig_params (h_sig h)) (sig_variadic (h_sig h)) (expanded_args args spread) = Ok cargs ->
  h_fail h = true ->
  fst (call_value hosts off (VFunc id) args spread st) = Err.
Proof.
  intros hosts off id h args spread st cargs Hh Ha Hs Hc Hf.
  rewrite (call_outcome hosts off id h args spread st cargs Hh Ha Hs Hc), Hf, orb_true_r. reflexivity.
Qed.

(* --- builtins go through the same checks --- *)
Lemma builtin_outcome : forall hosts off name sg args spread st,
  builtin_sig name = Some sg ->
  call_value hosts off (VBuiltin name) args spread st =
  if arity_ok sg (length args) spread && spread_ok sg args spread then
    match conv_args (sig_params sg) (sig_variadic sg) (expanded_args args spread) with
    | Ok cargs => (builtin_call off name cargs, st)
    | Err => (Err, st)
    | Panic => (Panic, st)
    | Unk => (Unk, st)
    end
  else (Err, st).
Proof.
  intros hosts off name sg args spread st H.
  apply (call_value_eq hosts off (VBuiltin name) args spread st sg). exact H.
Qed.

Definition has_sig (name : list Z) : bool :=
  match builtin_sig name with Some sg => (sig_nres sg =? 2) && negb (sig_ctx sg) | None => false end.

Lemma builtin_sig_total : forallb has_sig builtin_names = true.
Proof. vm_compute. reflexivity. Qed.

Lemma builtin_sig_total_in : forall name, In name builtin_names -> exists sg, builtin_sig name = Some sg /\ sig_nres sg = 2.
Proof.
  intros name Hin. pose proof builtin_sig_total as H. rewrite forallb_forall in H.
  specialize (H name Hin). unfold has_sig in H. destruct (builtin_sig name) as [sg|]; [|discriminate H].
  exists sg. split; [reflexivity|]. apply andb_prop in H. destruct H as [H _]. apply Z.eqb_eq. exact H.
Qed.

(* --- spread --- *)
Lemma spread_expands_tail : forall args l,
  last args VNull = VArr l -> expanded_args args true = removelast args ++ l.
Proof. intros args l H. unfold expanded_args. rewrite H. reflexivity. Qed.

Lemma no_spread_keeps_args : forall args, expanded_args args false = args.
Proof. reflexivity. Qed.

Lemma spread_call_trace : forall hosts off id h args l st cargs,
  host_lookup id hosts = Some h ->
  sig_variadic (h_sig h) = true ->
  length args = length (sig_params (h_sig h)) ->
  last args VNull = VArr l -> args <> [] ->
  conv_args (sig_params (h_sig h)) true (removelast args ++ l) = Ok cargs ->
  r_trace (snd (call_value hosts off (VFunc id) args true st)) = (id, cargs) :: r_trace st.
Proof.
  intros hosts off id h args l st cargs Hh Hv Hlen Hlast Hne Hc.
  apply (called_iff_fits hosts off id h args true st cargs Hh).
  split; [|split].
  - unfold arity_ok. rewrite Hv, Hlen. apply Z.eqb_refl.
  - unfold spread_ok. rewrite Hv, Hlast. cbn. destruct args; reflexivity.
  - rewrite Hv, (spread_expands_tail args l Hlast). exact Hc.
Qed.

(* spread on a non-variadic function, or with a last argument that is not an array: no call *)
Lemma spread_misuse_is_error : forall hosts off f sg args st,
  callee_sig hosts f = Some sg ->
  (sig_variadic sg = false \/ (args <> [] /\ is_arr (last args VNull) = false)) ->
  call_value hosts off f args true st = (Err, st).
Proof.
  intros hosts off f sg args st Hsg H.
  apply (proj1 (not_called_on_error hosts off f sg args true st Hsg)). right.
  unfold spread_ok. cbn [negb orb]. destruct H as [H|[Hne H]].
  - rewrite H. reflexivity.
  - rewrite H. destruct args; [exfalso; apply Hne; reflexivity|]. apply andb_false_r.
Qed.

(* --- the call node of the evaluator --- *)
Lemma call_node : forall hosts off f args sp st fv st1 vs st2,
  eval hosts off f st = (Ok fv, st1) ->
  is_name_path f = true ->
  eval_list hosts off args st1 = (Ok vs, st2) ->
  eval hosts off (SCall f args sp) st = fmt (call_value hosts off fv vs sp st2).
Proof.
  intros hosts off f args sp st fv st1 vs st2 Hf Hn Ha.
  rewrite eval_SCall, Hf, Hn, Ha. reflexivity.
Qed.

Lemma call_node_result_normalised : forall hosts off f args sp st fv st1 vs st2 id h cargs,
  eval hosts off f st = (Ok fv, st1) ->
  is_name_path f = true ->
  eval_list hosts off args st1 = (Ok vs, st2) ->
  fv = VFunc id ->
  host_lookup id hosts = Some h ->
  arity_ok (h_sig h) (length vs) sp = true ->
  spread_ok (h_sig h) vs sp = true ->
  conv_args (sig_params (h_sig h)) (sig_variadic (h_sig h)) (expanded_args vs sp) = Ok cargs ->
  sig_nres (h_sig h) = 2 -> h_fail h = false ->
  eval hosts off (SCall f args sp) st =
  (Ok (format_input (h_result h)), mkR (r_this st2) ((id, cargs) :: r_trace st2)).
Proof.
  intros hosts off f args sp st fv st1 vs st2 id h cargs Hf Hn Ha Hfv Hh Har Hsp Hc Hr Hfail.
  rewrite (call_node hosts off f args sp st fv st1 vs st2 Hf Hn Ha). subst fv.
  rewrite (call_outcome hosts off id h vs sp st2 cargs Hh Har Hsp Hc), Hr, Hfail. reflexivity.
Qed.

(* ================================================================== *)
(* 6. Examples (non-vacuity)                                           *)
(* ================================================================== *)

(* host 7: add(ctx, string, *decimal.Big) (value, error) returning int64 5;
   host 8: cat(string, ...int) (value, error) returning "r";
   host 9: bad(string) (value, error) that returns an error *)
Definition ex_hosts : list (Z * hostfn) :=
  [(7, mkHost (mkSig true [TString; TDec] false 2) (VGoInt GInt64 5) false);
   (8, mkHost (mkSig false [TString; TSlice (TInt GInt)] true 2) (VStr (str "r")) false);
   (9, mkHost (mkSig false [TString] false 2) VNull true)].
Definition ex_st : rstate :=
  mkR (Some [(str "add", VFunc 7); (str "cat", VFunc 8); (str "bad", VFunc 9)]) [].
Definition id_ (s : string) : sexpr := SIdent KIdent (str s).
Definition num_ (s : string) : sexpr := SLit KNumber (str s).
Definition str_ (s : string) : sexpr := SLit KString (str s).

(* add("a", 2.5): called once with ("a", 2.5); the int64 result 5 becomes the number 5 *)
Example ex_call_ok :
  eval ex_hosts 0 (SCall (id_ "add") [str_ "a"; num_ "2.5"] false) ex_st =
  (Ok (VNum (dec_of_Z 5)), mkR (r_this ex_st) [(7, [VStr (str "a"); VNum (Fin false 25 (-1))])]).
Proof. vm_compute. reflexivity. Qed.

(* add("a"): wrong argument count, not called *)
Example ex_call_arity :
  eval ex_hosts 0 (SCall (id_ "add") [str_ "a"] false) ex_st = (Err, ex_st).
Proof. vm_compute. reflexivity. Qed.

(* add("a", true): a boolean is not convertible to *decimal.Big, not called *)
Example ex_call_conv :
  eval ex_hosts 0 (SCall (id_ "add") [str_ "a"; SLit KTrue []] false) ex_st = (Err, ex_st).
Proof. vm_compute. reflexivity. Qed.

(* cat("x", [1, 2.9]...): the array is spread over the variadic tail, numbers truncated *)
Example ex_call_spread :
  eval ex_hosts 0 (SCall (id_ "cat") [str_ "x"; SArr [num_ "1"; num_ "2.9"]] true) ex_st =
  (Ok (VStr (str "r")), mkR (r_this ex_st) [(8, [VStr (str "x"); VGoInt GInt 1; VGoInt GInt 2])]).
Proof. vm_compute. reflexivity. Qed.

(* cat("x", 1, 2): same call without spread *)
Example ex_call_variadic :
  eval ex_hosts 0 (SCall (id_ "cat") [str_ "x"; num_ "1"; num_ "2"] false) ex_st =
  (Ok (VStr (str "r")), mkR (r_this ex_st) [(8, [VStr (str "x"); VGoInt GInt 1; VGoInt GInt 2])]).
Proof. vm_compute. reflexivity. Qed.

(* add("a", [1]...): spread on a non-variadic function; cat("x", 1...): spread of a non-array *)
Example ex_call_spread_misuse :
  eval ex_hosts 0 (SCall (id_ "add") [str_ "a"; SArr [num_ "1"]] true) ex_st = (Err, ex_st) /\
  eval ex_hosts 0 (SCall (id_ "cat") [str_ "x"; num_ "1"] true) ex_st = (Err, ex_st).
Proof. split; vm_compute; reflexivity. Qed.

(* bad("x"): called once, its error aborts *)
Example ex_call_fails :
  eval ex_hosts 0 (SCall (id_ "bad") [str_ "x"] false) ex_st =
  (Err, mkR (r_this ex_st) [(9, [VStr (str "x")])]).
Proof. vm_compute. reflexivity. Qed.

(* two calls in one formula, left to right: the trace lists the calls most recent first *)
Example ex_two_calls :
  eval ex_hosts 0 (SArr [SCall (id_ "add") [str_ "a"; num_ "1"] false;
                         SCall (id_ "cat") [str_ "x"] false]) ex_st =
  (Ok (VArr [VNum (dec_of_Z 5); VStr (str "r")]), mkR (r_this ex_st) [(8, [VStr (str "x")]); (7, [VStr (str "a"); VNum (Fin false 1 0)])]).
Proof. vm_compute. reflexivity. Qed.

(* instances of the hypotheses of the general lemmas *)
Example ex_called_iff_fits_hyps :
  let h := mkHost (mkSig true [TString; TDec] false 2) (VGoInt GInt64 5) false in
  let args := [VStr (str "a"); VNum (Fin false 25 (-1))] in
  host_lookup 7 ex_hosts = Some h /\
  arity_ok (h_sig h) (length args) false = true /\
  spread_ok (h_sig h) args false = true /\
  conv_args (sig_params (h_sig h)) (sig_variadic (h_sig h)) (expanded_args args false) = Ok args.
Proof. cbv zeta. repeat split; vm_compute; reflexivity. Qed.

Example ex_num_to_int : conv_to (TInt GInt8) (VNum (Fin true 1279 (-1))) = Ok (VGoInt GInt8 (-127)).
Proof. vm_compute. reflexivity. Qed.

Example ex_num_to_int_hyps :
  int_signed GInt8 = true /\ is_finite (Fin true 1279 (-1)) = true /\
  wrap_int GInt8 (trunc_dec (Fin true 1279 (-1))) = trunc_dec (Fin true 1279 (-1)) /\
  trunc_dec (Fin true 1279 (-1)) = -127.
Proof. repeat split; vm_compute; reflexivity. Qed.

Example ex_unconvertible :
  conv_to (TInt GInt) (VStr (str "1")) = Err /\ conv_to TDec (VBool true) = Err /\
  conv_args [TString; TInt GInt] false [VStr (str "a"); VStr (str "1")] = Err.
Proof. repeat split; vm_compute; reflexivity. Qed.

(* cat("x", 1e30) and cat("x", 1, 0/0): a number beyond int, NaN - Err, not called *)
Example ex_call_num_out_of_range :
  eval ex_hosts 0 (SCall (id_ "cat") [str_ "x"; num_ "1e30"] false) ex_st = (Err, ex_st) /\
  eval ex_hosts 0 (SCall (id_ "cat") [str_ "x"; num_ "1"; SBin (num_ "0") KSlash (num_ "0")] false) ex_st = (Err, ex_st) /\
  conv_to (TInt GInt8) (VNum (Fin false 128 0)) = Err /\ conv_to (TInt GInt64) (VNum NaN) = Err.
Proof. repeat split; vm_compute; reflexivity. Qed.

Example ex_array_to_slice :
  conv_to (TSlice TString) (VArr [VNum (Fin false 15 (-1)); VBool true; VNull]) =
  Ok (VArr [VStr (str "1.5"); VStr (str "true"); VStr []]).
Proof. vm_compute. reflexivity. Qed.

(* ================================================================== *)
(* 7. Position-by-position statements for the Props file               *)
(* ================================================================== *)

Lemma args_in_order : forall params args cargs,
  conv_args params false args = Ok cargs ->
  length cargs = length args /\
  forall i a, nth_error args i = Some a ->
    exists p c, nth_error params i = Some p /\ nth_error cargs i = Some c /\ conv_to p a = Ok c.
Proof.
  intros params args cargs H. destruct (conv_args_pointwise params false args cargs H) as [Hl Hp].
  split; [exact Hl|]. intros i a Hi. destruct (Hp i a Hi) as (t & c & Ht & Hc & Hcv).
  exists t, c. rewrite arg_type_fixed in Ht. split; [exact Ht|]. split; [exact Hc|exact Hcv].
Qed.

Lemma variadic_tail_converted_by_element_type : forall fixed et args cargs,
  conv_args (fixed ++ [TSlice et]) true args = Ok cargs ->
  length cargs = length args /\
  forall i a, nth_error args i = Some a ->
    exists c, nth_error cargs i = Some c /\
      ((i < length fixed)%nat -> exists p, nth_error fixed i = Some p /\ conv_to p a = Ok c) /\
      ((length fixed <= i)%nat -> conv_to et a = Ok c).
Proof.
  intros fixed et args cargs H.
  destruct (conv_args_pointwise (fixed ++ [TSlice et]) true args cargs H) as [Hl Hp].
  split; [exact Hl|]. intros i a Hi. destruct (Hp i a Hi) as (t & c & Ht & Hc & Hcv).
  exists c. split; [exact Hc|]. split.
  - intros Hlt. rewrite (arg_type_variadic_fixed_part fixed et i Hlt) in Ht. exists t. split; [exact Ht|exact Hcv].
  - intros Hge. rewrite (arg_type_variadic_tail_part fixed et i Hge) in Ht. injection Ht as Ht. subst t. exact Hcv.
Qed.

(* the trace entry of a call holds the converted arguments, in source order *)
Lemma call_trace_in_order : forall hosts off id h args spread st cargs,
  host_lookup id hosts = Some h ->
  r_trace (snd (call_value hosts off (VFunc id) args spread st)) = (id, cargs) :: r_trace st ->
  length cargs = length (expanded_args args spread) /\
  forall i a, nth_error (expanded_args args spread) i = Some a ->
    exists t c, arg_type (sig_params (h_sig h)) (sig_variadic (h_sig h)) i = Some t /\
                nth_error cargs i = Some c /\ conv_to t a = Ok c.
Proof.
  intros hosts off id h args spread st cargs Hh Ht.
  apply (called_iff_fits hosts off id h args spread st cargs Hh) in Ht.
  destruct Ht as (_ & _ & Hc). exact (conv_args_pointwise _ _ _ _ Hc).
Qed.

Example ex_variadic_tail_hyps :
  conv_args ([TString] ++ [TSlice (TInt GInt)]) true [VStr (str "x"); VNum (Fin false 1 0); VNum (Fin false 29 (-1))]
  = Ok [VStr (str "x"); VGoInt GInt 1; VGoInt GInt 2].
Proof. vm_compute. reflexivity. Qed.
