(* Facts about the case-mapping model (Lex/CaseMap.v). *)
From Coq Require Import ZArith List Bool Lia.
From Formula Require Import Base.Utf8 Lex.CaseTables Lex.CaseMap Sem.Builtins.
Import ListNotations.
Open Scope Z_scope.

(* ---- a delta other than 0 comes from a range of the table that contains the code point ---- *)
Lemma case_delta_in tbl r d : case_delta tbl r = d -> d <> 0 ->
  exists lo hi, In (lo, hi, d) tbl /\ lo <= r <= hi.
Proof.
  induction tbl as [|[[lo hi] d'] t IH]; cbn [case_delta]; intros H Hd.
  - congruence.
  - destruct ((lo <=? r) && (r <=? hi)) eqn:E.
    + subst d'. exists lo, hi. split; [left; reflexivity|]. apply andb_true_iff in E. lia.
    + destruct (IH H Hd) as (lo' & hi' & Hin & Hr). exists lo', hi'. split; [right; exact Hin|exact Hr].
Qed.

(* ---- every mapped code point is again a scalar value (checked range by range) ---- *)
Definition scalar (r : Z) : bool := (0 <=? r) && (r <=? 1114111) && negb ((55296 <=? r) && (r <=? 57343)).

Definition range_ok (x : Z * Z * Z) : bool :=
  let '(lo, hi, d) := x in
  (lo <=? hi) && scalar lo && scalar hi && scalar (lo + d) && scalar (hi + d) &&
  (* neither the range nor its image straddles the surrogate block *)
  Bool.eqb (lo <? 55296) (hi <? 55296) && Bool.eqb (lo + d <? 55296) (hi + d <? 55296).

Lemma upper_ranges_ok : forallb range_ok upper_ranges = true.
Proof. vm_compute. reflexivity. Qed.
Lemma lower_ranges_ok : forallb range_ok lower_ranges = true.
Proof. vm_compute. reflexivity. Qed.

Lemma scalar_iff r : scalar r = true <-> (0 <= r <= 1114111 /\ ~ (55296 <= r <= 57343)).
Proof.
  unfold scalar. rewrite !andb_true_iff, negb_true_iff, andb_false_iff, !Z.leb_le, !Z.leb_gt. lia.
Qed.

Lemma range_ok_spec lo hi d : range_ok (lo, hi, d) = true ->
  lo <= hi /\ scalar lo = true /\ scalar hi = true /\ scalar (lo + d) = true /\ scalar (hi + d) = true /\
  (lo < 55296 <-> hi < 55296) /\ (lo + d < 55296 <-> hi + d < 55296).
Proof.
  unfold range_ok. rewrite !andb_true_iff. intros [[[[[[H1 H2] H3] H4] H5] H6] H7].
  apply Z.leb_le in H1. apply eqb_prop in H6. apply eqb_prop in H7.
  repeat split; try assumption.
  - intros A. apply Z.ltb_lt in A. rewrite A in H6. symmetry in H6. apply Z.ltb_lt in H6. exact H6.
  - intros A. apply Z.ltb_lt in A. rewrite A in H6. apply Z.ltb_lt in H6. exact H6.
  - intros A. apply Z.ltb_lt in A. rewrite A in H7. symmetry in H7. apply Z.ltb_lt in H7. exact H7.
  - intros A. apply Z.ltb_lt in A. rewrite A in H7. apply Z.ltb_lt in H7. exact H7.
Qed.

Lemma mapped_scalar tbl r : forallb range_ok tbl = true -> scalar r = true -> scalar (r + case_delta tbl r) = true.
Proof.
  intros Ht Hr. destruct (Z.eq_dec (case_delta tbl r) 0) as [E|E].
  - rewrite E, Z.add_0_r. exact Hr.
  - destruct (case_delta_in tbl r _ eq_refl E) as (lo & hi & Hin & Hlr).
    rewrite forallb_forall in Ht. specialize (Ht _ Hin).
    set (d := case_delta tbl r) in *.
    destruct (range_ok_spec _ _ _ Ht) as (H1 & H2 & H3 & H4 & H5 & H6 & H7).
    apply scalar_iff in H2. apply scalar_iff in H3. apply scalar_iff in H4. apply scalar_iff in H5. apply scalar_iff in Hr.
    apply scalar_iff. lia.
Qed.

Theorem to_upper_scalar r : scalar r = true -> scalar (to_upper_rune r) = true.
Proof. apply mapped_scalar, upper_ranges_ok. Qed.
Theorem to_lower_scalar r : scalar r = true -> scalar (to_lower_rune r) = true.
Proof. apply mapped_scalar, lower_ranges_ok. Qed.

(* ---- on ASCII the mappings are the familiar ones ---- *)
Fixpoint zrange (n : nat) : list Z := match n with O => [] | S k => zrange k ++ [Z.of_nat k] end.
Lemma in_zrange n x : 0 <= x < Z.of_nat n -> In x (zrange n).
Proof.
  induction n as [|k IH]; intros H; [lia|]. cbn [zrange]. apply in_or_app.
  destruct (Z.eq_dec x (Z.of_nat k)) as [->|Hne]; [right; left; reflexivity|left; apply IH; lia].
Qed.

Lemma ascii_sweep :
  forallb (fun b => (to_upper_rune b =? (if (97 <=? b) && (b <=? 122) then b - 32 else b)) &&
                    (to_lower_rune b =? (if (65 <=? b) && (b <=? 90) then b + 32 else b))) (zrange 128) = true.
Proof. vm_compute. reflexivity. Qed.

Lemma to_upper_rune_ascii b : 0 <= b < 128 -> to_upper_rune b = if (97 <=? b) && (b <=? 122) then b - 32 else b.
Proof.
  intros H. pose proof ascii_sweep as S. rewrite forallb_forall in S.
  specialize (S b (in_zrange 128 b ltac:(lia))). apply andb_true_iff in S. destruct S as [S _]. lia.
Qed.
Lemma to_lower_rune_ascii b : 0 <= b < 128 -> to_lower_rune b = if (65 <=? b) && (b <=? 90) then b + 32 else b.
Proof.
  intros H. pose proof ascii_sweep as S. rewrite forallb_forall in S.
  specialize (S b (in_zrange 128 b ltac:(lia))). apply andb_true_iff in S. destruct S as [_ S]. lia.
Qed.

Lemma encode_rune_ascii b : 0 <= b < 128 -> encode_rune b = [b].
Proof.
  intros H. unfold encode_rune.
  replace (b <? 0) with false by (symmetry; apply Z.ltb_ge; lia).
  replace (1114111 <? b) with false by (symmetry; apply Z.ltb_ge; lia).
  replace (55296 <=? b) with false by (symmetry; apply Z.leb_gt; lia).
  replace (b <? 128) with true by (symmetry; apply Z.ltb_lt; lia). reflexivity.
Qed.

Lemma map_runes_ascii f g s :
  (forall b, 0 <= b < 128 -> f b = g b /\ 0 <= g b < 128) ->
  Forall (fun b => 0 <= b < 128) s -> map_runes f s = map g s.
Proof.
  intros Hf Hs. unfold map_runes. induction Hs as [|b t Hb Ht IH]; [reflexivity|].
  cbn [decode_all]. destruct (b <? 128) eqn:E; [|lia].
  cbn [flat_map fst map]. rewrite IH. destruct (Hf b Hb) as [-> Hg]. rewrite encode_rune_ascii by exact Hg. reflexivity.
Qed.

Theorem upper_utf8_ascii s : Forall (fun b => 0 <= b < 128) s -> upper_utf8 s = to_upper_ascii s.
Proof.
  intros Hs. unfold upper_utf8, to_upper_ascii. apply map_runes_ascii; [|exact Hs].
  intros b Hb. rewrite to_upper_rune_ascii by exact Hb. destruct ((97 <=? b) && (b <=? 122)) eqn:E.
  - apply andb_true_iff in E. split; [reflexivity|lia].
  - split; [reflexivity|lia].
Qed.
Theorem lower_utf8_ascii s : Forall (fun b => 0 <= b < 128) s -> lower_utf8 s = to_lower_ascii s.
Proof.
  intros Hs. unfold lower_utf8, to_lower_ascii. apply map_runes_ascii; [|exact Hs].
  intros b Hb. rewrite to_lower_rune_ascii by exact Hb. destruct ((65 <=? b) && (b <=? 90)) eqn:E.
  - apply andb_true_iff in E. split; [reflexivity|lia].
  - split; [reflexivity|lia].
Qed.

(* ---- the mapping works character by character: concatenation commutes when the cut is at a character
   boundary of valid text; stated for the simplest useful case, a leading ASCII byte ---- *)
Theorem upper_utf8_cons_ascii b s : 0 <= b < 128 -> upper_utf8 (b :: s) = to_upper_rune b :: upper_utf8 s.
Proof.
  intros Hb. unfold upper_utf8, map_runes. cbn [decode_all]. destruct (b <? 128) eqn:E; [|lia].
  cbn [flat_map fst]. rewrite to_upper_rune_ascii by exact Hb.
  rewrite encode_rune_ascii; [reflexivity|]. destruct ((97 <=? b) && (b <=? 122)) eqn:F; [apply andb_true_iff in F|]; lia.
Qed.

(* ---- examples beyond ASCII: Latin-1, the digraph U+01C6 (upper U+01C4, not the title case U+01C5), Georgian
   (U+10D0 -> U+1C90), Greek final sigma, Cyrillic, an invalid byte (-> U+FFFD), a 4-byte letter (Deseret) ---- *)
Example case_examples :
  upper_utf8 [104; 195; 169; 255; 199; 134; 225; 131; 144] = [72; 195; 137; 239; 191; 189; 199; 132; 225; 178; 144] /\
  to_upper_rune 454 = 452 /\ to_upper_rune 453 = 452 /\ to_lower_rune 452 = 454 /\
  to_upper_rune 4304 = 7312 /\ to_upper_rune 962 = 931 /\ to_lower_rune 1046 = 1078 /\
  to_upper_rune 66600 = 66560 /\ to_lower_rune 304 = 105 /\ to_upper_rune 223 = 223 /\
  to_upper_rune 65533 = 65533 /\ lower_utf8 [240; 144; 144; 128] = [240; 144; 144; 168].
Proof. vm_compute. repeat split. Qed.
