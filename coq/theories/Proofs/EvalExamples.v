(* Non-vacuity: concrete instances satisfying the hypotheses of the theorems of EvalFacts.v, and
   concrete evaluations illustrating them.  Data map of the examples (formula notation):
     f = host function #1 (one interface{} parameter, returns 'r'),
     g = host function #2 (two interface{} parameters, returns null),
     a = int 5, m = { k: typed nil pointer, n: { i: int64 7 } }, t = a time.Time, z = int8 0,
     len = 'shadowed' (collides with a builtin name). *)
From Coq Require Import List ZArith Bool String.
From Formula Require Import Sem.Eval Proofs.EvalFacts.
Import ListNotations.
Local Open Scope Z_scope.

Definition h1 : hostfn := mkHost (mkSig false [TIface] false 2) (VStr (str "r")) false.
Definition h2 : hostfn := mkHost (mkSig false [TIface; TIface] false 2) VNull false.
Definition hosts0 : list (Z * hostfn) := [(1, h1); (2, h2)].
Definition map0 : list (list Z * value) :=
  [(str "f", VFunc 1); (str "g", VFunc 2); (str "a", VGoInt GInt 5);
   (str "m", VMap [(str "k", VNilPtr); (str "n", VMap [(str "i", VGoInt GInt64 7)])]);
   (str "t", VTime (mkTime 0 0)); (str "z", VGoInt GInt8 0); (str "len", VStr (str "shadowed"))].
Definition st0 : rstate := mkR (Some map0) [].
(* the same data without the time value *)
Definition map1 : list (list Z * value) :=
  [(str "f", VFunc 1); (str "a", VGoInt GInt 5);
   (str "m", VMap [(str "k", VNilPtr); (str "n", VMap [(str "i", VGoInt GInt64 7)])])].
Definition st1 : rstate := mkR (Some map1) [].
Definition st_empty : rstate := mkR None [].

Definition idt (s : string) : sexpr := SIdent KIdent (str s).
Definition num (s : string) : sexpr := SLit KNumber (str s).
Definition dot (a : sexpr) (s : string) : sexpr := SSel a KIdent (str s) false.
Definition bangdot (a : sexpr) (s : string) : sexpr := SSel a KIdent (str s) true.
Definition call1 (f a : sexpr) : sexpr := SCall f [a] false.
Definition one : value := VNum (Fin false 1 0).
Definition two : value := VNum (Fin false 2 0).

Notation ev0 := (eval hosts0 0).

(* ---------------- C06 ---------------- *)

(* the falsy numbers: 0, -0, 0.0, NaN; infinities and the string '0' are truthy *)
Example ex_truthy_numbers :
  truthy (VNum (dec_of_string (str "0"))) = false /\ truthy (VNum (dec_of_string (str "-0"))) = false /\
  truthy (VNum (dec_of_string (str "0.0"))) = false /\ truthy (VNum NaN) = false /\
  truthy (VNum (Inf true)) = true /\ truthy (VNum (Inf false)) = true /\
  truthy (VStr (str "0")) = true /\ truthy (VStr []) = false /\
  truthy (VArr []) = true /\ truthy (VMap []) = true /\ truthy (VTime (mkTime 0 0)) = true /\
  truthy (VFunc 1) = true /\ truthy VNilPtr = false.
Proof. vm_compute. repeat split. Qed.

(* Observation: a Go integer of a kind that is not normalised (int8, uint, ...) reaches toBool as
   is and is truthy even when it is 0: `!!z` with z = int8(0) is true. *)
Example ex_int8_zero_is_truthy :
  ev0 (idt "z") st0 = (Ok (VGoInt GInt8 0), st0) /\
  ev0 (SPrefix KBangBang (idt "z")) st0 = (Ok (VBool true), st0).
Proof. vm_compute. split; reflexivity. Qed.

(* hypotheses of bangbang_is_truthy / bang_is_negation / bang_on_other_is_error *)
Example ex_bang_hyps :
  ev0 (num "0") st0 = (Ok (VNum (Fin false 0 0)), st0) /\ bang_defined (VNum (Fin false 0 0)) = true /\
  ev0 (SLit KString (str "a")) st0 = (Ok (VStr (str "a")), st0) /\ bang_defined (VStr (str "a")) = false /\
  ev0 (SPrefix KBang (num "0")) st0 = (Ok (VBool true), st0) /\
  ev0 (SPrefix KBang (SLit KString (str "a"))) st0 = (Err, st0).
Proof. vm_compute. repeat split. Qed.

(* `1 ? f(1) : f(2)`: the condition evaluates, is truthy, and exactly one host call is recorded *)
Example ex_cond_selected_only :
  ev0 (num "1") st0 = (Ok one, st0) /\ truthy one = true /\
  ev0 (SCond (num "1") (call1 (idt "f") (num "1")) (call1 (idt "f") (num "2"))) st0 =
    (Ok (VStr (str "r")), mkR (Some map0) [(1, [one])]).
Proof. vm_compute. repeat split. Qed.

(* `0 ? ($x = 1) : ($y = 2)` binds only $y *)
Example ex_cond_false_branch :
  truthy (VNum (Fin false 0 0)) = false /\
  ev0 (SCond (num "0") (SBin (idt "$x") KEquals (num "1")) (SBin (idt "$y") KEquals (num "2"))) st_empty =
    (Ok two, mkR (Some [(str "$y", two)]) []).
Proof. vm_compute. repeat split. Qed.

(* hypotheses of and/or/coalesce_returns_operand: `($x = 0) && f($x)` *)
Definition zero : value := VNum (Fin false 0 0).
Example ex_and_or_hyps :
  let l := SBin (idt "$x") KEquals (num "0") in
  let r := call1 (idt "f") (idt "$x") in
  let s1 := mkR (Some (map0 ++ [(str "$x", zero)])) [] in
  let s2 := mkR (Some (map0 ++ [(str "$x", zero)])) [(1, [zero])] in
    ev0 l st0 = (Ok zero, s1) /\ ev0 r s1 = (Ok (VStr (str "r")), s2) /\
    ev0 (SBin l KAmpAmp r) st0 = (Ok zero, s2) /\
    ev0 (SBin l KBarBar r) st0 = (Ok (VStr (str "r")), s2) /\
    ev0 (SBin l KQQ r) st0 = (Ok zero, s2).
Proof. vm_compute. repeat split. Qed.

(* Observation: no short-circuit.  `false && t.k` fails because `t.k` is evaluated. *)
Example ex_and_not_short_circuit :
  fst (ev0 (SBin (SLit KFalse []) KAmpAmp (dot (idt "t") "k")) st0) = Panic.
Proof. vm_compute. reflexivity. Qed.

(* ---------------- C07 ---------------- *)

Example ex_assign_hyps :
  starts_dollar (str "$x") = true /\ ev0 (num "1") st_empty = (Ok one, st_empty) /\
  ev0 (SBin (idt "$x") KEquals (num "1")) st_empty = (Ok one, mkR (Some [(str "$x", one)]) []).
Proof. vm_compute. repeat split. Qed.

(* `a = f(1)` and `this.x = f(1)`: error, and f is not called *)
Example ex_assign_target_error :
  is_dollar_ident (idt "a") = false /\ is_dollar_ident (dot (SLit KThis []) "x") = false /\
  ev0 (SBin (idt "a") KEquals (call1 (idt "f") (num "1"))) st0 = (Err, st0) /\
  ev0 (SBin (dot (SLit KThis []) "x") KEquals (call1 (idt "f") (num "1"))) st0 = (Err, st0).
Proof. vm_compute. repeat split. Qed.

(* `$x = 1, $x`   `[$x = 1, $x]`   `g($x = 2, $x)` *)
Example ex_sequencing :
  ev0 (SBin (SBin (idt "$x") KEquals (num "1")) KComma (idt "$x")) st_empty =
    (Ok one, mkR (Some [(str "$x", one)]) []) /\
  ev0 (SArr [SBin (idt "$x") KEquals (num "1"); idt "$x"]) st_empty =
    (Ok (VArr [one; one]), mkR (Some [(str "$x", one)]) []) /\
  ev0 (SCall (idt "g") [SBin (idt "$x") KEquals (num "2"); idt "$x"] false) st0 =
    (Ok VNull, mkR (Some (map0 ++ [(str "$x", two)])) [(2, [two; two])]).
Proof. vm_compute. repeat split. Qed.

Example ex_eval_list_hyps :
  eval_list hosts0 0 [SBin (idt "$x") KEquals (num "1"); idt "$x"] st_empty =
    (Ok [one; one], mkR (Some [(str "$x", one)]) []) /\
  is_name_path (idt "g") = true.
Proof. vm_compute. split; reflexivity. Qed.

(* frame: `$y = a, f($y)` leaves `a` alone, adds `$y`, appends one call *)
Example ex_frame :
  let e := SBin (SBin (idt "$y") KEquals (idt "a")) KComma (call1 (idt "f") (idt "$y")) in
  let five := VNum (Fin false 5 0) in
  let s := mkR (Some (map0 ++ [(str "$y", five)])) [(1, [five])] in
    ev0 e st0 = (Ok (VStr (str "r")), s) /\
    starts_dollar (str "a") = false /\
    data_lookup (str "a") s = data_lookup (str "a") st0 /\
    data_lookup (str "a") st0 = Some (VGoInt GInt 5) /\
    data_lookup (str "$y") st0 = None /\ data_lookup (str "$y") s = Some five /\
    r_trace s = [(1, [five])] ++ r_trace st0.
Proof. vm_compute. repeat split. Qed.

(* ---------------- C16 ---------------- *)

(* a name that collides with a builtin denotes the builtin; other names read the map; a missing
   name is null *)
Example ex_ident :
  ev0 (idt "len") st0 = (Ok (VBuiltin (str "len")), st0) /\
  ev0 (idt "a") st0 = (Ok (VNum (Fin false 5 0)), st0) /\
  ev0 (idt "q") st0 = (Ok VNull, st0) /\ ev0 (idt "q") st_empty = (Ok VNull, st_empty) /\
  existsb (bytes_eqb (str "q")) builtin_names = false /\ data_lookup (str "q") st0 = None.
Proof. vm_compute. repeat split. Qed.

(* `m.n.i` = 7, `m.k` = null (typed nil), `m.q.r.s` = null, `this.a` = 5, `q!.k` error, `m!.k` fine *)
Example ex_member :
  ev0 (dot (dot (idt "m") "n") "i") st0 = (Ok (VNum (Fin false 7 0)), st0) /\
  ev0 (dot (idt "m") "k") st0 = (Ok VNull, st0) /\
  ev0 (dot (dot (dot (idt "m") "q") "r") "s") st0 = (Ok VNull, st0) /\
  ev0 (dot (SLit KThis []) "a") st0 = (Ok (VNum (Fin false 5 0)), st0) /\
  ev0 (bangdot (idt "q") "k") st0 = (Err, st0) /\
  ev0 (bangdot (idt "m") "k") st0 = (Ok VNull, st0) /\
  ev0 (bangdot (dot (idt "m") "k") "x") st0 = (Err, st0).
Proof. vm_compute. repeat split. Qed.

Example ex_dotted_chain_hyps :
  all_dot (dot (dot (dot (idt "m") "q") "r") "s") = true /\ state_maps_only st1 = true /\
  state_maps_only st_empty = true /\ state_maps_only st0 = false.
Proof. vm_compute. repeat split. Qed.

(* the struct story: `t.k` on a time.Time panics inside the evaluator *)
Example ex_member_on_time :
  ev0 (idt "t") st0 = (Ok (VTime (mkTime 0 0)), st0) /\
  ev0 (dot (idt "t") "k") st0 = (Panic, st0) /\
  resolve_entry hosts0 0 (dot (idt "t") "k") st0 = (Err, st0).
Proof. vm_compute. repeat split. Qed.

Example ex_not_normalised :
  not_normalised (VGoInt GInt8 3) = true /\ not_normalised (VGoInt GUint64 3) = true /\
  not_normalised (VStr (str "x")) = true /\ not_normalised (VGoInt GInt 3) = false.
Proof. vm_compute. repeat split. Qed.

(* ---------------- C16: Go struct values ---------------- *)

(* rec = { user: User{Name: 'ann', Age: int 30, Address: Address{City: 'Oslo', Zip: int 150},
                      Boss: a nil pointer to User, secret: ...} } where Address is embedded, so that its
   fields City and Zip are promoted; the unexported field `secret` is not selectable and so is
   not listed.
   rec.user.Name = 'ann'; .Age = 30 (normalised); .City = 'Oslo' (promoted) = .Address.City;
   .Boss = null (typed nil) and .Boss.Name = null; rec.user!.Name is fine;
   .secret and .name (no such exported field) panic inside and are errors at the entry;
   typeof rec.user = 'object'; rec.user == rec.user is not modelled *)
Example ex_struct_member :
  let addr := VStruct 2 [(str "City", VStr (str "Oslo")); (str "Zip", VGoInt GInt 150)] in
  let user := VStruct 1 [(str "Name", VStr (str "ann")); (str "Age", VGoInt GInt 30); (str "Address", addr);
                         (str "City", VStr (str "Oslo")); (str "Zip", VGoInt GInt 150); (str "Boss", VNilPtr)] in
  let st := mkR (Some [(str "rec", VMap [(str "user", user)])]) [] in
  let u := dot (idt "rec") "user" in
  eval [] 0 u st = (Ok user, st) /\
  eval [] 0 (dot u "Name") st = (Ok (VStr (str "ann")), st) /\
  eval [] 0 (dot u "Age") st = (Ok (VNum (Fin false 30 0)), st) /\
  eval [] 0 (dot u "City") st = (Ok (VStr (str "Oslo")), st) /\
  eval [] 0 (dot (dot u "Address") "City") st = (Ok (VStr (str "Oslo")), st) /\
  eval [] 0 (dot (dot u "Address") "Zip") st = (Ok (VNum (Fin false 150 0)), st) /\
  eval [] 0 (dot u "Boss") st = (Ok VNull, st) /\
  eval [] 0 (dot (dot u "Boss") "Name") st = (Ok VNull, st) /\
  eval [] 0 (bangdot u "Name") st = (Ok (VStr (str "ann")), st) /\
  eval [] 0 (bangdot (dot u "Boss") "Name") st = (Err, st) /\
  eval [] 0 (dot u "secret") st = (Panic, st) /\
  resolve_entry [] 0 (dot u "secret") st = (Err, st) /\
  eval [] 0 (dot u "name") st = (Panic, st) /\
  eval [] 0 (dot (dot u "Address") "Street") st = (Panic, st) /\
  resolve_entry [] 0 (dot (dot u "Address") "Street") st = (Err, st) /\
  eval [] 0 (STypeof u) st = (Ok (VStr (str "object")), st) /\
  eval [] 0 (SBin u KEqEq u) st = (Unk, st) /\
  state_maps_only st = false.
Proof. vm_compute. repeat split. Qed.
