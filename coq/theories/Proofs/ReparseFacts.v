(* Re-parsing of sub-expressions: the slice of the token stream that an expression node covers,
   closed by an end-of-file token, parses on its own to exactly that node's subtree.

     subexpr                      reflexive-transitive "is a sub-expression node of"
     wf_subexpr                   derivations are hereditary
     yield_subexpr                the tokens of a node are a contiguous slice of the whole
     subtree_reparses             token level (from ParserComplete.parse_complete)
     accepted_clean_tokens        the tokens of an accepted stream carry no scanner diagnostics
     accepted_subtree_reparses    source level (from ParserSound.parse_source_sound)
     ex_subexpr, ex_reparses      "f(a + b * c, [x.y])" and its node  b * c *)
From Coq Require Import List ZArith Lia Bool Arith String.
From Formula Require Import Syn.Ast Syn.Parser Syn.Grammar.
From Formula Require Import Proofs.ParserTotal.
From Formula Require Proofs.ParserSound Proofs.ParserComplete.
From Formula Require Sem.Builtins.
Import ListNotations.
Local Open Scope Z_scope.

(* ====================================================================================== *)
(* 1. Sub-expression nodes                                                                *)
(* ====================================================================================== *)

(* [subexpr y x]: y is x or a sub-expression node of an immediate child of x.  The member
   name of a selection is not an expression node. *)
Inductive subexpr : sexpr -> sexpr -> Prop :=
| sub_refl : forall x, subexpr x x
| sub_prefix : forall y op a, subexpr y a -> subexpr y (SPrefix op a)
| sub_typeof : forall y a, subexpr y a -> subexpr y (STypeof a)
| sub_bin_l : forall y l op r, subexpr y l -> subexpr y (SBin l op r)
| sub_bin_r : forall y l op r, subexpr y r -> subexpr y (SBin l op r)
| sub_cond_c : forall y c t f, subexpr y c -> subexpr y (SCond c t f)
| sub_cond_t : forall y c t f, subexpr y t -> subexpr y (SCond c t f)
| sub_cond_f : forall y c t f, subexpr y f -> subexpr y (SCond c t f)
| sub_arr : forall y es a, In a es -> subexpr y a -> subexpr y (SArr es)
| sub_paren : forall y a, subexpr y a -> subexpr y (SParen a)
| sub_sel : forall y a nk n asrt, subexpr y a -> subexpr y (SSel a nk n asrt)
| sub_sel_missing : forall y a asrt, subexpr y a -> subexpr y (SSelMissing a asrt)
| sub_call_f : forall y f args sp, subexpr y f -> subexpr y (SCall f args sp)
| sub_call_arg : forall y f args sp a, In a args -> subexpr y a -> subexpr y (SCall f args sp).

Lemma subexpr_trans : forall x y z, subexpr z y -> subexpr y x -> subexpr z x.
Proof.
  intros x y z Hzy Hyx. induction Hyx as
    [x|y op a Hs IH|y a Hs IH|y l op r Hs IH|y l op r Hs IH|y c t f Hs IH|y c t f Hs IH
    |y c t f Hs IH|y es a Hin Hs IH|y a Hs IH|y a nk n asrt Hs IH|y a asrt Hs IH
    |y f args sp Hs IH|y f args sp a Hin Hs IH].
  - exact Hzy.
  - apply sub_prefix. exact (IH Hzy).
  - apply sub_typeof. exact (IH Hzy).
  - apply sub_bin_l. exact (IH Hzy).
  - apply sub_bin_r. exact (IH Hzy).
  - apply sub_cond_c. exact (IH Hzy).
  - apply sub_cond_t. exact (IH Hzy).
  - apply sub_cond_f. exact (IH Hzy).
  - apply sub_arr with (a := a); [exact Hin|exact (IH Hzy)].
  - apply sub_paren. exact (IH Hzy).
  - apply sub_sel. exact (IH Hzy).
  - apply sub_sel_missing. exact (IH Hzy).
  - apply sub_call_f. exact (IH Hzy).
  - apply sub_call_arg with (a := a); [exact Hin|exact (IH Hzy)].
Qed.

(* ====================================================================================== *)
(* 2. wf is hereditary                                                                    *)
(* ====================================================================================== *)

(* the nested [fix all] of wf (SArr _) / wf (SCall _ _ _) *)
Lemma wf_arr_in : forall es a, wf (SArr es) -> In a es -> wf a.
Proof.
  induction es as [|b t IH]; intros a Hw Hin; [contradiction Hin|].
  cbn [wf] in Hw. destruct Hw as (Hb & _ & Ht).
  destruct Hin as [E|Hin]; [subst b; exact Hb|].
  apply IH; [exact Ht|exact Hin].
Qed.

Lemma wf_call_in : forall f args sp a, wf (SCall f args sp) -> In a args -> wf a.
Proof.
  intros f args sp a Hw Hin. cbn [wf] in Hw. destruct Hw as (_ & _ & Hall).
  apply wf_arr_in with (es := args); [exact Hall|exact Hin].
Qed.

Lemma wf_subexpr : forall x y, wf x -> subexpr y x -> wf y.
Proof.
  intros x y Hw Hs. revert Hw. induction Hs as
    [x|y op a Hs IH|y a Hs IH|y l op r Hs IH|y l op r Hs IH|y c t f Hs IH|y c t f Hs IH
    |y c t f Hs IH|y es a Hin Hs IH|y a Hs IH|y a nk n asrt Hs IH|y a asrt Hs IH
    |y f args sp Hs IH|y f args sp a Hin Hs IH]; intros Hw.
  - exact Hw.
  - cbn [wf] in Hw. destruct Hw as (_ & Ha & _). exact (IH Ha).
  - cbn [wf] in Hw. destruct Hw as (Ha & _). exact (IH Ha).
  - cbn [wf] in Hw. destruct Hw as (Hl & _ & _). exact (IH Hl).
  - cbn [wf] in Hw. destruct Hw as (_ & Hr & _). exact (IH Hr).
  - cbn [wf] in Hw. destruct Hw as (Hc & _). exact (IH Hc).
  - cbn [wf] in Hw. destruct Hw as (_ & Ht & _). exact (IH Ht).
  - cbn [wf] in Hw. destruct Hw as (_ & _ & Hf & _). exact (IH Hf).
  - apply IH. exact (wf_arr_in es a Hw Hin).
  - cbn [wf] in Hw. exact (IH Hw).
  - cbn [wf] in Hw. destruct Hw as (Ha & _). exact (IH Ha).
  - cbn [wf] in Hw. contradiction Hw.
  - cbn [wf] in Hw. destruct Hw as (Hf & _). exact (IH Hf).
  - apply IH. exact (wf_call_in f args sp a Hw Hin).
Qed.

(* ====================================================================================== *)
(* 3. The yield of a node is a contiguous slice of the yield of the whole                 *)
(* ====================================================================================== *)

(* the nested [fix go] of yield (SArr _) / yield (SCall _ _ _) *)
Definition ylist : list sexpr -> list atok :=
  fix go (l : list sexpr) : list atok :=
    match l with
    | [] => []
    | [a] => yield a
    | a :: t => yield a ++ punct KComma :: go t
    end.

Lemma yield_arr es : yield (SArr es) = punct KOpenBracket :: ylist es ++ [punct KCloseBracket].
Proof. reflexivity. Qed.

Lemma yield_call f args sp :
  yield (SCall f args sp) =
  yield f ++ (KOpenParen, [], true) ::
    ylist args ++ (if sp then [punct KDotDotDot] else []) ++ [punct KCloseParen].
Proof. reflexivity. Qed.

Lemma ylist_cons2 a b t : ylist (a :: b :: t) = yield a ++ punct KComma :: ylist (b :: t).
Proof. reflexivity. Qed.

Lemma ylist_in : forall es a, In a es -> exists p q, ylist es = p ++ yield a ++ q.
Proof.
  induction es as [|b t IH]; intros a Hin; [contradiction Hin|].
  destruct t as [|c t].
  - destruct Hin as [E|Hin]; [|contradiction Hin]. subst b.
    exists [], []. cbn [ylist app]. rewrite app_nil_r. reflexivity.
  - rewrite ylist_cons2. destruct Hin as [E|Hin].
    + subst b. exists [], (punct KComma :: ylist (c :: t)). reflexivity.
    + destruct (IH a Hin) as (p & q & E). rewrite E.
      exists (yield b ++ punct KComma :: p), q.
      rewrite <- app_assoc. reflexivity.
Qed.

Ltac reassoc := cbn [app]; repeat (rewrite <- app_assoc; cbn [app]); reflexivity.

Lemma yield_subexpr : forall x y, subexpr y x -> exists pre post, yield x = pre ++ yield y ++ post.
Proof.
  intros x y Hs. induction Hs as
    [x|y op a Hs IH|y a Hs IH|y l op r Hs IH|y l op r Hs IH|y c t f Hs IH|y c t f Hs IH
    |y c t f Hs IH|y es a Hin Hs IH|y a Hs IH|y a nk n asrt Hs IH|y a asrt Hs IH
    |y f args sp Hs IH|y f args sp a Hin Hs IH].
  - exists [], []. rewrite app_nil_r. reflexivity.
  - destruct IH as (p & q & E). exists (punct op :: p), q. cbn [yield]. rewrite E. reassoc.
  - destruct IH as (p & q & E). exists ((KTypeof, kw_typeof, false) :: p), q.
    cbn [yield]. rewrite E. reassoc.
  - destruct IH as (p & q & E). exists p, (q ++ punct op :: yield r).
    cbn [yield]. rewrite E. reassoc.
  - destruct IH as (p & q & E). exists (yield l ++ punct op :: p), q.
    cbn [yield]. rewrite E. reassoc.
  - destruct IH as (p & q & E).
    exists p, (q ++ punct KQuestion :: yield t ++ punct KColon :: yield f).
    cbn [yield]. rewrite E. reassoc.
  - destruct IH as (p & q & E).
    exists (yield c ++ punct KQuestion :: p), (q ++ punct KColon :: yield f).
    cbn [yield]. rewrite E. reassoc.
  - destruct IH as (p & q & E).
    exists (yield c ++ punct KQuestion :: yield t ++ punct KColon :: p), q.
    cbn [yield]. rewrite E. reassoc.
  - destruct IH as (p & q & E). destruct (ylist_in es a Hin) as (p1 & q1 & E1).
    exists (punct KOpenBracket :: p1 ++ p), (q ++ q1 ++ [punct KCloseBracket]).
    rewrite yield_arr, E1, E. reassoc.
  - destruct IH as (p & q & E). exists (punct KOpenParen :: p), (q ++ [punct KCloseParen]).
    cbn [yield]. rewrite E. reassoc.
  - destruct IH as (p & q & E).
    exists p, (q ++ [((if asrt then KBangDot else KDot), [], true); (nk, n, false)]).
    cbn [yield]. rewrite E. reassoc.
  - destruct IH as (p & q & E).
    exists p, (q ++ [((if asrt then KBangDot else KDot), [], true)]).
    cbn [yield]. rewrite E. reassoc.
  - destruct IH as (p & q & E).
    exists p, (q ++ (KOpenParen, [], true) ::
                 ylist args ++ (if sp then [punct KDotDotDot] else []) ++ [punct KCloseParen]).
    rewrite yield_call, E. reassoc.
  - destruct IH as (p & q & E). destruct (ylist_in args a Hin) as (p1 & q1 & E1).
    exists (yield f ++ (KOpenParen, [], true) :: p1 ++ p),
           (q ++ q1 ++ (if sp then [punct KDotDotDot] else []) ++ [punct KCloseParen]).
    rewrite yield_call, E1, E. reassoc.
Qed.

(* ====================================================================================== *)
(* 4. Token level: the slice a node covers parses on its own to that node                 *)
(* ====================================================================================== *)

Theorem subtree_reparses : forall x toks,
  wf x -> derives x toks -> Forall (fun t => tdiags t = []) toks ->
  forall y, subexpr y x ->
  exists pre mid post,
    toks = pre ++ mid ++ post /\
    Forall2 tok_matches (yield y) mid /\
    forall eof, tok_matches (punct KEOF) eof -> tdiags eof = [] ->
      exists e, parse_tokens (parse_fuel (length (mid ++ [eof]))) (mid ++ [eof]) = Accepted e /\
                strip e = y.
Proof.
  intros x toks Hw Hd Hclean y Hs.
  destruct (yield_subexpr x y Hs) as (p & q & E).
  unfold derives in Hd. rewrite E in Hd. rewrite <- !app_assoc in Hd.
  apply Forall2_app_inv_l in Hd. destruct Hd as (pre & rest1 & Hpre & Hrest & Etoks).
  apply Forall2_app_inv_l in Hrest. destruct Hrest as (mid & post & Hmid & Hpost & Erest).
  subst rest1. exists pre, mid, post.
  split; [exact Etoks|]. split; [exact Hmid|].
  intros eof Heof Hde.
  apply ParserComplete.parse_complete.
  - exact (wf_subexpr x y Hw Hs).
  - unfold derives. apply Forall2_app; [exact Hmid|].
    constructor; [exact Heof|constructor].
  - subst toks. apply Forall_app in Hclean. destruct Hclean as (_ & Hc).
    apply Forall_app in Hc. destruct Hc as (Hc & _).
    apply Forall_app. split; [exact Hc|]. constructor; [exact Hde|constructor].
Qed.

(* ====================================================================================== *)
(* 5. The tokens of an accepted stream carry no scanner diagnostics                       *)
(* ====================================================================================== *)

(* The parser reports the scanner diagnostics of a token when it advances onto it, and a
   non-empty diagnostic list never becomes empty again.  State invariant relative to the whole
   stream [T]: if no diagnostic has been reported so far, then [T] is a clean prefix followed by
   what is left, and the current token is clean too. *)
Definition cinv (T : list token) (s : pst) : Prop :=
  diags s = [] ->
  exists pre, T = pre ++ toks_of s /\ Forall (fun t => tdiags t = []) (pre ++ [cur s]).

Lemma add_diags_nil_new new : add_diags [] new = [] -> new = [].
Proof.
  destruct new as [|d new]; intros H; [reflexivity|].
  unfold add_diags in H. cbn [fold_left add_diag] in H.
  apply (ParserSound.add_diags_nil new [d]) in H. discriminate H.
Qed.

Lemma advance_diags_nil s : diags (advance s) = [] -> diags s = [].
Proof.
  unfold advance. destruct (rest s) as [|t r]; intros H; [exact H|].
  cbn [diags] in H. exact (ParserSound.add_diags_nil _ _ H).
Qed.

Lemma cinv_advance T s : cinv T s -> cinv T (advance s).
Proof.
  intros Hi Hd. pose proof (advance_diags_nil s Hd) as Hds.
  revert Hd. unfold advance. destruct (rest s) as [|t r] eqn:Er; intros Hd; [exact (Hi Hd)|].
  cbn [diags] in Hd. rewrite Hds in Hd. apply add_diags_nil_new in Hd.
  destruct (Hi Hds) as (pre & ET & F).
  exists (pre ++ [cur s]). unfold toks_of. cbn [cur rest]. split.
  - rewrite ET. unfold toks_of. rewrite Er, <- app_assoc. reflexivity.
  - apply Forall_app. split; [exact F|]. constructor; [exact Hd|constructor].
Qed.

Lemma cinv_eac T s c : cinv T s -> cinv T (error_at_current s c).
Proof.
  intros _ Hd. unfold error_at_current in Hd. cbn [diags] in Hd.
  exfalso. exact (ParserSound.add_diag_nonempty _ _ Hd).
Qed.

Lemma cinv_ea T s c : cinv T s -> cinv T (error_at s (node_pos s) 0 c).
Proof.
  intros _ Hd. unfold error_at in Hd. cbn [diags] in Hd.
  exfalso. exact (ParserSound.add_diag_nonempty _ _ Hd).
Qed.

Lemma cinv_want T s k : cinv T s -> cinv T (want s k).
Proof. intros H. unfold want. destruct (at_kind s k); [apply cinv_advance|apply cinv_eac]; exact H. Qed.

Ltac csolve :=
  first [ assumption
        | apply cinv_advance; csolve
        | apply cinv_eac; csolve
        | apply cinv_want; csolve
        | apply cinv_ea; csolve ].

Lemma cinv_identifier T s c e s1 : cinv T s -> parse_identifier s c = (e, s1) -> cinv T s1.
Proof.
  intros Hi H. unfold parse_identifier in H. cbv zeta in H.
  destruct (is_identifier_kind (tk (cur s))); injection H as _ <-; csolve.
Qed.

Lemma cinv_right_side_of_dot T s e s1 :
  cinv T s -> parse_right_side_of_dot s = (e, s1) -> cinv T s1.
Proof.
  intros Hi H. unfold parse_right_side_of_dot in H. cbv zeta in H.
  match type of H with (if ?b then _ else _) = _ => destruct b end.
  - injection H as _ <-. csolve.
  - eapply cinv_identifier; [exact Hi|exact H].
Qed.

Lemma cinv_member T : forall f e0 s e s1,
  cinv T s -> member_rest f e0 s = Some (e, s1) -> cinv T s1.
Proof.
  induction f as [|f IH]; intros e0 s e s1 Hi H; [discriminate H|].
  rewrite member_rest_S in H.
  destruct (tnl (cur s)); [injection H as _ <-; exact Hi|].
  destruct (at_kind s KDot || at_kind s KBangDot); [|injection H as _ <-; exact Hi].
  cbv zeta in H.
  destruct (parse_right_side_of_dot (advance s)) as [nm s2] eqn:Hr.
  apply cinv_right_side_of_dot with (T := T) in Hr; [|csolve].
  eapply IH; [exact Hr|exact H].
Qed.

Definition CI (T : list token) (f : nat) : Prop :=
  (forall s e s1, cinv T s -> parse_expression f s = Some (e, s1) -> cinv T s1) /\
  (forall l s e s1, cinv T s -> comma_loop f l s = Some (e, s1) -> cinv T s1) /\
  (forall s e s1, cinv T s -> parse_assign f s = Some (e, s1) -> cinv T s1) /\
  (forall p s e s1, cinv T s -> parse_binary f p s = Some (e, s1) -> cinv T s1) /\
  (forall p l s e s1, cinv T s -> parse_binary_rest f p l s = Some (e, s1) -> cinv T s1) /\
  (forall s e s1, cinv T s -> parse_unary f s = Some (e, s1) -> cinv T s1) /\
  (forall e0 s e s1, cinv T s -> call_rest f e0 s = Some (e, s1) -> cinv T s1) /\
  (forall s e s1, cinv T s -> parse_primary f s = Some (e, s1) -> cinv T s1) /\
  (forall c tr s es s1, cinv T s -> delimited_list f c tr s = Some (es, s1) -> cinv T s1).

Lemma ci T : forall f, CI T f.
Proof.
  induction f as [|f (IHexp & IHcom & IHasg & IHbin & IHbrs & IHun & IHcall & IHprim & IHlist)].
  { unfold CI. repeat (split; [intros; discriminate|]). intros; discriminate. }
  unfold CI.
  refine (conj _ (conj _ (conj _ (conj _ (conj _ (conj _ (conj _ (conj _ _)))))))).
  - (* parse_expression *)
    intros s e s' Hi H. rewrite parse_expression_S in H.
    step H e1 s1 H1. apply IHasg in H1; [|csolve]. apply IHcom in H; csolve.
  - (* comma_loop *)
    intros l s e s' Hi H. rewrite comma_loop_S in H.
    destruct (at_kind s KComma); [|injection H as _ <-; csolve].
    cbv zeta in H. step H r s2 H2. apply IHasg in H2; [|csolve]. apply IHcom in H; csolve.
  - (* parse_assign *)
    intros s e s' Hi H. rewrite parse_assign_S in H.
    step H e1 s1 H1. apply IHbin in H1; [|csolve].
    destruct (is_assignment_op (tk (cur s1))).
    { cbv zeta in H. step H r s3 H3. apply IHasg in H3; [|csolve].
      injection H as _ <-. csolve. }
    destruct (at_kind s1 KQuestion); [|injection H as _ <-; csolve].
    cbv zeta in H. step H wt s3 H3. apply IHasg in H3; [|csolve].
    destruct (at_kind s3 KColon); cbv beta iota zeta in H;
      step H wfl s5 H5; (apply IHasg in H5; [|csolve]); injection H as _ <-; csolve.
  - (* parse_binary *)
    intros p s e s' Hi H. rewrite parse_binary_S in H.
    step H l s1 H1. apply IHun in H1; [|csolve]. apply IHbrs in H; csolve.
  - (* parse_binary_rest *)
    intros p l s e s' Hi H. rewrite parse_binary_rest_S in H. cbv zeta in H.
    destruct (p <? prec_of (tk (cur s))).
    + step H r s2 H2. apply IHbin in H2; [|csolve]. apply IHbrs in H; csolve.
    + injection H as _ <-. csolve.
  - (* parse_unary *)
    intros s e s' Hi H. rewrite parse_unary_S in H. cbv zeta in H.
    destruct (is_prefix_op (tk (cur s))).
    { step H x s2 H2. apply IHun in H2; [|csolve]. injection H as _ <-. csolve. }
    destruct (kind_eqb (tk (cur s)) KTypeof).
    { step H x s2 H2. apply IHun in H2; [|csolve]. injection H as _ <-. csolve. }
    step H e1 s1 H1. step H e2 s2 H2.
    apply IHprim in H1; [|csolve]. apply cinv_member with (T := T) in H2; [|csolve].
    apply IHcall in H; csolve.
  - (* call_rest *)
    intros e0 s e s' Hi H. rewrite call_rest_S in H.
    destruct (tnl (cur s)); [injection H as _ <-; csolve|].
    step H e1 s1 H1. apply cinv_member with (T := T) in H1; [|csolve].
    destruct (at_kind s1 KOpenParen && negb (tnl (cur s1))); [|injection H as _ <-; csolve].
    cbv zeta in H. step H args s3 H3. apply IHlist in H3; [|csolve].
    destruct (at_kind s3 KDotDotDot); cbv beta iota zeta in H; apply IHcall in H; csolve.
  - (* parse_primary *)
    intros s e s' Hi H. rewrite parse_primary_S in H. cbv zeta in H.
    destruct (is_literal_start (tk (cur s))).
    { injection H as _ <-. csolve. }
    destruct (kind_eqb (tk (cur s)) KOpenParen).
    { step H x s2 H2. apply IHexp in H2; [|csolve]. injection H as _ <-. csolve. }
    destruct (kind_eqb (tk (cur s)) KOpenBracket).
    { step H es s2 H2. apply IHlist in H2; [|csolve]. injection H as _ <-. csolve. }
    injection H as H. eapply cinv_identifier; [exact Hi|exact H].
  - (* delimited_list *)
    intros c tr s es s' Hi H. rewrite delimited_list_S in H.
    destruct (is_list_element c (tk (cur s))).
    { step H e1 s1 H1. apply IHasg in H1; [|csolve].
      destruct (at_kind s1 KComma).
      { step H es2 s2 H2. apply IHlist in H2; [|csolve]. injection H as _ <-. csolve. }
      destruct (is_list_terminator c (tk (cur s1))); [injection H as _ <-; csolve|].
      step H es2 s2 H2. apply IHlist in H2; [|csolve]. injection H as _ <-. csolve. }
    destruct (is_list_terminator c (tk (cur s))).
    { injection H as _ <-. destruct tr; csolve. }
    apply IHlist in H; csolve.
Qed.

(* in a stream whose end-of-file token is last and only last, nothing follows an EOF token *)
Lemma eof_is_last : forall pre c r, stream_ok (pre ++ c :: r) -> tk c = KEOF -> r = [].
Proof.
  induction pre as [|a pre IH]; intros c r Hs Hk.
  - exact (ParserSound.stream_ok_eof c r Hs Hk).
  - apply IH with (c := c); [|exact Hk].
    destruct pre as [|b pre]; cbn [app] in Hs |- *;
      exact (ParserSound.stream_ok_tail _ _ _ Hs).
Qed.

Theorem accepted_clean_tokens : forall fuel toks e,
  stream_ok toks -> parse_tokens fuel toks = Accepted e -> Forall (fun t => tdiags t = []) toks.
Proof.
  intros fuel toks e Hso H. unfold parse_tokens in H.
  destruct toks as [|t0 r]; [discriminate H|]. cbv zeta in H.
  destruct (parse_expression fuel (mkSt t0 r (add_diags [] (tdiags t0)))) as [[e1 s1]|] eqn:Hp;
    [|discriminate H].
  assert (Hi0 : cinv (t0 :: r) (mkSt t0 r (add_diags [] (tdiags t0)))).
  { intros Hd. cbn [diags] in Hd. apply add_diags_nil_new in Hd.
    exists []. split; [reflexivity|]. cbn [app cur]. constructor; [exact Hd|constructor]. }
  destruct (ci (t0 :: r) fuel) as (IHexp & _).
  pose proof (IHexp _ _ _ Hi0 Hp) as Hi1.
  destruct (at_kind s1 KEOF) eqn:HK.
  - destruct (rev (diags (advance s1))) as [|d ds] eqn:Hr; [|discriminate H].
    assert (Hd : diags (advance s1) = []).
    { rewrite <- (rev_involutive (diags (advance s1))), Hr. reflexivity. }
    apply advance_diags_nil in Hd.
    destruct (Hi1 Hd) as (pre & ET & F).
    unfold toks_of in ET. unfold at_kind in HK. apply ParserSound.kind_eqb_eq in HK.
    rewrite ET in Hso. pose proof (eof_is_last _ _ _ Hso HK) as Er.
    rewrite ET, Er. exact F.
  - destruct (rev (diags (advance (error_at_current s1 C_0_expected)))) as [|d ds] eqn:Hr;
      [|discriminate H].
    assert (Hd : diags (advance (error_at_current s1 C_0_expected)) = []).
    { rewrite <- (rev_involutive (diags (advance (error_at_current s1 C_0_expected)))), Hr.
      reflexivity. }
    apply advance_diags_nil in Hd. unfold error_at_current in Hd. cbn [diags] in Hd.
    exfalso. exact (ParserSound.add_diag_nonempty _ _ Hd).
Qed.

Theorem source_accepted_clean_tokens : forall text toks e,
  scan_all text = Some toks -> parse_source text = Accepted e ->
  Forall (fun t => tdiags t = []) toks.
Proof.
  intros text toks e Hs H. unfold parse_source in H. rewrite Hs in H.
  exact (accepted_clean_tokens _ toks e (ParserSound.scan_all_stream_ok _ _ Hs) H).
Qed.

(* ====================================================================================== *)
(* 6. Source level                                                                        *)
(* ====================================================================================== *)

Theorem accepted_subtree_reparses : forall text e,
  parse_source text = Accepted e ->
  forall y, subexpr y (strip e) ->
  exists toks pre mid post,
    scan_all text = Some toks /\
    toks = pre ++ mid ++ post /\
    Forall2 tok_matches (yield y) mid /\
    (forall eof, tok_matches (punct KEOF) eof -> tdiags eof = [] ->
       exists e', parse_tokens (parse_fuel (length (mid ++ [eof]))) (mid ++ [eof]) = Accepted e' /\
                  strip e' = y).
Proof.
  intros text e H y Hs.
  destruct (ParserSound.parse_source_sound text e H) as (toks & Hscan & Hw & Hd).
  pose proof (source_accepted_clean_tokens text toks e Hscan H) as Hc.
  destruct (subtree_reparses (strip e) toks Hw Hd Hc y Hs) as (pre & mid & post & E & Hm & Hre).
  exists toks, pre, mid, post.
  split; [exact Hscan|]. split; [exact E|]. split; [exact Hm|exact Hre].
Qed.

(* ====================================================================================== *)
(* 7. Example: f(a + b * c, [x.y]) and its node b * c                                     *)
(* ====================================================================================== *)

Definition ex_text : list Z := Builtins.str "f(a + b * c, [x.y])".

Definition ex_sub : sexpr :=
  SBin (SIdent KIdent (Builtins.str "b")) KAsterisk (SIdent KIdent (Builtins.str "c")).

Definition ex_tree : sexpr :=
  SCall (SIdent KIdent (Builtins.str "f"))
        [SBin (SIdent KIdent (Builtins.str "a")) KPlus ex_sub;
         SArr [SSel (SIdent KIdent (Builtins.str "x")) KIdent (Builtins.str "y") false]]
        false.

Example ex_parses : exists e, parse_source ex_text = Accepted e /\ strip e = ex_tree.
Proof. eexists. split; vm_compute; reflexivity. Qed.

Example ex_subexpr : subexpr ex_sub ex_tree.
Proof.
  unfold ex_tree. eapply sub_call_arg; [left; reflexivity|].
  apply sub_bin_r. apply sub_refl.
Qed.

(* the deeper node  x  inside  [x.y] *)
Example ex_subexpr_x : subexpr (SIdent KIdent (Builtins.str "x")) ex_tree.
Proof.
  unfold ex_tree. eapply sub_call_arg; [right; left; reflexivity|].
  eapply sub_arr; [left; reflexivity|]. apply sub_sel. apply sub_refl.
Qed.

(* the theorem applied: the three tokens  b * c  of the scanned text, closed by an end-of-file
   token, parse to the node  b * c *)
Example ex_reparses :
  exists toks pre mid post,
    scan_all ex_text = Some toks /\ toks = pre ++ mid ++ post /\
    Forall2 tok_matches (yield ex_sub) mid /\
    (forall eof, tok_matches (punct KEOF) eof -> tdiags eof = [] ->
       exists e', parse_tokens (parse_fuel (length (mid ++ [eof]))) (mid ++ [eof]) = Accepted e' /\
                  strip e' = ex_sub).
Proof.
  destruct ex_parses as (e & H & E).
  apply (accepted_subtree_reparses ex_text e H ex_sub).
  rewrite E. exact ex_subexpr.
Qed.

Print Assumptions subtree_reparses.
Print Assumptions accepted_clean_tokens.
Print Assumptions accepted_subtree_reparses.
Print Assumptions ex_reparses.
