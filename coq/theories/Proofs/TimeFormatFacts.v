(* Facts about the model of time.Time.Format in Sem/TimeFormat.v (the builtin timeFormat, lemma
   ba_timeFormat in BuiltinDateFacts.v):
   - the layout chunker always consumes input (try_std_shrinks, next_chunk_shrinks, next_chunk_suffix), so the
     fuel of format_fuel never runs out (format_fuel_enough) and time_format obeys the unfolding equations
     time_format_nil / time_format_step;
   - the only layout element without a modelled rendering is the zone abbreviation "MST" (time_format_total,
     time_format_mst_unmodelled);
   - text without any of the bytes J M 0 1 2 _ 3 4 5 P p - Z . , is copied unchanged (time_format_plain);
   - zero-padded numbers (append_int_2, append_int_4, append_int_0_small);
   - the layouts 2006-01-02, 15:04:05 and RFC 3339 (UTC) for every time, and end to end with time.Date
     (format_date_of_valid_date);
   - 30 outputs of Go's Time.Format reproduced by computation. *)
From Coq Require Import String Ascii.
From Formula Require Import Sem.Eval Sem.TimeFormat Proofs.BuiltinDateFacts.
Local Open Scope Z_scope.

Arguments str s%string.

(* ---------- 1. the chunker consumes input ---------- *)

Lemma run_of_suffix : forall ch l n r, run_of ch l = (n, r) -> exists q, l = q ++ r.
Proof.
  intros ch l. induction l as [|b t IH]; intros n r H.
  - cbn [run_of] in H. injection H as _ Hr. subst r. exists []. reflexivity.
  - cbn [run_of] in H. destruct (b =? ch).
    + destruct (run_of ch t) as [n' r'] eqn:E. injection H as _ Hr. subst r.
      destruct (IH n' r' eq_refl) as [q Hq]. exists (b :: q). rewrite Hq at 1. reflexivity.
    + injection H as _ Hr. subst r. exists []. reflexivity.
Qed.

(* case analysis on the decision tree of try_std *)
Ltac tsplit H :=
  repeat (match type of H with
          | (if ?b then _ else _) = _ => let E := fresh "E" in destruct b eqn:E
          | match ?x with _ => _ end = _ => let E := fresh "E" in destruct x eqn:E
          | @None _ = Some _ => discriminate H
          end).

Lemma some3_inj : forall (A B C : Type) (a a' : A) (b b' : B) (c c' : C),
  Some (a, b, c) = Some (a', b', c') -> a = a' /\ b = b' /\ c = c'.
Proof. intros A B C a a' b b' c c' H. injection H as H1 H2 H3. repeat split; assumption. Qed.

(* an element found by try_std ends after at least one byte; the zone abbreviation is found only at "MST" *)
Lemma try_std_spec : forall l p s r, try_std l = Some (p, s, r) ->
  (exists q, l = q ++ r /\ (0 < length q)%nat) /\ (s = STZ -> pre "MST" l = true).
Proof.
  intros l p s r H. destruct l as [|c t]; [discriminate H|].
  unfold try_std in H. tsplit H.
  all: apply some3_inj in H; destruct H as [Hp [Hs Hr]]; subst p s r; split.
  all: try (intros Htz; discriminate Htz).
  all: try (intros _; reflexivity).
  all: try (match goal with
            | |- exists q, _ = q ++ drop ?n ?l /\ _ =>
              exists (firstn n l); split; [symmetry; apply firstn_skipn|cbn [firstn length]; lia]
            end).
  all: try (exists [c]; split; [reflexivity|cbn [length]; lia]).
  all: try (match goal with
            | |- exists q, ?c :: ?d :: ?r = q ++ ?r /\ _ =>
              exists [c; d]; split; [reflexivity|cbn [length]; lia]
            end).
  all: match goal with
       | Hrun : run_of _ _ = (_, ?r) |- _ =>
         destruct (run_of_suffix _ _ _ _ Hrun) as [q Hq]; exists (c :: q); split;
         [rewrite Hq at 1; reflexivity|cbn [length]; lia]
       end.
Qed.

Lemma try_std_suffix : forall l p s r, try_std l = Some (p, s, r) ->
  exists q, l = q ++ r /\ (0 < length q)%nat.
Proof. intros l p s r H. exact (proj1 (try_std_spec l p s r H)). Qed.

Lemma try_std_shrinks : forall l p s r, try_std l = Some (p, s, r) -> (length r < length l)%nat.
Proof.
  intros l p s r H. destruct (try_std_suffix l p s r H) as [q [Hq Hlen]].
  rewrite Hq, app_length. lia.
Qed.

(* the rest after a chunk is a suffix of the layout (s = None: the rest is empty) *)
Lemma next_chunk_suffix : forall l p s r, next_chunk l = (p, s, r) -> exists q, l = q ++ r.
Proof.
  intros l. induction l as [|c t IH]; intros p s r H.
  - cbn [next_chunk] in H. injection H as _ _ Hr. subst r. exists []. reflexivity.
  - cbn [next_chunk] in H. destruct (try_std (c :: t)) as [[[p0 s0] r0]|] eqn:E.
    + injection H as _ _ Hr. subst r0.
      destruct (try_std_suffix _ _ _ _ E) as [q [Hq _]]. exists q. exact Hq.
    + destruct (next_chunk t) as [[p1 s1] r1] eqn:E1. injection H as _ _ Hr. subst r1.
      destruct (IH _ _ _ eq_refl) as [q Hq]. exists (c :: q). rewrite Hq at 1. reflexivity.
Qed.

Lemma next_chunk_shrinks : forall l p s r, next_chunk l = (p, Some s, r) -> (length r < length l)%nat.
Proof.
  intros l. induction l as [|c t IH]; intros p s r H.
  - cbn [next_chunk] in H. discriminate H.
  - cbn [next_chunk] in H. destruct (try_std (c :: t)) as [[[p0 s0] r0]|] eqn:E.
    + injection H as _ _ Hr. subst r0. exact (try_std_shrinks _ _ _ _ E).
    + destruct (next_chunk t) as [[p1 s1] r1] eqn:E1. injection H as _ Hs Hr. subst r1 s1.
      pose proof (IH _ _ _ eq_refl) as Hlt. cbn [length]. lia.
Qed.

(* ---------- 2. the fuel never runs out ---------- *)

Lemma format_fuel_irrelevant : forall t f1 f2 l, (length l < f1)%nat -> (length l < f2)%nat ->
  format_fuel f1 t l = format_fuel f2 t l.
Proof.
  intros t f1. induction f1 as [|f IH]; intros f2 l H1 H2; [lia|].
  destruct f2 as [|f']; [lia|]. cbn [format_fuel].
  destruct l as [|c l']; [reflexivity|].
  destruct (next_chunk (c :: l')) as [[p s] r] eqn:E.
  destruct s as [e|]; [|reflexivity].
  pose proof (next_chunk_shrinks _ _ _ _ E) as Hlt.
  rewrite (IH f' r) by lia. reflexivity.
Qed.

Theorem format_fuel_enough : forall t f l, (length l < f)%nat -> format_fuel f t l = time_format t l.
Proof.
  intros t f l H. unfold time_format. apply format_fuel_irrelevant; lia.
Qed.

(* the unfolding equations of time_format, free of fuel *)
Lemma time_format_nil : forall t, time_format t [] = Some [].
Proof. reflexivity. Qed.

Lemma time_format_step : forall t l, l <> [] ->
  time_format t l =
  let '(p, s, r) := next_chunk l in
  match s with
  | None => Some p
  | Some e =>
    match render e t, time_format t r with
    | Some x, Some y => Some (p ++ x ++ y)
    | _, _ => None
    end
  end.
Proof.
  intros t l Hne. unfold time_format at 1. cbn [format_fuel].
  destruct l as [|c l']; [congruence|].
  destruct (next_chunk (c :: l')) as [[p s] r] eqn:E.
  destruct s as [e|]; [|reflexivity].
  pose proof (next_chunk_shrinks _ _ _ _ E) as Hlt.
  rewrite (format_fuel_enough t (length (c :: l')) r Hlt). reflexivity.
Qed.

Lemma time_format_chunk : forall t l p e r x y, next_chunk l = (p, Some e, r) ->
  render e t = Some x -> time_format t r = Some y -> time_format t l = Some (p ++ x ++ y).
Proof.
  intros t l p e r x y Hc Hx Hy. rewrite time_format_step.
  - rewrite Hc, Hx, Hy. reflexivity.
  - intros ->. discriminate Hc.
Qed.

Lemma time_format_chunk_last : forall t l p e x, next_chunk l = (p, Some e, []) ->
  render e t = Some x -> time_format t l = Some (p ++ x).
Proof.
  intros t l p e x Hc Hx. rewrite (time_format_chunk t l p e [] x [] Hc Hx (time_format_nil t)).
  rewrite app_nil_r. reflexivity.
Qed.

Lemma time_format_literal : forall t l p r, l <> [] -> next_chunk l = (p, None, r) ->
  time_format t l = Some p.
Proof.
  intros t l p r Hne Hc. rewrite time_format_step by exact Hne. rewrite Hc. reflexivity.
Qed.

(* ---------- 3. everything but the zone abbreviation is rendered ---------- *)

Lemma render_none : forall e t, render e t = None -> e = STZ.
Proof. intros e t H. destruct e; try discriminate H. reflexivity. Qed.

Lemma try_std_tz : forall l p r, try_std l = Some (p, STZ, r) -> pre "MST" l = true.
Proof. intros l p r H. exact (proj2 (try_std_spec l p STZ r H) eq_refl). Qed.

Lemma next_chunk_tz : forall l p r, next_chunk l = (p, Some STZ, r) ->
  exists i, pre "MST" (skipn i l) = true.
Proof.
  intros l. induction l as [|c t IH]; intros p r H.
  - cbn [next_chunk] in H. discriminate H.
  - cbn [next_chunk] in H. destruct (try_std (c :: t)) as [[[p0 s0] r0]|] eqn:E.
    + injection H as _ Hs _. subst s0. exists O. cbn [skipn]. exact (try_std_tz _ _ _ E).
    + destruct (next_chunk t) as [[p1 s1] r1] eqn:E1. injection H as _ Hs _. subst s1.
      destruct (IH _ _ eq_refl) as [i Hi]. exists (S i). cbn [skipn]. exact Hi.
Qed.

Theorem time_format_total : forall t l, (forall i, pre "MST" (skipn i l) = false) ->
  exists s, time_format t l = Some s.
Proof.
  intros t l. remember (S (length l)) as n eqn:Hn.
  assert (Hlen : (length l < n)%nat) by lia. clear Hn. revert l Hlen.
  induction n as [|n IH]; intros l Hlen Hno; [lia|].
  destruct l as [|c l'].
  - exists []. reflexivity.
  - rewrite time_format_step by discriminate.
    destruct (next_chunk (c :: l')) as [[p s] r] eqn:E.
    destruct s as [e|]; [|exists p; reflexivity].
    pose proof (next_chunk_shrinks _ _ _ _ E) as Hlt.
    destruct (next_chunk_suffix _ _ _ _ E) as [q Hq].
    destruct (IH r) as [y Hy].
    + lia.
    + intros i. specialize (Hno (length q + i)%nat). rewrite Hq in Hno.
      rewrite skipn_app in Hno.
      rewrite skipn_all2 in Hno by lia.
      replace (length q + i - length q)%nat with i in Hno by lia. exact Hno.
    + destruct (render e t) as [x|] eqn:Ex.
      * rewrite Hy. eexists. reflexivity.
      * apply render_none in Ex. subst e.
        destruct (next_chunk_tz _ _ _ E) as [i Hi]. rewrite Hno in Hi. discriminate Hi.
Qed.

(* ---------- 4. text without layout characters is copied ---------- *)

(* J M 0 1 2 _ 3 4 5 P p - Z . , *)
Definition trigger (b : Z) : bool :=
  (b =? 74) || (b =? 77) || (b =? 48) || (b =? 49) || (b =? 50) || (b =? 95) || (b =? 51) || (b =? 52) ||
  (b =? 53) || (b =? 80) || (b =? 112) || (b =? 45) || (b =? 90) || (b =? 46) || (b =? 44).

Lemma try_std_no_trigger : forall c t, trigger c = false -> try_std (c :: t) = None.
Proof.
  intros c t H. unfold trigger in H.
  repeat (apply orb_false_iff in H; let H' := fresh "H" in destruct H as [H H']).
  unfold try_std.
  repeat match goal with Hx : (c =? _) = false |- _ => rewrite Hx; clear Hx end.
  reflexivity.
Qed.

Lemma next_chunk_plain : forall l, forallb (fun b => negb (trigger b)) l = true ->
  next_chunk l = (l, None, []).
Proof.
  intros l. induction l as [|c t IH]; intros H; [reflexivity|].
  cbn [forallb] in H. apply andb_true_iff in H as [Hc Ht].
  apply negb_true_iff in Hc.
  cbn [next_chunk]. rewrite (try_std_no_trigger c t Hc), (IH Ht). reflexivity.
Qed.

Theorem time_format_plain : forall t l, forallb (fun b => negb (trigger b)) l = true ->
  time_format t l = Some l.
Proof.
  intros t l H. destruct l as [|c l']; [reflexivity|].
  apply (time_format_literal t (c :: l') (c :: l') []); [discriminate|].
  apply next_chunk_plain. exact H.
Qed.

(* ---------- 5. zero-padded numbers ---------- *)

Fixpoint zs_eqb (a b : list Z) : bool :=
  match a, b with
  | [], [] => true
  | x :: a', y :: b' => (x =? y) && zs_eqb a' b'
  | _, _ => false
  end.

Lemma zs_eqb_eq : forall a b, zs_eqb a b = true -> a = b.
Proof.
  intros a. induction a as [|x a' IH]; intros b H; destruct b as [|y b']; try discriminate H.
  - reflexivity.
  - cbn [zs_eqb] in H. apply andb_true_iff in H as [Hx Ht].
    apply Z.eqb_eq in Hx. subst y. rewrite (IH b' Ht). reflexivity.
Qed.

Lemma append_int_2 : forall x, 0 <= x < 100 -> append_int x 2 = [48 + x / 10; 48 + x mod 10].
Proof.
  intros x Hx.
  assert (Hchk : all_from 100 0 (fun x => zs_eqb (append_int x 2) [48 + x / 10; 48 + x mod 10]) = true)
    by (vm_compute; reflexivity).
  pose proof (all_from_spec _ _ _ Hchk x ltac:(lia)) as H. cbv beta in H.
  exact (zs_eqb_eq _ _ H).
Qed.

Lemma append_int_4 : forall x, 0 <= x <= 9999 ->
  append_int x 4 = [48 + x / 1000; 48 + (x / 100) mod 10; 48 + (x / 10) mod 10; 48 + x mod 10].
Proof.
  intros x Hx.
  assert (Hchk : all_from (100 * 100) 0 (fun x => zs_eqb (append_int x 4)
            [48 + x / 1000; 48 + (x / 100) mod 10; 48 + (x / 10) mod 10; 48 + x mod 10]) = true)
    by (vm_compute; reflexivity).
  pose proof (all_from_spec _ _ _ Hchk x ltac:(lia)) as H. cbv beta in H.
  exact (zs_eqb_eq _ _ H).
Qed.

Lemma append_int_0_small : forall x, 0 <= x < 10 -> append_int x 0 = [48 + x].
Proof.
  intros x Hx.
  assert (Hchk : all_from 10 0 (fun x => zs_eqb (append_int x 0) [48 + x]) = true)
    by (vm_compute; reflexivity).
  pose proof (all_from_spec _ _ _ Hchk x ltac:(lia)) as H. cbv beta in H.
  exact (zs_eqb_eq _ _ H).
Qed.

(* ---------- 6. three layouts, for every time ---------- *)

(* one element of the layout: the chunk is computed (the layout is closed), the rendering is read off render *)
Ltac chunk :=
  eapply time_format_chunk; [cbv; reflexivity|cbn [render]; reflexivity|].
Ltac chunk_last :=
  eapply time_format_chunk_last; [cbv; reflexivity|cbn [render]; reflexivity].

Theorem format_iso_date : forall t, time_format t (str "2006-01-02") =
  Some (append_int (t_year t) 4 ++ [45] ++ append_int (t_month t) 2 ++ [45] ++ append_int (t_day t) 2).
Proof.
  intros t. etransitivity.
  - chunk. chunk. chunk_last.
  - cbn [app]. reflexivity.
Qed.

Theorem format_clock : forall t, time_format t (str "15:04:05") =
  Some (append_int (t_hour t) 2 ++ [58] ++ append_int (t_minute t) 2 ++ [58] ++ append_int (t_second t) 2).
Proof.
  intros t. etransitivity.
  - chunk. chunk. chunk_last.
  - cbn [app]. reflexivity.
Qed.

Lemma render_tz_utc : forall colon short secs t, t_off t = 0 ->
  render (SNumTZ true colon short secs) t = Some [90].
Proof. intros colon short secs t H. cbn [render]. unfold render_tz. rewrite H. reflexivity. Qed.

Theorem format_rfc3339_utc : forall t, t_off t = 0 ->
  time_format t (str "2006-01-02T15:04:05Z07:00") =
  Some (append_int (t_year t) 4 ++ [45] ++ append_int (t_month t) 2 ++ [45] ++ append_int (t_day t) 2 ++ [84] ++
        append_int (t_hour t) 2 ++ [58] ++ append_int (t_minute t) 2 ++ [58] ++ append_int (t_second t) 2 ++ [90]).
Proof.
  intros t Hoff. etransitivity.
  - chunk. chunk. chunk. chunk. chunk. chunk.
    eapply time_format_chunk_last; [cbv; reflexivity|apply render_tz_utc; exact Hoff].
  - cbn [app]. reflexivity.
Qed.

(* ---------- 7. end to end with time.Date ---------- *)

Lemma go_date_civil : forall y m d off, valid_date y m d = true ->
  let t := go_date y m d 0 0 0 0 off in t_year t = y /\ t_month t = m /\ t_day t = d.
Proof.
  intros y m d off Hv t.
  destruct (date_fields_roundtrip off GInt y GInt m GInt d Hv) as [t' [Ht' [Hy [Hm [Hd _]]]]].
  rewrite ba_date in Ht'. injection Ht' as Ht'. subst t'. repeat split; assumption.
Qed.

Theorem format_date_of_valid_date : forall y m d off, valid_date y m d = true -> 0 <= y <= 9999 ->
  time_format (go_date y m d 0 0 0 0 off) (str "2006-01-02") =
  Some ([48 + y / 1000; 48 + (y / 100) mod 10; 48 + (y / 10) mod 10; 48 + y mod 10] ++ [45] ++
        [48 + m / 10; 48 + m mod 10] ++ [45] ++ [48 + d / 10; 48 + d mod 10]).
Proof.
  intros y m d off Hv Hy.
  destruct (go_date_civil y m d off Hv) as [Ey [Em Ed]].
  destruct (valid_date_range y m d Hv) as [Hm Hd].
  pose proof (days_in_month_range y m) as Hdim.
  rewrite format_iso_date, Ey, Em, Ed.
  rewrite (append_int_4 y Hy), (append_int_2 m) by lia. rewrite (append_int_2 d) by lia.
  reflexivity.
Qed.

(* ---------- 8. the zone abbreviation; outputs of Go's Time.Format ---------- *)

Theorem time_format_mst_unmodelled : forall t, time_format t (str "MST") = None.
Proof. intros t. reflexivity. Qed.

(* the 30 lines of tf_reference.txt: unix nanoseconds, zone offset in seconds, layout, output of Go *)
Example go_format_01 :
  time_format (mkTime 1707102429012345600%Z 19800%Z) (str "2006-01-02T15:04:05Z07:00") =
  Some (str "2024-02-05T08:37:09+05:30").
Proof. vm_compute. reflexivity. Qed.

Example go_format_02 :
  time_format (mkTime 1707102429012345600%Z 19800%Z) (str "Mon, 02 Jan 2006 15:04:05 -0700") =
  Some (str "Mon, 05 Feb 2024 08:37:09 +0530").
Proof. vm_compute. reflexivity. Qed.

Example go_format_03 :
  time_format (mkTime 1707102429012345600%Z 19800%Z) (str "Monday, 02-Jan-06 3:04:05.000PM") =
  Some (str "Monday, 05-Feb-24 8:37:09.012AM").
Proof. vm_compute. reflexivity. Qed.

Example go_format_04 :
  time_format (mkTime 1707102429012345600%Z 19800%Z) (str "Jan _2 15:04:05.999999999") =
  Some (str "Feb  5 08:37:09.0123456").
Proof. vm_compute. reflexivity. Qed.

Example go_format_05 :
  time_format (mkTime 1707102429012345600%Z 19800%Z) (str "002 __2 _2006 1/2/06") =
  Some (str "036  36 _2024 2/5/24").
Proof. vm_compute. reflexivity. Qed.

Example go_format_06 :
  time_format (mkTime 1707102429012345600%Z 19800%Z) (str "January Janet Month Monday") =
  Some (str "February Janet Month Monday").
Proof. vm_compute. reflexivity. Qed.

Example go_format_07 :
  time_format (mkTime 1707102429012345600%Z 19800%Z) (str "Z070000 -07:00:00 -07 Z07") =
  Some (str "+053000 +05:30:00 +05 +05").
Proof. vm_compute. reflexivity. Qed.

Example go_format_08 :
  time_format (mkTime 1707102429012345600%Z 19800%Z) (str "05,000000 .00x .0000000000") =
  Some (str "09,012345 .01x .012345600").
Proof. vm_compute. reflexivity. Qed.

Example go_format_09 :
  time_format (mkTime 1707102429012345600%Z 19800%Z) (str "3:4:5 pm PM") =
  Some (str "8:37:9 am AM").
Proof. vm_compute. reflexivity. Qed.

Example go_format_10 :
  time_format (mkTime 1707102429012345600%Z 19800%Z) (str "no digits here") =
  Some (str "no digits here").
Proof. vm_compute. reflexivity. Qed.

Example go_format_11 :
  time_format (mkTime (-1)%Z 0%Z) (str "2006-01-02T15:04:05Z07:00") =
  Some (str "1969-12-31T23:59:59Z").
Proof. vm_compute. reflexivity. Qed.

Example go_format_12 :
  time_format (mkTime (-1)%Z 0%Z) (str "Mon, 02 Jan 2006 15:04:05 -0700") =
  Some (str "Wed, 31 Dec 1969 23:59:59 +0000").
Proof. vm_compute. reflexivity. Qed.

Example go_format_13 :
  time_format (mkTime (-1)%Z 0%Z) (str "Monday, 02-Jan-06 3:04:05.000PM") =
  Some (str "Wednesday, 31-Dec-69 11:59:59.999PM").
Proof. vm_compute. reflexivity. Qed.

Example go_format_14 :
  time_format (mkTime (-1)%Z 0%Z) (str "Jan _2 15:04:05.999999999") =
  Some (str "Dec 31 23:59:59.999999999").
Proof. vm_compute. reflexivity. Qed.

Example go_format_15 :
  time_format (mkTime (-1)%Z 0%Z) (str "002 __2 _2006 1/2/06") =
  Some (str "365 365 _1969 12/31/69").
Proof. vm_compute. reflexivity. Qed.

Example go_format_16 :
  time_format (mkTime (-1)%Z 0%Z) (str "January Janet Month Monday") =
  Some (str "December Janet Month Wednesday").
Proof. vm_compute. reflexivity. Qed.

Example go_format_17 :
  time_format (mkTime (-1)%Z 0%Z) (str "Z070000 -07:00:00 -07 Z07") =
  Some (str "Z +00:00:00 +00 Z").
Proof. vm_compute. reflexivity. Qed.

Example go_format_18 :
  time_format (mkTime (-1)%Z 0%Z) (str "05,000000 .00x .0000000000") =
  Some (str "59,999999 .99x .999999999").
Proof. vm_compute. reflexivity. Qed.

Example go_format_19 :
  time_format (mkTime (-1)%Z 0%Z) (str "3:4:5 pm PM") =
  Some (str "11:59:59 pm PM").
Proof. vm_compute. reflexivity. Qed.

Example go_format_20 :
  time_format (mkTime (-1)%Z 0%Z) (str "no digits here") =
  Some (str "no digits here").
Proof. vm_compute. reflexivity. Qed.

Example go_format_21 :
  time_format (mkTime 1709164800000000000%Z (-90)%Z) (str "2006-01-02T15:04:05Z07:00") =
  Some (str "2024-02-28T23:58:30-00:01").
Proof. vm_compute. reflexivity. Qed.

Example go_format_22 :
  time_format (mkTime 1709164800000000000%Z (-90)%Z) (str "Mon, 02 Jan 2006 15:04:05 -0700") =
  Some (str "Wed, 28 Feb 2024 23:58:30 -0001").
Proof. vm_compute. reflexivity. Qed.

Example go_format_23 :
  time_format (mkTime 1709164800000000000%Z (-90)%Z) (str "Monday, 02-Jan-06 3:04:05.000PM") =
  Some (str "Wednesday, 28-Feb-24 11:58:30.000PM").
Proof. vm_compute. reflexivity. Qed.

Example go_format_24 :
  time_format (mkTime 1709164800000000000%Z (-90)%Z) (str "Jan _2 15:04:05.999999999") =
  Some (str "Feb 28 23:58:30").
Proof. vm_compute. reflexivity. Qed.

Example go_format_25 :
  time_format (mkTime 1709164800000000000%Z (-90)%Z) (str "002 __2 _2006 1/2/06") =
  Some (str "059  59 _2024 2/28/24").
Proof. vm_compute. reflexivity. Qed.

Example go_format_26 :
  time_format (mkTime 1709164800000000000%Z (-90)%Z) (str "January Janet Month Monday") =
  Some (str "February Janet Month Wednesday").
Proof. vm_compute. reflexivity. Qed.

Example go_format_27 :
  time_format (mkTime 1709164800000000000%Z (-90)%Z) (str "Z070000 -07:00:00 -07 Z07") =
  Some (str "-000130 -00:01:30 -00 -00").
Proof. vm_compute. reflexivity. Qed.

Example go_format_28 :
  time_format (mkTime 1709164800000000000%Z (-90)%Z) (str "05,000000 .00x .0000000000") =
  Some (str "30,000000 .00x .000000000").
Proof. vm_compute. reflexivity. Qed.

Example go_format_29 :
  time_format (mkTime 1709164800000000000%Z (-90)%Z) (str "3:4:5 pm PM") =
  Some (str "11:58:30 pm PM").
Proof. vm_compute. reflexivity. Qed.

Example go_format_30 :
  time_format (mkTime 1709164800000000000%Z (-90)%Z) (str "no digits here") =
  Some (str "no digits here").
Proof. vm_compute. reflexivity. Qed.

(* the 30 reference outputs above (Go 1.23.5's own Time.Format) in one statement *)
Example go_format_reference :
  time_format (mkTime 1707102429012345600 19800) (str "2006-01-02T15:04:05Z07:00") = Some (str "2024-02-05T08:37:09+05:30") /\
  time_format (mkTime 1707102429012345600 19800) (str "Mon, 02 Jan 2006 15:04:05 -0700") = Some (str "Mon, 05 Feb 2024 08:37:09 +0530") /\
  time_format (mkTime 1707102429012345600 19800) (str "Monday, 02-Jan-06 3:04:05.000PM") = Some (str "Monday, 05-Feb-24 8:37:09.012AM") /\
  time_format (mkTime 1707102429012345600 19800) (str "Jan _2 15:04:05.999999999") = Some (str "Feb  5 08:37:09.0123456") /\
  time_format (mkTime 1707102429012345600 19800) (str "002 __2 _2006 1/2/06") = Some (str "036  36 _2024 2/5/24") /\
  time_format (mkTime 1707102429012345600 19800) (str "January Janet Month Monday") = Some (str "February Janet Month Monday") /\
  time_format (mkTime 1707102429012345600 19800) (str "Z070000 -07:00:00 -07 Z07") = Some (str "+053000 +05:30:00 +05 +05") /\
  time_format (mkTime 1707102429012345600 19800) (str "05,000000 .00x .0000000000") = Some (str "09,012345 .01x .012345600") /\
  time_format (mkTime 1707102429012345600 19800) (str "3:4:5 pm PM") = Some (str "8:37:9 am AM") /\
  time_format (mkTime 1707102429012345600 19800) (str "no digits here") = Some (str "no digits here") /\
  time_format (mkTime (-1) 0) (str "2006-01-02T15:04:05Z07:00") = Some (str "1969-12-31T23:59:59Z") /\
  time_format (mkTime (-1) 0) (str "Mon, 02 Jan 2006 15:04:05 -0700") = Some (str "Wed, 31 Dec 1969 23:59:59 +0000") /\
  time_format (mkTime (-1) 0) (str "Monday, 02-Jan-06 3:04:05.000PM") = Some (str "Wednesday, 31-Dec-69 11:59:59.999PM") /\
  time_format (mkTime (-1) 0) (str "Jan _2 15:04:05.999999999") = Some (str "Dec 31 23:59:59.999999999") /\
  time_format (mkTime (-1) 0) (str "002 __2 _2006 1/2/06") = Some (str "365 365 _1969 12/31/69") /\
  time_format (mkTime (-1) 0) (str "January Janet Month Monday") = Some (str "December Janet Month Wednesday") /\
  time_format (mkTime (-1) 0) (str "Z070000 -07:00:00 -07 Z07") = Some (str "Z +00:00:00 +00 Z") /\
  time_format (mkTime (-1) 0) (str "05,000000 .00x .0000000000") = Some (str "59,999999 .99x .999999999") /\
  time_format (mkTime (-1) 0) (str "3:4:5 pm PM") = Some (str "11:59:59 pm PM") /\
  time_format (mkTime (-1) 0) (str "no digits here") = Some (str "no digits here") /\
  time_format (mkTime 1709164800000000000 (-90)) (str "2006-01-02T15:04:05Z07:00") = Some (str "2024-02-28T23:58:30-00:01") /\
  time_format (mkTime 1709164800000000000 (-90)) (str "Mon, 02 Jan 2006 15:04:05 -0700") = Some (str "Wed, 28 Feb 2024 23:58:30 -0001") /\
  time_format (mkTime 1709164800000000000 (-90)) (str "Monday, 02-Jan-06 3:04:05.000PM") = Some (str "Wednesday, 28-Feb-24 11:58:30.000PM") /\
  time_format (mkTime 1709164800000000000 (-90)) (str "Jan _2 15:04:05.999999999") = Some (str "Feb 28 23:58:30") /\
  time_format (mkTime 1709164800000000000 (-90)) (str "002 __2 _2006 1/2/06") = Some (str "059  59 _2024 2/28/24") /\
  time_format (mkTime 1709164800000000000 (-90)) (str "January Janet Month Monday") = Some (str "February Janet Month Wednesday") /\
  time_format (mkTime 1709164800000000000 (-90)) (str "Z070000 -07:00:00 -07 Z07") = Some (str "-000130 -00:01:30 -00 -00") /\
  time_format (mkTime 1709164800000000000 (-90)) (str "05,000000 .00x .0000000000") = Some (str "30,000000 .00x .000000000") /\
  time_format (mkTime 1709164800000000000 (-90)) (str "3:4:5 pm PM") = Some (str "11:58:30 pm PM") /\
  time_format (mkTime 1709164800000000000 (-90)) (str "no digits here") = Some (str "no digits here").
Proof. repeat split; vm_compute; reflexivity. Qed.

Print Assumptions try_std_shrinks.
Print Assumptions next_chunk_shrinks.
Print Assumptions next_chunk_suffix.
Print Assumptions format_fuel_enough.
Print Assumptions time_format_step.
Print Assumptions time_format_total.
Print Assumptions time_format_plain.
Print Assumptions append_int_2.
Print Assumptions append_int_4.
Print Assumptions append_int_0_small.
Print Assumptions format_iso_date.
Print Assumptions format_clock.
Print Assumptions format_rfc3339_utc.
Print Assumptions format_date_of_valid_date.
Print Assumptions time_format_mst_unmodelled.
Print Assumptions go_format_30.
