(* C13: string literals.  The reference escaper as a relation over the decode steps of the
   text, and the round trip through the scanner for every byte string (valid UTF-8 or not). *)
From Formula Require Import Base.Utf8 Lex.Chars Lex.Scanner Proofs.Utf8Facts Proofs.LiteralAscii.
From Formula Require Import Sem.Eval.

(* ---------- the reference escaper ---------- *)

(* a character may stand for itself unless it is the delimiter, a backslash or a line break *)
Definition may_copy (q r : Z) : bool :=
  negb (r =? q) && negb (r =? 92) && negb (is_line_break r).

(* simple escapes: character -> the letter written after the backslash
   (backslash followed by: quote, double quote, backslash, n, r, t, b, f, v, 0) *)
Definition simple_escape (r : Z) : option Z :=
  if r =? 39 then Some 39 else if r =? 34 then Some 34 else if r =? 92 then Some 92
  else if r =? 10 then Some 110 else if r =? 13 then Some 114 else if r =? 9 then Some 116
  else if r =? 8 then Some 98 else if r =? 12 then Some 102 else if r =? 11 then Some 118
  else if r =? 0 then Some 48 else None.

(* what the escaper may write for one decode step (r, bs) of the text *)
Inductive esc_item (q : Z) : step -> list Z -> Prop :=
| EI_copy : forall r bs, may_copy q r = true -> esc_item q (r, bs) bs
| EI_simple : forall r c, simple_escape r = Some c -> esc_item q (r, [r]) [92; c]
| EI_x : forall r h1 h0, is_hex_digit h1 = true -> is_hex_digit h0 = true ->
    r = hex_val h1 * 16 + hex_val h0 ->
    esc_item q (r, encode_rune r) [92; 120; h1; h0]
| EI_u : forall r h3 h2 h1 h0,
    is_hex_digit h3 = true -> is_hex_digit h2 = true -> is_hex_digit h1 = true -> is_hex_digit h0 = true ->
    r = ((hex_val h3 * 16 + hex_val h2) * 16 + hex_val h1) * 16 + hex_val h0 ->
    esc_item q (r, encode_rune r) [92; 117; h3; h2; h1; h0].

Inductive escaping_steps (q : Z) : list step -> list Z -> Prop :=
| ES_nil : escaping_steps q [] []
| ES_cons : forall s ss item body, esc_item q s item -> escaping_steps q ss body ->
    escaping_steps q (s :: ss) (item ++ body).

(* [escaping q text body]: body is a way of writing text between two delimiters q *)
Definition escaping (q : Z) (text body : list Z) : Prop := escaping_steps q (decode_all text) body.

(* ---------- small facts ---------- *)

Lemma simple_escape_ascii : forall r c, simple_escape r = Some c -> 0 <= r < 128 /\ 0 <= c < 128.
Proof.
  intros r c H. unfold simple_escape in H.
  repeat match type of H with
  | (if ?r =? ?k then _ else _) = _ =>
    let E := fresh "E" in destruct (r =? k) eqn:E;
      [apply Z.eqb_eq in E; injection H as <-; lia|clear E]
  end.
  discriminate H.
Qed.

Lemma hex_digit_ascii : forall h, is_hex_digit h = true -> 0 <= h < 128.
Proof.
  intros h H. unfold is_hex_digit, is_digit in H.
  apply orb_true_iff in H. destruct H as [H|H].
  - apply orb_true_iff in H. destruct H as [H|H];
      apply andb_true_iff in H; destruct H as [H1 H2]; apply Z.leb_le in H1, H2; lia.
  - apply andb_true_iff in H; destruct H as [H1 H2]; apply Z.leb_le in H1, H2; lia.
Qed.

Lemma is_cont_small : forall b, b < 128 -> is_cont b = false.
Proof.
  intros b H. unfold is_cont. destruct (128 <=? b) eqn:E; [apply Z.leb_le in E; lia|reflexivity].
Qed.

Lemma is_cont_big : forall b, 191 < b -> is_cont b = false.
Proof.
  intros b H. unfold is_cont. destruct (b <=? 191) eqn:E; [apply Z.leb_le in E; lia|].
  apply andb_false_r.
Qed.

Lemma encode_rune_head_noncont : forall r Z0, head_noncont (encode_rune r ++ Z0) = true.
Proof.
  intros r Z0. unfold encode_rune.
  destruct ((r <? 0) || (1114111 <? r) || ((55296 <=? r) && (r <=? 57343))) eqn:E0; [reflexivity|].
  apply orb_false_iff in E0. destruct E0 as [E0 _].
  apply orb_false_iff in E0. destruct E0 as [E0 _]. apply Z.ltb_ge in E0.
  destruct (r <? 128) eqn:E1.
  { apply Z.ltb_lt in E1. cbn [app head_noncont]. rewrite is_cont_small by lia. reflexivity. }
  destruct (r <? 2048).
  { cbn [app head_noncont]. rewrite is_cont_big; [reflexivity|].
    pose proof (Z.div_pos r 64 E0 ltac:(lia)). lia. }
  destruct (r <? 65536).
  { cbn [app head_noncont]. rewrite is_cont_big; [reflexivity|].
    pose proof (Z.div_pos r 4096 E0 ltac:(lia)). lia. }
  cbn [app head_noncont]. rewrite is_cont_big; [reflexivity|].
  pose proof (Z.div_pos r 262144 E0 ltac:(lia)). lia.
Qed.

(* the body and the text look the same to a decode step that runs into them *)
Lemma esc_lookahead : forall q ss body, escaping_steps q ss body ->
  forall tl, head_noncont tl = true -> same_lookahead (body ++ tl) (steps_bytes ss).
Proof.
  intros q ss body H. induction H as [|s ss item body Hi Hs IH]; intros tl Htl.
  { cbn [app]. apply SL_stop; [exact Htl|reflexivity]. }
  specialize (IH tl Htl).
  destruct Hi as [r bs Hc|r c Hc|r h1 h0 H1 H0 Hr|r h3 h2 h1 h0 H3 H2 H1 H0 Hr].
  - rewrite <- app_assoc, steps_bytes_cons. apply same_lookahead_app. exact IH.
  - rewrite steps_bytes_cons. apply SL_stop; [reflexivity|].
    apply simple_escape_ascii in Hc. cbn [app head_noncont]. rewrite is_cont_small by lia. reflexivity.
  - rewrite steps_bytes_cons. apply SL_stop; [reflexivity|apply encode_rune_head_noncont].
  - rewrite steps_bytes_cons. apply SL_stop; [reflexivity|apply encode_rune_head_noncont].
Qed.

(* ---------- unfolding the string state machine ---------- *)

Lemma scan_str_copy : forall q r bs t pos acc ds, may_copy q r = true ->
  scan_str ((r, bs) :: t) pos q SNormal acc ds = scan_str t (pos + blen bs) q SNormal (acc ++ bs) ds.
Proof.
  intros q r bs t pos acc ds H. unfold may_copy in H.
  apply andb_true_iff in H. destruct H as [H H3]. apply andb_true_iff in H. destruct H as [H1 H2].
  apply negb_true_iff in H1, H2, H3.
  cbn [scan_str]. rewrite H1, H2, H3. reflexivity.
Qed.

Lemma scan_str_backslash : forall q bs t pos acc ds, q <> 92 ->
  scan_str ((92, bs) :: t) pos q SNormal acc ds = scan_str t (pos + blen bs) q SEsc acc ds.
Proof.
  intros q bs t pos acc ds H. cbn [scan_str].
  destruct (92 =? q) eqn:E; [apply Z.eqb_eq in E; congruence|]. reflexivity.
Qed.

Lemma scan_str_simple : forall q r c bs t pos acc ds, simple_escape r = Some c ->
  scan_str ((c, bs) :: t) pos q SEsc acc ds = scan_str t (pos + blen bs) q SNormal (acc ++ [r]) ds.
Proof.
  intros q r c bs t pos acc ds H. unfold simple_escape in H.
  repeat match type of H with
  | (if ?r =? ?k then _ else _) = _ =>
    let E := fresh "E" in destruct (r =? k) eqn:E;
      [apply Z.eqb_eq in E; injection H as <-; subst r; reflexivity|clear E]
  end.
  discriminate H.
Qed.

Lemma scan_str_x : forall q bs t pos acc ds,
  scan_str ((120, bs) :: t) pos q SEsc acc ds = scan_str t (pos + blen bs) q (SHex 2 0 0) acc ds.
Proof. reflexivity. Qed.

Lemma scan_str_u : forall q bs t pos acc ds,
  scan_str ((117, bs) :: t) pos q SEsc acc ds = scan_str t (pos + blen bs) q (SHex 4 0 0) acc ds.
Proof. reflexivity. Qed.

Lemma scan_str_hex_digit : forall q h bs t pos rem got v acc ds, is_hex_digit h = true ->
  scan_str ((h, bs) :: t) pos q (SHex (S rem) got v) acc ds =
  scan_str t (pos + blen bs) q (SHex rem (S got) (v * 16 + hex_val h)) acc ds.
Proof. intros q h bs t pos rem got v acc ds H. cbn [scan_str]. rewrite H. reflexivity. Qed.

(* once the maximal number of digits has been read the escape is complete, whatever follows
   (including the end of the input) *)
Lemma scan_str_hex_done : forall q ss pos got v acc ds,
  scan_str ss pos q (SHex 0 (S got) v) acc ds = scan_str ss pos q SNormal (acc ++ encode_rune v) ds.
Proof. intros q ss pos got v acc ds. destruct ss as [|[r bs] t]; reflexivity. Qed.

(* ---------- the round trip through the body ---------- *)

Lemma scan_body : forall q ss body, escaping_steps q ss body -> q = 39 \/ q = 34 ->
  self_decoding ss -> forall tl, head_noncont tl = true -> forall pos acc ds,
  scan_str (decode_all (body ++ tl)) pos q SNormal acc ds =
  scan_str (decode_all tl) (pos + blen body) q SNormal (acc ++ steps_bytes ss) ds.
Proof.
  intros q ss body H Hq. induction H as [|s ss item body Hi Hs IH]; intros Hsd tl Htl pos acc ds.
  { cbn [app steps_bytes map concat]. rewrite blen_nil, Z.add_0_r, app_nil_r. reflexivity. }
  assert (Hq92 : q <> 92) by (destruct Hq; lia).
  pose proof (esc_lookahead q ss body Hs tl Htl) as Hla.
  destruct s as [r0 bs0].
  destruct (self_decoding_head r0 bs0 ss Hsd) as (b0 & bs' & _ & _ & Hsd').
  specialize (IH Hsd' tl Htl).
  destruct Hi as [r bs Hc|r c Hc|r h1 h0 H1 H0 Hr|r h3 h2 h1 h0 H3 H2 H1 H0 Hr].
  - rewrite <- app_assoc. rewrite (decode_all_copy r bs ss (body ++ tl) Hsd Hla).
    rewrite scan_str_copy by exact Hc. rewrite IH.
    rewrite steps_bytes_cons, blen_app, app_assoc, Z.add_assoc. reflexivity.
  - pose proof (simple_escape_ascii r c Hc) as [Hr Hcc].
    rewrite <- app_assoc.
    rewrite decode_all_asc by (repeat constructor; lia).
    cbn [asc map app].
    rewrite scan_str_backslash by exact Hq92.
    rewrite (scan_str_simple q r c) by exact Hc.
    rewrite IH. rewrite steps_bytes_cons, app_assoc.
    f_equal. rewrite !blen_cons, blen_nil. lia.
  - pose proof (hex_digit_ascii h1 H1) as A1. pose proof (hex_digit_ascii h0 H0) as A0.
    rewrite <- app_assoc.
    rewrite decode_all_asc by (repeat constructor; lia).
    cbn [asc map app].
    rewrite scan_str_backslash by exact Hq92.
    rewrite scan_str_x.
    rewrite scan_str_hex_digit by exact H1.
    rewrite scan_str_hex_digit by exact H0.
    rewrite scan_str_hex_done.
    replace (0 * 16 + hex_val h1) with (hex_val h1) by lia. rewrite <- Hr.
    rewrite IH. rewrite steps_bytes_cons, app_assoc.
    f_equal. rewrite !blen_cons, blen_nil. lia.
  - pose proof (hex_digit_ascii h3 H3) as A3. pose proof (hex_digit_ascii h2 H2) as A2.
    pose proof (hex_digit_ascii h1 H1) as A1. pose proof (hex_digit_ascii h0 H0) as A0.
    rewrite <- app_assoc.
    rewrite decode_all_asc by (repeat constructor; lia).
    cbn [asc map app].
    rewrite scan_str_backslash by exact Hq92.
    rewrite scan_str_u.
    rewrite scan_str_hex_digit by exact H3.
    rewrite scan_str_hex_digit by exact H2.
    rewrite scan_str_hex_digit by exact H1.
    rewrite scan_str_hex_digit by exact H0.
    rewrite scan_str_hex_done.
    replace (0 * 16 + hex_val h3) with (hex_val h3) by lia. rewrite <- Hr.
    rewrite IH. rewrite steps_bytes_cons, app_assoc.
    f_equal. rewrite !blen_cons, blen_nil. lia.
Qed.

(* ---------- scan_one on a quote ---------- *)

Lemma scan_one_quote : forall q t pos, q = 39 \/ q = 34 ->
  scan_one ((q, [q]) :: t) pos =
  (let '(v, rest, e, ds) := scan_str t (pos + 1) q SNormal [] [] in
   (mkTok KString v pos pos e false ds, rest)).
Proof. intros q t pos [->| ->]; reflexivity. Qed.

Lemma quote_head_noncont : forall q rest, q = 39 \/ q = 34 -> head_noncont (q :: rest) = true.
Proof. intros q rest [->| ->]; reflexivity. Qed.

(* C13, main clause *)
Theorem string_roundtrip : forall q text body, escaping q text body -> q = 39 \/ q = 34 ->
  forall rest pos, exists tok,
    scan_one (decode_all ([q] ++ body ++ [q] ++ rest)) pos = (tok, decode_all rest) /\
    tk tok = KString /\ tval tok = text /\ tdiags tok = [] /\
    tpos tok = pos /\ tend tok = pos + blen ([q] ++ body ++ [q]).
Proof.
  intros q text body He Hq rest pos. unfold escaping in He.
  assert (Hq128 : q < 128) by (destruct Hq; lia).
  cbn [app]. rewrite decode_all_lt128 by exact Hq128.
  rewrite scan_one_quote by exact Hq.
  rewrite (scan_body q (decode_all text) body He Hq (self_decoding_decode_all text)
             (q :: rest) (quote_head_noncont q rest Hq)).
  rewrite decode_all_lt128 by exact Hq128.
  cbn [scan_str]. rewrite Z.eqb_refl.
  eexists. split; [reflexivity|]. cbn [tk tval tdiags tpos tend].
  rewrite decode_all_bytes.
  split; [reflexivity|]. split; [reflexivity|]. split; [reflexivity|]. split; [reflexivity|].
  rewrite !blen_cons, blen_app, !blen_cons, blen_nil. lia.
Qed.

(* ---------- unescaped characters ---------- *)

Lemma copy_all : forall q ss, Forall (fun s => may_copy q (fst s) = true) ss ->
  escaping_steps q ss (steps_bytes ss).
Proof.
  intros q ss H. induction H as [|[r bs] ss Hs _ IH]; [constructor|].
  rewrite steps_bytes_cons. constructor; [constructor; exact Hs|exact IH].
Qed.

Definition other_quote (q : Z) : Z := if q =? 39 then 34 else 39.

Lemma may_copy_other_quote : forall q, q = 39 \/ q = 34 -> may_copy q (other_quote q) = true.
Proof. intros q [->| ->]; reflexivity. Qed.

(* anything from U+0080 up except the three line breaks U+0085, U+2028, U+2029; this includes
   the replacement rune of an invalid byte *)
Lemma may_copy_multibyte : forall q r, q = 39 \/ q = 34 -> 128 <= r ->
  r <> 133 -> r <> 8232 -> r <> 8233 -> may_copy q r = true.
Proof.
  intros q r Hq Hr H1 H2 H3. unfold may_copy, is_line_break.
  repeat match goal with
  | |- context [?a =? ?b] =>
    let E := fresh "E" in destruct (a =? b) eqn:E; [apply Z.eqb_eq in E; destruct Hq; lia|clear E]
  end.
  reflexivity.
Qed.

(* a text none of whose characters is the delimiter, a backslash or a line break is its own
   literal body *)
Theorem verbatim_roundtrip : forall q text, q = 39 \/ q = 34 ->
  Forall (fun s => may_copy q (fst s) = true) (decode_all text) ->
  forall rest pos, exists tok,
    scan_one (decode_all ([q] ++ text ++ [q] ++ rest)) pos = (tok, decode_all rest) /\
    tk tok = KString /\ tval tok = text /\ tdiags tok = [].
Proof.
  intros q text Hq Hall rest pos.
  assert (He : escaping q text text).
  { unfold escaping. rewrite <- (decode_all_bytes text) at 2. apply copy_all. exact Hall. }
  destruct (string_roundtrip q text text He Hq rest pos) as (tok & H1 & H2 & H3 & H4 & _).
  exists tok. repeat split; assumption.
Qed.

(* C13: the other quote character and multi-byte characters need no escaping *)
Theorem other_quote_and_multibyte_verbatim : forall q text, q = 39 \/ q = 34 ->
  Forall (fun s => fst s = other_quote q \/
                   (128 <= fst s /\ fst s <> 133 /\ fst s <> 8232 /\ fst s <> 8233))
         (decode_all text) ->
  forall rest pos, exists tok,
    scan_one (decode_all ([q] ++ text ++ [q] ++ rest)) pos = (tok, decode_all rest) /\
    tk tok = KString /\ tval tok = text /\ tdiags tok = [].
Proof.
  intros q text Hq Hall. apply verbatim_roundtrip; [exact Hq|].
  eapply Forall_impl; [|exact Hall]. intros [r bs] H. cbn [fst] in *.
  destruct H as [->|(H1 & H2 & H3 & H4)].
  - apply may_copy_other_quote. exact Hq.
  - apply may_copy_multibyte; assumption.
Qed.

(* the text  double-quote, e-acute, byte FF, U+1F600  between single quotes *)
Example other_quote_and_multibyte_instance :
  Forall (fun s => fst s = other_quote 39 \/
                   (128 <= fst s /\ fst s <> 133 /\ fst s <> 8232 /\ fst s <> 8233))
         (decode_all [34; 195; 169; 255; 240; 159; 152; 128]).
Proof.
  change (decode_all [34; 195; 169; 255; 240; 159; 152; 128]) with
    [(34, [34]); (233, [195; 169]); (65533, [255]); (128512, [240; 159; 152; 128])].
  apply Forall_cons; [left; reflexivity|].
  apply Forall_cons; [right; cbn [fst]; lia|].
  apply Forall_cons; [right; cbn [fst]; lia|].
  apply Forall_cons; [right; cbn [fst]; lia|].
  apply Forall_nil.
Qed.

(* ---------- literals left open ---------- *)

Lemma line_break_cases : forall r, is_line_break r = true ->
  r = 13 \/ r = 10 \/ r = 8232 \/ r = 8233 \/ r = 133.
Proof.
  intros r H. unfold is_line_break in H.
  repeat (apply orb_true_iff in H; destruct H as [H|H]);
    apply Z.eqb_eq in H; lia.
Qed.

Lemma decode_line_break : forall r rest, is_line_break r = true ->
  decode_all (encode_rune r ++ rest) = (r, encode_rune r) :: decode_all rest /\
  head_noncont (encode_rune r ++ rest) = true.
Proof.
  intros r rest H. apply line_break_cases in H.
  destruct H as [->|[->|[->|[->| ->]]]]; split; reflexivity.
Qed.

Theorem open_at_linebreak_rejected : forall q text body, escaping q text body -> q = 39 \/ q = 34 ->
  forall r rest pos, is_line_break r = true -> exists tok,
    scan_one (decode_all ([q] ++ body ++ encode_rune r ++ rest)) pos =
      (tok, decode_all (encode_rune r ++ rest)) /\
    tk tok = KString /\ tval tok = text /\
    tdiags tok = [(pos + 1 + blen body, 0, C_Unterminated_string_literal)].
Proof.
  intros q text body He Hq r rest pos Hlb. unfold escaping in He.
  assert (Hq128 : q < 128) by (destruct Hq; lia).
  destruct (decode_line_break r rest Hlb) as [Hdec Hnc].
  cbn [app]. rewrite decode_all_lt128 by exact Hq128.
  rewrite scan_one_quote by exact Hq.
  rewrite (scan_body q (decode_all text) body He Hq (self_decoding_decode_all text) _ Hnc).
  rewrite Hdec. cbn [scan_str].
  assert (Hrq : (r =? q) = false).
  { apply Z.eqb_neq. apply line_break_cases in Hlb. destruct Hq; lia. }
  assert (Hr92 : (r =? 92) = false).
  { apply Z.eqb_neq. apply line_break_cases in Hlb. lia. }
  rewrite Hrq, Hr92, Hlb.
  eexists. split; [reflexivity|]. cbn [tk tval tdiags].
  rewrite decode_all_bytes. repeat split; reflexivity.
Qed.

Theorem open_at_eof_rejected : forall q text body, escaping q text body -> q = 39 \/ q = 34 ->
  forall pos, exists tok,
    scan_one (decode_all ([q] ++ body)) pos = (tok, []) /\
    tk tok = KString /\ tval tok = text /\
    tdiags tok = [(pos + 1 + blen body, 0, C_Unexpected_end_of_text)].
Proof.
  intros q text body He Hq pos. unfold escaping in He.
  assert (Hq128 : q < 128) by (destruct Hq; lia).
  cbn [app]. rewrite decode_all_lt128 by exact Hq128.
  rewrite scan_one_quote by exact Hq.
  replace (decode_all body) with (decode_all (body ++ [])) by (rewrite app_nil_r; reflexivity).
  rewrite (scan_body q (decode_all text) body He Hq (self_decoding_decode_all text) [] eq_refl).
  cbn [decode_all scan_str].
  eexists. split; [reflexivity|]. cbn [tk tval tdiags].
  rewrite decode_all_bytes. repeat split; reflexivity.
Qed.

(* ---------- every text has an escaping (the relation is total) ---------- *)

(* what the steps of decode_all look like: an ASCII byte, an invalid byte, or the canonical
   encoding of a rune >= 128 *)
Definition step_canonical (s : step) : Prop :=
  (snd s = [fst s] /\ fst s < 128) \/
  (fst s = 65533 /\ length (snd s) = 1%nat) \/
  (128 <= fst s /\ snd s = encode_rune (fst s)).

Lemma is_cont_range : forall b, is_cont b = true -> 128 <= b <= 191.
Proof.
  intros b H. unfold is_cont in H. apply andb_true_iff in H. destruct H as [H1 H2].
  apply Z.leb_le in H1, H2. lia.
Qed.

Lemma in_rng_range : forall lo hi b, in_rng lo hi b = true -> lo <= b <= hi.
Proof.
  intros lo hi b H. unfold in_rng in H. apply andb_true_iff in H. destruct H as [H1 H2].
  apply Z.leb_le in H1, H2. lia.
Qed.

Lemma encode_rune_2 : forall r, 128 <= r < 2048 -> encode_rune r = [192 + r / 64; 128 + r mod 64].
Proof.
  intros r H. unfold encode_rune.
  replace (r <? 0) with false by (symmetry; apply Z.ltb_ge; lia).
  replace (1114111 <? r) with false by (symmetry; apply Z.ltb_ge; lia).
  replace (55296 <=? r) with false by (symmetry; apply Z.leb_gt; lia).
  cbn [orb andb].
  replace (r <? 128) with false by (symmetry; apply Z.ltb_ge; lia).
  replace (r <? 2048) with true by (symmetry; apply Z.ltb_lt; lia).
  reflexivity.
Qed.

Lemma encode_rune_3 : forall r, 2048 <= r < 65536 -> r < 55296 \/ 57343 < r ->
  encode_rune r = [224 + r / 4096; 128 + (r / 64) mod 64; 128 + r mod 64].
Proof.
  intros r H Hs. unfold encode_rune.
  replace (r <? 0) with false by (symmetry; apply Z.ltb_ge; lia).
  replace (1114111 <? r) with false by (symmetry; apply Z.ltb_ge; lia).
  replace ((55296 <=? r) && (r <=? 57343)) with false.
  2:{ symmetry. apply andb_false_iff. destruct Hs; [left; apply Z.leb_gt; lia|right; apply Z.leb_gt; lia]. }
  cbn [orb].
  replace (r <? 128) with false by (symmetry; apply Z.ltb_ge; lia).
  replace (r <? 2048) with false by (symmetry; apply Z.ltb_ge; lia).
  replace (r <? 65536) with true by (symmetry; apply Z.ltb_lt; lia).
  reflexivity.
Qed.

Lemma encode_rune_4 : forall r, 65536 <= r <= 1114111 ->
  encode_rune r = [240 + r / 262144; 128 + (r / 4096) mod 64; 128 + (r / 64) mod 64; 128 + r mod 64].
Proof.
  intros r H. unfold encode_rune.
  replace (r <? 0) with false by (symmetry; apply Z.ltb_ge; lia).
  replace (1114111 <? r) with false by (symmetry; apply Z.ltb_ge; lia).
  replace (r <=? 57343) with false by (symmetry; apply Z.leb_gt; lia).
  rewrite andb_false_r. cbn [orb].
  replace (r <? 128) with false by (symmetry; apply Z.ltb_ge; lia).
  replace (r <? 2048) with false by (symmetry; apply Z.ltb_ge; lia).
  replace (r <? 65536) with false by (symmetry; apply Z.ltb_ge; lia).
  reflexivity.
Qed.

Lemma decode1_canonical : forall b0 t,
  step_canonical (fst (decode1 b0 t), b0 :: firstn (snd (decode1 b0 t)) t).
Proof.
  intros b0 t. unfold step_canonical, decode1.
  destruct (b0 <? 128) eqn:E0.
  { apply Z.ltb_lt in E0. left. cbn [fst snd firstn]. split; [reflexivity|exact E0]. }
  apply Z.ltb_ge in E0.
  destruct ((b0 <? 194) || (244 <? b0)) eqn:E1.
  { right. left. cbn [fst snd firstn length]. split; reflexivity. }
  apply orb_false_iff in E1. destruct E1 as [E1a E1b]. apply Z.ltb_ge in E1a, E1b.
  assert (Hbad : (RuneError = 65533 /\ length (b0 :: firstn 0 t) = 1%nat)) by (split; reflexivity).
  destruct (b0 <? 224) eqn:E2.
  { apply Z.ltb_lt in E2.
    destruct t as [|b1 t1]; [right; left; exact Hbad|].
    destruct (is_cont b1) eqn:C1; [|right; left; exact Hbad].
    apply is_cont_range in C1. right. right. cbn [fst snd firstn].
    set (r := (b0 - 192) * 64 + (b1 - 128)).
    assert (Hr : 128 <= r < 2048) by (unfold r; lia).
    split; [lia|]. rewrite encode_rune_2 by exact Hr.
    assert (Hd : r / 64 = b0 - 192 /\ r mod 64 = b1 - 128).
    { unfold r. pose proof (Z.div_mod ((b0 - 192) * 64 + (b1 - 128)) 64 ltac:(lia)) as Hdm.
      pose proof (Z.mod_pos_bound ((b0 - 192) * 64 + (b1 - 128)) 64 ltac:(lia)) as Hmb. lia. }
    destruct Hd as [-> ->]. f_equal; [lia|]. f_equal. lia. }
  apply Z.ltb_ge in E2.
  destruct (b0 <? 240) eqn:E3.
  { apply Z.ltb_lt in E3.
    destruct t as [|b1 t1]; [right; left; exact Hbad|].
    destruct (in_rng _ _ b1) eqn:C1; [|right; left; exact Hbad].
    destruct t1 as [|b2 t2]; [right; left; exact Hbad|].
    destruct (is_cont b2) eqn:C2; [|right; left; exact Hbad].
    apply in_rng_range in C1. apply is_cont_range in C2.
    right. right. cbn [fst snd firstn].
    set (r := (b0 - 224) * 4096 + (b1 - 128) * 64 + (b2 - 128)).
    assert (Hb1 : 128 <= b1 <= 191).
    { destruct (b0 =? 224); destruct (b0 =? 237); lia. }
    assert (Hr : 2048 <= r < 65536).
    { unfold r. destruct (b0 =? 224) eqn:Ea; [apply Z.eqb_eq in Ea|apply Z.eqb_neq in Ea];
        destruct (b0 =? 237); lia. }
    assert (Hs : r < 55296 \/ 57343 < r).
    { unfold r. destruct (b0 =? 237) eqn:Ea; [apply Z.eqb_eq in Ea|apply Z.eqb_neq in Ea];
        destruct (b0 =? 224); lia. }
    split; [lia|]. rewrite encode_rune_3 by assumption.
    assert (Hd0 : r / 64 = (b0 - 224) * 64 + (b1 - 128) /\ r mod 64 = b2 - 128).
    { unfold r. pose proof (Z.div_mod ((b0 - 224) * 4096 + (b1 - 128) * 64 + (b2 - 128)) 64 ltac:(lia)) as Hdm.
      pose proof (Z.mod_pos_bound ((b0 - 224) * 4096 + (b1 - 128) * 64 + (b2 - 128)) 64 ltac:(lia)) as Hmb. lia. }
    destruct Hd0 as [Hq0 Hm0].
    assert (Hd1 : r / 4096 = b0 - 224).
    { unfold r. pose proof (Z.div_mod ((b0 - 224) * 4096 + (b1 - 128) * 64 + (b2 - 128)) 4096 ltac:(lia)) as Hdm.
      pose proof (Z.mod_pos_bound ((b0 - 224) * 4096 + (b1 - 128) * 64 + (b2 - 128)) 4096 ltac:(lia)) as Hmb. lia. }
    assert (Hd2 : (r / 64) mod 64 = b1 - 128).
    { rewrite Hq0. pose proof (Z.div_mod ((b0 - 224) * 64 + (b1 - 128)) 64 ltac:(lia)) as Hdm.
      pose proof (Z.mod_pos_bound ((b0 - 224) * 64 + (b1 - 128)) 64 ltac:(lia)) as Hmb. lia. }
    rewrite Hd1, Hd2, Hm0. f_equal; [lia|]. f_equal; [lia|]. f_equal. lia. }
  apply Z.ltb_ge in E3.
  destruct t as [|b1 t1]; [right; left; exact Hbad|].
  destruct (in_rng _ _ b1) eqn:C1; [|right; left; exact Hbad].
  destruct t1 as [|b2 t2]; [right; left; exact Hbad|].
  destruct (is_cont b2) eqn:C2; [|right; left; exact Hbad].
  destruct t2 as [|b3 t3]; [right; left; exact Hbad|].
  destruct (is_cont b3) eqn:C3; [|right; left; exact Hbad].
  apply in_rng_range in C1. apply is_cont_range in C2. apply is_cont_range in C3.
  right. right. cbn [fst snd firstn].
  set (r := (b0 - 240) * 262144 + (b1 - 128) * 4096 + (b2 - 128) * 64 + (b3 - 128)).
  assert (Hb1 : 128 <= b1 <= 191).
  { destruct (b0 =? 240); destruct (b0 =? 244); lia. }
  assert (Hr : 65536 <= r <= 1114111).
  { unfold r. destruct (b0 =? 240) eqn:Ea; [apply Z.eqb_eq in Ea|apply Z.eqb_neq in Ea];
      (destruct (b0 =? 244) eqn:Eb; [apply Z.eqb_eq in Eb|apply Z.eqb_neq in Eb]); lia. }
  split; [lia|]. rewrite encode_rune_4 by assumption.
  assert (Hd0 : r / 64 = (b0 - 240) * 4096 + (b1 - 128) * 64 + (b2 - 128) /\ r mod 64 = b3 - 128).
  { unfold r.
    pose proof (Z.div_mod ((b0 - 240) * 262144 + (b1 - 128) * 4096 + (b2 - 128) * 64 + (b3 - 128)) 64 ltac:(lia)) as Hdm.
    pose proof (Z.mod_pos_bound ((b0 - 240) * 262144 + (b1 - 128) * 4096 + (b2 - 128) * 64 + (b3 - 128)) 64 ltac:(lia)) as Hmb. lia. }
  destruct Hd0 as [Hq0 Hm0].
  assert (Hd1 : r / 4096 = (b0 - 240) * 64 + (b1 - 128)).
  { unfold r.
    pose proof (Z.div_mod ((b0 - 240) * 262144 + (b1 - 128) * 4096 + (b2 - 128) * 64 + (b3 - 128)) 4096 ltac:(lia)) as Hdm.
    pose proof (Z.mod_pos_bound ((b0 - 240) * 262144 + (b1 - 128) * 4096 + (b2 - 128) * 64 + (b3 - 128)) 4096 ltac:(lia)) as Hmb. lia. }
  assert (Hd2 : r / 262144 = b0 - 240).
  { unfold r.
    pose proof (Z.div_mod ((b0 - 240) * 262144 + (b1 - 128) * 4096 + (b2 - 128) * 64 + (b3 - 128)) 262144 ltac:(lia)) as Hdm.
    pose proof (Z.mod_pos_bound ((b0 - 240) * 262144 + (b1 - 128) * 4096 + (b2 - 128) * 64 + (b3 - 128)) 262144 ltac:(lia)) as Hmb. lia. }
  assert (Hd3 : (r / 64) mod 64 = b2 - 128).
  { rewrite Hq0. pose proof (Z.div_mod ((b0 - 240) * 4096 + (b1 - 128) * 64 + (b2 - 128)) 64 ltac:(lia)) as Hdm.
    pose proof (Z.mod_pos_bound ((b0 - 240) * 4096 + (b1 - 128) * 64 + (b2 - 128)) 64 ltac:(lia)) as Hmb. lia. }
  assert (Hd4 : (r / 4096) mod 64 = b1 - 128).
  { rewrite Hd1. pose proof (Z.div_mod ((b0 - 240) * 64 + (b1 - 128)) 64 ltac:(lia)) as Hdm.
    pose proof (Z.mod_pos_bound ((b0 - 240) * 64 + (b1 - 128)) 64 ltac:(lia)) as Hmb. lia. }
  rewrite Hd2, Hd4, Hd3, Hm0. f_equal; [lia|]. f_equal; [lia|]. f_equal; [lia|]. f_equal. lia.
Qed.

Theorem decode_all_canonical : forall l, Forall step_canonical (decode_all l).
Proof.
  assert (H : forall n l, (length l <= n)%nat -> Forall step_canonical (decode_all l)).
  { induction n as [|n IH]; intros l Hl.
    - destruct l; [constructor|cbn [length] in Hl; lia].
    - destruct l as [|b0 t]; [constructor|].
      rewrite decode_all_step. constructor; [apply decode1_canonical|].
      apply IH. rewrite skipn_length. cbn [length] in Hl. lia. }
  intros l. apply (H (length l)). lia.
Qed.

(* a canonical reference escaper: copy what may be copied, otherwise the simple escape,
   otherwise (U+0085, U+2028, U+2029) the four-digit form *)
Definition canon_item (q : Z) (s : step) : list Z :=
  if may_copy q (fst s) then snd s
  else match simple_escape (fst s) with
       | Some c => [92; c]
       | None => if fst s =? 133 then [92; 117; 48; 48; 56; 53]
                 else if fst s =? 8232 then [92; 117; 50; 48; 50; 56]
                 else [92; 117; 50; 48; 50; 57]
       end.

Definition escape_canon (q : Z) (text : list Z) : list Z :=
  concat (map (canon_item q) (decode_all text)).

Lemma not_copy_cases : forall q r, q = 39 \/ q = 34 -> may_copy q r = false ->
  r = 39 \/ r = 34 \/ r = 92 \/ r = 10 \/ r = 13 \/ r = 133 \/ r = 8232 \/ r = 8233.
Proof.
  intros q r Hq H. unfold may_copy in H.
  apply andb_false_iff in H. destruct H as [H|H].
  - apply andb_false_iff in H. destruct H as [H|H]; apply negb_false_iff in H; apply Z.eqb_eq in H.
    + destruct Hq; lia.
    + lia.
  - apply negb_false_iff in H. apply line_break_cases in H. lia.
Qed.

Lemma canon_item_ok : forall q s, q = 39 \/ q = 34 -> step_canonical s -> esc_item q s (canon_item q s).
Proof.
  intros q [r bs] Hq Hc. unfold canon_item. cbn [fst snd].
  destruct (may_copy q r) eqn:Em; [constructor; exact Em|].
  apply (not_copy_cases q r Hq) in Em.
  unfold step_canonical in Hc. cbn [fst snd] in Hc.
  assert (Hsmall : r < 128 -> bs = [r]).
  { intros Hr. destruct Hc as [[Hb _]|[[Hb _]|[Hb _]]]; [exact Hb|lia|lia]. }
  assert (Hbig : 128 <= r -> r <> 65533 -> bs = encode_rune r).
  { intros Hr Hne. destruct Hc as [[_ Hb]|[[Hb _]|[_ Hb]]]; [lia|lia|exact Hb]. }
  destruct Em as [->|[->|[->|[->|[->|[->|[->| ->]]]]]]].
  - rewrite (Hsmall ltac:(lia)). apply (EI_simple q 39 39). reflexivity.
  - rewrite (Hsmall ltac:(lia)). apply (EI_simple q 34 34). reflexivity.
  - rewrite (Hsmall ltac:(lia)). apply (EI_simple q 92 92). reflexivity.
  - rewrite (Hsmall ltac:(lia)). apply (EI_simple q 10 110). reflexivity.
  - rewrite (Hsmall ltac:(lia)). apply (EI_simple q 13 114). reflexivity.
  - rewrite (Hbig ltac:(lia) ltac:(lia)). apply (EI_u q 133 48 48 56 53); reflexivity.
  - rewrite (Hbig ltac:(lia) ltac:(lia)). apply (EI_u q 8232 50 48 50 56); reflexivity.
  - rewrite (Hbig ltac:(lia) ltac:(lia)). apply (EI_u q 8233 50 48 50 57); reflexivity.
Qed.

Theorem escape_canon_escaping : forall q text, q = 39 \/ q = 34 -> escaping q text (escape_canon q text).
Proof.
  intros q text Hq. unfold escaping, escape_canon.
  pose proof (decode_all_canonical text) as Hc.
  induction Hc as [|s ss Hs _ IH]; [constructor|].
  cbn [map concat]. constructor; [apply canon_item_ok; assumption|exact IH].
Qed.

Corollary escaping_total : forall q text, q = 39 \/ q = 34 -> exists body, escaping q text body.
Proof. intros q text Hq. exists (escape_canon q text). apply escape_canon_escaping. exact Hq. Qed.

(* every text can be written as a literal that scans back to it *)
Corollary every_text_has_a_literal : forall q text, q = 39 \/ q = 34 -> forall rest pos, exists tok,
  scan_one (decode_all ([q] ++ escape_canon q text ++ [q] ++ rest)) pos = (tok, decode_all rest) /\
  tk tok = KString /\ tval tok = text /\ tdiags tok = [].
Proof.
  intros q text Hq rest pos.
  destruct (string_roundtrip q text _ (escape_canon_escaping q text Hq) Hq rest pos)
    as (tok & H1 & H2 & H3 & H4 & _).
  exists tok. repeat split; assumption.
Qed.

(* ---------- instances (the hypotheses are satisfiable in every escape form) ---------- *)

(* the text  a, quote, double-quote, backslash, LF, e-acute, byte FF, U+2028, NUL, A  written
   between single quotes with the items: a, backslash-quote, double quote verbatim,
   backslash-backslash, backslash-n, backslash-u00E9, byte FF verbatim, backslash-u2028,
   backslash-0, backslash-x41 *)
Example escaping_instance :
  escaping 39 [97; 39; 34; 92; 10; 195; 169; 255; 226; 128; 168; 0; 65]
    ([97] ++ [92; 39] ++ [34] ++ [92; 92] ++ [92; 110] ++ [92; 117; 48; 48; 69; 57] ++ [255] ++
     [92; 117; 50; 48; 50; 56] ++ [92; 48] ++ [92; 120; 52; 49] ++ []).
Proof.
  unfold escaping.
  change (decode_all [97; 39; 34; 92; 10; 195; 169; 255; 226; 128; 168; 0; 65]) with
    [(97, [97]); (39, [39]); (34, [34]); (92, [92]); (10, [10]); (233, [195; 169]); (65533, [255]);
     (8232, [226; 128; 168]); (0, [0]); (65, [65])].
  apply ES_cons; [apply EI_copy; reflexivity|].
  apply ES_cons; [apply (EI_simple 39 39 39); reflexivity|].
  apply ES_cons; [apply EI_copy; reflexivity|].
  apply ES_cons; [apply (EI_simple 39 92 92); reflexivity|].
  apply ES_cons; [apply (EI_simple 39 10 110); reflexivity|].
  apply ES_cons; [apply (EI_u 39 233 48 48 69 57); reflexivity|].
  apply ES_cons; [apply EI_copy; reflexivity|].
  apply ES_cons; [apply (EI_u 39 8232 50 48 50 56); reflexivity|].
  apply ES_cons; [apply (EI_simple 39 0 48); reflexivity|].
  apply ES_cons; [apply (EI_x 39 65 52 49); reflexivity|].
  apply ES_nil.
Qed.

Example escape_canon_instance :
  escape_canon 34 [97; 39; 34; 92; 10; 195; 169; 255; 226; 128; 168; 0; 194; 133] =
  [97; 39; 92; 34; 92; 92; 92; 110; 195; 169; 255; 92; 117; 50; 48; 50; 56; 0; 92; 117; 48; 48; 56; 53].
Proof. vm_compute. reflexivity. Qed.

(* ---------- evaluator side ---------- *)

Theorem literal_value_returned_as_is : forall hosts local_off v st,
  eval hosts local_off (SLit KString v) st = (Ok (VStr v), st).
Proof. reflexivity. Qed.
